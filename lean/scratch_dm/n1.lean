import GraphiqModel.Model.Noise
namespace Graphiq.Noise
open DM

/-- noise applications before / after the gate that the property asks for: one per attached non-`NoNoise` noise, on the
    addressed qubit, on the side its `After gate` flag names -/
def wanted (np : Nat) (op : COp) (k : Nat) (after : Bool) : List Act :=
  (if !op.n0.isNone && op.n0.after == after then [Act.noise k 0 (qIndex np op.r1 op.t1) op.n0] else []) ++
  (if op.kind.isCtrlPair && !op.n1.isNone && op.n1.after == after then [Act.noise k 1 (qIndex np op.r2 op.t2) op.n1] else [])

/-- operations on which additive noise is supported by both compilers -/
def Supported (op : COp) : Prop :=
  (op.kind.isOneQubit = true ∨ op.kind.isCtrlPair = true) ∧ op.n0.isAdditive = true ∧
  (op.kind.isCtrlPair = true → op.n1.isAdditive = true)

theorem kind_excl (k : Kind) : ¬ (k.isOneQubit = true ∧ k.isCtrlPair = true) := by cases k <;> simp [Kind.isOneQubit, Kind.isCtrlPair]
theorem kind_excl2 (k : Kind) : ¬ (k.isOneQubit = true ∧ k.isClassicalCtrl = true) := by cases k <;> simp [Kind.isOneQubit, Kind.isClassicalCtrl]
theorem kind_excl3 (k : Kind) : ¬ (k.isCtrlPair = true ∧ k.isClassicalCtrl = true) := by cases k <;> simp [Kind.isCtrlPair, Kind.isClassicalCtrl]

@[simp] theorem isNone_none : NoiseM.none.isNone = true := rfl
theorem isNone_after (n : NoiseM) (h : n.isNone = true) : n.after = true := by cases n <;> simp_all [NoiseM.isNone, NoiseM.after]
theorem isNone_additive (n : NoiseM) (h : n.isNone = true) : n.isAdditive = true := by cases n <;> simp_all [NoiseM.isNone, NoiseM.isAdditive]

/-- **C06 (a), noise on.** -/
theorem placeOp_supported (be : Backend) (np : Nat) (op : COp) (k : Nat) (hs : Supported op) :
    placeOp true be np op k = .ok (wanted np op k false ++ [Act.gate k] ++ wanted np op k true) := by
  obtain ⟨hk, h0, h1⟩ := hs
  rcases hk with hk | hk
  · -- one-qubit operation
    have hc : op.kind.isCtrlPair = false := by
      cases h : op.kind.isCtrlPair with
      | false => rfl
      | true => exact absurd ⟨hk, h⟩ (kind_excl _)
    have hcc : op.kind.isClassicalCtrl = false := by
      cases h : op.kind.isClassicalCtrl with
      | false => rfl
      | true => exact absurd ⟨hk, h⟩ (kind_excl2 _)
    cases hn : op.n0.isNone with
    | true =>
      have := isNone_after _ hn
      simp [placeOp, wanted, hc, hcc, hn]
    | false =>
      cases ha : op.n0.after <;> simp [placeOp, wanted, addl, hc, hcc, hn, h0, hk, ha, Except.map]
  · -- controlled pair
    have h1' := h1 hk
    have ho : op.kind.isOneQubit = false := by
      cases h : op.kind.isOneQubit with
      | false => rfl
      | true => exact absurd ⟨h, hk⟩ (kind_excl _)
    cases hn0 : op.n0.isNone <;> cases hn1 : op.n1.isNone <;> cases ha0 : op.n0.after <;> cases ha1 : op.n1.after <;>
      first
      | (exfalso; have := isNone_after _ hn0; simp_all; done)
      | (exfalso; have := isNone_after _ hn1; simp_all; done)
      | simp [placeOp, wanted, addl, hk, ho, hn0, hn1, h0, h1', ha0, ha1, Except.map]

end Graphiq.Noise
