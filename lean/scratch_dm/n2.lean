import Mathlib.Tactic.Ring
import Mathlib.Tactic.Linarith
import Mathlib.Algebra.Order.Field.Rat
import GraphiqModel.Model.Noise
namespace Graphiq.Noise
open DM

theorem foldl_add_init (l : List Rat) (a : Rat) : l.foldl (· + ·) a = a + l.foldl (· + ·) 0 := by
  induction l generalizing a with
  | nil => simp
  | cons x xs ih =>
    simp only [List.foldl_cons]
    rw [ih (a + x), ih (0 + x)]; ring

theorem qsumL_nil : qsumL [] = 0 := rfl
theorem qsumL_cons (x : Rat) (l : List Rat) : qsumL (x :: l) = x + qsumL l := by
  unfold qsumL; simp only [List.foldl_cons]; rw [foldl_add_init]; ring
theorem qsumL_append (a b : List Rat) : qsumL (a ++ b) = qsumL a + qsumL b := by
  induction a with
  | nil => simp [qsumL_nil]
  | cons x xs ih => simp only [List.cons_append, qsumL_cons, ih]; ring

namespace Mix

theorem total_nil : total [] = 0 := rfl
theorem total_cons (p : Rat) (t : Tab) (m : Mixture) : total ((p, t) :: m) = p + total m := by
  unfold total; simp [qsumL_cons]
theorem total_append (a b : Mixture) : total (a ++ b) = total a + total b := by
  unfold total; simp [qsumL_append]

/-- `PhotonLoss` multiplies the total weight by the survival probability -/
theorem total_eraseIdx : ∀ (l : Mixture) (i : Nat) (p : Rat) (t : Tab), l[i]? = some (p, t) →
    total l = p + total (l.eraseIdx i)
  | [], _, _, _, h => by simp at h
  | (p0, t0) :: rest, 0, p, t, h => by
    simp at h; obtain ⟨rfl, rfl⟩ := h
    simp [total_cons]
  | (p0, t0) :: rest, i+1, p, t, h => by
    simp at h
    have ih := total_eraseIdx rest i p t h
    simp only [List.eraseIdx_cons_succ, total_cons, ih]; ring

/-- `PhotonLoss` multiplies the total weight by the survival probability -/
theorem total_photonLoss (r : Rat) (m : Mixture) : total (photonLoss r m) = (1 - r) * total m := by
  induction m with
  | nil => simp [photonLoss, total_nil]
  | cons h t ih =>
    obtain ⟨p, tb⟩ := h
    have : photonLoss r ((p, tb) :: t) = ((1 - r) * p, tb) :: photonLoss r t := by simp [photonLoss]
    rw [this, total_cons, total_cons, ih]; ring

theorem total_mapTab (f : Tab → Tab) (m : Mixture) : total (mapTab f m) = total m := by
  induction m with
  | nil => simp [mapTab, total_nil]
  | cons h t ih =>
    obtain ⟨p, tb⟩ := h
    have : mapTab f ((p, tb) :: t) = (p, (f tb).norm) :: mapTab f t := by simp [mapTab]
    rw [this, total_cons, total_cons, ih]

theorem total_measure (q : Nat) (det : Bool) (m : Mixture) : total (measure q det m).1 = total m := by
  induction m with
  | nil => simp [measure, total_nil]
  | cons h t ih =>
    obtain ⟨p, tb⟩ := h
    simp only [measure, List.map_cons, List.map_map] at ih ⊢
    rw [total_cons, total_cons]
    congr 1

theorem measure_length (q : Nat) (det : Bool) (m : Mixture) :
    (measure q det m).1.length = m.length ∧ (measure q det m).2.length = m.length := by
  simp [measure]

theorem total_conditioned (f : Tab → Tab) : ∀ (outs : List Bool) (m : Mixture), outs.length = m.length →
    total (conditioned f outs m) = total m
  | [], [], _ => by simp [conditioned, total_nil]
  | [], _ :: _, h => by simp at h
  | _ :: _, [], h => by simp at h
  | o :: os, (p, t) :: m, h => by
    have ih := total_conditioned f os m (by simpa using h)
    have : conditioned f (o :: os) ((p, t) :: m) =
        (if o then (p, (f t).norm) else (p, t)) :: conditioned f os m := by simp [conditioned]
    rw [this]
    cases o <;> simp [total_cons, ih]

theorem reduceScan_total (t0 : Tab) : ∀ (fuel i : Nat) (p0 : Rat) (l : Mixture),
    (reduceScan t0 fuel i p0 l).1 + total (reduceScan t0 fuel i p0 l).2 = p0 + total l ∧
    (reduceScan t0 fuel i p0 l).2.length ≤ l.length
  | 0, _, _, _ => by simp [reduceScan]
  | fuel+1, i, p0, l => by
    unfold reduceScan
    cases hl : l[i]? with
    | none => simp
    | some pt =>
      obtain ⟨pi, ti⟩ := pt
      simp only
      split
      · have ih := reduceScan_total t0 fuel (i + 1) (p0 + pi) (l.eraseIdx i)
        have hi : i < l.length := by
          rcases Nat.lt_or_ge i l.length with h | h
          · exact h
          · rw [List.getElem?_eq_none_iff.2 h] at hl; cases hl
        have hsplit : total l = pi + total (l.eraseIdx i) := total_eraseIdx l i pi ti hl
        constructor
        · rw [ih.1, hsplit]; ring
        · have : (l.eraseIdx i).length = l.length - 1 := List.length_eraseIdx_of_lt hi
          omega
      · exact reduceScan_total t0 fuel (i + 1) p0 l

/-- `MixedStabilizer.reduce()` — popping while enumerating included — never changes the total weight -/
theorem total_reduce : ∀ (fuel : Nat) (m : Mixture), m.length ≤ fuel → total (reduce fuel m) = total m
  | 0, m, h => by
    have : m = [] := List.eq_nil_of_length_eq_zero (by omega)
    subst this; simp [reduce, total_nil]
  | fuel+1, [], _ => by simp [reduce, total_nil]
  | fuel+1, (p0, t0) :: rest, h => by
    have hs := reduceScan_total t0 rest.length 0 p0 rest
    simp only [reduce]
    rw [total_cons, total_cons, total_reduce fuel _ (by simp at h; omega)]
    exact hs.1

/-- what `DepolarizingNoise.apply` builds from one branch: the Kraus terms whose weight is positive -/
def depolBranch (p : Rat) (q : Nat) (pi : Rat) (ti : Tab) : Mixture :=
  (List.range 4).filterMap fun k =>
    let f := (depolFactors p).getD k 0
    if 0 < pi * f then some (pi * f, (pauliGate k ti q).norm) else none

theorem total_depolBranch (p : Rat) (q : Nat) (pi : Rat) (ti : Tab) (hp0 : 0 ≤ p) (hp1 : p ≤ 1) (hpi : 0 ≤ pi) :
    total (depolBranch p q pi ti) = pi := by
  have e : List.range 4 = [0, 1, 2, 3] := by decide
  unfold depolBranch depolFactors
  rw [e]
  have h1 : 0 ≤ pi * (1 - p) := mul_nonneg hpi (by linarith)
  have h2 : 0 ≤ pi * (p / 3) := mul_nonneg hpi (div_nonneg hp0 (by norm_num))
  simp only [List.filterMap_cons, List.filterMap_nil, List.getD_cons_zero, List.getD_cons_succ]
  rcases lt_or_eq_of_le h1 with a | a <;> rcases lt_or_eq_of_le h2 with b | b
  · simp only [a, b, if_true, total_cons, total_nil]; ring
  · have : ¬ (0 < pi * (p / 3)) := by rw [← b]; exact lt_irrefl 0
    simp only [a, this, if_true, if_false, total_cons, total_nil]; linarith
  · have : ¬ (0 < pi * (1 - p)) := by rw [← a]; exact lt_irrefl 0
    simp only [b, this, if_true, if_false, total_cons, total_nil]; linarith
  · have h3 : ¬ (0 < pi * (1 - p)) := by rw [← a]; exact lt_irrefl 0
    have h4 : ¬ (0 < pi * (p / 3)) := by rw [← b]; exact lt_irrefl 0
    simp only [h3, h4, if_false, total_nil]; linarith

theorem total_flatMap_depol (p : Rat) (q : Nat) (hp0 : 0 ≤ p) (hp1 : p ≤ 1) :
    ∀ (m : Mixture), (∀ x ∈ m, 0 ≤ x.1) → total (m.flatMap fun x => depolBranch p q x.1 x.2) = total m
  | [], _ => by simp [total_nil]
  | (pi, ti) :: rest, h => by
    simp only [List.flatMap_cons, total_append, total_cons]
    rw [total_depolBranch p q pi ti hp0 hp1 (h (pi, ti) (by simp)),
        total_flatMap_depol p q hp0 hp1 rest (fun x hx => h x (by simp [hx]))]

/-- `DepolarizingNoise.apply` keeps the total weight whenever it returns (its own `np.isclose` guard), … -/
theorem total_depolarize (p : Rat) (q : Nat) (m m' : Mixture) (h : depolarize p q m = .ok m') : total m' = total m := by
  unfold depolarize at h
  simp only at h
  split at h
  · cases h
  · rename_i hne
    split at h
    · cases h
    · injection h with h; subst h
      rw [total_reduce _ _ (Nat.le_refl _)]
      exact not_not.mp hne

/-- … and for a probability `0 ≤ p ≤ 1` and non-negative weights the guard never fires: the only way
    `DepolarizingNoise.apply` can fail on a mixture is the empty mixture of D37 (total weight 0) -/
theorem depolarize_ok (p : Rat) (q : Nat) (m : Mixture) (hp0 : 0 ≤ p) (hp1 : p ≤ 1) (hm : ∀ x ∈ m, 0 ≤ x.1)
    (hpos : 0 < total m) : ∃ m', depolarize p q m = .ok m' := by
  have key : total (m.flatMap fun x => depolBranch p q x.1 x.2) = total m := total_flatMap_depol p q hp0 hp1 m hm
  unfold depolarize
  simp only
  have e : (m.flatMap fun (x : Rat × Tab) => match x with
      | (pi, ti) => (List.range 4).filterMap fun k =>
        if 0 < pi * (depolFactors p).getD k 0 then some (pi * (depolFactors p).getD k 0, (pauliGate k ti q).norm) else none)
      = m.flatMap fun x => depolBranch p q x.1 x.2 := by
    congr 1
  rw [e]
  rw [if_neg (by rw [key]; exact fun h => h rfl)]
  have hne : (m.flatMap fun x => depolBranch p q x.1 x.2).isEmpty = false := by
    cases hl : (m.flatMap fun x => depolBranch p q x.1 x.2) with
    | nil => rw [hl, total_nil] at key; linarith
    | cons _ _ => rfl
  rw [hne]; exact ⟨_, rfl⟩

end Mix

/-- survival factor contributed by one action: `1 − rate` for a photon-loss application, `1` for everything else -/
def lossOf : Act → Rat
  | .noise _ _ _ (.loss r _) => 1 - r
  | _ => 1

/-- `∏ (1 − loss_j)` over the loss events of a trace -/
def lossFactor : List Act → Rat
  | [] => 1
  | a :: as => lossOf a * lossFactor as

theorem lossFactor_append (a b : List Act) : lossFactor (a ++ b) = lossFactor a * lossFactor b := by
  induction a with
  | nil => simp [lossFactor]
  | cons x xs ih => simp only [List.cons_append, lossFactor, ih]; ring

theorem applyNoise_total (nm : NoiseM) (q : Nat) (m m' : Mixture) (h : Mix.applyNoise nm q m = .ok m') :
    Mix.total m' = (match nm with | .loss r _ => 1 - r | _ => 1) * Mix.total m := by
  cases nm with
  | none => simp [Mix.applyNoise] at h; subst h; simp
  | depol p a => simp only [Mix.applyNoise] at h; rw [Mix.total_depolarize p q m m' h]; simp
  | pauli k a =>
    simp only [Mix.applyNoise] at h
    cases k <;> simp [Mix.pauliError] at h <;> subst h <;> simp [Mix.total_mapTab]
  | loss r a => simp [Mix.applyNoise] at h; subst h; exact Mix.total_photonLoss r m
  | replace => simp [Mix.applyNoise] at h
  | other => simp [Mix.applyNoise] at h

theorem stabMap1_total (n q : Nat) (f : Tab → Tab) (s s' : StabSt) (h : stabMap1 n q f s = .ok s') :
    Mix.total s'.mix = Mix.total s.mix := by
  unfold stabMap1 at h; split at h
  · injection h with h; subst h; simp [Mix.total_mapTab]
  · cases h

theorem stabMap2_total (n q1 q2 : Nat) (f : Tab → Tab) (s s' : StabSt) (h : stabMap2 n q1 q2 f s = .ok s') :
    Mix.total s'.mix = Mix.total s.mix := by
  unfold stabMap2 at h; split at h
  · injection h with h; subst h; simp [Mix.total_mapTab]
  · cases h

theorem stabClassical_total (n q1 q2 c : Nat) (det : Bool) (f : Tab → Tab) (reset : Bool) (s s' : StabSt)
    (h : stabClassical n q1 q2 c det f reset s = .ok s') : Mix.total s'.mix = Mix.total s.mix := by
  unfold stabClassical at h; split at h
  · injection h with h; subst h
    have hl := Mix.measure_length q1 det s.mix
    have hc := Mix.total_conditioned f (Mix.measure q1 det s.mix).2 (Mix.measure q1 det s.mix).1 (by rw [hl.1, hl.2])
    cases reset <;> simp [Mix.total_mapTab, hc, Mix.total_measure]
  · cases h

theorem stabMeasZ_total (n q1 c : Nat) (det : Bool) (s s' : StabSt) (h : stabMeasZ n q1 c det s = .ok s') :
    Mix.total s'.mix = Mix.total s.mix := by
  unfold stabMeasZ at h; split at h
  · injection h with h; subst h; simp [Mix.total_measure]
  · cases h

theorem stabGate_total (np n : Nat) (det : Bool) (op : COp) (s s' : StabSt) (h : stabGate np n det op s = .ok s') :
    Mix.total s'.mix = Mix.total s.mix := by
  unfold stabGate at h
  simp only at h
  cases hk : op.kind <;> simp only [hk] at h
  all_goals first
    | (injection h with h; subst h; rfl)
    | exact stabMap1_total _ _ _ _ _ h
    | exact stabMap2_total _ _ _ _ _ _ h
    | exact stabClassical_total _ _ _ _ _ _ _ _ _ h
    | exact stabMeasZ_total _ _ _ _ _ _ h
    | cases h

theorem stabAct_total (np n : Nat) (det : Bool) (arr : Array COp) (s s' : StabSt) (a : Act)
    (h : stabAct np n det arr s a = .ok s') : Mix.total s'.mix = lossOf a * Mix.total s.mix := by
  cases a with
  | gate k => simp only [stabAct] at h; rw [stabGate_total _ _ _ _ _ _ h]; simp [lossOf]
  | noise k side q nm =>
    simp only [stabAct] at h
    cases hn : Mix.applyNoise nm q s.mix with
    | error e => rw [hn] at h; cases h
    | ok m' =>
      rw [hn] at h; injection h with h; subst h
      rw [applyNoise_total nm q s.mix m' hn]
      cases nm <;> simp [lossOf]
  | replace k => simp [stabAct] at h

theorem runStabActs_total (np n : Nat) (det : Bool) (arr : Array COp) :
    ∀ (acts : List Act) (s s' : StabSt), runStabActs np n det arr acts s = .ok s' →
      Mix.total s'.mix = lossFactor acts * Mix.total s.mix
  | [], s, s', h => by simp [runStabActs] at h; subst h; simp [lossFactor]
  | a :: as, s, s', h => by
    simp only [runStabActs] at h
    cases ha : stabAct np n det arr s a with
    | error e => rw [ha] at h; cases h
    | ok s1 =>
      rw [ha] at h
      rw [runStabActs_total np n det arr as s1 s' h, stabAct_total np n det arr s s1 a ha]
      simp only [lossFactor]; ring

/-- **C06 (b), every circuit.**  Whenever the stabilizer compile loop returns, the placement tree produced a trace and the
    total weight of the mixture is the initial weight times `∏ (1 − loss_j)` over the loss events of that trace. -/
theorem stabGo_total (noiseSim : Bool) (np n : Nat) (det : Bool) (arr : Array COp) :
    ∀ (ops : List COp) (k : Nat) (s s' : StabSt), stabGo noiseSim np n det arr ops k s = .ok s' →
      ∃ tr, traceGo noiseSim .stab np ops k = .ok tr ∧ Mix.total s'.mix = lossFactor tr * Mix.total s.mix
  | [], k, s, s', h => by
    simp [stabGo] at h; subst h; exact ⟨[], rfl, by simp [lossFactor]⟩
  | op :: rest, k, s, s', h => by
    simp only [stabGo] at h
    split at h
    · cases h
    · cases hp : placeOp noiseSim .stab np op k with
      | error e => rw [hp] at h; cases h
      | ok acts =>
        rw [hp] at h; simp only at h
        cases hr : runStabActs np n det arr acts s with
        | error e => rw [hr] at h; cases h
        | ok s1 =>
          rw [hr] at h; simp only at h
          obtain ⟨tr, htr, ht⟩ := stabGo_total noiseSim np n det arr rest (k + 1) s1 s' h
          refine ⟨acts ++ tr, ?_, ?_⟩
          · simp only [traceGo, hp, htr]
          · rw [ht, runStabActs_total np n det arr acts s s1 hr, lossFactor_append]; ring

end Graphiq.Noise