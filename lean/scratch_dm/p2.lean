import Mathlib.Algebra.BigOperators.Group.Finset.Basic
import Mathlib.Algebra.BigOperators.Ring.Finset
import Mathlib.Tactic.Ring
import Mathlib.Tactic.Linarith
import Mathlib.Data.Rat.Defs
import Mathlib.Algebra.Order.Field.Rat
import GraphiqModel.Model.DMSem
open Graphiq
example (a b : Rat) : a * b = b * a := by ring
#check @Finset.sum_comm
#check @Finset.sum_range_succ
#check @Finset.mul_sum
example (a b : Rat) (h : 0 ≤ a) (h2 : a ≤ b) : 0 ≤ b := by linarith
