/-
  EvoMoves.lean — the mutation moves of `EvolutionarySolver` / `HybridEvolutionarySolver` on the wire model
  (`graphiq/solvers/evolutionary_solver.py`, `hybrid_solvers.py`), as a nondeterministic transition system.

  Every move of the Python has the shape  "compute a candidate list by filtering `edge_dict` / `node_dict`; if it is
  empty fall through (to another move, or return); otherwise draw an index with `np.random.randint` (and a Clifford
  index with `np.random.choice`) and edit the circuit".  The model computes the same candidate *sets* (`…Cands`) and
  `step c m` performs the edit for the choice carried by `m`, returning `none` when the choice is not a candidate.
  Candidate list *orders* (the orders of `edge_dict[...]`, of `set` iteration in `get_node_by_labels`) are not modelled:
  the invariants proved do not depend on which candidate is drawn.
-/
import GraphiqModel.Model.Wire
namespace Graphiq.Wire
open Graphiq

/-! ## the 24 local Cliffords `EvolutionarySolver.one_qubit_ops = list(ops.one_qubit_cliffords())` -/

def cliffA : List (List G1) := [[.I], [.H, .P, .H, .P], [.H, .P], [.H], [.P, .H, .P], [.P]]
def cliffB : List (List G1) := [[.I], [.X], [.Y], [.Z]]

/-- `itertools.product(a, b)` flattened as `c[0] + c[1]` -/
def oneQubitOps : List (List G1) := cliffA.flatMap fun a => cliffB.map fun b => a ++ b

def mkWrapper (g : Nat) (r : Reg) (fixed : Bool) : Op := ⟨.wrapper (oneQubitOps.getD g []), [r], [], fixed⟩

/-! ## candidate sets -/

def Circuit.wrapperV (c : Circuit) (v : V) : Bool :=
  match c.kindOfV v with
  | some k => k.isWrapper
  | none => false

def Circuit.kindIs (c : Circuit) (v : V) (k : Kind) : Bool := decide (c.kindOfV v = some k)

/-- `add_emitter_one_qubit_op`: emitter edges whose head is not an Output and whose two ends are not wrappers -/
def Circuit.emitterEdgeCands (c : Circuit) : List Edge :=
  (c.edgesOf .e).filter fun e => !(c.dst e).isOut && !c.wrapperV (c.src e) && !c.wrapperV (c.dst e)

/-- `add_photon_one_qubit_op`: photon edges leaving a `CNOT` and not entering a wrapper -/
def Circuit.photonEdgeCands (c : Circuit) : List Edge :=
  (c.edgesOf .p).filter fun e => c.kindIs (c.src e) .cnot && !c.wrapperV (c.dst e)

/-- `get_node_by_labels(["OneQubitGateWrapper", "Photonic" | "Emitter"])` -/
def Circuit.replaceCands (c : Circuit) (t : RegType) : List Nat :=
  c.nodeIds.filter fun n => match c.node n with
    | some ⟨.wrapper _, [r], _, _⟩ => decide (r.ty = t)
    | _ => false

/-- `get_node_exclude_labels(["Fixed", "Input", "Output"])` -/
def Circuit.removeCands (c : Circuit) : List Nat :=
  c.nodeIds.filter fun n => match c.node n with
    | some op => !op.fixed
    | none => false

/-- `_select_possible_cnot_position`: the emitter edges that may carry a two-qubit gate -/
def Circuit.cnotEdges (c : Circuit) : List Edge := (c.edgesOf .e).filter fun e => !(c.dst e).isOut

def Circuit.cnotPairCands (c : Circuit) : List (Edge × Edge) :=
  c.cnotEdges.flatMap fun e1 =>
    let inf := c.incompatInfo e1
    (c.cnotEdges.filter fun e2 => !c.isIncompatible e1 inf e2).map fun e2 => (e1, e2)

/-- `_select_possible_measurement_position` -/
def Circuit.mcrEEdges (c : Circuit) : List Edge :=
  (c.edgesOf .e).filter fun e =>
    !(c.dst e).isOut && !c.kindIs (c.dst e) .mcr && !(c.src e).isInp && !c.kindIs (c.src e) .mcr

def Circuit.mcrPEdges (c : Circuit) : List Edge :=
  (c.edgesOf .p).filter fun e => !c.kindIs (c.dst e) .mcr && !(c.src e).isInp

def Circuit.mcrPairCands (c : Circuit) : List (Edge × Edge) :=
  c.mcrEEdges.flatMap fun e1 =>
    let inf := c.incompatInfo e1
    (c.mcrPEdges.filter fun e2 => !c.isIncompatible e1 inf e2).map fun e2 => (e1, e2)

/-! ## moves -/

inductive Trans where
  | addEmitterOneQubitOp | addPhotonOneQubitOp | replacePhotonOneQubitOp | replaceEmitterOneQubitOp
  | addEmitterCnot | removeOp | addMeasurementCnotAndReset
  deriving DecidableEq, Repr, Inhabited

/-- what the random draws selected -/
inductive Choice where
  | none
  | node (n : Nat)
  | edge (e : Edge)
  | pair (e1 e2 : Edge)
  deriving DecidableEq, Repr, Inhabited

structure Move where
  t : Trans
  ch : Choice
  /-- index into `one_qubit_ops` (ignored by the moves that draw no Clifford) -/
  g : Nat
  deriving Repr, Inhabited

def exceptToOption {α : Type} : Except Err α → Option α
  | .ok a => some a
  | .error _ => none

/-- `replace_photon_one_qubit_op` (`t = p`, new wrapper labelled `Fixed`) / `replace_emitter_one_qubit_op` -/
def Circuit.stepReplace (c : Circuit) (t : RegType) (ch : Choice) (g : Nat) : Option Circuit :=
  if c.replaceCands t = [] then (if ch = .none then some c else none)
  else match ch with
    | .node n =>
      if n ∈ c.replaceCands t ∧ g < 24 then
        match c.node n with
        | some ⟨_, [r], _, _⟩ => exceptToOption (c.replaceOpE n (mkWrapper g r (decide (t = .p))))
        | _ => none
      else none
    | _ => none

/-- the two-qubit insertion shared by `add_emitter_cnot` and `add_measurement_cnot_and_reset` -/
def Circuit.stepPair (c : Circuit) (kind : Kind) (cr : List Nat) (e1 e2 : Edge) : Option Circuit :=
  -- `insert_at` would create a missing classical register; the solvers' circuits always have `c0`, and the model is
  -- restricted to circuits in which the classical registers of the new operation exist
  if cr.all (fun i => decide (i < c.nc)) then
    exceptToOption (c.insertAtE ⟨kind, [e1.r, e2.r], cr, false⟩ [e1, e2])
  else none

def Circuit.step (c : Circuit) (m : Move) : Option Circuit :=
  match m.t with
  | .addEmitterOneQubitOp =>
    if c.emitterEdgeCands = [] then c.stepReplace .e m.ch m.g
    else match m.ch with
      | .edge e =>
        if e ∈ c.emitterEdgeCands ∧ m.g < 24 then exceptToOption (c.insertAtE (mkWrapper m.g e.r false) [e]) else none
      | _ => none
  | .addPhotonOneQubitOp =>
    if c.photonEdgeCands = [] then c.stepReplace .p m.ch m.g
    else match m.ch with
      | .edge e =>
        if e ∈ c.photonEdgeCands ∧ m.g < 24 then exceptToOption (c.insertAtE (mkWrapper m.g e.r false) [e]) else none
      | _ => none
  | .replacePhotonOneQubitOp => c.stepReplace .p m.ch m.g
  | .replaceEmitterOneQubitOp => c.stepReplace .e m.ch m.g
  | .removeOp =>
    if c.removeCands = [] then (if m.ch = .none then some c else none)
    else match m.ch with
      | .node n => if n ∈ c.removeCands then some (c.removeOp n) else none
      | _ => none
  | .addEmitterCnot =>
    -- an empty candidate list gives a warning and no change; the emptiness test needs every saturation closed
    match m.ch with
    | .none => if c.cnotPairCands = [] ∧ c.cnotEdges.all (fun e => (c.incompatInfo e).closed) then some c else none
    | .pair e1 e2 =>
      let inf := c.incompatInfo e1
      if inf.closed ∧ e1 ∈ c.cnotEdges ∧ e2 ∈ c.cnotEdges ∧ c.isIncompatible e1 inf e2 = false then
        c.stepPair .cnot [] e1 e2
      else none
    | _ => none
  | .addMeasurementCnotAndReset =>
    match m.ch with
    | .none => if c.mcrPairCands = [] ∧ c.mcrEEdges.all (fun e => (c.incompatInfo e).closed) then some c else none
    | .pair e1 e2 =>
      let inf := c.incompatInfo e1
      if inf.closed ∧ e1 ∈ c.mcrEEdges ∧ e2 ∈ c.mcrPEdges ∧ c.isIncompatible e1 inf e2 = false then
        c.stepPair .mcr [0] e1 e2
      else none
    | _ => none

/-- a finite history of moves -/
def Circuit.run (c : Circuit) : List Move → Option Circuit
  | [] => some c
  | m :: ms => (c.step m).bind fun c' => c'.run ms

/-! ## initial circuits -/

structure EAState where
  assignment : List Nat
  /-- `len(available_emitter)` (its entries are never read) -/
  avail : Nat
  used : Nat
  draws : List Nat
  ok : Bool
  deriving Repr

/-- one iteration `i` of the loop of `get_emission_assignment` (`draws` = results of `np.random.randint`) -/
def eaStep (np ne : Nat) (s : EAState) (i : Nat) : EAState :=
  if np - i = ne - s.used then
    let used' := s.used + 1
    { s with assignment := s.assignment ++ [s.used], used := used',
             avail := if used' < ne then s.avail + 1 else s.avail }
  else match s.draws with
    | [] => { s with ok := false }
    | d :: ds =>
      if d < s.avail then
        let s1 := { s with assignment := s.assignment ++ [d], draws := ds }
        if d = s.used ∧ s.used < ne then
          let used' := s.used + 1
          { s1 with used := used', avail := if used' < ne then s1.avail + 1 else s1.avail }
        else s1
      else { s with ok := false }

/-- `get_emission_assignment(n_photon, n_emitter)`; `none` when a draw is outside `randint`'s range or draws run out -/
def getEmissionAssignment (np ne : Nat) (draws : List Nat) : Option (List Nat) :=
  if ne = 1 then some (List.replicate np 0)
  else
    let s := (List.range' 1 (np - 1)).foldl (eaStep np ne) ⟨[0], 2, 1, draws, true⟩
    if s.ok then some s.assignment else none

def emissionOp (a i : Nat) : Op := ⟨.cnot, [⟨.e, a⟩, ⟨.p, i⟩], [], true⟩
def initWrapperOp (i : Nat) : Op := ⟨.wrapper [.I, .H], [⟨.p, i⟩], [], true⟩
def finalMcrOp (j t : Nat) : Op := ⟨.mcr, [⟨.e, j⟩, ⟨.p, t⟩], [0], true⟩

/-- `EvolutionarySolver.initialization(emission_assignment, measurement_assignment)` -/
def initialization (ea ma : List Nat) : Except Err Circuit := do
  let c1 ← ea.zipIdx.foldlM (fun c (ai : Nat × Nat) => do
      let c' ← c.add (emissionOp ai.1 ai.2)
      c'.add (initWrapperOp ai.2)) (Circuit.empty ma.length ea.length 1)
  ma.zipIdx.foldlM (fun c (tj : Nat × Nat) => c.add (finalMcrOp tj.2 tj.1)) c1

/-! ## construction order of the deterministic solvers

  `TimeReversedSolver.solve` builds its circuit backwards: every operation is spliced in *directly after the input
  node* of its registers (`_add_one_qubit_gate`, `_add_one_emitter_cnot`, `_add_emitter_photon_cnot`,
  `_add_measurement_cnot_and_reset`), photon by photon from the last to the first; for each photon: an optional
  time-reversed measurement (a `Fixed` measure-and-reset targeting it), its one-qubit gate, emitter gates, and finally
  its `Fixed` emission CNOT — after which nothing touches that photon any more.  `AlternateTargetSolver` takes such a
  circuit and `add`s one-qubit gates on photons at the end.  Which gates are placed is decided by tableau arithmetic
  that is not modelled here; the model is the *discipline*: a `BuildOp` is refused (`none`) when it would touch a
  photon that has already been emitted (other than appending a one-qubit gate), emit a photon twice, etc. -/

inductive BuildOp where
  /-- `_add_one_qubit_gate`, next node is not a wrapper: a new wrapper directly after `<r>_in` -/
  | frontGate (r : Reg) (gs : List G1)
  /-- `_add_one_qubit_gate`, next node is a wrapper: `replace_op` with the combined Clifford -/
  | replaceFront (r : Reg) (gs : List G1)
  /-- `_add_one_qubit_gate`, the combination is the identity: `remove_op` of the wrapper after `<r>_in` -/
  | removeFront (r : Reg)
  /-- `_add_one_emitter_cnot(control, target)` -/
  | emitterCnot (ctl tgt : Nat)
  /-- `_add_emitter_photon_cnot(emitter, photon)`: the `Fixed` emission -/
  | emission (e p : Nat)
  /-- `_add_measurement_cnot_and_reset(emitter, photon)`: `Fixed` -/
  | mcr (e p : Nat)
  /-- `AlternateTargetSolver`: `circuit.add(<one-qubit gate on photon p>)` -/
  | appendGate (p : Nat) (g : G1)
  deriving DecidableEq, Repr, Inhabited

structure BuildSt where
  c : Circuit
  /-- photons whose emission has been placed -/
  emitted : List Nat

def frontEdge (r : Reg) : Edge := ⟨r, 0⟩

def BuildSt.step (s : BuildSt) (op : BuildOp) : Option BuildSt :=
  let photonFree (r : Reg) : Bool := decide (r.ty = .p → r.idx ∉ s.emitted)
  match op with
  | .frontGate r gs =>
    if s.c.validReg r ∧ r.ty ≠ .c ∧ photonFree r then
      some { s with c := s.c.insertAt ⟨.wrapper gs, [r], [], false⟩ [frontEdge r] }
    else none
  | .replaceFront r gs =>
    if s.c.validReg r ∧ r.ty ≠ .c ∧ photonFree r then
      match s.c.wire r with
      | n :: _ =>
        match s.c.node n with
        | some ⟨.wrapper _, [r'], [], _⟩ =>
          if r' = r then some { s with c := s.c.setNode n (some ⟨.wrapper gs, [r], [], false⟩) } else none
        | _ => none
      | [] => none
    else none
  | .removeFront r =>
    if s.c.validReg r ∧ r.ty ≠ .c ∧ photonFree r then
      match s.c.wire r with
      | n :: _ =>
        match s.c.node n with
        | some ⟨.wrapper _, _, _, _⟩ => some { s with c := s.c.removeOp n }
        | _ => none
      | [] => none
    else none
  | .emitterCnot ctl tgt =>
    if ctl < s.c.ne ∧ tgt < s.c.ne ∧ ctl ≠ tgt then
      some { s with c := s.c.insertAt ⟨.cnot, [⟨.e, ctl⟩, ⟨.e, tgt⟩], [], false⟩ [frontEdge ⟨.e, ctl⟩, frontEdge ⟨.e, tgt⟩] }
    else none
  | .emission e p =>
    if e < s.c.ne ∧ p < s.c.np ∧ p ∉ s.emitted then
      some ⟨s.c.insertAt ⟨.cnot, [⟨.e, e⟩, ⟨.p, p⟩], [], true⟩ [frontEdge ⟨.e, e⟩, frontEdge ⟨.p, p⟩], p :: s.emitted⟩
    else none
  | .mcr e p =>
    if e < s.c.ne ∧ p < s.c.np ∧ p ∉ s.emitted ∧ 0 < s.c.nc then
      some { s with c := s.c.insertAt ⟨.mcr, [⟨.e, e⟩, ⟨.p, p⟩], [0], true⟩ [frontEdge ⟨.e, e⟩, frontEdge ⟨.p, p⟩] }
    else none
  | .appendGate p g =>
    if p < s.c.np ∧ p ∈ s.emitted then some { s with c := s.c.addCore ⟨.base g, [⟨.p, p⟩], [], false⟩ } else none

def BuildSt.run (s : BuildSt) : List BuildOp → Option BuildSt
  | [] => some s
  | op :: ops => (s.step op).bind fun s' => s'.run ops

/-- the circuit a deterministic solver returns after the construction history `ops`: every photon must have been emitted -/
def solverCircuit (ne np : Nat) (ops : List BuildOp) : Option Circuit :=
  match (BuildSt.mk (Circuit.empty ne np 1) []).run ops with
  | some s => if (List.range np).all (fun p => decide (p ∈ s.emitted)) then some s.c else none
  | none => none

/-! ## the invariant -/

/-- node `n` is the emission of photon `j`: a `Fixed` CNOT from an emitter onto `p_j` -/
def Circuit.isEmission (c : Circuit) (j n : Nat) : Prop :=
  ∃ i, c.node n = some ⟨.cnot, [⟨.e, i⟩, ⟨.p, j⟩], [], true⟩

/-- node `n` is allowed on photon `j` after the emission: a one-qubit gate on `p_j`, or a classically controlled
    correction with an emitter control and `p_j` as target -/
def Circuit.laterOk (c : Circuit) (j n : Nat) : Prop :=
  ∃ op, c.node n = some op ∧
    ((op.kind.isGate1 = true ∧ op.q = [⟨.p, j⟩]) ∨
     (op.kind.isClassicalControlled = true ∧ ∃ i, op.q = [⟨.e, i⟩, ⟨.p, j⟩]))

/-- structural well-formedness of the wire representation -/
structure Circuit.WF (c : Circuit) : Prop where
  bound : ∀ n op, c.node n = some op → 1 ≤ n ∧ n ≤ c.nid
  invalidEmpty : ∀ r, c.validReg r = false → c.wire r = []
  onNode : ∀ r n, n ∈ c.wire r → (c.node n).isSome = true
  nodup : ∀ r, (c.wire r).Nodup
  qwire : ∀ n op, c.node n = some op → ∀ r, r.ty ≠ .c → (n ∈ c.wire r ↔ r ∈ op.q)
  qvalid : ∀ n op, c.node n = some op → ∀ r, r ∈ op.q → c.validReg r = true ∧ r.ty ≠ .c
  cwire : ∀ n op, c.node n = some op → ∀ i, n ∈ c.wire ⟨.c, i⟩ → i ∈ op.cr

/-- the emission constraints proper -/
structure Circuit.EmitC (c : Circuit) : Prop where
  noPP : ∀ n op, c.node n = some op → ∀ r1 r2, op.q = [r1, r2] → ¬ (r1.ty = .p ∧ r2.ty = .p)
  photon : ∀ j, j < c.np → ∃ h rest, c.wire ⟨.p, j⟩ = h :: rest ∧ c.isEmission j h ∧ ∀ n, n ∈ rest → c.laterOk j n

/-! ### executable checkers (run by the driver on every circuit the implementation produces) -/

def Circuit.isEmissionB (c : Circuit) (j n : Nat) : Bool :=
  match c.node n with
  | some ⟨.cnot, [⟨.e, _⟩, ⟨.p, j'⟩], [], true⟩ => decide (j' = j)
  | _ => false

def Circuit.laterOkB (c : Circuit) (j n : Nat) : Bool :=
  match c.node n with
  | some op =>
    (op.kind.isGate1 && decide (op.q = [⟨.p, j⟩])) ||
    (op.kind.isClassicalControlled && (match op.q with
      | [⟨.e, _⟩, r2] => decide (r2 = ⟨.p, j⟩)
      | _ => false))
  | none => false

def Circuit.emitCB (c : Circuit) : Bool :=
  (c.nodeIds.all fun n => match c.node n with
    | some op => (match op.q with
      | [r1, r2] => !(decide (r1.ty = .p) && decide (r2.ty = .p))
      | _ => true)
    | none => true) &&
  ((List.range c.np).all fun j => match c.wire ⟨.p, j⟩ with
    | h :: rest => c.isEmissionB j h && rest.all (c.laterOkB j)
    | [] => false)

def Circuit.wfB (c : Circuit) : Bool :=
  (c.nodeIds.all fun n => decide (1 ≤ n)) &&
  (c.regs.all fun r => (c.wire r).Nodup && (c.wire r).all fun n => decide (n ≤ c.nid) && (c.node n).isSome) &&
  (c.nodeIds.all fun n => match c.node n with
    | some op =>
      (op.q.all fun r => c.validReg r && decide (r.ty ≠ .c) && decide (n ∈ c.wire r)) &&
      (c.regs.all fun r =>
        if r.ty = .c then (decide (n ∈ c.wire r) → decide (r.idx ∈ op.cr))
        else (decide (n ∈ c.wire r) → decide (r ∈ op.q)))
    | none => true)

/-- the DAG has a cycle-free edge relation: checked executably by looking for a vertex among its own descendants -/
def Circuit.acyclicB (c : Circuit) : Bool :=
  c.nodeIds.all fun n => !decide (V.op n ∈ c.descendants (V.op n))

end Graphiq.Wire
