/-
  Evo.lean — executable model of the random-search machinery of graphiq (C19), no Mathlib.

  Mirrors, function by function:
    graphiq/solvers/solver_base.py      RandomSearchSolver.update_hof, .tournament_selection
    graphiq/solvers/evolutionary_solver.py  EvolutionarySolver.solve (generation loop), adapt_probabilities,
                                            _normalize_trans_prob, population_initialization,
                                            _select_possible_cnot_position, _select_possible_measurement_position
    graphiq/solvers/hybrid_solvers.py   HybridEvolutionarySolver (same loop, other initial population / move table)
    numpy                               np.isclose (scalar case), np.random.choice(p=…) (inverse-CDF on a uniform draw)

  Modelling decisions (DESIGN §2.1, §4 C19):
  * Scores are Python floats; every finite float is a rational, `np.inf` is `Score.inf`.  `np.isclose(a, b)` is the
    exact rule `|a-b| ≤ atol + rtol·|b|` for finite arguments and `a == b` otherwise (numpy ≥ 2 source).  NaN is outside
    the model (no metric of the library returns it).
  * Circuits are *mutable objects*: `population[j][1]` is mutated in place by a transformation, `circuit.copy()` and
    `copy.deepcopy` create new objects.  The model therefore has an explicit heap (`Heap C`, an array of cells) and the
    population / hall of fame hold *references* (cell indices).  A copy allocates a fresh cell.  Aliasing — the thing
    that would make a stored score lie about its stored circuit — is thus expressible, and its absence is a theorem.
  * The transformation applied to a circuit and the compile-and-evaluate pipeline are parameters
    (`Params.mutate : C → D → C`, `Params.metric : C → Score`, `Params.size : C → Nat` = `len(circuit.dag.nodes)`);
    `D` is "the draws consumed by this mutation".  The whole run is a function of the draw stream `Draws D`.
  * Errors are `Except Err`, with the exception class the Python raises (`hof[i]` out of range → IndexError,
    `None.dag` → AttributeError, `min([])` → ValueError).
-/
import GraphiqModel.Model.Bits
namespace Graphiq.Evo
open Graphiq

/-! ## Scores and `np.isclose` -/

/-- a Python float score: a finite rational or `np.inf` -/
inductive Score where
  | fin (q : Rat)
  | inf
  deriving DecidableEq, Inhabited

/-- `rtol`, `atol` of `np.isclose` -/
structure Tol where
  rtol : Rat
  atol : Rat

/-- numpy's defaults `rtol=1e-05, atol=1e-08` (what `update_hof` uses) -/
def Tol.numpy : Tol := ⟨1 / 100000, 1 / 100000000⟩

def absQ (q : Rat) : Rat := if q < 0 then -q else q

namespace Score

/-- Python `a < b` on floats (no NaN) -/
def lt : Score → Score → Bool
  | fin a, fin b => decide (a < b)
  | fin _, inf => true
  | inf, _ => false

/-- Python `a <= b` -/
def le (a b : Score) : Bool := !(lt b a)

/-- `np.isclose(a, b, rtol, atol)` for scalars:
    `(abs(a-b) <= atol + rtol*abs(b)) & isfinite(b) | (a == b)` -/
def isclose (t : Tol) : Score → Score → Bool
  | fin a, fin b => decide (absQ (a - b) ≤ t.atol + t.rtol * absQ b)
  | inf, inf => true
  | _, _ => false

def toString : Score → String
  | fin q => s!"{q.num}/{q.den}"
  | inf => "inf"

end Score

/-! ## The heap of circuit objects -/

/-- mutable circuit objects, addressed by index; a reference is a `Nat` -/
structure Heap (C : Type) where
  cells : Array C

namespace Heap
variable {C : Type}

def size (h : Heap C) : Nat := h.cells.size

/-- dereference -/
def get? (h : Heap C) (r : Nat) : Option C := h.cells[r]?

/-- `circuit.copy()` / `copy.deepcopy(circuit)`: a new object with the same content; returns the new heap and the new
    reference.  A dangling reference cannot occur in Python; the model reports it as `index`. -/
def copy (h : Heap C) (r : Nat) : Except Err (Heap C × Nat) :=
  match h.get? r with
  | none => .error .index
  | some c => .ok (⟨h.cells.push c⟩, h.cells.size)

/-- in-place mutation of the object `r` -/
def modify (h : Heap C) (r : Nat) (f : C → C) : Heap C := ⟨h.cells.modify r f⟩

/-- allocation of a new object -/
def alloc (h : Heap C) (c : C) : Heap C × Nat := (⟨h.cells.push c⟩, h.cells.size)

end Heap

/-! ## Hall of fame and population -/

/-- one `(score, circuit)` tuple of `self.hof`; the circuit is `None` in the initial entries -/
structure HofEntry where
  score : Score
  circ : Option Nat
  deriving DecidableEq, Inhabited

/-- one `(score, circuit)` tuple of `population` -/
structure PopEntry where
  score : Score
  circ : Nat
  deriving DecidableEq, Inhabited

/-- what the solver is parametrised by: the circuit transformations, the compile-trace-evaluate pipeline and the
    node count of a circuit -/
structure Params (C D : Type) where
  /-- `transformation(circuit)` (in place), as a function of the draws it consumes -/
  mutate : C → D → C
  /-- `metric.evaluate(compiler.compile(circuit).partial_trace(…), circuit)`; a *function* of the circuit when
      compilation is outcome-independent or measurement determinism is forced -/
  metric : C → Score
  /-- `len(circuit.dag.nodes)` -/
  size : C → Nat

section UpdateHof
variable {C D : Type}

/-- The `for i in range(self.setting.n_hof)` loop of `update_hof`, for one `(score, circuit)` of the population, from
    iteration `i` with `fuel` iterations left.  Result: `some i` = the iteration at which the Python inserts and breaks,
    `none` = the loop runs to completion without inserting.
    ```
    if np.isclose(score, self.hof[i][0]):
        if len(circuit.dag.nodes) < len(self.hof[i][1].dag.nodes):  insert; pop; break
    elif score < self.hof[i][0]:                                     insert; pop; break
    ``` -/
def scanHof (t : Tol) (size : C → Nat) (h : Heap C) (hof : List HofEntry) (score : Score) (csize : Nat) :
    Nat → Nat → Except Err (Option Nat)
  | _, 0 => .ok none
  | i, fuel + 1 =>
    match hof[i]? with
    | none => .error .index                       -- self.hof[i] : IndexError
    | some e =>
      if score.isclose t e.score then
        match e.circ with
        | none => .error .attribute               -- None.dag : AttributeError
        | some r =>
          match h.get? r with
          | none => .error .index                 -- dangling reference (impossible in Python)
          | some hc =>
            if csize < size hc then .ok (some i) else scanHof t size h hof score csize (i + 1) fuel
      else if score.lt e.score then .ok (some i)
      else scanHof t size h hof score csize (i + 1) fuel

/-- `self.hof.insert(i, x); self.hof.pop()` -/
def insertPop (hof : List HofEntry) (i : Nat) (x : HofEntry) : List HofEntry :=
  (hof.insertIdx i x).dropLast

/-- body of `for score, circuit in population:` in `update_hof` -/
def updateHofOne (t : Tol) (size : C → Nat) (nHof : Nat) (h : Heap C) (hof : List HofEntry) (e : PopEntry) :
    Except Err (Heap C × List HofEntry) :=
  match h.get? e.circ with
  | none => .error .index
  | some c =>
    match scanHof t size h hof e.score (size c) 0 nHof with
    | .error er => .error er
    | .ok none => .ok (h, hof)
    | .ok (some i) =>
      match h.copy e.circ with                     -- circuit.copy()
      | .error er => .error er
      | .ok (h', r) => .ok (h', insertPop hof i ⟨e.score, some r⟩)

/-- `RandomSearchSolver.update_hof(population)` -/
def updateHof (t : Tol) (size : C → Nat) (nHof : Nat) (h : Heap C) (hof : List HofEntry) :
    List PopEntry → Except Err (Heap C × List HofEntry)
  | [] => .ok (h, hof)
  | e :: rest =>
    match updateHofOne t size nHof h hof e with
    | .error er => .error er
    | .ok (h', hof') => updateHof t size nHof h' hof' rest

end UpdateHof

section Tournament
variable {C : Type}

/-- `min(tourn_pop, key=lambda x: x[0])`: the *first* element of minimal score (`None`-like for the empty list, where
    Python raises ValueError) -/
def minByScore : List PopEntry → Option PopEntry
  | [] => none
  | e :: rest => some (rest.foldl (fun best x => if x.score.lt best.score then x else best) e)

/-- `random.choices(population, k=k)` given the `k` drawn indices (each is `floor(random()*len(population))`) -/
def choices (pop : List PopEntry) : List Nat → Except Err (List PopEntry)
  | [] => .ok []
  | i :: is =>
    match pop[i]? with
    | none => .error .index
    | some e =>
      match choices pop is with
      | .error er => .error er
      | .ok es => .ok (e :: es)

/-- the `for i in range(self.setting.n_pop)` loop of `tournament_selection`, from tournament `i` -/
def tournamentLoop (pop : List PopEntry) (draws : Nat → List Nat) :
    Nat → Nat → Heap C → List PopEntry → Except Err (Heap C × List PopEntry)
  | _, 0, h, acc => .ok (h, acc)
  | i, fuel + 1, h, acc =>
    match choices pop (draws i) with
    | .error er => .error er
    | .ok tourn =>
      match minByScore tourn with
      | none => .error .value                      -- min() of an empty sequence
      | some best =>
        match h.copy best.circ with                -- copy.deepcopy(best)
        | .error er => .error er
        | .ok (h', r) => tournamentLoop pop draws (i + 1) fuel h' (acc ++ [⟨best.score, r⟩])

/-- `RandomSearchSolver.tournament_selection(population, k)`; `draws i` are the indices drawn for tournament `i` -/
def tournamentSelection (nPop k : Nat) (h : Heap C) (pop : List PopEntry) (draws : Nat → List Nat) :
    Except Err (Heap C × List PopEntry) :=
  if k = 0 then .ok (h, pop)                        -- "in this case, no selection": the same list object
  else tournamentLoop pop draws 0 nPop h []

end Tournament

/-! ## Transformation probabilities (`adapt_probabilities`, `_normalize_trans_prob`, `np.random.choice`) -/

/-- the circuit transformations that can be keys of `trans_probs` -/
inductive TKind where
  | addEmitterOneQubitOp | replacePhotonOneQubitOp | removeOp | addMeasurementCnotAndReset | addEmitterCnot
  | addPhotonOneQubitOp
  deriving DecidableEq, Inhabited, Repr

def TKind.toString : TKind → String
  | .addEmitterOneQubitOp => "add_emitter_one_qubit_op" | .replacePhotonOneQubitOp => "replace_photon_one_qubit_op"
  | .removeOp => "remove_op" | .addMeasurementCnotAndReset => "add_measurement_cnot_and_reset"
  | .addEmitterCnot => "add_emitter_cnot" | .addPhotonOneQubitOp => "add_photon_one_qubit_op"

/-- `trans_probs`: a dict in insertion order -/
abbrev TransProbs := List (TKind × Rat)

def sumQ (l : List Rat) : Rat := l.foldl (· + ·) 0

/-- `_normalize_trans_prob`: `total = np.sum(values); for key: trans_probs[key] *= 1 / total` -/
def normalizeTransProb (p : TransProbs) : TransProbs :=
  let total := sumQ (p.map (·.2))
  p.map fun kv => (kv.1, kv.2 * (1 / total))

/-- `EvolutionarySolver.initialize_transformation_probabilities` -/
def initTransProbsEvo (nEmitter : Nat) : TransProbs :=
  normalizeTransProb <|
    [(.addEmitterOneQubitOp, 1 / 4), (.replacePhotonOneQubitOp, 1 / 4), (.removeOp, 1 / 4)] ++
    (if nEmitter > 1 then [(.addEmitterCnot, 1 / 4)] else [])

/-- `HybridEvolutionarySolver.initialize_transformation_probabilities` -/
def initTransProbsHybrid (nEmitter : Nat) : TransProbs :=
  normalizeTransProb <|
    [(.addEmitterOneQubitOp, 1 / 4), (.replacePhotonOneQubitOp, 1 / 4), (.removeOp, 1 / 4),
     (.addMeasurementCnotAndReset, 1 / 10)] ++
    (if nEmitter > 1 then [(.addEmitterCnot, 1 / 4)] else [])

/-- the table of `HybridEvolutionarySolver.randomize_circuit` -/
def randomizeTransProbs (nEmitter : Nat) : TransProbs :=
  normalizeTransProb <|
    [(.addEmitterOneQubitOp, 1 / 6), (.addPhotonOneQubitOp, 1 / 6), (.removeOp, 1 / 2)] ++
    (if nEmitter > 1 then [(.addEmitterCnot, 1 / 6)] else [])

def maxQ (a b : Rat) : Rat := if a < b then b else a
def minQ (a b : Rat) : Rat := if b < a then b else a

/-- dict item assignment `trans_probs[k] = f(trans_probs[k])` for an existing key (position kept) -/
def TransProbs.update (p : TransProbs) (k : TKind) (f : Rat → Rat) : TransProbs :=
  p.map fun kv => if kv.1 = k then (kv.1, f kv.2) else kv

/-- `adapt_probabilities` (`n_stop` as a rational; `1 / n_stop / 3`, `max(…, 0.01)`, `min(…, 0.99)`, renormalise).
    `0.01`/`0.99` are the rationals 1/100, 99/100 (the floats differ from them by < 1e-17). -/
def adaptProbabilities (nStop nEmitter : Nat) (p : TransProbs) : TransProbs :=
  let d : Rat := 1 / (nStop : Rat)
  let p1 := p.update .addEmitterOneQubitOp fun v => maxQ (v - d / 3) (1 / 100)
  let p2 := p1.update .replacePhotonOneQubitOp fun v => maxQ (v - d / 3) (1 / 100)
  let p3 := p2.update .removeOp fun v => minQ (v + d) (99 / 100)
  let p4 := if nEmitter > 1 then p3.update .addEmitterCnot fun v => maxQ (v - d / 3) (1 / 100) else p3
  normalizeTransProb p4

/-- `np.random.choice(len(p), p=p)` as a function of the uniform draw `u ∈ [0,1)`:
    `cdf = cumsum(p); cdf /= cdf[-1]; idx = cdf.searchsorted(u, side='right')` = number of cdf entries `≤ u` -/
def choiceIndex (p : List Rat) (u : Rat) : Nat :=
  let total := sumQ p
  let rec go (acc : Rat) (cnt : Nat) : List Rat → Nat
    | [] => cnt
    | x :: xs =>
      let acc' := acc + x
      go acc' (if acc' / total ≤ u then cnt + 1 else cnt) xs
  go 0 0 p

/-! ## The generation loop of `EvolutionarySolver.solve` -/

structure Cfg where
  nHof : Nat
  nStop : Nat
  nPop : Nat
  tournamentK : Nat
  selectionActive : Bool
  useAdaptProbability : Bool
  nEmitter : Nat
  tol : Tol := Tol.numpy

/-- solver state between generations -/
structure St (C : Type) where
  heap : Heap C
  pop : List PopEntry
  hof : List HofEntry
  transProbs : TransProbs

/-- the random draws of a run, per generation: the draws consumed by the transformation (and compilation) of slot `j`,
    and the index lists of the tournaments -/
structure Draws (D : Type) where
  mutation : Nat → Nat → D
  tournament : Nat → Nat → List Nat

section Loop
variable {C D : Type}

/-- the `for j in range(self.setting.n_pop)` loop of one generation: mutate `population[j][1]` in place, evaluate,
    `population[j] = (score, circuit)` -/
def mutatePhase (P : Params C D) (d : Nat → D) :
    Nat → Nat → Heap C → List PopEntry → Except Err (Heap C × List PopEntry)
  | _, 0, h, pop => .ok (h, pop)
  | j, fuel + 1, h, pop =>
    match pop[j]? with
    | none => .error .index                         -- population[j] : IndexError
    | some e =>
      let h' := h.modify e.circ fun c => P.mutate c (d j)      -- transformation(circuit)
      match h'.get? e.circ with
      | none => .error .index
      | some c => mutatePhase P d (j + 1) fuel h' (pop.set j ⟨P.metric c, e.circ⟩)

/-- what `update_logs(population, iteration)` can raise (its log rows are not part of the model):
    `list(zip(*population))[0]` / `list(zip(*self.hof))[0]` raise IndexError on an empty list, and
    `[circuit.depth for (_, circuit) in self.hof]` raises AttributeError while the hall of fame still holds an initial
    `(np.inf, None)` entry (e.g. whenever `n_hof > n_pop`) -/
def updateLogs (pop : List PopEntry) (hof : List HofEntry) : Except Err Unit :=
  if pop.isEmpty then .error .index
  else if hof.isEmpty then .error .index
  else if hof.any (fun e => e.circ.isNone) then .error .attribute
  else .ok ()

/-- one iteration of `for i in range(self.setting.n_stop)` -/
def generation (P : Params C D) (cfg : Cfg) (dr : Draws D) (g : Nat) (s : St C) : Except Err (St C) :=
  match mutatePhase P (dr.mutation g) 0 cfg.nPop s.heap s.pop with
  | .error er => .error er
  | .ok (h1, pop1) =>
    match updateHof cfg.tol P.size cfg.nHof h1 s.hof pop1 with          -- self.update_hof(population)
    | .error er => .error er
    | .ok (h2, hof2) =>
      let tp := if cfg.useAdaptProbability then adaptProbabilities cfg.nStop cfg.nEmitter s.transProbs
                else s.transProbs
      match updateLogs pop1 hof2 with                                    -- self.update_logs(population, i)
      | .error er => .error er
      | .ok () =>
      if cfg.selectionActive then
        match tournamentSelection cfg.nPop cfg.tournamentK h2 pop1 (dr.tournament g) with
        | .error er => .error er
        | .ok (h3, pop3) => .ok ⟨h3, pop3, hof2, tp⟩
      else .ok ⟨h2, pop1, hof2, tp⟩

/-- generations `g, g+1, …` (`fuel` of them) -/
def generations (P : Params C D) (cfg : Cfg) (dr : Draws D) : Nat → Nat → St C → Except Err (St C)
  | _, 0, s => .ok s
  | g, fuel + 1, s =>
    match generation P cfg dr g s with
    | .error er => .error er
    | .ok s' => generations P cfg dr (g + 1) fuel s'

/-- state after `__init__` and `population_initialization`: every population member is a *new* object
    (`self.circuit.copy()`, a freshly built circuit, or `randomize_circuit`'s copy of the ideal circuit), score `np.inf`;
    `self.hof = [(np.inf, None)] * n_hof` -/
def initState (cfg : Cfg) (tp : TransProbs) (init : List C) : St C :=
  ⟨⟨init.toArray⟩, (List.range init.length).map (fun j => ⟨Score.inf, j⟩),
   List.replicate cfg.nHof ⟨Score.inf, none⟩, tp⟩

/-- `solve()`: returns the final state and `self.result = (self.hof[0][0], self.hof[0][1])` -/
def solve (P : Params C D) (cfg : Cfg) (dr : Draws D) (tp : TransProbs) (init : List C) :
    Except Err (St C × HofEntry) :=
  match generations P cfg dr 0 cfg.nStop (initState cfg tp init) with
  | .error er => .error er
  | .ok s =>
    match s.hof[0]? with
    | none => .error .index                          -- self.hof[0] with n_hof = 0
    | some e => .ok (s, e)

end Loop

/-! ## `SolverResult.sort_by` (solver_result.py): rows of the result table stably sorted by one column -/

/-- `sorted(rows, key=lambda x: x[p_index])` with a score-valued column: Python's sort is stable and only uses `<` on
    the keys (`a` stays before `b` unless `key b < key a`) -/
def sortRowsBy {α : Type} (key : α → Score) (rows : List α) : List α :=
  rows.mergeSort fun a b => (key a).le (key b)

/-! ## The hypothesis of the class-level theorems, as a computable check -/

/-- on the scores in `l`: `isclose` is reflexive, symmetric, transitive, and its classes are ordered consistently with
    `<` (evaluated by the driver on the scores of every replayed run; `Proofs/Evo.lean` shows it implies `Coherent`) -/
def coherentOn (t : Tol) (l : List Score) : Bool :=
  l.all fun a =>
    a.isclose t a &&
    l.all fun b =>
      (!(a.isclose t b) || b.isclose t a) &&
      l.all fun c =>
        (!(a.isclose t b && b.isclose t c) || a.isclose t c) &&
        (!(a.isclose t b && b.lt c && !b.isclose t c) || a.lt c)

/-! ## Candidate positions of two-qubit insertions (`_select_possible_cnot_position`, `…_measurement_position`)

  A circuit DAG is given by its edge list; an edge is `(u, v, key)` with node ids as numbers (the harness numbers the
  string ids of Input/Output nodes) and `key` the register label.  `edge_dict[t]` is a *list* in insertion order. -/

structure Edge where
  src : Nat
  dst : Nat
  key : Nat
  deriving DecidableEq, Inhabited

/-- operation classes the position filters look at -/
inductive OpK where
  | input | output | oneQubitWrapper | cnot | measCnotReset | other
  deriving DecidableEq, Inhabited

/-- the part of a `CircuitDAG` the selection functions read -/
structure DagView where
  /-- all edges of `dag` (any order) -/
  edges : List Edge
  /-- `edge_dict["e"]`, `edge_dict["p"]` in list order -/
  eEdges : List Edge
  pEdges : List Edge
  /-- class of the operation at a node -/
  opOf : Nat → OpK
  /-- number of nodes (bounds the reachability search) -/
  nNodes : Nat

namespace DagView

/-- one relaxation round of forward reachability: nodes reachable from `S` in one more step -/
def stepFwd (d : DagView) (S : List Nat) : List Nat :=
  d.edges.foldl (fun acc e => if acc.contains e.src && !acc.contains e.dst then e.dst :: acc else acc) S

def stepBwd (d : DagView) (S : List Nat) : List Nat :=
  d.edges.foldl (fun acc e => if acc.contains e.dst && !acc.contains e.src then e.src :: acc else acc) S

def iter (f : List Nat → List Nat) : Nat → List Nat → List Nat
  | 0, S => S
  | k + 1, S => iter f k (f S)

/-- `nx.descendants(dag, v)` ∪ {v} -/
def reachFwd (d : DagView) (v : Nat) : List Nat := iter d.stepFwd d.nNodes [v]
/-- `nx.ancestors(dag, v)` ∪ {v} -/
def reachBwd (d : DagView) (v : Nat) : List Nat := iter d.stepBwd d.nNodes [v]

/-- membership in `find_incompatible_edges(first_edge)`: the edge itself, every edge into `first_edge[0]` or out of one
    of its ancestors, every edge out of `first_edge[1]` or out of one of its descendants -/
def incompatible (d : DagView) (first e : Edge) : Bool :=
  e = first ||
  (e.dst = first.src) || ((d.reachBwd first.src).contains e.src && e.src ≠ first.src) ||
  (e.src = first.dst) || ((d.reachFwd first.dst).contains e.src && e.src ≠ first.dst)

/-- `_select_possible_cnot_position`: pairs in the order of the two nested loops over the filtered `edge_dict["e"]` -/
def selectPossibleCnotPosition (d : DagView) : List (Edge × Edge) :=
  let edges := d.eEdges.filter fun e => d.opOf e.dst ≠ .output
  edges.flatMap fun e => (edges.filter fun e' => !d.incompatible e e').map fun e' => (e, e')

/-- `_select_possible_measurement_position` -/
def selectPossibleMeasurementPosition (d : DagView) : List (Edge × Edge) :=
  let eEdges := d.eEdges.filter fun e =>
    d.opOf e.dst ≠ .output && d.opOf e.dst ≠ .measCnotReset && d.opOf e.src ≠ .input && d.opOf e.src ≠ .measCnotReset
  let pEdges := d.pEdges.filter fun e => d.opOf e.dst ≠ .measCnotReset && d.opOf e.src ≠ .input
  eEdges.flatMap fun e => (pEdges.filter fun e' => !d.incompatible e e').map fun e' => (e, e')

end DagView

end Graphiq.Evo
