/-
  Metrics.lean — executable model of the circuit cost metrics of `graphiq/metrics.py` (as coded: label-index based,
  `unwrap_nodes`/`remove_identity` on a copy, `reg_gate_history`, `_max_depth`) and, independently, the *definitional
  specification* of every metric on the operation list (`Spec.*`).  No Mathlib.

  The penalty functions (`depth_penalty`, `n_cnot_penalty`, …) are applied by the Python to the integer computed here;
  the default is the identity.  `log`/`increment` bookkeeping is not modelled.
-/
import GraphiqModel.Model.Dag
namespace Graphiq
namespace Metrics
open Dag

/-- `c = circuit.copy(); c.unwrap_nodes(); c.remove_identity()` -/
def prep (c : Dag) : Except DErr Dag :=
  match c.unwrapNodes with
  | (_, some err) => .error err
  | (c1, none) =>
    match c1.removeIdentity with
    | (_, some err) => .error err
    | (c2, none) => .ok c2

/-- `CircuitDepth.evaluate` given `L = nx.dag_longest_path_length(circuit.dag)` -/
def circuitDepthWith (L : Nat) : Int := Dag.depthWith L

def circuitDepth (c : Dag) : Int := c.depth

/-- `CircuitEmitterCount.evaluate` -/
def emitterCount (c : Dag) : Nat := c.nE

/-- `CircuitCnotCount.evaluate` -/
def cnotCount (c : Dag) : Nat :=
  if dictHas c.nodeDict "Emitter-Emitter" then (c.getNodeByLabels ["Emitter-Emitter", "CNOT"]).length else 0

def unitaryLabels : List String := ["SigmaX", "SigmaY", "SigmaZ", "Phase", "PhaseDagger", "Hadamard", "CNOT"]

/-- `CircuitUnitaryCount.evaluate` -/
def unitaryCount (c : Dag) : Except DErr Nat := do
  let c' ← prep c
  pure (unitaryLabels.foldl (fun n l => if dictHas c'.nodeDict l then n + (c'.getNodeByLabels [l]).length else n) 0)

/-- `CircuitMeasureCount.evaluate` -/
def measureCount (c : Dag) : Nat := (c.getNodeByLabels ["MeasurementCNOTandReset"]).length

/-- Python `max(list)`: `ValueError` on the empty list -/
def maxOrErr : List Int → Except DErr Int
  | [] => .error .value
  | d :: ds => .ok (ds.foldl max d)

/-- `CircuitMaxEmitDepth.evaluate` -/
def maxEmitDepth (c : Dag) : Except DErr Int := do
  let c' ← prep c
  let ds ← (List.range c'.nE).mapM fun i => do
    let h ← c'.regGateHistory ⟨.e, i⟩
    pure ((h.length : Int) - 2)
  maxOrErr ds

def isResetMark (k : Kind) : Bool := k = .input || k = .mcr || k = .output

/-- `[x[j+1] - x[j] for j in range(len(x)-1)]` -/
def diffs : List Int → List Int
  | a :: b :: rest => (b - a) :: diffs (b :: rest)
  | _ => []

/-- positions (in the gate history) of the nodes whose operation is Input / MeasurementCNOTandReset / Output -/
def markNodes (c : Dag) (h : List NodeId) : List (Nat × NodeId) :=
  (h.zipIdx.filter fun p => match c.opOf? p.1 with | some op => isResetMark op.kind | none => false).map fun p => (p.2, p.1)

/-- `CircuitMaxEmitResetDepth.evaluate` -/
def maxEmitResetDepth (c : Dag) : Except DErr Int := do
  let c' ← prep c
  let ds ← (List.range c'.nE).mapM fun i => do
    let h ← c'.regGateHistory ⟨.e, i⟩
    maxOrErr (diffs ((markNodes c' h).map fun p => (p.1 : Int)))
  maxOrErr ds

/-- `CircuitMaxEmitEffDepth.evaluate` -/
def maxEmitEffDepth (c : Dag) : Except DErr Int := do
  let c' ← prep c
  let ds ← (List.range c'.nE).mapM fun i => do
    let h ← c'.regGateHistory ⟨.e, i⟩
    let depths ← (markNodes c' h).mapM fun p => c'.maxDepth (c'.nodes.length + 1) p.2
    maxOrErr (diffs depths)
  maxOrErr ds

/-! ## definitional specifications on the operation list

  A circuit given as the list of operations in the order they are applied (`add` order / any `sequence()`), with
  `ne` emitter registers.  Dependencies are through every register an operation acts on (quantum and classical). -/
namespace Spec

/-- all registers an operation acts on -/
def opRegs (op : Op) : List Reg := op.qregs ++ op.cregs.map (Reg.mk .c)

def frontGet (f : List (Reg × Nat)) (r : Reg) : Nat := (f.lookup r).getD 0

/-- ASAP layer of `op` given the current layer of every register: one more than the deepest register it touches -/
def layerOf (f : List (Reg × Nat)) (op : Op) : Nat := 1 + (opRegs op).foldl (fun m r => max m (frontGet f r)) 0

def pushLayer (f : List (Reg × Nat)) (op : Op) : List (Reg × Nat) :=
  (opRegs op).foldl (fun g r => (r, layerOf f op) :: g) f

/-- the register fronts after the whole list -/
def fronts (seq : List Op) : List (Reg × Nat) := seq.foldl pushLayer []

/-- the ASAP layer (1-based) of every operation of the list -/
def layers : List (Reg × Nat) → List Op → List Nat
  | _, [] => []
  | f, op :: rest => layerOf f op :: layers (pushLayer f op) rest

/-- depth = length of the longest dependency chain = largest ASAP layer -/
def depth (seq : List Op) : Nat := (layers [] seq).foldl max 0

/-- depth of a register = ASAP layer of the last operation on it (0 if none) -/
def regDepth (seq : List Op) (r : Reg) : Nat := frontGet (fronts seq) r

/-- base gates after unwrapping the wrappers (application order), identities dropped -/
def unwrapSeq (seq : List Op) : List Op := (seq.flatMap Op.unwrap).filter fun op => op.kind ≠ .identity

def cnotCount (seq : List Op) : Nat :=
  seq.countP fun op => op.kind = .cnot && op.qregs.map (·.ty) = [.e, .e]

def isCountedUnitary (k : Kind) : Bool :=
  k = .sigmaX || k = .sigmaY || k = .sigmaZ || k = .phase || k = .phaseDagger || k = .hadamard || k = .cnot

def unitaryCount (seq : List Op) : Nat := (unwrapSeq seq).countP fun op => isCountedUnitary op.kind

def measureCount (seq : List Op) : Nat := seq.countP fun op => op.kind = .mcr

/-- operations (with their position in the list) acting on emitter `i` -/
def emitterWire (seq : List Op) (i : Nat) : List (Op × Nat) :=
  seq.zipIdx.filter fun p => p.1.qregs.contains ⟨.e, i⟩

def maxEmitDepth (ne : Nat) (seq : List Op) : Except DErr Int :=
  maxOrErr ((List.range ne).map fun i => ((emitterWire (unwrapSeq seq) i).length : Int))

/-- reset interval: positions on the emitter's wire (input = 0, k-th operation = k, output = length+1) of the
    input, every measure-and-reset, and the output; largest gap between consecutive ones -/
def resetMarks (w : List (Op × Nat)) : List Int :=
  [0] ++ ((w.zipIdx.filter fun p => p.1.1.kind = .mcr).map fun p => ((p.2 : Int) + 1)) ++ [(w.length : Int) + 1]

def maxEmitResetDepth (ne : Nat) (seq : List Op) : Except DErr Int := do
  let s := unwrapSeq seq
  let ds ← (List.range ne).mapM fun i => maxOrErr (diffs (resetMarks (emitterWire s i)))
  maxOrErr ds

/-- effective depth: ASAP depth (layer − 1; input = −1; output = layer of the last operation on the wire) of the same
    marks; largest difference between consecutive ones -/
def maxEmitEffDepth (ne : Nat) (seq : List Op) : Except DErr Int := do
  let s := unwrapSeq seq
  let ls := layers [] s
  let ds ← (List.range ne).mapM fun i =>
    let w := emitterWire s i
    let mid := (w.filter fun p => p.1.kind = .mcr).map fun p => ((ls.getD p.2 0 : Nat) : Int) - 1
    maxOrErr (diffs ([-1] ++ mid ++ [((regDepth s ⟨.e, i⟩ : Nat) : Int)]))
  maxOrErr ds

/-- number of emitter registers of `CircuitDAG(ne, …)` after adding `seq` (register numbering is continuous) -/
def emitterCount (ne : Nat) (seq : List Op) : Nat :=
  seq.foldl (fun n op => (Dag.sortRegs op.qregs).foldl (fun n r => if r.ty = .e ∧ r.idx = n then n + 1 else n) n) ne

end Spec

/-- one `add` of the construction loop (stops at the first error) -/
def buildStep (s : Dag × Option DErr) (op : Op) : Dag × Option DErr :=
  match s with
  | (c, some err) => (c, some err)
  | (c, none) => c.add op

/-- the circuit obtained by `CircuitDAG(ne, np, nc)` followed by `add(op)` for every op of the list -/
def build (ne np nc : Nat) (seq : List Op) : Dag × Option DErr :=
  seq.foldl buildStep (Dag.init ne np nc, none)

end Metrics
end Graphiq
