/-
  Dag.lean — executable model of `graphiq/circuit/circuit_dag.py` (class `CircuitDAG`), function by function.  No Mathlib.

  Concrete state (what the Python object holds):
    * `nodes`     = `self.dag.nodes` with their `op` attribute, in insertion order;
    * `edges`     = the keyed multi-edges `(u, v, key)` of `self.dag` (networkx `add_edge` semantics: an existing
                    `(u, v, key)` is not duplicated).  The edge attributes `reg_type`/`reg` are always copied together
                    with the key from the edge being spliced and are created equal to the key in `_add_reg_if_absent`,
                    so they are represented by the key (the harness checks `key = f"{reg_type}{reg}"` on every edge);
    * `nodeDict`  = `self.node_dict`  (label -> list of nodes, dict insertion order, list insertion order);
    * `edgeDict`  = `self.edge_dict`  (register type -> list of edge tuples);
    * `nodeId`    = `self._node_id`;  `nE nP nC` = lengths of `self._registers["e"|"p"|"c"]` (all entries are 1).
  Every edit returns the state after the call *and* the error class if the Python raises — the partially applied
  state is what the Python object is left with (register additions before a `ValueError`, the orphan node before a
  `KeyError` in `_insert_at`, the removed nodes before an `AssertionError` in `group_one_qubit_gates`).

  networkx is a parameter: `ancestors`/`descendants`, `dag_longest_path_length`, `topological_sort` are specified in
  Proofs/Dag.lean; the functions `reach`, `longestPathLen` below are the driver's instances of those specifications
  (the harness checks every observed networkx result against the specification *and* against these instances).
-/
namespace Graphiq

/-! ## identifiers -/

inductive RegType where
  | e | p | c
  deriving DecidableEq, Repr, Inhabited

def RegType.str : RegType → String
  | .e => "e" | .p => "p" | .c => "c"

/-- a register `(reg_type, register)`; the edge key `f"{reg_type}{register}"` -/
structure Reg where
  ty : RegType
  idx : Nat
  deriving DecidableEq, Repr, Inhabited

def Reg.str (r : Reg) : String := r.ty.str ++ toString r.idx

/-- node ids of the networkx graph: the strings `"<t><r>_in"`, `"<t><r>_out"` and the integers of `_unique_node_id` -/
inductive NodeId where
  | inp (r : Reg)
  | out (r : Reg)
  | op (k : Nat)
  deriving DecidableEq, Repr, Inhabited

def NodeId.str : NodeId → String
  | .inp r => r.str ++ "_in"
  | .out r => r.str ++ "_out"
  | .op k => toString k

structure Edge where
  src : NodeId
  dst : NodeId
  key : Reg
  deriving DecidableEq, Repr, Inhabited

def Edge.str (e : Edge) : String := e.src.str ++ ">" ++ e.dst.str ++ ">" ++ e.key.str

/-- error classes (Python exception classes) raised by the modelled code -/
inductive DErr where
  | assertion | value | key | index | type | networkx | fuel
  deriving DecidableEq, Repr, Inhabited

def DErr.str : DErr → String
  | .assertion => "assertion" | .value => "value" | .key => "key" | .index => "index" | .type => "type"
  | .networkx => "NetworkXError" | .fuel => "nontermination"

/-! ## operations (ops.py): only what the circuit class reads -/

/-- `type(op).__name__` -/
inductive Kind where
  | input | output
  | hadamard | sigmaX | sigmaY | sigmaZ | phase | phaseDagger | identity
  | rx | ry | rz | paramOneQubit
  | wrapper
  | cnot | cz | paramCtrl
  | classicalCNOT | classicalCZ | mcr
  | measurementZ
  deriving DecidableEq, Repr, Inhabited

def Kind.name : Kind → String
  | .input => "Input" | .output => "Output"
  | .hadamard => "Hadamard" | .sigmaX => "SigmaX" | .sigmaY => "SigmaY" | .sigmaZ => "SigmaZ"
  | .phase => "Phase" | .phaseDagger => "PhaseDagger" | .identity => "Identity"
  | .rx => "RX" | .ry => "RY" | .rz => "RZ" | .paramOneQubit => "ParameterizedOneQubitRotation"
  | .wrapper => "OneQubitGateWrapper"
  | .cnot => "CNOT" | .cz => "CZ" | .paramCtrl => "ParameterizedControlledRotationQubit"
  | .classicalCNOT => "ClassicalCNOT" | .classicalCZ => "ClassicalCZ" | .mcr => "MeasurementCNOTandReset"
  | .measurementZ => "MeasurementZ"

def Kind.all : List Kind :=
  [.input, .output, .hadamard, .sigmaX, .sigmaY, .sigmaZ, .phase, .phaseDagger, .identity, .rx, .ry, .rz,
   .paramOneQubit, .wrapper, .cnot, .cz, .paramCtrl, .classicalCNOT, .classicalCZ, .mcr, .measurementZ]

def Kind.ofName (s : String) : Option Kind := Kind.all.find? (fun k => k.name = s)

/-- `issubclass(cls, OneQubitOperationBase)` — what `OneQubitGateWrapper.__init__` asserts of every wrapped class -/
def Kind.isOneQubitBase : Kind → Bool
  | .hadamard | .sigmaX | .sigmaY | .sigmaZ | .phase | .phaseDagger | .identity
  | .rx | .ry | .rz | .paramOneQubit | .wrapper => true
  | _ => false

/-- an operation object as the circuit sees it: class, `zip(q_registers_type, q_registers)`, `c_registers`,
    `labels`, and for a `OneQubitGateWrapper` its `operations` (classes, matrix order) -/
structure Op where
  kind : Kind
  qregs : List Reg
  cregs : List Nat
  labels : List String
  inner : List Kind
  deriving DecidableEq, Repr, Inhabited

/-- `ops.Input(register, reg_type)` / `ops.Output` (no labels; a classical I/O op has only a `c_register`) -/
def Op.io (k : Kind) (r : Reg) : Op :=
  match r.ty with
  | .c => ⟨k, [], [r.idx], [], []⟩
  | _ => ⟨k, [r], [], [], []⟩

/-- a one-qubit gate object of class `k` on register `r` as `OneQubitOperationBase.__init__` builds it -/
def Op.oneQubit (k : Kind) (r : Reg) : Op := ⟨k, [r], [], ["one-qubit"], []⟩

def regTypeWord : RegType → String
  | .e => "Emitter" | .p => "Photonic" | .c => "?"

/-- `OperationBase.parse_q_reg_types` -/
def Op.parseQRegTypes (op : Op) : String := String.intercalate "-" (op.qregs.map fun r => regTypeWord r.ty)

/-- the keys under which `_add_node` files a node in `node_dict`, in the order it does -/
def Op.indexKeys (op : Op) : List String := op.labels ++ [op.kind.name, op.parseQRegTypes]

/-- `OneQubitGateWrapper.unwrap()` with list-valued noise: fresh one-qubit gates, application order
    (`gates[::-1]`); `OperationBase.unwrap()` = `[self]` for everything else -/
def Op.unwrap (op : Op) : List Op :=
  match op.kind with
  | .wrapper => op.inner.reverse.map fun k => Op.oneQubit k (op.qregs.headD default)
  | _ => [op]

/-! ## dictionaries with Python semantics (insertion-ordered keys, list values) -/

section Dict
variable {κ α : Type} [DecidableEq κ] [DecidableEq α]

/-- `_node_dict_append` / `_edge_dict_append` -/
def dictAppend : List (κ × List α) → κ → α → List (κ × List α)
  | [], k, v => [(k, [v])]
  | (k', l) :: d, k, v => if k' = k then (k', l ++ [v]) :: d else (k', l) :: dictAppend d k v

/-- `_node_dict_remove` / `_edge_dict_remove` (`list.remove` = first occurrence, `ValueError` swallowed) -/
def dictRemove : List (κ × List α) → κ → α → List (κ × List α)
  | [], _, _ => []
  | (k', l) :: d, k, v => if k' = k then (k', l.erase v) :: d else (k', l) :: dictRemove d k v

/-- `d.get(k, [])` -/
def dictGet : List (κ × List α) → κ → List α
  | [], _ => []
  | (k', l) :: d, k => if k' = k then l else dictGet d k

/-- `k in d` -/
def dictHas : List (κ × List α) → κ → Bool
  | [], _ => false
  | (k', _) :: d, k => if k' = k then true else dictHas d k

end Dict

/-! ## the circuit object -/

structure Dag where
  nodes : List (NodeId × Op)
  edges : List Edge
  nodeDict : List (String × List NodeId)
  edgeDict : List (RegType × List Edge)
  nodeId : Nat
  nE : Nat
  nP : Nat
  nC : Nat
  deriving Repr, Inhabited

namespace Dag

abbrev Res := Dag × Option DErr

def empty : Dag := ⟨[], [], [], [], 0, 0, 0, 0⟩

/-- `len(self._registers[t])` -/
def regs (c : Dag) : RegType → Nat
  | .e => c.nE | .p => c.nP | .c => c.nC

/-- `self._registers[t].append(1)` (and `_register_depth[t].append(0)`, a cache that is recomputed at every query) -/
def incReg (c : Dag) : RegType → Dag
  | .e => { c with nE := c.nE + 1 }
  | .p => { c with nP := c.nP + 1 }
  | .c => { c with nC := c.nC + 1 }

def nodeIds (c : Dag) : List NodeId := c.nodes.map (·.1)

/-- `n in self.dag.nodes` -/
def hasNode (c : Dag) (n : NodeId) : Bool := c.nodeIds.contains n

/-- `self.dag.nodes[n]["op"]` -/
def opOf? (c : Dag) (n : NodeId) : Option Op :=
  match c.nodes.find? (fun p => p.1 = n) with
  | some p => some p.2
  | none => none

/-- `self.dag.in_edges(n, keys=True)` (order is not observable: all consumers are order-insensitive under `DagInv`,
    and the harness compares the indexes as multisets) -/
def inEdges (c : Dag) (n : NodeId) : List Edge := c.edges.filter (fun e => e.dst = n)

/-- `self.dag.out_edges(n, keys=True)` -/
def outEdges (c : Dag) (n : NodeId) : List Edge := c.edges.filter (fun e => e.src = n)

/-- `_add_edge`: networkx does not duplicate an existing keyed edge; `edge_dict` is appended unconditionally -/
def addEdge (c : Dag) (u v : NodeId) (key : Reg) : Dag :=
  let e : Edge := ⟨u, v, key⟩
  { c with edges := if e ∈ c.edges then c.edges else c.edges ++ [e],
           edgeDict := dictAppend c.edgeDict key.ty e }

/-- `_remove_edge` (called only on edges enumerated from the graph) -/
def removeEdge (c : Dag) (e : Edge) : Dag :=
  { c with edgeDict := dictRemove c.edgeDict e.key.ty e, edges := c.edges.erase e }

/-- `_add_node` -/
def addNode (c : Dag) (n : NodeId) (op : Op) : Dag :=
  { c with nodes := if c.hasNode n then c.nodes.map (fun p => if p.1 = n then (n, op) else p) else c.nodes ++ [(n, op)],
           nodeDict := op.indexKeys.foldl (fun d k => dictAppend d k n) c.nodeDict }

/-- `_add_reg_if_absent` -/
def addRegIfAbsent (c : Dag) (r : Reg) : Res :=
  if c.regs r.ty < r.idx then (c, some .value) else
  let c1 := if r.idx = c.regs r.ty then c.incReg r.ty else c
  if c1.hasNode (.inp r) then (c1, none) else
  let c2 : Dag := { c1 with
    nodes := c1.nodes ++ [(.inp r, Op.io .input r), (.out r, Op.io .output r)],
    nodeDict := dictAppend (dictAppend c1.nodeDict "Input" (.inp r)) "Output" (.out r) }
  let e : Edge := ⟨.inp r, .out r, r⟩
  let c3 : Dag := { c2 with edges := if e ∈ c2.edges then c2.edges else c2.edges ++ [e] }
  match (c3.inEdges (.out r)).head? with
  | some e' => ({ c3 with edgeDict := dictAppend c3.edgeDict r.ty e' }, none)
  | none => (c3, some .index)

/-- a run of `_add_reg_if_absent` calls; stops at the first `ValueError`, keeping the registers already added -/
def addRegs (c : Dag) : List Reg → Res
  | [] => (c, none)
  | r :: rs =>
    match c.addRegIfAbsent r with
    | (c1, none) => addRegs c1 rs
    | (c1, some err) => (c1, some err)

/-- `__init__(n_emitter, n_photon, n_classical)` -/
def init (ne np nc : Nat) : Dag :=
  let rs := (List.range ne).map (Reg.mk .e) ++ (List.range np).map (Reg.mk .p) ++ (List.range nc).map (Reg.mk .c)
  (addRegs empty rs).1

/-- `_add_register(reg_type, size)`: `add_emitter_register` / `add_photonic_register` / `add_classical_register` -/
def addRegister (c : Dag) (t : RegType) (size : Nat := 1) : Res :=
  if size ≠ 1 then (c, some .value) else c.addRegIfAbsent ⟨t, c.regs t⟩

/-- order of `sorted(zip(q_registers, q_registers_type))`: by register number, then `"e" < "p"` -/
def regLe (a b : Reg) : Bool :=
  a.idx < b.idx || (a.idx = b.idx && (a.ty = .e || b.ty ≠ .e))

def insertSorted (r : Reg) : List Reg → List Reg
  | [] => [r]
  | x :: xs => if regLe r x then r :: x :: xs else x :: insertSorted r xs

def sortRegs (l : List Reg) : List Reg := l.foldr insertSorted []

/-- the register-adding prologue shared by `add` and `insert_at`
    (`zip(*sorted(zip(...)))` of an empty tuple cannot be unpacked: `ValueError`) -/
def ensureRegs (c : Dag) (op : Op) : Res :=
  match c.addRegs (op.cregs.map (Reg.mk .c)) with
  | (c1, some err) => (c1, some err)
  | (c1, none) => if op.qregs.isEmpty then (c1, some .value) else c1.addRegs (sortRegs op.qregs)

/-- the three statements with which `_add` and `_insert_at` put node `n` on edge `e` -/
def splice (c : Dag) (n : NodeId) (e : Edge) : Dag :=
  ((c.addEdge e.src n e.key).addEdge n e.dst e.key).removeEdge e

/-- `_unique_node_id` followed by `_add_node` -/
def newNode (c : Dag) (op : Op) : Dag := ({ c with nodeId := c.nodeId + 1 }).addNode (.op (c.nodeId + 1)) op

/-- `_add` -/
def add_ (c : Dag) (op : Op) : Dag :=
  let n := NodeId.op (c.nodeId + 1)
  let outputs := op.qregs.map NodeId.out ++ op.cregs.map (fun r => NodeId.out ⟨.c, r⟩)
  outputs.foldl (fun c o => (c.inEdges o).foldl (fun c e => c.splice n e) c) (c.newNode op)

/-- loop of `_insert_at`: `self.dag.edges[reg_edge]` raises `KeyError` on an edge that is not in the graph -/
def insertEdges (c : Dag) (n : NodeId) : List Edge → Res
  | [] => (c, none)
  | e :: es => if e ∈ c.edges then insertEdges (c.splice n e) n es else (c, some .key)

/-- `_insert_at` -/
def insertAt_ (c : Dag) (op : Op) (edges : List Edge) : Res :=
  (c.newNode op).insertEdges (.op (c.nodeId + 1)) edges

/-- `add` -/
def add (c : Dag) (op : Op) : Res :=
  match c.ensureRegs op with
  | (c1, some err) => (c1, some err)
  | (c1, none) => (c1.add_ op, none)

/-- `insert_at` -/
def insertAt (c : Dag) (op : Op) (edges : List Edge) : Res :=
  match c.ensureRegs op with
  | (c1, some err) => (c1, some err)
  | (c1, none) => if edges.length ≠ op.qregs.length then (c1, some .assertion) else c1.insertAt_ op edges

/-- `replace_op` -/
def replaceOp (c : Dag) (n : NodeId) (new : Op) : Res :=
  match c.opOf? n with
  | none => (c, some .key)
  | some old =>
    if old.qregs ≠ new.qregs ∨ old.cregs ≠ new.cregs then (c, some .assertion) else
    let d1 := old.indexKeys.foldl (fun d k => dictRemove d k n) c.nodeDict
    let d2 := new.indexKeys.foldl (fun d k => dictAppend d k n) d1
    ({ c with nodeDict := d2, nodes := c.nodes.map (fun p => if p.1 = n then (n, new) else p) }, none)

/-- the double loop of `_remove_node` over the in- and out-edges enumerated before it -/
def rejoin (c : Dag) (ins outs : List Edge) : Dag :=
  let c1 := ins.foldl (fun c ein =>
      (outs.foldl (fun c eout => if ein.key = eout.key then c.addEdge ein.src eout.dst eout.key else c) c).removeEdge ein) c
  outs.foldl (fun c eout => c.removeEdge eout) c1

/-- `_remove_node` / `remove_op` (an absent integer node makes networkx raise, an absent string node is iterated as a
    sequence of characters and `self.dag.nodes[node]` raises `KeyError`) -/
def removeOp (c : Dag) (n : NodeId) : Res :=
  match c.opOf? n with
  | none => (c, some (match n with | .op _ => .networkx | _ => .key))
  | some op =>
    let c1 := c.rejoin (c.inEdges n) (c.outEdges n)
    let d := op.indexKeys.foldl (fun d k => dictRemove d k n) c1.nodeDict
    ({ c1 with nodeDict := d, nodes := c1.nodes.filter (fun p => p.1 ≠ n),
               edges := c1.edges.filter (fun e => e.src ≠ n ∧ e.dst ≠ n) }, none)

/-- `for op in op_list: in_edge = list(in_edges(node)); self.insert_at(op, in_edge)` of `unwrap_nodes` -/
def unwrapOne (c : Dag) (n : NodeId) : List Op → Res
  | [] => (c, none)
  | o :: os =>
    match c.insertAt o (c.inEdges n) with
    | (c1, none) => unwrapOne c1 n os
    | (c1, some err) => (c1, some err)

def unwrapLoop (c : Dag) : List NodeId → Res
  | [] => (c, none)
  | n :: ns =>
    match c.opOf? n with
    | none => (c, some .key)
    | some op =>
      match c.unwrapOne n op.unwrap with
      | (c1, some err) => (c1, some err)
      | (c1, none) =>
        match c1.removeOp n with
        | (c2, some err) => (c2, some err)
        | (c2, none) => unwrapLoop c2 ns

/-- `unwrap_nodes` -/
def unwrapNodes (c : Dag) : Res :=
  if dictHas c.nodeDict "OneQubitGateWrapper" then c.unwrapLoop (dictGet c.nodeDict "OneQubitGateWrapper") else (c, none)

def removeAll (c : Dag) : List NodeId → Res
  | [] => (c, none)
  | n :: ns =>
    match c.removeOp n with
    | (c1, none) => removeAll c1 ns
    | (c1, some err) => (c1, some err)

/-- `remove_identity` -/
def removeIdentity (c : Dag) : Res :=
  if dictHas c.nodeDict "Identity" then c.removeAll (dictGet c.nodeDict "Identity") else (c, none)

/-- `edge_from_reg`: the first edge whose key is the register's -/
def edgeFromReg (es : List Edge) (r : Reg) : Option Edge := es.find? (fun e => e.key = r)

/-- `OneQubitGateWrapper(gate_list, register, reg_type)` as `group_one_qubit_gates` constructs it: the base class
    asserts the register type is "e" or "p", the wrapper asserts every class is a one-qubit gate class -/
def mkWrapper (gates : List Kind) (r : Reg) : Option Op :=
  if r.ty = .c then none
  else if gates.all Kind.isOneQubitBase then some ⟨.wrapper, [r], [], ["one-qubit"], gates⟩ else none

/-- `groupable(nd)` of `group_one_qubit_gates`: the node carries the label "one-qubit" *and* its operation is a genuine
    `OneQubitOperationBase` (a `MeasurementZ` also carries the label; it is a boundary, not a groupable gate) -/
def groupable (c : Dag) (nd : NodeId) : Bool :=
  (dictGet c.nodeDict "one-qubit").contains nd &&
    (match c.opOf? nd with
     | some op => op.kind.isOneQubitBase
     | none => false)

/-- body of the loop, first half: `if groupable(node): … gate_list += …; self.remove_op(node)` -/
def groupTake (c : Dag) (node : NodeId) (gates : List Kind) : Dag × List Kind × Option DErr :=
  if c.groupable node then
    match c.opOf? node with
    | none => (c, gates, some .key)
    | some op =>
      ((c.removeOp node).1, (if op.kind = .wrapper then gates ++ op.inner else gates ++ [op.kind]), (c.removeOp node).2)
  else (c, gates, none)

/-- body of the loop, second half: `out_edges = …; insert_edge = edge_from_reg(…); self.insert_at(OneQubitGateWrapper(…), [insert_edge])` -/
def groupFlush (c : Dag) (r : Reg) (next : NodeId) (gates : List Kind) : Res :=
  match edgeFromReg (c.outEdges next) r with
  | none => (c, some .type)
  | some ie =>
    match mkWrapper gates r with
    | none => (c, some .assertion)
    | some w => c.insertAt w [ie]

/-- the `while next_node not in self.node_dict["Input"]` loop of `group_one_qubit_gates` for one register;
    `fuel` bounds the number of iterations (the wire is finite and acyclic) -/
def groupWalk (r : Reg) : Nat → Dag → NodeId → List Kind → Res
  | 0, c, _, _ => (c, some .fuel)
  | fuel + 1, c, node, gates =>
    if (dictGet c.nodeDict "Input").contains node then (c, none) else
    match edgeFromReg (c.inEdges node) r with
    | none => (c, some .type)
    | some edge =>
      let next := edge.src
      match groupTake c node gates with
      | (c1, _, some err) => (c1, some err)
      | (c1, gates1, none) =>
        if !(c1.groupable next) && !gates1.isEmpty then
          match groupFlush c1 r next gates1 with
          | (c2, some err) => (c2, some err)
          | (c2, none) => groupWalk r fuel c2 next []
        else groupWalk r fuel c1 next gates1

/-- `reg_type = op.reg_type; register = op.register` of the Output operation at node `o` -/
def outReg (o : NodeId) (op : Op) : Reg :=
  match o with
  | .out r => r
  | _ => op.qregs.headD default

def groupLoop (c : Dag) : List NodeId → Res
  | [] => (c, none)
  | o :: os =>
    match c.opOf? o with
    | none => (c, some .key)
    | some op =>
      match edgeFromReg (c.inEdges o) (outReg o op) with
      | none => (c, some .type)
      | some e =>
        match groupWalk (outReg o op) (c.nodes.length + 1) c e.src [] with
        | (c1, some err) => (c1, some err)
        | (c1, none) => groupLoop c1 os

/-- `group_one_qubit_gates` (`for node in self.node_dict.get("Output", [])`; the list is not modified by the loop body) -/
def groupOneQubitGates (c : Dag) : Res := c.groupLoop (dictGet c.nodeDict "Output")

/-! ## queries -/

/-- nodes reachable from `n` by one or more edges of `step` (breadth-first closure, `fuel` rounds) -/
def reachLoop (step : NodeId → List NodeId) : Nat → List NodeId → List NodeId → List NodeId
  | 0, _, seen => seen
  | fuel + 1, frontier, seen =>
    let new := (frontier.flatMap step).eraseDups.filter (fun x => !seen.contains x)
    if new.isEmpty then seen else reachLoop step fuel new (seen ++ new)

/-- the driver's instance of `nx.descendants(dag, n)` -/
def descendants (c : Dag) (n : NodeId) : List NodeId :=
  reachLoop (fun x => (c.outEdges x).map (·.dst)) (c.nodes.length + 1) [n] [] |>.filter (· ≠ n)

/-- the driver's instance of `nx.ancestors(dag, n)` -/
def ancestors (c : Dag) (n : NodeId) : List NodeId :=
  reachLoop (fun x => (c.inEdges x).map (·.src)) (c.nodes.length + 1) [n] [] |>.filter (· ≠ n)

/-- `find_incompatible_edges(first_edge)` given the two networkx results; the result is a set.
    (`nx.ancestors` raises `NetworkXError` for a node that is not in the graph) -/
def findIncompatibleEdgesWith (c : Dag) (anc desc : List NodeId) (first : Edge) : Except DErr (List Edge) :=
  if !c.hasNode first.src || !c.hasNode first.dst then .error .networkx else
  let ancE := c.inEdges first.src ++ anc.flatMap c.outEdges
  let descE := c.outEdges first.dst ++ desc.flatMap c.outEdges
  .ok ([first] ++ ancE ++ descE).eraseDups

def findIncompatibleEdges (c : Dag) (first : Edge) : Except DErr (List Edge) :=
  c.findIncompatibleEdgesWith (c.ancestors first.src) (c.descendants first.dst) first

/-- `_max_depth(root_node)`: the literal recursion (no memoisation; `max([])` of a non-input node without in-edges is
    a `ValueError`).  `fuel` = number of nodes suffices on an acyclic graph (Proofs/Metrics). -/
def maxDepth (c : Dag) : Nat → NodeId → Except DErr Int
  | 0, _ => .error .fuel
  | fuel + 1, n =>
    if (dictGet c.nodeDict "Input").contains n then .ok (-1) else
    let preds := (c.inEdges n).map (·.src)
    match preds.mapM (maxDepth c fuel) with
    | .error err => .error err
    | .ok ds =>
      match ds with
      | [] => .error .value
      | d :: ds => .ok (ds.foldl max d + 1)

/-- `calculate_reg_depth(reg_type)` -/
def calculateRegDepth (c : Dag) (t : RegType) : Except DErr (List Int) :=
  (List.range (c.regs t)).mapM fun i => c.maxDepth (c.nodes.length + 1) (.out ⟨t, i⟩)

/-- `register_depth` = `calculate_all_reg_depth()` -/
def registerDepth (c : Dag) : Except DErr (List Int × List Int × List Int) := do
  let e ← c.calculateRegDepth .e
  let p ← c.calculateRegDepth .p
  let cc ← c.calculateRegDepth .c
  pure (e, p, cc)

/-- the walk of `reg_gate_history(reg, reg_type)`; returns the ordered node list (the second component) -/
def historyWalk (c : Dag) (r : Reg) : Nat → NodeId → List NodeId → Except DErr (List NodeId)
  | 0, _, _ => .error .fuel
  | fuel + 1, n, acc =>
    if n = .out r then .ok acc.reverse else
    match (c.outEdges n).find? (fun e => e.key = r) with
    | none => .error .index
    | some e => historyWalk c r fuel e.dst (e.dst :: acc)

def regGateHistory (c : Dag) (r : Reg) : Except DErr (List NodeId) :=
  c.historyWalk r (c.nodes.length + 1) (.inp r) [.inp r]

/-- `get_node_by_labels(labels)` (a set; the order of the returned list is that of `dag.nodes` here) -/
def getNodeByLabels (c : Dag) (labels : List String) : List NodeId :=
  labels.foldl (fun rem l => rem.filter (fun n => (dictGet c.nodeDict l).contains n)) c.nodeIds

/-- `get_node_exclude_labels(labels)` -/
def getNodeExcludeLabels (c : Dag) (labels : List String) : List NodeId :=
  c.nodeIds.filter fun n => !(labels.any fun l => (dictGet c.nodeDict l).contains n)

/-- the driver's instance of `nx.dag_longest_path_length`: number of edges of a longest directed path
    (memoised depth-first evaluation of `dist v = max(0, max_{u→v} dist u + 1)`; `fuel` bounds the recursion) -/
def distVisit (c : Dag) : Nat → List (NodeId × Nat) → NodeId → List (NodeId × Nat)
  | 0, memo, _ => memo
  | fuel + 1, memo, v =>
    if (memo.lookup v).isSome then memo else
    let preds := ((c.inEdges v).map (·.src)).eraseDups
    let memo1 := preds.foldl (fun m u => distVisit c fuel m u) memo
    let d := preds.foldl (fun acc u => max acc (((memo1.lookup u).getD 0) + 1)) 0
    (v, d) :: memo1

def distTable (c : Dag) : List (NodeId × Nat) :=
  c.nodeIds.foldl (fun m v => distVisit c (c.nodes.length + 1) m v) []

def longestPathLen (c : Dag) : Nat := (c.distTable.map (·.2)).foldl max 0

/-- `depth` given the networkx result `L = nx.dag_longest_path_length(self.dag)` -/
def depthWith (L : Nat) : Int := (L : Int) - 1

def depth (c : Dag) : Int := depthWith c.longestPathLen

/-- `validate()`: `none` if it passes, else the error class (`AssertionError` for a cycle, `RuntimeError` is reported
    as `type`-less "runtime" by the harness; here: `.value` is not used — cycle ↦ assertion, bad source/sink ↦ key) -/
def isAcyclicB (c : Dag) : Bool :=
  -- Kahn: repeatedly delete nodes without in-edges; acyclic iff everything gets deleted
  let rec go : Nat → List NodeId → List Edge → Bool
    | 0, ns, _ => ns.isEmpty
    | fuel + 1, ns, es =>
      let free := ns.filter fun n => !(es.any fun e => e.dst = n)
      if free.isEmpty then ns.isEmpty else
      go fuel (ns.filter fun n => !free.contains n) (es.filter fun e => !free.contains e.src)
  go (c.nodes.length + 1) c.nodeIds c.edges

def validate (c : Dag) : Option String :=
  if !c.isAcyclicB then some "assertion" else
  let badSrc := c.nodes.any fun p => (c.inEdges p.1).isEmpty && p.2.kind ≠ .input
  let badSnk := c.nodes.any fun p => (c.outEdges p.1).isEmpty && p.2.kind ≠ .output
  if badSrc || badSnk then some "runtime" else none

end Dag
end Graphiq
