/-
  StateToGraph.lean — model of the stabilizer → graph conversions of `graphiq/backends/state_rep_conversion.py`
  (`stabilizer_to_graph`, `state_to_graph`, `_graph_finder`, `_position_finder`, `_phase_correction`,
  `_same_stabilizer_state`) and of the helpers of `graphiq/backends/stabilizer/functions/linalg.py` they call
  (`row_swap`, `add_rows`, `hadamard_transform`, `row_reduction`, `_row_red_one_step`), function by function.

  The GF(2) inverses of `_graph_finder` and `_phase_correction`: since /repo 70adac4 (repair of D51) the code computes them by the exact
  Gauss–Jordan elimination `_gf2_inverse` (first row at or below the diagonal with a 1 in the column, swap it to the diagonal, clear every
  other row with a 1; `None` = singular → "Stabilizer generators are not independent." / `LinAlgError`).  `gf2Inv` below is that function,
  step by step.  (Before, the code went through floating point — `np.round(np.linalg.det(x) * np.linalg.inv(x)) % 2` — which truncated
  (D49) and, from ≈ 42 qubits on, lost the integers altogether (D51); the model was exact already.)  `graphFinderWith` / `stateToGraphWith`
  keep the inverse computation as a parameter: the soundness theorem of Properties/C08 holds for every candidate inverse that passes the
  checks the code itself performs.

  `_position_finder` is the pivot scan of the row-echelon X part (the repair of D40, /repo 86ab4f1; before, a staircase walk
  that assumed a pivot at (0,0) and left the X part singular whenever qubit 0 had no X component).

  Sizes: `n ≥ 1` (for `n = 0` the loop of `row_reduction` does not terminate in the Python; the model answers `runtime`).
  No Mathlib.
-/
import GraphiqModel.Model.Convert
import GraphiqModel.Model.GraphOps
namespace Graphiq
namespace S2G

/-- the pair `(x_matrix, z_matrix)` of an `n × n` + `n × n` binary symplectic table (signs are not part of `_graph_finder`) -/
structure XZ where
  n : Nat
  x : Adj
  z : Adj

namespace XZ

/-- tabulate (execution only; pointwise identity below `n`) -/
def norm (m : XZ) : XZ :=
  let xa : Array (Array Bool) := Array.ofFn (n := m.n) fun i => Array.ofFn (n := m.n) fun j => m.x i.val j.val
  let za : Array (Array Bool) := Array.ofFn (n := m.n) fun i => Array.ofFn (n := m.n) fun j => m.z i.val j.val
  { n := m.n, x := lookup2 xa, z := lookup2 za }

/-- `tableau.x_matrix`, `tableau.z_matrix` -/
def ofSTab (t : STab) : XZ := { n := t.n, x := fun i j => (t.row i).x j, z := fun i j => (t.row i).z j }

/-- `row_swap` applied to both matrices: `m[[a, b]] = m[[b, a]]` -/
def rowSwap (m : XZ) (a b : Nat) : XZ :=
  { m with
    x := fun i => if i = a then m.x b else if i = b then m.x a else m.x i
    z := fun i => if i = a then m.z b else if i = b then m.z a else m.z i }

/-- `add_rows(m, row_to_add, target_row)` applied to both matrices -/
def addRows (m : XZ) (src tgt : Nat) : XZ :=
  { m with
    x := fun i j => if i = tgt then xor (m.x src j) (m.x tgt j) else m.x i j
    z := fun i j => if i = tgt then xor (m.z src j) (m.z tgt j) else m.z i j }

/-- `the_ones = [i for i in range(pivot[0], n_row) if x_matrix[i, pivot[1]] == 1]` -/
def theOnes (m : XZ) (pr pc : Nat) : List Nat :=
  (List.range m.n).filter fun i => decide (pr ≤ i) && m.x i pc

/-- the common tail of `_row_red_one_step`: swap the first of `the_ones` into the pivot row, add the pivot row to the others -/
def elimBelow (m : XZ) (pr : Nat) : List Nat → XZ
  | [] => m
  | f :: rest => (rest.foldl (fun acc j => acc.addRows pr j) (m.rowSwap f pr)).norm

/-- `row_reduction` (the `while` loop over `_row_red_one_step`, fuel = number of columns + 1; the column index increases by
    one in every step that does not end the loop).  The loop ends when `_row_red_one_step` hands back the *same* pivot list
    object (`old_pivot = pivot` aliases it): in the last column, and in the last row on a set pivot.
    Returns the matrices and `pivot[0]` (which is `-1` when the last column is empty from row 0 on). -/
def rowRedLoop : Nat → XZ → Nat → Nat → XZ × Int
  | 0, m, pr, _ => (m, pr)
  | fuel + 1, m, pr, pc =>
    if pc + 1 = m.n then
      -- last column
      if (m.theOnes pr pc).isEmpty then (m, (pr : Int) - 1) else (m.elimBelow pr (m.theOnes pr pc), pr)
    else if pr + 1 = m.n then
      -- last row
      if m.x pr pc then (m, pr) else rowRedLoop fuel m pr (pc + 1)
    else if (m.theOnes pr pc).isEmpty then rowRedLoop fuel m pr (pc + 1)
    else rowRedLoop fuel (m.elimBelow pr (m.theOnes pr pc)) (pr + 1) (pc + 1)

def rowReduction (m : XZ) : XZ × Int := rowRedLoop (m.n + 1) m 0 0

/-- `hadamard_transform(x, z, positions)`: the columns listed are exchanged between the two matrices -/
def hadamardTransform (m : XZ) (pos : List Nat) : XZ :=
  { m with
    x := fun i j => if pos.contains j then m.z i j else m.x i j
    z := fun i j => if pos.contains j then m.x i j else m.z i j }

end XZ

/-- one round of the `for column in range(n_column)` loop of `_position_finder`; the state is `(row, pos_list)`:
    `if row < n_row and x_matrix[row, column] == 1: row += 1` / `else: pos_list.append(column)` -/
def posStep (x : Adj) (n : Nat) (s : Nat × List Nat) (column : Nat) : Nat × List Nat :=
  if s.1 < n ∧ x s.1 column = true then (s.1 + 1, s.2) else (s.1, s.2 ++ [column])

/-- the loop of `_position_finder` over the columns `0 .. k-1`, from `row = 0`, `pos_list = []` -/
def posLoop (x : Adj) (n k : Nat) : Nat × List Nat := (List.range k).foldl (posStep x n) (0, [])

/-- `_position_finder(x_matrix)` for an `n × n` matrix (`n_row = n_column = n`): the pivot scan of a row-echelon matrix; the
    columns without a pivot are returned (the qubits that get a Hadamard) -/
def positionFinder (n : Nat) (x : Adj) : List Nat := (posLoop x n n).2

/-! ### `_gf2_inverse`: exact GF(2) inverse by Gauss–Jordan elimination -/

/-- state of the Gauss–Jordan elimination: the matrix being reduced and the accumulated row operations -/
structure GJ where
  a : BMat
  m : BMat

def swapRows (A : Adj) (a b : Nat) : Adj := fun i => if i = a then A b else if i = b then A a else A i

/-- one round of `for col in range(n)`: `pivots[0]` = first row at or below the diagonal with a 1, swapped to the diagonal (in `a` and in
    `inv`), then every other row with a 1 in the column gets the pivot row added; `none` = `return None` -/
def gjStep (n : Nat) (s : Option GJ) (c : Nat) : Option GJ :=
  match s with
  | none => none
  | some s =>
    match ((List.range n).filter fun i => decide (c ≤ i) && s.a.f i c).head? with
    | none => none
    | some p =>
      let a1 := swapRows s.a.f c p
      let m1 := swapRows s.m.f c p
      some { a := (BMat.ofAdj n fun i j => if i ≠ c ∧ a1 i c then xor (a1 i j) (a1 c j) else a1 i j).norm
             m := (BMat.ofAdj n fun i j => if i ≠ c ∧ a1 i c then xor (m1 i j) (m1 c j) else m1 i j).norm }

/-- `_gf2_inverse(matrix)`; `none` = `None` (singular over GF(2)) -/
def gf2Inv (n : Nat) (A : Adj) : Option BMat :=
  ((List.range n).foldl (gjStep n) (some { a := BMat.ofAdj n A, m := BMat.ofAdj n idM })).map fun s => s.m

def transpose (A : Adj) : Adj := fun i j => A j i

/-! ### `_graph_finder` -/

structure GraphFinderOut where
  /-- adjacency matrix of the returned graph (`final_z` with the diagonal removed) -/
  adj : BMat
  /-- `h_positions` -/
  hpos : List Nat
  /-- `z_diag_pos` -/
  zdiag : List Nat
  /-- the local `rank` (computed by the Python, never used) -/
  rank : Int

/-- the part of `_graph_finder` after the inverse is available, for an arbitrary candidate inverse `xinv` of `x_mat.T`:
    `final_z`, its diagonal, and the two closing assertions (`final_z` symmetric; `x_inv @ x_mat.T = I`) -/
def graphFinderTail (m2 : XZ) (xinv : Adj) (hpos : List Nat) (rank : Int) : Except Err GraphFinderOut :=
  let n := m2.n
  let fz := (BMat.ofAdj n (matMul n (transpose m2.z) xinv)).norm
  let zdiag := (List.range n).filter fun i => fz.f i i
  let adj := (BMat.ofAdj n fun i j => if i = j then false else fz.f i j).norm
  if !((List.range n).all fun i => (List.range n).all fun j => adj.f i j == adj.f j i) then .error .assertion
  else if !((List.range n).all fun i => (List.range n).all fun j =>
      matMul n xinv (transpose m2.x) i j == decide (i = j)) then .error .assertion
  else .ok { adj := adj, hpos := hpos, zdiag := zdiag, rank := rank }

/-- `_graph_finder(x_matrix, z_matrix, get_ops_data=True)` with the inverse computation as a parameter:
    `inv n A = none` stands for `_gf2_inverse` returning `None` (the assertion fires), `some M` for the matrix it returns -/
def graphFinderWith (inv : Nat → Adj → Option Adj) (m0 : XZ) : Except Err GraphFinderOut :=
  if m0.n = 0 then .error .runtime else
  let (m1, rank0) := m0.norm.rowReduction
  -- `if x_mat[rank][n_column - 1] == 0: rank = rank - 1` (Python index `-1` is the last row); `rank` is not used afterwards
  let rk : Nat := if rank0 < 0 then m0.n - 1 else rank0.toNat
  let rank := if m1.x rk (m0.n - 1) then rank0 else rank0 - 1
  let hpos := positionFinder m0.n m1.x
  let m2 := (m1.hadamardTransform hpos).norm
  -- `x_inv = _gf2_inverse(x_mat.T)`; `assert x_inv is not None, "Stabilizer generators are not independent."`
  match inv m0.n (transpose m2.x) with
  | none => .error .assertion
  | some xinv => graphFinderTail m2 xinv hpos rank

/-- the exact inverse as a plain matrix -/
def gf2InvF (n : Nat) (A : Adj) : Option Adj := (gf2Inv n A).map fun m => m.f

/-- `_graph_finder` with exact GF(2) arithmetic -/
def graphFinder (m0 : XZ) : Except Err GraphFinderOut := graphFinderWith gf2InvF m0

/-! ### `_phase_correction`, `state_to_graph`, `stabilizer_to_graph` -/

/-- `[("H", pos) for pos in h_pos] + [("P_dag", pos) for pos in p_dag_pos]` -/
def lcGates (hpos zdiag : List Nat) : List Gate := hpos.map Gate.H ++ zdiag.map Gate.Pdag

/-- `_phase_correction(tab, g_tab, gate_list)` (`x_inv = _gf2_inverse(x_mat)`); `LinAlgError` (a `ValueError`) when the X part of the canonical form of the
    transformed state is singular (unreachable after a successful `_graph_finder`: it is the identity there) -/
def phaseCorrection (t : STab) (gt : STab) (gates : List Gate) : Except Err (List Gate) :=
  match t.canonicalForm with
  | .error e => .error e
  | .ok tab1 =>
    match gt.canonicalForm with
    | .error e => .error e
    | .ok tab2 =>
      match (tab1.runCircuit gates).canonicalForm with
      | .error e => .error e
      | .ok newTab =>
        let n := newTab.n
        match gf2Inv n (fun i j => (newTab.row i).x j) with
        | none => .error .value
        | some xinv =>
          -- `phase_diff = (tab2.phase - new_tab.phase) % 2`, `z_ops = (x_inv @ phase_diff) % 2`
          .ok (((List.range n).filter fun i =>
            parityTo n fun k => xinv.f i k && xor (tab2.row k).r (newTab.row k).r).map Gate.Z)

/-- `state_to_graph(state)` for a stabilizer tableau (a `CliffordTableau` is first reduced by `to_stabilizer`), with the inverse
    computation of `_graph_finder` as a parameter: the graph and the gate list `H…, P_dag…, Z…` -/
def stateToGraphWith (inv : Nat → Adj → Option Adj) (t : STab) : Except Err (BMat × List Gate) :=
  match graphFinderWith inv (XZ.ofSTab t) with
  | .error e => .error e
  | .ok g =>
    let gates := lcGates g.hpos g.zdiag
    match phaseCorrection t (graphSTab t.n g.adj.f) gates with
    | .error e => .error e
    | .ok zs => .ok (g.adj, gates ++ zs)

/-- `state_to_graph(state)` with exact GF(2) arithmetic -/
def stateToGraph (t : STab) : Except Err (BMat × List Gate) := stateToGraphWith gf2InvF t

/-- `_same_stabilizer_state(stab1, stab2)` -/
def sameStabilizerState (a b : STab) : Except Err Bool :=
  if a.n ≠ b.n then .ok false else
  match a.canonicalForm with
  | .error e => .error e
  | .ok ca =>
    match b.canonicalForm with
    | .error e => .error e
    | .ok cb => .ok (ca.beq cb)

/-- `stabilizer_to_graph(tableau, validate=True)` for one pure tableau -/
def stabilizerToGraph (t : STab) : Except Err BMat :=
  match graphFinder (XZ.ofSTab t) with
  | .error e => .error e
  | .ok g =>
    match sameStabilizerState t (graphSTab t.n g.adj.f) with
    | .error e => .error e
    | .ok true => .ok g.adj
    | .ok false => .error .assertion

/-- `list(graph.edges)` of the simple graph `nx.from_numpy_array(A)` on `0..n-1`: every edge once, as `(u, v)` with `u < v`,
    in the order of the nested loops — the list `_graph_to_density_pure` applies its CZ gates along -/
def edgesOf (n : Nat) (A : Adj) : List (Nat × Nat) := (STab.pairsLt n).filter fun e => A e.1 e.2

end S2G
end Graphiq
