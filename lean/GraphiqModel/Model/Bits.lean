/-
  Bits.lean — shared bit-level utilities of the executable model (no Mathlib).

  Conventions (DESIGN §2.1): bit tables are `Nat`-indexed total functions with explicit sizes;
  they are executed by tabulating into arrays after every operation (`tab1`, `tab2`).
-/
namespace Graphiq

/-- error classes of the model = exception classes of the Python (messages are never compared) -/
inductive Err where
  | assertion | value | index | type | attribute | key | warning | runtime
  deriving Repr, DecidableEq, Inhabited

def Err.toString : Err → String
  | .assertion => "assertion" | .value => "value" | .index => "index" | .type => "type"
  | .attribute => "attribute" | .key => "key" | .warning => "warning" | .runtime => "runtime"

instance : ToString Err := ⟨Err.toString⟩

/-- parity (xor-fold) of `f 0 … f (n-1)` -/
def parityTo (n : Nat) (f : Nat → Bool) : Bool :=
  match n with
  | 0 => false
  | k+1 => xor (parityTo k f) (f k)

/-- integer sum of `f 0 … f (n-1)` -/
def sumTo (n : Nat) (f : Nat → Int) : Int :=
  match n with
  | 0 => 0
  | k+1 => sumTo k f + f k

/-- natural-number sum / count -/
def countTo (n : Nat) (f : Nat → Bool) : Nat :=
  match n with
  | 0 => 0
  | k+1 => countTo k f + (if f k then 1 else 0)

def Bool.toInt' (b : Bool) : Int := if b then 1 else 0

/-- indices `i < n` with `f i`, ascending (mirrors `[i for i in range(n) if f(i)]`, `np.nonzero`) -/
def filterTo (n : Nat) (f : Nat → Bool) : List Nat :=
  (List.range n).filter f

/-- first index `i` with `lo ≤ i < hi` and `f i` -/
def findFrom (lo hi : Nat) (f : Nat → Bool) : Option Nat :=
  ((List.range hi).filter (fun i => lo ≤ i && f i)).head?

/-- lookup into tabulated bits.  NOTE (execution): never write a definition that *returns a function* and computes an
    array in a `let` first — the compiler eta-expands it and recomputes the array at every application.  Tabulating
    definitions therefore return *structures* whose fields are closures over the arrays (`PRow.norm`, `Tab.norm`, …). -/
def lookup1 (a : Array Bool) (i : Nat) : Bool := a.getD i false
def lookup2 (a : Array (Array Bool)) (i j : Nat) : Bool := (a.getD i #[]).getD j false

/-- function update -/
def upd {α : Type} (f : Nat → α) (k : Nat) (v : α) : Nat → α := fun i => if i = k then v else f i

def bitsToString (n : Nat) (f : Nat → Bool) : String :=
  String.ofList ((List.range n).map fun i => if f i then '1' else '0')

def bits2ToString (rows cols : Nat) (f : Nat → Nat → Bool) : String :=
  String.ofList ((List.range rows).flatMap fun i => (List.range cols).map fun j => if f i j then '1' else '0')

end Graphiq
