/-
  GraphOps.lean — graphs as adjacency matrices: local complementation, relabelling, LC-orbit explorers, isomorph finder.

  Mirrors
    graphiq/backends/lc_equivalence_check.py : local_comp_graph
    graphiq/backends/graph/state.py          : Graph.local_complementation
    graphiq/utils/relabel_module.py          : relabel, _perm2matrix, automorph_check, iso_finder, _label_finder, _add_labels,
                                               get_relabel_map, lc_orbit_finder, rgs_orbit_finder, linear_partial_orbit,
                                               depth_first_orbit, _depth_first, check_isomorphism, _retrieve_seq, _full_seq,
                                               _partial_orbit
  Conventions (DESIGN §2.1): an adjacency matrix is `Nat → Nat → Bool` with an explicit `n`; the executed objects are
  `BMat`s (a size and a lookup into tabulated arrays).  External libraries (networkx isomorphism tests, numpy RNG,
  `height_max`) are *parameters* of the model functions.  No Mathlib.
-/
import GraphiqModel.Model.Bits
namespace Graphiq

abbrev Adj := Nat → Nat → Bool

/-- a bit matrix with explicit shape; `f` is only ever read below `r`, `c` -/
structure BMat where
  r : Nat
  c : Nat
  f : Nat → Nat → Bool

namespace BMat

/-- tabulate (execution only; pointwise identity below the bounds, `BMat.norm_agree`) -/
def norm (m : BMat) : BMat :=
  let a : Array (Array Bool) := Array.ofFn (n := m.r) fun i => Array.ofFn (n := m.c) fun j => m.f i.val j.val
  { r := m.r, c := m.c, f := lookup2 a }

def ofRows (r c : Nat) (a : Array (Array Bool)) : BMat := { r := r, c := c, f := lookup2 a }

/-- square matrix of a graph -/
def ofAdj (n : Nat) (A : Adj) : BMat := { r := n, c := n, f := A }

/-- equality of shape and of all entries below the bounds -/
def beq (a b : BMat) : Bool :=
  a.r == b.r && a.c == b.c && (List.range a.r).all fun i => (List.range a.c).all fun j => a.f i j == b.f i j

def bits (m : BMat) : String := bits2ToString m.r m.c m.f

/-- row-major list of the entries (the `tuple(adj.flatten())` of `automorph_check`) -/
def flat (m : BMat) : List Bool := (List.range m.r).flatMap fun i => (List.range m.c).map fun j => m.f i j

end BMat

/-! ## local complementation -/

/-- the specification: local complementation at `v` toggles exactly the pairs of distinct neighbours of `v` -/
def localComp (A : Adj) (v : Nat) : Adj :=
  fun i j => if i = j then false else xor (A i j) (A i v && A v j)

/-- `(A @ B) % 2` for 0/1 matrices -/
def matMul (n : Nat) (A B : Adj) : Adj := fun i j => parityTo n fun k => A i k && B k j

/-- `gamma_matrix`: a single 1 at `(v, v)` -/
def gammaM (v : Nat) : Adj := fun i j => decide (i = v) && decide (j = v)

def idM : Adj := fun i j => decide (i = j)

/-- the bracket of `local_comp_graph` / `_apply_f`: `(Γ_v M + M[v,v] Γ_v + I) % 2` -/
def lcBracket (n : Nat) (M : Adj) (v : Nat) : Adj :=
  fun i j => xor (xor (matMul n (gammaM v) M i j) (M v v && gammaM v i j)) (idM i j)

/-- `M @ (Γ_v M + M[v,v] Γ_v + I) % 2` — the common matrix formula of `local_comp_graph` and `_apply_f` -/
def lcFormula (n : Nat) (M : Adj) (v : Nat) : Adj := matMul n M (lcBracket n M v)

/-- `local_comp_graph(input_graph, node_id)` on the adjacency matrix: the matrix formula, then the diagonal is zeroed -/
def localCompGraph (n : Nat) (A : Adj) (v : Nat) : Adj :=
  fun i j => if i = j then false else lcFormula n A v i j

/-- `local_comp_graph` on a tabulated graph -/
def lcStep (g : BMat) (v : Nat) : BMat := (BMat.ofAdj g.r (localCompGraph g.r g.f v)).norm

/-- with the Python's `assert n_nodes > node_id >= 0` -/
def localCompGraph? (g : BMat) (v : Nat) : Except Err BMat :=
  if v < g.r then .ok (lcStep g v) else .error .assertion

/-- successive `local_comp_graph` calls along a vertex sequence (stops at the first failed assertion) -/
def applyScript (g : BMat) : List Nat → Except Err BMat
  | [] => .ok g
  | v :: vs =>
    match localCompGraph? g v with
    | .error e => .error e
    | .ok h => applyScript h vs

/-- `itertools.combinations(l, 2)` -/
def combos2 : List Nat → List (Nat × Nat)
  | [] => []
  | a :: rest => rest.map (fun b => (a, b)) ++ combos2 rest

/-- `if has_edge(a, b): remove_edge(a, b) else: add_edge(a, b)` on an undirected graph -/
def toggleEdge (A : Adj) (a b : Nat) : Adj :=
  fun i j => if (i = a ∧ j = b) ∨ (i = b ∧ j = a) then !(A i j) else A i j

/-- `Graph.local_complementation(node_id)`: toggle every pair of neighbours -/
def localCompPairs (n : Nat) (A : Adj) (v : Nat) : Adj :=
  (combos2 (filterTo n fun j => A v j)).foldl (fun acc p => toggleEdge acc p.1 p.2) A

/-- `Graph.get_neighbors` raises `ValueError` for a node that is not in the graph -/
def localCompPairs? (g : BMat) (v : Nat) : Except Err BMat :=
  if v < g.r then .ok (BMat.ofAdj g.r (localCompPairs g.r g.f v)).norm else .error .value

/-- the graphs reached by each of a list of scripted sequences, in order -/
def applyScripts (g : BMat) : List (List Nat) → Except Err (List BMat)
  | [] => .ok []
  | ops :: rest =>
    match applyScript g ops with
    | .error e => .error e
    | .ok h =>
      match applyScripts g rest with
      | .error e => .error e
      | .ok hs => .ok (h :: hs)

/-- a sequence of local complementations (what a returned vertex sequence means) -/
def applySeq (A : Adj) (vs : List Nat) : Adj := vs.foldl localComp A

def applySeqM (g : BMat) (vs : List Nat) : BMat :=
  vs.foldl (fun acc v => (BMat.ofAdj acc.r (localComp acc.f v)).norm) g

def degree (n : Nat) (A : Adj) (v : Nat) : Nat := countTo n fun j => A v j

def edgeCount (n : Nat) (A : Adj) : Nat :=
  (List.range n).foldl (fun acc i => acc + countTo i fun j => A i j) 0

def insertSorted (a : Nat) : List Nat → List Nat
  | [] => [a]
  | b :: t => if a ≤ b then a :: b :: t else b :: insertSorted a t

/-- sorted degree sequence (a cheap isomorphism invariant for the driver's brute-force test) -/
def degSeq (n : Nat) (A : Adj) : List Nat := (List.range n).foldl (fun acc v => insertSorted (degree n A v) acc) []

/-! ## relabelling (relabel_module.py) -/

/-- `_perm2matrix(sequence)`: `P[i, sequence[i]] = 1` -/
def perm2matrix (p : List Nat) : Nat → Nat → Int := fun i j => if p[i]? = some j then 1 else 0

/-- `relabel(adj, new_labels) = (P.T @ adj @ P).astype(int)` with integer (not mod-2) arithmetic, as numpy does it -/
def relabel (n : Nat) (A : Adj) (p : List Nat) : Nat → Nat → Int :=
  fun a b => sumTo n fun i => perm2matrix p i a * sumTo n fun j => Bool.toInt' (A i j) * perm2matrix p j b

/-- integer matrices are passed around flattened (`tuple(new_adj.flatten())`) -/
def relabelFlat (n : Nat) (A : Adj) (p : List Nat) : List Int :=
  (List.range n).flatMap fun a => (List.range n).map fun b => relabel n A p a b

/-- `relabel` with the exceptions of the Python: `IndexError` for a label `≥ len`, `ValueError` for a shape mismatch -/
def relabel? (g : BMat) (p : List Nat) : Except Err (List Int) :=
  if p.any (fun l => decide (p.length ≤ l)) then .error .index
  else if p.length ≠ g.r then .error .value
  else .ok (relabelFlat g.r g.f p)

def flatInt (g : BMat) : List Int := g.flat.map Bool.toInt'

def ofFlatInt (n : Nat) (l : List Int) : BMat :=
  let a : Array Int := l.toArray
  let rows : Array (Array Bool) := Array.ofFn (n := n) fun i => Array.ofFn (n := n) fun j => decide (a.getD (i.val * n + j.val) 0 ≠ 0)
  BMat.ofRows n n rows

/-- the loop of `automorph_check`: collect the relabelled matrices that differ from `a0` and from each other
    (`acc` in reverse order of first occurrence) -/
def automorphGo (g : BMat) (a0 : List Int) : List (List Nat) → List (List Int) → Except Err (List (List Int))
  | [], acc => .ok acc.reverse
  | p :: rest, acc =>
    match relabel? g p with
    | .error e => .error e
    | .ok m => if m = a0 ∨ acc.contains m then automorphGo g a0 rest acc else automorphGo g a0 rest (m :: acc)

/-- `automorph_check(adj1, labels_arr)`: `adj1` first, then the distinct relabelled matrices different from `adj1`
    (the Python iterates a `set`, so the order of the tail is unspecified; the model keeps first-occurrence order) -/
def automorphCheck (g : BMat) (labels : List (List Nat)) : Except Err (List (List Int)) :=
  match automorphGo g (flatInt g) labels [] with
  | .error e => .error e
  | .ok tail => .ok (flatInt g :: tail)

/-- is `m` (a map node ↦ node given as a list) an isomorphism from `A` to `B`?  the specification recorded for
    networkx `GraphMatcher.mapping`, evaluated on every observed result -/
def isIsoMap (n : Nat) (A B : Adj) (m : List Nat) : Bool :=
  m.length == n && (List.range n).all (fun u => m.getD u n < n) &&
  (List.range n).all (fun u => (List.range n).all fun v => (u = v) || m.getD u n ≠ m.getD v n) &&
  (List.range n).all (fun u => (List.range n).all fun v => A u v == B (m.getD u n) (m.getD v n))

/-- backtracking search for an isomorphism `A → B` (driver-side stand-in for `nx.is_isomorphic`; never the subject of
    a theorem — the explorers take the isomorphism test as a parameter) -/
def isoSearch (n : Nat) (A B : Adj) : Nat → List Nat → Option (List Nat)
  | 0, m => if m.length = n then some m else none
  | fuel + 1, m =>
    let u := m.length
    if u = n then some m
    else
      (List.range n).findSome? fun w =>
        if m.contains w then none
        else if (List.range u).all (fun v => A u v == B w (m.getD v 0) && A v u == B (m.getD v 0) w) && A u u == B w w then
          isoSearch n A B fuel (m ++ [w])
        else none

def bruteIso (n : Nat) (A B : Adj) : Option (List Nat) :=
  if degSeq n A ≠ degSeq n B then none else isoSearch n A B n []

/-! ## LC-orbit explorers -/

/-- how `check_isomorphism(g, orbit_list, _only_auto)` compares: equality of adjacency matrices or the isomorphism oracle -/
structure OrbCfg where
  compDepth : Option Nat
  sizeThresh : Option Nat
  withIso : Bool
  rand : Bool
  repAllowed : Bool

/-- `check_isomorphism(graph, g_list, _only_auto)`; `iso` stands for `nx.is_isomorphic` -/
def checkIsomorphism (iso : BMat → BMat → Bool) (g : BMat) (gl : List BMat) (onlyAuto : Bool) : Bool :=
  gl.any fun h => if onlyAuto then g.beq h else iso g h

/-- state of the nested loops of `lc_orbit_finder` -/
structure OrbSt where
  orbit : List BMat
  done : Bool := false     -- an early `return orbit_list[:orbit_size_thresh]` was taken

/-- the `for node in node_list` loop for one `graph`; returns the new orbit list and whether the function returned / the
    `rand` break was taken -/
def lcOrbitNodes (cfg : OrbCfg) (iso : BMat → BMat → Bool) (g : BMat) (lenBefore : Nat) :
    List Nat → List BMat → List BMat × Bool × Bool
  | [], orbit => (orbit, false, false)
  | node :: rest, orbit =>
    let orbit1 :=
      if degree g.r g.f node > 1 then
        let glc := lcStep g node
        if !cfg.repAllowed then
          if !checkIsomorphism iso glc orbit cfg.withIso then orbit ++ [glc] else orbit
        else orbit ++ [glc]
      else orbit
    match cfg.sizeThresh with
    | some t =>
      if orbit1.length ≥ t then (orbit1.take t, true, false)
      else if cfg.rand && orbit1.length > lenBefore then (orbit1, false, true)
      else lcOrbitNodes cfg iso g lenBefore rest orbit1
    | none =>
      if cfg.rand && orbit1.length > lenBefore then (orbit1, false, true)
      else lcOrbitNodes cfg iso g lenBefore rest orbit1

/-- the `for graph in orbit_list[-new_graphs:]` loop; `shuffles` supplies the node order after each `np.random.shuffle` -/
def lcOrbitGraphs (cfg : OrbCfg) (iso : BMat → BMat → Bool) (lenBefore : Nat) :
    List BMat → List Nat → List (List Nat) → List BMat → List BMat × Bool × List Nat × List (List Nat)
  | [], nodeList, shuffles, orbit => (orbit, false, nodeList, shuffles)
  | g :: rest, nodeList, shuffles, orbit =>
    let (nodeList1, shuffles1) :=
      if cfg.rand then (shuffles.headD nodeList, shuffles.tail) else (nodeList, shuffles)
    let (orbit1, returned, _) := lcOrbitNodes cfg iso g lenBefore nodeList1 orbit
    if returned then (orbit1, true, nodeList1, shuffles1)
    else lcOrbitGraphs cfg iso lenBefore rest nodeList1 shuffles1 orbit1

/-- `cond(i)`: `True` without a depth, `i < comp_depth` otherwise -/
def depthOk (d : Option Nat) (i : Nat) : Bool :=
  match d with
  | none => true
  | some d => decide (i < d)

/-- the `while cond(i)` loop -/
def lcOrbitWhile (cfg : OrbCfg) (iso : BMat → BMat → Bool) :
    Nat → Nat → Nat → List Nat → List (List Nat) → List BMat → Except Err (List BMat)
  | 0, _, _, _, _, _ => .error .runtime      -- out of fuel: the Python would not have terminated within the bound
  | fuel + 1, i, newGraphs, nodeList, shuffles, orbit =>
    if depthOk cfg.compDepth i then
      -- `orbit_list[-new_graphs:]`: the last `new_graphs` entries (the whole list when `new_graphs ≥ len`)
      let res := lcOrbitGraphs cfg iso orbit.length (orbit.drop (orbit.length - newGraphs)) nodeList shuffles orbit
      if res.2.1 then .ok res.1
      else if res.1.length - orbit.length = 0 then .ok res.1
      else lcOrbitWhile cfg iso fuel (i + 1) (res.1.length - orbit.length) res.2.2.1 res.2.2.2 res.1
    else .ok orbit

/-- `lc_orbit_finder(graph, comp_depth, orbit_size_thresh, with_iso, rand, rep_allowed)`.
    `draws`: the values of `np.random.randint(0, len(graph))` of the initial random walk;
    `shuffles`: the content of `node_list` after each `np.random.shuffle(node_list)`;
    `iso`: `nx.is_isomorphic`. -/
def lcOrbitFinder (cfg : OrbCfg) (iso : BMat → BMat → Bool) (fuel : Nat) (g : BMat) (draws : List Nat)
    (shuffles : List (List Nat)) : Except Err (List BMat) :=
  let n := g.r
  let start : Except Err (List BMat) :=
    if cfg.rand then
      let k := min 10 n
      match applyScript g (draws.take k) with
      | .error e => .error e
      | .ok h => .ok [h]
    else .ok [g]
  match start with
  | .error e => .error e
  | .ok orbit0 =>
    if cfg.sizeThresh = some 1 then .ok orbit0
    else lcOrbitWhile cfg iso fuel 0 1 (List.range n) shuffles orbit0

/-- the `while core_nodes:` loop of `rgs_orbit_finder` (`cur` is `g_lc`) -/
def rgsGo (first : Nat) : Nat → List Nat → BMat → List BMat → List BMat
  | 0, _, _, acc => acc
  | _ + 1, [], _, acc => acc
  | f + 1, c :: cs, cur, acc =>
    let a := lcStep cur c
    let b := lcStep a first
    match cs with
    | [] => acc ++ [a, b]
    | c2 :: cs2 => rgsGo first f cs2 (lcStep a c2) (acc ++ [a, b, lcStep a c2])

/-- `rgs_orbit_finder(graph)` -/
def rgsOrbitFinder (g : BMat) : Except Err (List BMat) :=
  let n := g.r
  let leaf := filterTo n fun x => degree n g.f x == 1
  let core := filterTo n fun x => degree n g.f x != 1
  -- `int(n/2 + n/2*(n/2-1)/2) == graph.size()`: (n² + 2n)/8 rounded towards zero; `int(n/2)` leaves
  if (n * n + 2 * n) / 8 ≠ edgeCount n g.f ∨ leaf.length ≠ n / 2 then .error .assertion
  else
    match core with
    | [] => .error .index
    | first :: rest => .ok (rgsGo first (rest.length + 1) rest (lcStep g first) [g, lcStep g first])

/-- Python `list.insert(k, v)` (an index past the end appends) -/
def pyInsert {α : Type} (l : List α) (k : Nat) (v : α) : List α := l.take k ++ v :: l.drop k

/-- `for i in range(len(seq)): seq.insert(2*i+1, 0)` (the range is fixed before the loop) -/
def interleaveZeros (seq : List Nat) : List Nat :=
  (List.range seq.length).foldl (fun acc i => pyInsert acc (2 * i + 1) 0) seq

/-- `_retrieve_seq(n, seq_dict)`; the dictionary is a list of `(key, value)` -/
def retrieveSeq (fuel : Nat) (n : Nat) (dict : List (Nat × List Nat)) : List Nat :=
  match fuel with
  | 0 => []
  | f + 1 =>
    match dict.lookup n with
    | some s => s
    | none =>
      if n ≤ 1 then []
      else if n = 2 then [2, 2]
      else
        let middler := ((List.range (n - 1)).filter (fun i => 2 ≤ i)).flatMap fun i => retrieveSeq f i dict
        [n] ++ middler ++ [n - 1] ++ middler.reverse ++ [n] ++ middler ++ retrieveSeq f (n - 1) dict

/-- `_full_seq(n)` -/
def fullSeq (n : Nat) : List Nat :=
  let (seq, _) := ((List.range n).filter (fun i => 2 ≤ i)).foldl
    (fun (st : List Nat × List (Nat × List Nat)) i =>
      let nxt := retrieveSeq (i + 1) i st.2
      (st.1 ++ nxt, st.2 ++ [(i, nxt)])) ([], [])
  if n > 1 then [0, 1] ++ interleaveZeros seq else [0] ++ seq

/-- `_partial_orbit(n)`: all non-empty prefixes of the scripted sequence -/
def partialOrbitSeq (n : Nat) : List Nat :=
  let m := n / 2 + 1
  if n % 2 = 0 then
    let seq1 := fullSeq (m - 1)
    let middler := ((List.range (m - 2)).filter (fun i => 2 ≤ i)).flatMap fun i => retrieveSeq (i + 1) i []
    let extra := if middler.isEmpty then [m - 1] else [m - 1] ++ middler ++ [m - 2] ++ middler.reverse
    seq1 ++ interleaveZeros extra
  else fullSeq m

def partialOrbit (n : Nat) : List (List Nat) :=
  let s := partialOrbitSeq n
  (List.range s.length).map fun i => s.take (i + 1)

def maxDegree (n : Nat) (A : Adj) : Nat := (List.range n).foldl (fun m v => max m (degree n A v)) 0

/-- `linear_partial_orbit(graph)` -/
def linearPartialOrbit (g : BMat) : Except Err (List BMat) :=
  let n := g.r
  -- n = 0: `n - 1 == graph.size()` is already false
  if n = 0 then .error .assertion
  else if n - 1 ≠ edgeCount n g.f ∨ maxDegree n g.f ≠ 2 then .error .assertion
  else applyScripts g (partialOrbit n)

/-- state threaded through `_depth_first` -/
structure DfSt where
  gOrbit : List BMat
  orbitList : List (List BMat)
  path : List Nat
  pathList : List (List Nat)

/-- `_depth_first(g0, n, g_orbit, path, path_list, orbit_list)` (with `exact=False`); `iso` stands for
    `nx.vf2pp_is_isomorphic` -/
def depthFirst (iso : BMat → BMat → Bool) (n : Nat) : Nat → BMat → DfSt → Except Err DfSt
  | 0, _, _ => .error .runtime
  | fuel + 1, g0, st0 =>
    let body (acc : Except Err DfSt) (i : Nat) : Except Err DfSt :=
      match acc with
      | .error e => .error e
      | .ok st =>
        match localCompGraph? g0 i with
        | .error e => .error e
        | .ok newG =>
          let all := st.orbitList.flatten ++ st.gOrbit
          if all.any (fun h => iso h newG) then .ok st
          else depthFirst iso n fuel newG { st with gOrbit := st.gOrbit ++ [newG], path := st.path ++ [i] }
    match (List.range n).foldl body (.ok st0) with
    | .error e => .error e
    | .ok st =>
      let repeated := st.pathList.any fun ps => ps.take st.path.length == st.path
      let (pl, ol) :=
        if !repeated && st.path.length > 0 then (st.pathList ++ [st.path], st.orbitList ++ [st.gOrbit])
        else (st.pathList, st.orbitList)
      .ok { gOrbit := st.gOrbit.dropLast, orbitList := ol, path := st.path.dropLast, pathList := pl }

/-- `depth_first_orbit(graph)`: the graphs reached by every prefix of every recorded path, the empty path included
    (the Python iterates a `set` of paths; the model lists them in first-occurrence order) -/
def depthFirstOrbit (iso : BMat → BMat → Bool) (fuel : Nat) (g : BMat) : Except Err (List (List Nat) × List BMat) :=
  match depthFirst iso g.r fuel g { gOrbit := [g], orbitList := [], path := [], pathList := [] } with
  | .error e => .error e
  | .ok st =>
    let prefixes := st.pathList.flatMap fun p => (List.range p.length).map fun i => p.take (i + 1)
    let pathSet := prefixes.foldl (fun acc p => if acc.contains p then acc else acc ++ [p]) [[]]
    match applyScripts g pathSet with
    | .error e => .error e
    | .ok gs => .ok (pathSet, gs)

/-! ## metric-guided LC walks (utils/preprocessing.py) -/

/-- `_select_graphs(candidate_graphs, new_graph, limit, metric_value)` -/
def selectGraphs (cands : List (Float × BMat)) (g : BMat) (limit : Nat) (val : Float) : List (Float × BMat) :=
  if cands.length < limit then cands ++ [(val, g)]
  else
    match cands.findIdx? (fun c => decide (val < c.1)) with
    | some i => (pyInsert cands i (val, g)).dropLast
    | none => cands

/-- `np.argwhere(counts == np.amax(counts))`: the vertices with the largest count, ascending -/
def maxNodes (n : Nat) (score : Nat → Nat) : List Nat :=
  let mx := (List.range n).foldl (fun m v => max m (score v)) 0
  filterTo n fun v => score v == mx

/-- `_count_n_neighbor_edges(adj)[v]`: `int(count_nonzero(adj[nb][:, nb]) / 2)` -/
def neighborEdges (n : Nat) (A : Adj) (v : Nat) : Nat :=
  let nb := filterTo n fun j => A v j
  (nb.foldl (fun acc a => acc + (nb.filter fun b => A a b).length) 0) / 2

/-- one trial of the walk: complement every candidate at each of its top-scoring vertices, then feed the results to
    `_select_graphs` in order -/
def lcWalkTrial (nodeScore : BMat → Nat → Nat) (metric : BMat → Float) (limit : Nat) (cands : List (Float × BMat)) :
    List (Float × BMat) :=
  let tmp : List BMat := cands.flatMap fun c => (maxNodes c.2.r (nodeScore c.2)).map fun v => lcStep c.2 v
  tmp.foldl (fun acc g => selectGraphs acc g limit (metric g)) cands

/-- `get_lc_graph_by_max_edge` (`nodeScore` = degree) / `get_lc_graph_by_max_neighbor_edge` (`nodeScore` = edges among the
    neighbours); `metric` is the caller's `graph_metric` -/
def lcWalk (nodeScore : BMat → Nat → Nat) (metric : BMat → Float) (g : BMat) (limit trials : Nat) : Except Err (List (Float × BMat)) :=
  if g.r = 0 then .error .value     -- `np.amax` of an empty array
  else .ok ((List.range trials).foldl (fun acc _ => lcWalkTrial nodeScore metric limit acc) [(metric g, g)])

def degreeScore (g : BMat) (v : Nat) : Nat := degree g.r g.f v
def neighborEdgeScore (g : BMat) (v : Nat) : Nat := neighborEdges g.r g.f v

/-! ## isomorph finder -/

def factorial : Nat → Nat
  | 0 => 1
  | k + 1 => (k + 1) * factorial k

structure IsoCfg where
  nIso : Nat
  relIncThresh : Float
  allowExhaustive : Bool
  sortEmit : Bool
  labelMap : Bool
  thresh : Option Nat

/-- the sampling loop of `_label_finder`: `while len(new_label_set) < n_label and count < thresh` -/
def labelSetLoop (nLabel thr : Nat) : Nat → List (List Nat) → Nat → List (List Nat) → List (List Nat) × Nat
  | 0, set, count, _ => (set, count)
  | f + 1, set, count, ds =>
    if set.length < nLabel ∧ count < thr then
      match ds with
      | [] => (set, count)          -- starved: reported by the driver through the consumed count
      | d :: rest => labelSetLoop nLabel thr f (if set.contains d then set else set ++ [d]) (count + 1) rest
    else (set, count)

/-- `thresh = 5 * n_label` by default; a threshold below `n_label` is raised to `n_label + 1` -/
def threshOf (thresh : Option Nat) (nLabel : Nat) : Nat :=
  match thresh with
  | none => 5 * nLabel
  | some t => if t < nLabel then nLabel + 1 else t

/-- the initial `new_label_set`: the identity labelling unless a set is handed in -/
def set0Of (labelSet : Option (List (List Nat))) (nNode : Nat) : List (List Nat) :=
  match labelSet with
  | none => [List.range nNode]
  | some s => s

/-- `_label_finder(n_label, n_node, new_label_set, exhaustive, seed, thresh)`.
    `draws` is what the generator returned in this call: the rows of `rng.choice(perm[1:], n_label - 1)` in the
    enumerate-all branch, the successive `rng.permutation(n_node)` in the sampling branch.
    Returns the labels (first-occurrence order for the `set` branch) and the number of draws consumed. -/
def labelFinder (nLabel nNode : Nat) (labelSet : Option (List (List Nat))) (exhaustive : Bool) (thresh : Option Nat)
    (draws : List (List Nat)) : Except Err (List (List Nat) × Nat) :=
  let nMax := factorial nNode
  let thr : Nat := threshOf thresh nLabel
  if nLabel > nMax then .error .assertion
  else if nNode < 8 ∨ exhaustive then
    -- `rng.choice(perm[1:], n_label - 1)`; `n_label = 0` would ask for -1 samples (ValueError)
    -- `len(perm) > 1` is false for at most one vertex: no sampling, only the identity labelling (repository commit edab176)
    if nMax = 1 then .ok ([List.range nNode], 0)
    else if nLabel = 0 then .error .value
    else .ok (List.range nNode :: draws.take (nLabel - 1), nLabel - 1)
  else
    .ok (labelSetLoop nLabel thr (thr + 1) (set0Of labelSet nNode) 0 draws)

/-- `_add_labels(labels_arr, add_n, exhaustive, seed, thresh)` -/
def addLabels (labels : List (List Nat)) (addN : Nat) (exhaustive : Bool) (thresh : Option Nat)
    (draws : List (List Nat)) : Except Err (List (List Nat) × Nat) :=
  match labels with
  | [] => .error .index
  | l0 :: _ =>
    let nNode := l0.length
    let nLabel := labels.length
    let nMax := factorial nNode
    let nTotal := if addN + nLabel < nMax then addN + nLabel else nMax
    let set := labels.foldl (fun acc p => if acc.contains p then acc else acc ++ [p]) []
    labelFinder nTotal nNode (some set) exhaustive thresh draws

/-- result of `iso_finder`: the de-duplicated list *before* the final `[:n_iso]` (whose tail order is unspecified in
    the Python), the number of matrices returned, and which return path was taken -/
structure IsoRes where
  full : List (List Int)
  nOut : Nat
  path : String
  sorted : Bool
  withMap : Bool
  rounds : Nat
  consumed : List Nat

/-- Python `int(x)` of a non-negative float -/
def floatToNat (x : Float) : Nat := x.floor.toUInt64.toNat

/-- `success_ratio = len(adj_arr) / n_label if len(adj_arr) != 0 else 0.5` -/
def succRatioOf (len nLabel : Nat) : Float := if len ≠ 0 then len.toFloat / nLabel.toFloat else 0.5

/-- `rel_inc` after a round: updated only when the number of distinct matrices did not drop -/
def relIncOf (n1 n2 : Nat) (sr relInc : Float) : Float :=
  if n2 ≥ n1 then (n2.toFloat / (n1 + 1).toFloat) * sr else relInc

/-- the `while` loop of `iso_finder` -/
def isoLoop (cfg : IsoCfg) (g : BMat) (nMax : Nat) :
    Nat → List (List (List Nat)) → List (List Nat) → List (List Int) → Nat → Float → Bool → Nat → List Nat →
    Except Err IsoRes
  | 0, _, _, _, _, _, _, _, _ => .error .runtime
  | fuel + 1, draws, labels, adjArr, nLabel, relInc, allChecked, rounds, consumed =>
    if adjArr.length < cfg.nIso ∧ relInc > cfg.relIncThresh ∧ allChecked = false then
      let sr := succRatioOf adjArr.length nLabel
      let q := floatToNat (nLabel.toFloat / sr)
      let over : Bool := decide (q + 1 > nMax)
      if over && !cfg.allowExhaustive && decide (sr < 0.5) then
        .ok { full := adjArr, nOut := adjArr.length, path := "warn-return", sorted := false, withMap := false,
              rounds := rounds, consumed := consumed }
      else
        match addLabels labels (q + 1 - nLabel) (cfg.allowExhaustive && over) cfg.thresh (draws.headD []) with
        | .error e => .error e
        | .ok (labels1, used) =>
          match automorphCheck g labels1 with
          | .error e => .error e
          | .ok adj1 =>
            isoLoop cfg g nMax fuel draws.tail labels1 adj1 (if over then nMax else q + 1)
              (relIncOf adjArr.length adj1.length sr relInc) over (rounds + 1) (consumed ++ [used])
    else
      .ok { full := adjArr, nOut := min cfg.nIso adjArr.length, path := "loop-exit", sorted := cfg.sortEmit,
            withMap := cfg.labelMap, rounds := rounds, consumed := consumed }

/-- `iso_finder(adj_matrix, n_iso, rel_inc_thresh, allow_exhaustive, sort_emit, label_map, thresh, seed)`;
    `draws` holds one list of generator results per `_label_finder` call, in call order -/
def isoFinder (cfg : IsoCfg) (g : BMat) (draws : List (List (List Nat))) : Except Err IsoRes :=
  let nNode := g.r
  let nMax := factorial nNode
  match labelFinder cfg.nIso nNode none false cfg.thresh (draws.headD []) with
  | .error e => .error e
  | .ok (labels, used) =>
    match automorphCheck g labels with
    | .error e => .error e
    | .ok adjArr =>
      if adjArr.length ≥ cfg.nIso then
        .ok { full := adjArr, nOut := cfg.nIso, path := "early", sorted := false, withMap := false, rounds := 0,
              consumed := [used] }
      else isoLoop cfg g nMax (nMax + 2) draws.tail labels adjArr cfg.nIso 1.0 false 0 [used]

end Graphiq
