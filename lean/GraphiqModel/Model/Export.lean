/-
  Export.lean — executable model of the exporters / importers of graphiq circuits (C14), no Mathlib.

  Mirrors, function by function:
    graphiq/utils/openqasm_lib.py      OpenQASMInfo, the per-class `*_info()` objects, `single_qubit_wrapper_info`,
                                       `register_initialization_string`, `openqasm_header`
    graphiq/circuit/circuit_base.py    `_openqasm_update` (header material accumulated in *add* order), `to_openqasm`
                                       (body in `sequence()` order, barrier rule)
    graphiq/circuit/circuit_dag.py     `add` / `_add_reg_if_absent` (register bookkeeping only), `from_openqasm`,
                                       `to_json`, `from_json`
    graphiq/circuit/ops.py             `name_to_class_map`, `class_to_name_mapping`, `OneQubitGateWrapper.unwrap`

  A circuit is an *operation list on typed registers* (`e`/`p` quantum, `c` classical): `ops` in the order the operations
  were added (this fixes the header of the openQASM text) and, for the exporters, the operation list in the order
  `sequence()` returned it (a topological order of the DAG — a parameter here, the DAG itself is modelled elsewhere).

  Text is `List Char` (`Str`).  openQASM programs exist at two levels:
    * structured statements `Stmt` (what the theorems talk about), and
    * the exact text (`Program.render`), which the correspondence run compares character by character with
      `to_openqasm()`; `fromOpenqasmText` re-reads that text the way `from_openqasm` does (whitespace stripping, header
      check, removal of gate declarations, split on ';', the regex/slicing glue) and the driver checks on every input
      that it agrees with the statement-level parser.
  Gate names are real strings and all finite name tables are the literals regenerated from the repository on every run
  (`Generated/NameTables.lean`).
-/
import GraphiqModel.Model.Bits
import GraphiqModel.Generated.NameTables
namespace Graphiq.Export

abbrev Str := List Char

/-! ## registers, operation classes, operations -/

inductive RegT | e | p
  deriving DecidableEq, Repr, Inhabited

def RegT.ch : RegT → Char
  | .e => 'e' | .p => 'p'

/-- a quantum register `(type, index)`; classical registers are bare indices -/
structure QReg where
  t : RegT
  i : Nat
  deriving DecidableEq, Repr, Inhabited

/-- the non-parameterised subclasses of `OneQubitOperationBase` -/
inductive G1 | H | X | Y | Z | S | Sdg | I
  deriving DecidableEq, Repr, Inhabited
/-- subclasses of `ControlledPairOperationBase` -/
inductive G2 | CNOT | CZ
  deriving DecidableEq, Repr, Inhabited
/-- subclasses of `ClassicalControlledPairOperationBase` -/
inductive GC | CCNOT | CCZ | MCR
  deriving DecidableEq, Repr, Inhabited

/-- the 13 operation classes the exporters know a name for -/
inductive Cls | g1 (g : G1) | g2 (g : G2) | gc (g : GC) | measZ
  deriving DecidableEq, Repr, Inhabited

def Cls.all : List Cls :=
  [.g2 .CNOT, .g1 .X, .g1 .Y, .g1 .Z, .g1 .H, .g1 .S, .g2 .CZ, .gc .CCNOT, .gc .CCZ, .gc .MCR, .g1 .I, .g1 .Sdg, .measZ]

def G1.all : List G1 := [.H, .X, .Y, .Z, .S, .Sdg, .I]

/-- Python class name -/
def Cls.pyName : Cls → Str
  | .g2 .CNOT => "CNOT".toList | .g1 .X => "SigmaX".toList | .g1 .Y => "SigmaY".toList | .g1 .Z => "SigmaZ".toList
  | .g1 .H => "Hadamard".toList | .g1 .S => "Phase".toList | .g2 .CZ => "CZ".toList
  | .gc .CCNOT => "ClassicalCNOT".toList | .gc .CCZ => "ClassicalCZ".toList
  | .gc .MCR => "MeasurementCNOTandReset".toList | .g1 .I => "Identity".toList | .g1 .Sdg => "PhaseDagger".toList
  | .measZ => "MeasurementZ".toList

def Cls.ofPyName (s : Str) : Option Cls := Cls.all.find? (fun k => k.pyName == s)

/-- an operation object (everything the exporters read: class, registers; for wrappers the `operations` list) -/
inductive Op
  | one (g : G1) (q : QReg)
  | wrap (gs : List G1) (q : QReg)
  | ctrl (g : G2) (c t : QReg)
  | cctrl (g : GC) (c t : QReg) (cr : Nat)
  | meas (q : QReg) (cr : Nat)
  deriving DecidableEq, Repr, Inhabited

def Op.qRegs : Op → List QReg
  | .one _ q | .wrap _ q | .meas q _ => [q]
  | .ctrl _ c t | .cctrl _ c t _ => [c, t]

def Op.cRegs : Op → List Nat
  | .cctrl _ _ _ cr | .meas _ cr => [cr]
  | _ => []

/-- a circuit: register counts and the operations in the order they were added -/
structure Circuit where
  ne : Nat
  np : Nat
  nc : Nat
  ops : List Op
  deriving DecidableEq, Repr, Inhabited

def Circuit.nOf (c : Circuit) : RegT → Nat
  | .e => c.ne | .p => c.np

/-! ## finite tables (literals regenerated from the repository) -/

def lookupTbl {α : Type} (tbl : List (Str × α)) (k : Str) : Option α :=
  (tbl.find? (fun p => p.1 == k)).map (·.2)

def strTbl {α : Type} (t : List (String × α)) : List (Str × α) := t.map fun p => (p.1.toList, p.2)

def classToNameTbl : List (Str × Option Str) := (strTbl Gen.classToName).map fun p => (p.1, p.2.map String.toList)
def nameToClassTbl : List (Str × Str) := (strTbl Gen.nameToClass).map fun p => (p.1, p.2.toList)
def gateNameTbl : List (Str × Option Str) := (strTbl Gen.gateName).map fun p => (p.1, p.2.map String.toList)
def definitionsTbl : List (Str × List Str) := (strTbl Gen.definitions).map fun p => (p.1, p.2.map String.toList)
def importsTbl : List (Str × List Str) := (strTbl Gen.imports).map fun p => (p.1, p.2.map String.toList)
def jsonShapeTbl : List (Str × Str) := (strTbl Gen.jsonShape).map fun p => (p.1, p.2.toList)

/-- `ops.class_to_name_mapping(k)` (`none` = Python `None`) -/
def classToName (k : Cls) : Option Str := (lookupTbl classToNameTbl k.pyName).join

/-- `ops.name_to_class_map(name)` -/
def nameToClass (s : Str) : Option Cls := (lookupTbl nameToClassTbl s).bind Cls.ofPyName

/-- `k.openqasm_info().gate_name` (`none`: the class has no openQASM translation) -/
def gateName (k : Cls) : Option Str := (lookupTbl gateNameTbl k.pyName).join
def multiComp (k : Cls) : Bool := ((lookupTbl (strTbl Gen.multiComp) k.pyName)).getD false
def definitions (k : Cls) : List Str := (lookupTbl definitionsTbl k.pyName).getD []
def importStrings (k : Cls) : List Str := (lookupTbl importsTbl k.pyName).getD []
/-- `issubclass(k, OneQubitOperationBase)` -/
def isOneQubit (k : Cls) : Bool := (lookupTbl (strTbl Gen.oneQubit) k.pyName).getD false
/-- `issubclass(k, ControlledPairOperationBase)` -/
def isControlledPair (k : Cls) : Bool := (lookupTbl (strTbl Gen.controlledPair) k.pyName).getD false
/-- `issubclass(a, b)` -/
def isSubclass (a b : Cls) : Bool := (strTbl Gen.subclass).any fun p => p.1 == a.pyName && p.2.toList == b.pyName

/-- constructor dispatch of `from_json` -/
inductive Shape | cctrl | ctrl | meas | one
  deriving DecidableEq, Repr, Inhabited

def jsonShape (k : Cls) : Shape :=
  match (lookupTbl jsonShapeTbl k.pyName).map String.ofList with
  | some "cctrl" => .cctrl | some "ctrl" => .ctrl | some "meas" => .meas | _ => .one

/-- the constructor signature of the class itself (fixed by the class definitions in ops.py) -/
def Cls.shape : Cls → Shape
  | .g1 _ => .one | .g2 _ => .ctrl | .gc _ => .cctrl | .measZ => .meas

/-! ## openqasm_lib: OpenQASMInfo -/

/-- which `usage` closure an info object carries -/
inductive Usage
  | empty                 -- `lambda x, y, z: ""`
  | one (name : Str)      -- f"{name} {t}{r}[0];"
  | two (name : Str)      -- f"{name} {t0}{r0}[0], {t1}{r1}[0];"
  | cif (g : Str)         -- measure … ; if (c==1) g …;
  | cifReset (g : Str)    -- measure … ; if … ; barrier … ; reset …;
  | measure
  deriving DecidableEq, Repr, Inhabited

/-- a composite definition in structured form: name and body (gate names in textual order) -/
structure Comp where
  name : Str
  body : List Str
  deriving DecidableEq, Repr, Inhabited

/-- one entry of `openqasm_defs`: the definition text (the dict key) and, for wrapper composites, its structure -/
structure DefEntry where
  text : Str
  comp : Option Comp := none
  deriving DecidableEq, Repr, Inhabited

structure QInfo where
  gateName : Str
  imports : List Str
  defs : List DefEntry
  usage : Usage
  multi : Bool
  deriving DecidableEq, Repr, Inhabited

def emptyInfo : QInfo :=
  { gateName := Gen.emptyGateName.toList, imports := [], defs := Gen.emptyDefinitions.map fun d => { text := d.toList },
    usage := .empty, multi := false }

/-- the `usage` closure of each class (hand-copied templates of openqasm_lib; tied to the code by the exact text
    comparison of the correspondence run).  The gate letters of the classical-controlled idioms are literals there. -/
def usageOf (k : Cls) (name : Str) : Usage :=
  match k with
  | .g1 .I => .empty
  | .g1 _ => .one name
  | .g2 _ => .two name
  | .gc .CCNOT => .cif "x".toList
  | .gc .CCZ => .cif "z".toList
  | .gc .MCR => .cifReset "x".toList
  | .measZ => .measure

/-- `k.openqasm_info()` for a class (`error value`: "Operation does not have an openQASM translation") -/
def classInfo (k : Cls) : Except Err QInfo :=
  match gateName k with
  | none => .error .value
  | some nm =>
    .ok { gateName := nm, imports := importStrings k, defs := (definitions k).map fun d => { text := d },
          usage := usageOf k nm, multi := multiComp k }

/-- `d[k] = v` on an association list read with `lookupTbl` (first match wins, so prepending overrides) -/
def dictSet {α : Type} (d : List (Str × α)) (k : Str) (v : α) : List (Str × α) := (k, v) :: d

structure WrapAcc where
  imports : List Str := []
  defs : List DefEntry := []
  gateName : Str := []
  defUsage : Str := []
  body : List Str := []
  dict : List (Str × QInfo) := [([], emptyInfo)]

/-- one iteration of the loop of `single_qubit_wrapper_info` -/
def wrapStep (a : WrapAcc) (g : G1) : Except Err WrapAcc := do
  let info ← classInfo (.g1 g)
  let a := { a with dict := dictSet a.dict info.gateName info }
  if info.gateName == [] then
    return a
  return { a with imports := a.imports ++ info.imports, defs := a.defs ++ info.defs,
                  gateName := a.gateName ++ info.gateName,
                  -- the last listed gate acts first, so it comes first in the gate body
                  defUsage := info.gateName ++ " a;\n".toList ++ a.defUsage,
                  body := info.gateName :: a.body }

/-- `single_qubit_wrapper_info(op_list)` -/
def singleQubitWrapperInfo (gs : List G1) : Except Err QInfo := do
  let a ← gs.foldlM wrapStep {}
  match lookupTbl a.dict a.gateName with
  | some info => return info            -- "gate is already somehow defined"
  | none =>
    let text := "gate ".toList ++ a.gateName ++ " a { \n".toList ++ a.defUsage ++ "}".toList
    return { gateName := a.gateName, imports := a.imports,
             defs := a.defs ++ [{ text := text, comp := some { name := a.gateName, body := a.body } }],
             usage := .one a.gateName, multi := false }

/-- `op.openqasm_info()` -/
def Op.info : Op → Except Err QInfo
  | .one g _ => classInfo (.g1 g)
  | .wrap gs _ => singleQubitWrapperInfo gs
  | .ctrl g _ _ => classInfo (.g2 g)
  | .cctrl g _ _ _ => classInfo (.gc g)
  | .meas _ _ => classInfo .measZ

/-! ## statements and programs -/

inductive Stmt
  | gate (name : Str) (args : List QReg)
  | measure (q : QReg) (c : Nat)
  | ifx (c : Nat) (g : Str) (q : QReg)
  | reset (q : QReg)
  | barrier (regs : List QReg)
  | qreg (q : QReg) (size : Nat)
  | creg (i size : Nat)
  | raw (text : Str)          -- anything else (import lines)
  | empty                     -- the empty command after the last ';'
  deriving DecidableEq, Repr, Inhabited

structure Program where
  header : Str
  imports : List Str
  defs : List DefEntry
  decls : List Stmt
  /-- one group per appended string of `to_openqasm` (a barrier line, or the application of one operation) -/
  body : List (List Stmt)
  deriving DecidableEq, Repr, Inhabited

def showNat (n : Nat) : Str := Nat.toDigits 10 n
def QReg.render (q : QReg) : Str := q.t.ch :: showNat q.i

def joinStr (sep : Str) : List Str → Str
  | [] => []
  | [a] => a
  | a :: rest => a ++ sep ++ joinStr sep rest

def Stmt.render : Stmt → Str
  | .gate name [] => name ++ ";".toList
  | .gate name args => name ++ " ".toList ++ joinStr ", ".toList (args.map fun q => q.render ++ "[0]".toList) ++ ";".toList
  | .measure q c => "measure ".toList ++ q.render ++ "[0] -> c".toList ++ showNat c ++ "[0];".toList
  | .ifx c g q => "if (c".toList ++ showNat c ++ "==1) ".toList ++ g ++ " ".toList ++ q.render ++ "[0];".toList
  | .reset q => "reset ".toList ++ q.render ++ "[0];".toList
  | .barrier regs => "barrier ".toList ++ joinStr ", ".toList (regs.map QReg.render) ++ ";".toList
  | .qreg q size => "qreg ".toList ++ q.render ++ "[".toList ++ showNat size ++ "];".toList
  | .creg i size => "creg c".toList ++ showNat i ++ "[".toList ++ showNat size ++ "];".toList
  | .raw t => t
  | .empty => []

/-- `Program` → the exact text of `to_openqasm()` -/
def Program.render (p : Program) : Str :=
  let headerInfo := p.header ++ "\n".toList ++ joinStr "\n".toList p.imports ++ "\n".toList ++
    joinStr "\n".toList (p.defs.map (·.text))
  let regInit := joinStr "\n".toList (p.decls.map Stmt.render) ++ "\n".toList
  joinStr "\n".toList (headerInfo :: regInit :: p.body.map fun g => joinStr " \n".toList (g.map Stmt.render))

/-! ## circuit_base: header accumulation and `to_openqasm` -/

def insertNew (keys : List Str) (k : Str) : List Str := if keys.contains k then keys else keys ++ [k]

def insertDef (ds : List DefEntry) (d : DefEntry) : List DefEntry :=
  if ds.any (fun x => x.text == d.text) then ds else ds ++ [d]

/-- `_openqasm_update` folded over the operations in the order they were added: (`openqasm_imports`, `openqasm_defs`) -/
def headerOf (adds : List Op) : Except Err (List Str × List DefEntry) :=
  adds.foldlM (fun (acc : List Str × List DefEntry) op => do
    let info ← op.info
    return (info.imports.foldl insertNew acc.1, info.defs.foldl insertDef acc.2)) ([], [])

/-- `oq_info.use_gate(op.q_registers, op.q_registers_type, op.c_registers)` as a group of statements
    (`[]` = the empty string) -/
def useGate (u : Usage) (op : Op) : Except Err (List Stmt) :=
  let qs := op.qRegs
  let cs := op.cRegs
  match u with
  | .empty => .ok []
  | .one name => match qs with
    | q :: _ => .ok [.gate name [q]]
    | _ => .error .index
  | .two name => match qs with
    | a :: b :: _ => .ok [.gate name [a, b]]
    | _ => .error .index
  | .cif g => match qs, cs with
    | a :: b :: _, c :: _ => .ok [.measure a c, .ifx c g b]
    | _, _ => .error .index
  | .cifReset g => match qs, cs with
    | a :: b :: _, c :: _ => .ok [.measure a c, .ifx c g b, .barrier [a, b], .reset a]
    | _, _ => .error .index
  | .measure => match qs, cs with
    | a :: _, c :: _ => .ok [.measure a c]
    | _, _ => .error .index

structure BodyAcc where
  opened : Bool := false
  out : List (List Stmt) := []

/-- one iteration of the body loop of `to_openqasm` -/
def bodyStep (barrier : Stmt) (a : BodyAcc) (op : Op) : Except Err BodyAcc := do
  let info ← op.info
  let app ← useGate info.usage op
  let nonEmpty := !app.isEmpty
  -- set barrier, if necessary to split out multi-block Operations from each other
  let out := if (a.opened || info.multi) && nonEmpty then a.out ++ [[barrier]] else a.out
  let opened := if info.multi then true else if nonEmpty then false else a.opened
  let out := if nonEmpty then out ++ [app] else out
  return { opened := opened, out := out }

def qregsOf (c : Circuit) : List QReg :=
  (List.range c.np).map (fun i => ⟨.p, i⟩) ++ (List.range c.ne).map (fun i => ⟨.e, i⟩)

/-- `register_initialization_string` (all registers of a `CircuitDAG` have size 1) -/
def declsOf (c : Circuit) : List Stmt :=
  (qregsOf c).map (fun q => .qreg q 1) ++ (List.range c.nc).map (fun i => .creg i 1)

/-- `to_openqasm`: `c.ops` is the add order (header), `seq` the `sequence()` order (body) -/
def toOpenqasm (c : Circuit) (seq : List Op) : Except Err Program := do
  let (imps, defs) ← headerOf c.ops
  let acc ← seq.foldlM (bodyStep (.barrier (qregsOf c))) {}
  return { header := Gen.header.toList, imports := imps, defs := defs, decls := declsOf c, body := acc.out }

/-! ## circuit_dag: `add` (register bookkeeping) -/

/-- `_add_reg_if_absent` on a register count -/
def addRegIfAbsent (n r : Nat) : Except Err Nat :=
  if r = n then .ok (n + 1) else if r > n then .error .value else .ok n

def qregLe (a b : QReg) : Bool :=
  a.i < b.i || (a.i == b.i && (a.t == .e || b.t == .p))

/-- `sorted(zip(q_registers, q_registers_type))` for at most two registers -/
def sortQ : List QReg → List QReg
  | [a, b] => if qregLe a b then [a, b] else [b, a]
  | l => l

def Circuit.addQ (c : Circuit) (q : QReg) : Except Err Circuit :=
  match q.t with
  | .e => do let n ← addRegIfAbsent c.ne q.i; return { c with ne := n }
  | .p => do let n ← addRegIfAbsent c.np q.i; return { c with np := n }

/-- `CircuitDAG.add` -/
def Circuit.add (c : Circuit) (op : Op) : Except Err Circuit := do
  let nc ← op.cRegs.foldlM addRegIfAbsent c.nc
  let c ← (sortQ op.qRegs).foldlM Circuit.addQ { c with nc := nc }
  return { c with ops := c.ops ++ [op] }

/-! ## circuit_dag: `from_openqasm` on statements -/

/-- the substring tests of the command classification, on structured statements -/
def Stmt.isSkipped : Stmt → Bool
  | .qreg _ _ | .creg _ _ | .barrier _ | .empty => true
  | _ => false

def Stmt.hasIf : Stmt → Bool
  | .ifx _ _ _ => true
  | _ => false

def Stmt.hasReset : Stmt → Bool
  | .reset _ => true
  | _ => false

def isLower (ch : Char) : Bool := 'a'.toNat ≤ ch.toNat && ch.toNat ≤ 'z'.toNat

/-- `_parse_if`: (gate letter, target, classical register) -/
def parseIf : Stmt → Except Err (Char × QReg × Nat)
  | .ifx c g q =>
    match g with
    | [ch] => if isLower ch then .ok (ch, q, c) else .error .attribute
    | _ => .error .attribute
  | _ => .error .attribute

/-- construct an object of class `k` with the keyword arguments of a classical-controlled operation -/
def mkCctrl (k : Option Cls) (c t : QReg) (cr : Nat) : Except Err Op :=
  match k with
  | some (.gc g) => .ok (.cctrl g c t cr)
  | _ => .error .type

/-- construct `k(register=…, reg_type=…)` -/
def mkOne (k : Cls) (q : QReg) : Except Err Op :=
  match k with
  | .g1 g => .ok (.one g q)
  | .measZ => .ok (.meas q 0)       -- MeasurementZ(register, reg_type) takes the default c_register
  | _ => .error .type

/-- construct `k(control=…, control_type=…, target=…, target_type=…)` -/
def mkCtrl (k : Cls) (c t : QReg) : Except Err Op :=
  match k with
  | .g2 g => .ok (.ctrl g c t)
  | .gc g => .ok (.cctrl g c t 0)   -- c_register defaults to 0
  | _ => .error .type

/-- `re.findall(r"sdg|.", name)` -/
def tokenise : Str → List Str
  | [] => []
  | 's' :: 'd' :: 'g' :: rest => "sdg".toList :: tokenise rest
  | ch :: rest => [ch] :: tokenise rest

/-- `OneQubitGateWrapper.__init__` given the evaluated `operations` list (entries may be `None`): the empty list is a
    ValueError; then the list is checked in order (`issubclass(None, …)` raises TypeError, a class that is not a
    one-qubit operation fails the assertion) -/
def wrapperCheck : List (Option Cls) → Except Err (List G1)
  | [] => .ok []
  | none :: _ => .error .type
  | some k :: rest =>
    if isOneQubit k then
      match k with
      | .g1 g => (wrapperCheck rest).map (g :: ·)
      | _ => .error .assertion
    else .error .assertion

def mkWrapperOpt (ks : List (Option Cls)) (q : QReg) : Except Err Op :=
  if ks.isEmpty then .error .value else (wrapperCheck ks).map (fun gs => .wrap gs q)

/-- the single-register branch: `name reg[0]` -/
def parseOneQubit (name : Str) (q : QReg) : Except Err Op :=
  match nameToClass name with
  | some k => mkOne k q
  | none =>
    let circuitList := (tokenise name).map nameToClass
    if circuitList.any Option.isNone then .error .assertion
    else mkWrapperOpt circuitList q

/-- what one loop iteration of `from_openqasm` does with the command at index `i` (`s`) given the following commands
    (`rest` = commands `i+1 …`): the operation to add (if any) and how many *further* commands it consumes -/
def parseStep (s : Stmt) (rest : List Stmt) : Except Err (Option Op × Nat) :=
  if s.isSkipped then .ok (none, 0) else
  match s with
  | .measure q mc =>
    -- `if i + 3 < len(qasm_commands)` … could be a 4 line operation
    if 3 ≤ rest.length && (rest.getD 0 .empty).hasIf && (rest.getD 2 .empty).hasReset then
      match parseIf (rest.getD 0 .empty) with
      | .error e => .error e
      | .ok (gate, tq, cr) =>
        match rest.getD 2 .empty with
        | .reset rq =>
          if rq.t ≠ q.t then .error .assertion
          else if rq.i ≠ q.i then .error .assertion
          else match mkCctrl (nameToClass ("classical reset ".toList ++ [gate])) q tq cr with
            | .error e => .error e
            | .ok op => .ok (some op, 3)
        | _ => .error .index
    else if 1 ≤ rest.length && (rest.getD 0 .empty).hasIf then
      match parseIf (rest.getD 0 .empty) with
      | .error e => .error e
      | .ok (gate, tq, cr) =>
        match mkCctrl (nameToClass ("classical ".toList ++ [gate])) q tq cr with
        | .error e => .error e
        | .ok op => .ok (some op, 1)
    else .ok (some (.meas q mc), 0)
  | .gate name [q] =>
    match parseOneQubit name q with
    | .error e => .error e
    | .ok op => .ok (some op, 0)
  | .gate name [a, b] =>
    match nameToClass name with
    | none => .error .assertion        -- "gate name not recognized, parsing failed"
    | some k =>
      match mkCtrl k a b with
      | .error e => .error e
      | .ok op => .ok (some op, 0)
  | .reset q =>
    -- a lone `reset q[0]` has one "[0]": it is read as a one-qubit gate called "reset"
    match parseOneQubit "reset".toList q with
    | .error e => .error e
    | .ok op => .ok (some op, 0)
  | .ifx _ _ _ => .error .value        -- a lone `if`: `int("c0=")`
  | _ => .error .value                 -- "command not recognized, cannot be parsed"

/-- the command loop of `from_openqasm` (commands = statements, gate declarations already removed);
    `skip` = number of commands already consumed by a multi-line operation (`i += 4`, `i += 2`) -/
def parseCmds (c : Circuit) (skip : Nat) : List Stmt → Except Err Circuit
  | [] => .ok c
  | s :: rest =>
    match skip with
    | k + 1 => parseCmds c k rest
    | 0 =>
      match parseStep s rest with
      | .error e => .error e
      | .ok (none, k) => parseCmds c k rest
      | .ok (some op, k) =>
        match c.add op with
        | .error e => .error e
        | .ok c' => parseCmds c' k rest

/-- all commands of a program, in text order, with the empty command after the last ';' -/
def Program.cmds (p : Program) : List Stmt :=
  p.imports.map .raw ++ p.decls ++ p.body.flatten ++ [.empty]

def isQregOf (t : RegT) : Stmt → Bool
  | .qreg q _ => q.t == t
  | _ => false

def isCreg : Stmt → Bool
  | .creg _ _ => true
  | _ => false

/-- `string.whitespace` -/
def isWs (c : Char) : Bool := c = ' ' || c = '\t' || c = '\n' || c = '\r' || c = '\x0b' || c = '\x0c'

/-- `CircuitDAG.from_openqasm` on a structured program (`p.header` is the text up to and including the first ';':
    all whitespace is removed from it before it is compared) -/
def fromOpenqasm (p : Program) : Except Err Circuit :=
  if p.header.filter (fun c => !isWs c) ≠ "OPENQASM2.0;".toList then .error .assertion else
  let cmds := p.cmds
  let c : Circuit := { np := cmds.countP (isQregOf .p), ne := cmds.countP (isQregOf .e), nc := cmds.countP isCreg, ops := [] }
  parseCmds c 0 cmds


/-! ## `from_openqasm` on the text itself (whitespace, header split, removal of gate declarations, regex / slicing glue) -/

def isDigitC (c : Char) : Bool := '0'.toNat ≤ c.toNat && c.toNat ≤ '9'.toNat

/-- `int(s)` for a string of ASCII digits (`none` = ValueError: empty or a non-digit) -/
def readNat (s : Str) : Option Nat :=
  if s.isEmpty then none
  else s.foldl (fun acc c => acc.bind fun n => if isDigitC c then some (10 * n + (c.toNat - '0'.toNat)) else none) (some 0)

/-- Python slice `s[a:len(s)-b]` (the `s[a:-b]` of the parser, `b > 0`) -/
def pySlice (a b : Nat) (s : Str) : Str := (s.take (s.length - b)).drop a

def isPrefixL : Str → Str → Bool
  | [], _ => true
  | _ :: _, [] => false
  | a :: as, b :: bs => a == b && isPrefixL as bs

/-- `pat in s` -/
def containsSub (pat : Str) : Str → Bool
  | [] => pat.isEmpty
  | c :: cs => isPrefixL pat (c :: cs) || containsSub pat cs

/-- `s.count(pat)` (non-overlapping, `pat` non-empty) -/
def countSub (pat : Str) (s : Str) : Nat :=
  let rec go (fuel : Nat) (s : Str) : Nat :=
    match fuel, s with
    | 0, _ => 0
    | _, [] => 0
    | fuel + 1, c :: cs => if isPrefixL pat (c :: cs) then 1 + go fuel ((c :: cs).drop pat.length) else go fuel cs
  go (s.length + 1) s

/-- `s.replace(pat, "")` (`pat` non-empty) -/
def removeAll (pat : Str) (s : Str) : Str :=
  let rec go (fuel : Nat) (s : Str) : Str :=
    match fuel, s with
    | 0, s => s
    | _, [] => []
    | fuel + 1, c :: cs => if isPrefixL pat (c :: cs) then go fuel ((c :: cs).drop pat.length) else c :: go fuel cs
  go (s.length + 1) s

/-- `s.split(sep)` for a single character -/
def splitOn (sep : Char) (s : Str) : List Str :=
  let r := s.foldr (fun c (acc : Str × List Str) => if c = sep then ([], acc.1 :: acc.2) else (c :: acc.1, acc.2)) ([], [])
  r.1 :: r.2

/-- `s.split()`: split on runs of spaces, dropping empty pieces (only spaces are left as whitespace at that point) -/
def splitWs (s : Str) : List Str := (splitOn ' ' s).filter (fun t => !t.isEmpty)

/-- `s.strip()` for spaces -/
def stripSp (s : Str) : Str := ((s.dropWhile (· = ' ')).reverse.dropWhile (· = ' ')).reverse

/-- the first match of `gate[^}]*{[^}]*}` in `s`: a "gate" followed (before the first '}') by some '{' — the match runs
    up to and including that first '}' -/
def findGateDecl : Nat → Str → Option Str
  | 0, _ => none
  | _, [] => none
  | fuel + 1, c :: cs =>
    if isPrefixL "gate".toList (c :: cs) then
      let after := (c :: cs).drop 4
      let seg := after.takeWhile (· ≠ '}')
      if seg.length < after.length && seg.contains '{' then some ((c :: cs).take (4 + seg.length + 1))
      else findGateDecl fuel cs
    else findGateDecl fuel cs

/-- the `while search_match is not None` loop that strips gate declarations -/
def stripGateDecls : Nat → Str → Str
  | 0, s => s
  | fuel + 1, s =>
    match findGateDecl (s.length + 1) s with
    | none => s
    | some m => stripGateDecls fuel (removeAll m s)

/-- first match of `<one of heads><digits>+<tail>` in `s`: returns (head char, digits) -/
def searchReg (heads : List Char) (tail : Str) : Str → Option (Char × Str)
  | [] => none
  | c :: cs =>
    let ds := cs.takeWhile isDigitC
    if heads.contains c && !ds.isEmpty && isPrefixL tail (cs.drop ds.length) then some (c, ds)
    else searchReg heads tail cs

/-- `re.search(r"\)[a-z](p|e)(\d)+\[", s).group(0)[1]` -/
def searchGateLetter : Str → Option Char
  | ')' :: g :: t :: rest =>
    let ds := rest.takeWhile isDigitC
    if isLower g && (t = 'p' || t = 'e') && !ds.isEmpty && isPrefixL ['['] (rest.drop ds.length) then some g
    else searchGateLetter (g :: t :: rest)
  | _ :: rest => searchGateLetter rest
  | [] => none

def regTOfChar (c : Char) : Option RegT := if c = 'e' then some .e else if c = 'p' then some .p else none

/-- `_parse_if(command)` on text -/
def parseIfText (cmd : Str) : Except Err (Char × QReg × Nat) :=
  let ns := cmd.filter (· ≠ ' ')
  match searchReg ['c'] "==1".toList ns with
  | none => .error .attribute
  | some (_, cds) =>
    match readNat cds with
    | none => .error .value
    | some cr =>
      match searchGateLetter ns with
      | none => .error .attribute
      | some g =>
        match searchReg ['p', 'e'] "[".toList cmd with
        | none => .error .attribute
        | some (t, ds) =>
          match readNat ds, regTOfChar t with
          | some i, some rt => .ok (g, ⟨rt, i⟩, cr)
          | _, _ => .error .value

/-- a register token `<type><digits>…` read with `tok[0]` and `int(tok[1:-k])`; the type character is kept raw because
    the operation constructors assert on it only later -/
def regToken (k : Nat) (tok : Str) : Except Err (Char × Nat) :=
  match tok with
  | [] => .error .index
  | t :: _ =>
    match readNat (pySlice 1 k tok) with
    | none => .error .value
    | some i => .ok (t, i)

/-- constructors assert `reg_type == "e" or reg_type == "p"` -/
def qregOfRaw (t : Char) (i : Nat) : Except Err QReg :=
  match regTOfChar t with
  | some rt => .ok ⟨rt, i⟩
  | none => .error .assertion

/-- construct `k(register=reg, reg_type=t)` from a raw type character: a TypeError (wrong signature) comes before the
    assertion on the register type -/
def mkOneRaw (k : Cls) (t : Char) (i : Nat) : Except Err Op :=
  match k with
  | .g1 _ | .measZ => (qregOfRaw t i).bind (mkOne k)
  | _ => .error .type

/-- the single-register branch on text -/
def parseOneQubitText (cmd : Str) : Except Err Op :=
  let bd := splitWs cmd
  match bd with
  | name :: tok :: _ =>
    match regToken 3 tok with
    | .error e => .error e
    | .ok (t, i) =>
      match nameToClass name with
      | some k => mkOneRaw k t i
      | none =>
        let circuitList := (tokenise name).map nameToClass
        if circuitList.any Option.isNone then .error .assertion
        else
          -- OneQubitGateWrapper.__init__: the base class asserts on reg_type before the list is checked
          match qregOfRaw t i with
          | .error e => .error e
          | .ok q => mkWrapperOpt circuitList q
  | _ => .error .index

/-- the two-register branch on text (the tokens are read left to right: a bad first token raises before a missing
    second one is noticed) -/
def parseTwoQubitText (cmd : Str) : Except Err Op :=
  match splitWs cmd with
  | name :: tok1 :: more =>
    match regToken 4 tok1 with
    | .error e => .error e
    | .ok (t1, i1) =>
      match more with
      | [] => .error .index
      | tok2 :: _ =>
        match regToken 3 tok2 with
        | .error e => .error e
        | .ok (t2, i2) =>
          match nameToClass name with
          | none => .error .assertion
          | some k =>
            match k with
            | .g2 _ | .gc _ =>
              match qregOfRaw t1 i1, qregOfRaw t2 i2 with
              | .ok a, .ok b => mkCtrl k a b
              | _, _ => .error .assertion
            | _ => .error .type
  | _ => .error .index

/-- one loop iteration of `from_openqasm` on text commands: operation to add and number of further commands consumed -/
def parseStepText (cmd : Str) (rest : List Str) : Except Err (Option Op × Nat) :=
  if containsSub "qreg".toList cmd || containsSub "creg".toList cmd || containsSub "barrier".toList cmd || cmd.isEmpty then
    .ok (none, 0)
  else if containsSub "measure".toList cmd && containsSub "->".toList cmd then
    match searchReg ['e', 'p'] "[0]".toList cmd with
    | none => .error .attribute
    | some (qt, qds) =>
      match searchReg ['c'] "[0]".toList cmd with
      | none => .error .attribute
      | some (_, cds) =>
        match readNat qds, readNat cds, regTOfChar qt with
        | some qi, some ci, some rt =>
          let q : QReg := ⟨rt, qi⟩
          let c1 := rest.getD 0 []
          let c3 := rest.getD 2 []
          if 3 ≤ rest.length && containsSub "if".toList c1 && containsSub "reset".toList c3 then
            match parseIfText c1 with
            | .error e => .error e
            | .ok (gate, tq, cr) =>
              match splitOn ' ' (stripSp c3) with
              | _ :: resetStr :: _ =>
                match resetStr with
                | [] => .error .index
                | rt' :: _ =>
                  match readNat (pySlice 1 3 resetStr) with
                  | none => .error .value
                  | some ri =>
                    if rt' ≠ qt then .error .assertion
                    else if ri ≠ qi then .error .assertion
                    else match mkCctrl (nameToClass ("classical reset ".toList ++ [gate])) q tq cr with
                      | .error e => .error e
                      | .ok op => .ok (some op, 3)
              | _ => .error .index
          else if 1 ≤ rest.length && containsSub "if".toList c1 then
            match parseIfText c1 with
            | .error e => .error e
            | .ok (gate, tq, cr) =>
              match mkCctrl (nameToClass ("classical ".toList ++ [gate])) q tq cr with
              | .error e => .error e
              | .ok op => .ok (some op, 1)
          else .ok (some (.meas q ci), 0)
        | _, _, _ => .error .value
  else if countSub "[0]".toList cmd = 1 then
    match parseOneQubitText cmd with
    | .error e => .error e
    | .ok op => .ok (some op, 0)
  else if countSub "[0]".toList cmd = 2 then
    match parseTwoQubitText cmd with
    | .error e => .error e
    | .ok op => .ok (some op, 0)
  else .error .value

def parseCmdsText (c : Circuit) (skip : Nat) : List Str → Except Err Circuit
  | [] => .ok c
  | s :: rest =>
    match skip with
    | k + 1 => parseCmdsText c k rest
    | 0 =>
      match parseStepText s rest with
      | .error e => .error e
      | .ok (none, k) => parseCmdsText c k rest
      | .ok (some op, k) =>
        match c.add op with
        | .error e => .error e
        | .ok c' => parseCmdsText c' k rest

/-- `CircuitDAG.from_openqasm(qasm_script)` -/
def fromOpenqasmText (script : Str) : Except Err Circuit :=
  let s := script.filter (fun c => c = ' ' || !isWs c)
  match splitOn ';' s with
  | [_] =>
    -- no ';' at all: the header assertion is evaluated first, then `script_list[1]` raises
    if s.filter (fun c => !isWs c) ≠ "OPENQASM2.0".toList then .error .assertion else .error .index
  | header :: restParts =>
    if header.filter (fun c => !isWs c) ≠ "OPENQASM2.0".toList then .error .assertion else
    let body := joinStr ";".toList restParts
    let body := stripGateDecls (body.length + 1) body
    let cmds := splitOn ';' body
    let c : Circuit :=
      { np := cmds.countP (fun c => containsSub "qregp".toList (c.filter (· ≠ ' '))),
        ne := cmds.countP (fun c => containsSub "qrege".toList (c.filter (· ≠ ' '))),
        nc := cmds.countP (fun c => containsSub "creg".toList c), ops := [] }
    parseCmdsText c 0 cmds
  | [] => .error .index

/-! ## JSON -/

structure JOp where
  type : Option Str
  opList : Option (List Str)
  qTypes : List RegT
  qRegs : List Nat
  cRegs : List Nat
  deriving DecidableEq, Repr, Inhabited

structure JCirc where
  np : Nat
  ne : Nat
  nc : Nat
  ops : List JOp
  deriving DecidableEq, Repr, Inhabited

def Op.cls : Op → Option Cls
  | .one g _ => some (.g1 g) | .wrap _ _ => none | .ctrl g _ _ => some (.g2 g)
  | .cctrl g _ _ _ => some (.gc g) | .meas _ _ => some .measZ

/-- `if name:` — `None` and `""` are both dropped -/
def truthyName : Option Str → Option Str
  | some [] => none
  | o => o

/-- one iteration of the loop of `to_json` -/
def toJsonOp (op : Op) : JOp :=
  match op with
  | .wrap gs _ =>
    { type := some "one qubit gate wrapper".toList,
      -- `if name:` drops both None and ""
      opList := some (gs.filterMap fun g => truthyName (classToName (.g1 g))),
      qTypes := op.qRegs.map (·.t), qRegs := op.qRegs.map (·.i), cRegs := op.cRegs }
  | _ =>
    { type := op.cls.bind classToName, opList := none,
      qTypes := op.qRegs.map (·.t), qRegs := op.qRegs.map (·.i), cRegs := op.cRegs }

/-- `to_json` (`seq` = the `sequence()` order without input/output operations) -/
def toJson (c : Circuit) (seq : List Op) : JCirc :=
  { np := c.np, ne := c.ne, nc := c.nc, ops := seq.map toJsonOp }

def qregAt (j : JOp) (k : Nat) : Except Err QReg :=
  match j.qRegs[k]?, j.qTypes[k]? with
  | some i, some t => .ok ⟨t, i⟩
  | _, _ => .error .index

def cregAt (j : JOp) (k : Nat) : Except Err Nat :=
  match j.cRegs[k]? with
  | some i => .ok i
  | none => .error .index

/-- the body of the loop of `from_json`: build the operation object -/
def fromJsonOp (j : JOp) : Except Err Op :=
  if j.type == some "one qubit gate wrapper".toList then
    match j.opList with
    | none => .error .key
    | some names =>
      match qregAt j 0 with
      | .error e => .error e
      | .ok q => mkWrapperOpt (names.map nameToClass) q
  else
    match j.type.bind nameToClass with
    | none => .error .type      -- issubclass(None, …)
    | some k =>
      match jsonShape k with
      | .cctrl =>
        match qregAt j 0, qregAt j 1, cregAt j 0 with
        | .ok a, .ok b, .ok cr =>
          match k with
          | .gc g => .ok (.cctrl g a b cr)
          | _ => .error .type
        | _, _, _ => .error .index
      | .ctrl =>
        match qregAt j 0, qregAt j 1 with
        | .ok a, .ok b => mkCtrl k a b
        | _, _ => .error .index
      | .meas =>
        match qregAt j 0, cregAt j 0 with
        | .ok a, .ok cr =>
          match k with
          | .measZ => .ok (.meas a cr)
          | _ => .error .type
        | _, _ => .error .index
      | .one =>
        match qregAt j 0 with
        | .ok a => mkOne k a
        | .error e => .error e

/-- one iteration of the loop of `from_json` -/
def fromJsonStep (c : Circuit) (jo : JOp) : Except Err Circuit :=
  match fromJsonOp jo with
  | .error e => .error e
  | .ok op => c.add op

/-- `CircuitDAG.from_json` -/
def fromJson (j : JCirc) : Except Err Circuit :=
  j.ops.foldlM fromJsonStep { np := j.np, ne := j.ne, nc := j.nc, ops := [] }

/-! ## the circuit as a sequence of primitive operations (application order) -/

/-- `OneQubitGateWrapper.unwrap` / `OperationBase.unwrap` on classes (noise-free): the last listed operation acts first -/
def Op.unwrap : Op → List Op
  | .wrap gs q => gs.reverse.map fun g => .one g q
  | op => [op]

def Op.isIdentity : Op → Bool
  | .one .I _ => true
  | _ => false

/-- `sequence(unwrapped=True)` with identities dropped: what the compilers execute, in application order -/
def flat (ops : List Op) : List Op := (ops.flatMap Op.unwrap).filter (fun o => !o.isIdentity)

/-! ## reading a program with standard openQASM 2.0 semantics -/

/-- a primitive statement of the standard reading -/
inductive StdOp
  | app (name : Str) (args : List QReg)
  | measure (q : QReg) (c : Nat)
  | cond (c : Nat) (name : Str) (q : QReg)
  | reset (q : QReg)
  deriving DecidableEq, Repr, Inhabited

/-- the composite definitions of a header (a later definition of the same name would be a redefinition error in
    openQASM; the first one is the one in force) -/
def compsOf (defs : List DefEntry) : List Comp := defs.filterMap (·.comp)

def findComp (comps : List Comp) (name : Str) : Option Comp := comps.find? (fun c => c.name == name)

/-- standard semantics of one statement: a call of a composite gate executes its body **in textual order** -/
def stdStmt (comps : List Comp) : Stmt → List StdOp
  | .gate name args =>
    match findComp comps name with
    | some c => c.body.map fun g => .app g args
    | none => [.app name args]
  | .measure q c => [.measure q c]
  | .ifx c g q => [.cond c g q]
  | .reset q => [.reset q]
  | _ => []

def qasmStd (p : Program) : List StdOp := p.body.flatten.flatMap (stdStmt (compsOf p.defs))

/-- what the circuit's own operations are, as primitive standard statements in application order -/
def stdOfOp : Op → Except Err (List StdOp)
  | .one g q => do
    let i ← classInfo (.g1 g)
    return if i.gateName == [] then [] else [.app i.gateName [q]]
  | .ctrl g c t => do
    let i ← classInfo (.g2 g)
    return [.app i.gateName [c, t]]
  | .cctrl .CCNOT c t cr => .ok [.measure c cr, .cond cr "x".toList t]
  | .cctrl .CCZ c t cr => .ok [.measure c cr, .cond cr "z".toList t]
  | .cctrl .MCR c t cr => .ok [.measure c cr, .cond cr "x".toList t, .reset c]
  | .meas q cr => .ok [.measure q cr]
  | .wrap _ _ => .ok []       -- wrappers are unwrapped before (`stdOfCircuit`)

def stdOfCircuit (seq : List Op) : Except Err (List StdOp) := do
  let l ← (seq.flatMap Op.unwrap).mapM stdOfOp
  return l.flatten

end Graphiq.Export
