/-
  LC.lean — model of the local-Clifford equivalence test and of its constructive outputs.

  Mirrors
    graphiq/backends/lc_equivalence_check.py : is_lc_equivalent, _coeff_maker, _col_finder, _solution_basis_finder,
        _random_checker, _vec_solution_finder, _is_valid_clifford, local_clifford_ops, lc_graph_operations, _R_matrix,
        _apply_f, _singles, _doubles, _condition, find_lc_operations
    graphiq/backends/stabilizer/functions/linalg.py : row_reduction, _row_red_one_step, row_swap, add_rows
    graphiq/backends/stabilizer/functions/local_cliff_equi_check.py : converter_gate_list, lc_check (graph / adjacency inputs)
    graphiq/backends/state_rep_conversion.py : _phase_correction (specification level, see `phaseCorrection`)

  A solution vector is a `List Bool` of length `4 n`: qubit `i` has the block `[[a_i, b_i], [c_i, d_i]]` at positions
  `4 i … 4 i + 3` (`solution.reshape(n, 2, 2)`).  No Mathlib.
-/
import GraphiqModel.Model.GraphOps
import GraphiqModel.Model.Tableau
import GraphiqModel.Model.StateToGraph
namespace Graphiq.LC
open Graphiq

/-! ## linear algebra over GF(2) (linalg.py) -/

/-- `row_swap(m, a, b)` -/
def rowSwap (m : BMat) (a b : Nat) : BMat :=
  { m with f := fun i j => if i = a then m.f b j else if i = b then m.f a j else m.f i j }

/-- `add_rows(m, row_to_add, target_row)` -/
def addRows (m : BMat) (src tgt : Nat) : BMat :=
  { m with f := fun i j => if i = tgt then xor (m.f src j) (m.f tgt j) else m.f i j }

/-- rows `i` with `lo ≤ i < hi` and a 1 in column `c` (`the_ones`) -/
def theOnes (m : BMat) (lo c : Nat) : List Nat := (List.range m.r).filter fun i => decide (lo ≤ i) && m.f i c

/-- swap the first of `ones` into the pivot row, clear the others (on one matrix) -/
def eliminate (m : BMat) (pr : Nat) (first : Nat) (rest : List Nat) : BMat :=
  (rest.foldl (fun acc j => addRows acc pr j) (rowSwap m first pr)).norm

/-- result of `_row_red_one_step`: matrices, new pivot, and whether the caller's loop goes on (the pivot column moved) -/
structure RRStep where
  x : BMat
  z : BMat
  pr : Int
  pc : Nat
  cont : Bool

/-- `_row_red_one_step(x_matrix, z_matrix, pivot)` -/
def rowRedOneStep (x z : BMat) (pr pc : Nat) : RRStep :=
  if pc + 1 = x.c then
    match theOnes x pr pc with
    | [] => { x := x, z := z, pr := (pr : Int) - 1, pc := pc, cont := false }
    | o :: rest => { x := eliminate x pr o rest, z := eliminate z pr o rest, pr := pr, pc := pc, cont := false }
  else if pr + 1 = x.r then
    if x.f pr pc then { x := x, z := z, pr := pr, pc := pc, cont := false }
    else { x := x, z := z, pr := pr, pc := pc + 1, cont := true }
  else
    match theOnes x pr pc with
    | [] => { x := x, z := z, pr := pr, pc := pc + 1, cont := true }
    | o :: rest =>
      { x := eliminate x pr o rest, z := eliminate z pr o rest, pr := (pr : Int) + 1, pc := pc + 1, cont := true }

/-- the `while` loop of `row_reduction`; `fuel = number of columns` always suffices because every continuing step moves
    the pivot one column to the right and the step on the last column stops -/
def rowReductionLoop : Nat → BMat → BMat → Nat → Nat → BMat × BMat × Int
  | 0, x, z, pr, _ => (x, z, pr)
  | fuel + 1, x, z, pr, pc =>
    let s := rowRedOneStep x z pr pc
    if s.cont then rowReductionLoop fuel s.x s.z s.pr.toNat s.pc else (s.x, s.z, s.pr)

/-- `row_reduction(x_matrix, z_matrix)` → `(x, z, index of the last non-zero row)` -/
def rowReduction (x z : BMat) : BMat × BMat × Int := rowReductionLoop x.c x z 0 0

/-! ## the linear system of Van den Nest–Dehaene–De Moor -/

/-- coefficient of the unknown `(a | b | c | d)_m` (`t = 0 | 1 | 2 | 3`) in equation `(j, k)` -/
def coeffEntry (z1 z2 : Adj) (j k m t : Nat) : Bool :=
  match t with
  | 0 => decide (m = k) && z1 j k
  | 1 => decide (m = k) && decide (j = k)
  | 2 => z1 m j && z2 m k
  | _ => decide (m = j) && z2 j k

/-- `_coeff_maker(z1, z2)`: row `n j + k`, column `4 m + (0 a | 1 b | 2 c | 3 d)` -/
def coeffMaker (n : Nat) (z1 z2 : Adj) : BMat :=
  { r := n * n, c := 4 * n
    f := fun row col => coeffEntry z1 z2 (row / n) (row % n) (col / 4) (col % 4) }

def vget (v : List Bool) (i : Nat) : Bool := v.getD i false

/-- `(M @ v) % 2`, one entry -/
def dotRow (m : BMat) (i : Nat) (v : List Bool) : Bool := parityTo m.c fun j => m.f i j && vget v j

/-- `v` solves `M v = 0` -/
def solves (m : BMat) (v : List Bool) : Bool := (List.range m.r).all fun i => !dotRow m i v

/-- `np.array([row for row in m if row.any()])` -/
def nonzeroRows (m : BMat) : List Nat := (List.range m.r).filter fun i => (List.range m.c).any fun j => m.f i j

def selectRows (m : BMat) (keep : List Nat) : BMat :=
  { r := keep.length, c := m.c, f := fun i j => m.f (keep.getD i 0) j }

/-- `_col_finder(row_reduced)`: walk the staircase; returns the dependent (free) columns -/
def colFinderLoop (m : BMat) : Nat → Nat → Nat → List Nat → List Nat
  | 0, _, _, deps => deps
  | fuel + 1, pr, pc, deps =>
    if m.f pr pc then
      if pr + 1 = m.r then deps ++ (List.range m.c).filter (fun j => decide (pc + 1 ≤ j))
      else colFinderLoop m fuel (pr + 1) (pc + 1) deps
    else colFinderLoop m fuel pr (pc + 1) (deps ++ [pc])

def colFinder (m : BMat) : List Nat := colFinderLoop m (m.c - 1) 0 0 []

/-- `np.delete(m, col_list, axis=1)` -/
def deleteCols (m : BMat) (cols : List Nat) : BMat :=
  let keep := (List.range m.c).filter fun j => !cols.contains j
  { r := m.r, c := keep.length, f := fun i j => m.f i (keep.getD j 0) }

def identM (k : Nat) : BMat := { r := k, c := k, f := idM }

/-- one column of Gauss–Jordan elimination on `(M | T)` -/
def gjColumn (st : Except Err (BMat × BMat)) (c : Nat) : Except Err (BMat × BMat) :=
  match st with
  | .error e => .error e
  | .ok (m, t) =>
    match theOnes m c c with
    | [] => .error .value
    | p :: _ =>
      let m1 := rowSwap m p c
      let t1 := rowSwap t p c
      let others := (List.range m.r).filter fun i => decide (i ≠ c) && m1.f i c
      .ok ((others.foldl (fun acc i => addRows acc c i) m1).norm, (others.foldl (fun acc i => addRows acc c i) t1).norm)

/-- is `t` a two-sided inverse of the `k × k` matrix `a` over GF(2)? -/
def isInverse (k : Nat) (t a : Adj) : Bool :=
  (List.range k).all fun i => (List.range k).all fun j =>
    matMul k t a i j == idM i j && matMul k a t i j == idM i j

/-- `np.linalg.inv(a) % 2` for an integer matrix of odd determinant, computed exactly over GF(2) by Gauss–Jordan
    elimination; a singular matrix gives `LinAlgError` (a `ValueError`).  The result is *checked* to be a two-sided
    inverse before it is returned (translation validation inside the model: the check never fails, and it is what the
    theorems about the solution basis rest on). -/
def gf2Inv (a : BMat) : Except Err BMat :=
  if a.r ≠ a.c then .error .value
  else
    match (List.range a.r).foldl gjColumn (.ok (a.norm, (identM a.r).norm)) with
    | .error e => .error e
    | .ok (_, t) =>
      if isInverse a.r t.f a.f then .ok { r := a.r, c := a.r, f := t.f } else .error .value

/-- the `i`-th vector built by `_solution_basis_finder`: `x = A⁻¹ b_i` on the pivot columns, then the unit vector `e_i` is
    spliced in at the free columns by successive `list.insert(col_list[j], basis_list[i, j])` -/
def basisVec (m : BMat) (colList : List Nat) (ainv : BMat) (i : Nat) : List Bool :=
  let col := colList.getD i 0
  let x : List Bool := (List.range m.r).map fun k => parityTo m.r fun l => ainv.f k l && m.f l col
  (List.range colList.length).foldl (fun acc j => pyInsert acc (colList.getD j 0) (decide (i = j))) x

/-- `_solution_basis_finder(reduced, col_list)`: one basis vector per free column -/
def solutionBasisFinder (m : BMat) (colList : List Nat) : Except Err (List (List Bool)) :=
  -- `possible_basis.reshape((n_cols - length, 1))`
  if colList.length > 0 ∧ m.r + colList.length ≠ m.c then .error .value
  else
    match gf2Inv (deleteCols m colList) with
    | .error e => .error e
    | .ok ainv =>
      let basis : List (List Bool) := (List.range colList.length).map fun i => basisVec m colList ainv i
      if basis.all (fun v => v.length == m.c && solves m v) then .ok basis else .error .assertion

/-- `_is_valid_clifford(vector)`: every 2×2 block has determinant 1 -/
def isValidClifford (n : Nat) (v : List Bool) : Bool :=
  (List.range n).all fun i => xor (vget v (4 * i) && vget v (4 * i + 3)) (vget v (4 * i + 1) && vget v (4 * i + 2))

def vxor (a b : List Bool) : List Bool := List.zipWith xor a b

/-- `[list(format(i, f"0{d}b")) for i in range(2**d)]`: all coefficient vectors of length `d` in binary counting order,
    most significant digit first -/
def allCoefs : Nat → List (List Bool)
  | 0 => [[]]
  | d + 1 => (allCoefs d).map (false :: ·) ++ (allCoefs d).map (true :: ·)

/-- one column of `(solution_basis @ all_solutions) % 2`: the sum of the basis vectors selected by `coef` -/
def lin (width : Nat) (basis : List (List Bool)) (coef : List Bool) : List Bool :=
  (List.zip coef basis).foldl (fun acc p => if p.1 then vxor acc p.2 else acc) (List.replicate width false)

/-- all unordered pairs in the order of `itertools.combinations(basis, 2)` -/
def pairs {α : Type} : List α → List (α × α)
  | [] => []
  | a :: rest => rest.map (fun b => (a, b)) ++ pairs rest

/-- `_vec_solution_finder(reduced, col_list, var_vec)`; `bits` are the random values of the free coordinates -/
def vecSolutionFinder (m : BMat) (colList : List Nat) (bits : List Bool) : Except Err (List Bool) :=
  let a := deleteCols m colList
  match gf2Inv a with
  | .error e => .error e
  | .ok ainv =>
    let var : List Bool := (List.range m.c).map fun j =>
      match colList.findIdx? (· == j) with
      | some k => bits.getD k false
      | none => false
    let b : List Bool := (List.range m.r).map fun i => dotRow m i var
    let x : List Bool := (List.range a.r).map fun k => parityTo a.r fun l => ainv.f k l && vget b l
    let keep := (List.range m.c).filter fun j => !colList.contains j
    .ok ((List.range m.c).map fun j =>
      match keep.findIdx? (· == j) with
      | some k => vget x k
      | none => vget var j)

/-- the trials of `_random_checker(reduced, col_list)`: one list of free-coordinate values per trial; returns the first
    valid solution and the number of trials made -/
def randomChecker (n : Nat) (m : BMat) (colList : List Nat) : List (List Bool) → Nat → Except Err (Option (List Bool) × Nat)
  | [], k => .ok (none, k)
  | t :: rest, k =>
    match vecSolutionFinder m colList t with
    | .error e => .error e
    | .ok s => if isValidClifford n s then .ok (some s, k + 1) else randomChecker n m colList rest (k + 1)

/-- what `is_lc_equivalent` returns, with the intermediate quantities the driver reports -/
structure EqOut where
  sol : Option (List Bool)
  rank : Int
  dim : Nat
  path : String
  trials : Nat := 0

/-- split a flat list into consecutive chunks of length `d` (a trailing incomplete chunk is dropped) -/
def chunkAux (d : Nat) : Nat → List Bool → List (List Bool)
  | 0, _ => []
  | fuel + 1, l => if d = 0 ∨ l.length < d then [] else l.take d :: chunkAux d fuel (l.drop d)

def chunk (d : Nat) (l : List Bool) : List (List Bool) := chunkAux d l.length l

inductive Mode | det | rand | other
  deriving DecidableEq

/-- `is_lc_equivalent(adj1, adj2, mode, seed)`.  `draws`: one list of `np.random.randint(2)` values per trial of
    `_random_checker` (only read in mode `rand` with a solution space of dimension ≥ 5). -/
def isLcEquivalent (a b : BMat) (mode : Mode) (draws : List Bool) : Except Err EqOut :=
  let n := a.r
  if n ≠ b.r then .error .assertion
  else
    let coeff := (coeffMaker n a.f b.f).norm
    let rr := rowReduction coeff { coeff with f := fun _ _ => false }
    let red := rr.1
    let rank : Int := rr.2.2 + 1
    if rank ≥ 4 * n then .ok { sol := none, rank := rank, dim := 0, path := "full-rank" }
    else
      let keep := nonzeroRows red
      if (keep.length : Int) ≠ rank then .error .assertion
      else
        let m := (selectRows red keep).norm
        let colList := colFinder m
        if (colList.length : Int) ≠ 4 * n - rank then .error .assertion
        else
          match solutionBasisFinder m colList with
          | .error e => .error e
          | .ok basis =>
            let d := basis.length
            if d < 5 then
              match (allCoefs d).find? fun c => isValidClifford n (lin (4 * n) basis c) with
              | some c => .ok { sol := some (lin (4 * n) basis c), rank := rank, dim := d, path := "all-combinations" }
              | none => .ok { sol := none, rank := rank, dim := d, path := "all-combinations" }
            else
              match mode with
              | .rand =>
                match randomChecker n m colList (chunk d draws) 0 with
                | .error e => .error e
                | .ok (sol, k) => .ok { sol := sol, rank := rank, dim := d, path := "random", trials := k }
              | .det =>
                match (pairs basis).find? fun p => isValidClifford n (vxor p.1 p.2) with
                | some p => .ok { sol := some (vxor p.1 p.2), rank := rank, dim := d, path := "pair-sums" }
                | none => .ok { sol := none, rank := rank, dim := d, path := "pair-sums" }
              | .other => .error .value

/-! ## constructive outputs -/

/-- `local_clifford_ops` on one block `[[a, b], [c, d]]`: the name as written (rightmost factor acts first);
    a singular block has no name and is silently skipped by the Python -/
def blockOps (a b c d : Bool) : Option (List String) :=
  match a, b, c, d with
  | true, false, false, true => some ["I"]
  | false, true, true, false => some ["H"]
  | true, true, false, true => some ["P"]
  | true, true, true, false => some ["P", "H"]
  | false, true, true, true => some ["H", "P_dag"]
  | true, false, true, true => some ["P", "H", "P"]
  | _, _, _, _ => none

/-- `local_clifford_ops(solution)` -/
def localCliffordOps (n : Nat) (v : List Bool) : List (List String) :=
  (List.range n).filterMap fun i => blockOps (vget v (4 * i)) (vget v (4 * i + 1)) (vget v (4 * i + 2)) (vget v (4 * i + 3))

/-- `_R_matrix(adj, solution)`: `R[i] = c_i · adj[i]`, `R[i, i] = d_i` -/
def rMatrix (n : Nat) (A : Adj) (v : List Bool) : BMat :=
  { r := n, c := n, f := fun i j => if i = j then vget v (4 * i + 3) else vget v (4 * i + 2) && A i j }

/-- `_apply_f(r, i)` -/
def applyF (r : BMat) (i : Nat) : BMat := (BMat.ofAdj r.r (lcFormula r.r r.f i)).norm

def rowIsUnit (r : BMat) (i : Nat) : Bool := (List.range r.c).all fun j => r.f i j == decide (i = j)

/-- `_condition(r)` -/
def condition (r : BMat) : Bool := (List.range r.r).any fun i => r.f i i && !rowIsUnit r i

/-- `_singles(r)` -/
def singles (r : BMat) : BMat × List Nat :=
  (List.range r.r).foldl (fun (st : BMat × List Nat) i =>
    if st.1.f i i && !rowIsUnit st.1 i then (applyF st.1 i, st.2 ++ [i]) else st) (r, [])

/-- `_doubles(r)`; `k_list[0]` of an empty list raises `IndexError` -/
def doubles (r : BMat) : Except Err (BMat × List (Nat × Nat)) :=
  (List.range r.r).foldl (fun (acc : Except Err (BMat × List (Nat × Nat))) j =>
    match acc with
    | .error e => .error e
    | .ok st =>
      if !rowIsUnit st.1 j && !st.1.f j j then
        match (List.range r.r).filter fun k => st.1.f k j with
        | [] => .error .index
        | k :: _ => .ok (applyF (applyF (applyF st.1 j) k) j, st.2 ++ [(j, k)])
      else .ok st) (.ok (r, []))

def singlesLoop : Nat → BMat → List Nat → Except Err (BMat × List Nat)
  | 0, _, _ => .error .runtime
  | fuel + 1, r, acc =>
    if condition r then
      let (r1, s) := singles r
      singlesLoop fuel r1 (acc ++ s)
    else .ok (r, acc)

def doublesLoop : Nat → BMat → List (Nat × Nat) → Except Err (List (Nat × Nat))
  | 0, _, _ => .error .runtime
  | fuel + 1, r, acc =>
    if !r.beq (identM r.r) then
      match doubles r with
      | .error e => .error e
      | .ok (r1, d) => doublesLoop fuel r1 (acc ++ d)
    else .ok acc

/-- `lc_graph_operations(adj, solution)`; the two `while` loops are bounded by `fuel` (`runtime` = did not terminate) -/
def lcGraphOperations (fuel : Nat) (n : Nat) (A : Adj) (v : List Bool) : Except Err (List Nat) :=
  match singlesLoop fuel (rMatrix n A v).norm [] with
  | .error e => .error e
  | .ok (r, s) =>
    match doublesLoop fuel r [] with
    | .error e => .error e
    | .ok d => .ok (s ++ d.flatMap fun p => [p.1, p.2, p.1])

/-- `find_lc_operations(adj1, adj2, mode, seed)`: the R matrix is built from the *first* graph (repository commit
    864255d, defect D44; before the fix it was built from `adj_matrix2` — `legacy = true` reproduces that). -/
def findLcOperations (fuel : Nat) (a b : BMat) (mode : Mode) (draws : List Bool) (legacy : Bool := false) :
    Except Err (List Nat) :=
  match isLcEquivalent a b mode draws with
  | .error e => .error e
  | .ok out =>
    match out.sol with
    | some s => if legacy then lcGraphOperations fuel b.r b.f s else lcGraphOperations fuel a.r a.f s
    | none => .error .value

/-! ## gates on graph states (verified tableau semantics of Model/Tableau.lean) -/

/-- the graph-state generator `K_q = X_q ∏_{j ~ q} Z_j` -/
def graphGen (A : Adj) (q : Nat) : PRow := ⟨fun j => decide (j = q), fun j => A q j, false, false⟩

/-- Clifford tableau of the graph state of `A`: destabilizers `Z_q`, stabilizers `K_q` -/
def graphTab (n : Nat) (A : Adj) : Tab :=
  { n := n, row := fun i => if i < n then PRow.Zq i else graphGen A (i - n) }

/-- one named gate of a gate list (`run_circuit`): `none` = unsupported name -/
def applyGate (t : Tab) (name : String) (q : Nat) : Except Err Tab :=
  if q < t.n then
    match name with
    | "I" => .ok t
    | "H" => .ok (t.hGate q)
    | "P" => .ok (t.sGate q)
    | "P_dag" => .ok (t.sdgGate q)
    | "X" => .ok (t.xGate q)
    | "Y" => .ok (t.yGate q)
    | "Z" => .ok (t.zGate q)
    | _ => .error .value
  else .error .assertion

/-- `run_circuit(tab, gate_list)` for one-qubit gate lists (the tableau is re-tabulated after every gate) -/
def runGates (t : Tab) : List (String × Nat) → Except Err Tab
  | [] => .ok t
  | g :: rest =>
    match applyGate t g.1 g.2 with
    | .error e => .error e
    | .ok t' => runGates t'.norm rest

/-- the product of the stabilizer rows selected by the anticommutation pattern of `g` with the destabilizers — the only
    candidate for `± g` in the stabilizer group of a valid tableau -/
def groupProduct (t : Tab) (g : PRow) : PRow :=
  (filterTo t.n fun d => PRow.sp t.n g (t.row d)).foldl (fun acc d => PRow.mul t.n (t.row (d + t.n)) acc) PRow.one

/-- sign with which `g` lies in the stabilizer group of `t`: `some false` = `+g`, `some true` = `−g`, `none` = not at all -/
def groupSign (t : Tab) (g : PRow) : Option Bool :=
  let p := groupProduct t g
  if PRow.beqOn t.n p { g with r := p.r } && !p.ip then some p.r else none

/-- does the stabilizer group of `t` contain every generator of the graph state of `B` with sign `+`? -/
def isGraphState (t : Tab) (B : Adj) : Bool := (List.range t.n).all fun q => groupSign t (graphGen B q) == some false

/-- `_phase_correction(tab1, tab2, gate_list)` at specification level: the unique set of `Z` gates that turns every
    `±K_q(B)` of the transformed state into `+K_q(B)` (`Z_q` anticommutes with `K_q` only).  The Python computes the same
    set from the canonical forms of the two stabilizer tableaux (property C05's business); `none` when the transformed
    state is not `B` up to signs (then the Python's answer is meaningless too). -/
def phaseCorrection (t : Tab) (B : Adj) : Option (List (String × Nat)) :=
  let signs := (List.range t.n).map fun q => groupSign t (graphGen B q)
  if signs.all Option.isSome then
    some ((List.range t.n).filterMap fun q => if signs.getD q none == some true then some ("Z", q) else none)
  else none

/-- `converter_gate_list(g1, g2)` → `(gate list, phase correction was meaningful)` -/
def converterGateList (a b : BMat) : Except Err (List (String × Nat) × Bool) :=
  match isLcEquivalent a b .det [] with
  | .error e => .error e
  | .ok out =>
    match out.sol with
    | none => .error .assertion
    | some s =>
      let names := localCliffordOps a.r s
      let gates : List (String × Nat) := (names.zipIdx).flatMap fun (ops, i) => ops.reverse.map fun o => (o, i)
      match runGates (graphTab a.r a.f) gates with
      | .error e => .error e
      | .ok t =>
        match phaseCorrection t b.f with
        | some zs => .ok (gates ++ zs, true)
        | none => .ok (gates, false)

/-- `lc_check(state1, state2, validate)` for graph / adjacency-matrix inputs (no gates from `state_to_graph`) -/
def lcCheck (a b : BMat) (validate : Bool) : Except Err (Bool × List (String × Nat)) :=
  match converterGateList a b with
  | .error _ => .ok (false, [])                 -- the bare `except:` of lc_check
  | .ok (gates, _) =>
    if validate then
      match runGates (graphTab a.r a.f) gates with
      | .error e => .error e
      | .ok t => if isGraphState t b.f then .ok (true, gates) else .error .warning
    else .ok (true, gates)

/-! ## the repaired `is_lc_equivalent` (repair of D14): the linear system is solved component by component

  After the repair, `isLcEquivalent` above is the model of `_is_lc_equivalent_component` (the unchanged old body) and
  `isLcEquivalentR` is the model of `is_lc_equivalent`. -/

/-- the inner loop of `_connected_components`:
    `for other in range(n_nodes): if adj_matrix[node, other] and other not in component: component.append(other)` -/
def bfsVisit (n : Nat) (A : Adj) (node : Nat) (comp : List Nat) : List Nat :=
  (List.range n).foldl (fun c other => if A node other && !c.contains other then c ++ [other] else c) comp

/-- `for node in component:` over the list that grows while it is traversed; `idx` is the position of the iterator.
    `fuel = n` always suffices (the list never holds a vertex twice, `bfsLoop_fuel`) -/
def bfsLoop (n : Nat) (A : Adj) : Nat → Nat → List Nat → List Nat
  | 0, _, comp => comp
  | fuel + 1, idx, comp =>
    if idx < comp.length then bfsLoop n A fuel (idx + 1) (bfsVisit n A (comp.getD idx 0) comp) else comp

/-- `sorted(component)` for the breadth-first list of `start` (a duplicate-free list of vertices `< n`, so sorting it is
    listing the vertices of `range(n)` that occur in it) -/
def componentOf (n : Nat) (A : Adj) (start : Nat) : List Nat :=
  let comp := bfsLoop n A n 0 [start]
  (List.range n).filter fun v => comp.contains v

/-- `_connected_components(adj_matrix)`: sorted vertex lists, ordered by their smallest vertex -/
def connectedComponents (n : Nat) (A : Adj) : List (List Nat) :=
  (List.range n).foldl (fun comps start =>
    if comps.any (fun c => c.contains start) then comps else comps ++ [componentOf n A start]) []

/-- `adj_matrix[np.ix_(nodes, nodes)]` -/
def subMat (a : BMat) (nodes : List Nat) : BMat :=
  { r := nodes.length, c := nodes.length, f := fun i j => a.f (nodes.getD i 0) (nodes.getD j 0) }

/-- `solution[nodes] = component_solution` on the flat vector (`4 v + t` ↦ entry `t` of the block of vertex `v`) -/
def scatter (sol : List Bool) (nodes : List Nat) (q : List Bool) : List Bool :=
  (List.range sol.length).map fun idx =>
    match nodes.findIdx? (· == idx / 4) with
    | some i => vget q (4 * i + idx % 4)
    | none => vget sol idx

/-- what the repaired `is_lc_equivalent` returns: the solution, the components, and the result of
    `_is_lc_equivalent_component` on every component that was examined (in order; the last one is the failing one after a
    `no`).  `path` is `"components-differ"` or `"per-component"`. -/
structure EqOutR where
  sol : Option (List Bool)
  comps : List (List Nat)
  parts : List EqOut
  path : String

/-- the loop `for nodes in components:` of the repaired `is_lc_equivalent`.  `draws`: one list of `np.random.randint(2)`
    values per call of `_random_checker` (each call re-seeds the generator) -/
def componentLoop (a b : BMat) (mode : Mode) :
    List (List Nat) → List (List Bool) → List Bool → List EqOut → Except Err (Option (List Bool) × List EqOut)
  | [], _, sol, parts => .ok (some sol, parts)
  | nodes :: rest, draws, sol, parts =>
    match isLcEquivalent (subMat a nodes) (subMat b nodes) mode (draws.headD []) with
    | .error e => .error e
    | .ok out =>
      match out.sol with
      | none => .ok (none, parts ++ [out])
      | some q =>
        componentLoop a b mode rest (if out.path = "random" then draws.tail else draws) (scatter sol nodes q) (parts ++ [out])

/-- the repaired `is_lc_equivalent(adj1, adj2, mode, seed)` -/
def isLcEquivalentR (a b : BMat) (mode : Mode) (draws : List (List Bool)) : Except Err EqOutR :=
  let n := a.r
  if n ≠ b.r then .error .assertion
  else
    let comps := connectedComponents n a.f
    if comps ≠ connectedComponents n b.f then .ok { sol := none, comps := comps, parts := [], path := "components-differ" }
    else
      match componentLoop a b mode comps draws (List.replicate (4 * n) false) [] with
      | .error e => .error e
      | .ok (sol, parts) => .ok { sol := sol, comps := comps, parts := parts, path := "per-component" }

/-- `find_lc_operations` over the repaired `is_lc_equivalent` -/
def findLcOperationsR (fuel : Nat) (a b : BMat) (mode : Mode) (draws : List (List Bool)) : Except Err (List Nat) :=
  match isLcEquivalentR a b mode draws with
  | .error e => .error e
  | .ok out =>
    match out.sol with
    | some s => lcGraphOperations fuel a.r a.f s
    | none => .error .value

/-- `converter_gate_list` over the repaired `is_lc_equivalent` -/
def converterGateListR (a b : BMat) : Except Err (List (String × Nat) × Bool) :=
  match isLcEquivalentR a b .det [] with
  | .error e => .error e
  | .ok out =>
    match out.sol with
    | none => .error .assertion
    | some s =>
      let names := localCliffordOps a.r s
      let gates : List (String × Nat) := (names.zipIdx).flatMap fun (ops, i) => ops.reverse.map fun o => (o, i)
      match runGates (graphTab a.r a.f) gates with
      | .error e => .error e
      | .ok t =>
        match phaseCorrection t b.f with
        | some zs => .ok (gates ++ zs, true)
        | none => .ok (gates, false)

/-- `lc_check` over the repaired `is_lc_equivalent` -/
def lcCheckR (a b : BMat) (validate : Bool) : Except Err (Bool × List (String × Nat)) :=
  match converterGateListR a b with
  | .error _ => .ok (false, [])
  | .ok (gates, _) =>
    if validate then
      match runGates (graphTab a.r a.f) gates with
      | .error e => .error e
      | .ok t => if isGraphState t b.f then .ok (true, gates) else .error .warning
    else .ok (true, gates)

/-! ## `lc_check` on two stabilizer states (tableau inputs) -/

/-- a `(name, qubit)` pair of a gate list as a `Gate` of the stabilizer backend (`run_circuit` dispatch) -/
def toGate (g : String × Nat) : Gate :=
  match g.1 with
  | "H" => .H g.2 | "P" => .P g.2 | "P_dag" => .Pdag g.2 | "X" => .X g.2 | "Y" => .Y g.2 | "Z" => .Z g.2
  | _ => .I g.2

/-- `lc_check(state1, state2, validate)` for two `StabilizerTableau`s (a `CliffordTableau` is first reduced by
    `to_stabilizer`): both states are converted by `state_to_graph` (exceptions propagate), `converter_gate_list` runs on the two
    graphs inside the bare `try … except` (any exception → `(False, [])`), the total gate list is
    `gates1 + gate_list + inversed_gates2` (`gates2` reversed with `P ↔ P_dag`), and the validation compares the canonical forms
    of `run_circuit(tab1, total)` and `tab2` (`Warning` when they differ) -/
def lcCheckStates (t1 t2 : STab) (validate : Bool) : Except Err (Bool × List Gate) :=
  match S2G.stateToGraph t1 with
  | .error e => .error e
  | .ok (g1, G1) =>
    match S2G.stateToGraph t2 with
    | .error e => .error e
    | .ok (g2, G2) =>
      match converterGateListR g1 g2 with
      | .error _ => .ok (false, [])
      | .ok (L, _) =>
        let total := G1 ++ L.map toGate ++ G2.reverse.map Gate.rev
        if validate then
          match S2G.sameStabilizerState (t1.runCircuit total) t2 with
          | .error e => .error e
          | .ok true => .ok (true, total)
          | .ok false => .error .warning
        else .ok (true, total)

/-- `lc_check(state1, graph2, validate)`: the second argument is a graph (`state_to_graph` returns it unchanged with an empty
    gate list and the tableau of `get_stabilizer_tableau_from_graph`) -/
def lcCheckStateGraph (t1 : STab) (g2 : BMat) (validate : Bool) : Except Err (Bool × List Gate) :=
  match S2G.stateToGraph t1 with
  | .error e => .error e
  | .ok (g1, G1) =>
    match converterGateListR g1 g2 with
    | .error _ => .ok (false, [])
    | .ok (L, _) =>
      let total := G1 ++ L.map toGate
      if validate then
        match S2G.sameStabilizerState (t1.runCircuit total) (graphSTab g2.r g2.f) with
        | .error e => .error e
        | .ok true => .ok (true, total)
        | .ok false => .error .warning
      else .ok (true, total)

end Graphiq.LC
