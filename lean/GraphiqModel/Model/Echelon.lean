/-
  Echelon.lean — executable predicate: a stabilizer tableau is in the echelon form that `rref` (stabilizer.py) produces.
  Not part of graphiq; it is the post-condition proved of the model's `rref` (Proofs/EchelonRref.lean, Proofs/EchelonCheck.lean)
  and is evaluated by the driver on every `rref` output of the real code (harness/c03.py).
-/
import GraphiqModel.Model.StabTableau
namespace Graphiq
namespace STab

/-- every generator has a leftmost non-identity site; these sites are non-decreasing down the rows; two generators with the same
    leftmost site are adjacent rows and carry different Paulis there (so at most two share a site) -/
def echelonB (t : STab) : Bool :=
  match (List.range t.n).mapM (fun i => t.leftmost i) with
  | none => false
  | some lm =>
    (List.range t.n).all fun i => (List.range t.n).all fun k =>
      !(decide (i < k)) || (decide (lm.getD i 0 ≤ lm.getD k 0) &&
        (lm.getD i 0 != lm.getD k 0 || (k == i + 1 && t.ptype i (lm.getD i 0) != t.ptype k (lm.getD i 0))))

end STab
end Graphiq
