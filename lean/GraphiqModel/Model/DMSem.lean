/-
  DMSem.lean — exact-arithmetic model of `graphiq/backends/density_matrix/functions.py` (the parts C17 and C06 need),
  of `DensityMatrix` in `graphiq/backends/density_matrix/state.py`, of `_stabilizer_to_density_pure`
  (`graphiq/backends/state_rep_conversion.py`) and of the representation dispatch of `Infidelity.evaluate`
  (`graphiq/metrics.py`).

  What the model cannot exhibit (named in the evidence): floating-point rounding, the `eigh` / `cholesky` calls
  (`sqrtm_psd`, `trace_distance`, `is_psd`), and hence the value of the Uhlmann branch of `fidelity` and of
  `trace_distance` on non-commuting pairs.  `np.allclose` / `np.isclose` thresholds are modelled exactly as rational
  inequalities.
-/
import GraphiqModel.Model.Gauss
import GraphiqModel.Model.Tableau
namespace Graphiq
namespace DM

/-! ## 1. A mini-`einsum` and the string construction of `partial_trace` -/

/-- `string.ascii_lowercase[i]` / `string.ascii_uppercase[i]` -/
inductive Letter where
  | lo (i : Nat)
  | up (i : Nat)
  deriving DecidableEq, Repr

/-- the 52 letters `einsum` knows; `string.ascii_lowercase[i]` raises `IndexError` for `i ≥ 26` -/
def alphabet : List Letter := (List.range 26).map .lo ++ (List.range 26).map .up

def prodL (l : List Nat) : Nat := l.foldr (· * ·) 1

/-- all multi-indices of a shape, row-major (last index fastest) -/
def multiIdx : List Nat → List (List Nat)
  | [] => [[]]
  | d :: ds => (List.range d).flatMap fun i => (multiIdx ds).map (i :: ·)

/-- row-major flat index of a multi-index (`reshape`) -/
def flat : List Nat → List Nat → Nat
  | _ :: ds, i :: is => i * prodL ds + flat ds is
  | _, _ => 0

/-- inverse of `flat` below `prodL dims` -/
def unflat : List Nat → Nat → List Nat
  | [], _ => []
  | _ :: ds, k => (k / prodL ds) :: unflat ds (k % prodL ds)

abbrev Env := List (Letter × Nat)
def Env.get (env : Env) (l : Letter) : Nat := (env.lookup l).getD 0

def sumL {α : Type} [Add α] [Zero α] (l : List α) : α := l.foldl (· + ·) 0

/-- letters that `einsum` sums over: those of the input that do not occur in the output (each once) -/
def summedLetters (lhs rhs : List Letter) : List Letter :=
  alphabet.filter fun l => lhs.contains l && !rhs.contains l

/-- `np.einsum(lhs -> rhs, T)` for one operand: entry `o` of the result is the sum, over all values of the summed letters,
    of the operand entry addressed by the letters of `lhs`.  A letter repeated in `lhs` addresses a diagonal.
    `dimOf` gives the extent of each letter. -/
def einsum {α : Type} [Add α] [Zero α] (lhs rhs : List Letter) (dimOf : Letter → Nat) (T : List Nat → α)
    (o : List Nat) : α :=
  let S := summedLetters lhs rhs
  sumL ((multiIdx (S.map dimOf)).map fun s => T (lhs.map (Env.get (rhs.zip o ++ S.zip s))))

/-- `ssleft` of `partial_trace`: `"abc…"` followed by, per position, the *uppercase* letter if the position is kept and
    the same *lowercase* letter again if it is traced -/
def ssleft (ndim : Nat) (keep : List Nat) : List Letter :=
  (List.range ndim).map Letter.lo ++
    (List.range ndim).map fun i => if keep.contains i then Letter.up i else Letter.lo i

/-- `ssright`: the kept lowercase letters then the kept uppercase letters, both in position order -/
def ssright (ndim : Nat) (keep : List Nat) : List Letter :=
  ((List.range ndim).filter fun i => keep.contains i).map Letter.lo ++
    ((List.range ndim).filter fun i => keep.contains i).map Letter.up

/-- the string of the code before the repair of D23 (`"abcABC->abAB"`): every position gets its uppercase letter in the
    second half, so a traced position is summed over its row index and its column index *independently* -/
def ssleftOld (ndim : Nat) (_keep : List Nat) : List Letter :=
  (List.range ndim).map Letter.lo ++ (List.range ndim).map Letter.up

def letterDim (dims : List Nat) : Letter → Nat
  | .lo i => dims.getD i 0
  | .up i => dims.getD i 0

def keptPos (ndim : Nat) (keep : List Nat) : List Nat := (List.range ndim).filter fun i => keep.contains i
def tracedPos (ndim : Nat) (keep : List Nat) : List Nat := (List.range ndim).filter fun i => !keep.contains i

/-- `rho.reshape(np.tile(dims, 2))` as a function of the multi-index -/
def reshapeIn {α : Type} (ρ : Nat → Nat → α) (dims : List Nat) (idx : List Nat) : α :=
  ρ (flat dims (idx.take dims.length)) (flat dims (idx.drop dims.length))

/-- entry `(r, c)` of `partial_trace(rho, keep, dims)` computed as the code does: build the two strings, reshape,
    `einsum`, reshape back.  Generic in the value type. -/
def partialTraceEntry {α : Type} [Add α] [Zero α] (left : Nat → List Nat → List Letter)
    (ρ : Nat → Nat → α) (keep dims : List Nat) (r c : Nat) : α :=
  let n := dims.length
  let kd := (keptPos n keep).map fun i => dims.getD i 0
  einsum (left n keep) (ssright n keep) (letterDim dims) (reshapeIn ρ dims) (unflat kd r ++ unflat kd c)

/-- full multi-index from the values `a` of the kept and `b` of the traced positions -/
def mergeIdx (ndim : Nat) (keep a b : List Nat) : List Nat :=
  (List.range ndim).map fun i =>
    if keep.contains i then a.getD ((keptPos ndim keep).idxOf i) 0 else b.getD ((tracedPos ndim keep).idxOf i) 0

/-- **textbook reduced state**: `Σ_b ρ[(a,b),(a',b)]`, `b` ranging over all values of the traced positions -/
def reducedEntry {α : Type} [Add α] [Zero α] (ρ : Nat → Nat → α) (keep dims : List Nat) (r c : Nat) : α :=
  let n := dims.length
  let kd := (keptPos n keep).map fun i => dims.getD i 0
  let td := (tracedPos n keep).map fun i => dims.getD i 0
  sumL ((multiIdx td).map fun b =>
    ρ (flat dims (mergeIdx n keep (unflat kd r) b)) (flat dims (mergeIdx n keep (unflat kd c) b)))

/-- `partial_trace(rho, keep, dims)` with the exceptions of the Python: `dims[keep]` (`IndexError` for an index out of
    range or for an empty `keep`, whose array has float dtype), `string.ascii_lowercase[i]` (`IndexError` beyond 26
    spaces), the two `reshape`s (`ValueError` for a size mismatch; a repeated entry in `keep` inflates `nkeep`). -/
def partialTrace (ρ : Mat) (keep dims : List Nat) : Except Err Mat :=
  let n := dims.length
  if keep.isEmpty then .error .index
  else if keep.any (fun k => decide (n ≤ k)) then .error .index
  else if 26 < n then .error .index
  else if ρ.n ≠ prodL dims then .error .value
  else
    let nkeep := prodL (keep.map fun i => dims.getD i 0)
    let kd := (keptPos n keep).map fun i => dims.getD i 0
    if nkeep ≠ prodL kd then .error .value
    else .ok ⟨nkeep, fun r c => partialTraceEntry ssleft ρ.e keep dims r c⟩

/-- the same with the pre-D23 string (used only for the refutation witness) -/
def partialTraceOld (ρ : Mat) (keep dims : List Nat) : Mat :=
  ⟨prodL ((keptPos dims.length keep).map fun i => dims.getD i 0),
   fun r c => partialTraceEntry ssleftOld ρ.e keep dims r c⟩

/-! ## 2. `is_pure`, `is_density_matrix`, `fidelity`, `trace_distance` -/

/-- `np.allclose(x, 1.0)` (defaults `rtol = 1e-5`, `atol = 1e-8`): `|x - 1| ≤ atol + rtol·|1|` -/
def allclose1 (x : Rat) : Bool := decide ((x - 1).abs ≤ (1 : Rat) / 100000000 + (1 : Rat) / 100000)
/-- `np.isclose(x, 0.0)`: `|x| ≤ atol` -/
def isclose0 (x : Rat) : Bool := decide (x.abs ≤ (1 : Rat) / 100000000)

/-- `np.allclose(x, 1.0, rtol=0.0, atol=1e-10)`: `|x - 1| ≤ 1e-10` -/
def allclose1Tight (x : Rat) : Bool := decide ((x - 1).abs ≤ (1 : Rat) / 10000000000)

/-- `is_pure(rho)`: `np.allclose(np.real(np.trace(rho @ rho)), 1.0, rtol=0.0, atol=1e-10)` -/
def isPure (ρ : Mat) : Bool := allclose1Tight (ρ.mul ρ).trace.re

/-- exact positive-semidefiniteness of a Hermitian matrix by symmetric elimination (`LDL†`): every pivot is `≥ 0`, and a
    zero pivot must have a zero row.  The code's `is_psd` runs a floating-point Cholesky of `rho + 1e-15·I`; the model
    decides the property that call approximates. -/
def psdElim : Nat → Nat → (Nat → Nat → GQ) → Bool
  | 0, _, _ => true
  | fuel+1, n, a =>
    let k := n - (fuel + 1)
    let d := (a k k).re
    if d < 0 then false
    else if d = 0 then
      if (List.range n).all (fun j => j ≤ k || (a k j).isZero) then psdElim fuel n a else false
    else
      let arr : Array (Array GQ) := Array.ofFn (n := n) fun i => Array.ofFn (n := n) fun j =>
        if k < i.val ∧ k < j.val then a i j - GQ.smul (1 / d) (a i k * (a j k).conj) else a i j
      psdElim fuel n (Mat.lookupG arr)

def isPsd (ρ : Mat) : Bool := ρ.isHermitian && psdElim ρ.n ρ.n ρ.e

/-- `is_density_matrix`: PSD and `np.allclose(trace, 1.0)` -/
def isDensityMatrix (ρ : Mat) : Bool := isPsd ρ && allclose1 ρ.trace.re && isclose0 ρ.trace.im

def clip01 (x : Rat) : Rat := if x < 0 then 0 else if 1 < x then 1 else x

/-- result of `fidelity`: a value (pure-state shortcut) or "the Uhlmann branch was taken" (value not in ℚ) -/
inductive FidOut where
  | val (f : Rat)
  | uhlmann
  deriving DecidableEq, Repr

/-- branch structure of `fidelity(rho, sigma)` -/
def fidelity (ρ σ : Mat) : Except Err FidOut :=
  if !isDensityMatrix ρ then .error .assertion
  else if !isDensityMatrix σ then .error .assertion
  else if isPure ρ || isPure σ then .ok (.val (clip01 (ρ.mul σ).trace.re))
  else .ok .uhlmann

/-- simultaneously diagonalisable pair with eigenvalue vectors `p_i = a_i²`, `q_i = b_i²` (`a_i, b_i ≥ 0` rational):
    Uhlmann fidelity `(Σ √(p_i q_i))² = (Σ a_i b_i)²` -/
def commFidelity (a b : List Rat) : Rat :=
  let s := qsumL (List.zipWith (· * ·) a b)
  s * s

/-- trace distance of a commuting pair: `½ Σ |p_i − q_i|` -/
def commTraceDist (p q : List Rat) : Rat :=
  (1 / 2 : Rat) * qsumL (List.zipWith (fun x y => (x - y).abs) p q)

/-! ## 3. Gate matrices and `DensityMatrix` operations -/

/-- a matrix with a scalar factor `√sq` kept symbolic (Hadamard's `1/√2`, the `√factor` of a Kraus operator) -/
structure SMat where
  sq : Rat
  m : Mat

def pow2 (k : Nat) : Nat := 2 ^ k

/-- `get_one_qubit_gate(n, q, g)`: `I_{2^q} ⊗ g ⊗ I_{2^(n-q-1)}` (`g` itself when `n = 1`) -/
def getOneQubitGate (n q : Nat) (g : Mat) : Mat :=
  if n = 1 then g
  else
    let b := pow2 (n - q - 1)
    ⟨pow2 q * 2 * b, fun i j =>
      if i / (2 * b) = j / (2 * b) ∧ i % b = j % b then g.e ((i / b) % 2) ((j / b) % 2) else 0⟩

/-- `kron(kron(I_a, g), I_b)` -/
def embed1 (a b : Nat) (g : Mat) : Mat :=
  ⟨a * 2 * b, fun i j => if i / (2 * b) = j / (2 * b) ∧ i % b = j % b then g.e ((i / b) % 2) ((j / b) % 2) else 0⟩

/-- `get_two_qubit_controlled_gate(n, c, t, g)`: `I + ½ (I−Z)_c ⊗ (g−I)_t` -/
def getTwoQubitControlledGate (n c t : Nat) (g : Mat) : Except Err Mat :=
  if n ≤ 1 then .error .assertion
  else if c = t then .error .value
  else
    let N := pow2 n
    let bc := pow2 (n - c - 1)
    let bt := pow2 (n - t - 1)
    .ok ⟨N, fun i j =>
      -- all qubits other than the target agree between row and column
      let same := (List.range n).all fun k => k = t || (i / pow2 (n - k - 1)) % 2 = (j / pow2 (n - k - 1)) % 2
      if !same then 0
      else
        let ci := (i / bc) % 2
        let ti := (i / bt) % 2
        let tj := (j / bt) % 2
        if ci = 0 then (if ti = tj then 1 else 0) else g.e ti tj⟩

/-- `projectors_zbasis(n, q)` -/
def projectorsZ (n q : Nat) : Except Err (Mat × Mat) :=
  if q < n then
    .ok (⟨pow2 n, fun i j => if i = j ∧ (i / pow2 (n - q - 1)) % 2 = 0 then 1 else 0⟩,
         ⟨pow2 n, fun i j => if i = j ∧ (i / pow2 (n - q - 1)) % 2 = 1 then 1 else 0⟩)
  else .error .value

/-- `get_reset_qubit_kraus(n, q)` -/
def resetKraus (n q : Nat) : List SMat :=
  [⟨1, getOneQubitGate n q (Mat.m2 1 0 0 0)⟩, ⟨1, getOneQubitGate n q (Mat.m2 0 1 0 0)⟩]

/-- `DensityMatrix.apply_unitary` (`ValueError` on a shape mismatch), followed by `hermitianize` as coded -/
def applyUnitary (ρ : Mat) (u : SMat) : Except Err Mat :=
  if ρ.n ≠ u.m.n then .error .value
  else .ok (Mat.hermitianize (Mat.smul u.sq (Mat.conjBy u.m ρ)).norm).norm

/-- `DensityMatrix.apply_channel` -/
def applyChannel (ρ : Mat) (ks : List SMat) : Except Err Mat :=
  match ks with
  | [] => .ok ρ
  | k0 :: _ =>
    if ρ.n ≠ k0.m.n then .error .value
    else
      let tmp := ks.foldl (fun acc k => (Mat.add acc (Mat.smul k.sq (Mat.conjBy k.m ρ)).norm).norm) (Mat.zero ρ.n)
      .ok (Mat.hermitianize tmp).norm

/-- measurement determinism: forced 0, forced 1 (probabilistic draws are scripted by the harness as forced) -/
abbrev Det := Bool

/-- `DensityMatrix.apply_measurement(projectors, determinism)`: `(state, outcome)`.  The projected state is divided by the
    *conditional* probability `probs[outcome] / Σ probs` of the chosen outcome, so a sub-normalised state (photon loss) keeps
    its trace; for a state of trace 0 the divisor is 1.  `none` = the inf/NaN matrix numpy produces if that conditional
    probability is 0 (only possible when the other outcome's probability is below the `isclose` threshold). -/
def applyMeasurement (ρ : Mat) (p0 p1 : Mat) (det : Det) : Except Err (Option Mat × Bool) :=
  if ρ.n ≠ p0.n then .error .value
  else
    let pr (m : Mat) : Rat := let x := (ρ.mul m).trace.re; if x < 0 then 0 else x
    let q0 := pr p0
    let q1 := pr p1
    let outcome : Bool := if det then !isclose0 q1 else isclose0 q0
    let m := if outcome then p1 else p0
    let total := q0 + q1
    let norm : Rat := if 0 < total then (if outcome then q1 else q0) / total else 1
    if norm = 0 then .ok (none, outcome)
    else .ok (some (Mat.smul (1 / norm) (Mat.conjBy m ρ)).norm, outcome)

/-! ## 4. Stabilizer state → density matrix -/

/-- Pauli matrix of one site from the `(x, z)` bits (`symplectic_to_string` + `get_stabilizer_element_by_string`):
    `Y` is the Hermitian `sigmay()` -/
def pauli1 (x z : Bool) : Mat :=
  if x then (if z then Mat.sigmay else Mat.sigmax) else (if z then Mat.sigmaz else Mat.id2)

/-- entry of the n-fold Kronecker product of one-site Paulis of a row -/
def pauliEntry (n : Nat) (p : PRow) (i j : Nat) : GQ :=
  (List.range n).foldl (fun acc k =>
    acc * (pauli1 (p.x k) (p.z k)).e ((i / pow2 (n - k - 1)) % 2) ((j / pow2 (n - k - 1)) % 2)) 1

def pauliMat (n : Nat) (p : PRow) : Mat := ⟨pow2 n, pauliEntry n p⟩

/-- `_stabilizer_to_density_pure` **as coded**: `∏_k (g_k + I)/2` over the generator *labels* — the sign vector of the
    tableau is never read (known finding D9) -/
def stabilizerToDensityPure (t : Tab) : Mat :=
  (List.range t.n).foldl (fun ρ k =>
    (Mat.mul ρ (Mat.smul (1/2) (Mat.add (pauliMat t.n (t.row (k + t.n))).norm (Mat.eye (pow2 t.n)))).norm).norm)
    (Mat.eye (pow2 t.n))

/-- the density matrix of the stabilizer state: `∏_k (I + (−1)^{r_k} g_k)/2` -/
def stabilizerDensity (t : Tab) : Mat :=
  (List.range t.n).foldl (fun ρ k =>
    let g := (pauliMat t.n (t.row (k + t.n))).norm
    let sg : Rat := if (t.row (k + t.n)).r then -1 else 1
    (Mat.mul ρ (Mat.smul (1/2) (Mat.add (Mat.smul sg g) (Mat.eye (pow2 t.n)))).norm).norm)
    (Mat.eye (pow2 t.n))

/-- exact overlap `tr(ρ_a ρ_b)` of two stabilizer states = `|⟨a|b⟩|²` (the specification of `sfm.fidelity`, C05) -/
def stabOverlap (a b : Tab) : Rat := ((stabilizerDensity a).mul (stabilizerDensity b)).trace.re

/-! ## 5. `Infidelity.evaluate`: representation dispatch -/

inductive Rep where
  | s (t : Tab)
  | dm (m : Mat)

/-- `Infidelity(target).evaluate(state)` for pure (non-mixture) stabilizer data; `sfid` stands for
    `graphiq.backends.stabilizer.functions.metric.fidelity` (external to this model; its specification is `stabOverlap`).
    The pair (stabilizer target, density-matrix state) goes through `density_to_stabilizer`, which is defined for graph
    states only and is outside this model (C08): `.error .runtime` marks "not modelled". -/
def infidelity (sfid : Tab → Tab → Rat) (target state : Rep) : Except Err FidOut :=
  let flip : FidOut → FidOut
    | .val f => .val (1 - f)
    | .uhlmann => .uhlmann
  match target, state with
  | .s tt, .s ts => .ok (.val (1 - sfid tt ts))
  | .s _, .dm _ => .error .runtime
  | .dm mt, .dm ms => (fidelity mt ms).map flip
  | .dm mt, .s ts => (fidelity mt (stabilizerToDensityPure ts)).map flip

end DM
end Graphiq
