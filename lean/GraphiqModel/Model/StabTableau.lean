/-
  StabTableau.lean — model of `graphiq/backends/stabilizer/functions/{stabilizer,height,metric,rep_conversion}.py`
  on `StabilizerTableau`s (n generator rows on n qubits, one sign bit per row; no i-phase).
-/
import GraphiqModel.Model.Tableau
namespace Graphiq

/-- a stabilizer tableau: rows `0..n-1`; the `ip` field of the rows is not part of the data (always `false`) -/
structure STab where
  n : Nat
  row : Nat → PRow

/-- circuit-list entries of `run_circuit` -/
inductive Gate where
  | H (q : Nat) | P (q : Nat) | Pdag (q : Nat) | X (q : Nat) | Y (q : Nat) | Z (q : Nat) | I (q : Nat)
  | CNOT (c t : Nat) | CZ (c t : Nat)
  deriving Repr, DecidableEq, Inhabited

def Gate.toString : Gate → String
  | .H q => s!"H:{q}" | .P q => s!"P:{q}" | .Pdag q => s!"P_dag:{q}" | .X q => s!"X:{q}" | .Y q => s!"Y:{q}"
  | .Z q => s!"Z:{q}" | .I q => s!"I:{q}" | .CNOT c t => s!"CNOT:{c}:{t}" | .CZ c t => s!"CZ:{c}:{t}"

/-- row-wise action of a gate (`run_circuit` dispatch, forward direction) -/
def Gate.act : Gate → PRow → PRow
  | .H q => PRow.h q | .P q => PRow.s q | .Pdag q => PRow.sdg q | .X q => PRow.xg q | .Y q => PRow.yg q
  | .Z q => PRow.zg q | .I _ => id | .CNOT c t => PRow.cnot c t | .CZ c t => PRow.cz c t

/-- `run_circuit(..., reverse=True)` swaps `P` and `P_dag` (and reverses the list) -/
def Gate.rev : Gate → Gate
  | .P q => .Pdag q | .Pdag q => .P q | g => g

def Gate.inBounds (n : Nat) : Gate → Bool
  | .H q | .P q | .Pdag q | .X q | .Y q | .Z q => q < n
  | .I _ => true
  | .CNOT c t | .CZ c t => c < n && t < n

namespace STab

def lookupRow (a : Array PRow) (i : Nat) : PRow := a.getD i PRow.one

def norm (t : STab) : STab :=
  let a : Array PRow := Array.ofFn (n := t.n) fun i => (t.row i).norm t.n
  { n := t.n, row := lookupRow a }

def ofRows (n : Nat) (a : Array PRow) : STab := { n := n, row := lookupRow a }

def map (f : PRow → PRow) (t : STab) : STab := { t with row := fun i => f (t.row i) }

def applyGate (t : STab) (g : Gate) : STab := t.map g.act

/-- `run_circuit` on a stabilizer tableau (forward) -/
def runCircuit (t : STab) (c : List Gate) : STab := c.foldl (fun acc g => (acc.applyGate g).norm) t

/-- `tab_row_swap` -/
def rowSwap (t : STab) (a b : Nat) : STab :=
  { t with row := fun i => if i = a then t.row b else if i = b then t.row a else t.row i }

/-- `tab_row_sum(tableau, row_to_add, target_row)`: i-phases are passed as zeros and the returned one is discarded -/
def stabMul (n : Nat) (a b : PRow) : PRow :=
  let a0 := { a with ip := false }
  let b0 := { b with ip := false }
  { (PRow.mul n a0 b0) with ip := false }

def rowSum (t : STab) (add target : Nat) : STab :=
  { t with row := upd t.row target (stabMul t.n (t.row add) (t.row target)) }

/-- Pauli type of row `i` at column `j`: 0 = I, 1 = X, 2 = Y, 3 = Z -/
def ptype (t : STab) (i j : Nat) : Nat :=
  match (t.row i).x j, (t.row i).z j with
  | false, false => 0 | true, false => 1 | true, true => 2 | false, true => 3

/-- `pauli_type_finder(x, z, pivot)`: rows `pivot[0]..n-1` by Pauli type at column `pivot[1]` -/
def pauliTypeFinder (t : STab) (pr pc : Nat) : List Nat × List Nat × List Nat :=
  let rows := (List.range t.n).filter (fun i => pr ≤ i)
  (rows.filter (fun i => t.ptype i pc = 1), rows.filter (fun i => t.ptype i pc = 2), rows.filter (fun i => t.ptype i pc = 3))

/-- `_process_one_pauli` -/
def processOne (t : STab) (pr : Nat) (l : List Nat) : STab :=
  match l with
  | [] => t
  | first :: rest =>
    let t1 := t.rowSwap pr first
    (rest.foldl (fun acc i => acc.rowSum pr i) t1).norm

/-- the list of `pauli_type_finder` for Pauli type `ty` (1 = x, 2 = y, otherwise z) -/
def pickType (t : STab) (pr pc ty : Nat) : List Nat :=
  if ty = 1 then (t.pauliTypeFinder pr pc).1 else if ty = 2 then (t.pauliTypeFinder pr pc).2.1 else (t.pauliTypeFinder pr pc).2.2

/-- `_process_two_pauli` for Pauli types `ty1`, `ty2` (1 = x, 2 = y, 3 = z); `none` = the internal assert fails / a list is empty -/
def processTwo (t : STab) (pr pc : Nat) (ty1 ty2 : Nat) : Option STab :=
  match t.pickType pr pc ty1 with
  | [] => none
  | f1 :: _ =>
    let t1 := (t.rowSwap pr f1).norm
    match t1.pickType pr pc ty2 with
    | [] => none
    | f2 :: _ =>
      -- (row `pr + 1` exists whenever two Pauli types occur below `pr`; numpy would raise IndexError otherwise)
      if pr + 1 < t.n then
        let t2 := (t1.rowSwap (pr + 1) f2).norm
        match t2.pickType pr pc ty1, t2.pickType pr pc ty2 with
        | a :: l1, b :: l2 =>
          if a = pr ∧ b = pr + 1 then
            let t3 := l1.foldl (fun acc i => acc.rowSum pr i) t2
            some (l2.foldl (fun acc i => acc.rowSum (pr + 1) i) t3).norm
          else none
        | _, _ => none
      else none

/-- `one_step_rref(tableau, pivot)`; returns the new tableau and pivot, `none` if an internal assert fails -/
def oneStepRref (t : STab) (pr pc : Nat) : Option (STab × Nat × Nat × String) :=
  let (xs, ys, zs) := t.pauliTypeFinder pr pc
  if xs.isEmpty && ys.isEmpty && zs.isEmpty then some (t, pr, pc + 1, "none")
  else if !xs.isEmpty && ys.isEmpty && zs.isEmpty then some (t.processOne pr xs, pr + 1, pc + 1, "x")
  else if !ys.isEmpty && xs.isEmpty && zs.isEmpty then some (t.processOne pr ys, pr + 1, pc + 1, "y")
  else if !zs.isEmpty && xs.isEmpty && ys.isEmpty then some (t.processOne pr zs, pr + 1, pc + 1, "z")
  else if xs.isEmpty then (t.processTwo pr pc 2 3).map fun t' => (t', pr + 2, pc + 1, "yz")
  else if ys.isEmpty then (t.processTwo pr pc 1 3).map fun t' => (t', pr + 2, pc + 1, "xz")
  else if zs.isEmpty then (t.processTwo pr pc 1 2).map fun t' => (t', pr + 2, pc + 1, "xy")
  else
    match t.processTwo pr pc 1 3 with
    | none => none
    | some t1 =>
      let (_, ys1, _) := t1.pauliTypeFinder pr pc
      let t2 := ys1.foldl (fun acc k => (acc.rowSum pr k).rowSum (pr + 1) k) t1
      some (t2.norm, pr + 2, pc + 1, "xyz")

/-- the `while` loop of `rref`, with fuel `n` steps (the column index increases by one per step) -/
def rrefLoop (fuel : Nat) (t : STab) (pr pc : Nat) (brs : List String) : Except Err (STab × Nat × Nat × List String) :=
  match fuel with
  | 0 => .ok (t, pr, pc, brs)
  | fuel + 1 =>
    if pr + 1 ≤ t.n ∧ pc + 1 ≤ t.n then
      match t.oneStepRref pr pc with
      | none => .error .assertion
      | some (t', pr', pc', b) => rrefLoop fuel t' pr' pc' (brs ++ [b])
    else .ok (t, pr, pc, brs)

/-- `rref(tableau)`; final assert `pivot[0] >= n - 1` (Python ints: `n - 1` may be `-1` for `n = 0`) -/
def rref (t : STab) : Except Err (STab × List String) :=
  match rrefLoop (t.n + 1) t 0 0 [] with
  | .error e => .error e
  | .ok (t', pr, _, brs) => if pr + 1 ≥ t.n then .ok (t', brs) else .error .assertion

/-- `leftmost_nontrivial_index`; `none` = ValueError (identity generator) -/
def leftmost (t : STab) (i : Nat) : Option Nat :=
  ((List.range t.n).filter fun j => (t.row i).x j || (t.row i).z j).head?

/-- `height_func_list(x, z)`: signs are discarded, `rref`, then count generators starting right of each position -/
def heightFuncList (t : STab) : Except Err (List Int) :=
  let t0 : STab := t.map fun p => { p with r := false, ip := false }
  match t0.rref with
  | .error e => .error e
  | .ok (t1, _) =>
    if t.n = 0 then .ok [] else
    match (List.range t.n).mapM (fun i => t1.leftmost i) with
    | none => .error .value
    | some lm =>
      .ok ((List.range t.n).map fun (k : Nat) =>
        Int.ofNat t.n - (Int.ofNat k + 1) - Int.ofNat (lm.filter fun (x : Nat) => decide (x > k)).length)

/-- `height_dict` values in key order `-1, 0, …, n-1`, and `height_max` -/
def heightMax (t : STab) : Except Err Int :=
  match t.heightFuncList with
  | .error e => .error e
  | .ok l => .ok (l.foldl max 0)

/-- `one_pauli_type_finder(x, z, pivot, 'z')` -/
def zTypeFinder (t : STab) (pr pc : Nat) : List Nat :=
  ((List.range t.n).filter (fun i => pr ≤ i)).filter (fun i => t.ptype i pc = 3)

/-- a pivot-clearing sweep: every selected row other than the pivot row `pr` is multiplied by the pivot row
    (`for row_m in range(n): if <sel> and row_m != pivot[0]: tab_row_sum(tableau, pivot[0], row_m)`) -/
def sweep (t : STab) (pr : Nat) (sel : Nat → Bool) : STab :=
  { t with row := fun m => if m ≠ pr ∧ sel m then stabMul t.n (t.row pr) (t.row m) else t.row m }

/-- first loop of `canonical_form` (X/Y pivots), one column -/
def canonStepXY (t : STab) (pr j : Nat) : STab × Nat :=
  let (xs, ys, _) := t.pauliTypeFinder pr j
  match (if !xs.isEmpty then xs.head? else ys.head?) with
  | none => (t, pr)
  | some f =>
    let t1 := (t.rowSwap pr f).norm
    ((t1.sweep pr fun m => (t1.row m).x j).norm, pr + 1)

/-- second loop of `canonical_form` (Z pivots), one column -/
def canonStepZ (t : STab) (pr j : Nat) : STab × Nat :=
  match (t.zTypeFinder pr j).head? with
  | none => (t, pr)
  | some f =>
    let t1 := (t.rowSwap pr f).norm
    ((t1.sweep pr fun m => (t1.row m).z j).norm, pr + 1)

/-- `canonical_form(tableau)`; the final `assert pivot[0] == n` fails exactly for dependent generators -/
def canonLoops (t : STab) : STab × Nat :=
  let r1 := (List.range t.n).foldl (fun (acc : STab × Nat) j => acc.1.canonStepXY acc.2 j) (t, 0)
  (List.range t.n).foldl (fun (acc : STab × Nat) j => acc.1.canonStepZ acc.2 j) r1

def canonicalForm (t : STab) : Except Err STab :=
  if t.canonLoops.2 = t.n then .ok t.canonLoops.1 else .error .assertion

/-- all pairs `(j, k)` with `j < k < n` in the order of the nested Python loops -/
def pairsLt (n : Nat) : List (Nat × Nat) :=
  (List.range n).flatMap fun j => ((List.range n).filter fun k => j < k).map fun k => (j, k)

structure InvState where
  t : STab
  circ : List Gate

namespace InvState
/-- apply a gate to the tableau and append it to the circuit list -/
def gate (st : InvState) (g : Gate) : InvState := { t := (st.t.applyGate g).norm, circ := st.circ ++ [g] }
def swap (st : InvState) (a b : Nat) : InvState := { st with t := (st.t.rowSwap a b).norm }
def rsum (st : InvState) (a b : Nat) : InvState := { st with t := (st.t.rowSum a b).norm }
end InvState

/-- the clearing loop of block 1 (`for row_i in range(pivot[0] + 1, n): if z[row_i, j] == 1:
    tableau = tab_row_sum(tableau, pivot[0], row_i)`; the pivot row index equals `j`) -/
def invClear (n j : Nat) (st : InvState) : InvState :=
  ((List.range n).filter fun i => j < i).foldl (fun acc i => if (acc.t.row i).z j then acc.rsum j i else acc) st

/-- block 1, column `j` (the pivot row index equals `j`): bring a pivot to the diagonal.  In the `z_list` branch the
    candidates are filtered to the generators without any x-bit (`not np.any(tableau.x_matrix[i])`), the last one is
    swapped to the diagonal (`z_list[-1]`: IndexError when the filtered list is empty), the Z of column `j` is cleared
    from the rows below, and a Hadamard is emitted when the pivot is not already alone to its right -/
def invStep1 (n : Nat) (st : InvState) (j : Nat) : Except Err InvState :=
  let (xs, ys, zs) := st.t.pauliTypeFinder j j
  match xs.head? with
  | some f => .ok (st.swap j f)
  | none =>
    match ys.head? with
    | some f => .ok (st.swap j f)
    | none =>
      if zs.isEmpty then .ok st
      else
        match (zs.filter fun i => !(List.range n).any fun k => (st.t.row i).x k).getLast? with
        | none => .error .index
        | some f =>
          let s1 := invClear n j (st.swap j f)
          .ok (if ((List.range n).filter fun k => j < k).any fun k => (s1.t.row j).x k || (s1.t.row j).z k
               then s1.gate (.H j) else s1)

/-- block 2: CNOTs clear the X part right of the diagonal -/
def invStep2 (st : InvState) (jk : Nat × Nat) : InvState :=
  if (st.t.row jk.1).x jk.2 then st.gate (.CNOT jk.1 jk.2) else st
/-- block 3: CZs clear the Z part right of the diagonal -/
def invStep3 (st : InvState) (jk : Nat × Nat) : InvState :=
  if !(st.t.row jk.1).x jk.2 && (st.t.row jk.1).z jk.2 then st.gate (.CZ jk.1 jk.2) else st
/-- block 4: phase gates turn Y on the diagonal into X -/
def invStep4 (st : InvState) (j : Nat) : InvState :=
  if (st.t.row j).x j && (st.t.row j).z j then st.gate (.P j) else st
/-- block 5: Hadamards turn X on the diagonal into Z -/
def invStep5 (st : InvState) (j : Nat) : InvState :=
  if (st.t.row j).x j && !(st.t.row j).z j then st.gate (.H j) else st
/-- block 6: row sums clear the Z part left of the diagonal -/
def invStep6 (st : InvState) (jk : Nat × Nat) : InvState :=
  if !(st.t.row jk.2).x jk.1 && (st.t.row jk.2).z jk.1 then st.rsum jk.1 jk.2 else st
/-- block 7: X gates fix the signs (`for i in np.nonzero(tableau.phase)[0]`, the index list is computed once) -/
def invStep7 (st : InvState) (i : Nat) : InvState := st.gate (.X i)

/-- block 1 (the first "Hadamard block") over all columns; an error of a step aborts the function -/
def invBlock1 (t0 : STab) : Except Err InvState :=
  (List.range t0.n).foldlM (invStep1 t0.n) { t := t0, circ := [] }

/-- blocks 2 to 7 -/
def invRest (n : Nat) (s1 : InvState) : InvState :=
  let s2 := (pairsLt n).foldl invStep2 s1
  let s3 := (pairsLt n).foldl invStep3 s2
  let s4 := (List.range n).foldl invStep4 s3
  let s5 := (List.range n).foldl invStep5 s4
  let s6 := (pairsLt n).foldl invStep6 s5
  ((List.range n).filter fun i => (s6.t.row i).r).foldl invStep7 s6

def invBlocks (t0 : STab) : Except Err InvState :=
  match invBlock1 t0 with
  | .error e => .error e
  | .ok s1 => .ok (invRest t0.n s1)

/-- `inverse_circuit(tableau)` → `(tableau, circuit_list)` -/
def inverseCircuit (t : STab) : Except Err (STab × List Gate) :=
  match t.canonicalForm with
  | .error e => .error e
  | .ok t0 =>
    match invBlocks t0 with
    | .error e => .error e
    | .ok s => .ok (s.t, s.circ)

/-- `StabilizerTableau(n)` / the all-|0⟩ state -/
def zero (n : Nat) : STab := { n := n, row := fun i => PRow.Zq i }

def isZero (t : STab) : Bool :=
  (List.range t.n).all fun i => PRow.beqOn t.n { (t.row i) with ip := false } (PRow.Zq i)

def beq (a b : STab) : Bool :=
  a.n == b.n && (List.range a.n).all fun i => PRow.beqOn a.n { (a.row i) with ip := false } { (b.row i) with ip := false }

/-- `insert_qubit` of stabilizer.py -/
def insertQubit (t : STab) (p : Nat) : STab :=
  { n := t.n + 1
    row := fun i => if i < p then (t.row i).insertCol p else if i = p then PRow.Zq p else (t.row (i - 1)).insertCol p }

/-- `CliffordTableau.to_stabilizer()` (drops the i-phases) -/
def ofTab (t : Tab) : STab := { n := t.n, row := fun i => { (t.row (i + t.n)) with ip := false } }

end STab

namespace Tab

/-- `run_circuit(tableau, circuit, reverse)` on a Clifford tableau -/
def runCircuit (t : Tab) (c : List Gate) (reverse : Bool := false) : Tab :=
  let c' := if reverse then c.reverse.map Gate.rev else c
  c'.foldl (fun acc g => (acc.map g.act).norm) t

end Tab

namespace STab

/-- `clifford_from_stabilizer` -/
def cliffordFromStabilizer (t : STab) : Except Err Tab :=
  match t.inverseCircuit with
  | .error e => .error e
  | .ok (_, circ) => .ok ((Tab.ket0 t.n).runCircuit circ true)

/-- `inner_product(tableau1, tableau2)` of metric.py on the stabilizer halves; `ok none` = inner product 0,
    `ok (some k)` = `2^(-k/2)` -/
def innerProduct (t1 t2c : Tab) : Except Err (Option Nat) :=
  if t1.n ≠ t2c.n then .error .assertion else
  let n := t1.n
  match (STab.ofTab t1).inverseCircuit with
  | .error e => .error e
  | .ok (s1, circ) =>
    let t2' := t2c.runCircuit circ
    match (STab.ofTab t2').canonicalForm with
    | .error e => .error e
    | .ok s2 =>
      let res : Option Nat := (List.range n).foldl (fun (acc : Option Nat) i =>
        match acc with
        | none => none
        | some counter =>
          if (List.range n).any fun j => (s2.row i).x j then some (counter + 1)
          else
            let zl := (List.range n).filter fun j => (s2.row i).z j && !(s2.row i).x j
            let scratch := zl.foldl (fun sc idx => PRow.mul n (s1.row idx) sc) PRow.one
            if PRow.beqOn n { scratch with r := false, ip := false } { (s2.row i) with r := false, ip := false }
                && scratch.r != (s2.row i).r then none
            else some counter) (some 0)
      .ok res

end STab
end Graphiq
