/-
  Gauss.lean — exact Gaussian rationals ℚ[i] and small square matrices over them (no Mathlib).

  The density-matrix side of graphiq (`graphiq/backends/density_matrix/functions.py`, `state.py`) is floating point;
  the model runs *the same algorithms* in exact arithmetic.  Every matrix that the modelled code paths produce from
  rational inputs (Clifford gates, Pauli channels with rational strengths, projectors, partial traces) has entries in
  ℚ[i], so nothing is rounded in the model.  The tie to the code is numerical (tolerance 1e-9, harness side).

  Conventions (DESIGN §2.1): matrices are `Nat`-indexed total functions with an explicit size, executed by
  tabulation (`Mat.norm`).  Nothing is ever proved about out-of-range reads.
-/
import GraphiqModel.Model.Bits
namespace Graphiq

/-- Gaussian rational `re + i·im` (core `Rat` is Mathlib's `ℚ`) -/
structure GQ where
  re : Rat
  im : Rat
  deriving DecidableEq, Repr, Inhabited

namespace GQ

def zero : GQ := ⟨0, 0⟩
def one : GQ := ⟨1, 0⟩
def I : GQ := ⟨0, 1⟩
def ofRat (q : Rat) : GQ := ⟨q, 0⟩
def ofInt (k : Int) : GQ := ⟨(k : Rat), 0⟩

def add (a b : GQ) : GQ := ⟨a.re + b.re, a.im + b.im⟩
def sub (a b : GQ) : GQ := ⟨a.re - b.re, a.im - b.im⟩
def neg (a : GQ) : GQ := ⟨-a.re, -a.im⟩
def mul (a b : GQ) : GQ := ⟨a.re * b.re - a.im * b.im, a.re * b.im + a.im * b.re⟩
def conj (a : GQ) : GQ := ⟨a.re, -a.im⟩
def smul (q : Rat) (a : GQ) : GQ := ⟨q * a.re, q * a.im⟩
/-- `|a|²` -/
def normSq (a : GQ) : Rat := a.re * a.re + a.im * a.im

instance : Zero GQ := ⟨zero⟩
instance : One GQ := ⟨one⟩
instance : Add GQ := ⟨add⟩
instance : Sub GQ := ⟨sub⟩
instance : Neg GQ := ⟨neg⟩
instance : Mul GQ := ⟨mul⟩

def isZero (a : GQ) : Bool := a.re == 0 && a.im == 0

/-- `re,im` with each part printed as `num/den` -/
def toStr (a : GQ) : String := s!"{a.re},{a.im}"

end GQ

/-- `f 0 + f 1 + … + f (n-1)` in ℚ[i] (Python accumulation order) -/
def gsum (n : Nat) (f : Nat → GQ) : GQ :=
  match n with
  | 0 => 0
  | k+1 => gsum k f + f k

/-- rational sum -/
def qsum (n : Nat) (f : Nat → Rat) : Rat :=
  match n with
  | 0 => 0
  | k+1 => qsum k f + f k

/-- sum over a list, left to right -/
def gsumL (l : List GQ) : GQ := l.foldl (· + ·) 0
def qsumL (l : List Rat) : Rat := l.foldl (· + ·) 0

/-- square matrix over ℚ[i]: explicit size, entries as a total function -/
structure Mat where
  n : Nat
  e : Nat → Nat → GQ

namespace Mat

def lookupG (a : Array (Array GQ)) (i j : Nat) : GQ := (a.getD i #[]).getD j 0

/-- tabulate (execution only; pointwise identity below `n`) -/
def norm (m : Mat) : Mat :=
  let a : Array (Array GQ) := Array.ofFn (n := m.n) fun i => Array.ofFn (n := m.n) fun j => m.e i j
  { n := m.n, e := lookupG a }

def ofRows (n : Nat) (a : Array (Array GQ)) : Mat := { n := n, e := lookupG a }

/-- entrywise equality below the size -/
def EqOn (a b : Mat) : Prop := a.n = b.n ∧ ∀ i j, i < a.n → j < a.n → a.e i j = b.e i j

def beq (a b : Mat) : Bool :=
  a.n == b.n && (List.range a.n).all fun i => (List.range a.n).all fun j => a.e i j == b.e i j

def zero (n : Nat) : Mat := ⟨n, fun _ _ => 0⟩
/-- `np.eye(n)` -/
def eye (n : Nat) : Mat := ⟨n, fun i j => if i = j then 1 else 0⟩
def add (a b : Mat) : Mat := ⟨a.n, fun i j => a.e i j + b.e i j⟩
def sub (a b : Mat) : Mat := ⟨a.n, fun i j => a.e i j - b.e i j⟩
def smul (q : Rat) (a : Mat) : Mat := ⟨a.n, fun i j => GQ.smul q (a.e i j)⟩
def gsmul (c : GQ) (a : Mat) : Mat := ⟨a.n, fun i j => c * a.e i j⟩

/-- dot product `Σ_k f k * g k` that skips the terms with a zero factor (execution speed: the gate
    matrices are sparse).  `Proofs/DMSem.lean: dot_eq_gsum` shows it is the plain sum. -/
def dot (n : Nat) (f g : Nat → GQ) : GQ :=
  match n with
  | 0 => 0
  | k+1 => if (f k).isZero || (g k).isZero then dot k f g else dot k f g + f k * g k

/-- matrix product `a @ b` -/
def mul (a b : Mat) : Mat := ⟨a.n, fun i j => dot a.n (fun k => a.e i k) (fun k => b.e k j)⟩

/-- conjugate transpose (`np.transpose(np.conjugate(m))`, `dagger`) -/
def dagger (a : Mat) : Mat := ⟨a.n, fun i j => (a.e j i).conj⟩
def transpose (a : Mat) : Mat := ⟨a.n, fun i j => a.e j i⟩

/-- `np.trace` -/
def trace (a : Mat) : GQ := gsum a.n fun i => a.e i i

/-- `np.kron(a, b)` -/
def kron (a b : Mat) : Mat :=
  ⟨a.n * b.n, fun i j => a.e (i / b.n) (j / b.n) * b.e (i % b.n) (j % b.n)⟩

/-- `hermitianize`: `(m + m†)/2` -/
def hermitianize (a : Mat) : Mat := smul (1/2) (add a a.dagger)

/-- `u @ rho @ u†` -/
def conjBy (u rho : Mat) : Mat := (mul (mul u rho).norm u.dagger)

def isHermitian (a : Mat) : Bool :=
  (List.range a.n).all fun i => (List.range a.n).all fun j => a.e i j == (a.e j i).conj

/-- entries row-major as `re,im;re,im;…` -/
def toStr (a : Mat) : String :=
  String.intercalate ";" ((List.range a.n).flatMap fun i => (List.range a.n).map fun j => (a.e i j).toStr)

end Mat

/-! ### the constant 2×2 matrices of functions.py -/
namespace Mat
def m2 (a b c d : GQ) : Mat := ⟨2, fun i j => if i = 0 then (if j = 0 then a else b) else (if j = 0 then c else d)⟩
/-- `identity()` -/ def id2 : Mat := m2 1 0 0 1
/-- `sigmax()` -/ def sigmax : Mat := m2 0 1 1 0
/-- `sigmay()` -/ def sigmay : Mat := m2 0 (GQ.neg GQ.I) GQ.I 0
/-- `sigmaz()` -/ def sigmaz : Mat := m2 1 0 0 (GQ.neg 1)
/-- `phase()` -/ def phase : Mat := m2 1 0 0 GQ.I
/-- `phase_dag()` -/ def phaseDag : Mat := m2 1 0 0 (GQ.neg GQ.I)
/-- `projector_ketz0()` -/ def proj0 : Mat := m2 1 0 0 0
/-- `projector_ketz1()` -/ def proj1 : Mat := m2 0 0 0 1
/-- `√2 · hadamard()`: the Hadamard matrix is not in ℚ[i]; conjugation `H ρ H†` is modelled as `½ · H₂ ρ H₂†` -/
def had2 : Mat := m2 1 1 1 (GQ.neg 1)
end Mat

end Graphiq
