/-
  OverlapSpec.lean — brute-force *executable specification* of the group-level stabilizer overlap (small n only).
  Not a model of graphiq code: it enumerates the two signed groups (all `2^n` subset products of each generating set) and
  * `orthB`       : looks for a pair `P ∈ A`, `−P ∈ B`                  (proved: `orthB ↔ Orth`, Proofs/InnerProductExec.lean),
  * `commonCount` : counts the subsets of `A`'s rows whose product lies in `B`   (proved: the membership test is exact;
                    for independent generators the count is `|A ∩ B| = 2^dim(A ∩ B)`).
  The driver command `stab.overlap` evaluates both; the C05 harness compares them with the real `fidelity` (n ≤ 3).
  No Mathlib.
-/
import GraphiqModel.Model.StabTableau
namespace Graphiq
namespace STab

/-- ordered product `row (m-1) · (… · (row 0 · 1))` of the rows `i < m` whose bit is set in `mask` -/
def mprod (n : Nat) (row : Nat → PRow) (mask : Nat) : Nat → PRow
  | 0 => PRow.one
  | m + 1 => bif mask.testBit m then PRow.mul n (row m) (mprod n row mask m) else mprod n row mask m

/-- some `P` in the group of `a` has `−P` in the group of `b` (both on `a.n` sites) -/
def orthB (a b : STab) : Bool :=
  (List.range (2 ^ a.n)).any fun ma => (List.range (2 ^ a.n)).any fun mb =>
    PRow.beqOn a.n (mprod a.n a.row ma a.n) { (mprod a.n b.row mb a.n) with r := !(mprod a.n b.row mb a.n).r }

/-- the subset product `ma` of `a`'s rows lies in the group of `b` -/
def commonB (a b : STab) (ma : Nat) : Bool :=
  (List.range (2 ^ a.n)).any fun mb => PRow.beqOn a.n (mprod a.n a.row ma a.n) (mprod a.n b.row mb a.n)

/-- number of subsets of `a`'s rows whose product lies in the group of `b` -/
def commonCount (a b : STab) : Nat := ((List.range (2 ^ a.n)).filter (commonB a b)).length

end STab
end Graphiq
