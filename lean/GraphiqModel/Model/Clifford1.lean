/-
  Clifford1.lean — model of the single-qubit Clifford library of `graphiq/circuit/ops.py`:
  `local_clifford_composition`, `one_qubit_cliffords`, `local_clifford_to_matrix_map`, `find_local_clifford_by_matrix`,
  `simplify_local_clifford`, over exact Gaussian integers (the Hadamard is scaled by √2, equality is up to a scalar).
-/
import GraphiqModel.Model.Bits
namespace Graphiq.Cliff

/-- Gaussian integer -/
structure GI where
  re : Int
  im : Int
  deriving DecidableEq, Repr, Inhabited

instance : Add GI := ⟨fun a b => ⟨a.re + b.re, a.im + b.im⟩⟩
instance : Mul GI := ⟨fun a b => ⟨a.re * b.re - a.im * b.im, a.re * b.im + a.im * b.re⟩⟩
instance : OfNat GI n := ⟨⟨n, 0⟩⟩

/-- 2×2 matrix, row-major -/
structure M2 where
  a : GI
  b : GI
  c : GI
  d : GI
  deriving DecidableEq, Repr, Inhabited

def M2.mul (m n : M2) : M2 :=
  ⟨m.a * n.a + m.b * n.c, m.a * n.b + m.b * n.d, m.c * n.a + m.d * n.c, m.c * n.b + m.d * n.d⟩

def M2.smul (k : GI) (m : M2) : M2 := ⟨k * m.a, k * m.b, k * m.c, k * m.d⟩

def M2.entries (m : M2) : List GI := [m.a, m.b, m.c, m.d]

/-- equality up to a scalar by cross-multiplication (all 2×2 minors of the 2×4 matrix `[m; n]` vanish) — the exact counterpart
    of `check_equivalent_unitaries` for (scaled) unitaries -/
def M2.peq (m n : M2) : Bool :=
  let e := m.entries
  let f := n.entries
  (List.range 4).all fun i => (List.range 4).all fun j => e[i]! * f[j]! == e[j]! * f[i]!

/-- the six elementary gates the library composes -/
inductive Gen where
  | I | H | P | X | Y | Z
  deriving DecidableEq, Repr, Inhabited

def Gen.name : Gen → String
  | .I => "Identity" | .H => "Hadamard" | .P => "Phase" | .X => "SigmaX" | .Y => "SigmaY" | .Z => "SigmaZ"

def Gen.ofName : String → Option Gen
  | "Identity" => some .I | "Hadamard" => some .H | "Phase" => some .P
  | "SigmaX" => some .X | "SigmaY" => some .Y | "SigmaZ" => some .Z | _ => none

def Gen.all : List Gen := [.I, .H, .P, .X, .Y, .Z]

/-- `local_clifford_to_matrix_map` for a single gate (Hadamard times √2) -/
def gmat : Gen → M2
  | .I => ⟨1, 0, 0, 1⟩
  | .H => ⟨1, 1, 1, ⟨-1, 0⟩⟩
  | .P => ⟨1, 0, 0, ⟨0, 1⟩⟩
  | .X => ⟨0, 1, 1, 0⟩
  | .Y => ⟨0, ⟨0, -1⟩, ⟨0, 1⟩, 0⟩
  | .Z => ⟨1, 0, 0, ⟨-1, 0⟩⟩

def I2 : M2 := ⟨1, 0, 0, 1⟩

/-- `local_clifford_to_matrix_map(list)`: `result = result @ mapping[op]` in list order (so the last listed gate acts first) -/
def prodW (w : List Gen) : M2 := w.foldl (fun acc g => acc.mul (gmat g)) I2

/-- `local_clifford_composition()` -/
def compA : List (List Gen) := [[.I], [.H, .P, .H, .P], [.H, .P], [.H], [.P, .H, .P], [.P]]
def compB : List (List Gen) := [[.I], [.X], [.Y], [.Z]]

/-- `one_qubit_cliffords()`: `a + b` for `(a, b)` in `itertools.product(A, B)` -/
def all24 : List (List Gen) := compA.flatMap fun a => compB.map fun b => a ++ b

/-- `find_local_clifford_by_matrix`: the first `op1 + op2` whose product equals the matrix up to a scalar; `none` = ValueError -/
def find (m : M2) : Option (List Gen) := all24.find? fun w => (prodW w).peq m

/-- `simplify_local_clifford(gate_list)` -/
def simplify (w : List Gen) : Option (List Gen) := find (prodW w)

end Graphiq.Cliff
