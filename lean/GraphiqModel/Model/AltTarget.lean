/-
  AltTarget.lean — model of the result assembly of `AlternateTargetSolver.solve`
  (`graphiq/solvers/alternate_target_solver.py`): the nested loops over relabelled targets and their LC graphs, and the
  removal of entries that list the same graph (`set_list` / `redundant_indices`).

  Everything the loops call is a PARAMETER of the model: the isomorph finder (`iso_finder`, modelled in GraphOps / C16), the
  LC-orbit explorers (GraphOps / C16), `get_relabel_map` (networkx `GraphMatcher`), the time-reversed solver (`graph_to_circ`,
  C02), the LC conversion gates (`lc_check` + `str_to_op`, C09), and the iteration order of a Python `set` of ints
  (`list(s)[0]`, the entry of a class that survives — NOT always the smallest index: `list({1, 8}) == [8, 1]`).
  No Mathlib.
-/
import GraphiqModel.Model.GraphOps
import GraphiqModel.Model.Check
namespace Graphiq
namespace Alt

/-! ### duplicate removal -/

section dedup
variable {κ : Type} [DecidableEq κ]

/-- `s = {i}; for j in range(i + 1, len(adj_list)): if np.array_equal(adj_list[i], adj_list[j]): s.add(j)`
    (as the ascending list of its members) -/
def classOf (keys : List κ) (i : Nat) : List Nat :=
  i :: (List.range keys.length).filter fun j => decide (i < j) && decide (keys[j]? = keys[i]?)

/-- one round of `for i in range(len(adj_list))`: skip `i` when some earlier class contains it -/
def setListStep (keys : List κ) (sl : List (List Nat)) (i : Nat) : List (List Nat) :=
  if sl.any (fun s => s.contains i) then sl else sl ++ [classOf keys i]

/-- `set_list` -/
def setList (keys : List κ) : List (List Nat) := (List.range keys.length).foldl (setListStep keys) []

/-- insertion sort (`redundant_indices.sort()`) -/
def sortAsc (l : List Nat) : List Nat := l.foldr insertSorted []

/-- `redundant_indices = [index for s in set_list for index in list(s)[1:]]`, sorted: every member of a class except the one the
    set's iteration yields first, `pick s = list(s)[0]` -/
def redundantIndices (pick : List Nat → Nat) (keys : List κ) : List Nat :=
  sortAsc ((setList keys).flatMap fun s => s.erase (pick s))

/-- `for index in redundant_indices[::-1]: del results_list[index]` -/
def delDescending {α : Type} (entries : List α) (idxs : List Nat) : List α :=
  idxs.reverse.foldl (fun acc i => acc.eraseIdx i) entries

/-- the duplicate removal of `solve`: `keys[i]` is the adjacency matrix listed by `entries[i]` -/
def dedup {α : Type} (pick : List Nat → Nat) (keys : List κ) (entries : List α) : List α :=
  delDescending entries (redundantIndices pick keys)

end dedup

/-! ### relabelling maps -/

/-- adjacency of the target with vertex `u` renamed to `perm[u]`: edge `(a, b)` iff some edge `(u, v)` has `perm u = a`, `perm v = b`
    (what "the target graph with its vertices renamed by the map" means; for a permutation it is `relabel(adj, perm)`) -/
def relabelAdj (n : Nat) (adj : Nat → Nat → Bool) (perm : List Nat) : Nat → Nat → Bool :=
  fun a b => (List.range n).any fun u => (List.range n).any fun v =>
    perm.getD u n == a && perm.getD v n == b && adj u v

/-- the composite label list: first `p`, then `q` (`u ↦ q[p[u]]`) -/
def compLabels (n : Nat) (p q : List Nat) : List Nat := (List.range n).map fun u => q.getD (p.getD u n) n

/-! ### the outer loops -/

/-- one result entry `(circuit, {"g": lc_graph, "map": rmap})`; `src` records which (isomorph, LC graph) pair produced it -/
structure Entry where
  ne : Nat
  ops : List COp
  g : BMat
  map : List Nat
  src : Nat × Nat

/-- the functions `solve` calls, as parameters -/
structure Parts where
  /-- `iso_finder(adj_matrix, n_iso, …)`: the relabelled targets, the target first -/
  isoAdjs : List BMat
  /-- the LC-orbit explorer selected by `lc_method`, already cut to `n_lc` graphs -/
  lcGraphs : BMat → List BMat
  /-- `get_relabel_map(target_graph, iso_graph)` as a label list (vertex `u` ↦ `map[u]`) -/
  relabelMap : BMat → List Nat
  /-- `graph_to_circ(lc_graph)`: the time-reversed solver, `none` = it raised -/
  solver : BMat → Option (Nat × List COp)
  /-- `lc_check(lc_graph, iso_graph)` + `str_to_op`: the conversion gates appended on the photons, `none` = "LC conversion failed" -/
  conv : BMat → BMat → Option (List COp)

/-- the body of `for lc_graph in lc_graphs` -/
def lcEntry (P : Parts) (iso : BMat) (rmap : List Nat) (i k : Nat) (lc : BMat) : Except Err Entry :=
  match P.solver lc with
  | none => .error .runtime
  | some (ne, ops) =>
    match P.conv lc iso with
    | none => .error .warning
    | some gates =>
      -- `if not lc_graph.adj == iso_graph.adj: conversion_ops = str_to_op(conversion_gates) else: []`
      .ok { ne := ne, ops := if lc.beq iso then ops else ops ++ gates, g := lc, map := rmap, src := (i, k) }

/-- `for lc_graph in lc_graphs:` for one relabelled target (an exception anywhere aborts the whole `solve`) -/
def lcLoop (P : Parts) (iso : BMat) (rmap : List Nat) (i : Nat) : List BMat → Nat → List Entry → Except Err (List Entry)
  | [], _, acc => .ok acc
  | lc :: rest, k, acc =>
    match lcEntry P iso rmap i k lc with
    | .error e => .error e
    | .ok en => lcLoop P iso rmap i rest (k + 1) (acc ++ [en])

/-- `for iso_graph in iso_graphs:` -/
def isoLoop (P : Parts) : List BMat → Nat → List Entry → Except Err (List Entry)
  | [], _, acc => .ok acc
  | iso :: rest, i, acc =>
    match lcLoop P iso (P.relabelMap iso) i (P.lcGraphs iso) 0 acc with
    | .error e => .error e
    | .ok acc' => isoLoop P rest (i + 1) acc'

/-- `results_list` before the duplicate removal -/
def allEntries (P : Parts) : Except Err (List Entry) := isoLoop P P.isoAdjs 0 []

/-- `AlternateTargetSolver.solve()` (noise-free path): all entries, then the duplicate removal keyed by the listed graph -/
def solve (P : Parts) (pick : List Nat → Nat) : Except Err (List Entry) :=
  match allEntries P with
  | .error e => .error e
  | .ok es => .ok (dedup pick (es.map fun e => e.g.flat) es)

end Alt
end Graphiq
