/-
  Compare.lean — executable model of graphiq/utils/circuit_comparison.py (C15), no Mathlib.

  Mirrors, function by function:
    circuit_dag.py          the part of `CircuitDAG` the comparison code touches: `__init__`, `add`/`_add`,
                            `insert_at`/`_insert_at`, `remove_op`/`_remove_node`, `unwrap_nodes`, `remove_identity`
                            as operations on a *multigraph with ordered edges* (`MG`): nodes in creation order, keyed
                            edges in insertion order (what `dag[u][v]` iterates over), `node_dict["Input"]`,
                            `node_dict["OneQubitGateWrapper"]`, `node_dict["Identity"]` orders
    circuit_comparison.py   `direct`, `add_control_target_to_dag`, `_create_edge_control_target_attr`,
                            `circuit_is_isomorphic` (`node_match`, `edge_match` as coded: multiset of roles of the
                            parallel edges, no role for classically controlled operations), `remove_redundant_circuits`, `check_redundant_circuit`,
                            `CircuitStorage`
  `networkx.is_isomorphic` is a library with the recorded specification "decides whether a node bijection exists that
  preserves edge multiplicities and satisfies node_match / edge_match"; `isoCheck` is that specification as a checker
  of a given bijection, `isoSearch` a backtracking search that is only ever *used through* `isoCheck`.

  Besides the code's own notions the file defines the reference notion the property speaks about:
  `renEq` — some renaming of registers within each type makes the two circuits the same wire by wire.
-/
import GraphiqModel.Model.Export
namespace Graphiq.Compare
open Graphiq Graphiq.Export

/-! ## the multigraph -/

inductive RT | e | p | c
  deriving DecidableEq, Repr, Inhabited

def RT.ofRegT : RegT → RT
  | .e => .e | .p => .p

def RT.ch : RT → Char
  | .e => 'e' | .p => 'p' | .c => 'c'

/-- a register of any type = a wire = an edge key (`"e0"`, `"c1"`) -/
structure Wire where
  t : RT
  i : Nat
  deriving DecidableEq, Repr, Inhabited

def Wire.ofQ (q : QReg) : Wire := ⟨RT.ofRegT q.t, q.i⟩

inductive Nd
  | inp (w : Wire)
  | out (w : Wire)
  | op (id : Nat)
  deriving DecidableEq, Repr, Inhabited

/-- the `op` attribute of a node -/
inductive NOp
  | input (w : Wire)
  | output (w : Wire)
  | gate (o : Op)
  deriving DecidableEq, Repr, Inhabited

structure Edge where
  src : Nd
  dst : Nd
  key : Wire
  /-- `control_target` attribute: `some 'c'`, `some 't'` or `none` (also `none` before `add_control_target_to_dag`) -/
  ct : Option Char := none
  /-- `control_target` attribute of the *repaired* `add_control_target_to_dag` (handoff/repairs/d22): the pair
      (role of the register at the operation the edge leaves, role at the operation it enters) -/
  ct2 : Option Char × Option Char := (none, none)
  deriving DecidableEq, Repr, Inhabited

structure MG where
  /-- nodes with their operation, in creation order -/
  nodes : List (Nd × NOp) := []
  /-- edges in insertion order; removing deletes, adding appends (so the order of the keys of `dag[u][v]` is the order
      of the (u,v)-edges in this list) -/
  edges : List Edge := []
  nodeId : Nat := 0
  ne : Nat := 0
  np : Nat := 0
  nc : Nat := 0
  deriving Repr, Inhabited

def MG.opOf (g : MG) (n : Nd) : Option NOp := (g.nodes.find? (fun p => p.1 == n)).map (·.2)

def MG.nOf (g : MG) : RT → Nat
  | .e => g.ne | .p => g.np | .c => g.nc

def MG.setN (g : MG) (t : RT) (n : Nat) : MG :=
  match t with
  | .e => { g with ne := n } | .p => { g with np := n } | .c => { g with nc := n }

def MG.hasNode (g : MG) (n : Nd) : Bool := g.nodes.any (fun p => p.1 == n)

/-- `_add_reg_if_absent` -/
def MG.addRegIfAbsent (g : MG) (w : Wire) : Except Err MG :=
  let n := g.nOf w.t
  if w.i > n then .error .value else
  let g := if w.i = n then g.setN w.t (n + 1) else g
  if g.hasNode (.inp w) then .ok g else
  .ok { g with nodes := g.nodes ++ [(.inp w, .input w), (.out w, .output w)],
               edges := g.edges ++ [{ src := .inp w, dst := .out w, key := w }] }

/-- `CircuitDAG.__init__(n_emitter, n_photon, n_classical)` -/
def MG.init (ne np nc : Nat) : MG :=
  let addAll (g : MG) (t : RT) (n : Nat) : MG :=
    (List.range n).foldl (fun g i => match g.addRegIfAbsent ⟨t, i⟩ with | .ok g' => g' | .error _ => g) g
  addAll (addAll (addAll {} .e ne) .p np) .c nc

def opWires (o : Op) : List Wire := o.qRegs.map Wire.ofQ ++ o.cRegs.map fun i => ⟨.c, i⟩

/-- the unique edge into a node on a wire -/
def MG.inEdge (g : MG) (n : Nd) (k : Wire) : Option Edge := g.edges.find? (fun e => e.dst == n && e.key == k)
def MG.outEdge (g : MG) (n : Nd) (k : Wire) : Option Edge := g.edges.find? (fun e => e.src == n && e.key == k)

def MG.removeEdge (g : MG) (e : Edge) : MG :=
  { g with edges := g.edges.filter (fun x => !(x.src == e.src && x.dst == e.dst && x.key == e.key)) }

/-- put a new node on an edge: `_add_edge(u, new); _add_edge(new, v); _remove_edge(old)` -/
def MG.splice (g : MG) (e : Edge) (n : Nd) : MG :=
  let e1 : Edge := { src := e.src, dst := n, key := e.key }
  let e2 : Edge := { src := n, dst := e.dst, key := e.key }
  MG.removeEdge { g with edges := g.edges ++ [e1, e2] } e

/-- `CircuitDAG.add` = register bookkeeping + `_add` -/
def MG.add (g : MG) (o : Op) : Except Err MG := do
  let g ← (o.cRegs.map fun i => (⟨.c, i⟩ : Wire)).foldlM MG.addRegIfAbsent g
  let g ← ((sortQ o.qRegs).map Wire.ofQ).foldlM MG.addRegIfAbsent g
  let id := g.nodeId + 1
  let g : MG := { g with nodeId := id, nodes := g.nodes ++ [(Nd.op id, NOp.gate o)] }
  -- relevant_outputs: quantum registers in the operation's order, then classical registers
  return (opWires o).foldl (fun g w =>
    match g.inEdge (.out w) w with
    | some e => g.splice e (.op id)
    | none => g) g

/-- `insert_at(op, [edge])` for a one-register operation on a given edge -/
def MG.insertAt (g : MG) (o : Op) (e : Edge) : MG :=
  let id := g.nodeId + 1
  let g : MG := { g with nodeId := id, nodes := g.nodes ++ [(Nd.op id, NOp.gate o)] }
  g.splice e (.op id)

/-- `remove_op(node)` for a node with one in-edge and one out-edge per key -/
def MG.removeOp (g : MG) (n : Nd) : MG :=
  let ins := g.edges.filter (fun e => e.dst == n)
  let outs := g.edges.filter (fun e => e.src == n)
  let g := ins.foldl (fun g ie =>
    let g := outs.foldl (fun g oe =>
      if ie.key == oe.key then
        let ne : Edge := { src := ie.src, dst := oe.dst, key := oe.key }
        { g with edges := g.edges ++ [ne] }
      else g) g
    g.removeEdge ie) g
  let g := outs.foldl (fun g oe => g.removeEdge oe) g
  { g with nodes := g.nodes.filter (fun p => p.1 != n) }

/-- the circuit built by adding the operations in order -/
def MG.build (c : Circuit) : Except Err MG := c.ops.foldlM MG.add (MG.init c.ne c.np c.nc)

def isWrapper : NOp → Bool
  | .gate (.wrap _ _) => true
  | _ => false

def isIdentityNode : NOp → Bool
  | .gate (.one .I _) => true
  | _ => false

/-- `unwrap_nodes`: for every wrapper node (creation order): insert the unwrapped operations, in application order,
    on the wrapper's in-edge, then remove the wrapper -/
def MG.unwrapNodes (g : MG) : MG :=
  (g.nodes.filter (fun p => isWrapper p.2)).foldl (fun g p =>
    match p.2 with
    | .gate (.wrap gs q) =>
      let g := (Op.unwrap (.wrap gs q)).foldl (fun g o =>
        match g.inEdge p.1 (Wire.ofQ q) with
        | some e => g.insertAt o e
        | none => g) g
      g.removeOp p.1
    | _ => g) g

/-- `remove_identity` -/
def MG.removeIdentity (g : MG) : MG :=
  (g.nodes.filter (fun p => isIdentityNode p.2)).foldl (fun g p => g.removeOp p.1) g

/-- copy; `unwrap_nodes()`; `remove_identity()` -/
def MG.normalise (g : MG) : MG := g.unwrapNodes.removeIdentity

def MG.inputs (g : MG) : List Wire := g.nodes.filterMap fun p => match p.1 with | .inp w => some w | _ => none

/-! ## `direct` -/

def nopQRegs : NOp → List QReg
  | .gate o => o.qRegs
  | .input w | .output w => match w.t with | .e => [⟨.e, w.i⟩] | .p => [⟨.p, w.i⟩] | .c => []

/-- `isinstance(op1, type(op2))` -/
def isInstance : NOp → NOp → Bool
  | .input _, .input _ => true
  | .output _, .output _ => true
  | .gate (.wrap _ _), .gate (.wrap _ _) => true
  | .gate a, .gate b =>
    match a.cls, b.cls with
    | some ka, some kb => isSubclass ka kb
    | _, _ => false
  | _, _ => false

/-- the comparison inside the loop of `direct` -/
def directMatch (a b : NOp) : Bool := isInstance a b && nopQRegs a == nopQRegs b

/-- the `while node1 != out_node` loop of `direct` on one register; `fuel` bounds the number of steps by the number of
    nodes (an `IndexError` would correspond to walking off circuit2's wire, which the Output comparison prevents) -/
def directWalk (g1 g2 : MG) (w : Wire) : Nat → Nd → Nd → Except Err Bool
  | 0, _, _ => .ok true
  | fuel + 1, n1, n2 =>
    if n1 == .out w then .ok true else
    match g1.outEdge n1 w, g2.outEdge n2 w with
    | none, _ => .error .index
    | _, none => .error .index
    | some e1, some e2 =>
      match g1.opOf e1.dst, g2.opOf e2.dst with
      | some o1, some o2 => if directMatch o1 o2 then directWalk g1 g2 w fuel e1.dst e2.dst else .ok false
      | _, _ => .error .key

/-- `direct(circuit1, circuit2)` -/
def direct (c1 c2 : Circuit) : Except Err Bool := do
  let g1 := (← MG.build c1).normalise
  let g2 := (← MG.build c2).normalise
  let nRegMatch := g1.ne == g2.ne && g1.np == g2.np && g1.nc == g2.nc
  let nNodesMatch := g1.nodes.length == g2.nodes.length
  if nRegMatch && nNodesMatch then
    g1.inputs.foldlM (fun (acc : Bool) w => do
      if !acc then return false
      directWalk g1 g2 w (g1.nodes.length + 1) (.inp w) (.inp w)) true
  else return false

/-! ## `direct` on operation lists (the form the theorems use; the driver checks on every input that it agrees with
       the walk over the multigraph above) -/

/-- `isinstance(op1, type(op2))` for two gate operations -/
def opClsMatch : Op → Op → Bool
  | .wrap _ _, .wrap _ _ => true
  | a, b =>
    match a.cls, b.cls with
    | some ka, some kb => isSubclass ka kb
    | _, _ => false

def opMatchL (a b : Op) : Bool := opClsMatch a b && a.qRegs == b.qRegs

/-- the wire walk: operation by operation, and both wires must end together (the final comparison is Output vs Output) -/
def walkL : List Op → List Op → Bool
  | [], [] => true
  | a :: as, b :: bs => opMatchL a b && walkL as bs
  | _, _ => false

def touches (w : Wire) (o : Op) : Bool := (opWires o).contains w

def allWires (c : Circuit) : List Wire :=
  (List.range c.ne).map (fun i => ⟨.e, i⟩) ++ (List.range c.np).map (fun i => ⟨.p, i⟩) ++ (List.range c.nc).map (fun i => ⟨.c, i⟩)

def directL (c1 c2 : Circuit) : Bool :=
  c1.ne == c2.ne && c1.np == c2.np && c1.nc == c2.nc && (flat c1.ops).length == (flat c2.ops).length &&
  (allWires c1).all fun w => walkL ((flat c1.ops).filter (touches w)) ((flat c2.ops).filter (touches w))

/-! ## `circuit_is_isomorphic` -/

/-- `_create_edge_control_target_attr(operation, reg_type, reg)` -/
def ctAttr (o : Option NOp) (w : Wire) : Option Char :=
  match o with
  | some (.gate (.ctrl _ c t)) =>
    if Wire.ofQ c == w then some 'c' else if Wire.ofQ t == w then some 't' else none
  | _ => none

def MG.setCt (g : MG) (src dst : Nd) (k : Wire) (v : Option Char) : MG :=
  { g with edges := g.edges.map fun e => if e.src == src && e.dst == dst && e.key == k then { e with ct := v } else e }

/-- the walk of `add_control_target_to_dag` along one register: every edge gets the role the register plays at the
    edge's *head*; the last edge (into the output node) gets the role at the last operation *before* it -/
def ctWalk (g : MG) (w : Wire) : Nat → Nd → Option NOp → MG
  | 0, _, _ => g
  | fuel + 1, node, lastOp =>
    match g.outEdge node w with
    | none => g
    | some e =>
      match e.dst with
      | .out _ => g.setCt node e.dst w (ctAttr lastOp w)
      | next =>
        let o := g.opOf next
        ctWalk (g.setCt node next w (ctAttr o w)) w fuel next o

/-- `add_control_target_to_dag(circuit)` -/
def MG.addControlTarget (g : MG) : MG :=
  g.inputs.foldl (fun g w => ctWalk g w (g.nodes.length + 1) (.inp w) (g.opOf (.inp w))) g

/-- `node_match(n1, n2)` of `circuit_is_isomorphic` -/
def nodeMatch (a b : NOp) : Bool :=
  match a, b with
  | .input w1, .input w2 => (w1.t == .c) == (w2.t == .c) && (w1.t == .c || w1.t == w2.t)
  | .output w1, .output w2 => (w1.t == .c) == (w2.t == .c) && (w1.t == .c || w1.t == w2.t)
  | .gate o1, .gate o2 =>
    match o1, o2 with
    | .wrap gs1 q1, .wrap gs2 q2 => q1.t == q2.t && gs1 == gs2
    | .wrap _ _, _ => false
    | _, .wrap _ _ => false
    | _, _ => o1.cls == o2.cls && o1.qRegs.map (·.t) == o2.qRegs.map (·.t)
  | _, _ => false

def MG.edgesBetween (g : MG) (u v : Nd) : List Edge := g.edges.filter (fun e => e.src == u && e.dst == v)

/-- rank of a `control_target` attribute under `str()` ordering: "None" < "c" < "t" (only the multiset matters) -/
def ctKey : Option Char → Nat
  | none => 0
  | some 'c' => 1
  | some _ => 2

def countCt (es : List Edge) (k : Nat) : Nat := (es.filter fun e => ctKey e.ct == k).length

/-- `edge_match(e1, e2)`: `sorted(str(d["control_target"]) for d in e.values())` of the two multi-edge dictionaries
    agree — i.e. the parallel edges carry the same multiset of attributes, whatever their insertion order -/
def edgeMatch (es1 es2 : List Edge) : Bool := (List.range 3).all fun k => countCt es1 k == countCt es2 k

def nodupNd : List Nd → Bool
  | [] => true
  | a :: rest => !rest.contains a && nodupNd rest

def applyMap (f : List (Nd × Nd)) (n : Nd) : Option Nd := (f.find? (fun p => p.1 == n)).map (·.2)

/-- is `f` an isomorphism in the sense `networkx.is_isomorphic(dag1, dag2, node_match, edge_match)` decides:
    a bijection between the node sets that preserves the number of parallel edges between every ordered pair and
    satisfies the coded node and edge predicates -/
def isoCheck (g1 g2 : MG) (f : List (Nd × Nd)) : Bool :=
  let ns1 := g1.nodes.map (·.1)
  let ns2 := g2.nodes.map (·.1)
  let img := ns1.map (applyMap f)
  ns1.length == ns2.length &&
  img.all Option.isSome &&
  nodupNd (img.filterMap id) &&
  (img.filterMap id).all (fun m => ns2.contains m) &&
  ns1.all (fun n => match applyMap f n with
    | some m => (match g1.opOf n, g2.opOf m with
      | some a, some b => nodeMatch a b
      | _, _ => false)
    | none => false) &&
  ns1.all (fun u => ns1.all fun v =>
    match applyMap f u, applyMap f v with
    | some u', some v' =>
      let es1 := g1.edgesBetween u v
      let es2 := g2.edgesBetween u' v'
      es1.length == es2.length && edgeMatch es1 es2
    | _, _ => false)

/-- consistency of a partial map extended by `(n, m)` with the pairs already chosen -/
def consistent (g1 g2 : MG) (f : List (Nd × Nd)) (n m : Nd) : Bool :=
  ((n, m) :: f).all fun q =>
    let a := g1.edgesBetween n q.1
    let b := g2.edgesBetween m q.2
    let a' := g1.edgesBetween q.1 n
    let b' := g2.edgesBetween q.2 m
    a.length == b.length && edgeMatch a b && a'.length == b'.length && edgeMatch a' b'

/-- backtracking search for an isomorphism (nodes of `g1` taken in the given order); returns every complete map found
    up to `limit` of them -/
def isoSearch (g1 g2 : MG) : List Nd → List (Nd × Nd) → List (List (Nd × Nd))
  | [], f => [f.reverse]
  | n :: rest, f =>
    match g1.opOf n with
    | none => []
    | some a =>
      (g2.nodes.filter (fun p => nodeMatch a p.2 && !(f.any fun q => q.2 == p.1) && consistent g1 g2 f n p.1)).flatMap
        fun p => isoSearch g1 g2 rest ((n, p.1) :: f)

/-- a search order in which every node comes after the nodes with an edge into it -/
def MG.topo (g : MG) : List Nd :=
  let rec go (fuel : Nat) (todo : List Nd) (done : List Nd) : List Nd :=
    match fuel with
    | 0 => done ++ todo
    | fuel + 1 =>
      match todo.find? (fun n => (g.edges.filter (fun e => e.dst == n)).all fun e => done.contains e.src) with
      | none => done ++ todo
      | some n => go fuel (todo.filter (· != n)) (done ++ [n])
  go (g.nodes.length + 1) (g.nodes.map (·.1)) []

/-- `is_isomorphic(circuit1.dag, circuit2.dag, node_match, edge_match)` after `add_control_target_to_dag` on both -/
def isoGraphs (g1 g2 : MG) : Bool :=
  let g1 := g1.addControlTarget
  let g2 := g2.addControlTarget
  g1.nodes.length == g2.nodes.length && g1.edges.length == g2.edges.length &&
  ((isoSearch g1 g2 g1.topo []).any (isoCheck g1 g2))

/-- `circuit_is_isomorphic(circuit1, circuit2)` (as called by `compare(method="is_isomorphic")`: no normalisation) -/
def circuitIsIsomorphic (c1 c2 : Circuit) : Except Err Bool := do
  return isoGraphs (← MG.build c1) (← MG.build c2)

/-! ## redundancy filters -/

/-- the comparison `remove_redundant_circuits` makes: both circuits copied, unwrapped, identities removed -/
def isoNormalised (c1 c2 : Circuit) : Except Err Bool := do
  return isoGraphs (← MG.build c1).normalise (← MG.build c2).normalise

/-- `remove_redundant_circuits(circuit_list)` with an arbitrary comparison (indices of the kept circuits) -/
def removeRedundantWith {α : Type} (eq : α → α → Bool) (l : List α) : List α :=
  l.foldl (fun kept x => if kept.any (fun k => eq k x) then kept else kept ++ [x]) []

def removeRedundant (l : List Circuit) : List Circuit :=
  removeRedundantWith (fun a b => match isoNormalised a b with | .ok r => r | .error _ => false) l

/-- `check_redundant_circuit` = `compare_circuits(copy1, copy2)` with the default method `direct` -/
def checkRedundant (c1 c2 : Circuit) : Except Err Bool := direct c1 c2

/-- `CircuitStorage.add_new_circuit` folded over a list: (stored list, flags "was added") -/
def storageAddAll {α : Type} (eq : α → α → Bool) (disable : Bool) (l : List α) : List α × List Bool :=
  l.foldl (fun (st : List α × List Bool) x =>
    if disable then (st.1 ++ [x], st.2 ++ [true])
    else if st.1.any (fun k => eq k x) then (st.1, st.2 ++ [false])
    else (st.1 ++ [x], st.2 ++ [true])) ([], [])

/-! ## the reference notion: equal up to a renaming of registers of the same type -/

/-- a renaming: for each register type a list `perm` with `perm[i]` = new index of register `i` -/
structure Renaming where
  e : List Nat
  p : List Nat
  c : List Nat
  deriving Repr, Inhabited

def Renaming.q (r : Renaming) (q : QReg) : QReg :=
  match q.t with
  | .e => ⟨.e, r.e.getD q.i q.i⟩
  | .p => ⟨.p, r.p.getD q.i q.i⟩

def Renaming.op (r : Renaming) : Op → Op
  | .one g q => .one g (r.q q)
  | .wrap gs q => .wrap gs (r.q q)
  | .ctrl g a b => .ctrl g (r.q a) (r.q b)
  | .cctrl g a b c => .cctrl g (r.q a) (r.q b) (r.c.getD c c)
  | .meas q c => .meas (r.q q) (r.c.getD c c)

/-- all insertions of `x` into a list -/
def insertions (x : Nat) : List Nat → List (List Nat)
  | [] => [[x]]
  | y :: ys => (x :: y :: ys) :: (insertions x ys).map (y :: ·)

/-- all permutations of a list -/
def perms : List Nat → List (List Nat)
  | [] => [[]]
  | x :: xs => (perms xs).flatMap (insertions x)

/-- all renamings of `ne` emitter, `np` photon and `nc` classical registers -/
def renamings (ne np nc : Nat) : List Renaming :=
  (perms (List.range ne)).flatMap fun e => (perms (List.range np)).flatMap fun p =>
    (perms (List.range nc)).map fun c => { e := e, p := p, c := c }

/-- forget which classical register an operation writes (the compiled quantum state does not depend on it) -/
def dropC : Op → Op
  | .cctrl g a b _ => .cctrl g a b 0
  | .meas q _ => .meas q 0
  | o => o

/-- the executed operations on quantum register `q` -/
def wireOf (q : QReg) (ops : List Op) : List Op := (flat ops).filter (fun o => o.qRegs.contains q)

/-- renaming `r` turns circuit `c1` into `c2`, quantum wire by quantum wire -/
def renEqBy (r : Renaming) (c1 c2 : Circuit) : Bool :=
  (qregsOf c2).all fun q =>
    ((flat c1.ops).map (fun o => dropC (r.op o))).filter (fun o => o.qRegs.contains q) == (wireOf q c2.ops).map dropC

/-- the two circuits are the same up to a renaming of registers within each type -/
def renEq (c1 c2 : Circuit) : Bool :=
  c1.ne == c2.ne && c1.np == c2.np && (renamings c1.ne c1.np 0).any fun r => renEqBy r c1 c2

/-- identical registers and identical executed operations on every quantum register (the conclusion of `direct`) -/
def wiresEq (c1 c2 : Circuit) : Bool :=
  c1.ne == c2.ne && c1.np == c2.np && c1.nc == c2.nc &&
  (qregsOf c1).all fun q => (wireOf q c1.ops).map dropC == (wireOf q c2.ops).map dropC

/-! ## the repaired `circuit_is_isomorphic` (handoff/repairs/d22/patch.diff)

  The repair changes `_create_edge_control_target_attr` (roles also at `ClassicalControlledPairOperationBase`, role `'m'`
  for the classical register an operation writes) and `add_control_target_to_dag` (every edge gets the pair
  (role at its tail, role at its head)); `node_match`, `edge_match` (sorted `str()` of the attributes of the parallel
  edges = their multiset) and everything downstream are untouched.  The functions above model the code as it stands in
  /repo; the functions below model the code after the patch.  The harness probes which of the two the implementation
  under test is and compares with that one. -/

/-- repaired `_create_edge_control_target_attr(operation, reg_type, reg)` -/
def role (o : Option NOp) (w : Wire) : Option Char :=
  match o with
  | some (.gate (.ctrl _ c t)) =>
    if Wire.ofQ c == w then some 'c' else if Wire.ofQ t == w then some 't' else none
  | some (.gate (.cctrl _ c t m)) =>
    if Wire.ofQ c == w then some 'c' else if Wire.ofQ t == w then some 't' else if w == ⟨.c, m⟩ then some 'm' else none
  | some (.gate (.meas _ m)) => if w == ⟨.c, m⟩ then some 'm' else none
  | _ => none

def MG.setCt2 (g : MG) (src dst : Nd) (k : Wire) (v : Option Char × Option Char) : MG :=
  { g with edges := g.edges.map fun e => if e.src == src && e.dst == dst && e.key == k then { e with ct2 := v } else e }

def Nd.isOut : Nd → Bool
  | .out _ => true
  | _ => false

/-- the `while node not in circuit.node_dict["Output"]` loop of the repaired `add_control_target_to_dag` on one register:
    `tail` is the role the register had at the operation just left (`None` at the input node) -/
def ctWalk2 (g : MG) (w : Wire) : Nat → Nd → Option Char → MG
  | 0, _, _ => g
  | fuel + 1, node, tail =>
    if node.isOut then g else
    match g.outEdge node w with
    | none => g
    | some e =>
      let head := role (g.opOf e.dst) w
      ctWalk2 (g.setCt2 node e.dst w (tail, head)) w fuel e.dst head

/-- repaired `add_control_target_to_dag(circuit)` -/
def MG.addControlTarget2 (g : MG) : MG :=
  g.inputs.foldl (fun g w => ctWalk2 g w (g.nodes.length + 1) (.inp w) none) g

/-- `edge_match(e1, e2)` on the repaired attributes: the (unchanged) code compares the sorted `str()` of the attributes of
    the parallel edges, i.e. their multisets (`str` is injective on pairs of roles) -/
def edgeMatch2 (es1 es2 : List Edge) : Bool :=
  let l1 := es1.map (·.ct2)
  let l2 := es2.map (·.ct2)
  (l1 ++ l2).all fun v => l1.count v == l2.count v

/-- `isoCheck` with the repaired edge attributes -/
def isoCheck2 (g1 g2 : MG) (f : List (Nd × Nd)) : Bool :=
  let ns1 := g1.nodes.map (·.1)
  let ns2 := g2.nodes.map (·.1)
  let img := ns1.map (applyMap f)
  ns1.length == ns2.length &&
  img.all Option.isSome &&
  nodupNd (img.filterMap id) &&
  (img.filterMap id).all (fun m => ns2.contains m) &&
  ns1.all (fun n => match applyMap f n with
    | some m => (match g1.opOf n, g2.opOf m with
      | some a, some b => nodeMatch a b
      | _, _ => false)
    | none => false) &&
  ns1.all (fun u => ns1.all fun v =>
    match applyMap f u, applyMap f v with
    | some u', some v' =>
      let es1 := g1.edgesBetween u v
      let es2 := g2.edgesBetween u' v'
      es1.length == es2.length && edgeMatch2 es1 es2
    | _, _ => false)

def consistent2 (g1 g2 : MG) (f : List (Nd × Nd)) (n m : Nd) : Bool :=
  ((n, m) :: f).all fun q =>
    let a := g1.edgesBetween n q.1
    let b := g2.edgesBetween m q.2
    let a' := g1.edgesBetween q.1 n
    let b' := g2.edgesBetween q.2 m
    a.length == b.length && edgeMatch2 a b && a'.length == b'.length && edgeMatch2 a' b'

def isoSearch2 (g1 g2 : MG) : List Nd → List (Nd × Nd) → List (List (Nd × Nd))
  | [], f => [f.reverse]
  | n :: rest, f =>
    match g1.opOf n with
    | none => []
    | some a =>
      (g2.nodes.filter (fun p => nodeMatch a p.2 && !(f.any fun q => q.2 == p.1) && consistent2 g1 g2 f n p.1)).flatMap
        fun p => isoSearch2 g1 g2 rest ((n, p.1) :: f)

/-- `is_isomorphic(circuit1.dag, circuit2.dag, node_match, edge_match)` after the repaired `add_control_target_to_dag` -/
def isoGraphs2 (g1 g2 : MG) : Bool :=
  let g1 := g1.addControlTarget2
  let g2 := g2.addControlTarget2
  g1.nodes.length == g2.nodes.length && g1.edges.length == g2.edges.length &&
  ((isoSearch2 g1 g2 g1.topo []).any (isoCheck2 g1 g2))

/-- repaired `circuit_is_isomorphic(circuit1, circuit2)` -/
def circuitIsIsomorphic2 (c1 c2 : Circuit) : Except Err Bool := do
  return isoGraphs2 (← MG.build c1) (← MG.build c2)

/-- the comparison `remove_redundant_circuits` makes, with the repaired matcher -/
def isoNormalised2 (c1 c2 : Circuit) : Except Err Bool := do
  return isoGraphs2 (← MG.build c1).normalise (← MG.build c2).normalise

/-- `remove_redundant_circuits` with the repaired matcher -/
def removeRedundant2 (l : List Circuit) : List Circuit :=
  removeRedundantWith (fun a b => match isoNormalised2 a b with | .ok r => r | .error _ => false) l

end Graphiq.Compare
