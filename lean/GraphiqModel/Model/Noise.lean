/-
  Noise.lean — model of noisy compilation (C06).

  * `placeOp`  : the noise-placement decision tree of `CompilerBase.compile` (graphiq/backends/compiler_base.py) together
                 with the two `_apply_additional_noise` helpers, as a function from one operation to its *action trace*;
  * `Mix.*`    : the additive noise models on a `MixedStabilizer` (graphiq/noise/noise_models.py,
                 graphiq/backends/stabilizer/state.py) — `DepolarizingNoise` with its `factor > 0` filter and
                 `MixedStabilizer.reduce()` exactly as coded (it pops while enumerating), `PauliError`, `PhotonLoss`;
                 `MixedStabilizer.apply_measurement`: `Mix.measure` (the joint measurement that repairs finding F2),
                 `Mix.measureOld` (per branch: graphiq before that repair), `Mix.measureDraw` (probabilistic setting, scripted draw);
  * `DMx.*`    : the same noise models and the gates of `DensityMatrixCompiler.compile_one_gate` on an exact density matrix;
  * `assignNoise`, `unwrap`, `identifyNoise` : noise map → per-operation noise
                 (graphiq/circuit/circuit_dag.py `_noisy_gates`, `_find_wrapped_noise`; ops.py `OneQubitGateWrapper.unwrap`;
                 graphiq/solvers/solver_base.py `_identify_noise`).

  Weights are exact rationals; the Python's are floats (the `> 0` filter and `np.isclose` sum check are modelled as exact
  comparisons, which agree with the floats for every strength the harness generates).
-/
import GraphiqModel.Model.DMSem
namespace Graphiq
namespace Noise
open DM

/-! ## 1. Operations and noise descriptions -/

inductive PauliK where
  | I | X | Y | Z
  | bad            -- any other string: `ValueError("Wrong description of a Pauli matrix.")`
  deriving DecidableEq, Repr

inductive NoiseM where
  | none                                   -- `NoNoise()`
  | depol (p : Rat) (after : Bool)         -- `DepolarizingNoise(p)`
  | pauli (k : PauliK) (after : Bool)      -- `PauliError(k)`
  | loss (r : Rat) (after : Bool)          -- `PhotonLoss(r)`
  | replace                                -- some `ReplacementNoiseBase` (only its placement is modelled)
  | other                                  -- a `NoiseBase` that is neither additive nor a replacement
  deriving DecidableEq, Repr

namespace NoiseM
/-- `isinstance(noise, nm.AdditionNoiseBase)` -/
def isAdditive : NoiseM → Bool
  | .none | .depol _ _ | .pauli _ _ | .loss _ _ => true
  | _ => false
def isNone : NoiseM → Bool
  | .none => true
  | _ => false
/-- `noise.noise_parameters["After gate"]` (`NoNoise` inherits the default `True`) -/
def after : NoiseM → Bool
  | .none => true
  | .depol _ a | .pauli _ a | .loss _ a => a
  | _ => true
/-- "strength" of an additive noise is zero (depolarizing probability 0, loss rate 0, Pauli error `I`) -/
def isZeroStrength : NoiseM → Bool
  | .none => true
  | .depol p _ => p == 0
  | .loss r _ => r == 0
  | .pauli k _ => k == .I
  | _ => false
end NoiseM

inductive RegT where
  | e | p | c
  deriving DecidableEq, Repr

inductive Kind where
  | input | output | identity | h | s | sdg | x | y | z
  | cnot | cz | ccnot | ccz | mcr | measZ
  | param            -- an operation class the stabilizer compiler does not accept (`RuntimeError`)
  deriving DecidableEq, Repr

namespace Kind
/-- `isinstance(op, ops.OneQubitOperationBase)` -/
def isOneQubit : Kind → Bool
  | .identity | .h | .s | .sdg | .x | .y | .z | .param => true
  | _ => false
/-- `isinstance(op, ops.ControlledPairOperationBase)` -/
def isCtrlPair : Kind → Bool
  | .cnot | .cz => true
  | _ => false
/-- `isinstance(op, ops.ClassicalControlledPairOperationBase)` -/
def isClassicalCtrl : Kind → Bool
  | .ccnot | .ccz | .mcr => true
  | _ => false
end Kind

/-- one operation of `circuit.sequence(unwrapped=True)` with its `op.noise` (two entries for a controlled pair) -/
structure COp where
  kind : Kind
  r1 : Nat := 0
  t1 : RegT := .e
  r2 : Nat := 0
  t2 : RegT := .e
  c : Nat := 0
  n0 : NoiseM := .none
  n1 : NoiseM := .none
  deriving Repr

inductive Backend where
  | dm | stab
  deriving DecidableEq, Repr

/-- `reg_to_index_func(n_photon)` -/
def qIndex (nPhoton : Nat) (reg : Nat) : RegT → Nat
  | .p => reg
  | .e => reg + nPhoton
  | .c => 0

/-! ## 2. The placement decision tree as a function to action traces -/

/-- one step the compiler takes for operation number `k`: run the gate, apply noise `side` (0 = control / only noise,
    1 = target) of the operation on qubit `q`, or run the replacement path -/
inductive Act where
  | gate (k : Nat)
  | noise (k : Nat) (side : Nat) (q : Nat) (nm : NoiseM)
  | replace (k : Nat)
  deriving DecidableEq, Repr

/-- `_apply_additional_noise(state, op, …)` with `op.noise = [a, b]` (resp. `a`): the noise `apply` calls it makes.
    `NoNoise.apply` does nothing and is not listed.  For an operation that is neither one-qubit nor a controlled pair
    the density-matrix compiler raises `ValueError`, the stabilizer compiler silently does nothing. -/
def addl (be : Backend) (np : Nat) (op : COp) (k : Nat) (a b : NoiseM) : Except Err (List Act) :=
  if op.kind.isOneQubit then
    .ok (if a.isNone then [] else [.noise k 0 (qIndex np op.r1 op.t1) a])
  else if op.kind.isCtrlPair then
    .ok ((if a.isNone then [] else [.noise k 0 (qIndex np op.r1 op.t1) a]) ++
         (if b.isNone then [] else [.noise k 1 (qIndex np op.r2 op.t2) b]))
  else
    match be with
    | .dm => .error .value
    | .stab => .ok []

/-- the body of the `for op in seq` loop of `CompilerBase.compile` for operation number `k` -/
def placeOp (noiseSim : Bool) (be : Backend) (np : Nat) (op : COp) (k : Nat) : Except Err (List Act) :=
  let isCtl := op.kind.isCtrlPair || op.kind.isClassicalCtrl
  let noNoise := if isCtl then (op.n0.isNone && op.n1.isNone) || !noiseSim else !noiseSim || op.n0.isNone
  if noNoise then .ok [.gate k]
  else if isCtl then
    if op.n0.isAdditive && op.n1.isAdditive then
      match op.n0.after, op.n1.after with
      | true, true => (addl be np op k op.n0 op.n1).map fun l => [.gate k] ++ l
      | false, false => (addl be np op k op.n0 op.n1).map fun l => l ++ [.gate k]
      | true, false =>
        match addl be np op k .none op.n1, addl be np op k op.n0 .none with
        | .ok l1, .ok l2 => .ok (l1 ++ [.gate k] ++ l2)
        | .error e, _ => .error e
        | _, .error e => .error e
      | false, true =>
        match addl be np op k op.n0 .none, addl be np op k .none op.n1 with
        | .ok l1, .ok l2 => .ok (l1 ++ [.gate k] ++ l2)
        | .error e, _ => .error e
        | _, .error e => .error e
    else .error .value
  else
    if op.n0.isAdditive then
      if op.n0.after then (addl be np op k op.n0 .none).map fun l => [.gate k] ++ l
      else (addl be np op k op.n0 .none).map fun l => l ++ [.gate k]
    else if op.n0 == .replace then .ok [.replace k]
    else .error .value

/-- the `for op in seq` loop, operation numbers starting at `k` -/
def traceGo (noiseSim : Bool) (be : Backend) (np : Nat) : List COp → Nat → Except Err (List Act)
  | [], _ => .ok []
  | op :: rest, k =>
    match placeOp noiseSim be np op k with
    | .ok a =>
      match traceGo noiseSim be np rest (k + 1) with
      | .ok b => .ok (a ++ b)
      | .error e => .error e
    | .error e => .error e

/-- trace of the whole `compile` loop (stops at the first exception, like the Python) -/
def compileTrace (noiseSim : Bool) (be : Backend) (np : Nat) (ops : List COp) : Except Err (List Act) :=
  traceGo noiseSim be np ops 0

/-! ## 3. Stabilizer mixtures -/

abbrev Mixture := List (Rat × Tab)

namespace Mix

/-- `CliffordTableau.__eq__`: same table, same phase, same iphase (all `2n` rows) -/
def tabEq (a b : Tab) : Bool :=
  a.n == b.n && (List.range (2 * a.n)).all fun i => PRow.beqOn a.n (a.row i) (b.row i)

def total (m : Mixture) : Rat := qsumL (m.map (·.1))

/-- the inner `for i, (p_i, t_i) in enumerate(mixture_temp)` loop of `reduce`, which pops from the list it is
    enumerating: after a pop at index `i` the iterator moves to `i+1`, skipping the element that slid into place `i` -/
def reduceScan (t0 : Tab) : Nat → Nat → Rat → Mixture → Rat × Mixture
  | 0, _, p0, l => (p0, l)
  | fuel+1, i, p0, l =>
    match l[i]? with
    | none => (p0, l)
    | some (pi, ti) =>
      if tabEq t0 ti then reduceScan t0 fuel (i + 1) (p0 + pi) (l.eraseIdx i)
      else reduceScan t0 fuel (i + 1) p0 l

/-- `MixedStabilizer.reduce()` as coded -/
def reduce : Nat → Mixture → Mixture
  | 0, _ => []
  | _, [] => []
  | fuel+1, (p0, t0) :: rest =>
    let (p0', rest') := reduceScan t0 rest.length 0 p0 rest
    (p0', t0) :: reduce fuel rest'

/-- the mixture every branch of which went through `f` -/
def mapTab (f : Tab → Tab) (m : Mixture) : Mixture := m.map fun (p, t) => (p, (f t).norm)

/-- one-qubit Pauli "transformations" of `DepolarizingNoise.apply`: `identity, x_gate, y_gate, z_gate` -/
def pauliGate (k : Nat) (t : Tab) (q : Nat) : Tab :=
  match k with
  | 0 => t
  | 1 => t.xGate q
  | 2 => t.yGate q
  | _ => t.zGate q

/-- `factors` of `DepolarizingNoise.apply` for one qubit -/
def depolFactors (p : Rat) : List Rat := [1 - p, p / 3, p / 3, p / 3]

/-- `DepolarizingNoise.apply` on a `MixedStabilizer`, `reg_list = [q]`: every branch is split into the Kraus terms whose
    *factor* is positive (a branch of weight 0 is kept, so a lost photon no longer empties the mixture) -/
def depolarize (p : Rat) (q : Nat) (m : Mixture) : Except Err Mixture :=
  let fs := depolFactors p
  let orig := total m
  let new : Mixture := m.flatMap fun (pi, ti) =>
    (List.range 4).filterMap fun k =>
      let f := fs.getD k 0
      if 0 < f then some (pi * f, (pauliGate k ti q).norm) else none
  if total new ≠ orig then .error .value                 -- `np.isclose(sum, original_prob)` fails
  else if new.isEmpty then .error .assertion             -- mixture setter: `len(set(n_qubits…)) == 1` (only for an empty input)
  else .ok (reduce new.length new)

def pauliError (k : PauliK) (q : Nat) (m : Mixture) : Except Err Mixture :=
  match k with
  | .X => .ok (mapTab (·.xGate q) m)
  | .Y => .ok (mapTab (·.yGate q) m)
  | .Z => .ok (mapTab (·.zGate q) m)
  | .I => .ok m
  | .bad => .error .value

/-- `PhotonLoss.apply` on a `MixedStabilizer` -/
def photonLoss (r : Rat) (m : Mixture) : Mixture := m.map fun (p, t) => ((1 - r) * p, t)

def applyNoise (nm : NoiseM) (q : Nat) (m : Mixture) : Except Err Mixture :=
  match nm with
  | .none => .ok m
  | .depol p _ => depolarize p q m
  | .pauli k _ => pauliError k q m
  | .loss r _ => .ok (photonLoss r m)
  | _ => .error .runtime

/-- `MixedStabilizer.apply_measurement` **before the repair of finding F2** (graphiq before the `fix:` commit that introduces the
    joint measurement): every branch is measured on its own (forced outcome `det` when random).  Kept for the historical
    theorems and for checking an unrepaired /repo. -/
def measureOld (q : Nat) (det : Bool) (m : Mixture) : Mixture × List Bool :=
  let res := m.map fun (p, t) => let (t', o, _) := t.zMeasure q det; ((p, t'.norm), o)
  (res.map (·.1), res.map (·.2))

/-- one branch of the candidate list `cand[o]` of the repaired `apply_measurement`: `z_measurement_gate(t_i.copy(), q, o)`;
    random in this branch (`x_p != 0`) → `(p_i / 2, t_o)`; deterministic with outcome `o` → `(p_i, t_o)`; otherwise nothing -/
def jointBranch (q : Nat) (o : Bool) (x : Rat × Tab) : Option (Rat × Tab) :=
  match x.2.pivot q with
  | some _ => some (x.1 / 2, (x.2.zMeasure q o).1.norm)
  | none => if (x.2.zMeasure q o).2.1 = o then some (x.1, (x.2.zMeasure q o).1.norm) else none

/-- `cand[o]`: every branch projected on the same outcome `o` -/
def measureJoint (q : Nat) (o : Bool) (m : Mixture) : Mixture := m.filterMap (jointBranch q o)

/-- `MixedStabilizer.apply_measurement` (repaired: joint measurement of `Σ_i p_i ρ(T_i)`), forced setting `det ∈ {0,1}`:
    `weight[o] = Σ cand[o]`, `total = weight[0] + weight[1]`; `det = 1`: outcome `0 if isclose(weight[1], 0) else 1`;
    `det = 0`: outcome `1 if isclose(weight[0], 0) else 0`; if `weight[outcome] > 0` the branches of `cand[outcome]` with
    weights `p * total / weight[outcome]`, else every branch measured with that outcome and weight `0.0 * p_i`; the outcome list
    is `[outcome] * len(mixture)`. -/
def measure (q : Nat) (det : Bool) (m : Mixture) : Mixture × List Bool :=
  let w0 := total (measureJoint q false m)
  let w1 := total (measureJoint q true m)
  let tot := w0 + w1
  let outcome : Bool := if det then !isclose0 w1 else isclose0 w0
  let wo := if outcome then w1 else w0
  let mix' : Mixture :=
    if 0 < wo then (measureJoint q outcome m).map fun x => (x.1 * tot / wo, x.2)
    else m.map fun x => (0 * x.1, (x.2.zMeasure q outcome).1.norm)
  (mix', List.replicate mix'.length outcome)

/-- the "probabilistic" setting of the repaired `apply_measurement`, the draw `u = np.random.random()` scripted:
    `outcome = int(u * total >= weight[0]) if total > 0 else 0` (same candidate lists and renormalisation) -/
def measureDraw (q : Nat) (u : Rat) (m : Mixture) : Mixture × List Bool :=
  let w0 := total (measureJoint q false m)
  let w1 := total (measureJoint q true m)
  let tot := w0 + w1
  let outcome : Bool := if 0 < tot then decide (w0 ≤ u * tot) else false
  let wo := if outcome then w1 else w0
  let mix' : Mixture :=
    if 0 < wo then (measureJoint q outcome m).map fun x => (x.1 * tot / wo, x.2)
    else m.map fun x => (0 * x.1, (x.2.zMeasure q outcome).1.norm)
  (mix', List.replicate mix'.length outcome)

/-- `apply_conditioned_gate` -/
def conditioned (f : Tab → Tab) (outs : List Bool) (m : Mixture) : Mixture :=
  (m.zip outs).map fun ((p, t), o) => if o then (p, (f t).norm) else (p, t)

end Mix

structure StabSt where
  mix : Mixture
  creg : List Nat
  /-- analysis flags (not part of the Python state): a measurement was executed (i) while the total weight was not 1,
      (ii) with branches that disagree on "random?" or on the outcome -/
  lossMeas : Bool := false
  nonUniform : Bool := false
  deriving Inhabited

/-- all branches of a measurement agree on randomness and outcome -/
def uniformMeas (q : Nat) (det : Bool) (m : Mixture) : Bool :=
  match m with
  | [] => true
  | (_, t0) :: rest =>
    let r0 := (t0.pivot q).isSome
    let o0 := (t0.zMeasure q det).2.1
    rest.all fun (_, t) => ((t.pivot q).isSome == r0) && ((t.zMeasure q det).2.1 == o0)

def setRec (r : List Nat) (c : Nat) (v : Nat) : List Nat := r.set c v

def stabMap1 (n q : Nat) (f : Tab → Tab) (s : StabSt) : Except Err StabSt :=
  if q < n then .ok { s with mix := Mix.mapTab f s.mix } else .error .assertion

def stabMap2 (n q1 q2 : Nat) (f : Tab → Tab) (s : StabSt) : Except Err StabSt :=
  if q1 < n ∧ q2 < n then .ok { s with mix := Mix.mapTab f s.mix } else .error .assertion

/-- measure `q1` in every branch, apply `f` to the branches whose outcome is 1, optionally reset `q1`, record `outcomes[0]` -/
def stabClassical (n q1 q2 c : Nat) (det : Bool) (f : Tab → Tab) (reset : Bool) (s : StabSt) : Except Err StabSt :=
  if q1 < n ∧ q2 < n then
    let mo := Mix.measure q1 det s.mix
    let m2 := Mix.conditioned f mo.2 mo.1
    let m3 := if reset then Mix.mapTab (fun t => t.resetZ q1 false det) m2 else m2
    .ok { mix := m3, creg := setRec s.creg c (if mo.2.headD false then 1 else 0)
          lossMeas := s.lossMeas || Mix.total s.mix != 1
          nonUniform := s.nonUniform || !uniformMeas q1 det s.mix }
  else .error .assertion

def stabMeasZ (n q1 c : Nat) (det : Bool) (s : StabSt) : Except Err StabSt :=
  if q1 < n then
    let mo := Mix.measure q1 det s.mix
    .ok { mix := mo.1, creg := setRec s.creg c (if mo.2.headD false then 1 else 0)
          lossMeas := s.lossMeas || Mix.total s.mix != 1
          nonUniform := s.nonUniform || !uniformMeas q1 det s.mix }
  else .error .assertion

/-- `StabilizerCompiler.compile_one_gate` on the mixture (a plain `Stabilizer` is the one-branch case) -/
def stabGate (np n : Nat) (det : Bool) (op : COp) (s : StabSt) : Except Err StabSt :=
  let q1 := qIndex np op.r1 op.t1
  let q2 := qIndex np op.r2 op.t2
  match op.kind with
  | .input | .output | .identity => .ok s
  | .h => stabMap1 n q1 (·.hGate q1) s
  | .s => stabMap1 n q1 (·.sGate q1) s
  | .sdg => stabMap1 n q1 (·.sdgGate q1) s
  | .x => stabMap1 n q1 (·.xGate q1) s
  | .y => stabMap1 n q1 (·.yGate q1) s
  | .z => stabMap1 n q1 (·.zGate q1) s
  | .cnot => stabMap2 n q1 q2 (·.cnotGate q1 q2) s
  | .cz => stabMap2 n q1 q2 (·.czGate q1 q2) s
  | .ccnot => stabClassical n q1 q2 op.c det (·.xGate q2) false s
  | .ccz => stabClassical n q1 q2 op.c det (·.zGate q2) false s
  | .mcr => stabClassical n q1 q2 op.c det (·.xGate q2) true s
  | .measZ => stabMeasZ n q1 op.c det s
  | .param => .error .runtime

def stabAct (np n : Nat) (det : Bool) (ops : Array COp) (s : StabSt) : Act → Except Err StabSt
  | .gate k => stabGate np n det (ops.getD k { kind := .identity }) s
  | .noise _ _ q nm => (Mix.applyNoise nm q s.mix).map fun m => { s with mix := m }
  | .replace _ => .error .runtime

/-! ### the same with the per-branch measurement of graphiq before the F2 repair (`…Old`) -/

/-- (before the F2 repair) measure `q1` in every branch, apply `f` to the branches whose outcome is 1, optionally reset `q1`, record `outcomes[0]` -/
def stabClassicalOld (n q1 q2 c : Nat) (det : Bool) (f : Tab → Tab) (reset : Bool) (s : StabSt) : Except Err StabSt :=
  if q1 < n ∧ q2 < n then
    let mo := Mix.measureOld q1 det s.mix
    let m2 := Mix.conditioned f mo.2 mo.1
    let m3 := if reset then Mix.mapTab (fun t => t.resetZ q1 false det) m2 else m2
    .ok { mix := m3, creg := setRec s.creg c (if mo.2.headD false then 1 else 0)
          lossMeas := s.lossMeas || Mix.total s.mix != 1
          nonUniform := s.nonUniform || !uniformMeas q1 det s.mix }
  else .error .assertion

def stabMeasZOld (n q1 c : Nat) (det : Bool) (s : StabSt) : Except Err StabSt :=
  if q1 < n then
    let mo := Mix.measureOld q1 det s.mix
    .ok { mix := mo.1, creg := setRec s.creg c (if mo.2.headD false then 1 else 0)
          lossMeas := s.lossMeas || Mix.total s.mix != 1
          nonUniform := s.nonUniform || !uniformMeas q1 det s.mix }
  else .error .assertion

/-- (before the F2 repair) `StabilizerCompiler.compile_one_gate` on the mixture (a plain `Stabilizer` is the one-branch case) -/
def stabGateOld (np n : Nat) (det : Bool) (op : COp) (s : StabSt) : Except Err StabSt :=
  let q1 := qIndex np op.r1 op.t1
  let q2 := qIndex np op.r2 op.t2
  match op.kind with
  | .input | .output | .identity => .ok s
  | .h => stabMap1 n q1 (·.hGate q1) s
  | .s => stabMap1 n q1 (·.sGate q1) s
  | .sdg => stabMap1 n q1 (·.sdgGate q1) s
  | .x => stabMap1 n q1 (·.xGate q1) s
  | .y => stabMap1 n q1 (·.yGate q1) s
  | .z => stabMap1 n q1 (·.zGate q1) s
  | .cnot => stabMap2 n q1 q2 (·.cnotGate q1 q2) s
  | .cz => stabMap2 n q1 q2 (·.czGate q1 q2) s
  | .ccnot => stabClassicalOld n q1 q2 op.c det (·.xGate q2) false s
  | .ccz => stabClassicalOld n q1 q2 op.c det (·.zGate q2) false s
  | .mcr => stabClassicalOld n q1 q2 op.c det (·.xGate q2) true s
  | .measZ => stabMeasZOld n q1 op.c det s
  | .param => .error .runtime

def stabActOld (np n : Nat) (det : Bool) (ops : Array COp) (s : StabSt) : Act → Except Err StabSt
  | .gate k => stabGateOld np n det (ops.getD k { kind := .identity }) s
  | .noise _ _ q nm => (Mix.applyNoise nm q s.mix).map fun m => { s with mix := m }
  | .replace _ => .error .runtime

/-! ## 4. Density matrices -/

namespace DMx

def pauliOf : Nat → Mat
  | 0 => Mat.id2
  | 1 => Mat.sigmax
  | 2 => Mat.sigmay
  | _ => Mat.sigmaz

/-- `DepolarizingNoise.apply` on a `DensityMatrix`, one register: Kraus operators `√factor_k · P_k` -/
def depolarize (n : Nat) (p : Rat) (q : Nat) (ρ : Mat) : Except Err Mat :=
  let fs := Mix.depolFactors p
  applyChannel ρ ((List.range 4).map fun k => ⟨fs.getD k 0, embed1 (pow2 q) (pow2 (n - q - 1)) (pauliOf k)⟩)

def pauliError (n : Nat) (k : PauliK) (q : Nat) (ρ : Mat) : Except Err Mat :=
  match k with
  | .X => applyUnitary ρ ⟨1, getOneQubitGate n q Mat.sigmax⟩
  | .Y => applyUnitary ρ ⟨1, getOneQubitGate n q Mat.sigmay⟩
  | .Z => applyUnitary ρ ⟨1, getOneQubitGate n q Mat.sigmaz⟩
  | .I => applyUnitary ρ ⟨1, Mat.eye (pow2 n)⟩
  | .bad => .error .value

def applyNoise (n : Nat) (nm : NoiseM) (q : Nat) (ρ : Mat) : Except Err Mat :=
  match nm with
  | .none => .ok ρ
  | .depol p _ => depolarize n p q ρ
  | .pauli k _ => pauliError n k q ρ
  | .loss r _ => .ok (Mat.smul (1 - r) ρ).norm
  | _ => .error .runtime

end DMx

/-- density-matrix state: `none` = the NaN matrix numpy produces when a state of trace 0 is "normalised" -/
structure DmSt where
  ρ : Option Mat
  creg : List Nat

def dmGate (np n : Nat) (det : Bool) (op : COp) (s : DmSt) : Except Err DmSt :=
  let q1 := qIndex np op.r1 op.t1
  let q2 := qIndex np op.r2 op.t2
  match s.ρ with
  | none => .ok s                                          -- NaN stays NaN under every numpy operation used
  | some ρ =>
    let uni (u : SMat) : Except Err DmSt := (applyUnitary ρ u).map fun r => { s with ρ := some r }
    let ctl (g : Mat) : Except Err DmSt :=
      match getTwoQubitControlledGate n q1 q2 g with
      | .ok u => uni ⟨1, u⟩
      | .error e => .error e
    let classical (g : Mat) (reset : Bool) : Except Err DmSt :=
      match projectorsZ n q1 with
      | .error e => .error e
      | .ok (p0, p1) =>
        match applyMeasurement ρ p0 p1 det with
        | .error e => .error e
        | .ok (none, o) => .ok { ρ := none, creg := setRec s.creg op.c (if o then 1 else 0) }
        | .ok (some ρ1, o) =>
          let afterGate : Except Err Mat := if o then applyUnitary ρ1 ⟨1, getOneQubitGate n q2 g⟩ else .ok ρ1
          match afterGate with
          | .error e => .error e
          | .ok ρ2 =>
            let fin : Except Err Mat := if reset then applyChannel ρ2 (resetKraus n q1) else .ok ρ2
            fin.map fun r => { ρ := some r, creg := setRec s.creg op.c (if o then 1 else 0) }
    match op.kind with
    | .input | .output | .identity => .ok s
    | .h => uni ⟨1/2, getOneQubitGate n q1 Mat.had2⟩
    | .s => uni ⟨1, getOneQubitGate n q1 Mat.phase⟩
    | .sdg => uni ⟨1, getOneQubitGate n q1 Mat.phaseDag⟩
    | .x => uni ⟨1, getOneQubitGate n q1 Mat.sigmax⟩
    | .y => uni ⟨1, getOneQubitGate n q1 Mat.sigmay⟩
    | .z => uni ⟨1, getOneQubitGate n q1 Mat.sigmaz⟩
    | .cnot => ctl Mat.sigmax
    | .cz => ctl Mat.sigmaz
    | .ccnot => classical Mat.sigmax false
    | .ccz => classical Mat.sigmaz false
    | .mcr => classical Mat.sigmax true
    | .measZ =>
      match projectorsZ n q1 with
      | .error e => .error e
      | .ok (p0, p1) =>
        (applyMeasurement ρ p0 p1 det).map fun (r, o) => { ρ := r, creg := setRec s.creg op.c (if o then 1 else 0) }
    | .param => .error .runtime

def dmAct (np n : Nat) (det : Bool) (ops : Array COp) (s : DmSt) : Act → Except Err DmSt
  | .gate k => dmGate np n det (ops.getD k { kind := .identity }) s
  | .noise _ _ q nm =>
    match s.ρ with
    | none => .ok s
    | some ρ => (DMx.applyNoise n nm q ρ).map fun r => { s with ρ := some r }
  | .replace _ => .error .runtime

/-! ## 5. `compile` -/

def runStabActs (np n : Nat) (det : Bool) (arr : Array COp) : List Act → StabSt → Except Err StabSt
  | [], s => .ok s
  | a :: as, s =>
    match stabAct np n det arr s a with
    | .ok s' => runStabActs np n det arr as s'
    | .error e => .error e

def stabGo (noiseSim : Bool) (np n : Nat) (det : Bool) (arr : Array COp) : List COp → Nat → StabSt → Except Err StabSt
  | [], _, s => .ok s
  | op :: rest, k, s =>
    if op.kind == .param then .error .runtime          -- `type(op) not in self.ops`
    else
      match placeOp noiseSim .stab np op k with
      | .error e => .error e
      | .ok acts =>
        match runStabActs np n det arr acts s with
        | .ok s' => stabGo noiseSim np n det arr rest (k + 1) s'
        | .error e => .error e

/-- `StabilizerCompiler.compile`: operation by operation, the placement tree decides the actions -/
def compileStab (noiseSim : Bool) (ne np nc : Nat) (det : Bool) (ops : List COp) : Except Err StabSt :=
  let n := ne + np
  stabGo noiseSim np n det ops.toArray ops 0 { mix := [(1, (Tab.ket0 n).norm)], creg := List.replicate nc 0 }

/-! ### the compile loop with the per-branch measurement of graphiq before the F2 repair -/

def runStabActsOld (np n : Nat) (det : Bool) (arr : Array COp) : List Act → StabSt → Except Err StabSt
  | [], s => .ok s
  | a :: as, s =>
    match stabActOld np n det arr s a with
    | .ok s' => runStabActsOld np n det arr as s'
    | .error e => .error e

def stabGoOld (noiseSim : Bool) (np n : Nat) (det : Bool) (arr : Array COp) : List COp → Nat → StabSt → Except Err StabSt
  | [], _, s => .ok s
  | op :: rest, k, s =>
    if op.kind == .param then .error .runtime          -- `type(op) not in self.ops`
    else
      match placeOp noiseSim .stab np op k with
      | .error e => .error e
      | .ok acts =>
        match runStabActsOld np n det arr acts s with
        | .ok s' => stabGoOld noiseSim np n det arr rest (k + 1) s'
        | .error e => .error e

/-- (before the F2 repair) `StabilizerCompiler.compile`: operation by operation, the placement tree decides the actions -/
def compileStabOld (noiseSim : Bool) (ne np nc : Nat) (det : Bool) (ops : List COp) : Except Err StabSt :=
  let n := ne + np
  stabGoOld noiseSim np n det ops.toArray ops 0 { mix := [(1, (Tab.ket0 n).norm)], creg := List.replicate nc 0 }

def runDmActs (np n : Nat) (det : Bool) (arr : Array COp) : List Act → DmSt → Except Err DmSt
  | [], s => .ok s
  | a :: as, s =>
    match dmAct np n det arr s a with
    | .ok s' => runDmActs np n det arr as s'
    | .error e => .error e

def dmGo (noiseSim : Bool) (np n : Nat) (det : Bool) (arr : Array COp) : List COp → Nat → DmSt → Except Err DmSt
  | [], _, s => .ok s
  | op :: rest, k, s =>
    match placeOp noiseSim .dm np op k with
    | .error e => .error e
    | .ok acts =>
      match runDmActs np n det arr acts s with
      | .ok s' => dmGo noiseSim np n det arr rest (k + 1) s'
      | .error e => .error e

def compileDM (noiseSim : Bool) (ne np nc : Nat) (det : Bool) (ops : List COp) : Except Err DmSt :=
  let n := ne + np
  let rho0 : Mat := ⟨pow2 n, fun i j => if i = 0 ∧ j = 0 then 1 else 0⟩
  dmGo noiseSim np n det ops.toArray ops 0 { ρ := some rho0.norm, creg := List.replicate nc 0 }

/-- `Σ_k p_k ρ(T_k)`: the density matrix a mixture stands for -/
def mixtureDensity (n : Nat) (m : Mixture) : Mat :=
  m.foldl (fun acc (p, t) => (Mat.add acc (Mat.smul p (stabilizerDensity t)).norm).norm) (Mat.zero (pow2 n))

/-! ## 6. Noise map → per-operation noise -/

/-- an operation of `_slim_seq()`: a base operation or a `OneQubitGateWrapper` with its list of operation classes -/
structure WOp where
  kind : Kind                    -- `.identity` with `wrapped ≠ []` stands for a wrapper
  wrapped : List Kind := []      -- `op.operations` (matrix order)
  t1 : RegT := .e
  t2 : RegT := .e
  deriving Repr

/-- `type(op).__name__` keys of the noise map, as kinds -/
abbrev NoiseMapFor := Kind → Option (List NoiseM)     -- a map entry is a noise or a list of two noises

/-- `_find_wrapped_noise(op_type_list, mapping)` over `op.unwrap()` — the *reversed* operation list (D12: the list it
    returns is later paired with `op.operations` un-reversed) -/
def findWrappedNoise (opTypes : List Kind) (mapping : NoiseMapFor) : List NoiseM :=
  opTypes.map fun k => match mapping k with
    | some (a :: _) => a
    | _ => .none

/-- `OneQubitGateWrapper.unwrap()` for `noise` a list: `operations[i]` gets `noise[i]`; result reversed (application order) -/
def unwrapList (operations : List Kind) (noise : List NoiseM) : List (Kind × NoiseM) :=
  ((List.range operations.length).map fun i => (operations.getD i .identity, noise.getD i .none)).reverse

/-- `OneQubitGateWrapper.unwrap()` for a *single* (non-list) noise: the sub-operations carry `NoNoise`, an extra `Identity`
    carries the noise — inserted at index 0 if `After gate` (so that after the final reversal it is applied last), appended
    otherwise (applied first) -/
def unwrapSingle (operations : List Kind) (noise : NoiseM) : List (Kind × NoiseM) :=
  let gates : List (Kind × NoiseM) := operations.map fun k => (k, NoiseM.none)
  let idop : Kind × NoiseM := (Kind.identity, noise)
  (if noise.after then idop :: gates else gates ++ [idop]).reverse

/-- `_noisy_gates`: the `op.noise` each operation of the slim sequence receives (`none` = `KeyError`: the map has no entry
    for the register-type pair) -/
def noisyGate (mapE mapP : NoiseMapFor) (mapCtl : RegT → RegT → Option NoiseMapFor) (op : WOp) : Except Err (List NoiseM) :=
  let forT : RegT → NoiseMapFor := fun t => if t == .p then mapP else mapE
  if !op.wrapped.isEmpty then
    -- op_type_seq = [type(g) for g in op.unwrap()]  (reversed operations)
    .ok (findWrappedNoise op.wrapped.reverse (forT op.t1))
  else if op.kind.isCtrlPair || op.kind.isClassicalCtrl then
    match mapCtl op.t1 op.t2 with
    | none => .error .key
    | some mp =>
      match mp op.kind with
      | some [a, b] => .ok [a, b]
      | some [a] => .ok [a, a]
      | some _ => .error .assertion
      | none => .ok [.none, .none]
  else
    match (forT op.t1) op.kind with
    | some (a :: _) => .ok [a]
    | _ => .ok [.none]


/-- keys of a solver noise map (`noise_model_mapping[...]` of graphiq/solvers): the class name, or the class name with
    the suffix `_control` / `_target` -/
inductive MapKey where
  | name (k : Kind)
  | control (k : Kind)
  | target (k : Kind)
  deriving DecidableEq, Repr

/-- `SolverBase._identify_noise(op, mapping)` **as coded**: an instance is first replaced by its class, after which
    `isinstance(op, ControlledPairOperationBase)` is evaluated on a *class* and is always `False` — the `_control` / `_target`
    branch is dead code, every operation gets `mapping[name]` or `NoNoise()` (the operation constructors then duplicate a
    single noise for a controlled pair). -/
def identifyNoise (k : Kind) (mapping : MapKey → Option NoiseM) : NoiseM :=
  match mapping (.name k) with
  | some n => n
  | none => .none

/-- `SolverBase._wrap_noise(op_list, mapping)`: the entry `"OneQubitGateWrapper"` if present (returned as it is), else the
    list of the sub-operations' noises -/
def wrapNoise (ops : List Kind) (wrapperEntry : Option (List NoiseM)) (mapping : MapKey → Option NoiseM) : List NoiseM :=
  match wrapperEntry with
  | some l => l
  | none => ops.map fun k => identifyNoise k mapping

end Noise
end Graphiq
