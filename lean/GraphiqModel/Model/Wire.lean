/-
  Wire.lean — wire-level model of `graphiq.circuit.circuit_dag.CircuitDAG` (no Mathlib).

  A `CircuitDAG` is a MultiDiGraph whose edges carry a register key; for every register the edges with that key form
  one path  `<reg>_in → n₁ → … → n_k → <reg>_out`.  The wire model keeps exactly these paths:

    * `wire r`  : the op-node ids on register `r`, in order (the `_in` / `_out` nodes are implicit),
    * `node n`  : the operation stored at node id `n` (class name, wrapped gate list, registers, "Fixed" label),
    * `nid`     : the value of `CircuitDAG._node_id` (a new node gets id `nid + 1`),
    * `ne np nc`: number of emitter / photon / classical registers.

  A two-register operation occurs on two wires under the same id.  An *edge* of the DAG `(u, v, key)` is the gap
  `(r, pos)` between positions `pos-1` and `pos` of wire `r` (`pos = 0`: the edge leaving `<r>_in`).

  The functions mirror `circuit_dag.py` (`_add`, `_insert_at`, `_remove_node`, `replace_op`, `find_incompatible_edges`,
  `unwrap_nodes`, `remove_identity`, `group_one_qubit_gates`, `assign_noise`, `copy`) as they act on that structure.
  networkx' `ancestors` / `descendants` are computed by saturation; `topological_sort` is a *parameter* (any linear
  extension).  Node and edge *dictionary orders* (`node_dict`, `edge_dict` list orders) are not part of this model —
  wherever the Python iterates such a list the order is either irrelevant to the result or passed in as a parameter.
-/
import GraphiqModel.Model.Bits
namespace Graphiq.Wire
open Graphiq

/-! ## registers, operations, circuits -/

inductive RegType where
  | e | p | c
  deriving DecidableEq, Repr, Inhabited

structure Reg where
  ty : RegType
  idx : Nat
  deriving DecidableEq, Repr, Inhabited

/-- the base one-qubit gate classes of `ops.py` -/
inductive G1 where
  | I | H | P | Pdg | X | Y | Z
  deriving DecidableEq, Repr, Inhabited

/-- `type(op).__name__` (with the class list of a `OneQubitGateWrapper`) -/
inductive Kind where
  | wrapper (gs : List G1)
  | base (g : G1)
  | measZ
  | cnot | cz
  | ccnot | ccz | mcr
  deriving DecidableEq, Repr, Inhabited

/-- an operation object: class, `q_registers` zipped with `q_registers_type` (control first), `c_registers`,
    and whether `"Fixed"` is among its labels (the class labels `one-qubit` / `two-qubit` are functions of `kind`) -/
structure Op where
  kind : Kind
  q : List Reg
  cr : List Nat
  fixed : Bool
  deriving DecidableEq, Repr, Inhabited

structure Circuit where
  ne : Nat
  np : Nat
  nc : Nat
  nid : Nat
  node : Nat → Option Op
  wire : Reg → List Nat

instance : Inhabited Circuit := ⟨⟨0, 0, 0, 0, fun _ => none, fun _ => []⟩⟩

def Kind.isWrapper : Kind → Bool
  | .wrapper _ => true
  | _ => false

/-- label `"one-qubit"` (`OneQubitOperationBase` and `MeasurementZ` add it) -/
def Kind.oneQubitLabel : Kind → Bool
  | .wrapper _ | .base _ | .measZ => true
  | _ => false

/-- unitary one-qubit gate (wrapper or base class) -/
def Kind.isGate1 : Kind → Bool
  | .wrapper _ | .base _ => true
  | _ => false

/-- `ClassicalControlledPairOperationBase` subclasses -/
def Kind.isClassicalControlled : Kind → Bool
  | .ccnot | .ccz | .mcr => true
  | _ => false

def Kind.isTwoQubit : Kind → Bool
  | .cnot | .cz | .ccnot | .ccz | .mcr => true
  | _ => false

def Circuit.count (c : Circuit) : RegType → Nat
  | .e => c.ne
  | .p => c.np
  | .c => c.nc

def Circuit.validReg (c : Circuit) (r : Reg) : Bool := decide (r.idx < c.count r.ty)

/-- all registers, emitters first, then photons, then classical (the order `CircuitDAG.__init__` creates them) -/
def Circuit.regs (c : Circuit) : List Reg :=
  (List.range c.ne).map (Reg.mk .e) ++ (List.range c.np).map (Reg.mk .p) ++ (List.range c.nc).map (Reg.mk .c)

def Circuit.regsOf (c : Circuit) (t : RegType) : List Reg := (List.range (c.count t)).map (Reg.mk t)

def Circuit.setWire (c : Circuit) (r : Reg) (l : List Nat) : Circuit :=
  { c with wire := fun r' => if r' = r then l else c.wire r' }

def Circuit.setNode (c : Circuit) (n : Nat) (o : Option Op) : Circuit :=
  { c with node := fun m => if m = n then o else c.node m }

/-- the empty circuit `CircuitDAG(n_emitter, n_photon, n_classical)` -/
def Circuit.empty (ne np nc : Nat) : Circuit := ⟨ne, np, nc, 0, fun _ => none, fun _ => []⟩

/-- ids of all op nodes, ascending -/
def Circuit.nodeIds (c : Circuit) : List Nat :=
  (List.range (c.nid + 1)).filter fun n => (c.node n).isSome

/-! ## the DAG seen through the wires -/

/-- vertices of the DAG: `<r>_in`, `<r>_out`, op node -/
inductive V where
  | inp (r : Reg)
  | out (r : Reg)
  | op (n : Nat)
  deriving DecidableEq, Repr, Inhabited

/-- the path of register `r` including its input and output node -/
def Circuit.aug (c : Circuit) (r : Reg) : List V := V.inp r :: ((c.wire r).map V.op ++ [V.out r])

/-- consecutive pairs of a list -/
def pairs {α : Type} (l : List α) : List (α × α) := l.zip l.tail

/-- all edges `(u, v)` of the DAG (register keys dropped) -/
def Circuit.edgesV (c : Circuit) : List (V × V) := c.regs.flatMap fun r => pairs (c.aug r)

/-- edge relation of the DAG -/
def Circuit.E (c : Circuit) (a b : V) : Prop := (a, b) ∈ c.edgesV

def Circuit.succs (c : Circuit) (v : V) : List V :=
  c.edgesV.filterMap fun p => if p.1 = v then some p.2 else none

def Circuit.preds (c : Circuit) (v : V) : List V :=
  c.edgesV.filterMap fun p => if p.2 = v then some p.1 else none

/-- an edge `(u, v, key)` of the DAG: the gap before position `pos` of wire `r` -/
structure Edge where
  r : Reg
  pos : Nat
  deriving DecidableEq, Repr, Inhabited

def Circuit.validEdge (c : Circuit) (e : Edge) : Bool := c.validReg e.r && decide (e.pos ≤ (c.wire e.r).length)

/-- tail of the edge: the last node before position `pos` (the input node when there is none) -/
def Circuit.src (c : Circuit) (e : Edge) : V :=
  match ((c.wire e.r).take e.pos).getLast? with
  | some n => V.op n
  | none => V.inp e.r

/-- head of the edge: the node at position `pos` (the output node when there is none) -/
def Circuit.dst (c : Circuit) (e : Edge) : V :=
  match ((c.wire e.r).drop e.pos).head? with
  | some n => V.op n
  | none => V.out e.r

/-- all edges on registers of type `t` (= `edge_dict[t]` as a set) -/
def Circuit.edgesOf (c : Circuit) (t : RegType) : List Edge :=
  (c.regsOf t).flatMap fun r => (List.range ((c.wire r).length + 1)).map (Edge.mk r)

def Circuit.kindOfV (c : Circuit) : V → Option Kind
  | .op n => (c.node n).map (·.kind)
  | _ => none

def V.isOut : V → Bool
  | .out _ => true
  | _ => false

def V.isInp : V → Bool
  | .inp _ => true
  | _ => false

/-! ### reachability (`nx.ancestors`, `nx.descendants`): breadth-first closure + an executable closedness check -/

/-- `S` is closed under `step` (checked after the search, so that no theorem depends on the search or its fuel) -/
def closedUnder (step : V → List V) (S : List V) : Bool :=
  S.all fun x => (step x).all fun y => decide (y ∈ S)

def Circuit.fuel (c : Circuit) : Nat := c.nid + 2 * (c.ne + c.np + c.nc) + 2

def succsIn (es : List (V × V)) (v : V) : List V := es.filterMap fun p => if p.1 = v then some p.2 else none
def predsIn (es : List (V × V)) (v : V) : List V := es.filterMap fun p => if p.2 = v then some p.1 else none

/-- the elements of `l` that are not in `visited`, each once, in order of first occurrence -/
def freshOf (visited : List V) : List V → List V
  | [] => []
  | y :: ys => if y ∈ visited then freshOf visited ys else y :: freshOf (visited ++ [y]) ys

/-- breadth-first closure (frontier based; each vertex is expanded once, `fuel` bounds the number of expansions) -/
def bfs (step : V → List V) : Nat → List V → List V → List V
  | 0, visited, _ => visited
  | _, visited, [] => visited
  | f + 1, visited, x :: frontier =>
    let new := freshOf visited (step x)
    bfs step f (visited ++ new) (frontier ++ new)

/-- `nx.descendants(dag, v)`: everything reachable from `v` in at least one step -/
def Circuit.descendants (c : Circuit) (v : V) : List V :=
  let es := c.edgesV
  bfs (succsIn es) c.fuel (freshOf [] (succsIn es v)) (freshOf [] (succsIn es v))

/-- `nx.ancestors(dag, v)` -/
def Circuit.ancestors (c : Circuit) (v : V) : List V :=
  let es := c.edgesV
  bfs (predsIn es) c.fuel (freshOf [] (predsIn es v)) (freshOf [] (predsIn es v))

structure Incompat where
  anc : List V
  desc : List V
  /-- both saturations reached a fixed point (always the case with the fuel above; checked, never assumed) -/
  closed : Bool

/-- the data `find_incompatible_edges(first_edge)` computes -/
def Circuit.incompatInfo (c : Circuit) (e1 : Edge) : Incompat :=
  let a := c.src e1
  let b := c.dst e1
  let A := c.ancestors a
  let D := c.descendants b
  ⟨A, D, closedUnder c.preds A && closedUnder c.succs D
         && (c.preds a).all (fun x => decide (x ∈ A)) && (c.succs b).all (fun x => decide (x ∈ D))⟩

/-- membership in `find_incompatible_edges(e1)`:
    `{e1} ∪ in_edges(src e1) ∪ ⋃_{x ∈ ancestors(src e1)} out_edges(x) ∪ out_edges(dst e1) ∪ ⋃_{x ∈ descendants(dst e1)} out_edges(x)` -/
def Circuit.isIncompatible (c : Circuit) (e1 : Edge) (inf : Incompat) (e2 : Edge) : Bool :=
  decide (e2 = e1) || decide (c.dst e2 = c.src e1) || decide (c.src e2 ∈ inf.anc)
    || decide (c.src e2 = c.dst e1) || decide (c.src e2 ∈ inf.desc)

/-! ## elementary edits -/

/-- put node `k` on the edge `e` -/
def Circuit.insertEdge (k : Nat) (c : Circuit) (e : Edge) : Circuit :=
  c.setWire e.r ((c.wire e.r).take e.pos ++ k :: (c.wire e.r).drop e.pos)

/-- `_insert_at(operation, reg_edges)`: a new node `nid+1` carrying `op`, spliced into each of the given edges -/
def Circuit.insertAt (c : Circuit) (op : Op) (edges : List Edge) : Circuit :=
  let k := c.nid + 1
  edges.foldl (Circuit.insertEdge k) { c with nid := k, node := fun n => if n = k then some op else c.node n }

/-- `insert_at`: asserts one edge per quantum register -/
def Circuit.insertAtE (c : Circuit) (op : Op) (edges : List Edge) : Except Err Circuit :=
  if edges.length ≠ op.q.length then .error .assertion else .ok (c.insertAt op edges)

/-- `_remove_node(node)`: the node disappears from every wire it is on (in- and out-edge with the same key are joined) -/
def Circuit.removeOp (c : Circuit) (n : Nat) : Circuit :=
  { c with node := fun m => if m = n then none else c.node m,
           wire := fun r => (c.wire r).filter fun m => m ≠ n }

/-- `replace_op(node, new_operation)`: same registers asserted -/
def Circuit.replaceOpE (c : Circuit) (n : Nat) (op : Op) : Except Err Circuit :=
  match c.node n with
  | none => .error .key
  | some old =>
    if old.q ≠ op.q ∨ old.cr ≠ op.cr then .error .assertion
    else .ok (c.setNode n (some op))

/-- `_add_reg_if_absent(register, reg_type)` -/
def Circuit.addRegIfAbsent (c : Circuit) (r : Reg) : Except Err Circuit :=
  if r.idx < c.count r.ty then .ok c
  else if r.idx = c.count r.ty then
    -- a fresh register has an empty wire
    let c' := c.setWire r []
    match r.ty with
    | .e => .ok { c' with ne := c.ne + 1 }
    | .p => .ok { c' with np := c.np + 1 }
    | .c => .ok { c' with nc := c.nc + 1 }
  else .error .value

/-- the wires `_add` touches: the quantum registers of the operation, then its classical registers -/
def Op.addRegs (op : Op) : List Reg := op.q ++ op.cr.map (Reg.mk .c)

/-- `_add(operation)`: the new node is spliced into the edge entering `<reg>_out` of each of its registers,
    i.e. inserted on the last edge of each of those wires -/
def Circuit.addCore (c : Circuit) (op : Op) : Circuit :=
  c.insertAt op (op.addRegs.map fun r => ⟨r, (c.wire r).length⟩)

/-- sort key of `sorted(zip(q_registers, q_registers_type))`: by index, then `"e" < "p"` -/
def Reg.sortKey (r : Reg) : Nat := 2 * r.idx + (if r.ty = .p then 1 else 0)

def sortRegs (l : List Reg) : List Reg :=
  l.foldr (fun r acc => (acc.takeWhile fun x => x.sortKey < r.sortKey) ++ r :: (acc.dropWhile fun x => x.sortKey < r.sortKey)) []

/-- `add(operation)`: classical registers first, then the quantum registers sorted by (index, type), each created if it
    is the next free one (`ValueError` if it would leave a gap) -/
def Circuit.add (c : Circuit) (op : Op) : Except Err Circuit := do
  let c1 ← op.cr.foldlM (fun c' i => c'.addRegIfAbsent ⟨.c, i⟩) c
  let c2 ← (sortRegs op.q).foldlM (fun c' r => c'.addRegIfAbsent r) c1
  pure (c2.addCore op)

def exceptToOption' {α : Type} : Except Err α → Option α
  | .ok a => some a
  | .error _ => none

/-! ## C13: rewrites -/

/-- `CircuitBase.copy` (a deep copy): the same structure -/
def Circuit.copy (c : Circuit) : Circuit := c

/-- a wrapper's `unwrap()`: its base classes in application order (the list is "last listed acts first") -/
def unwrapList (gs : List G1) : List G1 := gs.reverse

def Op.base1 (g : G1) (r : Reg) : Op := ⟨.base g, [r], [], false⟩

/-- unwrap one wrapper node: its base gates are inserted, in application order, on the wrapper's incoming edge; the
    wrapper is then removed.  Nodes that are not (or no longer) wrappers are skipped. -/
def Circuit.unwrapNode (c : Circuit) (n : Nat) : Circuit :=
  match c.node n with
  | some ⟨.wrapper gs, [r], _, _⟩ =>
    let c' := (unwrapList gs).foldl
      (fun c' g => c'.insertAt (Op.base1 g r) [⟨r, (c'.wire r).idxOf n⟩]) c
    c'.removeOp n
  | _ => c

/-- `unwrap_nodes()`: `order` is the iteration order of `node_dict["OneQubitGateWrapper"]` (a parameter) -/
def Circuit.unwrapNodes (c : Circuit) (order : List Nat) : Circuit := order.foldl Circuit.unwrapNode c

/-- `remove_identity()`: every node whose class is `Identity` is removed (`order` = `node_dict["Identity"]`) -/
def Circuit.removeIdentity (c : Circuit) (order : List Nat) : Circuit :=
  order.foldl (fun c' n => match c'.node n with
    | some ⟨.base .I, _, _, _⟩ => c'.removeOp n
    | _ => c') c

/-- class list a groupable node contributes to `gate_list` in `group_one_qubit_gates` -/
def groupGates : Kind → List G1
  | .wrapper gs => gs
  | .base g => [g]
  | _ => []

structure GroupSt where
  c : Circuit
  gates : List G1

/-- `groupable(nd)`: the node carries the label `one-qubit` *and* is a `OneQubitOperationBase` (a wrapper or a base
    gate); a `MeasurementZ` also carries the label but is a boundary -/
def Circuit.groupable (c : Circuit) (n : Nat) : Bool :=
  match c.node n with
  | some op => op.kind.isGate1
  | none => false

/-- the backward walk of `group_one_qubit_gates` over one register: `rev` is the wire in reverse order.  `prev` of a
    node is the next element of `rev` (or the input node). -/
def groupWalk (r : Reg) : List Nat → GroupSt → GroupSt
  | [], s => s
  | n :: rest, s =>
    let s1 : GroupSt :=
      if s.c.groupable n then
        { c := s.c.removeOp n, gates := s.gates ++ (match s.c.node n with
            | some op => groupGates op.kind
            | none => []) }
      else s
    let nextIsOne : Bool := match rest with
      | m :: _ => s1.c.groupable m
      | [] => false
    let s2 : GroupSt :=
      if !nextIsOne && !s1.gates.isEmpty then
        -- insert the wrapper on the out-edge (on this register) of the previous node
        let pos := match rest with
          | m :: _ => (s1.c.wire r).idxOf m + 1
          | [] => 0
        { c := s1.c.insertAt ⟨.wrapper s1.gates, [r], [], false⟩ [⟨r, pos⟩], gates := [] }
      else s1
    groupWalk r rest s2

/-- `group_one_qubit_gates()` over the registers in the order of `node_dict["Output"]` (a parameter; the constructor
    creates emitters, photons, classical) -/
def Circuit.groupOneQubitGates (c : Circuit) (order : List Reg) : Circuit :=
  (order.foldl (fun s r => groupWalk r (s.c.wire r).reverse { s with gates := [] }) ⟨c, []⟩).c

/-- `seq` is a linear extension of the DAG's op nodes: a permutation of the op nodes that keeps every wire's order -/
def Circuit.isLinearExtension (c : Circuit) (seq : List Nat) : Bool :=
  seq.Nodup && seq.all (fun n => (c.node n).isSome) && c.nodeIds.all (fun n => decide (n ∈ seq))
    && c.regs.all fun r => decide (seq.filter (fun n => decide (n ∈ c.wire r)) = c.wire r)

/-- `assign_noise(map)`: an empty circuit with the same register counts to which a shallow copy of every operation is
    `add`ed in the order of `sequence()` (`seq`, any topological order).  Noise descriptors are not part of the wire
    model: with the empty map every operation receives `NoNoise`. -/
def Circuit.assignNoise (c : Circuit) (seq : List Nat) : Except Err Circuit :=
  if !c.isLinearExtension seq then .error .value
  else seq.foldlM (fun c' n => match c.node n with
    | some op => c'.add op
    | none => .error .key) (Circuit.empty c.ne c.np c.nc)

/-! ### `flat`: what a circuit *does*, wire by wire -/

/-- one item of a flattened wire: a base one-qubit gate, or an occurrence of a multi-register / measuring node -/
inductive Item where
  | g (g : G1)
  | node (kind : Kind) (q : List Reg) (cr : List Nat)
  deriving DecidableEq, Repr

def dropI (gs : List G1) : List G1 := gs.filter fun g => g ≠ G1.I

def flatOp (op : Op) : List Item :=
  match op.kind with
  | .wrapper gs => (dropI (unwrapList gs)).map Item.g
  | .base g => (dropI [g]).map Item.g
  | k => [Item.node k op.q op.cr]

def Circuit.flatWire (c : Circuit) (r : Reg) : List Item :=
  (c.wire r).flatMap fun n => match c.node n with
    | some op => flatOp op
    | none => []

/-- the quantum registers: emitters, then photons -/
def Circuit.qregs (c : Circuit) : List Reg := c.regsOf .e ++ c.regsOf .p

/-- `flat c`: register counts and, per *quantum* register, the sequence of base gates (wrappers expanded in
    application order, identities dropped) and of multi-register / measuring node occurrences.  Classical wires are
    not part of `flat`: `assign_noise` re-`add`s every operation and thereby threads operations that had been
    `insert_at`ed onto their classical wire as well, which adds ordering constraints but changes no quantum wire. -/
def Circuit.flat (c : Circuit) : Nat × Nat × Nat × List (List Item) :=
  (c.ne, c.np, c.nc, c.qregs.map c.flatWire)

/-! ### frame conditions of the library calls (aliasing half of C13)

  In this functional model a library call cannot change its argument; the model states this explicitly: a `World` is
  the list of live circuit objects, a call reads the objects it is given and *appends* the objects it creates (the copy
  it rewrites, the noisy copy, …).  That the Python objects behave like this is not provable here (object aliasing is
  outside a functional model); it is what the interleaving runs of `harness/c13.py` test. -/

inductive Call where
  | copy (i : Nat)
  | unwrapCopy (i : Nat) (order : List Nat)
  | removeIdentityCopy (i : Nat) (order : List Nat)
  | groupCopy (i : Nat) (order : List Reg)
  | assignNoise (i : Nat) (seq : List Nat)
  /-- `compile`, a metric's `evaluate`, `to_openqasm`, `compare`, depth queries, a solver run: read-only -/
  | readOnly (i : Nat)

structure World where
  circuits : List Circuit

def World.exec (w : World) (call : Call) : World :=
  let get (i : Nat) : Option Circuit := w.circuits[i]?
  let new : Option Circuit := match call with
    | .copy i => (get i).map Circuit.copy
    | .unwrapCopy i order => (get i).map fun c => c.copy.unwrapNodes order
    | .removeIdentityCopy i order => (get i).map fun c => c.copy.removeIdentity order
    | .groupCopy i order => (get i).map fun c => c.copy.groupOneQubitGates order
    | .assignNoise i seq => (get i).bind fun c => exceptToOption' (c.assignNoise seq)
    | .readOnly _ => none
  ⟨w.circuits ++ new.toList⟩

end Graphiq.Wire
