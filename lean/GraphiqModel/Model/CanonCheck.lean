/-
  CanonCheck.lean — an executable checker of the shape `canonical_form` returns (`STab.Canon`, Proofs/CanonShape.lean).
  Not a model of graphiq code: it is the verified validator (`isCanon_sound`, Proofs/CanonCheck.lean) the driver runs on
  the canonical forms the real `canonical_form` returns.  No Mathlib.
-/
import GraphiqModel.Model.StabTableau
namespace Graphiq
namespace STab

/-- executable version of the echelon invariant `PInv n B p lo pr n` (all columns processed) -/
def pinvB (n : Nat) (B : Nat → Nat → Bool) (p : Nat → Nat) (lo pr : Nat) : Bool :=
  decide (lo ≤ pr) && decide (pr ≤ n) &&
  (List.range n).all fun i =>
    if lo ≤ i ∧ i < pr then
      decide (p i < n) && B i (p i) &&
      (List.range n).all (fun m => decide (m = i) || !B m (p i)) &&
      (List.range n).all (fun j => decide (p i ≤ j) || !B i j) &&
      (List.range n).all (fun i' => !(decide (i < i') && decide (i' < pr)) || decide (p i < p i'))
    else if pr ≤ i then (List.range n).all (fun j => !B i j)
    else true

/-- first column with the bit set (0 if there is none) -/
def leadCol (n : Nat) (f : Nat → Bool) : Nat := (((List.range n).filter f).head?).getD 0

/-- the tableau is in the shape `canonical_form` returns: `k` = number of rows carrying an x-bit, pivots = leading bits -/
def isCanon (c : STab) : Bool :=
  let k := ((List.range c.n).filter fun i => (List.range c.n).any fun j => (c.row i).x j).length
  let pxa : Array Nat := Array.ofFn (n := c.n) fun i => leadCol c.n (c.row i).x
  let pza : Array Nat := Array.ofFn (n := c.n) fun i => leadCol c.n (c.row i).z
  pinvB c.n (fun m j => (c.row m).x j) (fun i => pxa.getD i 0) 0 k &&
  pinvB c.n (fun m j => (c.row m).z j) (fun i => pza.getD i 0) k c.n

end STab
end Graphiq
