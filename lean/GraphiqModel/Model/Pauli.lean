/-
  Pauli.lean — signed Pauli rows: the row type of every tableau in the model.

  A row `i^ip · (-1)^r · ⊗_j σ(x j, z j)` with σ(1,1) = Y (Hermitian convention, as in Aaronson–Gottesman
  and in graphiq's `row_sum` / `g_function`).  Mirrors
  `graphiq/backends/stabilizer/functions/linalg.py` (`g_function`, `row_sum`) and the row-wise action of
  `graphiq/backends/stabilizer/functions/transformation.py`.
-/
import GraphiqModel.Model.Bits
namespace Graphiq

structure PRow where
  x : Nat → Bool
  z : Nat → Bool
  r : Bool
  ip : Bool

namespace PRow

/-- extensional equality on the first `n` sites, with both phase bits -/
def EqOn (n : Nat) (a b : PRow) : Prop :=
  (∀ j, j < n → a.x j = b.x j ∧ a.z j = b.z j) ∧ a.r = b.r ∧ a.ip = b.ip

/-- boolean version for the driver -/
def beqOn (n : Nat) (a b : PRow) : Bool :=
  (List.range n).all (fun j => a.x j == b.x j && a.z j == b.z j) && a.r == b.r && a.ip == b.ip

/-- equality of the Pauli part only -/
def SameBits (n : Nat) (a b : PRow) : Prop := ∀ j, j < n → a.x j = b.x j ∧ a.z j = b.z j

def one : PRow := ⟨fun _ => false, fun _ => false, false, false⟩
def Zq (q : Nat) (sign : Bool := false) : PRow := ⟨fun _ => false, fun j => decide (j = q), sign, false⟩
def Xq (q : Nat) (sign : Bool := false) : PRow := ⟨fun j => decide (j = q), fun _ => false, sign, false⟩

/-- `g_function(x1, z1, x2, z2)` of linalg.py: exponent of `i` picked up when multiplying one site -/
def gFun (x1 z1 x2 z2 : Bool) : Int :=
  if !x1 && !z1 then 0
  else if x1 && z1 then Bool.toInt' z2 - Bool.toInt' x2
  else if x1 && !z1 then Bool.toInt' z2 * (2 * Bool.toInt' x2 - 1)
  else Bool.toInt' x2 * (1 - 2 * Bool.toInt' z2)

/-- the `g_sum` loop of `row_sum` -/
def gSum (n : Nat) (a b : PRow) : Int := sumTo n fun j => gFun (a.x j) (a.z j) (b.x j) (b.z j)

/-- phase word `2 r + ip` of a row, in 0..3 -/
def ph (a : PRow) : Int := 2 * Bool.toInt' a.r + Bool.toInt' a.ip

/-- `row_sum(..., row_to_add = a, target_row = b)`: the new target row `a · b` (phases as coded:
    `phases % 4`, `r = int(phases/2)`, `iphase = phases % 2`) -/
def mul (n : Nat) (a b : PRow) : PRow :=
  let p : Int := (b.ph + a.ph + gSum n a b) % 4
  { x := fun j => xor (a.x j) (b.x j)
    z := fun j => xor (a.z j) (b.z j)
    r := decide (p / 2 = 1)
    ip := decide (p % 2 = 1) }

/-- symplectic product: `true` iff the two rows anticommute -/
def sp (n : Nat) (a b : PRow) : Bool :=
  parityTo n fun j => xor (a.x j && b.z j) (a.z j && b.x j)

/-! ### row-wise action of the gates of transformation.py -/

/-- `hadamard_gate`: phase ^= x·z at q; swap x and z at q -/
def h (q : Nat) (p : PRow) : PRow :=
  { p with
    r := xor p.r (p.x q && p.z q)
    x := fun j => if j = q then p.z j else p.x j
    z := fun j => if j = q then p.x j else p.z j }

/-- `phase_gate`: phase ^= x·z at q; z ^= x at q -/
def s (q : Nat) (p : PRow) : PRow :=
  { p with
    r := xor p.r (p.x q && p.z q)
    z := fun j => if j = q then xor (p.z j) (p.x q) else p.z j }

/-- `cnot_gate(ctrl c, target t)`: phase ^= x_c z_t (x_t ^ z_c ^ 1); x_t ^= x_c; z_c ^= z_t -/
def cnot (c t : Nat) (p : PRow) : PRow :=
  { p with
    r := xor p.r (p.x c && p.z t && (xor (xor (p.x t) (p.z c)) true))
    x := fun j => if j = t then xor (p.x j) (p.x c) else p.x j
    z := fun j => if j = c then xor (p.z j) (p.z t) else p.z j }

def sdg (q : Nat) (p : PRow) : PRow := s q (s q (s q p))          -- phase_dagger_gate: three phase gates
def zg (q : Nat) (p : PRow) : PRow := s q (s q p)                 -- z_gate: two phase gates
def xg (q : Nat) (p : PRow) : PRow := h q (zg q (h q p))          -- x_gate: H Z H
def yg (q : Nat) (p : PRow) : PRow := s q (xg q (zg q (s q p)))   -- y_gate: P, Z, X, P
def cz (c t : Nat) (p : PRow) : PRow := h t (cnot c t (h t p))    -- control_z_gate: H_t CNOT H_t

/-- swap of the two qubit columns (`swap_gate`) -/
def swap (q1 q2 : Nat) (p : PRow) : PRow :=
  { p with
    x := fun j => if j = q1 then p.x q2 else if j = q2 then p.x q1 else p.x j
    z := fun j => if j = q1 then p.z q2 else if j = q2 then p.z q1 else p.z j }

/-- insert an identity site at position `k` (`np.insert(..., k, 0, axis=1)`) -/
def insertCol (k : Nat) (p : PRow) : PRow :=
  { p with
    x := fun j => if j < k then p.x j else if j = k then false else p.x (j - 1)
    z := fun j => if j < k then p.z j else if j = k then false else p.z (j - 1) }

/-- delete site `k` (`np.delete(..., [k, k+n], axis=1)`) -/
def deleteCol (k : Nat) (p : PRow) : PRow :=
  { p with
    x := fun j => if j < k then p.x j else p.x (j + 1)
    z := fun j => if j < k then p.z j else p.z (j + 1) }

/-- shift all sites right by `k` (used by `tensor`) -/
def shiftCols (k : Nat) (p : PRow) : PRow :=
  { p with
    x := fun j => if j < k then false else p.x (j - k)
    z := fun j => if j < k then false else p.z (j - k) }

/-- restrict to the first `n` sites (zero elsewhere) -/
def truncCols (n : Nat) (p : PRow) : PRow :=
  { p with x := fun j => j < n && p.x j, z := fun j => j < n && p.z j }

/-- tabulate the first `n` sites (execution only; pointwise identity below `n`) -/
def norm (n : Nat) (p : PRow) : PRow :=
  let xa : Array Bool := Array.ofFn (n := n) fun j => p.x j
  let za : Array Bool := Array.ofFn (n := n) fun j => p.z j
  { x := lookup1 xa, z := lookup1 za, r := p.r, ip := p.ip }

/-- row from explicit bit arrays -/
def ofArrays (xa za : Array Bool) (r ip : Bool) : PRow :=
  { x := lookup1 xa, z := lookup1 za, r := r, ip := ip }

end PRow
end Graphiq
