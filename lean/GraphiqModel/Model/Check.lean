/-
  Check.lean — an executable validator: "this circuit generates this graph state (photons) ⊗ |0…0⟩ (emitters) under every
  combination of measurement outcomes", decided by running the circuit on the tableau model under all outcome scripts and
  comparing canonical forms.  Its soundness is a theorem (Properties/C02); it is applied to every circuit the real solvers return.
-/
import GraphiqModel.Model.Circuit
import GraphiqModel.Model.StabTableau
namespace Graphiq

/-- graph state on photons `0..np-1` with adjacency `adj`, every emitter `np..np+ne-1` in |0⟩ -/
def targetSTab (np ne : Nat) (adj : Nat → Nat → Bool) : STab :=
  { n := np + ne
    row := fun i =>
      if i < np then ⟨fun j => decide (j = i), fun j => decide (j < np) && adj i j, false, false⟩
      else PRow.Zq i }

/-- all bit strings of length `m` -/
def allScripts : Nat → List (List Bool)
  | 0 => [[]]
  | m + 1 => (allScripts m).flatMap fun s => [false :: s, true :: s]

/-- an upper bound on the number of drawn bits a run can consume: one per measuring op, two for measure-and-reset -/
def countMeas : List COp → Nat
  | [] => 0
  | .ccx _ _ _ :: r => countMeas r + 1
  | .ccz _ _ _ :: r => countMeas r + 1
  | .measz _ _ :: r => countMeas r + 1
  | .mcr _ _ _ :: r => countMeas r + 2
  | _ :: r => countMeas r

/-- decidable version of `STab.Good` -/
def STab.isGood (t : STab) : Bool :=
  (List.range t.n).all fun i => !(t.row i).ip && (List.range t.n).all fun k => !(PRow.sp t.n (t.row i) (t.row k))

/-- row-wise equality (sites `< n`, sign and i-phase) -/
def STab.sameRows (a b : STab) : Bool :=
  a.n == b.n && (List.range a.n).all fun i => PRow.beqOn a.n (a.row i) (b.row i)

/-- same signed group, decided through canonical forms -/
def STab.sameGroup (a b : STab) : Bool :=
  a.isGood && b.isGood &&
  match a.canonicalForm, b.canonicalForm with
  | .ok ca, .ok cb => ca.sameRows cb
  | _, _ => false

/-- one outcome script -/
def checkScript (ne np : Nat) (ops : List COp) (target : STab) (script : List Bool) : Bool :=
  match stabRun ne np .prob script ops with
  | none => false
  | some s => (STab.ofTab s.t).sameGroup target

/-- the validator -/
def checkGenerates (ne np : Nat) (ops : List COp) (adj : Nat → Nat → Bool) : Bool :=
  (allScripts (countMeas ops)).all (checkScript ne np ops (targetSTab np ne adj))

end Graphiq
