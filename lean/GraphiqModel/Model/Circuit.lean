/-
  Circuit.lean — model of circuit compilation by the stabilizer backend:
  `CompilerBase.compile` (noise-free path) + `StabilizerCompiler.compile_one_gate` + `OneQubitGateWrapper.unwrap`,
  on registers of type emitter / photon / classical, executed on the Clifford-tableau model.
-/
import GraphiqModel.Model.Tableau
import GraphiqModel.Model.Clifford1
namespace Graphiq

inductive RegT where
  | e | p
  deriving DecidableEq, Repr, Inhabited

structure QReg where
  ty : RegT
  idx : Nat
  deriving DecidableEq, Repr, Inhabited

/-- circuit operations accepted by both compilers (I/O nodes carry no action and are omitted) -/
inductive COp where
  | gate1 (g : Cliff.Gen) (q : QReg)          -- Identity, Hadamard, Phase, SigmaX, SigmaY, SigmaZ
  | pdag (q : QReg)                            -- PhaseDagger
  | cnot (c t : QReg) | cz (c t : QReg)
  | ccx (c t : QReg) (creg : Nat)              -- ClassicalCNOT: measure control, X on target iff 1, record
  | ccz (c t : QReg) (creg : Nat)              -- ClassicalCZ
  | mcr (c t : QReg) (creg : Nat)              -- MeasurementCNOTandReset: as ccx, then reset control to |0⟩
  | measz (q : QReg) (creg : Nat)              -- MeasurementZ
  | wrap (gs : List Cliff.Gen) (q : QReg)      -- OneQubitGateWrapper(list)
  deriving Repr, Inhabited

/-- `CompilerBase.reg_to_index_func(n_photon)`: photons first, then emitters -/
def qIndex (np : Nat) (q : QReg) : Nat :=
  match q.ty with
  | .p => q.idx
  | .e => q.idx + np

/-- measurement setting: forced 0, forced 1, or "probabilistic" with the drawn bits supplied in order of use -/
inductive Det where
  | zero | one | prob
  deriving DecidableEq, Repr, Inhabited

structure RunState where
  t : Tab
  writes : List (Nat × Bool)      -- classical-register writes, in order (register, value)
  script : List Bool              -- remaining drawn bits (prob mode)
  rand : List Bool                -- for every measurement executed: was it random
  outs : List Bool                -- for every measurement executed: its outcome

/-- the outcome offered to a measurement, and the script after it: a drawn bit is consumed only by a random measurement
    (`np.random.randint` is called only in the random branch) -/
def RunState.offer (s : RunState) (d : Det) (random : Bool) : Bool × List Bool :=
  match d with
  | .zero => (false, s.script)
  | .one => (true, s.script)
  | .prob => if random then (s.script.headD false, s.script.tail) else (false, s.script)

def gen1 (t : Tab) (g : Cliff.Gen) (q : Nat) : Tab :=
  match g with
  | .I => t | .H => t.hGate q | .P => t.sGate q | .X => t.xGate q | .Y => t.yGate q | .Z => t.zGate q

/-- `state.apply_measurement(q, determinism)` -/
def RunState.measure (s : RunState) (d : Det) (q : Nat) : RunState × Bool :=
  let random := (s.t.pivot q).isSome
  let o := s.offer d random
  let m := s.t.zMeasure q o.1
  ({ s with t := m.1.norm, script := o.2, rand := s.rand ++ [random], outs := s.outs ++ [m.2.1] }, m.2.1)

/-- `if outcome == 1: state.apply_sigmax(q)` / `apply_sigmaz` -/
def RunState.condX (s : RunState) (b : Bool) (q : Nat) : RunState := { s with t := if b then (s.t.xGate q).norm else s.t }
def RunState.condZ (s : RunState) (b : Bool) (q : Nat) : RunState := { s with t := if b then (s.t.zGate q).norm else s.t }
/-- `classical_registers[c] = outcome` -/
def RunState.write (s : RunState) (creg : Nat) (out : Bool) : RunState := { s with writes := s.writes ++ [(creg, out)] }
/-- `state.reset_qubit(q, determinism)` = `reset_z(tableau, q, 0, determinism)` -/
def RunState.resetQ (s : RunState) (d : Det) (q : Nat) : RunState :=
  let o := s.offer d (s.t.pivot q).isSome
  { s with t := (s.t.resetZ q false o.1).norm, script := o.2 }

/-- one operation of `compile_one_gate` (pure-stabilizer branch); `none` = a qubit index is out of range (the Python asserts) -/
def stepOp (np n : Nat) (d : Det) (s : RunState) (op : COp) : Option RunState :=
  let ix := qIndex np
  match op with
  | .gate1 g q => if ix q < n then some { s with t := (gen1 s.t g (ix q)).norm } else none
  | .pdag q => if ix q < n then some { s with t := (s.t.sdgGate (ix q)).norm } else none
  | .cnot c t => if ix c < n ∧ ix t < n then some { s with t := (s.t.cnotGate (ix c) (ix t)).norm } else none
  | .cz c t => if ix c < n ∧ ix t < n then some { s with t := (s.t.czGate (ix c) (ix t)).norm } else none
  | .ccx c t creg =>
    if ix c < n ∧ ix t < n then
      let m := s.measure d (ix c)
      some ((m.1.condX m.2 (ix t)).write creg m.2)
    else none
  | .ccz c t creg =>
    if ix c < n ∧ ix t < n then
      let m := s.measure d (ix c)
      some ((m.1.condZ m.2 (ix t)).write creg m.2)
    else none
  | .mcr c t creg =>
    if ix c < n ∧ ix t < n then
      let m := s.measure d (ix c)
      some (((m.1.condX m.2 (ix t)).write creg m.2).resetQ d (ix c))
    else none
  | .measz q creg =>
    if ix q < n then
      let m := s.measure d (ix q)
      some (m.1.write creg m.2)
    else none
  | .wrap gs q =>
    if ix q < n then
      -- unwrap(): the operations in reverse list order = order of application (the last listed gate acts first)
      some { s with t := (gs.reverse.foldl (fun t g => gen1 t g (ix q)) s.t).norm }
    else none

/-- the compile loop on the all-|0⟩ state (or a given initial tableau) -/
def stabRunFrom (t0 : Tab) (np : Nat) (d : Det) (script : List Bool) (ops : List COp) : Option RunState :=
  ops.foldlM (stepOp np t0.n d) { t := t0, writes := [], script := script, rand := [], outs := [] }

def stabRun (ne np : Nat) (d : Det) (script : List Bool) (ops : List COp) : Option RunState :=
  stabRunFrom (Tab.ket0 (ne + np)) np d script ops

/-- final classical register values: zeros overwritten by the recorded writes in order -/
def finalRecord (nc : Nat) (writes : List (Nat × Bool)) : List Bool :=
  (List.range nc).map fun c => ((writes.filter fun w => w.1 = c).getLast?.map (·.2)).getD false

end Graphiq
