/-
  Tableau.lean — model of `graphiq/backends/stabilizer/functions/clifford.py` and the tableau-level gate
  functions of `transformation.py`, on `CliffordTableau`s (destabilizer rows `0..n-1`, stabilizer rows `n..2n-1`).

  Every function mirrors the Python of the same name; `…?` variants add the Python's `assert`s as `Except`.
-/
import GraphiqModel.Model.Pauli
namespace Graphiq

structure Tab where
  n : Nat
  row : Nat → PRow

namespace Tab

def lookupRow (a : Array PRow) (i : Nat) : PRow := a.getD i PRow.one

/-- tabulate (execution only) -/
def norm (t : Tab) : Tab :=
  let a : Array PRow := Array.ofFn (n := 2 * t.n) fun i => (t.row i).norm t.n
  { n := t.n, row := lookupRow a }

def ofRows (n : Nat) (a : Array PRow) : Tab := { n := n, row := lookupRow a }

def map (f : PRow → PRow) (t : Tab) : Tab := { t with row := fun i => f (t.row i) }

/-! ### gates (transformation.py) -/
def hGate (t : Tab) (q : Nat) : Tab := t.map (PRow.h q)
def sGate (t : Tab) (q : Nat) : Tab := t.map (PRow.s q)
def sdgGate (t : Tab) (q : Nat) : Tab := t.map (PRow.sdg q)
def xGate (t : Tab) (q : Nat) : Tab := t.map (PRow.xg q)
def yGate (t : Tab) (q : Nat) : Tab := t.map (PRow.yg q)
def zGate (t : Tab) (q : Nat) : Tab := t.map (PRow.zg q)
def cnotGate (t : Tab) (c tg : Nat) : Tab := t.map (PRow.cnot c tg)
def czGate (t : Tab) (c tg : Nat) : Tab := t.map (PRow.cz c tg)

/-! ### state constructors -/
/-- `CliffordTableau(n)`: table = identity -/
def ket0 (n : Nat) : Tab :=
  { n := n, row := fun i => if i < n then PRow.Xq i else PRow.Zq (i - n) }
/-- `create_n_ket1_state` -/
def ket1 (n : Nat) : Tab :=
  { n := n, row := fun i => if i < n then PRow.Xq i else PRow.Zq (i - n) true }
/-- `create_n_plus_state` -/
def plus (n : Nat) : Tab :=
  { n := n, row := fun i => if i < n then PRow.Zq i else PRow.Xq (i - n) }

/-- `is_symplectic(table)`: every destabilizer anticommutes exactly with its own stabilizer -/
def isSymplectic (t : Tab) : Bool :=
  (List.range (2 * t.n)).all fun i => (List.range (2 * t.n)).all fun k =>
    PRow.sp t.n (t.row i) (t.row k) == decide (i + t.n = k ∨ k + t.n = i)

/-- `row_sum` on the tableau: `target := add · target` -/
def rowSum (t : Tab) (add target : Nat) : Tab :=
  { t with row := upd t.row target (PRow.mul t.n (t.row add) (t.row target)) }

/-! ### Z measurement -/

/-- first stabilizer row (index ≥ n) with an X on qubit `q` — the `x_p` of `z_measurement_gate` -/
def pivot (t : Tab) (q : Nat) : Option Nat := findFrom t.n (2 * t.n) fun i => (t.row i).x q

/-- random-outcome branch. All rows with an X on `q` other than the pivot are multiplied by the pivot row;
    the destabilizer partner takes the pivot's x|z bits (its phase bits stay as they are after its own row sum);
    the pivot row becomes `Z_q` with `phase = outcome` (its iphase is left as it was). -/
def measRandom (t : Tab) (q p : Nat) (o : Bool) : Tab :=
  let g := t.row p
  let rs : Nat → PRow := fun i =>
    if i ≠ p ∧ (t.row i).x q then PRow.mul t.n g (t.row i) else t.row i
  { n := t.n
    row := fun i =>
      if i = p then { (PRow.Zq q) with r := o, ip := g.ip }
      else if i + t.n = p then { x := g.x, z := g.z, r := (rs i).r, ip := (rs i).ip }
      else rs i }

/-- deterministic branch: the scratch row `2n`, accumulated over the destabilizers with an X on `q` -/
def measScratch (t : Tab) (q : Nat) : PRow :=
  (filterTo t.n fun d => (t.row d).x q).foldl (fun acc d => PRow.mul t.n (t.row (d + t.n)) acc) PRow.one

/-- `z_measurement_gate(tableau, q, determinism)`; `o` is the forced / drawn outcome used iff the outcome is random.
    Returns `(tableau, outcome, x_p)` with `x_p = 0` for a deterministic outcome. -/
def zMeasure (t : Tab) (q : Nat) (o : Bool) : Tab × Bool × Nat :=
  match t.pivot q with
  | some p => (t.measRandom q p o, o, p)
  | none => (t, (t.measScratch q).r, 0)

def zMeasure? (t : Tab) (q : Nat) (o : Bool) : Except Err (Tab × Bool × Nat) :=
  if q < t.n then .ok (t.zMeasure q o) else .error .assertion

/-- `reset_z(tableau, q, intended, determinism)`: measure; if the measurement was random clear the iphase of the new
    `Z_q` row; then flip the qubit iff the outcome differs from the intended state (in both branches — since the
    repair D50; before it the random branch overwrote the sign of the new row with `intended` instead). -/
def resetZ (t : Tab) (q : Nat) (intended : Bool) (o : Bool) : Tab :=
  let (t1, outcome, p) := t.zMeasure q o
  let t2 : Tab := if p ≠ 0 then { t1 with row := upd t1.row p { (t1.row p) with ip := false } } else t1
  if outcome = intended then t2 else t2.xGate q

def resetX (t : Tab) (q : Nat) (intended o : Bool) : Tab := (t.resetZ q intended o).hGate q
def resetY (t : Tab) (q : Nat) (intended o : Bool) : Tab := ((t.resetZ q intended o).hGate q).sGate q

/-! ### insertion / removal / swap / tensor -/

/-- `insert_qubit(tableau, p)`: a new qubit in `|0⟩` at position `p ≤ n` -/
def insertQubit (t : Tab) (p : Nat) : Tab :=
  let n := t.n
  { n := n + 1
    row := fun i =>
      if i < n + 1 then
        if i < p then (t.row i).insertCol p
        else if i = p then PRow.Xq p
        else (t.row (i - 1)).insertCol p
      else
        let k := i - (n + 1)
        if k < p then (t.row (n + k)).insertCol p
        else if k = p then PRow.Zq p
        else (t.row (n + k - 1)).insertCol p }

def insertQubit? (t : Tab) (p : Nat) : Except Err Tab :=
  if p ≤ t.n then .ok (t.insertQubit p) else .error .assertion

def addQubit (t : Tab) : Tab := t.insertQubit t.n

/-- delete the row pair `(d, d+n)` and the column `q` -/
def deletePair (t : Tab) (q d : Nat) : Tab :=
  let n := t.n
  { n := n - 1
    row := fun i =>
      let old := if i < d then i else if i + 1 < d + n then i + 1 else i + 2
      (t.row old).deleteCol q }

/-- `remove_qubit(tableau, q, determinism)`: measure in Z, absorb the Z factors on `q`, drop the qubit -/
def removeQubit (t : Tab) (q : Nat) (o : Bool) : Except Err Tab :=
  let n := t.n
  let (t1, _, p) := t.zMeasure q o
  let stepA : Except Err (Tab × Nat) :=
    if p ≠ 0 then .ok (t1, p)
    else
      match filterTo n fun i => (t1.row i).x q with
      | [] => .error .assertion
      | om :: rest =>
        let t2 := rest.foldl (fun acc row => (acc.rowSum om row).rowSum (row + n) (om + n)) t1
        .ok (t2, om + n)
  match stepA with
  | .error e => .error e
  | .ok (t2, zRow) =>
    let zr := t2.row zRow
    let t3 : Tab :=
      { t2 with row := fun i =>
          if i ≠ zRow ∧ i + n ≠ zRow ∧ (t2.row i).z q then PRow.mul n zr (t2.row i) else t2.row i }
    .ok (t3.deletePair q (zRow - n))

def removeQubit? (t : Tab) (q : Nat) (o : Bool) : Except Err Tab :=
  if q < t.n then t.removeQubit q o else .error .assertion

/-- `swap_gate` -/
def swapGate (t : Tab) (q1 q2 : Nat) : Tab := t.map (PRow.swap q1 q2)

/-- `tensor([a, b])` -/
def tensor2 (a b : Tab) : Tab :=
  let n := a.n + b.n
  { n := n
    row := fun i =>
      if i < a.n then (a.row i).truncCols a.n
      else if i < n then (b.row (i - a.n)).shiftCols a.n
      else if i < n + a.n then (a.row (i - n + a.n)).truncCols a.n
      else (b.row (i - n - a.n + b.n)).shiftCols a.n }

/-- `partial_trace(tableau, keep, dims, determinism)`: remove the qubits not kept, highest index first;
    `os` supplies one drawn / forced outcome per removal -/
def partialTrace (t : Tab) (keep : List Nat) (os : List Bool) : Except Err Tab :=
  let removal := ((List.range t.n).filter fun i => !keep.contains i).reverse
  let rec go (t : Tab) (rem : List Nat) (os : List Bool) : Except Err Tab :=
    match rem with
    | [] => .ok t
    | q :: rest =>
      -- a drawn outcome is consumed only when the measurement is random (`np.random.randint` is called only then)
      let random := (t.pivot q).isSome
      match t.removeQubit? q (os.headD false) with
      | .error e => .error e
      | .ok t' => go t'.norm rest (if random then os.tail else os)
  go t removal os

/-! ### the tableau API as one operation type (what `tab.run` of the driver executes) -/

inductive Op where
  | h (q : Nat) | s (q : Nat) | sdg (q : Nat) | x (q : Nat) | y (q : Nat) | z (q : Nat)
  | cnot (c t : Nat) | cz (c t : Nat) | swap (a b : Nat)
  | meas (q : Nat) (o : Bool)
  | resetZ (q : Nat) (intended o : Bool) | resetX (q : Nat) (intended o : Bool) | resetY (q : Nat) (intended o : Bool)
  | insert (p : Nat) | add
  | remove (q : Nat) (o : Bool)
  | ptrace (keep : List Nat) (os : List Bool)

/-- one API call with the Python's `assert`s; second component: measurement outcome and "was random" -/
def applyOp (t : Tab) : Op → Except Err (Tab × Option (Bool × Bool))
  | .h q => if q < t.n then .ok (t.hGate q, none) else .error .assertion
  | .s q => if q < t.n then .ok (t.sGate q, none) else .error .assertion
  | .sdg q => if q < t.n then .ok (t.sdgGate q, none) else .error .assertion
  | .x q => if q < t.n then .ok (t.xGate q, none) else .error .assertion
  | .y q => if q < t.n then .ok (t.yGate q, none) else .error .assertion
  | .z q => if q < t.n then .ok (t.zGate q, none) else .error .assertion
  | .cnot c tg => if c < t.n ∧ tg < t.n then .ok (t.cnotGate c tg, none) else .error .assertion
  | .cz c tg => if c < t.n ∧ tg < t.n then .ok (t.czGate c tg, none) else .error .assertion
  | .swap a b => if a < t.n ∧ b < t.n then .ok (t.swapGate a b, none) else .error .assertion
  | .meas q o =>
    if q < t.n then
      let (t', out, p) := t.zMeasure q o
      .ok (t', some (out, p ≠ 0))
    else .error .assertion
  | .resetZ q i o => if q < t.n then .ok (t.resetZ q i o, none) else .error .assertion
  | .resetX q i o => if q < t.n then .ok (t.resetX q i o, none) else .error .assertion
  | .resetY q i o => if q < t.n then .ok (t.resetY q i o, none) else .error .assertion
  | .insert p => if p ≤ t.n then .ok (t.insertQubit p, none) else .error .assertion
  | .add => .ok (t.addQubit, none)
  | .remove q o =>
    match t.removeQubit? q o with
    | .ok t' => .ok (t', none)
    | .error e => .error e
  | .ptrace keep os =>
    match t.partialTrace keep os with
    | .ok t' => .ok (t', none)
    | .error e => .error e

/-- a history of API calls; stops at the first error like the Python would -/
def runOps (t : Tab) : List Op → Except Err Tab
  | [] => .ok t
  | op :: rest =>
    match t.applyOp op with
    | .ok (t', _) => runOps t' rest
    | .error e => .error e

/-- stabilizer half as a list of rows -/
def stabRows (t : Tab) : List PRow := (List.range t.n).map fun i => t.row (i + t.n)

/-! ### X / Y measurements (clifford.py `measure_x`, `measure_y`, `x_measurement_gate`; state.py `Stabilizer.apply_x_measurement`)

  Model of the code after the repairs D52 (measure_x / measure_y rotate back after the Z measurement) and D53
  (`x_measurement_gate` exists).  All three are compositions of operations above: change of basis on the caller's tableau,
  `z_measurement_gate`, change of basis back. -/

/-- `x_measurement_gate(tableau, q, determinism)` = `hadamard_gate; z_measurement_gate; hadamard_gate`; returns
    `(tableau, outcome, x_p)`.  `measure_x` does the same on the caller's tableau and returns only the outcome. -/
def measX (t : Tab) (q : Nat) (o : Bool) : Tab × Bool × Nat :=
  let r := (t.hGate q).zMeasure q o
  (r.1.hGate q, r.2.1, r.2.2)

/-- `measure_y(tableau, q, determinism)` = `phase_dagger_gate; hadamard_gate; z_measurement_gate; hadamard_gate; phase_gate`
    on the caller's tableau; the Python returns only the outcome -/
def measY (t : Tab) (q : Nat) (o : Bool) : Tab × Bool × Nat :=
  let r := ((t.sdgGate q).hGate q).zMeasure q o
  ((r.1.hGate q).sGate q, r.2.1, r.2.2)

/-- `control_y_gate(tableau, c, t)` of transformation.py = `phase_gate; z_gate; cnot_gate; phase_gate` (on the target) -/
def cyGate (t : Tab) (c tg : Nat) : Tab := (((t.sGate tg).zGate tg).cnotGate c tg).sGate tg

/-- `tensor(list_of_tables)`: the list is folded into its first element, one `tensor2` step per further factor -/
def tensorList (t : Tab) (ts : List Tab) : Tab := ts.foldl tensor2 t

/-- `Stabilizer.trace_out_qubits(positions)` / `MixedStabilizer.trace_out_qubits` (state.py, after the repair D54):
    `partial_trace` with `keep` = the qubits NOT listed, in increasing order -/
def traceOutQubits (t : Tab) (positions : List Nat) (os : List Bool) : Except Err Tab :=
  t.partialTrace ((List.range t.n).filter fun q => !positions.contains q) os

/-- the tableau API extended by the X / Y measurements, `control_y_gate` and the wrappers' `trace_out_qubits` -/
inductive OpX where
  | base (op : Op)
  | measX (q : Nat) (o : Bool)
  | measY (q : Nat) (o : Bool)
  | xMeasGate (q : Nat) (o : Bool)
  | cy (c t : Nat)
  | traceOut (positions : List Nat) (os : List Bool)

/-- the base operations an extended operation consists of, on a tableau of `n` qubits (only `traceOut` depends on `n`: its
    `keep` list is the complement of the listed positions) -/
def OpX.desugar (n : Nat) : OpX → List Op
  | .base op => [op]
  | .measX q o => [.h q, .meas q o, .h q]
  | .xMeasGate q o => [.h q, .meas q o, .h q]
  | .measY q o => [.sdg q, .h q, .meas q o, .h q, .s q]
  | .cy c t => [.s t, .z t, .cnot c t, .s t]
  | .traceOut positions os => [.ptrace ((List.range n).filter fun q => !positions.contains q) os]

/-- one extended API call (the first thing every one of the new gate / measurement functions does is a gate on the qubit,
    whose `assert` fires for an index `≥ n`; `control_y_gate` asserts on the target first, then `cnot_gate` on both) -/
def applyOpX (t : Tab) : OpX → Except Err (Tab × Option (Bool × Bool))
  | .base op => t.applyOp op
  | .measX q o =>
    if q < t.n then
      let r := t.measX q o
      .ok (r.1, some (r.2.1, r.2.2 ≠ 0))
    else .error .assertion
  | .xMeasGate q o =>
    if q < t.n then
      let r := t.measX q o
      .ok (r.1, some (r.2.1, r.2.2 ≠ 0))
    else .error .assertion
  | .measY q o =>
    if q < t.n then
      let r := t.measY q o
      .ok (r.1, some (r.2.1, r.2.2 ≠ 0))
    else .error .assertion
  | .cy c tg => if tg < t.n ∧ c < t.n then .ok (t.cyGate c tg, none) else .error .assertion
  | .traceOut positions os =>
    match t.traceOutQubits positions os with
    | .ok t' => .ok (t', none)
    | .error e => .error e

/-- a history of extended API calls -/
def runOpsX (t : Tab) : List OpX → Except Err Tab
  | [] => .ok t
  | op :: rest =>
    match t.applyOpX op with
    | .ok (t', _) => runOpsX t' rest
    | .error e => .error e

end Tab
end Graphiq
