/-
  Convert.lean — model of the state-representation conversions that have an exact (integer) meaning:
  `_graph_to_stabilizer_pure` (graph → generators), `_graph_to_density_pure` (|+…+⟩ then one CZ per edge, here on generators),
  and the validator for `state_to_graph` outputs (returned graph + single-qubit gates).
-/
import GraphiqModel.Model.Check
namespace Graphiq

/-- `StabilizerTableau([eye(n), adjacency])` -/
def graphSTab (n : Nat) (adj : Nat → Nat → Bool) : STab :=
  { n := n, row := fun i => ⟨fun j => decide (j = i), fun j => decide (j < n) && adj i j, false, false⟩ }

/-- `create_n_plus_state(n)` as generators -/
def plusSTab (n : Nat) : STab := { n := n, row := fun i => PRow.Xq i }

/-- `_graph_to_density_pure`: one CZ per edge, in list order -/
def czEdges (t : STab) (edges : List (Nat × Nat)) : STab :=
  edges.foldl (fun acc e => acc.map (PRow.cz e.1 e.2)) t

/-- number of edges of the list joining `i` and `j` (in either orientation), modulo 2 -/
def edgeParity (edges : List (Nat × Nat)) (i j : Nat) : Bool :=
  edges.foldl (fun acc e => xor acc (decide ((e.1 = i ∧ e.2 = j) ∨ (e.1 = j ∧ e.2 = i)))) false

/-- validator for `state_to_graph(state) = (graph, tab, gates)`: running the gates on the input state gives the graph state -/
def checkConversion (t : STab) (gates : List Gate) (adj : Nat → Nat → Bool) : Bool :=
  gates.all (Gate.inBounds t.n) && (t.runCircuit gates).sameGroup (graphSTab t.n adj)

end Graphiq
