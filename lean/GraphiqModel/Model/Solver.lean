/-
  Solver.lean — model of `graphiq/solvers/time_reversed_solver.py` (`TimeReversedSolver.solve` and its helpers) at the level of
  the stabilizer tableau it transforms backwards and the circuit it builds by inserting operations at the beginning of wires.
  Qubit indices are global: photons `0..np-1`, emitters `np..np+ne-1`.
-/
import GraphiqModel.Model.StabTableau
import GraphiqModel.Model.Clifford1
import GraphiqModel.Model.Circuit
namespace Graphiq.Solver
open Graphiq Graphiq.Cliff

/-- operations the solver places; the list is kept in time order (head = earliest) -/
inductive SOp where
  | wrap (gs : List Gen) (q : Nat)          -- OneQubitGateWrapper on global qubit `q`
  | emit (e p : Nat)                        -- CNOT emitter e → photon p, labelled Fixed
  | cnotEE (c t : Nat)                      -- CNOT between emitters (emitter numbers)
  | mcr (e p : Nat)                         -- MeasurementCNOTandReset emitter e → photon p, labelled Fixed
  deriving Repr, DecidableEq, Inhabited

structure St where
  np : Nat
  ne : Nat
  t : STab
  circ : List SOp

def SOp.touches (np : Nat) (q : Nat) : SOp → Bool
  | .wrap _ i => i == q
  | .emit e p => np + e == q || p == q
  | .cnotEE c t => np + c == q || np + t == q
  | .mcr e p => np + e == q || p == q

def identityPair : List Gen := [.I, .I]

/-- register (type, index) of a global qubit index: photons `0..np-1`, then emitters -/
def regOf (np q : Nat) : QReg := if q < np then ⟨.p, q⟩ else ⟨.e, q - np⟩

/-- a recorded operation as an operation of the circuit model (`Model/Circuit.lean`); this is the translation under which the
    solver's circuit is printed by the driver (`solver.trs`), compared with the implementation's, and run by `stabRun` -/
def SOp.toCOp (np : Nat) : SOp → COp
  | .wrap gs q => .wrap gs (regOf np q)
  | .emit e p => .cnot ⟨.e, e⟩ ⟨.p, p⟩
  | .cnotEE c t => .cnot ⟨.e, c⟩ ⟨.e, t⟩
  | .mcr e p => .mcr ⟨.e, e⟩ ⟨.p, p⟩ 0

/-- the circuit built so far, in time order, as a `Model/Circuit.lean` operation list -/
def St.cops (s : St) : List COp := s.circ.map (SOp.toCOp s.np)

/-- `_add_one_qubit_gate(circuit, gate_list, index)`: merge with a wrapper that is first on the wire, simplify, drop identities -/
def addOneQubit (s : St) (gs : List Gen) (q : Nat) : Except Err St :=
  -- split the circuit at the first operation on wire `q`
  let pre := s.circ.takeWhile fun o => !o.touches s.np q
  let post := s.circ.dropWhile fun o => !o.touches s.np q
  match post with
  | .wrap old _ :: rest =>
    match simplify (old ++ gs) with
    | none => .error .value
    | some g' => if g' = identityPair then .ok { s with circ := pre ++ rest } else .ok { s with circ := pre ++ .wrap g' q :: rest }
  | _ =>
    match simplify gs with
    | none => .error .value
    | some g' => if g' = identityPair then .ok s else .ok { s with circ := .wrap g' q :: s.circ }

/-- apply a gate to the tableau (`transform.*_gate(tableau, …)`) -/
def St.gate (s : St) (g : Gate) : St := { s with t := (s.t.applyGate g).norm }

/-- `_change_pauli_type(tableau, row, column, 'z')`: returns the gate list for the circuit (in wrapper order) -/
def changeToZ (s : St) (row col : Nat) : St × List Gen :=
  match s.t.ptype row col with
  | 1 => (s.gate (.H col), [.H])                                   -- X: Hadamard
  | 2 => ((s.gate (.Pdag col)).gate (.H col), [.P, .H])            -- Y: P† then H on the tableau; circuit list [Phase, Hadamard]
  | _ => (s, [])

/-- `_find_emitter_indices`: emitters on which the generator acts non-trivially -/
def emitterIndices (s : St) (g : Nat) : List Nat :=
  (List.range s.ne).filter fun e => (s.t.row g).x (s.np + e) || (s.t.row g).z (s.np + e)

/-- `_add_one_emitter_cnot` + `cnot_gate` on the tableau -/
def addEmitterCnot (s : St) (c t : Nat) : St :=
  { (s.gate (.CNOT (s.np + c) (s.np + t))) with circ := .cnotEE c t :: s.circ }

/-- `_transform_generator_emitters(circuit, tableau, g, target)` -/
def transformGeneratorEmitters (s : St) (g target : Nat) : Except Err St :=
  if s.ne = 1 then .ok s else
  if (List.range s.t.n).any fun j => (s.t.row g).x j then .error .assertion else
  let emitters := (List.range s.ne).filter fun e => (s.t.row g).z (s.np + e)
  let rest := emitters.filter fun e => e ≠ target
  .ok (rest.foldl (fun acc c => addEmitterCnot acc c target) s)

/-- the loop `for i in range(n_emitter): change_pauli_type(…, 'z'); add gate` (`skipEmpty`: `_single_out_emitter` adds only non-empty lists) -/
def allEmittersToZ (s : St) (g : Nat) (skipEmpty : Bool) : Except Err St :=
  (List.range s.ne).foldlM (fun (acc : St) i =>
    let (a1, gl) := changeToZ acc g (acc.np + i)
    if skipEmpty && gl.isEmpty then .ok a1 else addOneQubit a1 gl (acc.np + i)) s

/-- `if tableau.phase[g] == 1: x_gate(tableau, emitter); add [SigmaX]` -/
def fixSign (s : St) (g emitter : Nat) : Except Err St :=
  if (s.t.row g).r then addOneQubit (s.gate (.X (s.np + emitter))) [.X] (s.np + emitter) else .ok s

/-- `_time_reversed_measurement(circuit, tableau, photon_index)` -/
def timeReversedMeasurement (s : St) (photon : Nat) : Except Err St :=
  let cands := (List.range s.t.n).filter fun i => (List.range s.np).all fun j => !(s.t.row i).x j && !(s.t.row i).z j
  match cands with
  | [] => .error .assertion
  | g :: _ =>
    match emitterIndices s g with
    | [] => .error .index
    | e :: _ =>
      match allEmittersToZ s g true with
      | .error err => .error err
      | .ok s1 =>
        match transformGeneratorEmitters s1 g e with
        | .error err => .error err
        | .ok s2 =>
          match fixSign s2 g e with
          | .error err => .error err
          | .ok s3 =>
            let s4 := s3.gate (.H (s.np + e))
            let s5 : St := { s4 with circ := .mcr e photon :: s4.circ }
            .ok (s5.gate (.CNOT (s.np + e) photon))

/-- `_add_photon_absorption(circuit, tableau, photon_index)` -/
def addPhotonAbsorption (s : St) (photon : Nat) : Except Err St :=
  match ((List.range s.t.n).reverse.filter fun i => s.t.leftmost i == some photon).head? with
  | none => .error .runtime      -- UnboundLocalError in the Python
  | some g =>
    let (s0, gl) := changeToZ s g photon
    match addOneQubit s0 gl photon with
    | .error err => .error err
    | .ok s1 =>
      match emitterIndices s1 g with
      | [] => .error .index
      | e :: _ =>
        match allEmittersToZ s1 g false with
        | .error err => .error err
        | .ok s2 =>
          match transformGeneratorEmitters s2 g e with
          | .error err => .error err
          | .ok s3 =>
            match fixSign s3 g e with
            | .error err => .error err
            | .ok s4 =>
              let s5 : St := { s4 with circ := .emit e photon :: s4.circ }
              let s6 := s5.gate (.CNOT (s.np + e) photon)
              let zs := ((List.range s6.t.n).filter fun i => s6.t.ptype i photon = 3).filter fun i => i ≠ g
              .ok { s6 with t := (zs.foldl (fun acc i => acc.rowSum g i) s6.t).norm }

/-- `_add_gates_from_str(circuit, tableau, gate_str_list)` -/
def addGatesFromStr (s : St) (gl : List Gate) : Except Err St :=
  gl.foldlM (fun (acc : St) g =>
    match g with
    | .H q => (addOneQubit acc [.H] q).map fun a => a.gate (.H q)
    | .P q => (addOneQubit acc [.Z, .P] q).map fun a => a.gate (.P q)
    | .X q => (addOneQubit acc [.X] q).map fun a => a.gate (.X q)
    | .CNOT c t => if acc.np ≤ c ∧ acc.np ≤ t then .ok (addEmitterCnot acc (c - acc.np) (t - acc.np)) else .error .key
    | .CZ c t =>
      if acc.np ≤ c ∧ acc.np ≤ t then
        match addOneQubit acc [.H] t with
        | .error e => .error e
        | .ok a1 =>
          let a2 := addEmitterCnot (a1.gate (.H t)) (c - acc.np) (t - acc.np)
          (addOneQubit a2 [.H] t).map fun a => a.gate (.H t)
      else .error .key
    | _ => .error .value) s

/-- `determine_n_emitters`: maximum of the height function -/
def determineNEmitters (t : STab) : Except Err Nat :=
  match t.rref with
  | .error e => .error e
  | .ok (t1, _) =>
    match t1.heightFuncList with
    | .error e => .error e
    | .ok [] => .error .value                 -- max() of an empty list
    | .ok (h :: hs) => .ok ((hs.foldl max h).toNat)

/-- the photon loop of `solve`: `for j in range(n_photon, 0, -1)` -/
def photonLoop (s : St) : List Nat → Except Err St
  | [] => .ok s
  | j :: rest =>
    match s.t.rref with
    | .error e => .error e
    | .ok (t1, _) =>
      match t1.heightFuncList with
      | .error e => .error e
      | .ok hl =>
        let hl0 : List Int := 0 :: hl
        let s1 : St := { s with t := t1 }
        let step : Except Err St :=
          if hl0.getD j 0 < hl0.getD (j - 1) 0 then
            match timeReversedMeasurement s1 (j - 1) with
            | .error e => .error e
            | .ok s2 =>
              match s2.t.rref with
              | .error e => .error e
              | .ok (t2, _) => .ok { s2 with t := t2 }
          else .ok s1
        match step with
        | .error e => .error e
        | .ok s3 =>
          match addPhotonAbsorption s3 (j - 1) with
          | .error e => .error e
          | .ok s4 => photonLoop s4 rest

/-- `TimeReversedSolver.solve()` up to (not including) compilation and scoring; `target` is the stabilizer tableau of the target -/
def solve (target : STab) : Except Err St :=
  match determineNEmitters target with
  | .error e => .error e
  | .ok ne =>
    let np := target.n
    let t0 := (List.range ne).foldl (fun (acc : STab) _ => (acc.insertQubit acc.n).norm) target
    match photonLoop { np := np, ne := ne, t := t0, circ := [] } ((List.range np).reverse.map (· + 1)) with
    | .error e => .error e
    | .ok s1 =>
      match s1.t.rref with
      | .error e => .error e
      | .ok (t2, _) =>
        let okX := (List.range np).all fun i => (List.range np).all fun j => !(t2.row i).x j
        let okZ := (List.range np).all fun i => (List.range np).all fun j => (t2.row i).z j == (i == j)
        if !(okX && okZ) then .error .assertion else
        match t2.inverseCircuit with
        | .error e => .error e
        | .ok (_, inv) =>
          match addGatesFromStr { s1 with t := t2 } inv with
          | .error e => .error e
          | .ok s3 =>
            (List.range ne).foldlM (fun (acc : St) i =>
              if (acc.t.row (np + i)).r then addOneQubit (acc.gate (.X (np + i))) [.X] (np + i) else .ok acc) s3

end Graphiq.Solver
