/-
  Proofs/LCGates2.lean — the phase correction and the validation of `lc_check` never fail for a valid `Q`:

  * `groupSign_complete`: for a valid tableau with Hermitian stabilizers, `groupSign t P` finds the sign with which a
    Hermitian row `P` lies in the stabilizer group whenever `±P` does (the product selected by the anticommutation pattern
    with the destabilizers is the only candidate, and it is the right one);
  * `zGates_grp`: Pauli-Z gates on a set of qubits flip exactly the signs of the group elements with an `X` on an odd number
    of them;
  * `converter_total`: for every valid `Q` of `(A, B)`, the signs are all found, the `Z` corrections turn every `−K_k(B)` into
    `+K_k(B)`, and the total gate list maps the graph state of `A` exactly onto the graph state of `B` — the check of
    `lc_check(validate=True)` passes.
-/
import GraphiqModel.Proofs.LCGates
import GraphiqModel.Proofs.TabSpecOps
import GraphiqModel.Proofs.LCRepair
namespace Graphiq.LC
open Graphiq PRow Tab Graphiq.TabSpec

/-! ### completeness of `groupSign` -/

/-- symplectic product of the selected product of stabilizers with a row of the tableau -/
theorem sp_foldl_stab (t : Tab) (hv : t.Valid) (l : List Nat) (hl : ∀ d ∈ l, d < t.n) (hnd : l.Nodup) (acc : PRow)
    (i : Nat) (hi : i < 2 * t.n) :
    sp t.n (l.foldl (fun acc d => PRow.mul t.n (t.row (d + t.n)) acc) acc) (t.row i) =
      xor (sp t.n acc (t.row i)) (decide (i ∈ l)) := by
  induction l generalizing acc with
  | nil => simp
  | cons d rest ih =>
    have hd := hl d List.mem_cons_self
    have hnd' := List.nodup_cons.mp hnd
    simp only [List.foldl_cons]
    rw [ih (fun e he => hl e (List.mem_cons_of_mem _ he)) hnd'.2, sp_mul_left, hv (d + t.n) i (by omega) hi]
    have e1 : decide (d + t.n + t.n = i ∨ i + t.n = d + t.n) = decide (i = d) := by
      apply decide_eq_decide.mpr; omega
    rw [e1]
    by_cases e : i = d
    · subst e
      have : i ∉ rest := hnd'.1
      simp [this]
    · simp [e, List.mem_cons]

theorem eqOn_beqOn (n : Nat) (a b : PRow) (h : EqOn n a b) : PRow.beqOn n a b = true := by
  unfold PRow.beqOn
  simp only [Bool.and_eq_true, List.all_eq_true, List.mem_range, beq_iff_eq]
  exact ⟨⟨fun j hj => h.1 j hj, h.2.1⟩, h.2.2⟩

/-- **`groupSign` is complete**: if a member `Q` of the stabilizer group has the Pauli part of the Hermitian row `P` (so `Q` is
    `P` or `−P`), `groupSign t P` returns the sign of `Q` -/
theorem groupSign_complete (t : Tab) (hv : t.Valid) (hr : t.StabReal) (P Q : PRow) (hP : P.ip = false)
    (hQ : Grp t Q) (hb : SameBits t.n Q P) : groupSign t P = some Q.r := by
  have hgrp := grp_isStabGrp t hv hr
  -- the product selected by the anticommutation pattern with the destabilizers
  have hmem : ∀ d, d ∈ filterTo t.n (fun d => PRow.sp t.n P (t.row d)) ↔ d < t.n ∧ PRow.sp t.n P (t.row d) = true :=
    fun d => mem_filterTo _ _ d
  have hnd : (filterTo t.n fun d => PRow.sp t.n P (t.row d)).Nodup :=
    List.Nodup.sublist List.filter_sublist List.nodup_range
  have hp : Grp t (groupProduct t P) := by
    unfold groupProduct
    exact foldl_inSpan t _ _ (fun d hd => ((hmem d).mp hd).1) InSpan.one
  -- it has the bits of Q: same symplectic products with all rows
  have hbits : SameBits t.n (groupProduct t P) Q := by
    apply sameBits_of_sp t hv
    intro i hi
    rcases Nat.lt_or_ge i t.n with hlt | hge
    · -- destabilizer row
      unfold groupProduct
      rw [sp_foldl_stab t hv _ (fun d hd => ((hmem d).mp hd).1) hnd PRow.one i hi]
      have h1 : sp t.n PRow.one (t.row i) = false := STab.sp_one_left _ _
      rw [h1, sp_congr t.n Q P (t.row i) (t.row i) hb (sameBits_refl _ _)]
      by_cases hs : sp t.n P (t.row i) = true
      · have : i ∈ filterTo t.n (fun d => PRow.sp t.n P (t.row d)) := (hmem i).mpr ⟨hlt, hs⟩
        simp [this, hs]
      · have : i ∉ filterTo t.n (fun d => PRow.sp t.n P (t.row d)) := fun h => hs ((hmem i).mp h).2
        have hs' : sp t.n P (t.row i) = false := by simpa using hs
        simp [this, hs']
    · -- stabilizer row: both are in the (abelian) group
      have hrow : Grp t (t.row i) := grp_row t i hge hi
      rw [hgrp.comm _ _ hp hrow, hgrp.comm _ _ hQ hrow]
  -- hence it is Q itself
  have heq : EqOn t.n (groupProduct t P) Q := by
    rcases eqOn_or_negate t.n _ _ hbits ((hgrp.real _ hp).trans (hgrp.real _ hQ).symm) with h | h
    · exact h
    · exact absurd (hgrp.eqv _ _ hp h) (hgrp.cons Q hQ)
  unfold groupSign
  simp only []
  have hip : (groupProduct t P).ip = false := hgrp.real _ hp
  have hcheck : PRow.beqOn t.n (groupProduct t P) { P with r := (groupProduct t P).r } = true := by
    apply eqOn_beqOn
    refine ⟨fun j hj => ?_, rfl, ?_⟩
    · exact ⟨((heq.1 j hj).1).trans (hb j hj).1, ((heq.1 j hj).2).trans (hb j hj).2⟩
    · show (groupProduct t P).ip = P.ip
      rw [hip, hP]
  rw [hcheck, hip]
  simp only [Bool.not_false, Bool.and_self, if_true]
  rw [heq.2.1]

/-! ### Pauli-Z gates -/

/-- `z_gate` on one row: the sign flips iff the row has an `X` on the qubit -/
theorem zg_eqOn (n q : Nat) (p : PRow) : EqOn n (PRow.zg q p) { p with r := xor p.r (p.x q) } := by
  refine ⟨fun j _ => ⟨rfl, ?_⟩, ?_, rfl⟩
  · show (if j = q then xor (if j = q then xor (p.z j) (p.x q) else p.z j) (p.x q) else
        (if j = q then xor (p.z j) (p.x q) else p.z j)) = p.z j
    by_cases e : j = q
    · simp [e]
    · simp [e]
  · show xor (xor p.r (p.x q && p.z q)) (p.x q && (if q = q then xor (p.z q) (p.x q) else p.z q)) = xor p.r (p.x q)
    simp
    cases p.r <;> cases p.x q <;> cases p.z q <;> rfl

/-- the sign picked up from `Z` gates on the listed qubits -/
def zSign (l : List Nat) (p : PRow) : Bool := l.foldl (fun acc q => xor acc (p.x q)) false

/-- running `Z` gates on the listed qubits of a valid tableau with Hermitian stabilizers never fails, keeps it so, and maps
    every group element to the same Pauli string with the sign changed by `zSign` -/
theorem zGates_grp (t : Tab) (hv : t.Valid) (hr : t.StabReal) (l : List Nat) (hl : ∀ q ∈ l, q < t.n) :
    ∃ t', runGates t (l.map fun q => ("Z", q)) = .ok t' ∧ t'.n = t.n ∧ t'.Valid ∧ t'.StabReal ∧
      ∀ Q, Grp t Q → Grp t' { Q with r := xor Q.r (zSign l Q) } := by
  induction l generalizing t with
  | nil =>
    refine ⟨t, rfl, rfl, hv, hr, fun Q hQ => ?_⟩
    have : ({ Q with r := xor Q.r (zSign [] Q) } : PRow) = Q := by simp [zSign]
    rw [this]; exact hQ
  | cons q rest ih =>
    have hq := hl q List.mem_cons_self
    have hv1 : (t.zGate q).norm.Valid := tab_norm_valid _ (zGate_valid t q hq hv)
    have hr1 : (t.zGate q).norm.StabReal := norm_stabReal _ (map_stabReal t _ (isAut1_zg t.n q hq).ip hr)
    obtain ⟨t', e', n', v', r', g'⟩ := ih (t.zGate q).norm hv1 hr1 (fun q' h' => hl q' (List.mem_cons_of_mem _ h'))
    refine ⟨t', ?_, by rw [n']; rfl, v', r', fun Q hQ => ?_⟩
    · simp only [List.map_cons, runGates, applyGate, if_pos hq]
      exact e'
    · have h1 : Grp (t.zGate q).norm (PRow.zg q Q) :=
        (norm_grp (t.zGate q) _).mpr (map_grp_of t (PRow.zg q) (isAut1_zg t.n q hq) Q hQ)
      have h2 := g' _ h1
      refine InSpan.eqv _ _ h2 ?_
      have hz := zg_eqOn t.n q Q
      have hn : t'.n = t.n := by rw [n']; rfl
      rw [hn]
      refine ⟨fun j hj => ⟨(hz.1 j hj).1, (hz.1 j hj).2⟩, ?_, hz.2.2⟩
      show xor (PRow.zg q Q).r (zSign rest (PRow.zg q Q)) = xor Q.r (zSign (q :: rest) Q)
      have hx : ∀ j, (PRow.zg q Q).x j = Q.x j := fun _ => rfl
      have hzs : zSign rest (PRow.zg q Q) = zSign rest Q := by
        unfold zSign
        congr 1
      rw [hz.2.1, hzs]
      show xor (xor Q.r (Q.x q)) (zSign rest Q) = xor Q.r (zSign (q :: rest) Q)
      have : zSign (q :: rest) Q = xor (Q.x q) (zSign rest Q) := by
        unfold zSign
        simp only [List.foldl_cons, Bool.false_xor]
        generalize Q.x q = b
        have gen : ∀ (l : List Nat) (a c : Bool),
            l.foldl (fun acc q => xor acc (Q.x q)) (xor a c) = xor a (l.foldl (fun acc q => xor acc (Q.x q)) c) := by
          intro l
          induction l with
          | nil => intro a c; rfl
          | cons x xs ihx =>
            intro a c
            simp only [List.foldl_cons]
            rw [← ihx a (xor c (Q.x x))]
            congr 1
            cases a <;> cases c <;> cases Q.x x <;> rfl
        have := gen rest b false
        simpa using this
      rw [this]
      cases Q.r <;> cases Q.x q <;> cases zSign rest Q <;> rfl

/-! ### the whole gate list: gates of `Q`, then the `Z` corrections -/

theorem runGates_append (t t1 : Tab) (l1 l2 : List (String × Nat)) (h : runGates t l1 = .ok t1) :
    runGates t (l1 ++ l2) = runGates t1 l2 := by
  induction l1 generalizing t with
  | nil => simp only [runGates] at h; cases h; rfl
  | cons g rest ih =>
    simp only [List.cons_append, runGates] at h ⊢
    split at h
    · cases h
    · exact ih _ h

theorem filterMap_ite_eq_map_filter (l : List Nat) (c : Nat → Bool) :
    l.filterMap (fun q => if c q = true then some ("Z", q) else none) = (l.filter c).map fun q => ("Z", q) := by
  induction l with
  | nil => rfl
  | cons a l ih =>
    simp only [List.filterMap_cons, List.filter_cons]
    cases c a <;> simp [ih]

/-- the sign picked up by a row with a single `X`, on qubit `k` -/
theorem zSign_single (l : List Nat) (hnd : l.Nodup) (p : PRow) (k : Nat) (hx : ∀ j, p.x j = decide (j = k)) :
    zSign l p = decide (k ∈ l) := by
  unfold zSign
  have gen : ∀ (l : List Nat) (a : Bool), l.Nodup →
      l.foldl (fun acc q => xor acc (p.x q)) a = xor a (decide (k ∈ l)) := by
    intro l
    induction l with
    | nil => intro a _; simp
    | cons x xs ih =>
      intro a hn
      have hn' := List.nodup_cons.mp hn
      simp only [List.foldl_cons]
      rw [ih _ hn'.2, hx x]
      by_cases e : x = k
      · subst e
        have : x ∉ xs := hn'.1
        simp [this]
      · have : ¬ k = x := fun h => e h.symm
        simp [e, this]
  have := gen l false hnd
  simpa using this

/-- **the gate list of `converter_gate_list` maps the graph state of `A` exactly onto the graph state of `B`, and the model's
    phase correction and validation cannot fail**: for every `Q` with invertible blocks that solves the system for `(A, B)`,
    the gates of `Q` run (`t1`), every `groupSign t1 (K_k(B))` is found, the `Z` gates on the qubits with sign `−` are the phase
    correction, the total list runs (`t2`), and `t2` is the graph state of `B` with all signs `+` -/
theorem converter_core (n : Nat) (A B : Adj) (hA : Simple n A) (hB : Simple n B) (v : List Bool)
    (hq : ∀ j k, j < n → k < n → equation n A B (vget v) j k = false) (hv : isValidClifford n v = true) :
    ∃ t1 zs t2, runGates (graphTab n A) (qGates n v) = .ok t1 ∧ phaseCorrection t1 B = some zs ∧
      runGates (graphTab n A) (qGates n v ++ zs) = .ok t2 ∧ isGraphState t2 B = true := by
  obtain ⟨t1, e1, hn1, hv1, hr1, hK⟩ := gates_map_state_up_to_signs n A B hA hB v hq hv
  -- every sign is found, and the signed generator is in the group
  have hsign : ∀ k, k < n → ∃ s, groupSign t1 (graphGen B k) = some s ∧ Grp t1 { graphGen B k with r := s } := by
    intro k hk
    rcases hK k hk with h | h
    · exact ⟨false, groupSign_complete t1 hv1 hr1 _ _ rfl h (sameBits_refl _ _), h⟩
    · exact ⟨true, groupSign_complete t1 hv1 hr1 (graphGen B k) (negate (graphGen B k)) rfl h
        (fun _ _ => ⟨rfl, rfl⟩), h⟩
  let D := (List.range n).filter fun q => groupSign t1 (graphGen B q) == some true
  have hD : ∀ q ∈ D, q < t1.n := fun q hq => by
    rw [hn1]; exact List.mem_range.mp (List.mem_filter.mp hq).1
  have hDnd : D.Nodup := List.Nodup.sublist List.filter_sublist List.nodup_range
  -- the phase correction is the list of Z gates on D
  have hphase : phaseCorrection t1 B = some (D.map fun q => ("Z", q)) := by
    unfold phaseCorrection
    simp only []
    have hall : ((List.range t1.n).map fun q => groupSign t1 (graphGen B q)).all Option.isSome = true := by
      rw [List.all_eq_true]
      intro o ho
      obtain ⟨q, hq, e⟩ := List.mem_map.mp ho
      rw [hn1] at hq
      obtain ⟨s, hs, _⟩ := hsign q (List.mem_range.mp hq)
      rw [← e, hs]; rfl
    rw [if_pos hall, hn1]
    congr 1
    rw [← filterMap_ite_eq_map_filter]
    apply List.filterMap_congr
    intro q hq
    have hq' := List.mem_range.mp hq
    have : ((List.range n).map fun q => groupSign t1 (graphGen B q)).getD q none = groupSign t1 (graphGen B q) := by
      simp [List.getD, hq']
    rw [this]
  obtain ⟨t2, e2, hn2, hv2, hr2, hg2⟩ := zGates_grp t1 hv1 hr1 D hD
  refine ⟨t1, _, t2, e1, hphase, by rw [runGates_append _ t1 _ _ e1]; exact e2, ?_⟩
  unfold isGraphState
  rw [List.all_eq_true]
  intro k hk
  have hk' : k < n := by
    have := List.mem_range.mp hk
    rw [hn2, hn1] at this; exact this
  obtain ⟨s, hs, hgs⟩ := hsign k hk'
  have h2 := hg2 _ hgs
  have hz : zSign D ({ graphGen B k with r := s } : PRow) = decide (k ∈ D) :=
    zSign_single D hDnd _ k (fun _ => rfl)
  have hkD : decide (k ∈ D) = s := by
    have : k ∈ D ↔ s = true := by
      simp only [D, List.mem_filter, List.mem_range, hs]
      constructor
      · intro h; simpa using h.2
      · intro h; exact ⟨hk', by simp [h]⟩
    cases s
    · simp [this]
    · simp [this]
  have hin : Grp t2 (graphGen B k) := by
    refine InSpan.eqv _ _ h2 ⟨fun _ _ => ⟨rfl, rfl⟩, ?_, rfl⟩
    show xor s (zSign D ({ graphGen B k with r := s } : PRow)) = false
    rw [hz, hkD]; simp
  rw [groupSign_complete t2 hv2 hr2 _ _ rfl hin (sameBits_refl _ _)]
  rfl

/-! ### `converter_gate_list` and `lc_check` -/

/-- `converter_gate_list` and `lc_check` over the whole-graph algorithm: after a `yes` they return the gates of `Q` followed by
    `Z` corrections — no assertion, no warning — with or without validation -/
theorem lcCheck_of_yes (a b : BMat) (out : EqOut) (s : List Bool) (hn : 0 < a.r) (hab : a.r = b.r)
    (ha : Simple a.r a.f) (hb : Simple b.r b.f) (e : isLcEquivalent a b .det [] = .ok out) (hs : out.sol = some s) :
    ∃ zs, converterGateList a b = .ok (qGates a.r s ++ zs, true) ∧
      ∀ validate, lcCheck a b validate = .ok (true, qGates a.r s ++ zs) := by
  obtain ⟨_, h2, h3⟩ := isLcEquivalent_sound_all a b .det [] out s hn e hs
  have h2' := (solF_coeff_iff a.r a.f b.f _).mp h2
  have hb' : Simple a.r b.f := by rw [hab]; exact hb
  obtain ⟨t1, zs, t2, e1, e2, e3, e4⟩ := converter_core a.r a.f b.f ha hb' s h2' h3
  have hconv : converterGateList a b = .ok (qGates a.r s ++ zs, true) := by
    unfold converterGateList
    rw [e]
    simp only [hs]
    show ((match runGates (graphTab a.r a.f) (qGates a.r s) with
      | Except.error e => Except.error e
      | Except.ok t => match phaseCorrection t b.f with
        | some zs => Except.ok (qGates a.r s ++ zs, true)
        | none => Except.ok (qGates a.r s, false)) : Except Err (List (String × Nat) × Bool)) = _
    rw [e1]
    simp only [e2]
  refine ⟨zs, hconv, fun validate => ?_⟩
  unfold lcCheck
  rw [hconv]
  simp only []
  cases validate
  · rfl
  · simp only [if_true, e3, e4]

/-- the same over the repaired function -/
theorem lcCheckR_of_yes (a b : BMat) (out : EqOutR) (s : List Bool) (hab : a.r = b.r)
    (ha : Simple a.r a.f) (hb : Simple b.r b.f) (e : isLcEquivalentR a b .det [] = .ok out) (hs : out.sol = some s) :
    ∃ zs, converterGateListR a b = .ok (qGates a.r s ++ zs, true) ∧
      ∀ validate, lcCheckR a b validate = .ok (true, qGates a.r s ++ zs) := by
  have hb' : Simple a.r b.f := by rw [hab]; exact hb
  obtain ⟨_, h2, h3⟩ := isLcEquivalentR_yes a b .det [] out s ha hb' e hs
  obtain ⟨t1, zs, t2, e1, e2, e3, e4⟩ := converter_core a.r a.f b.f ha hb' s h2 h3
  have hconv : converterGateListR a b = .ok (qGates a.r s ++ zs, true) := by
    unfold converterGateListR
    rw [e]
    simp only [hs]
    show ((match runGates (graphTab a.r a.f) (qGates a.r s) with
      | Except.error e => Except.error e
      | Except.ok t => match phaseCorrection t b.f with
        | some zs => Except.ok (qGates a.r s ++ zs, true)
        | none => Except.ok (qGates a.r s, false)) : Except Err (List (String × Nat) × Bool)) = _
    rw [e1]
    simp only [e2]
  refine ⟨zs, hconv, fun validate => ?_⟩
  unfold lcCheckR
  rw [hconv]
  simp only []
  cases validate
  · rfl
  · simp only [if_true, e3, e4]

/-- after a `no`, `lc_check` returns `(False, [])` (the assertion of `converter_gate_list` is swallowed by the bare `except`) -/
theorem lcCheckR_of_no (a b : BMat) (out : EqOutR) (e : isLcEquivalentR a b .det [] = .ok out) (hs : out.sol = none)
    (validate : Bool) : lcCheckR a b validate = .ok (false, []) := by
  unfold lcCheckR converterGateListR
  rw [e]
  simp only [hs]

end Graphiq.LC
