/-
  Proofs/EchelonSpan.lean — the echelon lemma: in an echelon tableau a product of generators is non-trivial at the leading
  site of the first generator used.  Hence the generators are independent, and a group element supported right of site `k`
  is a product of the generators whose leading site is right of `k`.  All sizes; core Lean only.
-/
import GraphiqModel.Proofs.EchelonRref
namespace Graphiq
open PRow

theorem parityTo_one (n q : Nat) (f : Nat → Bool) (hq : q < n) (h : ∀ j, j < n → j ≠ q → f j = false) :
    parityTo n f = f q := by
  rw [parityTo_congr n f (fun j => decide (j = q) && f j)]
  · exact parityTo_single n q f hq
  · intro j hj
    by_cases e : j = q
    · subst e; simp
    · simp [e, h j hj e]

theorem parityTo_two' (n c t : Nat) (f : Nat → Bool) (hc : c < n) (ht : t < n) (hct : c ≠ t)
    (h : ∀ j, j < n → j ≠ c → j ≠ t → f j = false) : parityTo n f = xor (f c) (f t) := by
  rw [parityTo_congr n f (fun j => decide (j < n) && f j) (fun j hj => by simp [hj])]
  rw [parityTo_two n c t _ hc ht hct]
  · simp [hc, ht]
  · intro j h1 h2
    by_cases hj : j < n
    · simp [h j hj h1 h2]
    · simp [hj]

namespace STab

/-- X-bits of the product of the generators selected by `S` -/
def comboX (t : STab) (S : Nat → Bool) (j : Nat) : Bool := parityTo t.n fun i => S i && (t.row i).x j
/-- Z-bits of the product of the generators selected by `S` -/
def comboZ (t : STab) (S : Nat → Bool) (j : Nat) : Bool := parityTo t.n fun i => S i && (t.row i).z j

theorem exists_min (S : Nat → Bool) (m : Nat) :
    (∀ i, i < m → S i = false) ∨ ∃ i0, i0 < m ∧ S i0 = true ∧ ∀ i, i < i0 → S i = false := by
  induction m with
  | zero => left; intro i hi; omega
  | succ m ih =>
    rcases ih with h | ⟨i0, h1, h2, h3⟩
    · cases hs : S m
      · left
        intro i hi
        by_cases e : i = m
        · subst e; exact hs
        · exact h i (by omega)
      · right; exact ⟨m, by omega, hs, h⟩
    · right; exact ⟨i0, by omega, h2, h3⟩

theorem bits_ne_of_pt_ne (a b : PRow) (j : Nat) (h : a.pt j ≠ b.pt j) :
    (xor (a.x j) (b.x j) || xor (a.z j) (b.z j)) = true := by
  cases hx : xor (a.x j) (b.x j) <;> cases hz : xor (a.z j) (b.z j) <;> simp
  exfalso; apply h
  apply PRow.pt_congr
  · cases ha : a.x j <;> cases hb : b.x j <;> simp [ha, hb] at hx ⊢
  · cases ha : a.z j <;> cases hb : b.z j <;> simp [ha, hb] at hz ⊢

/-- **echelon lemma**: a product of generators of an echelon tableau is not the identity at the leading site of the first
    generator in the product -/
theorem echelon_min_nonzero (t : STab) (piv : Nat → Nat) (he : Echelon t piv) (S : Nat → Bool) (i0 : Nat) (hi0 : i0 < t.n)
    (hS : S i0 = true) (hmin : ∀ i, i < i0 → S i = false) :
    (t.comboX S (piv i0) || t.comboZ S (piv i0)) = true := by
  have hl0 := he.lead i0 hi0
  have hnz : ((t.row i0).x (piv i0) || (t.row i0).z (piv i0)) = true := by
    cases h : ((t.row i0).x (piv i0) || (t.row i0).z (piv i0))
    · exact absurd ((PRow.pt_eq_zero_iff _ _).2 h) hl0.2.2
    · rfl
  -- rows far below are trivial at the site
  have far : ∀ i, i < t.n → i0 < i → piv i ≠ piv i0 → (t.row i).x (piv i0) = false ∧ (t.row i).z (piv i0) = false := by
    intro i hi h1 h2
    have hs := he.sorted i0 i h1 hi
    have : piv i0 < piv i := by omega
    exact PRow.pt_zero_bits _ _ ((he.lead i hi).2.1 _ this)
  by_cases hc : i0 + 1 < t.n ∧ S (i0 + 1) = true ∧ piv (i0 + 1) = piv i0
  · obtain ⟨h1, h2, h3⟩ := hc
    have hs := he.sorted i0 (i0 + 1) (by omega) h1
    have hne := (hs.2 h3.symm).2
    have vanish : ∀ (g : PRow → Bool), (∀ i, i < t.n → i0 < i → piv i ≠ piv i0 → g (t.row i) = false) →
        ∀ j, j < t.n → j ≠ i0 → j ≠ i0 + 1 → (S j && g (t.row j)) = false := by
      intro g hg j hj n1 n2
      by_cases hlt : j < i0
      · simp [hmin j hlt]
      · have hgt : i0 < j := by omega
        have hp : piv j ≠ piv i0 := by
          intro e
          have := (he.sorted i0 j hgt hj).2 e.symm
          omega
        simp [hg j hj hgt hp]
    have ex : t.comboX S (piv i0) = xor ((t.row i0).x (piv i0)) ((t.row (i0 + 1)).x (piv i0)) := by
      unfold comboX
      rw [parityTo_two' t.n i0 (i0 + 1) _ hi0 h1 (by omega)
        (vanish (fun p => p.x (piv i0)) (fun i a b c => (far i a b c).1))]
      simp [hS, h2]
    have ez : t.comboZ S (piv i0) = xor ((t.row i0).z (piv i0)) ((t.row (i0 + 1)).z (piv i0)) := by
      unfold comboZ
      rw [parityTo_two' t.n i0 (i0 + 1) _ hi0 h1 (by omega)
        (vanish (fun p => p.z (piv i0)) (fun i a b c => (far i a b c).2))]
      simp [hS, h2]
    rw [ex, ez]
    exact bits_ne_of_pt_ne _ _ _ hne
  · have vanish : ∀ (g : PRow → Bool), (∀ i, i < t.n → i0 < i → piv i ≠ piv i0 → g (t.row i) = false) →
        ∀ j, j < t.n → j ≠ i0 → (S j && g (t.row j)) = false := by
      intro g hg j hj n1
      by_cases hlt : j < i0
      · simp [hmin j hlt]
      · have hgt : i0 < j := by omega
        by_cases hp : piv j = piv i0
        · have hj1 : j = i0 + 1 := ((he.sorted i0 j hgt hj).2 hp.symm).1
          subst hj1
          have : S (i0 + 1) = false := by
            cases h : S (i0 + 1)
            · rfl
            · exact absurd ⟨hj, h, hp⟩ hc
          simp [this]
        · simp [hg j hj hgt hp]
    have ex : t.comboX S (piv i0) = (t.row i0).x (piv i0) := by
      unfold comboX
      rw [parityTo_one t.n i0 _ hi0 (vanish (fun p => p.x (piv i0)) (fun i a b c => (far i a b c).1))]
      simp [hS]
    have ez : t.comboZ S (piv i0) = (t.row i0).z (piv i0) := by
      unfold comboZ
      rw [parityTo_one t.n i0 _ hi0 (vanish (fun p => p.z (piv i0)) (fun i a b c => (far i a b c).2))]
      simp [hS]
    rw [ex, ez]; exact hnz

/-- **the generators of an echelon tableau are independent**: only the empty product is the identity -/
theorem echelon_indep (t : STab) (piv : Nat → Nat) (he : Echelon t piv) (S : Nat → Bool)
    (hz : ∀ j, j < t.n → t.comboX S j = false ∧ t.comboZ S j = false) : ∀ i, i < t.n → S i = false := by
  rcases exists_min S t.n with h | ⟨i0, h1, h2, h3⟩
  · exact h
  · have := echelon_min_nonzero t piv he S i0 h1 h2 h3
    have hz' := hz (piv i0) (he.lead i0 h1).1
    rw [hz'.1, hz'.2] at this
    cases this

/-- **support**: a product of generators of an echelon tableau that is trivial on the sites `0..k` uses only generators
    whose leading site is right of `k` -/
theorem echelon_support (t : STab) (piv : Nat → Nat) (he : Echelon t piv) (S : Nat → Bool) (k : Nat)
    (hz : ∀ j, j ≤ k → j < t.n → t.comboX S j = false ∧ t.comboZ S j = false) :
    ∀ i, i < t.n → S i = true → k < piv i := by
  intro i hi hSi
  rcases exists_min S t.n with h | ⟨i0, h1, h2, h3⟩
  · rw [h i hi] at hSi; cases hSi
  · have hnz := echelon_min_nonzero t piv he S i0 h1 h2 h3
    have hk : k < piv i0 := by
      apply Nat.lt_of_not_le
      intro hle
      have hz' := hz (piv i0) hle (he.lead i0 h1).1
      rw [hz'.1, hz'.2] at hnz
      cases hnz
    have hle : i0 ≤ i := by
      apply Nat.le_of_not_lt
      intro hlt
      rw [h3 i hlt] at hSi; cases hSi
    by_cases e : i0 = i
    · subst e; exact hk
    · have := (he.sorted i0 i (by omega) hi).1
      omega

/-! ### executable checks of the hypotheses (for concrete examples) -/

/-- boolean check of `Good` -/
def goodB (t : STab) : Bool :=
  (List.range t.n).all fun i => (t.row i).ip == false && (List.range t.n).all fun k => sp t.n (t.row i) (t.row k) == false

theorem good_of_goodB (t : STab) (h : t.goodB = true) : t.Good := by
  unfold goodB at h
  rw [List.all_eq_true] at h
  constructor
  · intro i hi
    have := h i (List.mem_range.2 hi)
    simp only [Bool.and_eq_true, beq_iff_eq] at this
    exact this.1
  · intro i k hi hk
    have := h i (List.mem_range.2 hi)
    simp only [Bool.and_eq_true, beq_iff_eq, List.all_eq_true] at this
    exact this.2 k (List.mem_range.2 hk)

theorem eqOn_of_beqOn (n : Nat) (a b : PRow) (h : PRow.beqOn n a b = true) : PRow.EqOn n a b := by
  unfold PRow.beqOn at h
  simp only [Bool.and_eq_true, List.all_eq_true, beq_iff_eq, List.mem_range] at h
  exact ⟨fun j hj => h.1.1 j hj, h.1.2, h.2⟩

end STab
end Graphiq
