/-
  Proofs/MixtureDMTotal.lean — both compilers *return* on every circuit of the class clause (c) speaks about, so the
  hypothesis "if both return" of `dm_equals_mixture` is met by the whole class (all n):

  measurement-free operations on existing qubits (control ≠ target) whose class the stabilizer compiler accepts, with
  additive noise (no replacement noise), depolarizing probabilities in `[0,1]` and a valid Pauli name.

  * `compileStab_runs` : `StabilizerCompiler.compile` returns (no `assert`, no `np.isclose` failure, non-empty mixture);
  * `compileDM_runs`   : `DensityMatrixCompiler.compile` returns a matrix (no shape mismatch, `n ≥ 2` for controlled gates);
  * `dm_equals_mixture_total` : … and the two results are equal.
-/
import GraphiqModel.Proofs.MixtureDMFinal
namespace Graphiq
namespace MixDM
open Matrix Hilbert Noise DM

/-- `PauliError` with a valid name -/
def NoBad : NoiseM → Prop
  | .pauli .bad _ => False
  | _ => True

/-- the operations on which both compilers are guaranteed to return -/
structure OpRuns (n np : Nat) (op : COp) : Prop where
  ok : OpOK n np op
  notParam : op.kind ≠ .param
  add0 : op.n0.isAdditive = true
  add1 : op.kind.isCtrlPair = true → op.n1.isAdditive = true
  bad0 : NoBad op.n0
  bad1 : op.kind.isCtrlPair = true → NoBad op.n1

theorem OpRuns.supported {n np : Nat} {op : COp} (h : OpRuns n np op) : Supported op := ⟨h.ok.mfree, h.add0, h.add1⟩

/-- a noise application that cannot fail -/
def NoiseRuns (nm : NoiseM) : Prop := nm.isAdditive = true ∧ NoBad nm ∧ ParamOK nm

/-- an action that cannot fail -/
def ActRuns (n np : Nat) (arr : Array COp) : Act → Prop
  | .gate k => ∀ op, arr[k]? = some op → MFree op ∧ OpWF n np op ∧ op.kind ≠ .param
  | .noise _ _ q nm => q < n ∧ NoiseRuns nm
  | .replace _ => False

/-! ### the stabilizer side -/

theorem mapTab_ne_nil (f : Tab → Tab) (m : Mixture) (h : m ≠ []) : Mix.mapTab f m ≠ [] := by
  cases m with
  | nil => exact absurd rfl h
  | cons x xs => simp [Mix.mapTab]

theorem reduce_ne_nil (fuel : Nat) (m : Mixture) (hf : 0 < fuel) (h : m ≠ []) : Mix.reduce fuel m ≠ [] := by
  cases m with
  | nil => exact absurd rfl h
  | cons x xs =>
    obtain ⟨k, rfl⟩ : ∃ k, fuel = k + 1 := ⟨fuel - 1, by omega⟩
    obtain ⟨p0, t0⟩ := x
    simp [Mix.reduce]

theorem stabGate_runs (np n : Nat) (det : Bool) (op : COp) (hf : MFree op) (hw : OpWF n np op) (hk : op.kind ≠ .param)
    (s : StabSt) : ∃ s1, stabGate np n det op s = .ok s1 ∧ (s.mix ≠ [] → s1.mix ≠ []) := by
  have hq1 := hw.1
  unfold stabGate
  simp only
  have m1 : ∀ (f : Tab → Tab), ∃ s1, stabMap1 n (qIndex np op.r1 op.t1) f s = .ok s1 ∧ (s.mix ≠ [] → s1.mix ≠ []) := by
    intro f; unfold stabMap1; rw [if_pos hq1]; exact ⟨_, rfl, mapTab_ne_nil f s.mix⟩
  have m2 : op.kind.isCtrlPair = true → ∀ (f : Tab → Tab),
      ∃ s1, stabMap2 n (qIndex np op.r1 op.t1) (qIndex np op.r2 op.t2) f s = .ok s1 ∧ (s.mix ≠ [] → s1.mix ≠ []) := by
    intro hc f; unfold stabMap2; rw [if_pos ⟨hq1, hw.2.1 (Or.inl hc)⟩]; exact ⟨_, rfl, mapTab_ne_nil f s.mix⟩
  cases hkk : op.kind <;> simp only
  case input => exact ⟨s, rfl, id⟩
  case output => exact ⟨s, rfl, id⟩
  case identity => exact ⟨s, rfl, id⟩
  case h => exact m1 _
  case s => exact m1 _
  case sdg => exact m1 _
  case x => exact m1 _
  case y => exact m1 _
  case z => exact m1 _
  case cnot => exact m2 (by simp [hkk, Kind.isCtrlPair]) _
  case cz => exact m2 (by simp [hkk, Kind.isCtrlPair]) _
  case ccnot => rcases hf with hf | hf <;> simp [hkk, Kind.isOneQubit, Kind.isCtrlPair] at hf
  case ccz => rcases hf with hf | hf <;> simp [hkk, Kind.isOneQubit, Kind.isCtrlPair] at hf
  case mcr => rcases hf with hf | hf <;> simp [hkk, Kind.isOneQubit, Kind.isCtrlPair] at hf
  case measZ => rcases hf with hf | hf <;> simp [hkk, Kind.isOneQubit, Kind.isCtrlPair] at hf
  case param => exact absurd hkk hk

theorem applyNoise_runs (nm : NoiseM) (hr : NoiseRuns nm) (q : Nat) (m : Mixture) (hm : m ≠ []) :
    ∃ m', Mix.applyNoise nm q m = .ok m' ∧ m' ≠ [] := by
  obtain ⟨ha, hb, hp⟩ := hr
  cases nm with
  | none => exact ⟨m, rfl, hm⟩
  | depol p a =>
    obtain ⟨m', h⟩ := Mix.depolarize_ok p q m hp.1 hp.2 hm
    refine ⟨m', h, ?_⟩
    rw [Mix.depolarize_unfold] at h
    split at h; · cases h
    split at h; · cases h
    rename_i hne
    injection h with h; subst h
    have hne' : (m.flatMap fun x => Mix.depolBranch p q x.1 x.2) ≠ [] := by
      intro e; rw [e] at hne; simp at hne
    exact reduce_ne_nil _ _ (List.length_pos_of_ne_nil hne') hne'
  | pauli k a =>
    cases k
    · exact ⟨m, rfl, hm⟩
    · exact ⟨_, rfl, mapTab_ne_nil _ m hm⟩
    · exact ⟨_, rfl, mapTab_ne_nil _ m hm⟩
    · exact ⟨_, rfl, mapTab_ne_nil _ m hm⟩
    · exact absurd hb (by simp [NoBad])
  | loss r a =>
    refine ⟨_, rfl, ?_⟩
    cases m with
    | nil => exact absurd rfl hm
    | cons x xs => simp [Mix.photonLoss]
  | replace => simp [NoiseM.isAdditive] at ha
  | other => simp [NoiseM.isAdditive] at ha

theorem stabAct_runs (np n : Nat) (det : Bool) (arr : Array COp) (a : Act) (ha : ActRuns n np arr a) (s : StabSt)
    (hm : s.mix ≠ []) : ∃ s1, stabAct np n det arr s a = .ok s1 ∧ s1.mix ≠ [] := by
  cases a with
  | gate k =>
    simp only [stabAct]
    cases hk : arr[k]? with
    | none =>
      have e : arr.getD k { kind := .identity } = { kind := .identity } := by
        simp [Array.getD, Array.getElem?_eq_none_iff.1 hk |> Nat.not_lt.2]
      rw [e]
      exact ⟨s, rfl, hm⟩
    | some op =>
      have e : arr.getD k { kind := .identity } = op := by
        have hlt : k < arr.size := by
          rcases Nat.lt_or_ge k arr.size with h' | h'
          · exact h'
          · rw [Array.getElem?_eq_none_iff.2 h'] at hk; cases hk
        simp [Array.getD, hlt]
        have := Array.getElem?_eq_getElem hlt
        rw [this] at hk; injection hk
      rw [e]
      obtain ⟨h1, h2, h3⟩ := ha op hk
      obtain ⟨s1, e1, e2⟩ := stabGate_runs np n det op h1 h2 h3 s
      exact ⟨s1, e1, e2 hm⟩
  | noise k side q nm =>
    simp only [stabAct]
    obtain ⟨m', e1, e2⟩ := applyNoise_runs nm ha.2 q s.mix hm
    rw [e1]
    exact ⟨_, rfl, e2⟩
  | replace k => exact absurd ha id

theorem runStabActs_runs (np n : Nat) (det : Bool) (arr : Array COp) : ∀ (acts : List Act) (s : StabSt),
    (∀ a ∈ acts, ActRuns n np arr a) → s.mix ≠ [] → ∃ s', runStabActs np n det arr acts s = .ok s' ∧ s'.mix ≠ []
  | [], s, _, hm => ⟨s, rfl, hm⟩
  | a :: as, s, hw, hm => by
    obtain ⟨s1, e1, m1⟩ := stabAct_runs np n det arr a (hw a List.mem_cons_self) s hm
    obtain ⟨s', e2, m2⟩ := runStabActs_runs np n det arr as s1 (fun b hb => hw b (List.mem_cons_of_mem _ hb)) m1
    exact ⟨s', by simp only [runStabActs, e1, e2], m2⟩

/-- the actions of a runnable operation cannot fail -/
theorem acts_run (n np : Nat) (arr : Array COp) (op : COp) (k : Nat) (ho : OpRuns n np op)
    (harr : ∀ (j : Nat) (o : COp), arr[j]? = some o → OpRuns n np o) :
    ∀ a ∈ wanted np op k false ++ [Act.gate k] ++ wanted np op k true, ActRuns n np arr a := by
  have hgate : ActRuns n np arr (.gate k) := fun o ho' => ⟨(harr k o ho').ok.mfree, (harr k o ho').ok.wf, (harr k o ho').notParam⟩
  have hwant : ∀ af, ∀ a ∈ wanted np op k af, ActRuns n np arr a := by
    intro af a ha
    unfold wanted at ha
    rcases List.mem_append.1 ha with ha | ha
    · split at ha
      · simp only [List.mem_singleton] at ha; subst ha
        exact ⟨ho.ok.wf.1, ho.add0, ho.bad0, ho.ok.p0⟩
      · cases ha
    · split at ha
      · rename_i hc
        simp only [Bool.and_eq_true] at hc
        simp only [List.mem_singleton] at ha; subst ha
        exact ⟨ho.ok.wf.2.1 (Or.inl hc.1.1), ho.add1 hc.1.1, ho.bad1 hc.1.1, ho.ok.p1⟩
      · cases ha
  intro a ha
  rcases List.mem_append.1 ha with ha | ha
  · rcases List.mem_append.1 ha with ha | ha
    · exact hwant false a ha
    · simp only [List.mem_singleton] at ha; subst ha; exact hgate
  · exact hwant true a ha

theorem placeOp_runs (ns : Bool) (be : Backend) (n np : Nat) (arr : Array COp) (op : COp) (k : Nat) (ho : OpRuns n np op)
    (harr : ∀ (j : Nat) (o : COp), arr[j]? = some o → OpRuns n np o) :
    ∃ acts, placeOp ns be np op k = .ok acts ∧ ∀ a ∈ acts, ActRuns n np arr a := by
  have hgate : ActRuns n np arr (.gate k) := fun o ho' => ⟨(harr k o ho').ok.mfree, (harr k o ho').ok.wf, (harr k o ho').notParam⟩
  cases ns with
  | false =>
    refine ⟨[.gate k], placeOp_off be np op k, ?_⟩
    intro a ha; simp only [List.mem_singleton] at ha; subst ha; exact hgate
  | true => exact ⟨_, placeOp_supported be np op k ho.supported, acts_run n np arr op k ho harr⟩

theorem stabGo_runs (ns : Bool) (np n : Nat) (det : Bool) (arr : Array COp)
    (harr : ∀ (j : Nat) (o : COp), arr[j]? = some o → OpRuns n np o) : ∀ (ops : List COp) (k : Nat) (s : StabSt),
    (∀ op ∈ ops, OpRuns n np op) → s.mix ≠ [] → ∃ s', stabGo ns np n det arr ops k s = .ok s'
  | [], _, s, _, _ => ⟨s, rfl⟩
  | op :: rest, k, s, hw, hm => by
    have ho := hw op List.mem_cons_self
    obtain ⟨acts, hp, hacts⟩ := placeOp_runs ns .stab n np arr op k ho harr
    obtain ⟨s1, e1, m1⟩ := runStabActs_runs np n det arr acts s hacts hm
    obtain ⟨s', e2⟩ := stabGo_runs ns np n det arr harr rest (k + 1) s1 (fun o h => hw o (List.mem_cons_of_mem _ h)) m1
    refine ⟨s', ?_⟩
    simp only [stabGo]
    have hk : (op.kind == Kind.param) = false := by
      cases h : op.kind <;> first | rfl | exact absurd h ho.notParam
    rw [hk]
    simp only [Bool.false_eq_true, if_false, hp, e1, e2]

/-- **`StabilizerCompiler.compile` returns** on every circuit of the class -/
theorem compileStab_runs (ns : Bool) (ne np nc : Nat) (det : Bool) (ops : List COp)
    (hw : ∀ op ∈ ops, OpRuns (ne + np) np op) : ∃ s, compileStab ns ne np nc det ops = .ok s := by
  unfold compileStab
  exact stabGo_runs ns np (ne + np) det ops.toArray (by
      intro j op hop
      apply hw
      have : op ∈ ops.toArray := Array.mem_of_getElem? hop
      simpa using this) ops 0 _ hw (by simp)

/-! ### the density-matrix side -/

theorem applyUnitary_runs (ρ : Mat) (u : SMat) (h : ρ.n = u.m.n) : ∃ r, applyUnitary ρ u = .ok r ∧ r.n = u.m.n := by
  unfold applyUnitary
  rw [if_neg (fun h' => h' h)]
  exact ⟨_, rfl, rfl⟩

theorem dmGate_runs (np n : Nat) (det : Bool) (op : COp) (hf : MFree op) (hw : OpWF n np op) (hk : op.kind ≠ .param)
    (d : DmSt) (ρ : Mat) (hd : d.ρ = some ρ) (hρ : ρ.n = 2 ^ n) :
    ∃ d1 ρ1, dmGate np n det op d = .ok d1 ∧ d1.ρ = some ρ1 ∧ ρ1.n = 2 ^ n := by
  have hq1 := hw.1
  unfold dmGate
  simp only [hd]
  have one : ∀ (sq : Rat) (g : Mat), g.n = 2 →
      ∃ d1 ρ1, Except.map (fun r => ({ d with ρ := some r } : DmSt))
        (applyUnitary ρ ⟨sq, getOneQubitGate n (qIndex np op.r1 op.t1) g⟩) = .ok d1 ∧ d1.ρ = some ρ1 ∧ ρ1.n = 2 ^ n := by
    intro sq g hg
    have hsz := oneQubitGate_n n (qIndex np op.r1 op.t1) hq1 g hg
    obtain ⟨r, e, hr⟩ := applyUnitary_runs ρ ⟨sq, getOneQubitGate n (qIndex np op.r1 op.t1) g⟩ (by rw [hρ, hsz])
    rw [e]
    exact ⟨_, r, rfl, rfl, by rw [hr, hsz]⟩
  have two : op.kind.isCtrlPair = true → ∀ (g : Mat),
      ∃ d1 ρ1, (match getTwoQubitControlledGate n (qIndex np op.r1 op.t1) (qIndex np op.r2 op.t2) g with
        | .ok u => Except.map (fun r => ({ d with ρ := some r } : DmSt)) (applyUnitary ρ ⟨1, u⟩)
        | .error e => .error e) = .ok d1 ∧ d1.ρ = some ρ1 ∧ ρ1.n = 2 ^ n := by
    intro hc g
    have hq2 := hw.2.1 (Or.inl hc)
    have hne := hw.2.2 hc
    have hu : ∃ u, getTwoQubitControlledGate n (qIndex np op.r1 op.t1) (qIndex np op.r2 op.t2) g = .ok u ∧ u.n = 2 ^ n := by
      unfold getTwoQubitControlledGate
      rw [if_neg (by omega : ¬ n ≤ 1), if_neg hne]
      exact ⟨_, rfl, rfl⟩
    obtain ⟨u, eu, un⟩ := hu
    rw [eu]
    simp only
    obtain ⟨r, e, hr⟩ := applyUnitary_runs ρ ⟨1, u⟩ (by rw [hρ, un])
    rw [e]
    exact ⟨_, r, rfl, rfl, by rw [hr, un]⟩
  cases hkk : op.kind <;> simp only
  case input => exact ⟨d, ρ, rfl, hd, hρ⟩
  case output => exact ⟨d, ρ, rfl, hd, hρ⟩
  case identity => exact ⟨d, ρ, rfl, hd, hρ⟩
  case h => exact one _ Mat.had2 rfl
  case s => exact one _ Mat.phase rfl
  case sdg => exact one _ Mat.phaseDag rfl
  case x => exact one _ Mat.sigmax rfl
  case y => exact one _ Mat.sigmay rfl
  case z => exact one _ Mat.sigmaz rfl
  case cnot => exact two (by simp [hkk, Kind.isCtrlPair]) _
  case cz => exact two (by simp [hkk, Kind.isCtrlPair]) _
  case ccnot => rcases hf with hf | hf <;> simp [hkk, Kind.isOneQubit, Kind.isCtrlPair] at hf
  case ccz => rcases hf with hf | hf <;> simp [hkk, Kind.isOneQubit, Kind.isCtrlPair] at hf
  case mcr => rcases hf with hf | hf <;> simp [hkk, Kind.isOneQubit, Kind.isCtrlPair] at hf
  case measZ => rcases hf with hf | hf <;> simp [hkk, Kind.isOneQubit, Kind.isCtrlPair] at hf
  case param => exact absurd hkk hk

theorem chanFold_n (ρ : Mat) : ∀ (ks : List SMat) (acc : Mat),
    (ks.foldl (fun acc k => (Mat.add acc (Mat.smul k.sq (Mat.conjBy k.m ρ)).norm).norm) acc).n = acc.n
  | [], _ => rfl
  | k :: ks, acc => by
    simp only [List.foldl_cons]
    rw [chanFold_n ρ ks]
    rfl

theorem applyChannel_runs (ρ : Mat) (k0 : SMat) (ks : List SMat) (h : ρ.n = k0.m.n) :
    ∃ r, applyChannel ρ (k0 :: ks) = .ok r ∧ r.n = ρ.n := by
  unfold applyChannel
  simp only
  rw [if_neg (fun h' => h' h)]
  refine ⟨_, rfl, ?_⟩
  show (List.foldl (fun acc k => (Mat.add acc (Mat.smul k.sq (Mat.conjBy k.m ρ)).norm).norm) (Mat.zero ρ.n) (k0 :: ks)).n = ρ.n
  rw [chanFold_n]
  rfl

theorem dmNoise_runs (n q : Nat) (hq : q < n) (nm : NoiseM) (hr : NoiseRuns nm) (ρ : Mat) (hρ : ρ.n = 2 ^ n) :
    ∃ ρ1, DMx.applyNoise n nm q ρ = .ok ρ1 ∧ ρ1.n = 2 ^ n := by
  obtain ⟨ha, hb, _⟩ := hr
  cases nm with
  | none => exact ⟨ρ, rfl, hρ⟩
  | depol p a =>
    have e : List.range 4 = [0, 1, 2, 3] := by decide
    simp only [DMx.applyNoise, DMx.depolarize]
    rw [e]
    simp only [List.map_cons, List.map_nil]
    obtain ⟨r, e1, e2⟩ := applyChannel_runs ρ
      ⟨(Mix.depolFactors p).getD 0 0, embed1 (pow2 q) (pow2 (n - q - 1)) (DMx.pauliOf 0)⟩
      [⟨(Mix.depolFactors p).getD 1 0, embed1 (pow2 q) (pow2 (n - q - 1)) (DMx.pauliOf 1)⟩,
       ⟨(Mix.depolFactors p).getD 2 0, embed1 (pow2 q) (pow2 (n - q - 1)) (DMx.pauliOf 2)⟩,
       ⟨(Mix.depolFactors p).getD 3 0, embed1 (pow2 q) (pow2 (n - q - 1)) (DMx.pauliOf 3)⟩]
      (by rw [hρ]; exact (embed1_n n q hq _).symm)
    exact ⟨r, e1, by rw [e2, hρ]⟩
  | pauli k a =>
    simp only [DMx.applyNoise]
    cases k <;> simp only [DMx.pauliError]
    · obtain ⟨r, e, hr⟩ := applyUnitary_runs ρ ⟨1, Mat.eye (pow2 n)⟩ (by rw [hρ]; rfl)
      exact ⟨r, e, by rw [hr]; rfl⟩
    · have hs := oneQubitGate_n n q hq Mat.sigmax rfl
      obtain ⟨r, e, hr⟩ := applyUnitary_runs ρ ⟨1, getOneQubitGate n q Mat.sigmax⟩ (by rw [hρ, hs])
      exact ⟨r, e, by rw [hr, hs]⟩
    · have hs := oneQubitGate_n n q hq Mat.sigmay rfl
      obtain ⟨r, e, hr⟩ := applyUnitary_runs ρ ⟨1, getOneQubitGate n q Mat.sigmay⟩ (by rw [hρ, hs])
      exact ⟨r, e, by rw [hr, hs]⟩
    · have hs := oneQubitGate_n n q hq Mat.sigmaz rfl
      obtain ⟨r, e, hr⟩ := applyUnitary_runs ρ ⟨1, getOneQubitGate n q Mat.sigmaz⟩ (by rw [hρ, hs])
      exact ⟨r, e, by rw [hr, hs]⟩
    · exact absurd hb (by simp [NoBad])
  | loss r a => exact ⟨_, rfl, hρ⟩
  | replace => simp [NoiseM.isAdditive] at ha
  | other => simp [NoiseM.isAdditive] at ha

theorem dmAct_runs (np n : Nat) (det : Bool) (arr : Array COp) (a : Act) (ha : ActRuns n np arr a) (d : DmSt) (ρ : Mat)
    (hd : d.ρ = some ρ) (hρ : ρ.n = 2 ^ n) :
    ∃ d1 ρ1, dmAct np n det arr d a = .ok d1 ∧ d1.ρ = some ρ1 ∧ ρ1.n = 2 ^ n := by
  cases a with
  | gate k =>
    simp only [dmAct]
    cases hk : arr[k]? with
    | none =>
      have e : arr.getD k { kind := .identity } = { kind := .identity } := by
        simp [Array.getD, Array.getElem?_eq_none_iff.1 hk |> Nat.not_lt.2]
      rw [e]
      exact ⟨d, ρ, by simp [dmGate, hd], hd, hρ⟩
    | some op =>
      have e : arr.getD k { kind := .identity } = op := by
        have hlt : k < arr.size := by
          rcases Nat.lt_or_ge k arr.size with h' | h'
          · exact h'
          · rw [Array.getElem?_eq_none_iff.2 h'] at hk; cases hk
        simp [Array.getD, hlt]
        have := Array.getElem?_eq_getElem hlt
        rw [this] at hk; injection hk
      rw [e]
      obtain ⟨h1, h2, h3⟩ := ha op hk
      exact dmGate_runs np n det op h1 h2 h3 d ρ hd hρ
  | noise k side q nm =>
    simp only [dmAct, hd]
    obtain ⟨ρ1, e1, n1⟩ := dmNoise_runs n q ha.1 nm ha.2 ρ hρ
    rw [e1]
    exact ⟨_, ρ1, rfl, rfl, n1⟩
  | replace k => exact absurd ha id

theorem runDmActs_runs (np n : Nat) (det : Bool) (arr : Array COp) : ∀ (acts : List Act) (d : DmSt) (ρ : Mat),
    (∀ a ∈ acts, ActRuns n np arr a) → d.ρ = some ρ → ρ.n = 2 ^ n →
    ∃ d' ρ', runDmActs np n det arr acts d = .ok d' ∧ d'.ρ = some ρ' ∧ ρ'.n = 2 ^ n
  | [], d, ρ, _, hd, hρ => ⟨d, ρ, rfl, hd, hρ⟩
  | a :: as, d, ρ, hw, hd, hρ => by
    obtain ⟨d1, ρ1, e1, h1, n1⟩ := dmAct_runs np n det arr a (hw a List.mem_cons_self) d ρ hd hρ
    obtain ⟨d', ρ', e2, h2, n2⟩ := runDmActs_runs np n det arr as d1 ρ1 (fun b hb => hw b (List.mem_cons_of_mem _ hb)) h1 n1
    exact ⟨d', ρ', by simp only [runDmActs, e1, e2], h2, n2⟩

theorem dmGo_runs (ns : Bool) (np n : Nat) (det : Bool) (arr : Array COp)
    (harr : ∀ (j : Nat) (o : COp), arr[j]? = some o → OpRuns n np o) : ∀ (ops : List COp) (k : Nat) (d : DmSt) (ρ : Mat),
    (∀ op ∈ ops, OpRuns n np op) → d.ρ = some ρ → ρ.n = 2 ^ n →
    ∃ d' ρ', dmGo ns np n det arr ops k d = .ok d' ∧ d'.ρ = some ρ'
  | [], _, d, ρ, _, hd, _ => ⟨d, ρ, rfl, hd⟩
  | op :: rest, k, d, ρ, hw, hd, hρ => by
    have ho := hw op List.mem_cons_self
    obtain ⟨acts, hp, hacts⟩ := placeOp_runs ns .dm n np arr op k ho harr
    obtain ⟨d1, ρ1, e1, h1, n1⟩ := runDmActs_runs np n det arr acts d ρ hacts hd hρ
    obtain ⟨d', ρ', e2, h2⟩ := dmGo_runs ns np n det arr harr rest (k + 1) d1 ρ1
      (fun o h => hw o (List.mem_cons_of_mem _ h)) h1 n1
    exact ⟨d', ρ', by simp only [dmGo, hp, e1, e2], h2⟩

/-- **`DensityMatrixCompiler.compile` returns a matrix** on every circuit of the class -/
theorem compileDM_runs (ns : Bool) (ne np nc : Nat) (det : Bool) (ops : List COp)
    (hw : ∀ op ∈ ops, OpRuns (ne + np) np op) : ∃ d ρ, compileDM ns ne np nc det ops = .ok d ∧ d.ρ = some ρ := by
  unfold compileDM
  exact dmGo_runs ns np (ne + np) det ops.toArray (by
      intro j op hop
      apply hw
      have : op ∈ ops.toArray := Array.mem_of_getElem? hop
      simpa using this) ops 0 _ _ hw rfl rfl

/-- **C06 (c), unconditional on the class**: on every measurement-free circuit of runnable operations both compilers return,
    and the density matrix equals `Σ_k w_k ρ(T_k)` of the mixture.  Every number of qubits. -/
theorem dm_equals_mixture_total (ns : Bool) (ne np nc : Nat) (det : Bool) (ops : List COp)
    (hw : ∀ op ∈ ops, OpRuns (ne + np) np op) :
    ∃ s d ρ, compileStab ns ne np nc det ops = .ok s ∧ compileDM ns ne np nc det ops = .ok d ∧ d.ρ = some ρ ∧
      Mat.EqOn ρ (mixtureDensity (ne + np) s.mix) := by
  obtain ⟨s, hs⟩ := compileStab_runs ns ne np nc det ops hw
  obtain ⟨d, ρ, hd, hρ⟩ := compileDM_runs ns ne np nc det ops hw
  exact ⟨s, d, ρ, hs, hd, hρ, dm_equals_mixture ns ne np nc det ops (fun op h => (hw op h).ok) s d ρ hs hd hρ⟩

end MixDM
end Graphiq
