/-
  Proofs/CanonCheck.lean — the executable checker `isCanon` is sound for the shape `Canon`.
-/
import GraphiqModel.Model.CanonCheck
import GraphiqModel.Proofs.CanonShape
namespace Graphiq
namespace STab

theorem pinvB_sound (n : Nat) (B : Nat → Nat → Bool) (p : Nat → Nat) (lo pr : Nat) (h : pinvB n B p lo pr = true) :
    PInv n B p lo pr n := by
  unfold pinvB at h
  simp only [Bool.and_eq_true, decide_eq_true_eq, List.all_eq_true, List.mem_range] at h
  obtain ⟨⟨h1, h2⟩, h3⟩ := h
  have piv : ∀ i, lo ≤ i → i < pr →
      (p i < n ∧ B i (p i) = true) ∧ (∀ m, m < n → (decide (m = i) || !B m (p i)) = true) ∧
      (∀ j, j < n → (decide (p i ≤ j) || !B i j) = true) ∧
      (∀ i', i' < n → (!(decide (i < i') && decide (i' < pr)) || decide (p i < p i')) = true) := by
    intro i hi1 hi2
    have := h3 i (by omega)
    rw [if_pos ⟨hi1, hi2⟩] at this
    simp only [Bool.and_eq_true, decide_eq_true_eq, List.all_eq_true, List.mem_range] at this
    exact ⟨⟨this.1.1.1.1, this.1.1.1.2⟩, this.1.1.2, this.1.2, this.2⟩
  constructor
  · exact h1
  · exact h2
  · intro i hi1 hi2; exact (piv i hi1 hi2).1.1
  · intro i hi1 hi2; exact (piv i hi1 hi2).1.2
  · intro i m hi1 hi2 hm hne
    have := (piv i hi1 hi2).2.1 m hm
    simp only [Bool.or_eq_true, decide_eq_true_eq, Bool.not_eq_true'] at this
    rcases this with e | e
    · exact absurd e hne
    · exact e
  · intro i j hi1 hi2 hj
    have hp := (piv i hi1 hi2).1.1
    have := (piv i hi1 hi2).2.2.1 j (by omega)
    simp only [Bool.or_eq_true, decide_eq_true_eq, Bool.not_eq_true'] at this
    rcases this with e | e
    · omega
    · exact e
  · intro i i' hi1 hlt hi2
    have := (piv i hi1 (by omega)).2.2.2 i' (by omega)
    simp only [Bool.or_eq_true, decide_eq_true_eq, Bool.not_eq_true', Bool.and_eq_false_iff, decide_eq_false_iff_not] at this
    rcases this with (e | e) | e
    · exact absurd hlt e
    · exact absurd hi2 e
    · exact e
  · intro m j hm1 hm2 hj
    have := h3 m hm2
    have hno : ¬ (lo ≤ m ∧ m < pr) := by omega
    rw [if_neg hno, if_pos hm1] at this
    simp only [List.all_eq_true, List.mem_range, Bool.not_eq_true'] at this
    exact this j hj

/-- **the checker is sound**: a tableau accepted by `isCanon` has the shape `Canon` -/
theorem isCanon_sound (c : STab) (h : c.isCanon = true) : Canon c := by
  unfold isCanon at h
  simp only [Bool.and_eq_true] at h
  exact ⟨_, _, _, pinvB_sound _ _ _ _ _ h.1, pinvB_sound _ _ _ _ _ h.2⟩

end STab
end Graphiq
