/-
  Proofs/StateToGraphSpectrum.lean — the eigenvalues (roots of the characteristic polynomial, with multiplicity) of the partial transposes
  of the two two-qubit states of Proofs/StateToGraphNegativity.lean, and the negativity `Σ (|λ| − λ)/2` that `dmf.negativity` computes
  from them: `{1, 0, 0, 0}` → 0 for `|++⟩⟨++|`, `{−1/2, 1/2, 1/2, 1/2}` → 1/2 for the one-edge graph state.
  By explicit rational diagonalisations `M = U D U⁻¹`.  Finite computations on concrete matrices.
-/
import GraphiqModel.Proofs.StateToGraphNegativity
import Mathlib.LinearAlgebra.Matrix.Charpoly.Basic
import Mathlib.Algebra.Polynomial.Roots
namespace Graphiq
namespace Neg
open Matrix Polynomial

def uEdge : M4 := !![-1, 1, 1, 1; 1, 1, 0, 0; 1, 0, 1, 0; 1, 0, 0, 1]
def vEdge : M4 := !![-1/4, 1/4, 1/4, 1/4; 1/4, 3/4, -1/4, -1/4; 1/4, -1/4, 3/4, -1/4; 1/4, -1/4, -1/4, 3/4]
def dEdge : Fin 4 → ℚ := ![-1/2, 1/2, 1/2, 1/2]

def uPlus : M4 := !![1, 1, 1, 1; 1, -1, 0, 0; 1, 0, -1, 0; 1, 0, 0, -1]
def vPlus : M4 := !![1/4, 1/4, 1/4, 1/4; 1/4, -3/4, 1/4, 1/4; 1/4, 1/4, -3/4, 1/4; 1/4, 1/4, 1/4, -3/4]
def dPlus : Fin 4 → ℚ := ![1, 0, 0, 0]

theorem uvEdge : uEdge * vEdge = 1 ∧ vEdge * uEdge = 1 := by
  constructor <;> (ext i j; fin_cases i <;> fin_cases j <;> simp [uEdge, vEdge, Matrix.mul_apply, Fin.sum_univ_four] <;> norm_num)

theorem uvPlus : uPlus * vPlus = 1 ∧ vPlus * uPlus = 1 := by
  constructor <;> (ext i j; fin_cases i <;> fin_cases j <;> simp [uPlus, vPlus, Matrix.mul_apply, Fin.sum_univ_four] <;> norm_num)

theorem diag_edge : quarterH = uEdge * Matrix.diagonal dEdge * vEdge := by
  ext i j
  rw [Matrix.mul_apply, Fin.sum_univ_four]
  simp only [Matrix.mul_diagonal]
  fin_cases i <;> fin_cases j <;> simp [quarterH, uEdge, vEdge, dEdge] <;> norm_num

theorem diag_plus : rhoPlus = uPlus * Matrix.diagonal dPlus * vPlus := by
  ext i j
  rw [Matrix.mul_apply, Fin.sum_univ_four]
  simp only [Matrix.mul_diagonal]
  fin_cases i <;> fin_cases j <;> simp [rhoPlus, uPlus, vPlus, dPlus] <;> norm_num

/-- the characteristic polynomial of `U D V` with `U V = V U = 1` is `∏ (X − d_i)` -/
theorem charpoly_of_diag (M U V : M4) (d : Fin 4 → ℚ) (h1 : U * V = 1) (h2 : V * U = 1) (hM : M = U * Matrix.diagonal d * V) :
    M.charpoly = ∏ i, (X - C (d i)) := by
  let u : M4ˣ := ⟨U, V, h1, h2⟩
  have hv : V = u.val⁻¹ := by
    have : (u⁻¹ : M4ˣ).val = u.val⁻¹ := Matrix.coe_units_inv u
    rw [← this]
    rfl
  rw [hM, hv]
  show (u.val * Matrix.diagonal d * u.val⁻¹).charpoly = _
  rw [Matrix.charpoly_units_conj, Matrix.charpoly_diagonal]

theorem roots_of_diag (M U V : M4) (d : Fin 4 → ℚ) (h1 : U * V = 1) (h2 : V * U = 1) (hM : M = U * Matrix.diagonal d * V) :
    M.charpoly.roots = (Finset.univ.val.map d) := by
  rw [charpoly_of_diag M U V d h1 h2 hM]
  have : (∏ i : Fin 4, (X - C (d i))) = ((Finset.univ.val.map d).map fun a => X - C a).prod := by
    rw [Multiset.map_map]; rfl
  rw [this, Polynomial.roots_multiset_prod_X_sub_C]

/-- `Σ (|λ| − λ)/2` over a multiset of eigenvalues: `np.sum(np.abs(eig_vals) − eig_vals) / 2` -/
def negativityOf (s : Multiset ℚ) : ℚ := (s.map fun l => (|l| - l) / 2).sum

/-- **eigenvalues and negativity of the partial transpose of the one-edge graph state**: `{−1/2, 1/2, 1/2, 1/2}`, negativity `1/2` -/
theorem spectrum_edge : (ptA rhoEdge).charpoly.roots = {-1/2, 1/2, 1/2, 1/2} ∧ negativityOf (ptA rhoEdge).charpoly.roots = 1/2 := by
  have h := roots_of_diag (ptA rhoEdge) uEdge vEdge dEdge uvEdge.1 uvEdge.2 (by rw [ptA_rhoEdge]; exact diag_edge)
  have e : (Finset.univ.val.map dEdge : Multiset ℚ) = {-1/2, 1/2, 1/2, 1/2} := by
    simp [dEdge]; rfl
  rw [h, e]
  refine ⟨rfl, ?_⟩
  simp [negativityOf]
  norm_num [abs_of_neg, abs_of_pos]

/-- **eigenvalues and negativity of the partial transpose of `|++⟩⟨++|`**: `{1, 0, 0, 0}`, negativity `0` -/
theorem spectrum_plus : (ptA rhoPlus).charpoly.roots = {1, 0, 0, 0} ∧ negativityOf (ptA rhoPlus).charpoly.roots = 0 := by
  have h := roots_of_diag (ptA rhoPlus) uPlus vPlus dPlus uvPlus.1 uvPlus.2 (by rw [ptA_rhoPlus]; exact diag_plus)
  have e : (Finset.univ.val.map dPlus : Multiset ℚ) = {1, 0, 0, 0} := by
    simp [dPlus]; rfl
  rw [h, e]
  refine ⟨rfl, ?_⟩
  simp [negativityOf]

end Neg
end Graphiq
