/-
  Proofs/MixtureDM.lean — C06 (c) at the Hilbert-space level, every number of qubits:

  * `mixRho n m = Σ_k w_k · ρ(T_k)` — the density matrix a stabilizer mixture `m = [(w_k, T_k)]` stands for (Mathlib matrix over
    ℂ indexed by `Bits n`, `ρ(T)` the state `Hilbert.rho` of the stabilizer half of the Clifford tableau);
  * the Hilbert-space action of every step of the stabilizer-mixture compile commutes with `mixRho`:
      - a gate on every branch (`Mix.mapTab`, with the tabulation after it)  ↦  `U ρ U†`            (`mixRho_mapGate`);
      - `PauliError`                                                        ↦  `P ρ P†`            (`mixRho_pauliError`);
      - `DepolarizingNoise` — branching with the `factor > 0` filter, then `reduce()` as coded —
                                             ↦  `(1−p) ρ + p/3 (XρX + YρY + ZρZ)`                   (`mixRho_depolarize`);
      - `PhotonLoss`                                                        ↦  `(1−λ) ρ`           (`mixRho_photonLoss`);
      - `MixedStabilizer.reduce()` (pops while enumerating)                 ↦  identity            (`mixRho_reduce`).
-/
import GraphiqModel.Proofs.HilbertTab
import GraphiqModel.Proofs.HilbertPure
import GraphiqModel.Proofs.Noise
namespace Graphiq
namespace MixDM
open Matrix Hilbert Noise

/-- `2^n × 2^n` complex matrices indexed by bit strings -/
abbrev HMat (n : Nat) := Matrix (Bits n) (Bits n) ℂ

/-- the state of the stabilizer half of a Clifford tableau -/
noncomputable def tabRho (n : Nat) (t : Tab) : HMat n := rho n (STab.ofTab t)

/-- **`Σ_k w_k ρ(T_k)`**: the density matrix a stabilizer mixture stands for -/
noncomputable def mixRho (n : Nat) : Mixture → HMat n
  | [] => 0
  | x :: m => ((x.1 : ℚ) : ℂ) • tabRho n x.2 + mixRho n m

theorem mixRho_nil (n : Nat) : mixRho n [] = 0 := rfl
theorem mixRho_cons (n : Nat) (w : Rat) (t : Tab) (m : Mixture) :
    mixRho n ((w, t) :: m) = ((w : ℚ) : ℂ) • tabRho n t + mixRho n m := rfl

theorem mixRho_append (n : Nat) (a b : Mixture) : mixRho n (a ++ b) = mixRho n a + mixRho n b := by
  induction a with
  | nil => simp [mixRho_nil]
  | cons x xs ih =>
    obtain ⟨w, t⟩ := x
    simp only [List.cons_append, mixRho_cons, ih, add_assoc]

/-- all branches are tableaux on `n` qubits -/
def MixN (n : Nat) (m : Mixture) : Prop := ∀ x ∈ m, x.2.n = n

theorem MixN.tail {n : Nat} {x : Rat × Tab} {m : Mixture} (h : MixN n (x :: m)) : MixN n m :=
  fun y hy => h y (List.mem_cons_of_mem _ hy)
theorem MixN.head {n : Nat} {x : Rat × Tab} {m : Mixture} (h : MixN n (x :: m)) : x.2.n = n := h x List.mem_cons_self
theorem MixOK.mixN {n : Nat} {m : Mixture} (h : MixOK n m) : MixN n m := fun x hx => (h x hx).1

/-! ### tabulation and `__eq__` do not change the state -/

/-- Clifford tableaux on `n` qubits whose stabilizer rows agree describe the same state -/
theorem tabRho_congr (n : Nat) (t t' : Tab) (hn : t.n = n) (hn' : t'.n = n)
    (h : ∀ i, n ≤ i → i < 2 * n → PRow.EqOn n (t.row i) (t'.row i)) : tabRho n t = tabRho n t' := by
  subst hn
  show rhoTo t.n (STab.ofTab t).row t.n = rhoTo t.n (STab.ofTab t').row t'.n
  rw [hn']
  apply rhoTo_congr
  intro i hi
  show PRow.EqOn t.n { (t.row (i + t.n)) with ip := false } { (t'.row (i + t'.n)) with ip := false }
  rw [hn']
  have := h (i + t.n) (by omega) (by omega)
  exact ⟨this.1, this.2.1, rfl⟩

theorem tabRho_norm (n : Nat) (t : Tab) (hn : t.n = n) : tabRho n t.norm = tabRho n t :=
  tabRho_congr n t.norm t (by rw [Tab.norm_n]; exact hn) hn
    (fun i _ h2 => (norm_is_identity t).2 i (by rw [hn]; exact h2) |> fun e => by rw [hn] at e; exact e)

theorem eqOn_of_beqOn (n : Nat) (a b : PRow) (h : PRow.beqOn n a b = true) : PRow.EqOn n a b := by
  unfold PRow.beqOn at h
  simp only [Bool.and_eq_true, List.all_eq_true, List.mem_range, beq_iff_eq] at h
  exact ⟨fun j hj => h.1.1 j hj, h.1.2, h.2⟩

/-- `CliffordTableau.__eq__` (all `2n` rows equal, phases included) implies equal states -/
theorem tabRho_tabEq (n : Nat) (t t' : Tab) (hn : t.n = n) (h : Mix.tabEq t t' = true) : tabRho n t = tabRho n t' := by
  unfold Mix.tabEq at h
  simp only [Bool.and_eq_true, beq_iff_eq, List.all_eq_true, List.mem_range] at h
  apply tabRho_congr n t t' hn (by rw [← h.1]; exact hn)
  intro i _ h2
  have := eqOn_of_beqOn _ _ _ (h.2 i (by rw [hn]; exact h2))
  rw [hn] at this
  exact this

/-! ### gates on every branch -/

/-- conjugation `U ρ U†` -/
noncomputable def conjH {n : Nat} (U ρ : HMat n) : HMat n := U * ρ * Uᴴ

theorem conjH_add {n : Nat} (U a b : HMat n) : conjH U (a + b) = conjH U a + conjH U b := by
  unfold conjH; rw [mul_add, add_mul]
theorem conjH_smul {n : Nat} (U a : HMat n) (c : ℂ) : conjH U (c • a) = c • conjH U a := by
  unfold conjH; rw [mul_smul_comm, smul_mul_assoc]
theorem conjH_zero {n : Nat} (U : HMat n) : conjH U 0 = 0 := by unfold conjH; simp
theorem conjH_one {n : Nat} (ρ : HMat n) : conjH 1 ρ = ρ := by unfold conjH; simp

/-- one branch: the tableau rule of a gate is conjugation of the state by the gate's unitary -/
theorem tabRho_gate (n : Nat) (t : Tab) (hn : t.n = n) (g : Gate) (hg : g.WF n) :
    tabRho n (t.map g.act) = conjH (gateMat n g) (tabRho n t) := by
  subst hn
  exact (rho_tab_gate t g hg).symm

/-- a gate applied to every branch (`Mix.mapTab`, tabulation included) conjugates `Σ w_k ρ(T_k)` by the gate's unitary -/
theorem mixRho_mapGate (n : Nat) (g : Gate) (hg : g.WF n) (m : Mixture) (hm : MixN n m) :
    mixRho n (Mix.mapTab (fun t => t.map g.act) m) = conjH (gateMat n g) (mixRho n m) := by
  induction m with
  | nil => simp [Mix.mapTab, mixRho_nil, conjH_zero]
  | cons x xs ih =>
    obtain ⟨w, t⟩ := x
    have e : Mix.mapTab (fun t => t.map g.act) ((w, t) :: xs)
        = (w, (t.map g.act).norm) :: Mix.mapTab (fun t => t.map g.act) xs := by simp [Mix.mapTab]
    have hn : t.n = n := hm.head
    rw [e, mixRho_cons, mixRho_cons, ih hm.tail, conjH_add, conjH_smul,
      tabRho_norm n _ (show (t.map g.act).n = n from hn), tabRho_gate n t hn g hg]

theorem mapTab_mixN (n : Nat) (f : Tab → Tab) (hf : ∀ t : Tab, t.n = n → (f t).n = n) (m : Mixture) (hm : MixN n m) :
    MixN n (Mix.mapTab f m) := by
  intro x hx
  simp only [Mix.mapTab, List.mem_map] at hx
  obtain ⟨⟨p, t⟩, hy, rfl⟩ := hx
  show (f t).norm.n = n
  rw [Tab.norm_n]; exact hf t (hm (p, t) hy)

/-! ### photon loss -/

theorem mixRho_photonLoss (n : Nat) (r : Rat) (m : Mixture) :
    mixRho n (Mix.photonLoss r m) = (((1 - r : ℚ)) : ℂ) • mixRho n m := by
  induction m with
  | nil => simp [Mix.photonLoss, mixRho_nil]
  | cons x xs ih =>
    obtain ⟨w, t⟩ := x
    have e : Mix.photonLoss r ((w, t) :: xs) = ((1 - r) * w, t) :: Mix.photonLoss r xs := by simp [Mix.photonLoss]
    rw [e, mixRho_cons, mixRho_cons, ih, smul_add, smul_smul]
    push_cast
    rfl

/-! ### `reduce()` -/

theorem mixRho_eraseIdx (n : Nat) : ∀ (l : Mixture) (i : Nat) (p : Rat) (t : Tab), l[i]? = some (p, t) →
    mixRho n l = ((p : ℚ) : ℂ) • tabRho n t + mixRho n (l.eraseIdx i)
  | [], _, _, _, h => by simp at h
  | (p0, t0) :: rest, 0, p, t, h => by
    simp at h; obtain ⟨rfl, rfl⟩ := h
    simp [mixRho_cons]
  | (p0, t0) :: rest, i+1, p, t, h => by
    simp at h
    have ih := mixRho_eraseIdx n rest i p t h
    simp only [List.eraseIdx_cons_succ, mixRho_cons, ih]
    abel

/-- the inner scan of `reduce()`: what it removes from the list it adds to the weight of `t0` (equal tableau, equal state) -/
theorem reduceScan_mixRho (n : Nat) (t0 : Tab) (h0 : t0.n = n) : ∀ (fuel i : Nat) (p0 : Rat) (l : Mixture),
    (((Mix.reduceScan t0 fuel i p0 l).1 : ℚ) : ℂ) • tabRho n t0 + mixRho n (Mix.reduceScan t0 fuel i p0 l).2
      = ((p0 : ℚ) : ℂ) • tabRho n t0 + mixRho n l
  | 0, _, _, _ => by simp [Mix.reduceScan]
  | fuel+1, i, p0, l => by
    unfold Mix.reduceScan
    cases hl : l[i]? with
    | none => simp
    | some pt =>
      obtain ⟨pi, ti⟩ := pt
      simp only
      split
      · rename_i heq
        rw [reduceScan_mixRho n t0 h0 fuel (i + 1) (p0 + pi) (l.eraseIdx i), mixRho_eraseIdx n l i pi ti hl,
          ← tabRho_tabEq n t0 ti h0 heq]
        push_cast
        rw [add_smul, add_assoc]
      · exact reduceScan_mixRho n t0 h0 fuel (i + 1) p0 l

theorem reduceScan_mixN (n : Nat) (t0 : Tab) (fuel i : Nat) (p0 : Rat) (l : Mixture) (hl : MixN n l) :
    MixN n (Mix.reduceScan t0 fuel i p0 l).2 :=
  fun x hx => hl x (reduceScan_sub t0 fuel i p0 l x hx)

/-- **`MixedStabilizer.reduce()` — popping while enumerating included — never changes `Σ w_k ρ(T_k)`** (whatever the fuel:
    the model's `reduce` drops nothing it has not merged when `m.length ≤ fuel`) -/
theorem mixRho_reduce (n : Nat) : ∀ (fuel : Nat) (m : Mixture), m.length ≤ fuel → MixN n m →
    mixRho n (Mix.reduce fuel m) = mixRho n m
  | 0, m, h, _ => by
    have : m = [] := List.eq_nil_of_length_eq_zero (by omega)
    subst this; simp [Mix.reduce, mixRho_nil]
  | fuel+1, [], _, _ => by simp [Mix.reduce, mixRho_nil]
  | fuel+1, (p0, t0) :: rest, h, hm => by
    have hs := reduceScan_mixRho n t0 hm.head rest.length 0 p0 rest
    have hlen := (Mix.reduceScan_total t0 rest.length 0 p0 rest).2
    simp only [Mix.reduce]
    rw [mixRho_cons, mixRho_cons,
      mixRho_reduce n fuel _ (by simp at h; omega) (reduceScan_mixN n t0 _ _ _ _ hm.tail)]
    exact hs

end MixDM
end Graphiq
