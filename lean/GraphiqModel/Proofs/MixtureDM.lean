/-
  Proofs/MixtureDM.lean — C06 (c) at the Hilbert-space level, every number of qubits:

  * `mixRho n m = Σ_k w_k · ρ(T_k)` — the density matrix a stabilizer mixture `m = [(w_k, T_k)]` stands for (Mathlib matrix over
    ℂ indexed by `Bits n`, `ρ(T)` the state `Hilbert.rho` of the stabilizer half of the Clifford tableau);
  * the Hilbert-space action of every step of the stabilizer-mixture compile commutes with `mixRho`:
      - a gate on every branch (`Mix.mapTab`, with the tabulation after it)  ↦  `U ρ U†`            (`mixRho_mapGate`);
      - `PauliError`                                                        ↦  `P ρ P†`            (`mixRho_pauliError`);
      - `DepolarizingNoise` — branching with the `factor > 0` filter, then `reduce()` as coded —
                                             ↦  `(1−p) ρ + p/3 (XρX + YρY + ZρZ)`                   (`mixRho_depolarize`);
      - `PhotonLoss`                                                        ↦  `(1−λ) ρ`           (`mixRho_photonLoss`);
      - `MixedStabilizer.reduce()` (pops while enumerating)                 ↦  identity            (`mixRho_reduce`).
-/
import GraphiqModel.Proofs.HilbertTab
import GraphiqModel.Proofs.HilbertPure
import GraphiqModel.Proofs.Noise
namespace Graphiq
namespace MixDM
open Matrix Hilbert Noise

/-- `2^n × 2^n` complex matrices indexed by bit strings -/
abbrev HMat (n : Nat) := Matrix (Bits n) (Bits n) ℂ

/-- the state of the stabilizer half of a Clifford tableau -/
noncomputable def tabRho (n : Nat) (t : Tab) : HMat n := rho n (STab.ofTab t)

/-- **`Σ_k w_k ρ(T_k)`**: the density matrix a stabilizer mixture stands for -/
noncomputable def mixRho (n : Nat) : Mixture → HMat n
  | [] => 0
  | x :: m => ((x.1 : ℚ) : ℂ) • tabRho n x.2 + mixRho n m

theorem mixRho_nil (n : Nat) : mixRho n [] = 0 := rfl
theorem mixRho_cons (n : Nat) (w : Rat) (t : Tab) (m : Mixture) :
    mixRho n ((w, t) :: m) = ((w : ℚ) : ℂ) • tabRho n t + mixRho n m := rfl

theorem mixRho_append (n : Nat) (a b : Mixture) : mixRho n (a ++ b) = mixRho n a + mixRho n b := by
  induction a with
  | nil => simp [mixRho_nil]
  | cons x xs ih =>
    obtain ⟨w, t⟩ := x
    simp only [List.cons_append, mixRho_cons, ih, add_assoc]

/-- all branches are tableaux on `n` qubits -/
def MixN (n : Nat) (m : Mixture) : Prop := ∀ x ∈ m, x.2.n = n

theorem MixN.tail {n : Nat} {x : Rat × Tab} {m : Mixture} (h : MixN n (x :: m)) : MixN n m :=
  fun y hy => h y (List.mem_cons_of_mem _ hy)
theorem MixN.head {n : Nat} {x : Rat × Tab} {m : Mixture} (h : MixN n (x :: m)) : x.2.n = n := h x List.mem_cons_self
theorem MixOK.mixN {n : Nat} {m : Mixture} (h : MixOK n m) : MixN n m := fun x hx => (h x hx).1

/-! ### tabulation and `__eq__` do not change the state -/

/-- Clifford tableaux on `n` qubits whose stabilizer rows agree describe the same state -/
theorem tabRho_congr (n : Nat) (t t' : Tab) (hn : t.n = n) (hn' : t'.n = n)
    (h : ∀ i, n ≤ i → i < 2 * n → PRow.EqOn n (t.row i) (t'.row i)) : tabRho n t = tabRho n t' := by
  subst hn
  show rhoTo t.n (STab.ofTab t).row t.n = rhoTo t.n (STab.ofTab t').row t'.n
  rw [hn']
  apply rhoTo_congr
  intro i hi
  show PRow.EqOn t.n { (t.row (i + t.n)) with ip := false } { (t'.row (i + t'.n)) with ip := false }
  rw [hn']
  have := h (i + t.n) (by omega) (by omega)
  exact ⟨this.1, this.2.1, rfl⟩

theorem tabRho_norm (n : Nat) (t : Tab) (hn : t.n = n) : tabRho n t.norm = tabRho n t :=
  tabRho_congr n t.norm t (by rw [Tab.norm_n]; exact hn) hn
    (fun i _ h2 => (norm_is_identity t).2 i (by rw [hn]; exact h2) |> fun e => by rw [hn] at e; exact e)

theorem eqOn_of_beqOn (n : Nat) (a b : PRow) (h : PRow.beqOn n a b = true) : PRow.EqOn n a b := by
  unfold PRow.beqOn at h
  simp only [Bool.and_eq_true, List.all_eq_true, List.mem_range, beq_iff_eq] at h
  exact ⟨fun j hj => h.1.1 j hj, h.1.2, h.2⟩

/-- `CliffordTableau.__eq__` (all `2n` rows equal, phases included) implies equal states -/
theorem tabRho_tabEq (n : Nat) (t t' : Tab) (hn : t.n = n) (h : Mix.tabEq t t' = true) : tabRho n t = tabRho n t' := by
  unfold Mix.tabEq at h
  simp only [Bool.and_eq_true, beq_iff_eq, List.all_eq_true, List.mem_range] at h
  apply tabRho_congr n t t' hn (by rw [← h.1]; exact hn)
  intro i _ h2
  have := eqOn_of_beqOn _ _ _ (h.2 i (by rw [hn]; exact h2))
  rw [hn] at this
  exact this

/-! ### gates on every branch -/

/-- conjugation `U ρ U†` -/
noncomputable def conjH {n : Nat} (U ρ : HMat n) : HMat n := U * ρ * Uᴴ

theorem conjH_add {n : Nat} (U a b : HMat n) : conjH U (a + b) = conjH U a + conjH U b := by
  unfold conjH; rw [mul_add, add_mul]
theorem conjH_smul {n : Nat} (U a : HMat n) (c : ℂ) : conjH U (c • a) = c • conjH U a := by
  unfold conjH; rw [mul_smul_comm, smul_mul_assoc]
theorem conjH_zero {n : Nat} (U : HMat n) : conjH U 0 = 0 := by unfold conjH; simp
theorem conjH_one {n : Nat} (ρ : HMat n) : conjH 1 ρ = ρ := by unfold conjH; simp

/-- one branch: the tableau rule of a gate is conjugation of the state by the gate's unitary -/
theorem tabRho_gate (n : Nat) (t : Tab) (hn : t.n = n) (g : Gate) (hg : g.WF n) :
    tabRho n (t.map g.act) = conjH (gateMat n g) (tabRho n t) := by
  subst hn
  exact (rho_tab_gate t g hg).symm

/-- a gate applied to every branch (`Mix.mapTab`, tabulation included) conjugates `Σ w_k ρ(T_k)` by the gate's unitary -/
theorem mixRho_mapGate (n : Nat) (g : Gate) (hg : g.WF n) (m : Mixture) (hm : MixN n m) :
    mixRho n (Mix.mapTab (fun t => t.map g.act) m) = conjH (gateMat n g) (mixRho n m) := by
  induction m with
  | nil => simp [Mix.mapTab, mixRho_nil, conjH_zero]
  | cons x xs ih =>
    obtain ⟨w, t⟩ := x
    have e : Mix.mapTab (fun t => t.map g.act) ((w, t) :: xs)
        = (w, (t.map g.act).norm) :: Mix.mapTab (fun t => t.map g.act) xs := by simp [Mix.mapTab]
    have hn : t.n = n := hm.head
    rw [e, mixRho_cons, mixRho_cons, ih hm.tail, conjH_add, conjH_smul,
      tabRho_norm n _ (show (t.map g.act).n = n from hn), tabRho_gate n t hn g hg]

theorem mapTab_mixN (n : Nat) (f : Tab → Tab) (hf : ∀ t : Tab, t.n = n → (f t).n = n) (m : Mixture) (hm : MixN n m) :
    MixN n (Mix.mapTab f m) := by
  intro x hx
  simp only [Mix.mapTab, List.mem_map] at hx
  obtain ⟨⟨p, t⟩, hy, rfl⟩ := hx
  show (f t).norm.n = n
  rw [Tab.norm_n]; exact hf t (hm (p, t) hy)

/-! ### photon loss -/

theorem mixRho_photonLoss (n : Nat) (r : Rat) (m : Mixture) :
    mixRho n (Mix.photonLoss r m) = (((1 - r : ℚ)) : ℂ) • mixRho n m := by
  induction m with
  | nil => simp [Mix.photonLoss, mixRho_nil]
  | cons x xs ih =>
    obtain ⟨w, t⟩ := x
    have e : Mix.photonLoss r ((w, t) :: xs) = ((1 - r) * w, t) :: Mix.photonLoss r xs := by simp [Mix.photonLoss]
    rw [e, mixRho_cons, mixRho_cons, ih, smul_add, smul_smul]
    push_cast
    rfl

/-! ### `reduce()` -/

theorem mixRho_eraseIdx (n : Nat) : ∀ (l : Mixture) (i : Nat) (p : Rat) (t : Tab), l[i]? = some (p, t) →
    mixRho n l = ((p : ℚ) : ℂ) • tabRho n t + mixRho n (l.eraseIdx i)
  | [], _, _, _, h => by simp at h
  | (p0, t0) :: rest, 0, p, t, h => by
    simp at h; obtain ⟨rfl, rfl⟩ := h
    simp [mixRho_cons]
  | (p0, t0) :: rest, i+1, p, t, h => by
    simp at h
    have ih := mixRho_eraseIdx n rest i p t h
    simp only [List.eraseIdx_cons_succ, mixRho_cons, ih]
    abel

/-- the inner scan of `reduce()`: what it removes from the list it adds to the weight of `t0` (equal tableau, equal state) -/
theorem reduceScan_mixRho (n : Nat) (t0 : Tab) (h0 : t0.n = n) : ∀ (fuel i : Nat) (p0 : Rat) (l : Mixture),
    (((Mix.reduceScan t0 fuel i p0 l).1 : ℚ) : ℂ) • tabRho n t0 + mixRho n (Mix.reduceScan t0 fuel i p0 l).2
      = ((p0 : ℚ) : ℂ) • tabRho n t0 + mixRho n l
  | 0, _, _, _ => by simp [Mix.reduceScan]
  | fuel+1, i, p0, l => by
    unfold Mix.reduceScan
    cases hl : l[i]? with
    | none => simp
    | some pt =>
      obtain ⟨pi, ti⟩ := pt
      simp only
      split
      · rename_i heq
        rw [reduceScan_mixRho n t0 h0 fuel (i + 1) (p0 + pi) (l.eraseIdx i), mixRho_eraseIdx n l i pi ti hl,
          ← tabRho_tabEq n t0 ti h0 heq]
        push_cast
        rw [add_smul, add_assoc]
      · exact reduceScan_mixRho n t0 h0 fuel (i + 1) p0 l

theorem reduceScan_mixN (n : Nat) (t0 : Tab) (fuel i : Nat) (p0 : Rat) (l : Mixture) (hl : MixN n l) :
    MixN n (Mix.reduceScan t0 fuel i p0 l).2 :=
  fun x hx => hl x (reduceScan_sub t0 fuel i p0 l x hx)

/-- **`MixedStabilizer.reduce()` — popping while enumerating included — never changes `Σ w_k ρ(T_k)`** (whatever the fuel:
    the model's `reduce` drops nothing it has not merged when `m.length ≤ fuel`) -/
theorem mixRho_reduce (n : Nat) : ∀ (fuel : Nat) (m : Mixture), m.length ≤ fuel → MixN n m →
    mixRho n (Mix.reduce fuel m) = mixRho n m
  | 0, m, h, _ => by
    have : m = [] := List.eq_nil_of_length_eq_zero (by omega)
    subst this; simp [Mix.reduce, mixRho_nil]
  | fuel+1, [], _, _ => by simp [Mix.reduce, mixRho_nil]
  | fuel+1, (p0, t0) :: rest, h, hm => by
    have hs := reduceScan_mixRho n t0 hm.head rest.length 0 p0 rest
    have hlen := (Mix.reduceScan_total t0 rest.length 0 p0 rest).2
    simp only [Mix.reduce]
    rw [mixRho_cons, mixRho_cons,
      mixRho_reduce n fuel _ (by simp at h; omega) (reduceScan_mixN n t0 _ _ _ _ hm.tail)]
    exact hs

/-! ### Pauli errors and depolarizing noise -/

/-- the gate of the `k`-th one-qubit Pauli "transformation" of `DepolarizingNoise.apply` (`identity, x_gate, y_gate, z_gate`) -/
def pauliG (k q : Nat) : Gate :=
  match k with
  | 0 => .I q
  | 1 => .X q
  | 2 => .Y q
  | _ => .Z q

theorem pauliGate_eq : ∀ (k : Nat) (t : Tab) (q : Nat), Mix.pauliGate k t q = t.map (pauliG k q).act
  | 0, _, _ => rfl
  | 1, _, _ => rfl
  | 2, _, _ => rfl
  | _ + 3, _, _ => rfl

theorem pauliG_wf (n : Nat) : ∀ (k q : Nat), q < n → (pauliG k q).WF n
  | 0, _, _ => trivial
  | 1, _, h => h
  | 2, _, h => h
  | _ + 3, _, h => h

/-- the depolarizing channel on qubit `q` as the density-matrix backend applies it: `(1−p) ρ + p/3 (XρX† + YρY† + ZρZ†)` -/
noncomputable def depolH (n q : Nat) (p : Rat) (ρ : HMat n) : HMat n :=
  ((1 - p : ℚ) : ℂ) • ρ +
    ((p / 3 : ℚ) : ℂ) • (conjH (gateMat n (.X q)) ρ + conjH (gateMat n (.Y q)) ρ + conjH (gateMat n (.Z q)) ρ)

theorem depolH_add (n q : Nat) (p : Rat) (a b : HMat n) : depolH n q p (a + b) = depolH n q p a + depolH n q p b := by
  unfold depolH
  simp only [conjH_add, smul_add]
  abel

theorem depolH_smul (n q : Nat) (p : Rat) (c : ℂ) (a : HMat n) : depolH n q p (c • a) = c • depolH n q p a := by
  unfold depolH
  simp only [conjH_smul, smul_add, smul_comm c]

theorem depolH_zero (n q : Nat) (p : Rat) : depolH n q p (0 : HMat n) = 0 := by
  unfold depolH; simp [conjH_zero]

theorem tabRho_pauliGate (n : Nat) (k q : Nat) (hq : q < n) (t : Tab) (hn : t.n = n) :
    tabRho n (Mix.pauliGate k t q).norm = conjH (gateMat n (pauliG k q)) (tabRho n t) := by
  rw [pauliGate_eq, tabRho_norm n _ (show (t.map (pauliG k q).act).n = n from hn),
    tabRho_gate n t hn _ (pauliG_wf n k q hq)]

/-- one branch of `DepolarizingNoise.apply`: the Kraus terms with a positive factor sum to the depolarizing channel applied to
    the branch (the dropped terms have factor exactly 0 when `0 ≤ p ≤ 1`) -/
theorem mixRho_depolBranch (n q : Nat) (hq : q < n) (p : Rat) (hp0 : 0 ≤ p) (hp1 : p ≤ 1) (w : Rat) (t : Tab) (hn : t.n = n) :
    mixRho n (Mix.depolBranch p q w t) = ((w : ℚ) : ℂ) • depolH n q p (tabRho n t) := by
  have e : List.range 4 = [0, 1, 2, 3] := by decide
  have h1 : 0 ≤ 1 - p := by linarith
  have h2 : 0 ≤ p / 3 := div_nonneg hp0 (by norm_num)
  have g0 := tabRho_pauliGate n 0 q hq t hn
  have g1 := tabRho_pauliGate n 1 q hq t hn
  have g2 := tabRho_pauliGate n 2 q hq t hn
  have g3 := tabRho_pauliGate n 3 q hq t hn
  have gi : conjH (gateMat n (pauliG 0 q)) (tabRho n t) = tabRho n t := conjH_one _
  rw [gi] at g0
  unfold Mix.depolBranch Mix.depolFactors
  rw [e]
  simp only [List.filterMap_cons, List.filterMap_nil, List.getD_cons_zero, List.getD_cons_succ]
  unfold depolH
  rcases lt_or_eq_of_le h1 with a | a <;> rcases lt_or_eq_of_le h2 with b | b
  · simp only [a, b, if_true, mixRho_cons, mixRho_nil, g0, g1, g2, g3]
    show _ = _ • (_ + _ • (conjH (gateMat n (pauliG 1 q)) _ + conjH (gateMat n (pauliG 2 q)) _ + conjH (gateMat n (pauliG 3 q)) _))
    simp only [smul_add, smul_smul, add_zero]
    push_cast
    abel
  · have hb : ¬ (0 < p / 3) := by rw [← b]; exact lt_irrefl 0
    simp only [a, hb, if_true, if_false, mixRho_cons, mixRho_nil, g0]
    rw [← b]
    simp only [smul_add, smul_smul, add_zero]
    push_cast
    simp
  · have ha : ¬ (0 < 1 - p) := by rw [← a]; exact lt_irrefl 0
    simp only [b, ha, if_true, if_false, mixRho_cons, mixRho_nil, g1, g2, g3]
    show _ = _ • (_ + _ • (conjH (gateMat n (pauliG 1 q)) _ + conjH (gateMat n (pauliG 2 q)) _ + conjH (gateMat n (pauliG 3 q)) _))
    rw [← a]
    simp only [smul_add, smul_smul, add_zero]
    push_cast
    simp only [mul_zero, zero_smul, zero_add]
    abel
  · exfalso
    have : p = 0 := by
      have := b.symm; rcases div_eq_zero_iff.1 this with h | h
      · exact h
      · norm_num at h
    rw [this] at a; norm_num at a

theorem mixRho_flatMap_depol (n q : Nat) (hq : q < n) (p : Rat) (hp0 : 0 ≤ p) (hp1 : p ≤ 1) :
    ∀ (m : Mixture), MixN n m →
      mixRho n (m.flatMap fun x => Mix.depolBranch p q x.1 x.2) = depolH n q p (mixRho n m)
  | [], _ => by simp [mixRho_nil, depolH_zero]
  | (w, t) :: rest, hm => by
    simp only [List.flatMap_cons, mixRho_append, mixRho_cons]
    rw [mixRho_depolBranch n q hq p hp0 hp1 w t hm.head, mixRho_flatMap_depol n q hq p hp0 hp1 rest hm.tail,
      depolH_add, depolH_smul]

theorem flatMap_depol_mixN (n q : Nat) (p : Rat) (m : Mixture) (hm : MixN n m) :
    MixN n (m.flatMap fun x => Mix.depolBranch p q x.1 x.2) := by
  intro x hx
  simp only [List.mem_flatMap, Mix.depolBranch, List.mem_filterMap, List.mem_range] at hx
  obtain ⟨⟨pi, ti⟩, hy, k, _, hk⟩ := hx
  simp only at hk
  split at hk
  · injection hk with hk; subst hk
    show (Mix.pauliGate k ti q).norm.n = n
    rw [Tab.norm_n, pauliGate_eq]
    exact hm (pi, ti) hy
  · cases hk

/-- **`DepolarizingNoise.apply` on a mixture** (branching, the `factor > 0` filter, the weight check and `reduce()` as coded)
    is the depolarizing channel on `Σ w_k ρ(T_k)`, for every probability `0 ≤ p ≤ 1` -/
theorem mixRho_depolarize (n q : Nat) (hq : q < n) (p : Rat) (hp0 : 0 ≤ p) (hp1 : p ≤ 1) (m m' : Mixture) (hm : MixN n m)
    (h : Mix.depolarize p q m = .ok m') : mixRho n m' = depolH n q p (mixRho n m) := by
  rw [Mix.depolarize_unfold] at h
  split at h; · cases h
  split at h; · cases h
  injection h with h; subst h
  rw [mixRho_reduce n _ _ (Nat.le_refl _) (flatMap_depol_mixN n q p m hm), mixRho_flatMap_depol n q hq p hp0 hp1 m hm]

theorem reduce_mixN (n fuel : Nat) (m : Mixture) (hm : MixN n m) : MixN n (Mix.reduce fuel m) := by
  intro x hx
  obtain ⟨y, hy, e⟩ := reduce_tabs fuel m x hx
  rw [e]; exact hm y hy

theorem depolarize_mixN (n q : Nat) (p : Rat) (m m' : Mixture) (hm : MixN n m) (h : Mix.depolarize p q m = .ok m') :
    MixN n m' := by
  rw [Mix.depolarize_unfold] at h
  split at h; · cases h
  split at h; · cases h
  injection h with h; subst h
  exact reduce_mixN n _ _ (flatMap_depol_mixN n q p m hm)

/-- Hilbert-space action of `PauliError(k)` on qubit `q`: conjugation by the Pauli -/
noncomputable def pauliH (n q : Nat) (k : PauliK) (ρ : HMat n) : HMat n :=
  match k with
  | .X => conjH (gateMat n (.X q)) ρ
  | .Y => conjH (gateMat n (.Y q)) ρ
  | .Z => conjH (gateMat n (.Z q)) ρ
  | _ => ρ

/-- **`PauliError.apply` on a mixture** is conjugation of `Σ w_k ρ(T_k)` by the Pauli -/
theorem mixRho_pauliError (n q : Nat) (hq : q < n) (k : PauliK) (m m' : Mixture) (hm : MixN n m)
    (h : Mix.pauliError k q m = .ok m') : mixRho n m' = pauliH n q k (mixRho n m) := by
  cases k <;> simp only [Mix.pauliError] at h
  · injection h with h; subst h; rfl
  · injection h with h; subst h; exact mixRho_mapGate n (.X q) hq m hm
  · injection h with h; subst h; exact mixRho_mapGate n (.Y q) hq m hm
  · injection h with h; subst h; exact mixRho_mapGate n (.Z q) hq m hm
  · cases h

theorem pauliError_mixN (n q : Nat) (k : PauliK) (m m' : Mixture) (hm : MixN n m)
    (h : Mix.pauliError k q m = .ok m') : MixN n m' := by
  cases k <;> simp only [Mix.pauliError] at h
  · injection h with h; subst h; exact hm
  · injection h with h; subst h; exact mapTab_mixN n (fun t => t.xGate q) (fun _ h => h) m hm
  · injection h with h; subst h; exact mapTab_mixN n (fun t => t.yGate q) (fun _ h => h) m hm
  · injection h with h; subst h; exact mapTab_mixN n (fun t => t.zGate q) (fun _ h => h) m hm
  · cases h

end MixDM
end Graphiq
