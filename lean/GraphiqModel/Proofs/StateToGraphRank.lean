/-
  Proofs/StateToGraphRank.lean — the rank argument behind the repaired `_position_finder` (handoff/repairs/d40/README.md):
  for n independent, mutually commuting rows `[X | Z]` whose X part is in row echelon form, exchanging the X and Z columns at the
  NON-PIVOT columns leaves an X part whose rows are linearly independent over GF(2).
  Also: `row_reduction` keeps independence and commutation of the rows.  All sizes.
-/
import GraphiqModel.Proofs.StateToGraphEchelon
namespace Graphiq
namespace S2G

/-! ### the symplectic product of two bit rows -/

def bsp (n : Nat) (a b a' b' : Nat → Bool) : Bool := parityTo n fun j => xor (a j && b' j) (b j && a' j)

theorem bsp_symm (n : Nat) (a b a' b' : Nat → Bool) : bsp n a b a' b' = bsp n a' b' a b := by
  unfold bsp
  apply parityTo_congr
  intro j _
  cases a j <;> cases b j <;> cases a' j <;> cases b' j <;> rfl

theorem bsp_linear (n : Nat) (a b : Nat → Bool) : Linear n (fun a' b' => bsp n a b a' b' = false) := by
  refine ⟨?_, ?_, ?_⟩
  · unfold bsp; apply parityTo_zero; intro j _; simp
  · intro a1 b1 a2 b2 h1 h2
    unfold bsp at h1 h2 ⊢
    have : parityTo n (fun j => xor (a j && xor (b1 j) (b2 j)) (b j && xor (a1 j) (a2 j))) =
        xor (parityTo n fun j => xor (a j && b1 j) (b j && a1 j)) (parityTo n fun j => xor (a j && b2 j) (b j && a2 j)) := by
      rw [← parityTo_xor]
      apply parityTo_congr
      intro j _
      cases a j <;> cases b j <;> cases a1 j <;> cases b1 j <;> cases a2 j <;> cases b2 j <;> rfl
    rw [this, h1, h2]; rfl
  · intro a1 b1 a2 b2 h he
    unfold bsp at h ⊢
    rw [← h]
    apply parityTo_congr
    intro j hj
    rw [(he j hj).1, (he j hj).2]

/-- if the generating rows commute pairwise, so do all elements of their row space -/
theorem bspan_commute (n m : Nat) (rx rz : Nat → Nat → Bool)
    (hc : ∀ i k, i < m → k < m → bsp n (rx i) (rz i) (rx k) (rz k) = false) {a b a' b' : Nat → Bool}
    (h : BSpan n m rx rz a b) (h' : BSpan n m rx rz a' b') : bsp n a b a' b' = false := by
  have h1 : ∀ k, k < m → bsp n a b (rx k) (rz k) = false := by
    intro k hk
    rw [bsp_symm]
    exact BSpan.sat (bsp_linear n (rx k) (rz k)) (fun i hi => hc k i hk hi) h
  exact BSpan.sat (bsp_linear n a b) h1 h'

/-- exchanging the same columns in both rows does not change the symplectic product -/
theorem bsp_hx (n : Nat) (pos : List Nat) (a b a' b' : Nat → Bool) :
    bsp n (hx pos a b) (hx pos b a) (hx pos a' b') (hx pos b' a') = bsp n a b a' b' := by
  unfold bsp
  apply parityTo_congr
  intro j _
  simp only [hx]
  split
  · cases a j <;> cases b j <;> cases a' j <;> cases b' j <;> rfl
  · rfl

/-- the rows of a pair of matrices commute pairwise -/
def Comm (m : XZ) : Prop := ∀ i k, i < m.n → k < m.n → bsp m.n (m.x i) (m.z i) (m.x k) (m.z k) = false

theorem comm_of_bequiv {m m' : XZ} (h : BEquiv m m') (hc : Comm m) : Comm m' := by
  intro i k hi hk
  rw [h.n_eq] at hi hk ⊢
  exact bspan_commute m.n m.n m.x m.z hc (h.fwd i hi) (h.fwd k hk)

/-! ### linear independence of the rows, and the row operations -/

/-- the `n` rows `[x_i | z_i]` are linearly independent over GF(2) -/
def Indep (m : XZ) : Prop := ∀ c : Nat → Bool,
  (∀ j, j < m.n → parityTo m.n (fun i => c i && m.x i j) = false ∧ parityTo m.n (fun i => c i && m.z i j) = false) →
  ∀ i, i < m.n → c i = false

theorem indep_agree (m m' : XZ) (hn : m'.n = m.n) (hx : ∀ i j, i < m.n → j < m.n → m'.x i j = m.x i j)
    (hz : ∀ i j, i < m.n → j < m.n → m'.z i j = m.z i j) (h : Indep m) : Indep m' := by
  intro c hc i hi
  rw [hn] at hi
  apply h c _ i hi
  intro j hj
  have := hc j (by rw [hn]; exact hj)
  rw [hn] at this
  constructor
  · rw [← this.1]; apply parityTo_congr; intro k hk; rw [hx k j hk hj]
  · rw [← this.2]; apply parityTo_congr; intro k hk; rw [hz k j hk hj]

theorem indep_norm (m : XZ) (h : Indep m) : Indep m.norm :=
  indep_agree m m.norm rfl (fun i j hi hj => norm_x m i j hi hj) (fun i j hi hj => norm_z m i j hi hj) h

/-- a combination of the swapped rows is the combination of the rows with swapped coefficients -/
theorem combo_swap (n a b : Nat) (ha : a < n) (hb : b < n) (c : Nat → Bool) (M : Adj) (j : Nat) :
    parityTo n (fun i => c i && (if i = a then M b else if i = b then M a else M i) j) =
    parityTo n (fun i => (if i = a then c b else if i = b then c a else c i) && M i j) := by
  have := parityTo_swap n a b (fun i => (if i = a then c b else if i = b then c a else c i) && M i j) ha hb
  rw [← this]
  apply parityTo_congr
  intro i _
  by_cases h1 : i = a
  · subst h1
    by_cases h2 : b = i
    · subst h2; simp
    · simp [h2]
  · by_cases h2 : i = b
    · subst h2
      have h3 : ¬ (a = i) := fun e => h1 e.symm
      simp [h1]
    · simp [h1, h2]

theorem indep_rowSwap (m : XZ) (a b : Nat) (ha : a < m.n) (hb : b < m.n) (h : Indep m) : Indep (m.rowSwap a b) := by
  intro c hc
  have key := h (fun i => if i = a then c b else if i = b then c a else c i) (by
    intro j hj
    have := hc j hj
    simp only [XZ.rowSwap] at this
    rw [combo_swap m.n a b ha hb c m.x j, combo_swap m.n a b ha hb c m.z j] at this
    exact this)
  intro i hi
  by_cases h1 : i = a
  · have := key b hb
    by_cases h2 : b = a
    · rw [if_pos h2] at this; rw [h1, ← h2]; exact this
    · rw [if_neg h2, if_pos rfl] at this; rw [h1]; exact this
  · by_cases h2 : i = b
    · have := key a ha
      rw [if_pos rfl] at this; rw [h2]; exact this
    · have := key i hi
      rw [if_neg h1, if_neg h2] at this; exact this

/-- a combination of the rows after `add_rows(src, tgt)` -/
theorem combo_add (n src tgt : Nat) (hs : src < n) (ht : tgt < n) (c : Nat → Bool) (M : Adj) (j : Nat) :
    parityTo n (fun i => c i && (if i = tgt then xor (M src j) (M tgt j) else M i j)) =
    parityTo n (fun i => (if i = src then xor (c src) (c tgt) else c i) && M i j) := by
  have e1 : parityTo n (fun i => c i && (if i = tgt then xor (M src j) (M tgt j) else M i j)) =
      xor (parityTo n fun i => c i && M i j) (c tgt && M src j) := by
    rw [← parityTo_single n tgt (fun _ => c tgt && M src j) ht, ← parityTo_xor]
    apply parityTo_congr
    intro i _
    by_cases h : i = tgt
    · subst h; cases c i <;> cases M src j <;> cases M i j <;> simp
    · simp [h]
  have e2 : parityTo n (fun i => (if i = src then xor (c src) (c tgt) else c i) && M i j) =
      xor (parityTo n fun i => c i && M i j) (c tgt && M src j) := by
    rw [← parityTo_single n src (fun i => c tgt && M i j) hs, ← parityTo_xor]
    apply parityTo_congr
    intro i _
    by_cases h : i = src
    · subst h; cases c i <;> cases c tgt <;> cases M i j <;> simp
    · simp [h]
  rw [e1, e2]

theorem indep_addRows (m : XZ) (src tgt : Nat) (hs : src < m.n) (ht : tgt < m.n) (hne : src ≠ tgt) (h : Indep m) :
    Indep (m.addRows src tgt) := by
  intro c hc
  have key := h (fun i => if i = src then xor (c src) (c tgt) else c i) (by
    intro j hj
    have := hc j hj
    simp only [XZ.addRows] at this
    rw [combo_add m.n src tgt hs ht c m.x j, combo_add m.n src tgt hs ht c m.z j] at this
    exact this)
  have htgt : c tgt = false := by
    have := key tgt ht
    rw [if_neg (fun e => hne e.symm)] at this; exact this
  intro i hi
  by_cases h1 : i = src
  · have := key src hs
    rw [if_pos rfl, htgt] at this
    rw [h1]; simpa using this
  · have := key i hi
    rw [if_neg h1] at this; exact this

theorem indep_foldAdd (pr : Nat) (l : List Nat) (m : XZ) (hpr : pr < m.n) (hl : ∀ j, j ∈ l → j < m.n ∧ pr ≠ j)
    (h : Indep m) : Indep (l.foldl (fun acc j => acc.addRows pr j) m) := by
  induction l generalizing m with
  | nil => exact h
  | cons j rest ih =>
    simp only [List.foldl]
    have hj := hl j List.mem_cons_self
    exact ih (m.addRows pr j) hpr (fun k hk => hl k (List.mem_cons_of_mem _ hk)) (indep_addRows m pr j hpr hj.1 hj.2 h)

theorem indep_elimBelow (m : XZ) (pr pc : Nat) (hpr : pr < m.n) (h : Indep m) :
    Indep (m.elimBelow pr (m.theOnes pr pc)) := by
  obtain ⟨hmem, hsorted⟩ := theOnes_spec m pr pc
  cases hl : m.theOnes pr pc with
  | nil => exact h
  | cons f rest =>
    rw [hl] at hmem hsorted
    have hf := hmem f List.mem_cons_self
    have hrest : ∀ j, j ∈ rest → j < (m.rowSwap f pr).n ∧ pr ≠ j := by
      intro j hj
      have h1 := hmem j (List.mem_cons_of_mem _ hj)
      have h2 : f < j := (List.pairwise_cons.mp hsorted).1 j hj
      exact ⟨h1.2.1, by omega⟩
    simp only [XZ.elimBelow]
    exact indep_norm _ (indep_foldAdd pr rest (m.rowSwap f pr) hpr hrest (indep_rowSwap m f pr hf.2.1 hpr h))

theorem indep_rowRedLoop (fuel : Nat) (m : XZ) (pr pc : Nat) (hpr : pr < m.n) (h : Indep m) :
    Indep (XZ.rowRedLoop fuel m pr pc).1 := by
  induction fuel generalizing m pr pc with
  | zero => exact h
  | succ fuel ih =>
    unfold XZ.rowRedLoop
    split
    · split
      · exact h
      · exact indep_elimBelow m pr pc hpr h
    · split
      · split
        · exact h
        · exact ih m pr (pc + 1) hpr h
      · split
        · exact ih m pr (pc + 1) hpr h
        · have hn' := elimBelow_n m pr (m.theOnes pr pc)
          exact ih _ (pr + 1) (pc + 1) (by rw [hn']; omega) (indep_elimBelow m pr pc hpr h)

theorem indep_rowReduction (m : XZ) (hn : 0 < m.n) (h : Indep m) : Indep m.rowReduction.1 :=
  indep_rowRedLoop (m.n + 1) m 0 0 hn h

/-! ### the rank argument -/

theorem parityTo_only (n q : Nat) (f : Nat → Bool) (hq : q < n) (h : ∀ j, j < n → j ≠ q → f j = false) :
    parityTo n f = f q := by
  rw [parityTo_congr n f (fun j => decide (j = q) && f j)]
  · exact parityTo_single n q f hq
  · intro j hj
    by_cases e : j = q
    · subst e; simp
    · simp [e, h j hj e]

/-- **Hadamards on the non-pivot columns make the X part invertible**: for independent commuting rows whose X part is in row
    echelon form, the rows of the X part after exchanging the X and Z columns at the non-pivot columns `pos` are linearly
    independent (a vanishing combination of them has only zero coefficients) -/
theorem hadamard_rows_independent (m : XZ) (r : Nat) (piv : Nat → Nat) (he : Ech m r piv) (pos : List Nat)
    (hpos : ∀ q, q ∈ pos ↔ q < m.n ∧ ∀ i, i < r → piv i ≠ q) (hcomm : Comm m) (hind : Indep m) (v : Nat → Bool)
    (hv : ∀ j, j < m.n → parityTo m.n (fun i => v i && hx pos (m.x i) (m.z i) j) = false) :
    ∀ i, i < m.n → v i = false := by
  -- the combination of the raw rows with the same coefficients
  let a : Nat → Bool := fun j => parityTo m.n (fun i => v i && m.x i j)
  let b : Nat → Bool := fun j => parityTo m.n (fun i => v i && m.z i j)
  have hcont : ∀ j, pos.contains j = true ↔ j ∈ pos := fun j => List.contains_iff_mem
  -- its X part vanishes on the pivot columns, its Z part on the others
  have aPiv : ∀ k, k < r → a (piv k) = false := by
    intro k hk
    have hnot : pos.contains (piv k) = false := by
      apply Bool.eq_false_iff.mpr
      intro hc
      exact ((hpos (piv k)).mp ((hcont _).mp hc)).2 k hk rfl
    have := hv (piv k) (he.piv_lt k hk)
    rw [← this]
    apply parityTo_congr
    intro i _
    simp only [hx, hnot]; rfl
  have bNon : ∀ j, j < m.n → (∀ k, k < r → piv k ≠ j) → b j = false := by
    intro j hj hnp
    have hin : pos.contains j = true := (hcont j).mpr ((hpos j).mpr ⟨hj, hnp⟩)
    have := hv j hj
    rw [← this]
    apply parityTo_congr
    intro i _
    simp only [hx, hin]; rfl
  -- the coefficients of the pivot rows vanish (unit upper triangular block)
  have vTop : ∀ i, i < r → v i = false := by
    intro i
    induction i using Nat.strong_induction_on with
    | _ i ih =>
      intro hi
      have hir : i < m.n := Nat.lt_of_lt_of_le hi he.r_le
      have e : a (piv i) = (v i && m.x i (piv i)) := by
        apply parityTo_only m.n i _ hir
        intro k hk hne
        by_cases h1 : k < i
        · rw [ih k h1 (by omega)]; rfl
        · have hki : i < k := by omega
          by_cases h2 : k < r
          · rw [he.before k (piv i) h2 (he.mono i k hki h2)]; simp
          · rw [he.below k (piv i) (by omega) hk (he.piv_lt i hi)]; simp
      rw [aPiv i hi, he.one i hi] at e
      simpa using e.symm
  have aZero : ∀ j, j < m.n → a j = false := by
    intro j hj
    apply parityTo_zero
    intro i hi
    by_cases h1 : i < r
    · rw [vTop i h1]; rfl
    · rw [he.below i j (by omega) hi hj]; simp
  -- the combination commutes with every row
  have hab : BSpan m.n m.n m.x m.z a b := BSpan.combo m.n m.n m.x m.z v m.n (Nat.le_refl _)
  have rowDot : ∀ i, i < m.n → parityTo m.n (fun j => m.x i j && b j) = false := by
    intro i hi
    have := bspan_commute m.n m.n m.x m.z hcomm (BSpan.gen i hi) hab
    unfold bsp at this
    rw [← this]
    apply parityTo_congr
    intro j hj
    rw [aZero j hj]; simp
  -- back substitution: the Z part vanishes on the pivot columns too
  have bPiv : ∀ d i, i < r → r - i ≤ d → b (piv i) = false := by
    intro d
    induction d with
    | zero => intro i hi hd; omega
    | succ d ih =>
      intro i hi hd
      have hir : i < m.n := Nat.lt_of_lt_of_le hi he.r_le
      have e : parityTo m.n (fun j => m.x i j && b j) = (m.x i (piv i) && b (piv i)) := by
        apply parityTo_only m.n (piv i) _ (he.piv_lt i hi)
        intro j hj hne
        by_cases hp : ∃ k, k < r ∧ piv k = j
        · obtain ⟨k, hk, hkj⟩ := hp
          have hki : k ≠ i := fun e => hne (by rw [← hkj, e])
          by_cases h1 : k < i
          · rw [← hkj, he.before i (piv k) hi (he.mono k i h1 hi)]; rfl
          · rw [← hkj, ih k hk (by omega)]; simp
        · rw [bNon j hj (fun k hk e => hp ⟨k, hk, e⟩)]; simp
      rw [rowDot i hir, he.one i hi] at e
      simpa using e.symm
  have bZero : ∀ j, j < m.n → b j = false := by
    intro j hj
    by_cases hp : ∃ k, k < r ∧ piv k = j
    · obtain ⟨k, hk, hkj⟩ := hp
      rw [← hkj]; exact bPiv r k hk (by omega)
    · exact bNon j hj (fun k hk e => hp ⟨k, hk, e⟩)
  exact hind v (fun j hj => ⟨aZero j hj, bZero j hj⟩)

end S2G
end Graphiq
