/-
  Proofs/StateToGraphGauge.lean — `stabilizer_to_graph` / `state_to_graph` recover `G` from `|G⟩` presented in ANY generating set:
  for every real commuting tableau `t` that generates the signed group of the graph state of a simple graph `A` (n ≥ 1), the
  modelled `_graph_finder` returns `A` with no Hadamard and no `P_dag` position, `stabilizer_to_graph(validate=True)` returns `A`
  (its closing comparison of canonical forms succeeds) and `state_to_graph` returns `(A, [])`.
  Route: the group of `|G⟩` contains an element with X part `e_j` for every `j`, so the X part of ANY generating set is
  invertible; row reduction then finds `n` pivots on the diagonal, `_position_finder` returns `[]`, `final_z = Z X⁻¹`
  is the unique matrix `C` with `z = x·C` on the group, which is `A`.  All sizes.
-/
import GraphiqModel.Proofs.StateToGraphTotal
import Mathlib.Tactic.Choose
namespace Graphiq
open PRow Tab STab S2G

namespace S2G

/-! ### coefficients of a combination -/

theorem bspan_coeffs {n m : Nat} {rx rz : Nat → Nat → Bool} {a b : Nat → Bool} (h : BSpan n m rx rz a b) :
    ∃ c : Nat → Bool, ∀ j, j < n →
      a j = parityTo m (fun i => c i && rx i j) ∧ b j = parityTo m (fun i => c i && rz i j) := by
  induction h with
  | zero =>
    refine ⟨fun _ => false, fun j _ => ⟨?_, ?_⟩⟩ <;>
      (symm; apply parityTo_zero; intro i _; rfl)
  | gen i hi =>
    refine ⟨fun k => decide (k = i), fun j _ => ⟨?_, ?_⟩⟩
    · exact (parityTo_single m i (fun k => rx k j) hi).symm
    · exact (parityTo_single m i (fun k => rz k j) hi).symm
  | add a b a' b' _ _ ih1 ih2 =>
    obtain ⟨c1, h1⟩ := ih1
    obtain ⟨c2, h2⟩ := ih2
    refine ⟨fun i => xor (c1 i) (c2 i), fun j hj => ⟨?_, ?_⟩⟩
    · show xor (a j) (a' j) = _
      rw [(h1 j hj).1, (h2 j hj).1, ← parityTo_xor]
      apply parityTo_congr; intro i _
      show xor (c1 i && rx i j) (c2 i && rx i j) = (xor (c1 i) (c2 i) && rx i j)
      cases c1 i <;> cases c2 i <;> cases rx i j <;> rfl
    · show xor (b j) (b' j) = _
      rw [(h1 j hj).2, (h2 j hj).2, ← parityTo_xor]
      apply parityTo_congr; intro i _
      show xor (c1 i && rz i j) (c2 i && rz i j) = (xor (c1 i) (c2 i) && rz i j)
      cases c1 i <;> cases c2 i <;> cases rz i j <;> rfl
  | ext a b a' b' _ he ih =>
    obtain ⟨c, hc⟩ := ih
    exact ⟨c, fun j hj => ⟨((he j hj).1).symm.trans (hc j hj).1, ((he j hj).2).symm.trans (hc j hj).2⟩⟩

/-- the rows of `X` span every unit vector -/
def UnitSpan (n : Nat) (X : Adj) : Prop :=
  ∀ j, j < n → ∃ c : Nat → Bool, ∀ k, k < n → parityTo n (fun i => c i && X i k) = decide (k = j)

/-- then `X` has a two-sided inverse -/
theorem unitSpan_inverse (n : Nat) (X : Adj) (h : UnitSpan n X) :
    ∃ E : Adj, (∀ i j, i < n → j < n → matMul n E X i j = decide (i = j)) ∧
      (∀ i j, i < n → j < n → matMul n X E i j = decide (i = j)) := by
  choose c hc using h
  let E : Adj := fun j m => if hj : j < n then c j hj m else false
  have h1 : ∀ i j, i < n → j < n → matMul n E X i j = decide (i = j) := by
    intro i j hi hj
    have := hc i hi j hj
    simp only [matMul, E, dif_pos hi]
    rw [this]
    by_cases e : i = j
    · subst e; simp
    · have : ¬ (j = i) := fun h => e h.symm
      simp [e, this]
  exact ⟨E, h1, gf2_inverse_comm n E X h1⟩

/-- … its rows are linearly independent -/
theorem unitSpan_indep (n : Nat) (X : Adj) (h : UnitSpan n X) (v : Nat → Bool)
    (hv : ∀ j, j < n → parityTo n (fun i => v i && X i j) = false) : ∀ i, i < n → v i = false := by
  obtain ⟨E, _, h2⟩ := unitSpan_inverse n X h
  intro i0 hi0
  have e0 : parityTo n (fun j => parityTo n (fun i => v i && X i j) && E j i0) = false := by
    apply parityTo_zero; intro j hj; rw [hv j hj]; rfl
  rw [parityTo_congr n _ (fun j => parityTo n (fun i => (v i && X i j) && E j i0)) (fun j _ => parityTo_and n _ _),
    parityTo_comm,
    parityTo_congr n _ (fun i => v i && decide (i = i0)) (fun i hi => by
      rw [← h2 i i0 hi hi0]
      simp only [matMul]
      rw [and_parityTo]
      apply parityTo_congr; intro j _
      exact Bool.and_assoc _ _ _),
    parityTo_single' n i0 v hi0] at e0
  exact e0

/-- … and none of its rows is zero -/
theorem unitSpan_row_ne_zero (n : Nat) (X : Adj) (h : UnitSpan n X) (r : Nat) (hr : r < n)
    (hz : ∀ c, c < n → X r c = false) : False := by
  obtain ⟨E, _, h2⟩ := unitSpan_inverse n X h
  have := h2 r r hr hr
  simp only [matMul] at this
  rw [parityTo_zero n _ (fun k hk => by rw [hz k hk]; rfl)] at this
  simp at this

/-- the property only reads the X part below `n`, and is kept by passing to a matrix whose rows span the old rows -/
theorem unitSpan_of_bspan (n : Nat) (x z x' z' : Adj) (h : UnitSpan n x)
    (hb : ∀ i, i < n → BSpan n n x' z' (x i) (z i)) : UnitSpan n x' := by
  intro j hj
  obtain ⟨c, hc⟩ := h j hj
  have h1 : BSpan n n x' z' (fun k => parityTo n (fun i => c i && x i k)) (fun k => parityTo n (fun i => c i && z i k)) :=
    BSpan.mono hb (BSpan.combo n n x z c n (Nat.le_refl _))
  obtain ⟨c', hc'⟩ := bspan_coeffs h1
  exact ⟨c', fun k hk => by rw [← (hc' k hk).1]; exact hc k hk⟩

/-! ### `_position_finder` on an invertible echelon matrix -/

/-- an echelon matrix whose rows span every unit vector has its `n` pivots on the diagonal: `_position_finder` returns `[]` -/
theorem positionFinder_nil (m1 : XZ) (r : Nat) (piv : Nat → Nat) (he : Ech m1 r piv) (h : UnitSpan m1.n m1.x) :
    positionFinder m1.n m1.x = [] := by
  have hr : r = m1.n := by
    apply Classical.byContradiction; intro hne
    have hlt : r < m1.n := by have := he.r_le; omega
    exact unitSpan_row_ne_zero m1.n m1.x h r hlt (fun c hc => he.below r c (Nat.le_refl _) hlt hc)
  subst hr
  have hid := STab.mono_id piv m1.n (fun i i' h1 h2 => he.mono i i' h1 h2) he.piv_lt
  apply List.eq_nil_iff_forall_not_mem.mpr
  intro q hq
  have := (positionFinder_ech m1 m1.n piv he q).mp hq
  exact this.2 q this.1 (hid q this.1)

/-- the Hadamard positions a successful `_graph_finder` returns are those of `_position_finder` on the row-reduced X part -/
theorem graphFinderWith_hpos (inv : Nat → Adj → Option Adj) (m0 : XZ) (g : GraphFinderOut)
    (e : graphFinderWith inv m0 = .ok g) : g.hpos = positionFinder m0.n m0.norm.rowReduction.1.x := by
  unfold graphFinderWith at e
  split at e
  · cases e
  · generalize m0.norm.rowReduction = rr at e ⊢
    obtain ⟨m1, rank0⟩ := rr
    simp only at e ⊢
    split at e
    · cases e
    · exact (graphFinderTail_spec _ _ _ _ g e).1

/-- **a successful `_graph_finder` means the rows were linearly independent** (for every candidate inverse: the re-check
    `x_inv @ x.T = I` certifies that the X part after the Hadamards is invertible) -/
theorem indep_of_gfspec (m0 : XZ) (g : GraphFinderOut) (hs : GFSpec m0 g) : Indep m0 := by
  -- the X part after the Hadamards spans every unit vector
  have hus : UnitSpan m0.n (fun i k => hx g.hpos (m0.x i) (m0.z i) k) := by
    intro j hj
    obtain ⟨a, b, hab, hu⟩ := hs.full j hj
    obtain ⟨c, hc⟩ := bspan_coeffs hab
    refine ⟨c, fun k hk => ?_⟩
    rw [← hu k hk]
    simp only [hx]
    split
    · exact ((hc k hk).2).symm
    · exact ((hc k hk).1).symm
  intro v hv
  apply unitSpan_indep m0.n _ hus v
  intro k hk
  simp only [hx]
  split
  · exact (hv k hk).2
  · exact (hv k hk).1

end S2G

/-! ### any generating set of a graph state -/

/-- every element of the signed group, as a GF(2) combination of the rows' bits -/
theorem spn_bspan (t : STab) (p : PRow) (hp : t.Spn p) :
    BSpan t.n t.n (XZ.ofSTab t).x (XZ.ofSTab t).z p.x p.z := by
  unfold Spn at hp
  induction hp with
  | one => exact BSpan.zero
  | gen i hi => exact BSpan.gen (rx := (XZ.ofSTab t).x) (rz := (XZ.ofSTab t).z) i hi
  | mul a b _ _ iha ihb =>
    exact BSpan.ext _ _ _ _ (BSpan.add _ _ _ _ iha ihb) (fun j _ => ⟨(mul_x t.n a b j).symm, (mul_z t.n a b j).symm⟩)
  | eqv a b _ hab iha => exact BSpan.ext _ _ _ _ iha (fun j hj => hab.1 j hj)

/-- the group contains an element with X part `e_j` for every `j` -/
def FullX (t : STab) : Prop := ∀ j, j < t.n → ∃ p, t.Spn p ∧ ∀ k, k < t.n → p.x k = decide (k = j)

theorem fullX_of_graph (t : STab) (A : Adj) (hs : SpanEq t (graphSTab t.n A)) : FullX t :=
  fun j hj => ⟨(graphSTab t.n A).row j, hs.sup _ (spn_gen (graphSTab t.n A) j hj), fun _ _ => rfl⟩

theorem unitSpan_of_fullX (t : STab) (h : FullX t) : UnitSpan t.n (XZ.ofSTab t).x := by
  intro j hj
  obtain ⟨p, hp, hpx⟩ := h j hj
  obtain ⟨c, hc⟩ := bspan_coeffs (spn_bspan t p hp)
  exact ⟨c, fun k hk => by rw [← (hc k hk).1]; exact hpx k hk⟩

/-- generators of a group with full X part are linearly independent (already their X parts are) -/
theorem indep_of_fullX (t : STab) (h : FullX t) : Indep (XZ.ofSTab t) :=
  fun c hc => unitSpan_indep t.n (XZ.ofSTab t).x (unitSpan_of_fullX t h) c (fun j hj => (hc j hj).1)

/-- rows that agree below `n` give equal tableaux in the sense of `StabilizerTableau.__eq__` -/
theorem beq_of_rows (a b : STab) (hn : a.n = b.n) (h : ∀ i, i < a.n → EqOn a.n (a.row i) (b.row i)) : a.beq b = true := by
  unfold STab.beq
  simp only [hn, beq_self_eq_true, Bool.true_and, List.all_eq_true, List.mem_range]
  intro i hi
  have e := h i (hn ▸ hi)
  rw [hn] at e
  unfold PRow.beqOn
  simp only [Bool.and_eq_true, List.all_eq_true, List.mem_range, beq_iff_eq]
  exact ⟨⟨fun j hj => e.1 j hj, e.2.1⟩, trivial⟩

/-- adjacency matrices that agree below `n` give the same graph state -/
theorem graphSTab_spanEq_of_agree (n : Nat) (A B : Adj) (h : ∀ i j, i < n → j < n → B i j = A i j) :
    SpanEq (graphSTab n A) (graphSTab n B) := by
  have rows : ∀ i, i < n → EqOn n ((graphSTab n B).row i) ((graphSTab n A).row i) := by
    intro i hi
    refine ⟨fun j hj => ⟨rfl, ?_⟩, rfl, rfl⟩
    show (decide (j < n) && B i j) = (decide (j < n) && A i j)
    rw [h i j hi hj]
  apply spanEq_of_gens (graphSTab n A) (graphSTab n B) rfl
  · intro i hi
    exact InSpan.eqv _ _ (spn_gen (graphSTab n A) i hi) (rows i hi).symm
  · intro i hi
    exact InSpan.eqv _ _ (spn_gen (graphSTab n B) i hi) (rows i hi)

/-- what `_graph_finder` returns on a generating set of `|A⟩`: the graph `A`, no Hadamard, no `P_dag` -/
theorem graphFinderWith_gauge (inv : Nat → Adj → Option Adj) (t : STab) (hn : 0 < t.n) (hinv : InvOK inv t.n) (hg : t.Good)
    (A : Adj) (hirr : ∀ i, i < t.n → A i i = false) (hs : SpanEq t (graphSTab t.n A)) :
    ∃ g, graphFinderWith inv (XZ.ofSTab t) = .ok g ∧ g.hpos = [] ∧ g.zdiag = [] ∧
      ∀ i j, i < t.n → j < t.n → g.adj.f i j = A i j := by
  have hfull := fullX_of_graph t A hs
  have hus := unitSpan_of_fullX t hfull
  obtain ⟨g, eg⟩ := graphFinderWith_complete inv (XZ.ofSTab t) hn hinv (comm_ofSTab t hg) (indep_of_fullX t hfull)
  have spec := graphFinderWith_spec inv _ g eg
  have hn0 : (XZ.ofSTab t).n = t.n := rfl
  -- no Hadamard
  have hpos : g.hpos = [] := by
    rw [graphFinderWith_hpos inv _ g eg]
    have hred := bequiv_rowReduction (XZ.ofSTab t).norm hn
    have hb : BEquiv (XZ.ofSTab t) (XZ.ofSTab t).norm.rowReduction.1 := (bequiv_norm _).trans hred.1
    obtain ⟨r, piv, he⟩ := rowReduction_ech (XZ.ofSTab t).norm hn
    have hn1 : (XZ.ofSTab t).norm.rowReduction.1.n = t.n := hred.2
    have hus1 : UnitSpan (XZ.ofSTab t).norm.rowReduction.1.n (XZ.ofSTab t).norm.rowReduction.1.x := by
      rw [hn1]
      exact unitSpan_of_bspan t.n (XZ.ofSTab t).x (XZ.ofSTab t).z _ (XZ.ofSTab t).norm.rowReduction.1.z hus hb.bwd
    have := positionFinder_nil _ r piv he hus1
    rw [hn1] at this
    exact this
  -- every element of the group has `z = x · (adj + D)`
  have rowsC : ∀ i, i < t.n → GraphBits t.n (fun k j => xor (g.adj.f k j) (decide (k = j) && g.zdiag.contains j)) (t.row i) := by
    intro i hi j hj
    have := spec.rows i hi j hj
    rw [hpos] at this
    exact this
  have spanC := graphBits_span t _ rowsC
  have key : ∀ j k, j < t.n → k < t.n → A j k = xor (g.adj.f j k) (decide (j = k) && g.zdiag.contains k) := by
    intro j k hj hk
    have : ((graphSTab t.n A).row j).z k =
        parityTo t.n (fun m => decide (m = j) && xor (g.adj.f m k) (decide (m = k) && g.zdiag.contains k)) :=
      spanC _ (hs.sup _ (spn_gen (graphSTab t.n A) j hj)) k hk
    rw [parityTo_single t.n j (fun m => xor (g.adj.f m k) (decide (m = k) && g.zdiag.contains k)) hj] at this
    rw [← this]
    show A j k = (decide (k < t.n) && A j k)
    simp [hk]
  have hzd : g.zdiag = [] := by
    apply List.eq_nil_iff_forall_not_mem.mpr
    intro q hq
    have hqn := spec.zdiag_lt q hq
    have := key q q hqn hqn
    rw [hirr q hqn, spec.irrefl q hqn] at this
    have hc : g.zdiag.contains q = true := List.contains_iff_mem.mpr hq
    rw [hc] at this
    simp at this
  refine ⟨g, eg, hpos, hzd, fun i j hi hj => ?_⟩
  rw [key i j hi hj, hzd]
  simp

/-- **`stabilizer_to_graph(validate=True)` recovers `G` from `|G⟩` in any generating set** -/
theorem stabilizerToGraph_gauge (t : STab) (hn : 0 < t.n) (hg : t.Good) (A : Adj)
    (hsym : ∀ i j, i < t.n → j < t.n → A i j = A j i) (hirr : ∀ i, i < t.n → A i i = false)
    (hs : SpanEq t (graphSTab t.n A)) :
    ∃ g, stabilizerToGraph t = .ok g ∧ ∀ i j, i < t.n → j < t.n → g.f i j = A i j := by
  obtain ⟨g, eg, _, _, ga⟩ := graphFinderWith_gauge gf2InvF t hn (gf2InvF_ok t.n) hg A hirr hs
  have gsym : ∀ i j, i < t.n → j < t.n → g.adj.f i j = g.adj.f j i := fun i j hi hj => by
    rw [ga i j hi hj, ga j i hj hi, hsym i j hi hj]
  have hind := indep_of_fullX t (fullX_of_graph t A hs)
  obtain ⟨ca, e1⟩ := canonicalForm_of_indep t hg hind
  obtain ⟨cb, e2, n2, r2⟩ := canonicalForm_graphSTab t.n g.adj.f gsym
  obtain ⟨s1, g1⟩ := canonicalForm_spanEq t ca hg e1
  have gG := graphSTab_good t.n g.adj.f gsym
  obtain ⟨s2, g2⟩ := canonicalForm_spanEq _ cb gG e2
  have sAA := graphSTab_spanEq_of_agree t.n A g.adj.f ga
  have sab : SpanEq ca cb := (s1.symm.trans (hs.trans sAA)).trans s2
  have hrows := canon_unique ca cb (canonicalForm_canon t ca e1) (canonicalForm_canon _ cb e2) g1 g2 sab
  refine ⟨g.adj, ?_, ga⟩
  unfold stabilizerToGraph
  have eg' : graphFinder (XZ.ofSTab t) = .ok g := eg
  rw [eg']
  simp only
  have hsame : sameStabilizerState t (graphSTab t.n g.adj.f) = .ok true := by
    unfold sameStabilizerState
    have hne : ¬ (t.n ≠ (graphSTab t.n g.adj.f).n) := fun h => h rfl
    rw [if_neg hne, e1]
    simp only
    rw [e2]
    simp only
    rw [beq_of_rows ca cb sab.n_eq hrows]
  rw [hsame]

/-- **`state_to_graph` on any generating set of `|G⟩`** returns `G` and an empty gate list -/
theorem stateToGraph_gauge (t : STab) (hn : 0 < t.n) (hg : t.Good) (A : Adj)
    (hsym : ∀ i j, i < t.n → j < t.n → A i j = A j i) (hirr : ∀ i, i < t.n → A i i = false)
    (hs : SpanEq t (graphSTab t.n A)) :
    ∃ g, stateToGraph t = .ok (g, []) ∧ ∀ i j, i < t.n → j < t.n → g.f i j = A i j := by
  obtain ⟨g, eg, hpos, hzd, ga⟩ := graphFinderWith_gauge gf2InvF t hn (gf2InvF_ok t.n) hg A hirr hs
  obtain ⟨adj, gates, e⟩ := stateToGraph_complete t hn hg (indep_of_fullX t (fullX_of_graph t A hs))
  -- unfold the result: the graph is `g.adj`, the gate list is the list of `Z` corrections
  have e' := e
  unfold stateToGraph stateToGraphWith at e'
  rw [eg] at e'
  simp only [hpos, hzd] at e'
  split at e'
  · cases e'
  · next zs hz =>
    have hl : lcGates [] [] = [] := rfl
    rw [hl] at hz e'
    injection e' with e'
    injection e' with ea eb
    simp only [List.nil_append] at eb
    subst ea eb
    refine ⟨g.adj, ?_, ga⟩
    -- the `Z` corrections are empty: the signs already agree
    obtain ⟨tab1, tab2, newTab, xinv, c1, c2, c3, _, ezs⟩ := phaseCorrection_unfold _ _ _ _ hz
    have gsym : ∀ i j, i < t.n → j < t.n → g.adj.f i j = g.adj.f j i := fun i j hi hj => by
      rw [ga i j hi hj, ga j i hj hi, hsym i j hi hj]
    have gG := graphSTab_good t.n g.adj.f gsym
    obtain ⟨s1, g1⟩ := canonicalForm_spanEq t tab1 hg c1
    obtain ⟨s2, g2⟩ := canonicalForm_spanEq _ tab2 gG c2
    have c3' : tab1.canonicalForm = .ok newTab := c3
    obtain ⟨s3, g3⟩ := canonicalForm_spanEq tab1 newTab g1 c3'
    have sab : SpanEq newTab tab2 := (s3.symm.trans (s1.symm.trans (hs.trans (graphSTab_spanEq_of_agree t.n A g.adj.f ga)))).trans s2
    have hrows := canon_unique newTab tab2 (canonicalForm_canon _ _ c3') (canonicalForm_canon _ _ c2) g3 g2 sab
    have : zs = [] := by
      rw [ezs]
      simp only [List.map_eq_nil_iff, List.filter_eq_nil_iff, List.mem_range]
      intro i _
      have : parityTo newTab.n (fun k => xinv.f i k && xor (tab2.row k).r (newTab.row k).r) = false := by
        apply parityTo_zero
        intro k hk
        rw [(hrows k hk).2.1]
        simp
      rw [this]; simp
    rw [this] at e
    exact e

end Graphiq
