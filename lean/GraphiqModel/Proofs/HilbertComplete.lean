/-
  Proofs/HilbertComplete.lean — completeness of the deterministic measurement rule of `z_measurement_gate`:
  for a valid Clifford tableau in which no stabilizer row has an X on qubit `q`, the scratch row accumulated over the
  destabilizers with an X on `q` has exactly the Pauli bits of `Z_q` (so it is `±Z_q`, and its sign is the outcome).

  The argument: the 2n rows of a valid tableau form a symplectic basis of F₂^{2n}.  Written as a 2n×2n matrix `M`
  over `ZMod 2`, validity says `M Ω Mᵀ = Ω`; for square matrices a right inverse is a left inverse
  (`mul_eq_one_comm`), so a bit vector that is symplectically orthogonal to every row vanishes
  (`valid_nondegenerate`).  `Z_q · scratch` commutes with every row, hence has no Pauli bits.
-/
import GraphiqModel.Proofs.Tableau
import Mathlib.LinearAlgebra.Matrix.NonsingularInverse
import Mathlib.Data.ZMod.Basic
import Mathlib.Algebra.BigOperators.Fin
namespace Graphiq
namespace Hilbert
open PRow Matrix

/-! ### bits as elements of `ZMod 2` -/

def b2z (b : Bool) : ZMod 2 := if b then 1 else 0

theorem b2z_xor (a b : Bool) : b2z (xor a b) = b2z a + b2z b := by cases a <;> cases b <;> decide
theorem b2z_and (a b : Bool) : b2z (a && b) = b2z a * b2z b := by cases a <;> cases b <;> decide
theorem b2z_eq_zero (b : Bool) : b2z b = 0 ↔ b = false := by cases b <;> decide

theorem b2z_parityTo (n : Nat) (f : Nat → Bool) : b2z (parityTo n f) = ∑ j : Fin n, b2z (f j) := by
  induction n with
  | zero => simp [parityTo, b2z]
  | succ k ih =>
    rw [Fin.sum_univ_castSucc]
    simp only [parityTo, b2z_xor, ih, Fin.val_castSucc, Fin.val_last]

/-! ### rows as vectors, the symplectic form as a dot product -/

abbrev Idx (n : Nat) := Fin n ⊕ Fin n

/-- the bits of a row: x part on the left, z part on the right -/
def vecOf (n : Nat) (p : PRow) : Idx n → ZMod 2 := Sum.elim (fun j => b2z (p.x j)) (fun j => b2z (p.z j))
/-- the same with the two halves exchanged (`Ω · vecOf`) -/
def vecSw (n : Nat) (p : PRow) : Idx n → ZMod 2 := Sum.elim (fun j => b2z (p.z j)) (fun j => b2z (p.x j))

theorem dot_sp (n : Nat) (a b : PRow) : vecOf n a ⬝ᵥ vecSw n b = b2z (sp n a b) := by
  unfold dotProduct sp
  rw [Fintype.sum_sum_type, b2z_parityTo, ← Finset.sum_add_distrib]
  apply Finset.sum_congr rfl
  intro j _
  simp only [vecOf, vecSw, Sum.elim_inl, Sum.elim_inr, b2z_xor, b2z_and]

/-- position of the row with index `a` in the tableau: destabilizers on the left, stabilizers on the right -/
def rowIdx {n : Nat} : Idx n → Nat := Sum.elim (fun i => i.val) (fun i => i.val + n)

theorem rowIdx_lt {n : Nat} (a : Idx n) : rowIdx a < 2 * n := by
  cases a with
  | inl i => show i.val < 2 * n; omega
  | inr i => show i.val + n < 2 * n; omega

def tabMat (t : Tab) : Matrix (Idx t.n) (Idx t.n) (ZMod 2) := Matrix.of fun a => vecOf t.n (t.row (rowIdx a))
def tabMatSw (t : Tab) : Matrix (Idx t.n) (Idx t.n) (ZMod 2) := Matrix.of fun a => vecSw t.n (t.row (rowIdx a))
def omegaMat (n : Nat) : Matrix (Idx n) (Idx n) (ZMod 2) := Matrix.of fun a b => if a = Sum.swap b then 1 else 0

theorem omega_sq (n : Nat) : omegaMat n * omegaMat n = 1 := by
  ext a c
  rw [Matrix.mul_apply, Finset.sum_eq_single (Sum.swap a)]
  · simp only [omegaMat, Matrix.of_apply, Sum.swap_swap, if_true, one_mul, Matrix.one_apply]
    by_cases h : a = c
    · subst h; simp
    · rw [if_neg h, if_neg (fun h2 => h (by rw [← Sum.swap_swap a, h2, Sum.swap_swap]))]
  · intro b _ hb
    have : ¬ a = Sum.swap b := fun h => hb (by rw [h, Sum.swap_swap])
    simp [omegaMat, this]
  · intro h; exact absurd (Finset.mem_univ _) h

theorem pair_iff_swap {n : Nat} (a b : Idx n) :
    (rowIdx a + n = rowIdx b ∨ rowIdx b + n = rowIdx a) ↔ a = Sum.swap b := by
  cases a with
  | inl i =>
    cases b with
    | inl k =>
      show (i.val + n = k.val ∨ k.val + n = i.val) ↔ Sum.inl i = Sum.inr k
      constructor
      · intro h; exfalso; have := i.2; have := k.2; omega
      · intro h; cases h
    | inr k =>
      show (i.val + n = k.val + n ∨ k.val + n + n = i.val) ↔ Sum.inl i = Sum.inl k
      constructor
      · intro h; congr 1; apply Fin.ext; have := i.2; omega
      · intro h; injection h with h; left; rw [h]
  | inr i =>
    cases b with
    | inl k =>
      show (i.val + n + n = k.val ∨ k.val + n = i.val + n) ↔ Sum.inr i = Sum.inr k
      constructor
      · intro h; congr 1; apply Fin.ext; have := k.2; omega
      · intro h; injection h with h; right; rw [h]
    | inr k =>
      show (i.val + n + n = k.val + n ∨ k.val + n + n = i.val + n) ↔ Sum.inr i = Sum.inl k
      constructor
      · intro h; exfalso; have := i.2; have := k.2; omega
      · intro h; cases h

/-- validity of the tableau, as a matrix identity: `M (MΩ)ᵀ = Ω` -/
theorem tabMat_symplectic (t : Tab) (hv : t.Valid) : tabMat t * (tabMatSw t)ᵀ = omegaMat t.n := by
  ext a b
  rw [Matrix.mul_apply]
  have e : ∑ c, tabMat t a c * (tabMatSw t)ᵀ c b = vecOf t.n (t.row (rowIdx a)) ⬝ᵥ vecSw t.n (t.row (rowIdx b)) := rfl
  have e2 : decide (rowIdx a + t.n = rowIdx b ∨ rowIdx b + t.n = rowIdx a) = decide (a = Sum.swap b) :=
    decide_eq_decide.mpr (pair_iff_swap a b)
  rw [e, dot_sp, hv _ _ (rowIdx_lt a) (rowIdx_lt b), e2]
  simp only [omegaMat, Matrix.of_apply, b2z, decide_eq_true_eq]

/-- **Non-degeneracy.**  A Pauli that commutes with all 2n rows of a valid tableau has no Pauli bits on the n sites
    (the rows are a symplectic basis). -/
theorem valid_nondegenerate (t : Tab) (hv : t.Valid) (m : PRow)
    (h : ∀ i, i < 2 * t.n → sp t.n (t.row i) m = false) : ∀ j, j < t.n → m.x j = false ∧ m.z j = false := by
  have h1 : tabMat t * ((tabMatSw t)ᵀ * omegaMat t.n) = 1 := by
    rw [← Matrix.mul_assoc, tabMat_symplectic t hv, omega_sq]
  have h2 : ((tabMatSw t)ᵀ * omegaMat t.n) * tabMat t = 1 := mul_eq_one_comm.mp h1
  have h3 : tabMat t *ᵥ vecSw t.n m = 0 := by
    funext a
    show vecOf t.n (t.row (rowIdx a)) ⬝ᵥ vecSw t.n m = 0
    rw [dot_sp, h _ (rowIdx_lt a)]; rfl
  have h4 : vecSw t.n m = 0 := by
    have := congrArg (fun A => A *ᵥ vecSw t.n m) h2
    simp only [Matrix.one_mulVec] at this
    rw [← this, ← Matrix.mulVec_mulVec, h3, Matrix.mulVec_zero]
  intro j hj
  have hz := congrFun h4 (Sum.inl ⟨j, hj⟩)
  have hx := congrFun h4 (Sum.inr ⟨j, hj⟩)
  simp only [vecSw, Sum.elim_inl, Sum.elim_inr, Pi.zero_apply] at hz hx
  exact ⟨(b2z_eq_zero _).mp hx, (b2z_eq_zero _).mp hz⟩

/-! ### the scratch row of the deterministic branch -/

theorem sp_one_left (n : Nat) (a : PRow) : sp n PRow.one a = false := by
  unfold sp
  apply parityTo_zero
  intro j _; simp [PRow.one]

/-- commutation of the accumulated product with row `i`: one bit per factor -/
theorem scratch_sp (t : Tab) (hv : t.Valid) (L : List Nat) (hL : ∀ d ∈ L, d < t.n) (hnd : L.Nodup)
    (acc : PRow) (i : Nat) (hi : i < 2 * t.n) :
    sp t.n (L.foldl (fun acc d => PRow.mul t.n (t.row (d + t.n)) acc) acc) (t.row i)
      = xor (sp t.n acc (t.row i)) (decide (i ∈ L)) := by
  induction L generalizing acc with
  | nil => simp
  | cons d L ih =>
    have hd : d < t.n := hL d List.mem_cons_self
    have hnd' := List.nodup_cons.mp hnd
    rw [List.foldl_cons, ih (fun e he => hL e (List.mem_cons_of_mem _ he)) hnd'.2, sp_mul_left,
      hv (d + t.n) i (by omega) hi]
    have e1 : decide (d + t.n + t.n = i ∨ i + t.n = d + t.n) = decide (i = d) := by
      apply decide_eq_decide.mpr; omega
    rw [e1]
    by_cases hid : i = d
    · subst hid
      have : decide (i ∈ L) = false := decide_eq_false hnd'.1
      rw [this]; simp
    · have e2 : decide (i ∈ d :: L) = decide (i ∈ L) := by
        apply decide_eq_decide.mpr; simp [hid]
      rw [e2]; simp [hid]

theorem pivot_none_spec (t : Tab) (q : Nat) (hp : t.pivot q = none) (i : Nat) (h1 : t.n ≤ i) (h2 : i < 2 * t.n) :
    (t.row i).x q = false := by
  cases hx : (t.row i).x q
  · rfl
  · exfalso
    unfold Tab.pivot findFrom at hp
    have : i ∈ (List.range (2 * t.n)).filter (fun i => decide (t.n ≤ i) && (t.row i).x q) := by
      simp only [List.mem_filter, List.mem_range, Bool.and_eq_true, decide_eq_true_eq]
      exact ⟨h2, h1, hx⟩
    cases hl : (List.range (2 * t.n)).filter (fun i => decide (t.n ≤ i) && (t.row i).x q) with
    | nil => rw [hl] at this; cases this
    | cons a l => rw [hl] at hp; simp at hp

/-- **Completeness of the deterministic rule.**  Valid tableau, no stabilizer row has an X on `q`: the scratch row of
    `z_measurement_gate` has exactly the Pauli bits of `Z_q`. -/
theorem measScratch_bits (t : Tab) (hv : t.Valid) (q : Nat) (hq : q < t.n) (hp : t.pivot q = none) :
    SameBits t.n (t.measScratch q) (Zq q) := by
  let L := filterTo t.n fun d => (t.row d).x q
  have hL : ∀ d ∈ L, d < t.n := by
    intro d hd
    simp only [L, filterTo, List.mem_filter, List.mem_range] at hd
    exact hd.1
  have hnd : L.Nodup := List.Nodup.filter _ List.nodup_range
  have hmem : ∀ i, i ∈ L ↔ i < t.n ∧ (t.row i).x q = true := by
    intro i; simp only [L, filterTo, List.mem_filter, List.mem_range]
  have hcomm : ∀ i, i < 2 * t.n → sp t.n (t.row i) (PRow.mul t.n (Zq q) (t.measScratch q)) = false := by
    intro i hi
    rw [sp_mul_right, sp_Zq _ _ _ _ hq, sp_comm t.n (t.row i) (t.measScratch q)]
    show xor ((t.row i).x q) (sp t.n (L.foldl _ PRow.one) (t.row i)) = false
    rw [scratch_sp t hv L hL hnd PRow.one i hi, sp_one_left]
    by_cases hin : i < t.n
    · cases hx : (t.row i).x q
      · have : decide (i ∈ L) = false := decide_eq_false (fun h => by rw [((hmem i).mp h).2] at hx; cases hx)
        rw [this]; rfl
      · have : decide (i ∈ L) = true := decide_eq_true ((hmem i).mpr ⟨hin, hx⟩)
        rw [this]; rfl
    · have hx := pivot_none_spec t q hp i (by omega) hi
      have : decide (i ∈ L) = false := decide_eq_false (fun h => hin ((hmem i).mp h).1)
      rw [hx, this]; rfl
  have hnd0 := valid_nondegenerate t hv _ hcomm
  intro j hj
  obtain ⟨h1, h2⟩ := hnd0 j hj
  simp only [mul_x, mul_z] at h1 h2
  constructor
  · revert h1; cases (Zq q).x j <;> cases (t.measScratch q).x j <;> simp
  · revert h2; cases (Zq q).z j <;> cases (t.measScratch q).z j <;> simp

end Hilbert
end Graphiq
