/-
  Proofs/LCTableaux.lean — `lc_check` on stabilizer states (tableau inputs): the total gate list
  `gates1 + gate_list + inversed_gates2` maps the first state exactly onto the second.

  `gates1`, `gates2` come from `state_to_graph` (property C08: they map each state onto its graph state), `gate_list` from
  `converter_gate_list` on the two graphs (Proofs/LCGates2.lean: it maps the first graph state onto the second), and
  `inversed_gates2` is `gates2` reversed with `P ↔ P_dag` (`revCirc`).  The three facts are composed as images of signed groups
  under gate lists (`CircImage`, Proofs/InnerProductCirc.lean).
-/
import GraphiqModel.Proofs.LCGates2
import GraphiqModel.Proofs.StateToGraph
import GraphiqModel.Proofs.InnerProductCirc
import GraphiqModel.Proofs.LCTotalR
namespace Graphiq.LC
open Graphiq PRow Tab Graphiq.TabSpec

/-! ### string-named gates as `Gate`s -/

theorem toGate_act (g : String × Nat) : (toGate g).act = gateRow g.1 g.2 := by
  obtain ⟨nm, q⟩ := g
  show (toGate (nm, q)).act = gateRow nm q
  unfold toGate gateRow
  simp only []
  split <;> (try rename_i h) <;> first
    | (subst h; rfl)
    | (split <;> first | rfl | (rename_i h'; exact absurd h' (by assumption)) | (simp_all))

theorem toGate_wf (n : Nat) (g : String × Nat) (hq : g.2 < n) : (toGate g).WF n := by
  unfold toGate
  split <;> first | exact hq | trivial

/-- a gate list that `runGates` accepts consists of supported names on qubits of the tableau -/
theorem runGates_ok_good (t t' : Tab) (L : List (String × Nat)) (e : runGates t L = .ok t') :
    ∀ g ∈ L, GoodName g.1 ∧ g.2 < t.n := by
  induction L generalizing t with
  | nil => intro g hg; cases hg
  | cons g rest ih =>
    simp only [runGates] at e
    split at e
    · cases e
    · rename_i t1 e1
      have hn1 : t1.n = t.n := by
        unfold LC.applyGate at e1
        split at e1
        · split at e1 <;> (try cases e1) <;> rfl
        · cases e1
      have hg : GoodName g.1 ∧ g.2 < t.n := by
        unfold LC.applyGate at e1
        split at e1
        · rename_i hq
          refine ⟨?_, hq⟩
          unfold GoodName
          split at e1 <;> simp_all
        · cases e1
      intro g' hg'
      rcases List.mem_cons.mp hg' with rfl | h
      · exact hg
      · have := ih t1.norm e g' h
        rw [tab_norm_n, hn1] at this
        exact this

/-- on such a list `runGates` is `run_circuit` of the Clifford-tableau model -/
theorem runGates_eq_runCircuit (t : Tab) (L : List (String × Nat)) (hL : ∀ g ∈ L, GoodName g.1 ∧ g.2 < t.n) :
    runGates t L = .ok (t.runCircuit (L.map toGate)) := by
  induction L generalizing t with
  | nil => rfl
  | cons g rest ih =>
    obtain ⟨hgn, hgq⟩ := hL g List.mem_cons_self
    obtain ⟨t1, e1, n1, r1⟩ := applyGate_rows t g.1 g.2 hgq hgn
    have ht1 : t1 = t.map (toGate g).act := by
      have hrow : t1.row = (t.map (toGate g).act).row := by
        funext r
        rw [r1 r, toGate_act]; rfl
      cases t1; cases t
      simp only [Tab.map] at hrow n1 ⊢
      subst n1; subst hrow; rfl
    simp only [runGates, e1]
    rw [ih t1.norm (fun g' hg' => by
      have := hL g' (List.mem_cons_of_mem _ hg')
      exact ⟨this.1, by rw [tab_norm_n, n1]; exact this.2⟩), ht1]
    simp [Tab.runCircuit]

/-! ### groups of tableaux and of their stabilizer halves -/

theorem inSpan_congr_gens (n m : Nat) (gens gens' : Nat → PRow) (h : ∀ i, i < m → EqOn n (gens i) (gens' i))
    (a : PRow) (ha : InSpan n m gens a) : InSpan n m gens' a := by
  induction ha with
  | one => exact InSpan.one
  | gen i hi => exact InSpan.eqv _ _ (InSpan.gen i hi) (h i hi).symm
  | mul a b _ _ iha ihb => exact InSpan.mul a b iha ihb
  | eqv a b _ hab iha => exact InSpan.eqv a b iha hab

theorem spanEq_of_rows (T U : STab) (hn : T.n = U.n) (h : ∀ i, i < T.n → EqOn T.n (T.row i) (U.row i)) :
    STab.SpanEq T U := by
  refine ⟨hn, fun a ha => ?_, fun a ha => ?_⟩
  · unfold STab.Spn at ha ⊢
    rw [← hn]
    exact inSpan_congr_gens T.n T.n T.row U.row h a ha
  · unfold STab.Spn at ha ⊢
    rw [← hn] at ha
    exact inSpan_congr_gens T.n T.n U.row T.row (fun i hi => (h i hi).symm) a ha

/-- the stabilizer half (`to_stabilizer()`) of a tableau with Hermitian stabilizers generates its stabilizer group -/
theorem spn_ofTab_iff_grp (X : Tab) (hr : X.StabReal) (a : PRow) : (STab.ofTab X).Spn a ↔ Grp X a := by
  have h : ∀ i, i < X.n → EqOn X.n ((STab.ofTab X).row i) (X.stab i) := by
    intro i hi
    refine ⟨fun _ _ => ⟨rfl, rfl⟩, rfl, ?_⟩
    show false = (X.row (i + X.n)).ip
    rw [hr (i + X.n) (by omega) (by omega)]
  constructor
  · exact inSpan_congr_gens X.n X.n _ _ h a
  · exact inSpan_congr_gens X.n X.n _ _ (fun i hi => (h i hi).symm) a

/-- two valid tableaux with Hermitian stabilizers on the same qubits have the same stabilizer group as soon as the generators
    of one lie in the group of the other (both groups are maximal) -/
theorem grp_eq_of_gens_in (T U : Tab) (hvT : T.Valid) (hrT : T.StabReal) (hvU : U.Valid) (hrU : U.StabReal)
    (hn : T.n = U.n) (h : ∀ k, k < U.n → Grp T (U.stab k)) : ∀ P, Grp T P ↔ Grp U P := by
  have hUT : ∀ P, Grp U P → Grp T P := grp_mono_gens U T hn.symm h
  have hgT := grp_isStabGrp T hvT hrT
  intro P
  refine ⟨grp_mono_gens T U hn (fun i hi => ?_) P, hUT P⟩
  have hiT : Grp T (T.stab i) := grp_gen T i hi
  have hip : (T.stab i).ip = false := hrT (i + T.n) (by omega) (by omega)
  rcases grp_maximal U hvU hrU (T.stab i) hip (fun k hk => by
    rw [← hn]
    exact hgT.comm _ _ hiT (h k hk)) with h1 | h1
  · exact h1
  · exact absurd (hUT _ h1) (hgT.cons _ hiT)

/-! ### images of signed groups: composition and uniqueness -/

theorem actCirc_app (c d : List Gate) (a : PRow) : actCirc (c ++ d) a = actCirc d (actCirc c a) := by
  simp [actCirc, List.foldl_append]

theorem circImage_comp {n : Nat} {c d : List Gate} {T T' T'' : STab} (h1 : CircImage n c T T') (h2 : CircImage n d T' T'') :
    CircImage n (c ++ d) T T'' := by
  refine ⟨h1.nT, h2.nT', fun g hg => ?_, fun a ha => ?_, fun b hb => ?_⟩
  · rcases List.mem_append.mp hg with h | h
    · exact h1.wf g h
    · exact h2.wf g h
  · rw [actCirc_app]; exact h2.fwd _ (h1.fwd a ha)
  · obtain ⟨a', ha', e'⟩ := h2.bwd b hb
    obtain ⟨a, ha, e⟩ := h1.bwd a' ha'
    refine ⟨a, ha, ?_⟩
    rw [actCirc_app]
    exact (actCirc_congr n d h2.wf _ _ e).trans e'

theorem circImage_unique {n : Nat} {c : List Gate} {T T' T'' : STab} (h1 : CircImage n c T T') (h2 : CircImage n c T T'') :
    STab.SpanEq T' T'' := by
  refine ⟨h1.nT'.trans h2.nT'.symm, fun b hb => ?_, fun b hb => ?_⟩
  · obtain ⟨a, ha, e⟩ := h1.bwd b hb
    have := h2.fwd a ha
    unfold STab.Spn at this ⊢
    rw [h2.nT'] at this ⊢
    exact InSpan.eqv _ _ this e
  · obtain ⟨a, ha, e⟩ := h2.bwd b hb
    have := h1.fwd a ha
    unfold STab.Spn at this ⊢
    rw [h1.nT'] at this ⊢
    exact InSpan.eqv _ _ this e

theorem circImage_runCircuit (T : STab) (c : List Gate) (hc : ∀ g, g ∈ c → g.WF T.n) :
    CircImage T.n c T (T.runCircuit c) :=
  circImage_of_rows T.n c hc T (T.runCircuit c) rfl (runCircuit_n T c) (fun i hi => runCircuit_row T c hc i hi)

/-! ### `state_to_graph` returns a graph on the qubits of the state -/

theorem stateToGraphWith_r (inv : Nat → Adj → Option Adj) (t : STab) (g : BMat) (G : List Gate)
    (e : S2G.stateToGraphWith inv t = .ok (g, G)) : g.r = t.n := by
  unfold S2G.stateToGraphWith at e
  split at e
  · cases e
  · rename_i out hout
    simp only [] at e
    split at e
    · cases e
    · have hg : out.adj = g := by
        have := Except.ok.inj e
        exact (Prod.mk.inj this).1
      rw [← hg]
      unfold S2G.graphFinderWith at hout
      split at hout
      · cases hout
      · rename_i hn0
        simp only [] at hout
        split at hout
        · cases hout
        · rename_i xinv _
          unfold S2G.graphFinderTail at hout
          simp only [] at hout
          split at hout
          · cases hout
          · split at hout
            · cases hout
            · have := Except.ok.inj hout
              rw [← this]
              have h1 := (S2G.bequiv_rowReduction (S2G.XZ.ofSTab t).norm (Nat.pos_of_ne_zero hn0)).2
              have key : ∀ hp, ((S2G.XZ.ofSTab t).norm.rowReduction.1.hadamardTransform hp).norm.n = t.n := by
                intro hp
                show (S2G.XZ.ofSTab t).norm.rowReduction.1.n = t.n
                rw [h1]; rfl
              exact key (S2G.positionFinder (S2G.XZ.ofSTab t).n (S2G.XZ.ofSTab t).norm.rowReduction.1.x)

/-! ### the three pieces -/

theorem ofTab_graphTab_spanEq (n : Nat) (A : Adj) : STab.SpanEq (STab.ofTab (graphTab n A)) (graphSTab n A) := by
  refine spanEq_of_rows (STab.ofTab (graphTab n A)) (graphSTab n A) rfl ?_
  intro i hi
  have hi' : i < n := hi
  show EqOn n { (graphTab n A).row (i + n) with ip := false } ((graphSTab n A).row i)
  rw [graphTab_stab]
  refine ⟨fun j hj => ⟨rfl, ?_⟩, rfl, rfl⟩
  show A i j = (decide (j < n) && A i j)
  simp [hj]

/-- **the gate list of `lc_check` on two graphs, as an image of signed groups**: whenever `lc_check(g1, g2)` (repaired
    function) returns `(True, L)`, the signed group of `|g2⟩` is the image of that of `|g1⟩` under `L` -/
theorem lc_gates_image (g1 g2 : BMat) (hr : g1.r = g2.r) (hs1 : Simple g1.r g1.f) (hs2 : Simple g2.r g2.f)
    (validate : Bool) (L : List (String × Nat)) (hL : lcCheckR g1 g2 validate = .ok (true, L)) :
    CircImage g1.r (L.map toGate) (graphSTab g1.r g1.f) (graphSTab g1.r g2.f) := by
  -- the answer does not depend on `validate`
  have hLt : lcCheckR g1 g2 true = .ok (true, L) := by
    obtain ⟨out, e⟩ := isLcEquivalentR_total g1 g2 .det [] hr hs1 (by decide)
    cases hq : out.sol with
    | none =>
      rw [lcCheckR_of_no g1 g2 out e hq validate] at hL
      cases hL
    | some s =>
      obtain ⟨zs, _, hc⟩ := lcCheckR_of_yes g1 g2 out s hr hs1 hs2 e hq
      rw [hc validate] at hL
      rw [hc true, ← hL]
  obtain ⟨t, et, hn, hv, hin⟩ := lcCheckR_sound g1 g2 L hs1 hLt
  have hgood := runGates_ok_good _ t L et
  have et' := runGates_eq_runCircuit (graphTab g1.r g1.f) L hgood
  rw [et] at et'
  have ht : t = (graphTab g1.r g1.f).runCircuit (L.map toGate) := Except.ok.inj et'
  have hwf : ∀ g, g ∈ L.map toGate → g.WF g1.r := by
    intro g hg
    obtain ⟨g0, hg0, e⟩ := List.mem_map.mp hg
    rw [← e]; exact toGate_wf g1.r g0 (hgood g0 hg0).2
  -- Hermitian stabilizers after the gates
  have hreal : t.StabReal := by
    obtain ⟨t', e', _, hrows⟩ := runGates_rows (graphTab g1.r g1.f) L hgood
    rw [et] at e'
    have : t = t' := Except.ok.inj e'
    subst this
    intro i h1 h2
    rw [hn] at h1 h2
    rw [(hrows i h2).2]
    show (if i < g1.r then PRow.Zq i else graphGen g1.f (i - g1.r)).ip = false
    split <;> rfl
  -- the target tableau
  have hs2' : Simple g1.r g2.f := by rw [hr]; exact hs2
  have hvB := graphTab_valid g1.r g2.f hs2'
  have hrB : (graphTab g1.r g2.f).StabReal := by
    intro i h1 h2
    show (if i < g1.r then PRow.Zq i else graphGen g2.f (i - g1.r)).ip = false
    split <;> rfl
  have hgrp := grp_eq_of_gens_in t (graphTab g1.r g2.f) hv hreal hvB hrB hn (fun k hk => by
    have : (graphTab g1.r g2.f).stab k = graphGen g2.f k := graphTab_stab g1.r g2.f k
    rw [this]
    have := hin k hk
    exact this)
  have s2 : STab.SpanEq (STab.ofTab t) (graphSTab g1.r g2.f) := by
    have hn' : (STab.ofTab t).n = (STab.ofTab (graphTab g1.r g2.f)).n := hn
    refine STab.SpanEq.trans ⟨hn', fun a ha => ?_, fun a ha => ?_⟩ (ofTab_graphTab_spanEq g1.r g2.f)
    · exact (spn_ofTab_iff_grp _ hrB a).mpr ((hgrp a).mp ((spn_ofTab_iff_grp t hreal a).mp ha))
    · exact (spn_ofTab_iff_grp t hreal a).mpr ((hgrp a).mpr ((spn_ofTab_iff_grp _ hrB a).mp ha))
  have img : CircImage g1.r (L.map toGate) (STab.ofTab (graphTab g1.r g1.f)) (STab.ofTab t) := by
    apply circImage_of_rows g1.r _ hwf _ _ rfl hn
    intro i hi
    rw [ht]
    exact ofTab_runCircuit_row g1.r _ hwf (graphTab g1.r g1.f) rfl i hi
  exact img.congr (ofTab_graphTab_spanEq g1.r g1.f) s2

/-- **`lc_check` on two stabilizer states**: with `(g1, G1) = state_to_graph(state1)`, `(g2, G2) = state_to_graph(state2)` and
    `(True, L) = lc_check(g1, g2)`, the total gate list `G1 + L + reversed(G2 with P ↔ P_dag)` maps `state1` exactly onto
    `state2` (same signed stabilizer group) -/
theorem lc_check_tableaux (t1 t2 : STab) (hreal1 : ∀ i, i < t1.n → (t1.row i).ip = false)
    (hreal2 : ∀ i, i < t2.n → (t2.row i).ip = false) (hn : t1.n = t2.n) (g1 g2 : BMat) (G1 G2 : List Gate)
    (e1 : S2G.stateToGraph t1 = .ok (g1, G1)) (e2 : S2G.stateToGraph t2 = .ok (g2, G2))
    (validate : Bool) (L : List (String × Nat)) (hL : lcCheckR g1 g2 validate = .ok (true, L)) :
    STab.SpanEq (t1.runCircuit (G1 ++ L.map toGate ++ revCirc G2)) t2 := by
  have hr1 := stateToGraphWith_r _ t1 g1 G1 e1
  have hr2 := stateToGraphWith_r _ t2 g2 G2 e2
  obtain ⟨wf1, s1, sym1, irr1⟩ := stateToGraphWith_sound S2G.gf2InvF t1 hreal1 g1 G1 e1
  obtain ⟨wf2, s2, sym2, irr2⟩ := stateToGraphWith_sound S2G.gf2InvF t2 hreal2 g2 G2 e2
  have i1 : CircImage t1.n G1 t1 (graphSTab t1.n g1.f) :=
    (circImage_runCircuit t1 G1 wf1).congr (STab.SpanEq.refl t1) s1
  have i2 : CircImage t1.n (L.map toGate) (graphSTab t1.n g1.f) (graphSTab t1.n g2.f) := by
    have := lc_gates_image g1 g2 (by rw [hr1, hr2, hn]) (by rw [hr1]; exact ⟨sym1, irr1⟩)
      (by rw [hr2]; exact ⟨sym2, irr2⟩) validate L hL
    rw [hr1] at this
    exact this
  have i3 : CircImage t1.n (revCirc G2) (graphSTab t1.n g2.f) t2 := by
    have := ((circImage_runCircuit t2 G2 wf2).congr (STab.SpanEq.refl t2) s2).rev
    rw [← hn] at this
    exact this
  have itot := circImage_comp (circImage_comp i1 i2) i3
  exact circImage_unique (circImage_runCircuit t1 _ itot.wf) itot

/-- **the model of `lc_check` on two stabilizer tableaux is sound**: whenever it returns `(True, total)` — with or without its
    own validation — running `total` on the first state gives exactly the second state -/
theorem lcCheckStates_sound (t1 t2 : STab) (hreal1 : ∀ i, i < t1.n → (t1.row i).ip = false)
    (hreal2 : ∀ i, i < t2.n → (t2.row i).ip = false) (hn : t1.n = t2.n) (validate : Bool) (total : List Gate)
    (h : lcCheckStates t1 t2 validate = .ok (true, total)) : STab.SpanEq (t1.runCircuit total) t2 := by
  unfold lcCheckStates at h
  split at h
  · cases h
  · rename_i g1 G1 e1
    split at h
    · cases h
    · rename_i g2 G2 e2
      split at h
      · cases h
      · rename_i L flag ec
        have hL : lcCheckR g1 g2 false = .ok (true, L) := by
          unfold lcCheckR
          rw [ec]
          rfl
        have key := lc_check_tableaux t1 t2 hreal1 hreal2 hn g1 g2 G1 G2 e1 e2 false L hL
        simp only [] at h
        have htot : total = G1 ++ L.map toGate ++ revCirc G2 := by
          split at h
          · split at h
            · cases h
            · have := Except.ok.inj h
              exact ((Prod.mk.inj this).2).symm
            · cases h
          · have := Except.ok.inj h
            exact ((Prod.mk.inj this).2).symm
        rw [htot]
        exact key

end Graphiq.LC
