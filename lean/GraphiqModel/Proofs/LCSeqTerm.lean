/-
  Proofs/LCSeqTerm.lean — termination of `lc_graph_operations` on a valid solution.

  * first `while` (`_singles`): `Proofs/LCSeqLoop.lean`, `singlesLoop_terminates` (measure: number of blocks with `c = 1`);
  * second `while` (`_doubles`): once `_condition` is false (`NoSingles`: every row with a 1 on the diagonal is a unit row),
    one pass of `_doubles` never hits the `IndexError` (`R` is invertible), turns the rows `j`, `k` of every pair it
    records into unit rows, keeps unit rows, keeps `NoSingles`, and so ends with `R = I`: the loop body runs at most once.
-/
import GraphiqModel.Proofs.LCSeqLoop
namespace Graphiq.LC
open Graphiq

/-- `_condition(R)` is false: every row with a 1 on the diagonal is the unit row -/
def NoSingles (n : Nat) (r : BMat) : Prop := ∀ i, i < n → r.f i i = true → ∀ l, l < n → r.f i l = decide (i = l)

theorem noSingles_of_condition (n : Nat) (r : BMat) (hr : r.r = n) (hc : r.c = n) (h : condition r = false) : NoSingles n r := by
  intro i hi hd l hl
  rw [condition_eq] at h
  have hall : ¬ ((List.range r.r).any fun i => singleTest r i) = true := by rw [h]; simp
  rw [List.any_eq_true] at hall
  have ht : singleTest r i = false := by
    cases e : singleTest r i
    · rfl
    · exact absurd ⟨i, List.mem_range.mpr (by rw [hr]; exact hi), e⟩ hall
  unfold singleTest at ht
  rw [hd] at ht
  have hu : rowIsUnit r i = true := by revert ht; cases rowIsUnit r i <;> simp
  exact rowIsUnit_true r i hu l (by rw [hc]; exact hl)

/-- the three `_apply_f` of one double, entrywise (pure matrix algebra over GF(2)):
    for `R_jj = R_kk = 0`, `R_jk = R_kj = 1`:  `R'_il = R_il + R_ik (R_jl + [l = j]) + R_ij (R_kl + [l = k])` -/
theorem triple_entry (n : Nat) (r : BMat) (j k i l : Nat) (hr : r.r = n) (hj : j < n) (hk : k < n) (hi : i < n) (hl : l < n)
    (hne : k ≠ j) (hjj : r.f j j = false) (hkk : r.f k k = false) (hkj : r.f k j = true) (hjk : r.f j k = true) :
    (applyF (applyF (applyF r j) k) j).f i l =
      xor (xor (r.f i l) (r.f i k && xor (r.f j l) (decide (l = j)))) (r.f i j && xor (r.f k l) (decide (l = k))) := by
  have hr1 : (applyF r j).r = n := hr
  have hr2 : (applyF (applyF r j) k).r = n := hr
  have E1 : ∀ x y, x < n → y < n →
      (applyF r j).f x y = xor (r.f x y) (r.f x j && xor (r.f j y) (r.f j j && decide (y = j))) :=
    fun x y hx hy => applyF_entry n r j x y hr hj hx hy
  have E2 : ∀ x y, x < n → y < n → (applyF (applyF r j) k).f x y =
      xor ((applyF r j).f x y) ((applyF r j).f x k && xor ((applyF r j).f k y) ((applyF r j).f k k && decide (y = k))) :=
    fun x y hx hy => applyF_entry n _ k x y hr1 hk hx hy
  have hne' : ¬ j = k := fun e => hne e.symm
  -- the entries of R₁ = f_j(R) that occur
  have a_il : (applyF r j).f i l = xor (r.f i l) (r.f i j && xor (r.f j l) false) := by rw [E1 i l hi hl, hjj]; rfl
  have a_ik : (applyF r j).f i k = xor (r.f i k) (r.f i j) := by rw [E1 i k hi hk, hjk, hjj]; simp
  have a_ij : (applyF r j).f i j = r.f i j := by rw [E1 i j hi hj, hjj]; simp
  have a_kl : (applyF r j).f k l = xor (r.f k l) (r.f j l) := by rw [E1 k l hk hl, hkj, hjj]; simp
  have a_kk : (applyF r j).f k k = true := by rw [E1 k k hk hk, hkk, hkj, hjk, hjj]; rfl
  have a_kj : (applyF r j).f k j = true := by rw [E1 k j hk hj, hkj, hjj]; rfl
  have a_jl : (applyF r j).f j l = r.f j l := by rw [E1 j l hj hl, hjj]; simp
  have a_jk : (applyF r j).f j k = true := by rw [E1 j k hj hk, hjk, hjj]; rfl
  have a_jj : (applyF r j).f j j = false := by rw [E1 j j hj hj, hjj]; rfl
  -- the entries of R₂ = f_k(R₁) that occur
  have b_il : (applyF (applyF r j) k).f i l =
      xor (xor (r.f i l) (r.f i j && r.f j l)) (xor (r.f i k) (r.f i j) && xor (xor (r.f k l) (r.f j l)) (decide (l = k))) := by
    rw [E2 i l hi hl, a_il, a_ik, a_kl, a_kk]; simp
  have b_ij : (applyF (applyF r j) k).f i j = r.f i k := by
    rw [E2 i j hi hj, a_ij, a_ik, a_kj, a_kk]
    simp only [hne', decide_false, Bool.and_false, Bool.xor_false, Bool.and_true]
    cases r.f i j <;> cases r.f i k <;> rfl
  have b_jl : (applyF (applyF r j) k).f j l = xor (r.f k l) (decide (l = k)) := by
    rw [E2 j l hj hl, a_jl, a_jk, a_kl, a_kk]
    cases r.f j l <;> cases r.f k l <;> cases decide (l = k) <;> rfl
  have b_jj : (applyF (applyF r j) k).f j j = true := by
    rw [E2 j j hj hj, a_jj, a_jk, a_kj, a_kk]
    simp [hne']
  rw [applyF_entry n _ j i l hr2 hj hi hl, b_il, b_ij, b_jl, b_jj]
  by_cases e1 : l = j
  · subst e1
    have e2 : ¬ l = k := hne'
    rw [hjj, hkj]
    simp only [e2, decide_false, decide_true]
    cases r.f i l <;> cases r.f i k <;> rfl
  · by_cases e2 : l = k
    · subst e2
      rw [hjk, hkk]
      simp only [e1, decide_false, decide_true]
      cases r.f i l <;> cases r.f i j <;> rfl
    · simp only [e1, e2, decide_false]
      cases r.f i l <;> cases r.f i j <;> cases r.f i k <;> cases r.f j l <;> cases r.f k l <;> rfl

/-- for a tracked `R` with `c_j = c_k = 1` (`R_jj = 0`, `R_kj = 1`): `R_ik R_ji = R_ij R_ki` for the other rows -/
theorem Track.cross {n : Nat} {b θ0 : Adj} {r : BMat} {seq : List Nat} {μ : Nat} (h : Track n b θ0 r seq μ)
    (j k i : Nat) (hj : j < n) (hk : k < n) (hi : i < n) (hjj : r.f j j = false) (hkj : r.f k j = true)
    (hij : i ≠ j) (hik : i ≠ k) : (r.f i k && r.f j i) = (r.f i j && r.f k i) := by
  obtain ⟨q, hI, hR, _, _⟩ := h
  have hne : k ≠ j := by intro e; subst e; rw [hjj] at hkj; cases hkj
  have hcj := c_of_diag_zero hI hR j hj hjj
  have hck := c_of_offdiag hR k j hk hj (fun e => hne e.symm) hkj
  rw [hR.hf i k hi hk, hR.hf j i hj hi, hR.hf i j hi hj, hR.hf k i hk hi]
  unfold rOf
  have e1 : ¬ j = i := fun e => hij e.symm
  have e2 : ¬ k = i := fun e => hik e.symm
  simp only [hij, hik, e1, e2, if_false]
  rw [hcj, hck, hI.simple.1 j i hj hi, hI.simple.1 k i hk hi]
  cases q (4 * i + 2) <;> cases applySeq θ0 seq i j <;> cases applySeq θ0 seq i k <;> rfl

/-- **one double, after the singles are exhausted**: rows `j` and `k` become unit rows, unit rows stay, `NoSingles` stays -/
theorem double_noSingles {n : Nat} {b θ0 : Adj} {r : BMat} {seq : List Nat} {μ : Nat} (h : Track n b θ0 r seq μ)
    (hN : NoSingles n r) (j k : Nat) (hj : j < n) (hk : k < n) (hjj : r.f j j = false) (hkj : r.f k j = true) :
    NoSingles n (applyF (applyF (applyF r j) k) j) ∧ (applyF (applyF (applyF r j) k) j).f j j = true ∧
      ∀ i, i < n → r.f i i = true → (applyF (applyF (applyF r j) k) j).f i i = true := by
  have hne : k ≠ j := by intro e; subst e; rw [hjj] at hkj; cases hkj
  have hne' : ¬ j = k := fun e => hne e.symm
  have hkk : r.f k k = false := by
    cases e : r.f k k
    · rfl
    · have := hN k hk e j hj
      rw [hkj] at this
      simp [hne] at this
  have hjk := h.sym_entry j k hj hk hjj hkj
  have F := fun i l hi hl => triple_entry n r j k i l h.rows hj hk hi hl hne hjj hkk hkj hjk
  have rowj : ∀ l, l < n → (applyF (applyF (applyF r j) k) j).f j l = decide (j = l) := by
    intro l hl
    rw [F j l hj hl, hjk, hjj]
    have : decide (l = j) = decide (j = l) := decide_eq_decide.mpr ⟨Eq.symm, Eq.symm⟩
    rw [this]
    cases r.f j l <;> cases decide (j = l) <;> rfl
  have rowk : ∀ l, l < n → (applyF (applyF (applyF r j) k) j).f k l = decide (k = l) := by
    intro l hl
    rw [F k l hk hl, hkk, hkj]
    have : decide (l = k) = decide (k = l) := decide_eq_decide.mpr ⟨Eq.symm, Eq.symm⟩
    rw [this]
    cases r.f k l <;> cases decide (k = l) <;> rfl
  have diag : ∀ i, i < n → i ≠ j → i ≠ k → (applyF (applyF (applyF r j) k) j).f i i = r.f i i := by
    intro i hi hij hik
    rw [F i i hi hi]
    simp only [hij, hik, decide_false, Bool.xor_false]
    rw [h.cross j k i hj hk hi hjj hkj hij hik]
    cases r.f i i <;> cases (r.f i j && r.f k i) <;> rfl
  refine ⟨?_, ?_, ?_⟩
  · intro i hi hd l hl
    by_cases e1 : i = j
    · rw [e1]; exact rowj l hl
    · by_cases e2 : i = k
      · rw [e2]; exact rowk l hl
      · rw [diag i hi e1 e2] at hd
        have hrow := hN i hi hd
        rw [F i l hi hl, hrow k hk, hrow j hj, hrow l hl]
        simp [e1, e2]
  · rw [rowj j hj]; simp
  · intro i hi hd
    have e1 : i ≠ j := by intro e; rw [e, hjj] at hd; cases hd
    have e2 : i ≠ k := by intro e; rw [e, hkk] at hd; cases hd
    rw [diag i hi e1 e2]; exact hd

theorem rowIsUnit_diag (r : BMat) (j : Nat) (hj : j < r.c) (h : r.f j j = false) : rowIsUnit r j = false := by
  cases e : rowIsUnit r j
  · rfl
  · have := rowIsUnit_true r j e j hj
    rw [h] at this
    simp at this

/-- an invertible tracked `R` has a 1 in every column: `k_list` is never empty -/
theorem Track.column {n : Nat} {b θ0 : Adj} {r : BMat} {seq : List Nat} {μ : Nat} (h : Track n b θ0 r seq μ)
    (hb : Simple n b) (j : Nat) (hj : j < n) : ((List.range n).filter fun k => r.f k j) ≠ [] := by
  obtain ⟨q, hI, hR, _, _⟩ := h
  obtain ⟨k, hk, hkj⟩ := column_not_zero n _ b q hI hb j hj
  intro e
  have : k ∈ (List.range n).filter fun k => r.f k j := by
    rw [List.mem_filter]
    exact ⟨List.mem_range.mpr hk, by rw [hR.hf k j hk hj]; exact hkj⟩
  rw [e] at this
  cases this

/-- **one pass of `_doubles` after the singles are exhausted** returns, and every visited row ends with a 1 on the diagonal -/
theorem doubles_fold_total (n : Nat) (b θ0 : Adj) (hb : Simple n b) (seq0 : List Nat) (l : List Nat) :
    ∀ (st : BMat × List (Nat × Nat)), (∀ j ∈ l, j < n) → (∃ μ, Track n b θ0 st.1 (seq0 ++ flat3 st.2) μ) →
      NoSingles n st.1 →
      ∃ st', l.foldl (doublesStep n) (.ok st) = .ok st' ∧ (∃ μ', Track n b θ0 st'.1 (seq0 ++ flat3 st'.2) μ') ∧
        NoSingles n st'.1 ∧ (∀ i, i < n → st.1.f i i = true → st'.1.f i i = true) ∧ ∀ j ∈ l, st'.1.f j j = true := by
  induction l with
  | nil =>
    intro st _ h hN
    exact ⟨st, rfl, h, hN, fun _ _ hd => hd, fun j hj => by simp at hj⟩
  | cons j l ih =>
    intro st hl h hN
    rw [List.foldl_cons]
    have hj : j < n := hl j (by simp)
    have hl' : ∀ i ∈ l, i < n := fun i hi => hl i (List.mem_cons_of_mem _ hi)
    obtain ⟨μ, h⟩ := h
    cases hjj : st.1.f j j
    · have ht : (!rowIsUnit st.1 j && !st.1.f j j) = true := by
        rw [rowIsUnit_diag st.1 j (by rw [h.cols]; exact hj) hjj, hjj]; rfl
      cases hf : (List.range n).filter fun k => st.1.f k j with
      | nil => exact absurd hf (h.column hb j hj)
      | cons k t =>
        have e' : doublesStep n (.ok st) j = .ok (applyF (applyF (applyF st.1 j) k) j, st.2 ++ [(j, k)]) := by
          show (if (!rowIsUnit st.1 j && !st.1.f j j) = true then
            (match (List.range n).filter fun k => st.1.f k j with
              | [] => Except.error Err.index
              | k :: _ => Except.ok (applyF (applyF (applyF st.1 j) k) j, st.2 ++ [(j, k)])) else .ok st) = _
          rw [if_pos ht, hf]
        rw [e']
        have hkm : k ∈ (List.range n).filter fun k => st.1.f k j := by rw [hf]; simp
        rw [List.mem_filter] at hkm
        have hk : k < n := List.mem_range.mp hkm.1
        obtain ⟨μ3, h3⟩ := h.double hb j k hj hk hjj hkm.2
        obtain ⟨hN3, hj3, hd3⟩ := double_noSingles h hN j k hj hk hjj hkm.2
        have hT3 : Track n b θ0 (applyF (applyF (applyF st.1 j) k) j, st.2 ++ [(j, k)]).1
            (seq0 ++ flat3 (applyF (applyF (applyF st.1 j) k) j, st.2 ++ [(j, k)]).2) μ3 := by
          show Track n b θ0 _ (seq0 ++ flat3 (st.2 ++ [(j, k)])) μ3
          rw [flat3_append, flat3_single, ← List.append_assoc]
          exact h3
        obtain ⟨st', e, hT', hN', hd', hl''⟩ := ih _ hl' ⟨μ3, hT3⟩ hN3
        refine ⟨st', e, hT', hN', fun i hi hd => hd' i hi (hd3 i hi hd), fun i hi => ?_⟩
        rcases List.mem_cons.mp hi with hi | hi
        · rw [hi]; exact hd' j hj hj3
        · exact hl'' i hi
    · have ht : ¬ (!rowIsUnit st.1 j && !st.1.f j j) = true := by rw [hjj]; simp
      have e' : doublesStep n (.ok st) j = .ok st := by
        show (if (!rowIsUnit st.1 j && !st.1.f j j) = true then _ else Except.ok st) = _
        rw [if_neg ht]
      rw [e']
      obtain ⟨st', e, hT', hN', hd', hl''⟩ := ih st hl' ⟨μ, h⟩ hN
      refine ⟨st', e, hT', hN', hd', fun i hi => ?_⟩
      rcases List.mem_cons.mp hi with hi | hi
      · rw [hi]; exact hd' j hj hjj
      · exact hl'' i hi

theorem beq_of_identity (r : BMat) (hc : r.c = r.r) (h : ∀ i j, i < r.r → j < r.r → r.f i j = decide (i = j)) :
    r.beq (identM r.r) = true := by
  unfold BMat.beq
  rw [Bool.and_eq_true, Bool.and_eq_true]
  refine ⟨⟨by simp [identM], by simp [identM, hc]⟩, ?_⟩
  rw [List.all_eq_true]
  intro i hi
  rw [List.all_eq_true]
  intro j hj
  rw [h i j (List.mem_range.mp hi) (by rw [← hc]; exact List.mem_range.mp hj)]
  simp [identM, idM]

/-- **the second `while` runs its body at most once** -/
theorem doublesLoop_terminates (n : Nat) (b θ0 : Adj) (hb : Simple n b) (seq0 : List Nat) (fuel : Nat) (hf : 2 ≤ fuel)
    (r : BMat) (acc : List (Nat × Nat)) (h : ∃ μ, Track n b θ0 r (seq0 ++ flat3 acc) μ) (hN : NoSingles n r) :
    ∃ d, doublesLoop fuel r acc = .ok d := by
  obtain ⟨k, rfl⟩ : ∃ k, fuel = k + 2 := ⟨fuel - 2, by omega⟩
  rw [doublesLoop_succ]
  by_cases hc : (!r.beq (identM r.r)) = true
  · rw [if_pos hc]
    obtain ⟨μ, hT⟩ := h
    have hl : ∀ i ∈ List.range n, i < n := fun i hi => List.mem_range.mp hi
    obtain ⟨st', e, ⟨μ', hT'⟩, hN', _, hall⟩ := doubles_fold_total n b θ0 hb (seq0 ++ flat3 acc) (List.range n) (r, []) hl
      ⟨μ, by simpa [flat3] using hT⟩ hN
    have hd : doubles r = .ok st' := by rw [doubles_eq, hT.rows]; exact e
    rw [hd]
    obtain ⟨r1, d1⟩ := st'
    show ∃ d, doublesLoop (k + 1) r1 (acc ++ d1) = .ok d
    rw [doublesLoop_succ]
    have hid : r1.beq (identM r1.r) = true := by
      apply beq_of_identity r1 (by rw [hT'.cols, hT'.rows])
      intro i j hi hj
      rw [hT'.rows] at hi hj
      exact hN' i hi (hall i (List.mem_range.mpr hi)) j hj
    rw [hid]
    exact ⟨acc ++ d1, rfl⟩
  · rw [if_neg hc]
    exact ⟨acc, rfl⟩

/-- **`lc_graph_operations` terminates on every valid solution**: `fuel ≥ n + 1` is enough for both loops (the first needs at
    most one pass per block with `c = 1` plus the final test, the second at most one pass plus the final test) -/
theorem lcGraphOperations_terminates (fuel n : Nat) (a b : Adj) (q : List Bool) (hn : 0 < n) (ha : Simple n a)
    (hb : Simple n b) (hq : ∀ j k, j < n → k < n → equation n a b (vget q) j k = false)
    (hv : isValidClifford n q = true) (hf : n + 1 ≤ fuel) : ∃ seq, lcGraphOperations fuel n a q = .ok seq := by
  have h0 := track_init n a b q ha hq hv
  obtain ⟨r, s, hs⟩ := singlesLoop_terminates n b a hb fuel _ [] _ h0 (by have := h0.bound; omega)
  obtain ⟨⟨μ, h1⟩, hc⟩ := singlesLoop_ok n b a hb fuel _ [] _ r s h0 hs
  have hN := noSingles_of_condition n r h1.rows h1.cols hc
  obtain ⟨d, hd⟩ := doublesLoop_terminates n b a hb s fuel (by omega) r [] ⟨μ, by simpa [flat3] using h1⟩ hN
  refine ⟨s ++ d.flatMap fun p => [p.1, p.2, p.1], ?_⟩
  unfold lcGraphOperations
  rw [hs]
  dsimp only
  rw [hd]

end Graphiq.LC
