/-
  Proofs/HilbertBridgeOps.lean — the operations of graphiq's `DensityMatrix` class (`backends/density_matrix/state.py`)
  and the matrices `backends/density_matrix/functions.py` builds for them, read as operations on complex matrices
  indexed by bit strings (`Bits n`, qubit 0 = left-most Kronecker factor), and what they do to the density matrix
  `ρ(T) = ∏ (1 + g_i)/2` of a Clifford tableau `T`:

  * `herm`, `applyUnitary`, `applyChannel`, `measureH` : `hermitianize`, `DensityMatrix.apply_unitary`,
    `apply_channel`, `apply_measurement` (probabilities clipped at 0, the outcome rule of the three settings with the
    `np.isclose(·, 0)` threshold, division by the conditional probability of the outcome);
  * `projZ`, `resetKraus`, `twoQ`/`ctrlG` : `projectors_zbasis`, `get_reset_qubit_kraus`, `get_two_qubit_controlled_gate`;
  * `applyUnitary_gate` : `U_g ρ(t) U_g†` (hermitianized) `= ρ(t.map g.act)`;
  * `prob_random`, `prob_det` : the probabilities the density-matrix backend computes are exactly ½, ½ when a stabilizer
    has an X on the qubit and exactly 1, 0 otherwise — so its outcome rule takes the same branch as the tableau's;
  * `measureH_tab` : `apply_measurement` on `ρ(t)` returns `ρ(t.zMeasure …)`, the same outcome, consumes a drawn bit
    exactly when the tableau measurement does;
  * `resetChannel_det` : on a state in which the qubit has a definite Z value the reset channel is `reset_z`.

  Everything here is noise-free and shared between C01 (compile loop) and C06 (channels).  (Imports neither
  Proofs/Circuit.lean nor Proofs/Noise.lean — the two cannot be imported together, both declare `Graphiq.Tab.norm_row`.)
-/
import GraphiqModel.Proofs.HilbertTab
import GraphiqModel.Proofs.HilbertKron
import GraphiqModel.Model.Circuit
namespace Graphiq
namespace Hilbert
open Matrix PRow

/-- complex `2^n × 2^n` matrices indexed by bit strings -/
abbrev DMat (n : Nat) := Matrix (Bits n) (Bits n) ℂ

/-! ### `hermitianize`, `apply_unitary`, `apply_channel` -/

/-- `hermitianize(m) = (m + m†)/2` -/
noncomputable def herm {n : Nat} (M : DMat n) : DMat n := (1 / 2 : ℂ) • (M + Mᴴ)

theorem herm_of_hermitian {n : Nat} (M : DMat n) (h : Mᴴ = M) : herm M = M := by
  unfold herm
  rw [h, ← two_smul ℂ M, smul_smul]
  norm_num

/-- `DensityMatrix.apply_unitary(U)`: `hermitianize(U ρ U†)` -/
noncomputable def applyUnitary {n : Nat} (ρ U : DMat n) : DMat n := herm (U * ρ * Uᴴ)

/-- `DensityMatrix.apply_channel(kraus_ops)`: nothing for an empty list, otherwise `hermitianize(Σ_k K ρ K†)`
    accumulated from 0 in list order -/
noncomputable def applyChannel {n : Nat} (ρ : DMat n) (ks : List (DMat n)) : DMat n :=
  match ks with
  | [] => ρ
  | _ :: _ => herm (ks.foldl (fun acc K => acc + K * ρ * Kᴴ) 0)

theorem conj_hermitian {n : Nat} (U ρ : DMat n) (h : ρᴴ = ρ) : (U * ρ * Uᴴ)ᴴ = U * ρ * Uᴴ := by
  rw [Matrix.conjTranspose_mul, Matrix.conjTranspose_mul, Matrix.conjTranspose_conjTranspose, h, Matrix.mul_assoc]

theorem applyUnitary_of_hermitian {n : Nat} (ρ U : DMat n) (h : ρᴴ = ρ) : applyUnitary ρ U = U * ρ * Uᴴ :=
  herm_of_hermitian _ (conj_hermitian U ρ h)

/-! ### the state of a tableau -/

/-- the density matrix of the stabilizer half of a Clifford tableau, on `n` qubits (`n = t.n` in every use) -/
noncomputable def tabRho (n : Nat) (t : Tab) : DMat n := rho n (STab.ofTab t)

theorem tabRho_hermitian (t : Tab) (hv : t.Valid) : (tabRho t.n t)ᴴ = tabRho t.n t :=
  rho_hermitian (STab.ofTab t) (ofTab_good t hv)

theorem tabRho_idem (t : Tab) (hv : t.Valid) : tabRho t.n t * tabRho t.n t = tabRho t.n t :=
  rho_idem (STab.ofTab t) (ofTab_good t hv)

theorem tabRho_trace (t : Tab) (hv : t.Valid) : Matrix.trace (tabRho t.n t) = 1 := rho_ofTab_trace t hv

/-- tabulation (`Tab.norm`, execution only) does not change the state -/
theorem tabRho_norm (t : Tab) : tabRho t.n t.norm = tabRho t.n t := by
  apply rhoTo_congr
  intro i hi
  have hi' : i < t.n := hi
  have h := Tab.tnorm_row t (i + t.n) (by omega)
  exact ⟨h.1, h.2.1, rfl⟩

theorem norm_stabReal (t : Tab) (hr : t.StabReal) : t.norm.StabReal := by
  intro i h1 h2
  have hn : t.norm.n = t.n := rfl
  rw [hn] at h1 h2
  rw [(Tab.tnorm_row t i h2).2.2]
  exact hr i h1 h2

/-- **`apply_unitary` with a gate's unitary is the tableau gate.** -/
theorem applyUnitary_gate (t : Tab) (hv : t.Valid) (g : Gate) (hg : g.WF t.n) :
    applyUnitary (tabRho t.n t) (gateMat t.n g) = tabRho t.n (t.map g.act) := by
  rw [applyUnitary_of_hermitian _ _ (tabRho_hermitian t hv)]
  exact rho_tab_gate t g hg

/-! ### 2×2 constants of functions.py and their `n`-qubit embeddings -/

/-- `|s⟩⟨s'|` : `projector_ketz0()` = `ketBra2 0 0`, `projector_ketz1()` = `ketBra2 1 1`, the reset Kraus block
    `[[0,1],[0,0]]` = `ketBra2 0 1` -/
noncomputable def ketBra2 (s s' : Bool) : Matrix Bool Bool ℂ := Matrix.of fun a b => if a = s ∧ b = s' then 1 else 0

/-- `hadamard()` -/
noncomputable def hadamardM : Matrix Bool Bool ℂ := invSqrt2 • hadM

/-- `projectors_zbasis(n, q)[s]` : the Kronecker chain with `|s⟩⟨s|` at position `q` and identities elsewhere -/
noncomputable def projZ (n q : Nat) (s : Bool) : DMat n := oneQ n q (ketBra2 s s)

/-- `get_reset_qubit_kraus(n, q)` -/
noncomputable def resetKraus (n q : Nat) : List (DMat n) := [oneQ n q (ketBra2 false false), oneQ n q (ketBra2 false true)]

/-- the Kronecker chain with the 2×2 blocks `u` at position `c` and `v` at position `t`, identities elsewhere
    (entrywise: all other bits agree, then the product of the two block entries) -/
noncomputable def twoQ (n c t : Nat) (u v : Matrix Bool Bool ℂ) : DMat n :=
  Matrix.of fun a b => if (∀ j : Fin n, j.val ≠ c → j.val ≠ t → a j = b j) then u (bx a c) (bx b c) * v (bx a t) (bx b t) else 0

/-- `get_two_qubit_controlled_gate(n, c, t, u)` : `1 + ½ · (chain with 1 − Z at c and u − 1 at t)` -/
noncomputable def ctrlG (n c t : Nat) (u : Matrix Bool Bool ℂ) : DMat n :=
  1 + (1 / 2 : ℂ) • twoQ n c t (1 - sigmaZ) (u - 1)

/-- the two-factor chain is the product of the two one-factor chains (mixed-product property of `np.kron`) -/
theorem twoQ_eq_mul (n c t : Nat) (hc : c < n) (ht : t < n) (hct : c ≠ t) (u v : Matrix Bool Bool ℂ) :
    twoQ n c t u v = oneQ n c u * oneQ n t v := by
  ext a b
  rw [Matrix.mul_apply, sum_two_site c hc a]
  · simp only [oneQ_apply, bx_update_self]
    have h0 : ∀ s, (∀ j : Fin n, j.val ≠ c → a j = Function.update a ⟨c, hc⟩ s j) :=
      fun s j hj => (update_off c hc a s j hj).symm
    have hbt : ∀ s, bx (Function.update a ⟨c, hc⟩ s) t = bx a t := by
      intro s
      rw [bx_lt _ _ ht, bx_lt _ _ ht]
      exact update_off c hc a s ⟨t, ht⟩ (Ne.symm hct)
    have h1 : ∀ s, (∀ j : Fin n, j.val ≠ t → Function.update a ⟨c, hc⟩ s j = b j) ↔
        ((∀ j : Fin n, j.val ≠ c → j.val ≠ t → a j = b j) ∧ s = bx b c) := by
      intro s
      constructor
      · intro h
        refine ⟨fun j hj1 hj2 => ?_, ?_⟩
        · rw [← h j hj2, update_off c hc a s j hj1]
        · have := h ⟨c, hc⟩ hct
          rw [bx_lt _ _ hc, ← this]; simp
      · intro ⟨h, hs⟩ j hj
        by_cases hjc : j.val = c
        · have : j = ⟨c, hc⟩ := Fin.ext hjc
          rw [this, hs, bx_lt _ _ hc]; simp
        · rw [update_off c hc a s j hjc]; exact h j hjc hj
    rw [if_pos (h0 false), if_pos (h0 true), hbt, hbt]
    show (if _ then _ else _) = _
    by_cases hoff : ∀ j : Fin n, j.val ≠ c → j.val ≠ t → a j = b j
    · rw [if_pos hoff]
      cases hb : bx b c
      · rw [if_pos ((h1 false).mpr ⟨hoff, hb.symm⟩), if_neg (fun h => by have := ((h1 true).mp h).2; rw [hb] at this; cases this)]
        ring
      · rw [if_neg (fun h => by have := ((h1 false).mp h).2; rw [hb] at this; cases this), if_pos ((h1 true).mpr ⟨hoff, hb.symm⟩)]
        ring
    · rw [if_neg hoff, if_neg (fun h => hoff ((h1 false).mp h).1), if_neg (fun h => hoff ((h1 true).mp h).1)]
      ring
  · intro m hm
    rw [oneQ_apply, if_neg hm, zero_mul]

theorem oneQ_sub (n q : Nat) (u v : Matrix Bool Bool ℂ) : oneQ n q (u - v) = oneQ n q u - oneQ n q v := by
  ext a b
  simp only [oneQ_apply, Matrix.sub_apply]
  split <;> simp

theorem oneQ_add (n q : Nat) (u v : Matrix Bool Bool ℂ) : oneQ n q (u + v) = oneQ n q u + oneQ n q v := by
  ext a b
  simp only [oneQ_apply, Matrix.add_apply]
  split <;> simp

/-- the projector chain is `(1 + (-1)^s Z_q)/2` -/
theorem projZ_eq (n q : Nat) (hq : q < n) (s : Bool) : projZ n q s = proj n (Zq q s) := by
  rw [proj_Zq n q hq s]
  ext a b
  rw [projZ, oneQ_apply, Matrix.diagonal_apply]
  by_cases h : a = b
  · subst h
    rw [if_pos (fun _ _ => rfl), if_pos rfl]
    by_cases h2 : bx a q = s <;> simp [ketBra2, h2]
  · rw [if_neg h]
    have := (not_congr (bits_eq_iff_site q a b)).mp h
    by_cases h1 : ∀ j : Fin n, j.val ≠ q → a j = b j
    · rw [if_pos h1]
      have h2 : bx a q ≠ bx b q := fun h2 => this ⟨h1, h2⟩
      simp only [ketBra2, Matrix.of_apply]
      rw [if_neg]
      rintro ⟨e1, e2⟩
      exact h2 (e1.trans e2.symm)
    · rw [if_neg h1]

theorem ketBra2_ft : ketBra2 false true = ketBra2 false false * sigmaX := by
  ext a b
  cases a <;> cases b <;> simp [ketBra2, sigmaX, Matrix.mul_apply, Fintype.sum_bool]

/-- the second reset Kraus operator is `Π_0 X_q` -/
theorem resetKraus1_eq (n q : Nat) (hq : q < n) :
    oneQ n q (ketBra2 false true) = proj n (Zq q false) * pauliMat n (Xq q) := by
  rw [ketBra2_ft, ← oneQ_mul n q hq, ← projZ_eq n q hq, oneQ_sigmaX n q hq]
  rfl

theorem ctrlG_eq (n c t : Nat) (hc : c < n) (ht : t < n) (hct : c ≠ t) (u : Matrix Bool Bool ℂ) :
    ctrlG n c t u = ctrlQ n c t u := by
  rw [ctrlQ_eq_graphiq n c t hc hct, ctrlG, twoQ_eq_mul n c t hc ht hct, oneQ_sub, oneQ_one, oneQ_sigmaZ n c hc]

theorem hadamard_gate (n q : Nat) : oneQ n q hadamardM = gateMat n (Gate.H q) := by
  rw [hadamardM, oneQ_smul]; rfl

/-! ### Z-basis projectors against a tableau state -/

theorem proj_Zq_hermitian (n q : Nat) (s : Bool) : (proj n (Zq q s))ᴴ = proj n (Zq q s) := proj_hermitian n _ rfl
theorem proj_Zq_idem (n q : Nat) (s : Bool) : proj n (Zq q s) * proj n (Zq q s) = proj n (Zq q s) := proj_idem n _ rfl

/-- `Π_0 Π_1 = 0` -/
theorem proj_Zq_orth (n q : Nat) (s : Bool) : proj n (Zq q s) * proj n (Zq q (!s)) = 0 := by
  have hneg : pauliMat n (Zq q (!s)) = -pauliMat n (Zq q s) := pauliMat_neg n (Zq q s)
  have hsq := pauliMat_sq n (Zq q s) rfl
  unfold proj
  rw [hneg, smul_mul_smul_comm]
  have : (1 + pauliMat n (Zq q s)) * (1 + -pauliMat n (Zq q s))
      = 1 - pauliMat n (Zq q s) * pauliMat n (Zq q s) := by noncomm_ring
  rw [this, hsq, sub_self, smul_zero]

theorem trace_mul_proj {n : Nat} (ρ : DMat n) (q : Nat) (s : Bool) :
    Matrix.trace (ρ * proj n (Zq q s)) = Matrix.trace (proj n (Zq q s) * ρ * proj n (Zq q s)) := by
  rw [Matrix.trace_mul_comm (proj n (Zq q s) * ρ), ← Matrix.mul_assoc, proj_Zq_idem, Matrix.trace_mul_comm]

/-- **Random outcome: the probability the density-matrix backend computes is exactly ½** (both outcomes) -/
theorem prob_random (t : Tab) (hv : t.Valid) (hr : t.StabReal) (q p : Nat) (o : Bool) (hq : q < t.n)
    (hp : t.pivot q = some p) : Matrix.trace (tabRho t.n t * proj t.n (Zq q o)) = 1 / 2 := by
  obtain ⟨h1, h2, hx⟩ := Tab.pivot_spec t q p hp
  rw [trace_mul_proj]
  exact measRandom_prob t hv hr q p o hq h1 h2 hx

/-- deterministic outcome `r`: `Π_r ρ = ρ = ρ Π_r`, `Π_{¬r} ρ = 0 = ρ Π_{¬r}` -/
theorem det_fix (t : Tab) (hv : t.Valid) (hr : t.StabReal) (q : Nat) (hq : q < t.n) (hp : t.pivot q = none) :
    proj t.n (Zq q (t.measScratch q).r) * tabRho t.n t = tabRho t.n t ∧
    tabRho t.n t * proj t.n (Zq q (t.measScratch q).r) = tabRho t.n t ∧
    proj t.n (Zq q (!(t.measScratch q).r)) * tabRho t.n t = 0 ∧
    tabRho t.n t * proj t.n (Zq q (!(t.measScratch q).r)) = 0 := by
  obtain ⟨hfix, _, hzero⟩ := measDet_state t hv hr q hq hp
  have hherm := tabRho_hermitian t hv
  have hP : proj t.n (Zq q (t.measScratch q).r) * tabRho t.n t = tabRho t.n t := by
    unfold proj
    rw [smul_mul_assoc, add_mul, Matrix.one_mul]
    show (1 / 2 : ℂ) • (tabRho t.n t + pauliMat t.n (Zq q (t.measScratch q).r) * rho t.n (STab.ofTab t)) = _
    rw [hfix]
    show (1 / 2 : ℂ) • (tabRho t.n t + tabRho t.n t) = _
    rw [← two_smul ℂ, smul_smul]; norm_num
  have hP' : tabRho t.n t * proj t.n (Zq q (t.measScratch q).r) = tabRho t.n t := by
    have := congrArg Matrix.conjTranspose hP
    rw [Matrix.conjTranspose_mul, hherm, proj_Zq_hermitian] at this
    exact this
  have hZ' : tabRho t.n t * proj t.n (Zq q (!(t.measScratch q).r)) = 0 := by
    have := congrArg Matrix.conjTranspose hzero
    rw [Matrix.conjTranspose_mul, Matrix.conjTranspose_zero, proj_Zq_hermitian] at this
    rw [← this]
    congr 1
    exact hherm.symm
  exact ⟨hP, hP', hzero, hZ'⟩

/-- **Deterministic outcome: the probabilities are exactly 1 and 0** -/
theorem prob_det (t : Tab) (hv : t.Valid) (hr : t.StabReal) (q : Nat) (hq : q < t.n) (hp : t.pivot q = none) :
    Matrix.trace (tabRho t.n t * proj t.n (Zq q (t.measScratch q).r)) = 1 ∧
    Matrix.trace (tabRho t.n t * proj t.n (Zq q (!(t.measScratch q).r))) = 0 := by
  obtain ⟨_, h2, _, h4⟩ := det_fix t hv hr q hq hp
  rw [h2, h4, tabRho_trace t hv]
  exact ⟨rfl, by simp⟩

/-! ### `apply_measurement` -/

/-- `np.isclose(x, 0.0)` with the default tolerances: `|x| ≤ 1e-8` -/
def isclose0 (x : ℝ) : Prop := |x| ≤ 1 / 100000000

theorem isclose0_zero : isclose0 0 := by unfold isclose0; norm_num
theorem not_isclose0_half : ¬ isclose0 (1 / 2) := by unfold isclose0; rw [abs_of_pos] <;> norm_num
theorem not_isclose0_one : ¬ isclose0 1 := by unfold isclose0; rw [abs_of_pos] <;> norm_num

/-- the probability of one projector as the code computes it: real part of the trace, clipped at 0 -/
noncomputable def probOf {n : Nat} (ρ P : DMat n) : ℝ := max 0 (Matrix.trace (ρ * P)).re

open Classical in
/-- the outcome and the remaining drawn bits of `apply_measurement`, from the two clipped probabilities.
    Forced 1: outcome 1 unless `np.isclose(p1, 0)`; forced 0: outcome 0 unless `np.isclose(p0, 0)`;
    `"probabilistic"`: `numpy.random.choice([0,1], p = probs / sum)` — an outcome of conditional probability 0 is never
    drawn, so the next scripted bit is consumed exactly when both probabilities are positive. -/
noncomputable def outcomeOf (d : Det) (p0 p1 : ℝ) (script : List Bool) : Bool × List Bool :=
  match d with
  | .zero => (decide (isclose0 p0), script)
  | .one => (decide (¬ isclose0 p1), script)
  | .prob =>
    if p0 / (p0 + p1) = 0 then (true, script)
    else if p1 / (p0 + p1) = 0 then (false, script)
    else (script.headD false, script.tail)

/-- the divisor of `apply_measurement`: the conditional probability `probs[outcome] / Σ probs` of the chosen outcome
    (1 if the total is not positive) -/
noncomputable def measNormH {n : Nat} (ρ P0 P1 : DMat n) (d : Det) (script : List Bool) : ℝ :=
  let p0 := probOf ρ P0
  let p1 := probOf ρ P1
  let os := outcomeOf d p0 p1 script
  let total := p0 + p1
  if 0 < total then (if os.1 then p1 else p0) / total else 1

open Classical in
/-- `DensityMatrix.apply_measurement([P0, P1], determinism)`: new state, outcome, remaining drawn bits, and whether both
    outcomes had positive probability -/
noncomputable def measureH {n : Nat} (ρ P0 P1 : DMat n) (d : Det) (script : List Bool) :
    DMat n × Bool × List Bool × Bool :=
  let p0 := probOf ρ P0
  let p1 := probOf ρ P1
  let os := outcomeOf d p0 p1 script
  let m := if os.1 then P1 else P0
  let total := p0 + p1
  let norm : ℝ := if 0 < total then (if os.1 then p1 else p0) / total else 1
  (((norm : ℂ))⁻¹ • (m * ρ * mᴴ), os.1, os.2, decide (0 < p0 ∧ 0 < p1))

theorem measureH_fst {n : Nat} (ρ P0 P1 : DMat n) (d : Det) (script : List Bool) :
    (measureH ρ P0 P1 d script).1 = ((measNormH ρ P0 P1 d script : ℝ) : ℂ)⁻¹ •
      ((if (measureH ρ P0 P1 d script).2.1 then P1 else P0) * ρ * (if (measureH ρ P0 P1 d script).2.1 then P1 else P0)ᴴ) :=
  rfl

theorem measureH_out {n : Nat} (ρ P0 P1 : DMat n) (d : Det) (script : List Bool) :
    (measureH ρ P0 P1 d script).2.1 = (outcomeOf d (probOf ρ P0) (probOf ρ P1) script).1 := rfl

theorem probOf_of_trace {n : Nat} (ρ P : DMat n) (x : ℝ) (hx : 0 ≤ x) (h : Matrix.trace (ρ * P) = (x : ℂ)) :
    probOf ρ P = x := by
  unfold probOf
  rw [h, Complex.ofReal_re]
  exact max_eq_right hx

open Classical in
/-- **`apply_measurement` on the state of a tableau is `z_measurement_gate`.**  For every setting and script the
    density-matrix backend's measurement of qubit `q` returns the density matrix of the tableau after
    `zMeasure q (offered outcome)`, reports the same outcome, leaves the same drawn bits, and "both outcomes possible"
    coincides with "a stabilizer has an X on `q`". -/
theorem measureH_tab (s : RunState) (hv : s.t.Valid) (hr : s.t.StabReal) (d : Det) (q : Nat) (hq : q < s.t.n) :
    measureH (tabRho s.t.n s.t) (projZ s.t.n q false) (projZ s.t.n q true) d s.script
      = (tabRho s.t.n (s.measure d q).1.t, (s.measure d q).2, (s.measure d q).1.script, (s.t.pivot q).isSome) := by
  rw [projZ_eq _ _ hq, projZ_eq _ _ hq]
  have hnorm : ∀ u : Tab, u.n = s.t.n → tabRho s.t.n u.norm = tabRho s.t.n u := by
    intro u hu
    have := tabRho_norm u
    rw [hu] at this
    exact this
  cases hp : s.t.pivot q with
  | some p =>
    have h0 : probOf (tabRho s.t.n s.t) (proj s.t.n (Zq q false)) = 1 / 2 :=
      probOf_of_trace _ _ (1 / 2) (by norm_num) (by rw [prob_random s.t hv hr q p false hq hp]; norm_num)
    have h1 : probOf (tabRho s.t.n s.t) (proj s.t.n (Zq q true)) = 1 / 2 :=
      probOf_of_trace _ _ (1 / 2) (by norm_num) (by rw [prob_random s.t hv hr q p true hq hp]; norm_num)
    obtain ⟨hp1, hp2, hx⟩ := Tab.pivot_spec s.t q p hp
    -- the offered outcome
    have hos : outcomeOf d (1 / 2) (1 / 2) s.script = s.offer d true := by
      cases d
      · show (decide (isclose0 (1 / 2)), s.script) = (false, s.script)
        rw [decide_eq_false not_isclose0_half]
      · show (decide (¬ isclose0 (1 / 2)), s.script) = (true, s.script)
        rw [decide_eq_true not_isclose0_half]
      · simp only [outcomeOf, RunState.offer]
        norm_num
    have hmeas : ∀ o : Bool, proj s.t.n (Zq q o) * tabRho s.t.n s.t * (proj s.t.n (Zq q o))ᴴ
        = (1 / 2 : ℂ) • tabRho s.t.n (s.t.measRandom q p o) := by
      intro o
      rw [proj_Zq_hermitian]
      exact measRandom_state s.t hv hr q p o hq hp1 hp2 hx
    have hstate : (s.measure d q).1.t = (s.t.measRandom q p (s.offer d true).1).norm := by
      simp [RunState.measure, Tab.zMeasure, hp]
    have hout : (s.measure d q).2 = (s.offer d true).1 := by
      simp [RunState.measure, Tab.zMeasure, hp]
    have hscr : (s.measure d q).1.script = (s.offer d true).2 := by
      simp [RunState.measure, hp]
    unfold measureH
    simp only [h0, h1, hos]
    rw [hstate, hout, hscr, hnorm (s.t.measRandom q p _) rfl]
    have hnn : (((if (0 : ℝ) < 1 / 2 + 1 / 2 then (if (s.offer d true).1 = true then (1 / 2 : ℝ) else 1 / 2) / (1 / 2 + 1 / 2)
        else 1 : ℝ) : ℂ))⁻¹ = 2 := by
      have : (if (s.offer d true).1 = true then (1 / 2 : ℝ) else 1 / 2) = 1 / 2 := by split <;> rfl
      rw [this]
      norm_num
    rw [hnn]
    have hst : (if (s.offer d true).1 = true then proj s.t.n (Zq q true) else proj s.t.n (Zq q false))
        = proj s.t.n (Zq q (s.offer d true).1) := by
      cases (s.offer d true).1 <;> simp
    rw [hst, hmeas, smul_smul]
    norm_num
  | none =>
    obtain ⟨hfix1, hfix2, _, _⟩ := det_fix s.t hv hr q hq hp
    obtain ⟨ht1, ht0⟩ := prob_det s.t hv hr q hq hp
    have hstate : (s.measure d q).1.t = s.t.norm := by
      simp [RunState.measure, Tab.zMeasure, hp]
    have hout : (s.measure d q).2 = (s.t.measScratch q).r := by
      simp [RunState.measure, Tab.zMeasure, hp]
    have hscr : (s.measure d q).1.script = s.script := by
      cases d <;> simp [RunState.measure, RunState.offer, hp]
    rw [hstate, hout, hscr, hnorm _ rfl]
    cases hrr : (s.t.measScratch q).r with
    | false =>
      rw [hrr] at hfix1 hfix2 ht1 ht0
      have h0 : probOf (tabRho s.t.n s.t) (proj s.t.n (Zq q false)) = 1 :=
        probOf_of_trace _ _ 1 (by norm_num) (by rw [ht1]; norm_num)
      have h1 : probOf (tabRho s.t.n s.t) (proj s.t.n (Zq q true)) = 0 :=
        probOf_of_trace _ _ 0 (by norm_num) (by rw [show (true : Bool) = !false from rfl, ht0]; norm_num)
      have hos : outcomeOf d 1 0 s.script = (false, s.script) := by
        cases d
        · show (decide (isclose0 1), s.script) = (false, s.script)
          rw [decide_eq_false not_isclose0_one]
        · show (decide (¬ isclose0 0), s.script) = (false, s.script)
          rw [decide_eq_false (not_not.mpr isclose0_zero)]
        · simp [outcomeOf]
      unfold measureH
      simp only [h0, h1, hos]
      simp [proj_Zq_hermitian, hfix1, hfix2]
    | true =>
      rw [hrr] at hfix1 hfix2 ht1 ht0
      have h1 : probOf (tabRho s.t.n s.t) (proj s.t.n (Zq q true)) = 1 :=
        probOf_of_trace _ _ 1 (by norm_num) (by rw [ht1]; norm_num)
      have h0 : probOf (tabRho s.t.n s.t) (proj s.t.n (Zq q false)) = 0 :=
        probOf_of_trace _ _ 0 (by norm_num) (by rw [show (false : Bool) = !true from rfl, ht0]; norm_num)
      have hos : outcomeOf d 0 1 s.script = (true, s.script) := by
        cases d
        · show (decide (isclose0 0), s.script) = (true, s.script)
          rw [decide_eq_true isclose0_zero]
        · show (decide (¬ isclose0 1), s.script) = (true, s.script)
          rw [decide_eq_true not_isclose0_one]
        · simp [outcomeOf]
      unfold measureH
      simp only [h0, h1, hos]
      simp [proj_Zq_hermitian, hfix1, hfix2]

open Classical in
/-- on the state of a tableau the divisor of `apply_measurement` is positive (it is ½ or 1): the density-matrix backend
    never divides by 0 there -/
theorem measNormH_pos_tab (s : RunState) (hv : s.t.Valid) (hr : s.t.StabReal) (d : Det) (q : Nat) (hq : q < s.t.n) :
    0 < measNormH (tabRho s.t.n s.t) (projZ s.t.n q false) (projZ s.t.n q true) d s.script := by
  rw [projZ_eq _ _ hq, projZ_eq _ _ hq]
  cases hp : s.t.pivot q with
  | some p =>
    have h0 : probOf (tabRho s.t.n s.t) (proj s.t.n (Zq q false)) = 1 / 2 :=
      probOf_of_trace _ _ (1 / 2) (by norm_num) (by rw [prob_random s.t hv hr q p false hq hp]; norm_num)
    have h1 : probOf (tabRho s.t.n s.t) (proj s.t.n (Zq q true)) = 1 / 2 :=
      probOf_of_trace _ _ (1 / 2) (by norm_num) (by rw [prob_random s.t hv hr q p true hq hp]; norm_num)
    unfold measNormH
    simp only [h0, h1]
    have : (if (outcomeOf d (1 / 2) (1 / 2) s.script).1 = true then (1 / 2 : ℝ) else 1 / 2) = 1 / 2 := by split <;> rfl
    rw [this]
    norm_num
  | none =>
    obtain ⟨ht1, ht0⟩ := prob_det s.t hv hr q hq hp
    cases hrr : (s.t.measScratch q).r with
    | false =>
      rw [hrr] at ht1 ht0
      have h0 : probOf (tabRho s.t.n s.t) (proj s.t.n (Zq q false)) = 1 :=
        probOf_of_trace _ _ 1 (by norm_num) (by rw [ht1]; norm_num)
      have h1 : probOf (tabRho s.t.n s.t) (proj s.t.n (Zq q true)) = 0 :=
        probOf_of_trace _ _ 0 (by norm_num) (by rw [show (true : Bool) = !false from rfl, ht0]; norm_num)
      have hos : (outcomeOf d 1 0 s.script).1 = false := by
        cases d
        · show decide (isclose0 1) = false
          exact decide_eq_false not_isclose0_one
        · show decide (¬ isclose0 0) = false
          exact decide_eq_false (not_not.mpr isclose0_zero)
        · simp [outcomeOf]
      unfold measNormH
      simp only [h0, h1, hos]
      norm_num
    | true =>
      rw [hrr] at ht1 ht0
      have h1 : probOf (tabRho s.t.n s.t) (proj s.t.n (Zq q true)) = 1 :=
        probOf_of_trace _ _ 1 (by norm_num) (by rw [ht1]; norm_num)
      have h0 : probOf (tabRho s.t.n s.t) (proj s.t.n (Zq q false)) = 0 :=
        probOf_of_trace _ _ 0 (by norm_num) (by rw [show (false : Bool) = !true from rfl, ht0]; norm_num)
      have hos : (outcomeOf d 0 1 s.script).1 = true := by
        cases d
        · show decide (isclose0 0) = true
          exact decide_eq_true isclose0_zero
        · show decide (¬ isclose0 1) = true
          exact decide_eq_true not_isclose0_one
        · simp [outcomeOf]
      unfold measNormH
      simp only [h0, h1, hos]
      norm_num

/-! ### after a measurement the qubit has a definite Z value; the reset channel -/

theorem zMeasure_stabReal' (t : Tab) (q : Nat) (o : Bool) (hv : t.Valid) (hr : t.StabReal) :
    (t.zMeasure q o).1.StabReal := by
  cases hp : t.pivot q with
  | some p =>
    obtain ⟨h1, h2, _⟩ := Tab.pivot_spec t q p hp
    have e : (t.zMeasure q o).1 = t.measRandom q p o := by simp [Tab.zMeasure, hp]
    rw [e]; exact measRandom_stabReal t hv hr q p o h1 h2
  | none =>
    have e : (t.zMeasure q o).1 = t := by simp [Tab.zMeasure, hp]
    rw [e]; exact hr

/-- `X_q Π_{¬s} = Π_s X_q` -/
theorem proj_Zq_mul_Xq (n q : Nat) (hq : q < n) (s : Bool) :
    proj n (Zq q s) * pauliMat n (Xq q) = pauliMat n (Xq q) * proj n (Zq q (!s)) := by
  have hanti : pauliMat n (Xq q) * pauliMat n (Zq q s) = -(pauliMat n (Zq q s) * pauliMat n (Xq q)) :=
    pauliMat_anticomm n _ _ (by rw [sp_Zq n q _ s hq]; simp [Xq])
  have hneg : pauliMat n (Zq q (!s)) = -pauliMat n (Zq q s) := pauliMat_neg n (Zq q s)
  unfold proj
  rw [smul_mul_assoc, mul_smul_comm, hneg, add_mul, mul_add, Matrix.one_mul, Matrix.mul_one, Matrix.mul_neg, hanti,
    neg_neg]

/-- for `t ≠ q`, `X_t` commutes with the Z-projectors of qubit `q` -/
theorem proj_Zq_comm_Xq (n q t : Nat) (hq : q < n) (hqt : q ≠ t) (s : Bool) :
    proj n (Zq q s) * pauliMat n (Xq t) = pauliMat n (Xq t) * proj n (Zq q s) := by
  have hc : pauliMat n (Xq t) * pauliMat n (Zq q s) = pauliMat n (Zq q s) * pauliMat n (Xq t) :=
    pauliMat_comm n _ _ (by rw [sp_Zq n q _ s hq]; simp [Xq, hqt])
  unfold proj
  rw [smul_mul_assoc, mul_smul_comm, add_mul, mul_add, Matrix.one_mul, Matrix.mul_one, hc]

/-- for `t ≠ q`, `Z_t` commutes with the Z-projectors of qubit `q` (also for `t = q`) -/
theorem proj_Zq_comm_Zq (n q t : Nat) (s : Bool) :
    proj n (Zq q s) * pauliMat n (Zq t) = pauliMat n (Zq t) * proj n (Zq q s) := by
  have hc : pauliMat n (Zq t) * pauliMat n (Zq q s) = pauliMat n (Zq q s) * pauliMat n (Zq t) :=
    pauliMat_comm n _ _ (by
      unfold sp
      rw [parityTo_congr n _ (fun _ => false) (by intro j _; simp [Zq])]
      exact parityTo_false n)
  unfold proj
  rw [smul_mul_assoc, mul_smul_comm, add_mul, mul_add, Matrix.one_mul, Matrix.mul_one, hc]

/-- a state fixed by a Z-projector of qubit `q` is measured deterministically -/
theorem pivot_none_of_fixed (t : Tab) (hv : t.Valid) (hr : t.StabReal) (q : Nat) (hq : q < t.n) (s : Bool)
    (hfix : proj t.n (Zq q s) * tabRho t.n t = tabRho t.n t) : t.pivot q = none := by
  cases hp : t.pivot q with
  | none => rfl
  | some p =>
    exfalso
    have h1 := prob_random t hv hr q p (!s) hq hp
    have hfix' : tabRho t.n t * proj t.n (Zq q s) = tabRho t.n t := by
      have := congrArg Matrix.conjTranspose hfix
      rw [Matrix.conjTranspose_mul, tabRho_hermitian t hv, proj_Zq_hermitian] at this
      exact this
    have h0 : tabRho t.n t * proj t.n (Zq q (!s)) = 0 := by
      rw [← hfix', Matrix.mul_assoc, proj_Zq_orth, Matrix.mul_zero]
    rw [h0] at h1
    simp at h1

/-- after `apply_measurement` / `z_measurement_gate` the projector of the reported outcome fixes the state -/
theorem measure_fixes (s : RunState) (hv : s.t.Valid) (hr : s.t.StabReal) (d : Det) (q : Nat) (hq : q < s.t.n) :
    proj s.t.n (Zq q (s.measure d q).2) * tabRho s.t.n (s.measure d q).1.t = tabRho s.t.n (s.measure d q).1.t := by
  have hnorm : ∀ u : Tab, u.n = s.t.n → tabRho s.t.n u.norm = tabRho s.t.n u := by
    intro u hu
    have := tabRho_norm u
    rw [hu] at this
    exact this
  cases hp : s.t.pivot q with
  | some p =>
    obtain ⟨hp1, hp2, hx⟩ := Tab.pivot_spec s.t q p hp
    have hstate : (s.measure d q).1.t = (s.t.measRandom q p (s.offer d true).1).norm := by
      simp [RunState.measure, Tab.zMeasure, hp]
    have hout : (s.measure d q).2 = (s.offer d true).1 := by
      simp [RunState.measure, Tab.zMeasure, hp]
    rw [hstate, hout, hnorm (s.t.measRandom q p _) rfl]
    have hm := measRandom_state s.t hv hr q p (s.offer d true).1 hq hp1 hp2 hx
    have h2 : tabRho s.t.n (s.t.measRandom q p (s.offer d true).1)
        = (2 : ℂ) • (proj s.t.n (Zq q (s.offer d true).1) * rho s.t.n (STab.ofTab s.t) * proj s.t.n (Zq q (s.offer d true).1)) := by
      rw [hm, smul_smul]; norm_num; rfl
    rw [h2, mul_smul_comm, ← Matrix.mul_assoc, ← Matrix.mul_assoc, proj_Zq_idem]
  | none =>
    have hstate : (s.measure d q).1.t = s.t.norm := by
      simp [RunState.measure, Tab.zMeasure, hp]
    have hout : (s.measure d q).2 = (s.t.measScratch q).r := by
      simp [RunState.measure, Tab.zMeasure, hp]
    rw [hstate, hout, hnorm _ rfl]
    exact (det_fix s.t hv hr q hq hp).1

/-- **The reset channel on a qubit with a definite Z value is `reset_z`.**  If no stabilizer has an X on `q`, the Kraus
    pair `|0⟩⟨0|_q, |0⟩⟨1|_q` maps `ρ(t)` to `ρ(t.resetZ q 0 o)` (for any offered outcome `o`, which is not used). -/
theorem resetChannel_det (t : Tab) (hv : t.Valid) (hr : t.StabReal) (q : Nat) (hq : q < t.n) (hp : t.pivot q = none)
    (o : Bool) : applyChannel (tabRho t.n t) (resetKraus t.n q) = tabRho t.n (t.resetZ q false o) := by
  obtain ⟨hf1, hf2, hz1, hz2⟩ := det_fix t hv hr q hq hp
  have hK0 : oneQ t.n q (ketBra2 false false) = proj t.n (Zq q false) := projZ_eq t.n q hq false
  have hX : (pauliMat t.n (Xq q))ᴴ = pauliMat t.n (Xq q) := pauliMat_hermitian t.n _ rfl
  have hsum : [oneQ t.n q (ketBra2 false false), oneQ t.n q (ketBra2 false true)].foldl
      (fun acc K => acc + K * tabRho t.n t * Kᴴ) 0
      = proj t.n (Zq q false) * tabRho t.n t * proj t.n (Zq q false)
        + pauliMat t.n (Xq q) * (proj t.n (Zq q true) * tabRho t.n t * proj t.n (Zq q true)) * pauliMat t.n (Xq q) := by
    simp only [List.foldl]
    rw [hK0, resetKraus1_eq t.n q hq, proj_Zq_hermitian, Matrix.conjTranspose_mul, proj_Zq_hermitian, hX,
      proj_Zq_mul_Xq t.n q hq false, zero_add]
    congr 1
    have e : pauliMat t.n (Xq q) * proj t.n (Zq q false) = proj t.n (Zq q true) * pauliMat t.n (Xq q) :=
      (proj_Zq_mul_Xq t.n q hq true).symm
    rw [e]
    simp only [Matrix.mul_assoc, Bool.not_false]
  unfold applyChannel resetKraus
  simp only
  rw [hsum]
  cases hrr : (t.measScratch q).r with
  | false =>
    rw [hrr] at hf1 hf2 hz1 hz2
    have e : t.resetZ q false o = t := by simp [Tab.resetZ, Tab.zMeasure, hp, hrr]
    rw [e, hf1, hf2]
    have hz : proj t.n (Zq q true) * tabRho t.n t = 0 := hz1
    rw [hz, Matrix.zero_mul, Matrix.mul_zero, Matrix.zero_mul, add_zero]
    exact herm_of_hermitian _ (tabRho_hermitian t hv)
  | true =>
    rw [hrr] at hf1 hf2 hz1 hz2
    have e : t.resetZ q false o = t.xGate q := by simp [Tab.resetZ, Tab.zMeasure, hp, hrr]
    have hz : proj t.n (Zq q false) * tabRho t.n t = 0 := hz1
    rw [e, hf1, hf2, hz, Matrix.zero_mul, zero_add]
    have hg := rho_tab_gate t (Gate.X q) hq
    have hgm : gateMat t.n (Gate.X q) = pauliMat t.n (Xq q) := oneQ_sigmaX t.n q hq
    rw [hgm, hX] at hg
    have hh : (pauliMat t.n (Xq q) * tabRho t.n t * pauliMat t.n (Xq q))ᴴ
        = pauliMat t.n (Xq q) * tabRho t.n t * pauliMat t.n (Xq q) := by
      have := conj_hermitian (pauliMat t.n (Xq q)) (tabRho t.n t) (tabRho_hermitian t hv)
      rw [hX] at this
      exact this
    rw [herm_of_hermitian _ hh]
    exact hg

/-! ### the forced-outcome rule tolerates rounding -/

/-- on the state of a tableau the two clipped probabilities are exactly (½, ½), (1, 0) or (0, 1) -/
theorem probOf_tab_cases (t : Tab) (hv : t.Valid) (hr : t.StabReal) (q : Nat) (hq : q < t.n) :
    (probOf (tabRho t.n t) (projZ t.n q false) = 1 / 2 ∧ probOf (tabRho t.n t) (projZ t.n q true) = 1 / 2) ∨
    (probOf (tabRho t.n t) (projZ t.n q false) = 1 ∧ probOf (tabRho t.n t) (projZ t.n q true) = 0) ∨
    (probOf (tabRho t.n t) (projZ t.n q false) = 0 ∧ probOf (tabRho t.n t) (projZ t.n q true) = 1) := by
  rw [projZ_eq _ _ hq, projZ_eq _ _ hq]
  cases hp : t.pivot q with
  | some p =>
    left
    exact ⟨probOf_of_trace _ _ (1 / 2) (by norm_num) (by rw [prob_random t hv hr q p false hq hp]; norm_num),
      probOf_of_trace _ _ (1 / 2) (by norm_num) (by rw [prob_random t hv hr q p true hq hp]; norm_num)⟩
  | none =>
    obtain ⟨ht1, ht0⟩ := prob_det t hv hr q hq hp
    right
    cases hrr : (t.measScratch q).r with
    | false =>
      rw [hrr] at ht1 ht0
      left
      exact ⟨probOf_of_trace _ _ 1 (by norm_num) (by rw [ht1]; norm_num),
        probOf_of_trace _ _ 0 (by norm_num) (by rw [show (true : Bool) = !false from rfl, ht0]; norm_num)⟩
    | true =>
      rw [hrr] at ht1 ht0
      right
      exact ⟨probOf_of_trace _ _ 0 (by norm_num) (by rw [show (false : Bool) = !true from rfl, ht0]; norm_num),
        probOf_of_trace _ _ 1 (by norm_num) (by rw [ht1]; norm_num)⟩

open Classical in
/-- **The `np.isclose` rule of the forced settings is stable**: if the exact probabilities are (½,½), (1,0) or (0,1) and
    the computed ones are within `1e-8` of them, the forced-0 / forced-1 outcome is the one computed from the exact
    values (this is what the repair of D39 buys; the comparison `> 0` of the old code was not stable). -/
theorem outcomeOf_forced_robust (d : Det) (hd : d ≠ .prob) (p0 p1 q0 q1 : ℝ) (script : List Bool)
    (hp : (p0 = 1 / 2 ∧ p1 = 1 / 2) ∨ (p0 = 1 ∧ p1 = 0) ∨ (p0 = 0 ∧ p1 = 1))
    (h0 : |q0 - p0| ≤ 1 / 100000000) (h1 : |q1 - p1| ≤ 1 / 100000000) :
    outcomeOf d q0 q1 script = outcomeOf d p0 p1 script := by
  have key : ∀ p q : ℝ, (p = 0 ∨ p = 1 / 2 ∨ p = 1) → |q - p| ≤ 1 / 100000000 → (isclose0 q ↔ isclose0 p) := by
    intro p q hp hq
    unfold isclose0
    rw [abs_le] at hq
    rcases hp with rfl | rfl | rfl
    · simp only [sub_zero] at hq
      constructor
      · intro _; norm_num
      · intro _; exact abs_le.mpr hq
    · constructor
      · intro h; rw [abs_le] at h; exfalso; linarith [h.2, hq.1]
      · intro h; rw [abs_le] at h; exfalso; linarith [h.2]
    · constructor
      · intro h; rw [abs_le] at h; exfalso; linarith [h.2, hq.1]
      · intro h; rw [abs_le] at h; exfalso; linarith [h.2]
  have c0 : p0 = 0 ∨ p0 = 1 / 2 ∨ p0 = 1 := by
    rcases hp with h | h | h
    · exact Or.inr (Or.inl h.1)
    · exact Or.inr (Or.inr h.1)
    · exact Or.inl h.1
  have c1 : p1 = 0 ∨ p1 = 1 / 2 ∨ p1 = 1 := by
    rcases hp with h | h | h
    · exact Or.inr (Or.inl h.2)
    · exact Or.inl h.2
    · exact Or.inr (Or.inr h.2)
  cases d with
  | zero =>
    show (decide (isclose0 q0), script) = (decide (isclose0 p0), script)
    rw [decide_eq_decide.mpr (key p0 q0 c0 h0)]
  | one =>
    show (decide (¬ isclose0 q1), script) = (decide (¬ isclose0 p1), script)
    rw [decide_eq_decide.mpr (not_congr (key p1 q1 c1 h1))]
  | prob => exact absurd rfl hd

end Hilbert
end Graphiq
