/-
  Proofs/C17BridgeUhlmann.lean — for simultaneously diagonalisable pairs `ρ = U diag(p) U†`, `σ = U diag(q) U†`
  (`U` unitary, `p, q ≥ 0`) the Uhlmann fidelity `(tr √(√ρ σ √ρ))²` and the trace distance `½ tr √((ρ−σ)†(ρ−σ))` — with
  `√` the positive semidefinite square root of Mathlib (`CFC.sqrt` on matrices) — are the closed forms
  `F p q = (Σ √(p_i q_i))²` and `T p q = ½ Σ |p_i − q_i|` of Proofs/Commuting.lean.  Any dimension.
-/
import GraphiqModel.Proofs.Commuting
import Mathlib.Analysis.Matrix.Order
import Mathlib.Analysis.SpecialFunctions.ContinuousFunctionalCalculus.Rpow.Basic
import Mathlib.Analysis.Complex.Order
namespace Graphiq
namespace C17B
open Matrix
open scoped MatrixOrder ComplexOrder

variable {ι : Type} [Fintype ι] [DecidableEq ι]

/-- the diagonal matrix of a real vector -/
noncomputable def rdiag (d : ι → ℝ) : Matrix ι ι ℂ := Matrix.diagonal fun i => ((d i : ℝ) : ℂ)

theorem rdiag_mul (a b : ι → ℝ) : rdiag a * rdiag b = rdiag (fun i => a i * b i) := by
  unfold rdiag
  rw [Matrix.diagonal_mul_diagonal]
  congr 1; funext i; push_cast; rfl

theorem rdiag_sub (a b : ι → ℝ) : rdiag a - rdiag b = rdiag (fun i => a i - b i) := by
  unfold rdiag
  rw [Matrix.diagonal_sub]
  congr 1; funext i; push_cast; rfl

theorem rdiag_conjTranspose (a : ι → ℝ) : (rdiag a)ᴴ = rdiag a := by
  unfold rdiag
  rw [Matrix.diagonal_conjTranspose]
  congr 1; funext i; simp

omit [Fintype ι] in
theorem rdiag_psd (d : ι → ℝ) (hd : ∀ i, 0 ≤ d i) : (rdiag d).PosSemidef := by
  unfold rdiag
  apply Matrix.PosSemidef.diagonal
  intro i
  show (0 : ℂ) ≤ ((d i : ℝ) : ℂ)
  exact Complex.zero_le_real.mpr (hd i)

theorem trace_rdiag (d : ι → ℝ) : Matrix.trace (rdiag d) = ((∑ i, d i : ℝ) : ℂ) := by
  unfold rdiag
  rw [Matrix.trace_diagonal]; push_cast; rfl

/-- the matrix `U diag(d) U†` -/
noncomputable def conjDiag (U : Matrix ι ι ℂ) (d : ι → ℝ) : Matrix ι ι ℂ := U * rdiag d * Uᴴ

theorem conjDiag_mul (U : Matrix ι ι ℂ) (hU : Uᴴ * U = 1) (a b : ι → ℝ) :
    conjDiag U a * conjDiag U b = conjDiag U (fun i => a i * b i) := by
  unfold conjDiag
  have : U * rdiag a * Uᴴ * (U * rdiag b * Uᴴ) = U * (rdiag a * (Uᴴ * U) * rdiag b) * Uᴴ := by
    simp only [Matrix.mul_assoc]
  rw [this, hU, Matrix.mul_one, rdiag_mul]

theorem conjDiag_sub (U : Matrix ι ι ℂ) (a b : ι → ℝ) : conjDiag U a - conjDiag U b = conjDiag U (fun i => a i - b i) := by
  unfold conjDiag
  rw [← rdiag_sub, Matrix.mul_sub, Matrix.sub_mul]

theorem conjDiag_conjTranspose (U : Matrix ι ι ℂ) (a : ι → ℝ) : (conjDiag U a)ᴴ = conjDiag U a := by
  unfold conjDiag
  rw [Matrix.conjTranspose_mul, Matrix.conjTranspose_mul, Matrix.conjTranspose_conjTranspose, rdiag_conjTranspose,
    Matrix.mul_assoc]

theorem trace_conjDiag (U : Matrix ι ι ℂ) (hU : Uᴴ * U = 1) (d : ι → ℝ) :
    Matrix.trace (conjDiag U d) = ((∑ i, d i : ℝ) : ℂ) := by
  unfold conjDiag
  rw [Matrix.trace_mul_comm, ← Matrix.mul_assoc, hU, Matrix.one_mul, trace_rdiag]

/-- **the positive semidefinite square root of `U diag(d) U†` is `U diag(√d) U†`** -/
theorem sqrt_conjDiag (U : Matrix ι ι ℂ) (hU : Uᴴ * U = 1) (d : ι → ℝ) (hd : ∀ i, 0 ≤ d i) :
    CFC.sqrt (conjDiag U d) = conjDiag U (fun i => Real.sqrt (d i)) := by
  apply CFC.sqrt_unique
  · rw [conjDiag_mul U hU]
    congr 1
    funext i
    exact Real.mul_self_sqrt (hd i)
  · rw [Matrix.nonneg_iff_posSemidef]
    exact (rdiag_psd _ (fun i => Real.sqrt_nonneg _)).mul_mul_conjTranspose_same U

/-- Uhlmann fidelity `(tr √(√ρ σ √ρ))²` -/
noncomputable def uhlmann (ρ σ : Matrix ι ι ℂ) : ℂ :=
  (Matrix.trace (CFC.sqrt (CFC.sqrt ρ * σ * CFC.sqrt ρ))) ^ 2

/-- trace distance `½ tr |ρ − σ|`, `|A| = √(A†A)` -/
noncomputable def traceDist (ρ σ : Matrix ι ι ℂ) : ℂ :=
  (1 / 2 : ℂ) * Matrix.trace (CFC.sqrt ((ρ - σ)ᴴ * (ρ - σ)))

open Graphiq.Commuting in
/-- **Uhlmann fidelity of a commuting pair is the closed form `F`** -/
theorem uhlmann_commuting (U : Matrix ι ι ℂ) (hU : Uᴴ * U = 1) (p q : ι → ℝ) (hp : ∀ i, 0 ≤ p i) (hq : ∀ i, 0 ≤ q i) :
    uhlmann (conjDiag U p) (conjDiag U q) = ((F p q : ℝ) : ℂ) := by
  unfold uhlmann
  rw [sqrt_conjDiag U hU p hp, conjDiag_mul U hU, conjDiag_mul U hU,
    sqrt_conjDiag U hU _ (fun i => mul_nonneg (mul_nonneg (Real.sqrt_nonneg _) (hq i)) (Real.sqrt_nonneg _)),
    trace_conjDiag U hU]
  unfold F bc
  push_cast
  congr 1
  apply Finset.sum_congr rfl
  intro i _
  congr 1
  have : Real.sqrt (p i) * q i * Real.sqrt (p i) = p i * q i := by
    have := Real.mul_self_sqrt (hp i)
    calc Real.sqrt (p i) * q i * Real.sqrt (p i) = (Real.sqrt (p i) * Real.sqrt (p i)) * q i := by ring
      _ = p i * q i := by rw [this]
  rw [this]

open Graphiq.Commuting in
/-- **trace distance of a commuting pair is the closed form `T`** -/
theorem traceDist_commuting (U : Matrix ι ι ℂ) (hU : Uᴴ * U = 1) (p q : ι → ℝ) :
    traceDist (conjDiag U p) (conjDiag U q) = ((T p q : ℝ) : ℂ) := by
  unfold traceDist
  rw [conjDiag_sub, conjDiag_conjTranspose, conjDiag_mul U hU,
    sqrt_conjDiag U hU _ (fun i => mul_self_nonneg _), trace_conjDiag U hU]
  unfold T
  push_cast
  congr 2
  funext i
  congr 1
  rw [← sq, Real.sqrt_sq_eq_abs]

end C17B
end Graphiq
