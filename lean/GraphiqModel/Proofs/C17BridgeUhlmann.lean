/-
  Proofs/C17BridgeUhlmann.lean — for simultaneously diagonalisable pairs `ρ = U diag(p) U†`, `σ = U diag(q) U†`
  (`U` unitary, `p, q ≥ 0`) the Uhlmann fidelity `(tr √(√ρ σ √ρ))²` and the trace distance `½ tr √((ρ−σ)†(ρ−σ))` — with
  `√` the positive semidefinite square root of Mathlib (`CFC.sqrt` on matrices) — are the closed forms
  `F p q = (Σ √(p_i q_i))²` and `T p q = ½ Σ |p_i − q_i|` of Proofs/Commuting.lean.  Any dimension.
-/
import GraphiqModel.Proofs.Commuting
import Mathlib.Analysis.Matrix.Order
import Mathlib.Analysis.SpecialFunctions.ContinuousFunctionalCalculus.Rpow.Basic
import Mathlib.Analysis.Complex.Order
import Mathlib.Analysis.Matrix.HermitianFunctionalCalculus
import Mathlib.LinearAlgebra.Matrix.Charpoly.Basic
namespace Graphiq
namespace C17B
open Matrix
open scoped MatrixOrder ComplexOrder

variable {ι : Type} [Fintype ι] [DecidableEq ι]

/-- the diagonal matrix of a real vector -/
noncomputable def rdiag (d : ι → ℝ) : Matrix ι ι ℂ := Matrix.diagonal fun i => ((d i : ℝ) : ℂ)

theorem rdiag_mul (a b : ι → ℝ) : rdiag a * rdiag b = rdiag (fun i => a i * b i) := by
  unfold rdiag
  rw [Matrix.diagonal_mul_diagonal]
  congr 1; funext i; push_cast; rfl

theorem rdiag_sub (a b : ι → ℝ) : rdiag a - rdiag b = rdiag (fun i => a i - b i) := by
  unfold rdiag
  rw [Matrix.diagonal_sub]
  congr 1; funext i; push_cast; rfl

theorem rdiag_conjTranspose (a : ι → ℝ) : (rdiag a)ᴴ = rdiag a := by
  unfold rdiag
  rw [Matrix.diagonal_conjTranspose]
  congr 1; funext i; simp

omit [Fintype ι] in
theorem rdiag_psd (d : ι → ℝ) (hd : ∀ i, 0 ≤ d i) : (rdiag d).PosSemidef := by
  unfold rdiag
  apply Matrix.PosSemidef.diagonal
  intro i
  show (0 : ℂ) ≤ ((d i : ℝ) : ℂ)
  exact Complex.zero_le_real.mpr (hd i)

theorem trace_rdiag (d : ι → ℝ) : Matrix.trace (rdiag d) = ((∑ i, d i : ℝ) : ℂ) := by
  unfold rdiag
  rw [Matrix.trace_diagonal]; push_cast; rfl

/-- the matrix `U diag(d) U†` -/
noncomputable def conjDiag (U : Matrix ι ι ℂ) (d : ι → ℝ) : Matrix ι ι ℂ := U * rdiag d * Uᴴ

theorem conjDiag_mul (U : Matrix ι ι ℂ) (hU : Uᴴ * U = 1) (a b : ι → ℝ) :
    conjDiag U a * conjDiag U b = conjDiag U (fun i => a i * b i) := by
  unfold conjDiag
  have : U * rdiag a * Uᴴ * (U * rdiag b * Uᴴ) = U * (rdiag a * (Uᴴ * U) * rdiag b) * Uᴴ := by
    simp only [Matrix.mul_assoc]
  rw [this, hU, Matrix.mul_one, rdiag_mul]

theorem conjDiag_sub (U : Matrix ι ι ℂ) (a b : ι → ℝ) : conjDiag U a - conjDiag U b = conjDiag U (fun i => a i - b i) := by
  unfold conjDiag
  rw [← rdiag_sub, Matrix.mul_sub, Matrix.sub_mul]

theorem conjDiag_conjTranspose (U : Matrix ι ι ℂ) (a : ι → ℝ) : (conjDiag U a)ᴴ = conjDiag U a := by
  unfold conjDiag
  rw [Matrix.conjTranspose_mul, Matrix.conjTranspose_mul, Matrix.conjTranspose_conjTranspose, rdiag_conjTranspose,
    Matrix.mul_assoc]

theorem trace_conjDiag (U : Matrix ι ι ℂ) (hU : Uᴴ * U = 1) (d : ι → ℝ) :
    Matrix.trace (conjDiag U d) = ((∑ i, d i : ℝ) : ℂ) := by
  unfold conjDiag
  rw [Matrix.trace_mul_comm, ← Matrix.mul_assoc, hU, Matrix.one_mul, trace_rdiag]

/-- **the positive semidefinite square root of `U diag(d) U†` is `U diag(√d) U†`** -/
theorem sqrt_conjDiag (U : Matrix ι ι ℂ) (hU : Uᴴ * U = 1) (d : ι → ℝ) (hd : ∀ i, 0 ≤ d i) :
    CFC.sqrt (conjDiag U d) = conjDiag U (fun i => Real.sqrt (d i)) := by
  apply CFC.sqrt_unique
  · rw [conjDiag_mul U hU]
    congr 1
    funext i
    exact Real.mul_self_sqrt (hd i)
  · rw [Matrix.nonneg_iff_posSemidef]
    exact (rdiag_psd _ (fun i => Real.sqrt_nonneg _)).mul_mul_conjTranspose_same U

/-- Uhlmann fidelity `(tr √(√ρ σ √ρ))²` -/
noncomputable def uhlmann (ρ σ : Matrix ι ι ℂ) : ℂ :=
  (Matrix.trace (CFC.sqrt (CFC.sqrt ρ * σ * CFC.sqrt ρ))) ^ 2

/-- trace distance `½ tr |ρ − σ|`, `|A| = √(A†A)` -/
noncomputable def traceDist (ρ σ : Matrix ι ι ℂ) : ℂ :=
  (1 / 2 : ℂ) * Matrix.trace (CFC.sqrt ((ρ - σ)ᴴ * (ρ - σ)))

open Graphiq.Commuting in
/-- **Uhlmann fidelity of a commuting pair is the closed form `F`** -/
theorem uhlmann_commuting (U : Matrix ι ι ℂ) (hU : Uᴴ * U = 1) (p q : ι → ℝ) (hp : ∀ i, 0 ≤ p i) (hq : ∀ i, 0 ≤ q i) :
    uhlmann (conjDiag U p) (conjDiag U q) = ((F p q : ℝ) : ℂ) := by
  unfold uhlmann
  rw [sqrt_conjDiag U hU p hp, conjDiag_mul U hU, conjDiag_mul U hU,
    sqrt_conjDiag U hU _ (fun i => mul_nonneg (mul_nonneg (Real.sqrt_nonneg _) (hq i)) (Real.sqrt_nonneg _)),
    trace_conjDiag U hU]
  unfold F bc
  push_cast
  congr 1
  apply Finset.sum_congr rfl
  intro i _
  congr 1
  have : Real.sqrt (p i) * q i * Real.sqrt (p i) = p i * q i := by
    have := Real.mul_self_sqrt (hp i)
    calc Real.sqrt (p i) * q i * Real.sqrt (p i) = (Real.sqrt (p i) * Real.sqrt (p i)) * q i := by ring
      _ = p i * q i := by rw [this]
  rw [this]

open Graphiq.Commuting in
/-- **trace distance of a commuting pair is the closed form `T`** -/
theorem traceDist_commuting (U : Matrix ι ι ℂ) (hU : Uᴴ * U = 1) (p q : ι → ℝ) :
    traceDist (conjDiag U p) (conjDiag U q) = ((T p q : ℝ) : ℂ) := by
  unfold traceDist
  rw [conjDiag_sub, conjDiag_conjTranspose, conjDiag_mul U hU,
    sqrt_conjDiag U hU _ (fun i => mul_self_nonneg _), trace_conjDiag U hU]
  unfold T
  push_cast
  congr 2
  funext i
  congr 1
  rw [← sq, Real.sqrt_sq_eq_abs]

/-! ### a pure argument: the shortcut `tr(ρσ)` of the code is the Uhlmann fidelity -/


/-- the pure state `|ψ⟩⟨ψ|` -/
noncomputable def ketBra (ψ : ι → ℂ) : Matrix ι ι ℂ := vecMulVec ψ (star ψ)

theorem ketBra_mul_self (ψ : ι → ℂ) (hψ : star ψ ⬝ᵥ ψ = 1) : ketBra ψ * ketBra ψ = ketBra ψ := by
  unfold ketBra
  rw [vecMulVec_mul_vecMulVec, hψ, one_smul]

theorem ketBra_psd (ψ : ι → ℂ) : (ketBra ψ).PosSemidef := posSemidef_vecMulVec_self_star ψ

theorem trace_ketBra (ψ : ι → ℂ) (hψ : star ψ ⬝ᵥ ψ = 1) : Matrix.trace (ketBra ψ) = 1 := by
  unfold ketBra
  rw [trace_vecMulVec, dotProduct_comm, hψ]

/-- `ρ σ ρ = ⟨ψ|σ|ψ⟩ ρ` for `ρ = |ψ⟩⟨ψ|` -/
theorem ketBra_sandwich (ψ : ι → ℂ) (σ : Matrix ι ι ℂ) :
    ketBra ψ * σ * ketBra ψ = (star ψ ⬝ᵥ σ *ᵥ ψ) • ketBra ψ := by
  unfold ketBra
  rw [vecMulVec_mul, vecMulVec_mul_vecMulVec, vecMulVec_smul, dotProduct_mulVec]

theorem trace_ketBra_mul (ψ : ι → ℂ) (σ : Matrix ι ι ℂ) : Matrix.trace (ketBra ψ * σ) = star ψ ⬝ᵥ σ *ᵥ ψ := by
  unfold ketBra
  rw [vecMulVec_mul, trace_vecMulVec, dotProduct_comm, dotProduct_mulVec]

/-- **the pure-state shortcut is the Uhlmann fidelity**: for `ρ = |ψ⟩⟨ψ|`, `⟨ψ|ψ⟩ = 1`, and `σ` positive semidefinite,
    `(tr √(√ρ σ √ρ))² = tr(ρ σ) = ⟨ψ|σ|ψ⟩` -/
theorem uhlmann_pure_left (ψ : ι → ℂ) (hψ : star ψ ⬝ᵥ ψ = 1) (σ : Matrix ι ι ℂ) (hσ : σ.PosSemidef) :
    uhlmann (ketBra ψ) σ = Matrix.trace (ketBra ψ * σ) := by
  have h0 := hσ.dotProduct_mulVec_nonneg ψ
  obtain ⟨s, hs⟩ : ∃ s : ℂ, s = star ψ ⬝ᵥ σ *ᵥ ψ := ⟨_, rfl⟩
  rw [← hs] at h0
  have hsre : s = ((s.re : ℝ) : ℂ) := by
    apply Complex.ext
    · simp
    · have := (Complex.le_def.mp h0).2; simp at this ⊢; exact this.symm
  have hre0 : 0 ≤ s.re := (Complex.le_def.mp h0).1
  have hsq : CFC.sqrt (ketBra ψ) = ketBra ψ :=
    CFC.sqrt_unique (ketBra_mul_self ψ hψ) (Matrix.nonneg_iff_posSemidef.mpr (ketBra_psd ψ))
  unfold uhlmann
  rw [hsq, ketBra_sandwich, trace_ketBra_mul, ← hs]
  have hroot : CFC.sqrt (s • ketBra ψ) = ((Real.sqrt s.re : ℝ) : ℂ) • ketBra ψ := by
    apply CFC.sqrt_unique
    · rw [smul_mul_smul_comm, ketBra_mul_self ψ hψ, ← Complex.ofReal_mul, Real.mul_self_sqrt hre0, ← hsre]
    · rw [Matrix.nonneg_iff_posSemidef]
      exact (ketBra_psd ψ).smul (Complex.zero_le_real.mpr (Real.sqrt_nonneg _))
  rw [hroot, Matrix.trace_smul, trace_ketBra ψ hψ, smul_eq_mul, mul_one, sq, ← Complex.ofReal_mul,
    Real.mul_self_sqrt hre0, ← hsre]


/-- the square root of a rank-one positive matrix `|φ⟩⟨φ|` has trace `‖φ‖` -/
theorem trace_sqrt_ketBra (φ : ι → ℂ) :
    (Matrix.trace (CFC.sqrt (ketBra φ))) ^ 2 = star φ ⬝ᵥ φ := by
  have h0 : (0 : ℂ) ≤ star φ ⬝ᵥ φ := dotProduct_star_self_nonneg φ
  obtain ⟨t, ht⟩ : ∃ t : ℂ, t = star φ ⬝ᵥ φ := ⟨_, rfl⟩
  rw [← ht] at h0 ⊢
  have htre : t = ((t.re : ℝ) : ℂ) := by
    apply Complex.ext
    · simp
    · have := (Complex.le_def.mp h0).2; simp at this ⊢; exact this.symm
  have hre0 : 0 ≤ t.re := (Complex.le_def.mp h0).1
  have hAA : ketBra φ * ketBra φ = t • ketBra φ := by
    unfold ketBra
    rw [vecMulVec_mul_vecMulVec, vecMulVec_smul, ht]
  by_cases hz : t.re = 0
  · -- `φ = 0`
    have ht0 : t = 0 := by rw [htre, hz]; simp
    have hφ : φ = 0 := by
      rw [ht] at ht0
      exact dotProduct_star_self_eq_zero.mp ht0
    have : ketBra φ = 0 := by unfold ketBra; rw [hφ]; simp
    rw [this, CFC.sqrt_zero, Matrix.trace_zero, ht0]; simp
  · have hpos : 0 < t.re := lt_of_le_of_ne hre0 (fun e => hz e.symm)
    have hroot : CFC.sqrt (ketBra φ) = (((1 / Real.sqrt t.re : ℝ)) : ℂ) • ketBra φ := by
      apply CFC.sqrt_unique
      · rw [smul_mul_smul_comm, hAA, smul_smul, ← Complex.ofReal_mul]
        have : (1 / Real.sqrt t.re * (1 / Real.sqrt t.re)) = 1 / t.re := by
          rw [div_mul_div_comm, one_mul, Real.mul_self_sqrt hre0]
        rw [this]
        nth_rewrite 2 [htre]
        rw [← Complex.ofReal_mul, one_div, inv_mul_cancel₀ hz]; simp
      · rw [Matrix.nonneg_iff_posSemidef]
        exact (ketBra_psd φ).smul (Complex.zero_le_real.mpr (by positivity))
    have htr : Matrix.trace (ketBra φ) = t := by
      unfold ketBra; rw [trace_vecMulVec, dotProduct_comm, ht]
    have key : ((1 / Real.sqrt t.re) * t.re) ^ 2 = t.re := by
      have hq : 0 < Real.sqrt t.re := Real.sqrt_pos.mpr hpos
      have hs := Real.mul_self_sqrt hre0
      have e : 1 / Real.sqrt t.re * t.re = Real.sqrt t.re := by
        nth_rewrite 2 [← hs]
        field_simp
      rw [e, sq, hs]
    rw [hroot, Matrix.trace_smul, htr, smul_eq_mul]
    have e2 : (((1 / Real.sqrt t.re : ℝ)) : ℂ) * t = (((1 / Real.sqrt t.re * t.re : ℝ)) : ℂ) := by
      rw [Complex.ofReal_mul, ← htre]
    rw [e2, ← Complex.ofReal_pow, key, ← htre]


/-- **… in the other argument position too**: for `σ` positive semidefinite and `ρ = |ψ⟩⟨ψ|`,
    `(tr √(√σ ρ √σ))² = tr(σ ρ) = ⟨ψ|σ|ψ⟩` -/
theorem uhlmann_pure_right (ψ : ι → ℂ) (σ : Matrix ι ι ℂ) (hσ : σ.PosSemidef) :
    uhlmann σ (ketBra ψ) = Matrix.trace (σ * ketBra ψ) := by
  have hσ0 : (0 : Matrix ι ι ℂ) ≤ σ := Matrix.nonneg_iff_posSemidef.mpr hσ
  have hrH : (CFC.sqrt σ)ᴴ = CFC.sqrt σ := (Matrix.nonneg_iff_posSemidef.mp (CFC.sqrt_nonneg σ)).1
  have hrr : CFC.sqrt σ * CFC.sqrt σ = σ := CFC.sqrt_mul_sqrt_self σ hσ0
  have hsand : CFC.sqrt σ * ketBra ψ * CFC.sqrt σ = ketBra (CFC.sqrt σ *ᵥ ψ) := by
    unfold ketBra
    rw [mul_vecMulVec, vecMulVec_mul, star_mulVec, hrH]
  unfold uhlmann
  rw [hsand, trace_sqrt_ketBra, star_mulVec, hrH, ← dotProduct_mulVec, mulVec_mulVec, hrr]
  unfold ketBra
  rw [mul_vecMulVec, trace_vecMulVec, dotProduct_comm]


/-! ### general facts -/


/-- **`F(ρ, ρ) = (tr ρ)²`**, in particular 1 for a density matrix -/
theorem uhlmann_self (ρ : Matrix ι ι ℂ) (hρ : ρ.PosSemidef) : uhlmann ρ ρ = (Matrix.trace ρ) ^ 2 := by
  have h0 : (0 : Matrix ι ι ℂ) ≤ ρ := Matrix.nonneg_iff_posSemidef.mpr hρ
  unfold uhlmann
  have e : CFC.sqrt ρ * ρ * CFC.sqrt ρ = ρ * ρ := by
    have hrr := CFC.sqrt_mul_sqrt_self ρ h0
    calc CFC.sqrt ρ * ρ * CFC.sqrt ρ = CFC.sqrt ρ * (CFC.sqrt ρ * CFC.sqrt ρ) * CFC.sqrt ρ := by rw [hrr]
      _ = (CFC.sqrt ρ * CFC.sqrt ρ) * (CFC.sqrt ρ * CFC.sqrt ρ) := by simp only [Matrix.mul_assoc]
      _ = ρ * ρ := by rw [hrr]
  rw [e, CFC.sqrt_mul_self ρ h0]

/-- the Uhlmann fidelity of positive semidefinite matrices is a nonnegative real number -/
theorem uhlmann_nonneg (ρ σ : Matrix ι ι ℂ) : 0 ≤ uhlmann ρ σ := by
  unfold uhlmann
  have h := (Matrix.nonneg_iff_posSemidef.mp (CFC.sqrt_nonneg (CFC.sqrt ρ * σ * CFC.sqrt ρ))).trace_nonneg
  exact pow_nonneg h 2


/-! ### symmetry -/


/-- the trace of the positive square root is the sum of the square roots of the eigenvalues -/
theorem trace_sqrt_eq_sum {A : Matrix ι ι ℂ} (hA : A.PosSemidef) :
    Matrix.trace (CFC.sqrt A) = ∑ i, ((Real.sqrt (hA.1.eigenvalues i) : ℝ) : ℂ) := by
  rw [CFC.sqrt_eq_cfc, cfc_nnreal_eq_real _ A, hA.1.cfc_eq]
  simp only [IsHermitian.cfc, Unitary.conjStarAlgAut_apply]
  rw [Matrix.trace_mul_comm, ← Matrix.mul_assoc]
  simp [Matrix.trace_diagonal]
  apply Finset.sum_congr rfl
  intro i _
  rw [max_eq_left (hA.eigenvalues_nonneg i)]


/-- **the Uhlmann fidelity is symmetric** (any dimension): `(tr √(√ρ σ √ρ))² = (tr √(√σ ρ √σ))²` — the two matrices are
    `(AB)(AB)†` and `(AB)†(AB)` for `A = √ρ`, `B = √σ`, which have the same characteristic polynomial -/
theorem uhlmann_symm (ρ σ : Matrix ι ι ℂ) (hρ : ρ.PosSemidef) (hσ : σ.PosSemidef) : uhlmann ρ σ = uhlmann σ ρ := by
  have hρ0 : (0 : Matrix ι ι ℂ) ≤ ρ := Matrix.nonneg_iff_posSemidef.mpr hρ
  have hσ0 : (0 : Matrix ι ι ℂ) ≤ σ := Matrix.nonneg_iff_posSemidef.mpr hσ
  have hAH : (CFC.sqrt ρ)ᴴ = CFC.sqrt ρ := (Matrix.nonneg_iff_posSemidef.mp (CFC.sqrt_nonneg ρ)).1
  have hBH : (CFC.sqrt σ)ᴴ = CFC.sqrt σ := (Matrix.nonneg_iff_posSemidef.mp (CFC.sqrt_nonneg σ)).1
  have hAA := CFC.sqrt_mul_sqrt_self ρ hρ0
  have hBB := CFC.sqrt_mul_sqrt_self σ hσ0
  have e1 : CFC.sqrt ρ * σ * CFC.sqrt ρ = (CFC.sqrt ρ * CFC.sqrt σ) * (CFC.sqrt ρ * CFC.sqrt σ)ᴴ := by
    rw [Matrix.conjTranspose_mul, hAH, hBH]
    nth_rewrite 1 [← hBB]
    simp only [Matrix.mul_assoc]
  have e2 : CFC.sqrt σ * ρ * CFC.sqrt σ = (CFC.sqrt ρ * CFC.sqrt σ)ᴴ * (CFC.sqrt ρ * CFC.sqrt σ) := by
    rw [Matrix.conjTranspose_mul, hAH, hBH]
    nth_rewrite 1 [← hAA]
    simp only [Matrix.mul_assoc]
  have p1 : (CFC.sqrt ρ * σ * CFC.sqrt ρ).PosSemidef := by rw [e1]; exact posSemidef_self_mul_conjTranspose _
  have p2 : (CFC.sqrt σ * ρ * CFC.sqrt σ).PosSemidef := by rw [e2]; exact posSemidef_conjTranspose_mul_self _
  have hchar : (CFC.sqrt ρ * σ * CFC.sqrt ρ).charpoly = (CFC.sqrt σ * ρ * CFC.sqrt σ).charpoly := by
    rw [e1, e2]; exact Matrix.charpoly_mul_comm _ _
  have heig : p1.1.eigenvalues = p2.1.eigenvalues := (Matrix.IsHermitian.eigenvalues_eq_eigenvalues_iff p1.1 p2.1).2 hchar
  unfold uhlmann
  rw [trace_sqrt_eq_sum p1, trace_sqrt_eq_sum p2, heig]


end C17B
end Graphiq
