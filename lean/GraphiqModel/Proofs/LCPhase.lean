/-
  Proofs/LCPhase.lean — `_phase_correction` inside `converter_gate_list`, function by function.

  `converterGateListR` / `lcCheckR` compute the phase correction at specification level and validate through `isGraphState`;
  `converterGateListF` / `lcCheckF` mirror the Python (`S2G.phaseCorrection`: canonical forms, `run_circuit`, exact inverse of the X
  part, `z_ops = x_inv @ phase_diff`; validation by canonical forms).  Here: for every valid `Q` the function-level phase correction
  returns exactly the specification-level list of `Z` gates (`phaseCorrection_of_valid`), hence `converterGateListF` and `lcCheckF`
  return what `converterGateListR` and `lcCheckR` return (`lcCheckF_eq`).
-/
import GraphiqModel.Proofs.LCTableaux2
namespace Graphiq.LC
open Graphiq PRow Tab Graphiq.TabSpec

/-! ### the graph state of `B` with prescribed signs -/

/-- the graph-state tableau of `B` with the sign of the generator of qubit `k` set to `s k` -/
def signedGraphTab (n : Nat) (B : Adj) (s : Nat → Bool) : Tab :=
  { n := n, row := fun i => if i < n then PRow.Zq i else { graphGen B (i - n) with r := s (i - n) } }

theorem signedGraphTab_sameBits (n : Nat) (B : Adj) (s : Nat → Bool) (i : Nat) :
    SameBits n ((signedGraphTab n B s).row i) ((graphTab n B).row i) := by
  intro j _
  show ((if i < n then PRow.Zq i else { graphGen B (i - n) with r := s (i - n) }).x j =
      (if i < n then PRow.Zq i else graphGen B (i - n)).x j) ∧
    ((if i < n then PRow.Zq i else { graphGen B (i - n) with r := s (i - n) }).z j =
      (if i < n then PRow.Zq i else graphGen B (i - n)).z j)
  split <;> exact ⟨rfl, rfl⟩

theorem signedGraphTab_valid (n : Nat) (B : Adj) (s : Nat → Bool) (hB : Simple n B) : (signedGraphTab n B s).Valid := by
  intro i k hi hk
  have := graphTab_valid n B hB i k hi hk
  show sp n ((signedGraphTab n B s).row i) ((signedGraphTab n B s).row k) = decide (i + n = k ∨ k + n = i)
  rw [sp_congr n _ _ _ _ (signedGraphTab_sameBits n B s i) (signedGraphTab_sameBits n B s k)]
  exact this

theorem signedGraphTab_real (n : Nat) (B : Adj) (s : Nat → Bool) : (signedGraphTab n B s).StabReal := by
  intro i _ _
  show (if i < n then PRow.Zq i else { graphGen B (i - n) with r := s (i - n) }).ip = false
  split <;> rfl

theorem signedGraphTab_stab (n : Nat) (B : Adj) (s : Nat → Bool) (k : Nat) :
    (signedGraphTab n B s).stab k = { graphGen B k with r := s k } := by
  show (if k + n < n then PRow.Zq (k + n) else { graphGen B (k + n - n) with r := s (k + n - n) }) = _
  rw [if_neg (by omega), Nat.add_sub_cancel]

/-- in the (signed) graph-state group the Z part is determined by the X part: `z = B x` -/
theorem z_of_x (n : Nat) (B : Adj) (s : Nat → Bool) (P : PRow) (hP : Grp (signedGraphTab n B s) P) (j : Nat) (hj : j < n) :
    P.z j = parityTo n fun k => P.x k && B k j := by
  unfold Grp at hP
  have hn : (signedGraphTab n B s).n = n := rfl
  rw [hn] at hP
  induction hP with
  | one =>
    show false = _
    rw [parityTo_zero]; intro k _; rfl
  | gen i hi =>
    rw [signedGraphTab_stab]
    show B i j = parityTo n fun k => decide (k = i) && B k j
    rw [parityTo_single n i (fun k => B k j) hi]
  | mul a b _ _ iha ihb =>
    show xor (a.z j) (b.z j) = parityTo n fun k => xor (a.x k) (b.x k) && B k j
    rw [iha, ihb, ← parityTo_xor]
    apply parityTo_congr
    intro k _
    cases a.x k <;> cases b.x k <;> cases B k j <;> rfl
  | eqv a b _ hab iha =>
    rw [← (hab.1 j hj).2, iha]
    apply parityTo_congr
    intro k hk
    rw [(hab.1 k hk).1]

/-! ### the function-level phase correction on a valid `Q` -/

theorem toGate_map_wf (n : Nat) (L : List (String × Nat)) (hL : ∀ g ∈ L, GoodName g.1 ∧ g.2 < n) :
    ∀ g, g ∈ L.map toGate → g.WF n := by
  intro g hg
  obtain ⟨g0, hg0, e⟩ := List.mem_map.mp hg
  rw [← e]; exact toGate_wf n g0 (hL g0 hg0).2

/-- **`_phase_correction` on the gates of a valid `Q` returns the `Z` gates on the qubits whose generator carries the sign `−`** —
    the list the specification-level model computes -/
theorem phaseCorrection_of_valid (n : Nat) (A B : Adj) (hA : Simple n A) (hB : Simple n B) (v : List Bool)
    (hq : ∀ j k, j < n → k < n → equation n A B (vget v) j k = false) (hv : isValidClifford n v = true) :
    ∃ t1, runGates (graphTab n A) (qGates n v) = .ok t1 ∧
      S2G.phaseCorrection (graphSTab n A) (graphSTab n B) ((qGates n v).map toGate) =
        .ok (((List.range n).filter fun q => groupSign t1 (graphGen B q) == some true).map Gate.Z) := by
  obtain ⟨t1, e1, hn1, hv1, hr1, hK⟩ := gates_map_state_up_to_signs n A B hA hB v hq hv
  refine ⟨t1, e1, ?_⟩
  -- the signs
  let sfun : Nat → Bool := fun k => groupSign t1 (graphGen B k) == some true
  have hsign : ∀ k, k < n → Grp t1 { graphGen B k with r := sfun k } := by
    intro k hk
    rcases hK k hk with h | h
    · have hs := groupSign_complete t1 hv1 hr1 _ _ rfl h (sameBits_refl _ _)
      have : sfun k = false := by simp only [sfun]; rw [hs]; rfl
      rw [this]; exact h
    · have hs := groupSign_complete t1 hv1 hr1 (graphGen B k) (negate (graphGen B k)) rfl h (fun _ _ => ⟨rfl, rfl⟩)
      have : sfun k = true := by simp only [sfun]; rw [hs]; rfl
      rw [this]; exact h
  -- the transformed state has the group of the signed graph state
  have hT := grp_eq_of_gens_in t1 (signedGraphTab n B sfun) hv1 hr1 (signedGraphTab_valid n B sfun hB)
    (signedGraphTab_real n B sfun) hn1 (fun k hk => by rw [signedGraphTab_stab]; exact hsign k hk)
  have hgT := grp_isStabGrp (signedGraphTab n B sfun) (signedGraphTab_valid n B sfun hB) (signedGraphTab_real n B sfun)
  -- gate list
  have hgood := qGates_good n v hv
  have hwf : ∀ g, g ∈ (qGates n v).map toGate → g.WF n := toGate_map_wf n _ hgood
  have et := runGates_eq_runCircuit (graphTab n A) (qGates n v) hgood
  rw [e1] at et
  have ht : t1 = (graphTab n A).runCircuit ((qGates n v).map toGate) := Except.ok.inj et
  -- canonical forms of the two graph tableaux
  obtain ⟨c1, ec1, c1n, c1rows⟩ := canonicalForm_graphSTab n A hA.1
  obtain ⟨c2, ec2, _, c2rows⟩ := canonicalForm_graphSTab n B hB.1
  have gS := graphSTab_good n A hA.1
  obtain ⟨sS1, g1⟩ := STab.canonicalForm_spanEq (graphSTab n A) c1 gS ec1
  have hwf1 : ∀ g, g ∈ (qGates n v).map toGate → g.WF c1.n := fun g hg => c1n ▸ hwf g hg
  have tr := tracks_runCircuit c1 g1 _ hwf1
  have sU : STab.SpanEq (c1.runCircuit ((qGates n v).map toGate)) ((graphSTab n A).runCircuit ((qGates n v).map toGate)) :=
    runCircuit_spanEq c1 (graphSTab n A) _ hwf1 sS1.symm g1 gS
  -- … which is the stabilizer half of t1
  have sO : STab.SpanEq ((graphSTab n A).runCircuit ((qGates n v).map toGate)) (STab.ofTab t1) := by
    apply spanEq_of_rows _ _ (by rw [runCircuit_n]; exact hn1.symm)
    intro i hi
    rw [runCircuit_n] at hi ⊢
    have hi' : i < n := hi
    have r1 := runCircuit_row (graphSTab n A) _ hwf i hi'
    have r2 := ofTab_runCircuit_row n _ hwf (graphTab n A) rfl i hi'
    rw [← ht] at r2
    have r0 : EqOn n ((STab.ofTab (graphTab n A)).row i) ((graphSTab n A).row i) := by
      show EqOn n { (graphTab n A).row (i + n) with ip := false } ((graphSTab n A).row i)
      rw [graphTab_stab]
      refine ⟨fun j hj => ⟨rfl, ?_⟩, rfl, rfl⟩
      show A i j = (decide (j < n) && A i j)
      simp [hj]
    exact r1.trans ((actCirc_congr n _ hwf _ _ r0).symm.trans r2.symm)
  have hU : ∀ p, (c1.runCircuit ((qGates n v).map toGate)).Spn p ↔ Grp (signedGraphTab n B sfun) p := by
    intro p
    rw [← hT p, ← spn_ofTab_iff_grp t1 hr1 p]
    exact ⟨fun h => sO.sub p (sU.sub p h), fun h => sU.sup p (sO.sup p h)⟩
  have nU : (c1.runCircuit ((qGates n v).map toGate)).n = n := by rw [runCircuit_n]; exact c1n
  -- canonical form of the transformed state: X part = identity
  obtain ⟨c, ec, cn, sc, gc, xc⟩ := STab.canonicalForm_fullX (c1.runCircuit ((qGates n v).map toGate)) tr.good (by
    intro j hj
    rw [nU] at hj
    refine ⟨{ graphGen B j with r := sfun j }, (hU _).mpr ?_, fun k _ => rfl⟩
    have := grp_gen (signedGraphTab n B sfun) j hj
    rw [signedGraphTab_stab] at this
    exact this)
  have nC : c.n = n := cn.trans nU
  rw [nU] at xc
  have hcT : ∀ i, i < n → Grp (signedGraphTab n B sfun) (c.row i) := fun i hi =>
    (hU _).mp (sc.sup _ (STab.spn_gen c i (nC ▸ hi)))
  have rowx : ∀ i k, i < n → k < n → (c.row i).x k = decide (k = i) := fun i k hi hk => xc i k (nC ▸ hi) hk
  have rowz : ∀ i j, i < n → j < n → (c.row i).z j = B i j := by
    intro i j hi hj
    rw [z_of_x n B sfun (c.row i) (hcT i hi) j hj,
      parityTo_congr n _ (fun k => decide (k = i) && B k j) (fun k hk => by rw [rowx i k hi hk])]
    exact parityTo_single n i (fun k => B k j) hi
  have rowr : ∀ i, i < n → (c.row i).r = sfun i := by
    intro i hi
    have hgen : Grp (signedGraphTab n B sfun) { graphGen B i with r := sfun i } := by
      have := grp_gen (signedGraphTab n B sfun) i hi
      rw [signedGraphTab_stab] at this
      exact this
    have hb : SameBits n (c.row i) { graphGen B i with r := sfun i } :=
      fun j hj => ⟨rowx i j hi hj, rowz i j hi hj⟩
    rcases eqOn_or_negate n _ _ hb ((hgT.real _ (hcT i hi)).trans (hgT.real _ hgen).symm) with h | h
    · exact h.2.1
    · exact absurd (hgT.eqv _ _ (hcT i hi) h) (hgT.cons _ hgen)
  -- the exact inverse of the identity is the identity
  obtain ⟨M, eM, hM⟩ := gf2Inv_id c.n (fun i j => (c.row i).x j) (fun i j hi hj => by
    rw [nC] at hi hj
    rw [rowx i j hi hj]
    by_cases h : i = j
    · subst h; simp
    · have : ¬ (j = i) := fun e => h e.symm
      simp [h, this])
  unfold S2G.phaseCorrection
  rw [ec1]
  simp only []
  rw [ec2]
  simp only []
  rw [ec]
  simp only []
  rw [eM]
  simp only []
  rw [nC]
  congr 2
  apply List.filter_congr
  intro i hi
  have hi' := List.mem_range.mp hi
  rw [nC] at hM
  rw [parityTo_congr n _ (fun k => decide (i = k) && xor (c2.row k).r (c.row k).r)
    (fun k hk => by rw [hM i k hi' hk])]
  rw [S2G.parityTo_single'' n i (fun k => xor (c2.row k).r (c.row k).r) hi', (c2rows i hi').2.1, rowr i hi']
  show xor false (sfun i) = _
  simp [sfun]

/-! ### the two models of `converter_gate_list` / `lc_check` agree -/

/-- the specification-level phase correction on the gates of a valid `Q`, with its list exposed -/
theorem phaseCorrection_spec_of_valid (n : Nat) (A B : Adj) (hA : Simple n A) (hB : Simple n B) (v : List Bool)
    (hq : ∀ j k, j < n → k < n → equation n A B (vget v) j k = false) (hv : isValidClifford n v = true)
    (t1 : Tab) (e1 : runGates (graphTab n A) (qGates n v) = .ok t1) :
    phaseCorrection t1 B =
      some (((List.range n).filter fun q => groupSign t1 (graphGen B q) == some true).map fun q => ("Z", q)) := by
  obtain ⟨t1', e1', hn1, hv1, hr1, hK⟩ := gates_map_state_up_to_signs n A B hA hB v hq hv
  rw [e1] at e1'
  have : t1 = t1' := Except.ok.inj e1'
  subst this
  have hsign : ∀ k, k < n → ∃ s, groupSign t1 (graphGen B k) = some s := by
    intro k hk
    rcases hK k hk with h | h
    · exact ⟨false, groupSign_complete t1 hv1 hr1 _ _ rfl h (sameBits_refl _ _)⟩
    · exact ⟨true, groupSign_complete t1 hv1 hr1 (graphGen B k) (negate (graphGen B k)) rfl h (fun _ _ => ⟨rfl, rfl⟩)⟩
  unfold phaseCorrection
  simp only []
  have hall : ((List.range t1.n).map fun q => groupSign t1 (graphGen B q)).all Option.isSome = true := by
    rw [List.all_eq_true]
    intro o ho
    obtain ⟨q, hq', e⟩ := List.mem_map.mp ho
    rw [hn1] at hq'
    obtain ⟨s, hs⟩ := hsign q (List.mem_range.mp hq')
    rw [← e, hs]; rfl
  rw [if_pos hall, hn1]
  congr 1
  rw [← filterMap_ite_eq_map_filter]
  apply List.filterMap_congr
  intro q hq'
  have hq'' := List.mem_range.mp hq'
  have : ((List.range n).map fun q => groupSign t1 (graphGen B q)).getD q none = groupSign t1 (graphGen B q) := by
    simp [List.getD, hq'']
  rw [this]

/-- **the function-level `converter_gate_list` returns the gate list of the specification-level one** (simple graphs of equal
    size): same gates of `Q`, same `Z` corrections; and it raises exactly when the other does -/
theorem converterGateListF_eq (a b : BMat) (hab : a.r = b.r) (ha : Simple a.r a.f) (hb : Simple b.r b.f) :
    (∀ L flag, converterGateListR a b = .ok (L, flag) → converterGateListF a b = .ok L) ∧
    (∀ e, converterGateListR a b = .error e → ∃ e', converterGateListF a b = .error e') := by
  have hb' : Simple a.r b.f := by rw [hab]; exact hb
  obtain ⟨out, eo⟩ := isLcEquivalentR_total a b .det [] hab ha (by decide)
  cases hs : out.sol with
  | none =>
    constructor
    · intro L flag h
      unfold converterGateListR at h
      rw [eo] at h
      simp only [hs] at h
      cases h
    · intro e _
      refine ⟨.assertion, ?_⟩
      unfold converterGateListF
      rw [eo]
      simp only [hs]
  | some s =>
    obtain ⟨_, h2, h3⟩ := isLcEquivalentR_yes a b .det [] out s ha hb' eo hs
    obtain ⟨t1, e1, hF⟩ := phaseCorrection_of_valid a.r a.f b.f ha hb' s h2 h3
    have hS := phaseCorrection_spec_of_valid a.r a.f b.f ha hb' s h2 h3 t1 e1
    have hR : converterGateListR a b = .ok (qGates a.r s ++
        ((List.range a.r).filter fun q => groupSign t1 (graphGen b.f q) == some true).map (fun q => ("Z", q)), true) := by
      unfold converterGateListR
      rw [eo]
      simp only [hs]
      show ((match runGates (graphTab a.r a.f) (qGates a.r s) with
        | Except.error e => Except.error e
        | Except.ok t => match phaseCorrection t b.f with
          | some zs => Except.ok (qGates a.r s ++ zs, true)
          | none => Except.ok (qGates a.r s, false)) : Except Err (List (String × Nat) × Bool)) = _
      rw [e1]
      simp only [hS]
    have hFF : converterGateListF a b = .ok (qGates a.r s ++
        ((List.range a.r).filter fun q => groupSign t1 (graphGen b.f q) == some true).map (fun q => ("Z", q))) := by
      unfold converterGateListF
      rw [eo]
      simp only [hs]
      show ((match S2G.phaseCorrection (graphSTab a.r a.f) (graphSTab b.r b.f) ((qGates a.r s).map toGate) with
        | Except.error e => Except.error e
        | Except.ok zs => Except.ok (qGates a.r s ++ zs.map fromGate)) : Except Err (List (String × Nat))) = _
      rw [← hab, hF]
      simp only [List.map_map]
      rfl
    constructor
    · intro L flag h
      rw [hR] at h
      have := Except.ok.inj h
      rw [← (Prod.mk.inj this).1]
      exact hFF
    · intro e h
      rw [hR] at h
      cases h

/-- **the function-level `lc_check` on two graphs returns exactly what the specification-level one returns**, validation by
    canonical forms included (simple graphs of equal size) -/
theorem lcCheckF_eq (a b : BMat) (validate : Bool) (hab : a.r = b.r) (ha : Simple a.r a.f) (hb : Simple b.r b.f) :
    lcCheckF a b validate = lcCheckR a b validate := by
  obtain ⟨h1, h2⟩ := converterGateListF_eq a b hab ha hb
  cases hc : converterGateListR a b with
  | error e =>
    obtain ⟨e', he'⟩ := h2 e hc
    unfold lcCheckF lcCheckR
    rw [hc, he']
  | ok r =>
    obtain ⟨L, flag⟩ := r
    have hF := h1 L flag hc
    have hRf : lcCheckR a b false = .ok (true, L) := by
      unfold lcCheckR
      rw [hc]
      rfl
    -- the specification-level check passes (totality), so both return (true, L)
    have hRv : lcCheckR a b validate = .ok (true, L) := by
      obtain ⟨out, eo⟩ := isLcEquivalentR_total a b .det [] hab ha (by decide)
      cases hq : out.sol with
      | none =>
        rw [lcCheckR_of_no a b out eo hq false] at hRf
        cases hRf
      | some s =>
        obtain ⟨zs, _, hcv⟩ := lcCheckR_of_yes a b out s hab ha hb eo hq
        rw [hcv false] at hRf
        rw [hcv validate, ← hRf]
    rw [hRv]
    unfold lcCheckF
    rw [hF]
    simp only []
    cases validate
    · rfl
    · have himg := lc_gates_image a b hab ha hb false L hRf
      have hb' : Simple a.r b.f := by rw [hab]; exact hb
      have key : STab.SpanEq ((graphSTab a.r a.f).runCircuit (L.map toGate)) (graphSTab a.r b.f) :=
        circImage_unique (circImage_runCircuit (graphSTab a.r a.f) _ himg.wf) himg
      have hgood := (tracks_runCircuit (graphSTab a.r a.f) (graphSTab_good a.r a.f ha.1) _ himg.wf).good
      have hind := indep_runCircuit (graphSTab a.r a.f) (STab.graphSTab_indep a.r a.f) _ himg.wf
      have hsame := sameStabilizerState_of_spanEq _ _ hgood (graphSTab_good a.r b.f hb'.1) hind
        (STab.graphSTab_indep a.r b.f) key
      rw [if_pos rfl, ← hab, hsame]

end Graphiq.LC
