/-
  Proofs/Circuit.lean — invariants of circuit compilation by the stabilizer-backend model.
-/
import GraphiqModel.Model.Circuit
import GraphiqModel.Proofs.Tableau
namespace Graphiq
open PRow Tab

/-- tabulation keeps the tableau invariant -/
theorem Tab.lookup1_ofFn' (n : Nat) (f : Nat → Bool) (j : Nat) (hj : j < n) :
    lookup1 (Array.ofFn (n := n) fun i => f i) j = f j := by
  unfold lookup1; simp [Array.getD, hj]

theorem Tab.norm_row (t : Tab) (i : Nat) (hi : i < 2 * t.n) : EqOn t.n (t.norm.row i) (t.row i) := by
  have : t.norm.row i = (t.row i).norm t.n := by
    simp [Tab.norm, Tab.lookupRow, Array.getD, hi]
  rw [this]
  refine ⟨fun j hj => ?_, rfl, rfl⟩
  simp only [PRow.norm]
  exact ⟨Tab.lookup1_ofFn' t.n _ j hj, Tab.lookup1_ofFn' t.n _ j hj⟩

theorem Tab.norm_valid (t : Tab) (hv : t.Valid) : t.norm.Valid := by
  intro i k hi hk
  have hn : t.norm.n = t.n := rfl
  rw [hn] at hi hk ⊢
  rw [sp_eqOn _ _ _ _ _ (Tab.norm_row t i hi) (Tab.norm_row t k hk)]
  exact hv i k hi hk

theorem gen1_valid (t : Tab) (g : Cliff.Gen) (q : Nat) (hq : q < t.n) (hv : t.Valid) : (gen1 t g q).Valid := by
  cases g with
  | I => exact hv
  | H => exact hGate_valid t q hq hv
  | P => exact sGate_valid t q hq hv
  | X => exact xGate_valid t q hq hv
  | Y => exact yGate_valid t q hq hv
  | Z => exact zGate_valid t q hq hv

theorem gen1_n (t : Tab) (g : Cliff.Gen) (q : Nat) : (gen1 t g q).n = t.n := by
  cases g <;> rfl

theorem gen1_foldl_valid (gs : List Cliff.Gen) (t : Tab) (q : Nat) (hq : q < t.n) (hv : t.Valid) :
    (gs.foldl (fun t g => gen1 t g q) t).Valid ∧ (gs.foldl (fun t g => gen1 t g q) t).n = t.n := by
  induction gs generalizing t with
  | nil => exact ⟨hv, rfl⟩
  | cons g rest ih =>
    simp only [List.foldl]
    have h1 := gen1_valid t g q hq hv
    have hn := gen1_n t g q
    have := ih (gen1 t g q) (by rw [hn]; exact hq) h1
    exact ⟨this.1, this.2.trans hn⟩

/-- the invariant of a run: the tableau is valid and still has `n` qubits -/
def RunState.Ok (n : Nat) (s : RunState) : Prop := s.t.Valid ∧ s.t.n = n

theorem measure_ok (n : Nat) (s : RunState) (d : Det) (q : Nat) (hq : q < n) (h : s.Ok n) : (s.measure d q).1.Ok n := by
  have hq' : q < s.t.n := h.2 ▸ hq
  unfold RunState.measure
  exact ⟨Tab.norm_valid _ (zMeasure_valid s.t q _ hq' h.1), (zMeasure_n s.t q _).trans h.2⟩

theorem condX_ok (n : Nat) (s : RunState) (b : Bool) (q : Nat) (hq : q < n) (h : s.Ok n) : (s.condX b q).Ok n := by
  unfold RunState.condX RunState.Ok
  cases b
  · exact h
  · exact ⟨Tab.norm_valid _ (xGate_valid s.t q (h.2 ▸ hq) h.1), h.2⟩

theorem condZ_ok (n : Nat) (s : RunState) (b : Bool) (q : Nat) (hq : q < n) (h : s.Ok n) : (s.condZ b q).Ok n := by
  unfold RunState.condZ RunState.Ok
  cases b
  · exact h
  · exact ⟨Tab.norm_valid _ (zGate_valid s.t q (h.2 ▸ hq) h.1), h.2⟩

theorem write_ok (n : Nat) (s : RunState) (c : Nat) (o : Bool) (h : s.Ok n) : (s.write c o).Ok n := h

theorem resetQ_ok (n : Nat) (s : RunState) (d : Det) (q : Nat) (hq : q < n) (h : s.Ok n) : (s.resetQ d q).Ok n := by
  unfold RunState.resetQ
  exact ⟨Tab.norm_valid _ (resetZ_valid s.t q false _ (h.2 ▸ hq) h.1), (resetZ_n s.t q false _).trans h.2⟩

/-- argument condition of the quantifier: the two qubits of a unitary two-qubit gate are distinct -/
def COp.WF (np : Nat) : COp → Prop
  | .cnot c t => qIndex np c ≠ qIndex np t
  | .cz c t => qIndex np c ≠ qIndex np t
  | _ => True

/-- every circuit operation keeps the tableau valid (any measurement setting, any drawn bits) -/
theorem stepOp_ok (np n : Nat) (d : Det) (s s' : RunState) (op : COp) (hwf : op.WF np) (h : s.Ok n)
    (hs : stepOp np n d s op = some s') : s'.Ok n := by
  obtain ⟨hv, hn⟩ := h
  cases op with
  | gate1 g q =>
    simp only [stepOp] at hs
    split at hs
    · next hq =>
      injection hs with hs; rw [← hs]
      exact ⟨Tab.norm_valid _ (gen1_valid s.t g _ (hn ▸ hq) hv), (gen1_n s.t g _).trans hn⟩
    · cases hs
  | pdag q =>
    simp only [stepOp] at hs
    split at hs
    · next hq =>
      injection hs with hs; rw [← hs]
      exact ⟨Tab.norm_valid _ (sdgGate_valid s.t _ (hn ▸ hq) hv), hn⟩
    · cases hs
  | cnot c t =>
    simp only [stepOp] at hs
    split at hs
    · next hq =>
      injection hs with hs; rw [← hs]
      exact ⟨Tab.norm_valid _ (cnotGate_valid s.t _ _ (hn ▸ hq.1) (hn ▸ hq.2) hwf hv), hn⟩
    · cases hs
  | cz c t =>
    simp only [stepOp] at hs
    split at hs
    · next hq =>
      injection hs with hs; rw [← hs]
      exact ⟨Tab.norm_valid _ (czGate_valid s.t _ _ (hn ▸ hq.1) (hn ▸ hq.2) hwf hv), hn⟩
    · cases hs
  | ccx c t creg =>
    simp only [stepOp] at hs
    split at hs
    · next hq =>
      injection hs with hs; rw [← hs]
      exact write_ok n _ _ _ (condX_ok n _ _ _ hq.2 (measure_ok n s d _ hq.1 ⟨hv, hn⟩))
    · cases hs
  | ccz c t creg =>
    simp only [stepOp] at hs
    split at hs
    · next hq =>
      injection hs with hs; rw [← hs]
      exact write_ok n _ _ _ (condZ_ok n _ _ _ hq.2 (measure_ok n s d _ hq.1 ⟨hv, hn⟩))
    · cases hs
  | mcr c t creg =>
    simp only [stepOp] at hs
    split at hs
    · next hq =>
      injection hs with hs; rw [← hs]
      exact resetQ_ok n _ d _ hq.1 (write_ok n _ _ _ (condX_ok n _ _ _ hq.2 (measure_ok n s d _ hq.1 ⟨hv, hn⟩)))
    · cases hs
  | measz q creg =>
    simp only [stepOp] at hs
    split at hs
    · next hq =>
      injection hs with hs; rw [← hs]
      exact write_ok n _ _ _ (measure_ok n s d _ hq ⟨hv, hn⟩)
    · cases hs
  | wrap gs q =>
    simp only [stepOp] at hs
    split at hs
    · next hq =>
      injection hs with hs; rw [← hs]
      have := gen1_foldl_valid gs.reverse s.t _ (hn ▸ hq) hv
      exact ⟨Tab.norm_valid _ this.1, this.2.trans hn⟩
    · cases hs

theorem foldlM_ok (np n : Nat) (d : Det) (ops : List COp) (hwf : ∀ op, op ∈ ops → op.WF np) (s s' : RunState)
    (h : s.Ok n) (hs : ops.foldlM (stepOp np n d) s = some s') : s'.Ok n := by
  induction ops generalizing s with
  | nil => simp [List.foldlM] at hs; rw [← hs]; exact h
  | cons op rest ih =>
    simp only [List.foldlM] at hs
    cases h1 : stepOp np n d s op with
    | none => rw [h1] at hs; simp at hs
    | some s1 =>
      rw [h1] at hs
      simp only [Option.bind_eq_bind, Option.bind_some] at hs
      exact ih (fun o ho => hwf o (List.mem_cons_of_mem _ ho)) s1
        (stepOp_ok np n d s s1 op (hwf op List.mem_cons_self) h h1) hs

end Graphiq
