/-
  Proofs/SolverSoundMain.lean — soundness of the time-reversed solver model: the invariant of Proofs/SolverSoundInv.lean at the end
  of `solve`, combined with the refinement theorem (the tableau run refines the group semantics), and the description of the target
  `graph state ⊗ |0…0⟩` as the tableau `solve` starts from.
-/
import GraphiqModel.Proofs.SolverSoundInv
import GraphiqModel.Proofs.SolverSoundRefine
import GraphiqModel.Model.Convert
import GraphiqModel.Proofs.Check
namespace Graphiq.Solver
open Graphiq Graphiq.Cliff PRow STab Tab

/-- **soundness of the solver model, any stabilizer target** (`Good` = real, mutually commuting generators): if `solve` returns and its
    final working tableau generates the group of |0…0⟩, then the recorded circuit, run by the tableau semantics from all-|0⟩ under
    EVERY outcome script, succeeds, keeps the tableau valid and ends in exactly the signed group of `target ⊗ |0…0⟩` -/
theorem solve_run (target : STab) (hg : target.Good) (s : St) (h : solve target = .ok s)
    (hfinal : SpanEq s.t (STab.zero (target.n + s.ne))) (script : List Bool) :
    ∃ rs, stabRun s.ne target.n .prob script s.cops = some rs ∧ rs.t.Valid ∧
      SpanEq (STab.ofTab rs.t) (withEmitters target s.ne) := by
  have inv := solve_inv target hg s h
  have hgen : GGen target.n s.ne (withEmitters target s.ne).Spn s.circ (gspan (Tab.ket0 (target.n + s.ne))) := by
    rw [gspan_ket0, ← spanEq_spn _ _ hfinal]; exact inv.gen
  obtain ⟨rs, hrun, hok, hspan⟩ := run_refines target.n s.ne _ s.circ
    { t := Tab.ket0 (target.n + s.ne), writes := [], script := script, rand := [], outs := [] } (tok_ket0 _) hgen
  refine ⟨rs, ?_, hok.valid, ?_⟩
  · unfold stabRun stabRunFrom St.cops
    rw [inv.np_eq, Nat.add_comm s.ne target.n]
    exact hrun
  · have hn := (withEmitters_good target hg s.ne).2
    refine ⟨by show rs.t.n = _; rw [hok.n_eq, hn], fun a ha => ?_, fun a ha => ?_⟩
    · have : gspan rs.t a := ha
      rw [hspan] at this; exact this
    · show gspan rs.t a
      rw [hspan]; exact ha

/-- the same with an executable test on the final working tableau: it generates the group of |0…0⟩ (equal canonical forms) -/
theorem solve_run_zero (target : STab) (hg : target.Good) (s : St) (h : solve target = .ok s)
    (hfinal : s.t.sameGroup (STab.zero (target.n + s.ne)) = true) (script : List Bool) :
    ∃ rs, stabRun s.ne target.n .prob script s.cops = some rs ∧ rs.t.Valid ∧
      SpanEq (STab.ofTab rs.t) (withEmitters target s.ne) :=
  solve_run target hg s h (sameGroup_sound _ _ hfinal) script

/-! ### the target of the property: a graph state on the photons, every emitter in |0⟩ -/

theorem graphSTab_good (n : Nat) (adj : Nat → Nat → Bool) (hsym : ∀ i j, adj i j = adj j i) : (graphSTab n adj).Good := by
  constructor
  · intro i _; rfl
  · intro i k hi hk
    have hi' : i < n := hi
    have hk' : k < n := hk
    show sp n _ _ = false
    by_cases e : i = k
    · rw [e]; exact sp_self _ _
    · unfold sp
      rw [parityTo_two n i k _ hi' hk' e]
      · have e' : ¬ (k = i) := fun h => e h.symm
        simp [graphSTab, e, e', hi', hk', hsym k i]
      · intro j h1 h2
        simp [graphSTab, h1, h2]

/-- row `i` of `target ⊗ |0…0⟩`: the target's row cut to its own columns, or `Z_i` for an emitter -/
def extRow (t : STab) (i : Nat) : PRow := if i < t.n then (t.row i).truncCols t.n else Zq i

theorem withEmitters_succ (t : STab) (k : Nat) :
    withEmitters t (k + 1) = ((withEmitters t k).insertQubit (withEmitters t k).n).norm := by
  unfold withEmitters
  rw [List.range_succ, List.foldl_append]; rfl

theorem withEmitters_n (t : STab) (k : Nat) : (withEmitters t k).n = t.n + k := by
  induction k with
  | zero => rfl
  | succ k ih => rw [withEmitters_succ]; show (withEmitters t k).n + 1 = _; rw [ih]; omega

theorem withEmitters_row (t : STab) (k : Nat) (i : Nat) (hi : i < t.n + k) :
    EqOn (t.n + k) ((withEmitters t k).row i) (extRow t i) := by
  induction k with
  | zero =>
    have hi' : i < t.n := hi
    refine ⟨fun j hj => ?_, ?_, ?_⟩ <;> simp [withEmitters, extRow, hi', PRow.truncCols]
    have hj' : j < t.n := hj
    simp [hj']
  | succ k ih =>
    have hn := withEmitters_n t k
    rw [withEmitters_succ]
    have hi' : i < ((withEmitters t k).insertQubit (withEmitters t k).n).n := by
      show i < (withEmitters t k).n + 1; rw [hn]; omega
    have e1 := norm_row ((withEmitters t k).insertQubit (withEmitters t k).n) i hi'
    have hn1 : ((withEmitters t k).insertQubit (withEmitters t k).n).n = t.n + (k + 1) := by
      show (withEmitters t k).n + 1 = _; rw [hn]; omega
    rw [hn1] at e1
    refine e1.trans ?_
    rw [hn]
    by_cases hlt : i < t.n + k
    · have ih' := ih hlt
      have hrow : ((withEmitters t k).insertQubit (t.n + k)).row i = ((withEmitters t k).row i).insertCol (t.n + k) := by
        simp [STab.insertQubit, hlt]
      rw [hrow]
      refine ⟨fun j hj => ?_, ih'.2.1, ih'.2.2⟩
      by_cases hj1 : j < t.n + k
      · simp only [PRow.insertCol, hj1, if_true]; exact ih'.1 j hj1
      · have hj2 : j = t.n + k := by omega
        subst hj2
        simp only [PRow.insertCol, Nat.lt_irrefl, if_false, if_true]
        unfold extRow
        split
        · next hit =>
          have : ¬ (t.n + k < t.n) := by omega
          simp [PRow.truncCols, this]
        · have : ¬ (t.n + k = i) := by omega
          simp [Zq, this]
    · have hieq : i = t.n + k := by omega
      subst hieq
      have hrow : ((withEmitters t k).insertQubit (t.n + k)).row (t.n + k) = Zq (t.n + k) := by
        simp [STab.insertQubit]
      rw [hrow]
      have : ¬ (t.n + k < t.n) := by omega
      simp only [extRow, this, if_false]
      exact EqOn.refl _ _

/-- `solve`'s starting tableau for a graph target is, row by row, the property's target `|G⟩ ⊗ |0…0⟩` -/
theorem withEmitters_graph (np ne : Nat) (adj : Nat → Nat → Bool) :
    SpanEq (withEmitters (graphSTab np adj) ne) (targetSTab np ne adj) := by
  have hn : (withEmitters (graphSTab np adj) ne).n = np + ne := withEmitters_n (graphSTab np adj) ne
  have rows : ∀ i, i < np + ne → EqOn (np + ne) ((withEmitters (graphSTab np adj) ne).row i) ((targetSTab np ne adj).row i) := by
    intro i hi
    refine (withEmitters_row (graphSTab np adj) ne i hi).trans ?_
    show EqOn (np + ne) (extRow (graphSTab np adj) i) _
    unfold extRow
    show EqOn (np + ne) (if i < np then _ else _) _
    by_cases h1 : i < np
    · simp only [h1, if_true, targetSTab]
      refine ⟨fun j _ => ?_, rfl, rfl⟩
      show (decide (j < np) && decide (j = i)) = decide (j = i) ∧ (decide (j < np) && (decide (j < np) && adj i j)) = (decide (j < np) && adj i j)
      constructor
      · by_cases e : j = i
        · subst e; simp [h1]
        · simp [e]
      · cases decide (j < np) <;> simp
    · simp only [h1, if_false, targetSTab]
      exact EqOn.refl _ _
  apply spanEq_of_gens _ _ (by rw [hn]; rfl)
  · intro i hi
    have hi' : i < np + ne := hi
    exact InSpan.eqv _ _ (spn_gen _ i (by rw [hn]; exact hi')) (by rw [hn]; exact rows i hi')
  · intro i hi
    have hi' : i < np + ne := hn ▸ hi
    exact InSpan.eqv _ _ (spn_gen (targetSTab np ne adj) i hi') (rows i hi').symm

/-! ### the time-reversed-measurement lemma on tableaux -/

/-- **Time-reversed measurement, tableau form (all sizes, both outcomes).**  Let `t` be a real commuting generating set on
    `np + ne` qubits whose group contains `+Z` on emitter `e`.  From ANY valid Clifford tableau whose stabilizer group is that of
    `CNOT(e→p)·H_e·t`, with ANY remaining outcome script, the compiled `MeasurementCNOTandReset(e→p)` (Z-measurement of the emitter,
    X on the photon iff the outcome is 1, reset of the emitter) succeeds, keeps the tableau valid, and ends in exactly the signed
    group of `t` again. -/
theorem mcr_tab_key (np ne e p : Nat) (he : e < ne) (hp : p < np) (t : STab) (hn : t.n = np + ne) (hgood : t.Good)
    (hZ : t.Spn (Zq (np + e) false)) (rs : RunState) (hok : TOk (np + ne) rs.t)
    (hrs : gspan rs.t = img (np + ne) (fun a => PRow.cnot (np + e) p (PRow.h (np + e) a)) t.Spn) :
    ∃ rs', stepOp np (np + ne) .prob rs (.mcr ⟨.e, e⟩ ⟨.p, p⟩ 0) = some rs' ∧ TOk (np + ne) rs'.t ∧ gspan rs'.t = t.Spn := by
  have hcl : Closed (np + ne) t.Spn := hn ▸ spn_closed t
  have hx : ∀ a, t.Spn a → a.x (np + e) = false := by
    intro a ha
    have := spn_comm t hgood a _ ha hZ
    rw [sp_Zq _ _ _ _ (by rw [hn]; omega)] at this; exact this
  obtain ⟨k1, k2⟩ := mcr_key (np + ne) (np + e) p (by omega) (by omega) (by omega) t.Spn hcl hx hZ
  obtain ⟨rs', o, h1, h2, h3⟩ := stepOp_refines np ne (.mcr e p) rs hok ⟨⟨he, hp⟩, by rw [hrs]; exact k1⟩
  refine ⟨rs', h1, h2, ?_⟩
  rw [h3, hrs]
  exact k2 o

end Graphiq.Solver
