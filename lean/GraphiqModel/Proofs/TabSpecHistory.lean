/-
  Proofs/TabSpecHistory.lean — the abstract "group transformer" semantics of the tableau API and the per-operation
  refinement lemma: the stabilizer group of the tableau after one API call is the abstract transformer applied to the
  stabilizer group before it (all sizes, all outcomes).
-/
import GraphiqModel.Proofs.TabSpecRemove
namespace Graphiq.TabSpec
open Graphiq PRow Tab STab

/-- abstract state: number of qubits and a set of signed Pauli rows (the stabilizer group) -/
structure GState where
  n : Nat
  G : PRow → Prop

/-- the abstract state described by a tableau -/
def gstate (t : Tab) : GState := ⟨t.n, Grp t⟩

theorem gstate_ext {a b : GState} (hn : a.n = b.n) (hg : ∀ P, a.G P ↔ b.G P) : a = b := by
  cases a; cases b
  simp only at hn hg
  subst hn
  congr
  exact pred_ext hg

/-! ### the transformers -/

/-- a unitary gate: image of the group under the row automorphism -/
def specGate (f : PRow → PRow) (s : GState) : GState := ⟨s.n, imageGrp s.n f s.G⟩

/-- swap of two qubits: pull back along the exchange of the two sites (signs untouched) -/
def specSwap (a b : Nat) (s : GState) : GState := ⟨s.n, fun P => s.G (PRow.swap a b P)⟩

/-- Z measurement with recorded outcome `o` (used only when the outcome is random):
    random (some element anticommutes with `Z_q`) → `⟨(-1)^o Z_q⟩ · {elements commuting with Z_q}`; deterministic → unchanged -/
def specMeasure (q : Nat) (o : Bool) (s : GState) : GState :=
  ⟨s.n, fun P => (Random s.G q ∧ P.x q = false ∧ (s.G P ∨ s.G (PRow.mul s.n P (Zq q o)))) ∨ (¬ Random s.G q ∧ s.G P)⟩

/-- reset to `|intended⟩` in the Z basis, as coded: the Z measurement with recorded outcome `o`, then conjugation by `X_q`
    unless the outcome equals `intended` (i.e. unless `(-1)^intended Z_q` is in the group after the measurement) -/
def specResetZ (q : Nat) (i o : Bool) (s : GState) : GState :=
  ⟨s.n, fun P =>
    ((specMeasure q o s).G (Zq q i) ∧ (specMeasure q o s).G P) ∨
    (¬ (specMeasure q o s).G (Zq q i) ∧ (specGate (PRow.xg q) (specMeasure q o s)).G P)⟩

/-- insertion of `|0⟩` at position `p`: `{I, Z}_p ⊗ G` with sign `+` -/
def specInsert (p : Nat) (s : GState) : GState := ⟨s.n + 1, fun P => P.x p = false ∧ s.G (P.deleteCol p)⟩

/-- removal of qubit `q`: Z-measure it (outcome `o` if random), keep the elements with an identity on `q`, drop the site -/
def specRemove (q : Nat) (o : Bool) (s : GState) : GState :=
  ⟨s.n - 1, fun P' => (specMeasure q o s).G (P'.insertCol q)⟩

open Classical in
/-- partial trace: remove the listed qubits in order; a drawn outcome is consumed only by a random measurement -/
noncomputable def specPtraceGo : List Nat → List Bool → GState → GState
  | [], _, s => s
  | q :: rest, os, s => specPtraceGo rest (if Random s.G q then os.tail else os) (specRemove q (os.headD false) s)

noncomputable def specPtrace (keep : List Nat) (os : List Bool) (s : GState) : GState :=
  specPtraceGo (removalList s.n keep) os s

/-- **abstract semantics of one API call** (the outcome scripts are part of `Op`) -/
noncomputable def specOp : Tab.Op → GState → GState
  | .h q, s => specGate (PRow.h q) s
  | .s q, s => specGate (PRow.s q) s
  | .sdg q, s => specGate (PRow.sdg q) s
  | .x q, s => specGate (PRow.xg q) s
  | .y q, s => specGate (PRow.yg q) s
  | .z q, s => specGate (PRow.zg q) s
  | .cnot c t, s => specGate (PRow.cnot c t) s
  | .cz c t, s => specGate (PRow.cz c t) s
  | .swap a b, s => specSwap a b s
  | .meas q o, s => specMeasure q o s
  | .resetZ q i o, s => specResetZ q i o s
  | .resetX q i o, s => specGate (PRow.h q) (specResetZ q i o s)
  | .resetY q i o, s => specGate (PRow.s q) (specGate (PRow.h q) (specResetZ q i o s))
  | .insert p, s => specInsert p s
  | .add, s => specInsert s.n s
  | .remove q o, s => specRemove q o s
  | .ptrace keep os, s => specPtrace keep os s

/-- abstract semantics of a history -/
noncomputable def specOps : List Tab.Op → GState → GState
  | [], s => s
  | op :: rest, s => specOps rest (specOp op s)

/-- argument condition: control and target of a two-qubit gate are distinct -/
def OpWF : Tab.Op → Prop
  | .cnot c t => c ≠ t
  | .cz c t => c ≠ t
  | _ => True

/-! ### refinement, one operation at a time -/

theorem gate_tracks (t : Tab) (f : PRow → PRow) (hf : IsAut1 t.n f) (hr : t.StabReal) :
    (t.map f).StabReal ∧ gstate (t.map f) = specGate f (gstate t) :=
  ⟨map_stabReal t f hf.ip hr, gstate_ext rfl (map_grp t f hf)⟩

theorem swap_tracks (t : Tab) (a b : Nat) (ha : a < t.n) (hb : b < t.n) (hr : t.StabReal) :
    (t.swapGate a b).StabReal ∧ gstate (t.swapGate a b) = specSwap a b (gstate t) :=
  ⟨map_stabReal t _ (fun _ => rfl) hr, gstate_ext rfl (swap_grp t a b ha hb)⟩

theorem zMeasure_stabReal (t : Tab) (q : Nat) (o : Bool) (hq : q < t.n) (hv : t.Valid) (hr : t.StabReal) :
    (t.zMeasure q o).1.StabReal := by
  cases hp : t.pivot q with
  | some p =>
    have e : (t.zMeasure q o).1 = t.measRandom q p o := by simp [zMeasure, hp]
    rw [e]; exact measRandom_stabReal t q p o hv hr hq hp
  | none =>
    have e : (t.zMeasure q o).1 = t := by simp [zMeasure, hp]
    rw [e]; exact hr

theorem measure_tracks (t : Tab) (q : Nat) (o : Bool) (hq : q < t.n) (hv : t.Valid) (hr : t.StabReal) :
    gstate (t.zMeasure q o).1 = specMeasure q o (gstate t) := by
  cases hp : t.pivot q with
  | some p =>
    have e : (t.zMeasure q o).1 = t.measRandom q p o := by simp [zMeasure, hp]
    have hR : Random (Grp t) q := (random_iff_pivot t q hq).mpr (by rw [hp]; rfl)
    rw [e]
    refine gstate_ext (by rfl) ?_
    intro P
    show Grp (t.measRandom q p o) P ↔ _
    rw [measRandom_grp t q p o hv hr hq hp]
    constructor
    · intro h; exact Or.inl ⟨hR, h⟩
    · rintro (⟨_, h⟩ | ⟨h, _⟩)
      · exact h
      · exact absurd hR h
  | none =>
    have e : (t.zMeasure q o).1 = t := by simp [zMeasure, hp]
    have hR : ¬ Random (Grp t) q := by
      intro h
      have := (random_iff_pivot t q hq).mp h
      rw [hp] at this; cases this
    rw [e]
    refine gstate_ext (by rfl) ?_
    intro P
    show Grp t P ↔ _
    constructor
    · intro h; exact Or.inr ⟨hR, h⟩
    · rintro (⟨h, _⟩ | ⟨_, h⟩)
      · exact absurd h hR
      · exact h

theorem stabReal_of_grp_sub (t1 : Tab) (H : PRow → Prop) (hreal : ∀ a, H a → a.ip = false)
    (hsub : ∀ P, Grp t1 P → H P) : t1.StabReal := by
  intro i h1 h2
  exact hreal _ (hsub _ (grp_row t1 i h1 h2))

theorem negate_Zq (q : Nat) (s : Bool) : negate (Zq q s) = Zq q (!s) := rfl

/-- after a Z measurement of `q` (either branch) `(-1)^outcome Z_q` is in the group -/
theorem measure_leaves_Zq (t : Tab) (q : Nat) (o : Bool) (hq : q < t.n) (hv : t.Valid) (hr : t.StabReal) :
    Grp (t.zMeasure q o).1 (Zq q (t.zMeasure q o).2.1) := by
  cases hp : t.pivot q with
  | some p =>
    have e : t.zMeasure q o = (t.measRandom q p o, o, p) := by simp [zMeasure, hp]
    rw [e]
    show Grp (t.measRandom q p o) (Zq q o)
    rw [measRandom_grp t q p o hv hr hq hp]
    exact ⟨by simp [Zq], Or.inr (InSpan.eqv _ _ InSpan.one (mul_self t.n (Zq q o) rfl).symm)⟩
  | none =>
    have e : t.zMeasure q o = (t, (t.measScratch q).r, 0) := by simp [zMeasure, hp]
    rw [e]
    exact measDet_grp_Zq t hv hr q hq hp

/-- after the measurement, `(-1)^i Z_q` is in the group exactly when the outcome is `i` -/
theorem measured_Zq_iff (t : Tab) (q : Nat) (i o : Bool) (hq : q < t.n) (hv : t.Valid) (hr : t.StabReal) :
    Grp (t.zMeasure q o).1 (Zq q i) ↔ (t.zMeasure q o).2.1 = i := by
  have hz := measure_leaves_Zq t q o hq hv hr
  have hG := grp_isStabGrp _ (zMeasure_valid t q o hq hv) (zMeasure_stabReal t q o hq hv hr)
  constructor
  · intro h
    by_cases e : (t.zMeasure q o).2.1 = i
    · exact e
    · exfalso
      have e' : (t.zMeasure q o).2.1 = !i := by revert e; cases (t.zMeasure q o).2.1 <;> cases i <;> simp
      rw [e', ← negate_Zq] at hz
      exact hG.cons _ h hz
  · intro e; rw [← e]; exact hz

theorem resetZ_tracks (t : Tab) (q : Nat) (i o : Bool) (hq : q < t.n) (hv : t.Valid) (hr : t.StabReal) :
    (t.resetZ q i o).StabReal ∧ gstate (t.resetZ q i o) = specResetZ q i o (gstate t) := by
  have hr1 := zMeasure_stabReal t q o hq hv hr
  have g1 := measure_tracks t q o hq hv hr
  have hn1 : (t.zMeasure q o).1.n = t.n := zMeasure_n t q o
  have hiff := measured_Zq_iff t q i o hq hv hr
  rw [resetZ_eq t q i o hr]
  by_cases hs : (t.zMeasure q o).2.1 = i
  · rw [if_pos hs]
    refine ⟨hr1, ?_⟩
    have hz : (specMeasure q o (gstate t)).G (Zq q i) := by rw [← g1]; exact hiff.mpr hs
    rw [g1]
    refine gstate_ext rfl ?_
    intro P
    constructor
    · intro h; exact Or.inl ⟨hz, h⟩
    · rintro (⟨_, h⟩ | ⟨h, _⟩)
      · exact h
      · exact absurd hz h
  · rw [if_neg hs]
    obtain ⟨r2, g2⟩ := gate_tracks (t.zMeasure q o).1 _ (isAut1_xg _ q (by rw [hn1]; exact hq)) hr1
    refine ⟨r2, ?_⟩
    have hz : ¬ (specMeasure q o (gstate t)).G (Zq q i) := by rw [← g1]; exact fun h => hs (hiff.mp h)
    show gstate ((t.zMeasure q o).1.map (PRow.xg q)) = _
    rw [g2, g1]
    refine gstate_ext rfl ?_
    intro P
    constructor
    · intro h; exact Or.inr ⟨hz, h⟩
    · rintro (⟨h, _⟩ | ⟨_, h⟩)
      · exact absurd h hz
      · exact h

theorem insert_tracks (t : Tab) (p : Nat) (hp : p ≤ t.n) (hv : t.Valid) (hr : t.StabReal) :
    (t.insertQubit p).StabReal ∧ gstate (t.insertQubit p) = specInsert p (gstate t) :=
  ⟨insert_stabReal t p hp hv hr, gstate_ext rfl (insert_grp t p hp hv hr)⟩

theorem remove_tracks (t t' : Tab) (q : Nat) (o : Bool) (hv : t.Valid) (hr : t.StabReal)
    (h : t.removeQubit? q o = .ok t') :
    t'.Valid ∧ t'.StabReal ∧ gstate t' = specRemove q o (gstate t) := by
  obtain ⟨hq, n', v', r', g⟩ := removeQubit?_grp t t' q o hv hr h
  refine ⟨v', r', gstate_ext n' ?_⟩
  intro P'
  show Grp t' P' ↔ (specMeasure q o (gstate t)).G (P'.insertCol q)
  rw [g, ← measure_tracks t q o hq hv hr]
  rfl

theorem norm_gstate (t : Tab) : gstate t.norm = gstate t := gstate_ext rfl (norm_grp t)

theorem ptrace_go_tracks (rem : List Nat) :
    ∀ (t t' : Tab) (os : List Bool), t.Valid → t.StabReal → partialTrace.go t rem os = .ok t' →
      t'.Valid ∧ t'.StabReal ∧ gstate t' = specPtraceGo rem os (gstate t) := by
  induction rem with
  | nil =>
    intro t t' os hv hr h
    simp [partialTrace.go] at h
    subst h
    exact ⟨hv, hr, rfl⟩
  | cons q rest ih =>
    intro t t' os hv hr h
    simp only [partialTrace.go] at h
    cases hrm : t.removeQubit? q (os.headD false) with
    | error e => rw [hrm] at h; simp at h
    | ok t1 =>
      rw [hrm] at h
      simp only at h
      have hq : q < t.n := (removeQubit?_grp t t1 q _ hv hr hrm).1
      obtain ⟨v1, r1, g1⟩ := remove_tracks t t1 q _ hv hr hrm
      obtain ⟨v', r', g'⟩ := ih t1.norm t' _ (tnorm_valid t1 v1) (norm_stabReal t1 r1) h
      refine ⟨v', r', ?_⟩
      rw [g', norm_gstate, g1]
      rw [specPtraceGo]
      by_cases hR : Random (Grp t) q
      · have hp := (random_iff_pivot t q hq).mp hR
        rw [if_pos hp, if_pos (show Random (gstate t).G q from hR)]
      · have hp : ¬ ((t.pivot q).isSome = true) := fun hp => hR ((random_iff_pivot t q hq).mpr hp)
        rw [if_neg hp, if_neg (show ¬ Random (gstate t).G q from hR)]

theorem ptrace_tracks (t t' : Tab) (keep : List Nat) (os : List Bool) (hv : t.Valid) (hr : t.StabReal)
    (h : t.partialTrace keep os = .ok t') :
    t'.Valid ∧ t'.StabReal ∧ gstate t' = specPtrace keep os (gstate t) := by
  rw [partialTrace_eq] at h
  exact ptrace_go_tracks _ t t' os hv hr h

/-- **refinement of one API call**: the stabilizer group after the call is the abstract transformer applied to the
    stabilizer group before it; stabilizer rows stay real -/
theorem op_tracks (t t' : Tab) (op : Tab.Op) (out : Option (Bool × Bool)) (hop : OpWF op) (hv : t.Valid)
    (hr : t.StabReal) (h : t.applyOp op = .ok (t', out)) :
    t'.StabReal ∧ gstate t' = specOp op (gstate t) := by
  cases op with
  | h q =>
    simp only [applyOp] at h; split at h <;> simp at h
    rw [← h.1]; exact gate_tracks t _ (isAut1_h t.n q (by assumption)) hr
  | s q =>
    simp only [applyOp] at h; split at h <;> simp at h
    rw [← h.1]; exact gate_tracks t _ (isAut1_s t.n q (by assumption)) hr
  | sdg q =>
    simp only [applyOp] at h; split at h <;> simp at h
    rw [← h.1]; exact gate_tracks t _ (isAut1_sdg t.n q (by assumption)) hr
  | x q =>
    simp only [applyOp] at h; split at h <;> simp at h
    rw [← h.1]; exact gate_tracks t _ (isAut1_xg t.n q (by assumption)) hr
  | y q =>
    simp only [applyOp] at h; split at h <;> simp at h
    rw [← h.1]; exact gate_tracks t _ (isAut1_yg t.n q (by assumption)) hr
  | z q =>
    simp only [applyOp] at h; split at h <;> simp at h
    rw [← h.1]; exact gate_tracks t _ (isAut1_zg t.n q (by assumption)) hr
  | cnot c tg =>
    simp only [applyOp] at h; split at h <;> simp at h
    rename_i hb; rw [← h.1]; exact gate_tracks t _ (isAut1_cnot t.n c tg hb.1 hb.2 hop) hr
  | cz c tg =>
    simp only [applyOp] at h; split at h <;> simp at h
    rename_i hb; rw [← h.1]; exact gate_tracks t _ (isAut1_cz t.n c tg hb.1 hb.2 hop) hr
  | swap a b =>
    simp only [applyOp] at h; split at h <;> simp at h
    rename_i hb; rw [← h.1]; exact swap_tracks t a b hb.1 hb.2 hr
  | meas q o =>
    simp only [applyOp] at h; split at h <;> simp at h
    rename_i hq; rw [← h.1]
    exact ⟨zMeasure_stabReal t q o hq hv hr, measure_tracks t q o hq hv hr⟩
  | resetZ q i o =>
    simp only [applyOp] at h; split at h <;> simp at h
    rename_i hq; rw [← h.1]; exact resetZ_tracks t q i o hq hv hr
  | resetX q i o =>
    simp only [applyOp] at h; split at h <;> simp at h
    rename_i hq; rw [← h.1]
    obtain ⟨r1, g1⟩ := resetZ_tracks t q i o hq hv hr
    have hn := resetZ_n t q i o
    obtain ⟨r2, g2⟩ := gate_tracks (t.resetZ q i o) _ (isAut1_h _ q (by rw [hn]; exact hq)) r1
    exact ⟨r2, by show gstate ((t.resetZ q i o).map (PRow.h q)) = _; rw [g2, g1]; rfl⟩
  | resetY q i o =>
    simp only [applyOp] at h; split at h <;> simp at h
    rename_i hq; rw [← h.1]
    obtain ⟨r1, g1⟩ := resetZ_tracks t q i o hq hv hr
    have hn := resetZ_n t q i o
    obtain ⟨r2, g2⟩ := gate_tracks (t.resetZ q i o) _ (isAut1_h _ q (by rw [hn]; exact hq)) r1
    obtain ⟨r3, g3⟩ := gate_tracks ((t.resetZ q i o).map (PRow.h q)) _
      (isAut1_s _ q (by show q < (t.resetZ q i o).n; rw [hn]; exact hq)) r2
    exact ⟨r3, by show gstate (((t.resetZ q i o).map (PRow.h q)).map (PRow.s q)) = _; rw [g3, g2, g1]; rfl⟩
  | insert p =>
    simp only [applyOp] at h; split at h <;> simp at h
    rename_i hp; rw [← h.1]; exact insert_tracks t p hp hv hr
  | add =>
    simp only [applyOp] at h; simp at h
    rw [← h.1]; exact insert_tracks t t.n (Nat.le_refl _) hv hr
  | remove q o =>
    simp only [applyOp] at h
    cases hrm : t.removeQubit? q o with
    | error e => rw [hrm] at h; simp at h
    | ok t1 =>
      rw [hrm] at h; simp at h; rw [← h.1]
      exact (remove_tracks t t1 q o hv hr hrm).2
  | ptrace k os =>
    simp only [applyOp] at h
    cases hrm : t.partialTrace k os with
    | error e => rw [hrm] at h; simp at h
    | ok t1 =>
      rw [hrm] at h; simp at h; rw [← h.1]
      exact (ptrace_tracks t t1 k os hv hr hrm).2

/-! ### consequences used by the property file -/

theorem xg_fix (n q : Nat) (P : PRow) (hz : P.z q = false) : EqOn n (PRow.xg q P) P := by
  refine (xg_eqOn n q P).trans ⟨fun j _ => ⟨rfl, rfl⟩, ?_, rfl⟩
  simp [hz]

/-- after `reset_z(q, intended)` the row `(-1)^intended Z_q` is in the group -/
theorem resetZ_has_Zq (t : Tab) (q : Nat) (i o : Bool) (hq : q < t.n) (hv : t.Valid) (hr : t.StabReal) :
    Grp (t.resetZ q i o) (Zq q i) := by
  have hz := measure_leaves_Zq t q o hq hv hr
  have hn1 : (t.zMeasure q o).1.n = t.n := zMeasure_n t q o
  rw [resetZ_eq t q i o hr]
  by_cases hs : (t.zMeasure q o).2.1 = i
  · rw [if_pos hs, ← hs]; exact hz
  · rw [if_neg hs]
    have hs' : (t.zMeasure q o).2.1 = !i := by revert hs; cases (t.zMeasure q o).2.1 <;> cases i <;> simp
    rw [hs'] at hz
    show Grp ((t.zMeasure q o).1.map (PRow.xg q)) _
    rw [map_grp _ _ (isAut1_xg _ q (by rw [hn1]; exact hq))]
    refine ⟨Zq q (!i), hz, ?_⟩
    have := xg_Zq (t.zMeasure q o).1.n q (!i)
    rw [Bool.not_not] at this
    exact this.symm

/-- on the rows with an identity on `q`, `reset_z(q, intended)` acts like the Z measurement with the drawn / forced outcome `o`
    (the conditional `X_q` is invisible on those rows) -/
theorem resetZ_other_qubits (t : Tab) (q : Nat) (i o : Bool) (hq : q < t.n) (hr : t.StabReal)
    (P : PRow) (hz : P.z q = false) :
    Grp (t.resetZ q i o) P ↔ Grp (t.zMeasure q o).1 P := by
  have hn1 : (t.zMeasure q o).1.n = t.n := zMeasure_n t q o
  have hq1 : q < (t.zMeasure q o).1.n := by rw [hn1]; exact hq
  rw [resetZ_eq t q i o hr]
  by_cases hs : (t.zMeasure q o).2.1 = i
  · rw [if_pos hs]
  · rw [if_neg hs]
    show Grp ((t.zMeasure q o).1.map (PRow.xg q)) P ↔ _
    rw [map_grp _ _ (isAut1_xg _ q hq1)]
    constructor
    · rintro ⟨Q, hQ, e⟩
      have e' : EqOn (t.zMeasure q o).1.n P ({ Q with r := xor Q.r (Q.z q) } : PRow) := e.trans (xg_eqOn _ q Q)
      have qz : Q.z q = false := by rw [← hz]; exact ((e'.1 q hq1).2).symm
      exact InSpan.eqv _ _ hQ (e.trans (xg_fix _ q Q qz)).symm
    · intro h
      exact ⟨P, h, (xg_fix _ q P hz).symm⟩

/-! ### boolean checks for concrete examples -/

theorem eqOn_check (n : Nat) (a b : PRow) (h : PRow.beqOn n a b = true) : EqOn n a b := by
  unfold PRow.beqOn at h
  simp only [Bool.and_eq_true, List.all_eq_true, List.mem_range, beq_iff_eq] at h
  exact ⟨fun j hj => h.1.1 j hj, h.1.2, h.2⟩

/-- boolean version of `StabReal` -/
def stabRealB (t : Tab) : Bool := (List.range t.n).all fun i => !(t.row (i + t.n)).ip

theorem stabRealB_spec (t : Tab) (h : stabRealB t = true) : t.StabReal := by
  unfold stabRealB at h
  simp only [List.all_eq_true, List.mem_range, Bool.not_eq_true'] at h
  intro i h1 h2
  have := h (i - t.n) (by omega)
  rw [show i - t.n + t.n = i by omega] at this
  exact this

end Graphiq.TabSpec
