/-
  Proofs/CanonUnique.lean — uniqueness of the reduced echelon shape `Canon`: two real commuting tableaux in `Canon`
  shape that generate the same signed group are equal row by row, sign bits included.  All sizes.

  Route: (1) every element of the group is the product of a subset `S` of the rows, its bits are the GF(2) combination;
  in `Canon` shape the subset is read off the pivot columns (`S i` = x-bit at `px i` for X-block rows, z-bit at `pz i`
  for Z-block rows).  (2) The X pivot columns are exactly the columns in which some group element has its leading
  x-bit, the Z pivot columns are exactly the leading z-bit columns of the elements without x-bits: both sets depend
  on the group only, and an increasing enumeration of a set is unique, so `k`, `px`, `pz` agree.  (3) `a_i · b_i` then
  has the empty subset, so it is `+I`: same bits and same sign.
-/
import GraphiqModel.Proofs.CanonShape
namespace Graphiq
open PRow Tab
namespace STab

theorem parityTo_exists (n : Nat) (f : Nat → Bool) (h : parityTo n f = true) : ∃ m, m < n ∧ f m = true := by
  induction n with
  | zero => cases h
  | succ k ih =>
    simp only [parityTo] at h
    cases hk : f k
    · rw [hk] at h
      simp only [Bool.xor_false] at h
      obtain ⟨m, hm, hf⟩ := ih h
      exact ⟨m, by omega, hf⟩
    · exact ⟨k, by omega, hk⟩

/-- in echelon shape the coefficient of pivot row `i` in a combination is the combination's entry in column `p i` -/
theorem PInv.coef {n : Nat} {B : Nat → Nat → Bool} {p : Nat → Nat} {lo pr J : Nat} (h : PInv n B p lo pr J)
    (S : Nat → Bool) (i : Nat) (h1 : lo ≤ i) (h2 : i < pr) : parityTo n (fun m => S m && B m (p i)) = S i := by
  have hin : i < n := by have := h.pr_le; omega
  have e : ∀ m, m < n → (S m && B m (p i)) = (decide (m = i) && S m) := by
    intro m hm
    by_cases hmi : m = i
    · subst hmi; rw [h.piv_one m h1 h2]; simp
    · rw [h.piv_clear i m h1 h2 hm hmi]; simp [hmi]
  rw [parityTo_congr n _ _ e, parityTo_single n i S hin]

/-- in echelon shape (all columns processed) the leading entry of a combination of the pivot rows sits in a pivot column -/
theorem PInv.lead_is_pivot {n : Nat} {B : Nat → Nat → Bool} {p : Nat → Nat} {lo pr : Nat} (h : PInv n B p lo pr n)
    (S : Nat → Bool) (hS : ∀ m, m < lo → S m = false) (v : Nat → Bool)
    (hv : ∀ j, j < n → v j = parityTo n (fun m => S m && B m j)) (j : Nat) (hj : j < n) (h1 : v j = true)
    (h0 : ∀ j', j' < j → v j' = false) : ∃ i, lo ≤ i ∧ i < pr ∧ p i = j := by
  have hp := hv j hj
  rw [h1] at hp
  obtain ⟨m, hm, hm1⟩ := parityTo_exists n _ hp.symm
  simp only [Bool.and_eq_true] at hm1
  have hlo : lo ≤ m := by
    apply Classical.byContradiction; intro hc
    have := hS m (by omega); rw [this] at hm1; cases hm1.1
  have hpr : m < pr := by
    apply Classical.byContradiction; intro hc
    have := h.below m j (by omega) hm hj; rw [this] at hm1; cases hm1.2
  have hle : p m ≤ j := by
    apply Classical.byContradiction; intro hc
    have := h.lead m j hlo hpr (by omega); rw [this] at hm1; cases hm1.2
  refine ⟨m, hlo, hpr, ?_⟩
  apply Classical.byContradiction; intro hc
  have hlt : p m < j := by omega
  have c1 := hv (p m) (by omega)
  rw [h.coef S m hlo hpr, h0 (p m) hlt, hm1.1] at c1
  cases c1

/-- an increasing enumeration of a set of numbers is unique -/
theorem incr_unique (f g : Nat → Nat) (lo hi hi' : Nat)
    (hf : ∀ i i', lo ≤ i → i < i' → i' < hi → f i < f i') (hg : ∀ i i', lo ≤ i → i < i' → i' < hi' → g i < g i')
    (himg : ∀ j, (∃ i, lo ≤ i ∧ i < hi ∧ f i = j) ↔ (∃ i, lo ≤ i ∧ i < hi' ∧ g i = j)) :
    ∀ i, lo ≤ i → i < hi → (i < hi' ∧ f i = g i) := by
  intro i
  induction i using Nat.strongRecOn with
  | _ i ih =>
    intro h1 h2
    obtain ⟨m, hm1, hm2, hm3⟩ := (himg (f i)).1 ⟨i, h1, h2, rfl⟩
    have hmi : i ≤ m := by
      apply Classical.byContradiction; intro hc
      have hmlt : m < i := by omega
      have := ih m hmlt hm1 (by omega)
      have := hf m i hm1 hmlt h2
      omega
    have hi' : i < hi' := by omega
    refine ⟨hi', ?_⟩
    have le1 : g i ≤ f i := by
      by_cases e : i = m
      · rw [← hm3, ← e]; exact Nat.le_refl _
      · have := hg i m h1 (by omega) hm2; omega
    obtain ⟨m', hm1', hm2', hm3'⟩ := (himg (g i)).2 ⟨i, h1, hi', rfl⟩
    have hmi' : i ≤ m' := by
      apply Classical.byContradiction; intro hc
      have hmlt : m' < i := by omega
      have e := (ih m' hmlt hm1' hm2').2
      have := hg m' i hm1' hmlt hi'
      omega
    have le2 : f i ≤ g i := by
      by_cases e : i = m'
      · rw [← hm3', ← e]; exact Nat.le_refl _
      · have := hf i m' h1 (by omega) hm2'; omega
    omega

/-! ### group elements of a tableau in `Canon` shape -/

/-- subset, product and bits of a group element -/
theorem spn_bits (c : STab) (hg : c.Good) (g : PRow) (h : c.Spn g) :
    ∃ S : Nat → Bool, EqOn c.n g (sprod c.n c.row S c.n) ∧
      (∀ j, j < c.n → g.x j = parityTo c.n (fun m => S m && xb c m j)) ∧
      (∀ j, j < c.n → g.z j = parityTo c.n (fun m => S m && zb c m j)) := by
  obtain ⟨S, hS⟩ := spn_repr c hg g h
  refine ⟨S, hS, fun j hj => ?_, fun j hj => ?_⟩
  · rw [(hS.1 j hj).1, sprod_x]; rfl
  · rw [(hS.1 j hj).2, sprod_z]; rfl

/-- column `j` carries the leading x-bit of some group element -/
def XLead (c : STab) (j : Nat) : Prop := ∃ g, c.Spn g ∧ g.x j = true ∧ ∀ j', j' < j → g.x j' = false

/-- column `j` carries the leading z-bit of some group element without x-bits -/
def ZLead (c : STab) (j : Nat) : Prop :=
  ∃ g, c.Spn g ∧ (∀ j', j' < c.n → g.x j' = false) ∧ g.z j = true ∧ ∀ j', j' < j → g.z j' = false

theorem xlead_iff (c : STab) (k : Nat) (px : Nat → Nat) (hx : PInv c.n (xb c) px 0 k c.n) (hg : c.Good)
    (j : Nat) (hj : j < c.n) : XLead c j ↔ ∃ i, 0 ≤ i ∧ i < k ∧ px i = j := by
  constructor
  · rintro ⟨g, hs, h1, h0⟩
    obtain ⟨S, _, bx, _⟩ := spn_bits c hg g hs
    exact hx.lead_is_pivot S (fun m hm => by omega) g.x bx j hj h1 h0
  · rintro ⟨i, _, hi, e⟩
    have hin : i < c.n := by have := hx.pr_le; omega
    refine ⟨c.row i, spn_gen c i hin, ?_, fun j' hj' => ?_⟩
    · rw [← e]; exact hx.piv_one i (Nat.zero_le _) hi
    · exact hx.lead i j' (Nat.zero_le _) hi (by omega)

theorem zlead_iff (c : STab) (k : Nat) (px pz : Nat → Nat) (hx : PInv c.n (xb c) px 0 k c.n)
    (hz : PInv c.n (zb c) pz k c.n c.n) (hg : c.Good) (j : Nat) (hj : j < c.n) :
    ZLead c j ↔ ∃ i, k ≤ i ∧ i < c.n ∧ pz i = j := by
  constructor
  · rintro ⟨g, hs, hx0, h1, h0⟩
    obtain ⟨S, _, bx, bz⟩ := spn_bits c hg g hs
    have hS : ∀ m, m < k → S m = false := by
      intro m hm
      have hp := hx.piv_lt m (Nat.zero_le _) hm
      have := bx (px m) hp
      rw [hx.coef S m (Nat.zero_le _) hm, hx0 (px m) hp] at this
      exact this.symm
    exact hz.lead_is_pivot S hS g.z bz j hj h1 h0
  · rintro ⟨i, hk, hi, e⟩
    refine ⟨c.row i, spn_gen c i hi, fun j' hj' => hx.below i j' hk hi hj', ?_, fun j' hj' => ?_⟩
    · rw [← e]; exact hz.piv_one i hk hi
    · exact hz.lead i j' hk hi (by omega)

theorem xlead_spanEq (a b : STab) (s : SpanEq a b) (j : Nat) : XLead a j ↔ XLead b j :=
  ⟨fun ⟨g, h, r⟩ => ⟨g, s.sub g h, r⟩, fun ⟨g, h, r⟩ => ⟨g, s.sup g h, r⟩⟩

theorem zlead_spanEq (a b : STab) (s : SpanEq a b) (j : Nat) : ZLead a j ↔ ZLead b j := by
  unfold ZLead
  rw [s.n_eq]
  exact ⟨fun ⟨g, h, r⟩ => ⟨g, s.sub g h, r⟩, fun ⟨g, h, r⟩ => ⟨g, s.sup g h, r⟩⟩

/-- a group element of a `Canon` tableau whose x-bits vanish at the X pivots and whose z-bits vanish at the Z pivots
    is `+I` -/
theorem canon_trivial (c : STab) (k : Nat) (px pz : Nat → Nat) (hx : PInv c.n (xb c) px 0 k c.n)
    (hz : PInv c.n (zb c) pz k c.n c.n) (hg : c.Good) (g : PRow) (hs : c.Spn g)
    (h1 : ∀ i, i < k → g.x (px i) = false) (h2 : ∀ i, k ≤ i → i < c.n → g.z (pz i) = false) :
    EqOn c.n g PRow.one := by
  obtain ⟨S, hS, bx, bz⟩ := spn_bits c hg g hs
  have z : ∀ m, m < c.n → S m = false := by
    intro m hm
    by_cases hmk : m < k
    · have hp := hx.piv_lt m (Nat.zero_le _) hmk
      have := bx (px m) hp
      rw [hx.coef S m (Nat.zero_le _) hmk, h1 m hmk] at this
      exact this.symm
    · have hp := hz.piv_lt m (by omega) hm
      have := bz (pz m) hp
      rw [hz.coef S m (by omega) hm, h2 m (by omega) hm] at this
      exact this.symm
  rw [sprod_none c.n c.row S c.n z] at hS
  exact hS

/-- **uniqueness of the `Canon` shape**: two real commuting tableaux in `Canon` shape with the same signed group are
    equal row by row (bits and sign) -/
theorem canon_unique (a b : STab) (ha : Canon a) (hb : Canon b) (ga : a.Good) (gb : b.Good) (s : SpanEq a b) :
    ∀ i, i < a.n → EqOn a.n (a.row i) (b.row i) := by
  obtain ⟨ka, pxa, pza, hxa, hza⟩ := ha
  obtain ⟨kb, pxb, pzb, hxb, hzb⟩ := hb
  have hn : b.n = a.n := s.n_eq.symm
  -- (2) the pivot data agree
  have imgx : ∀ j, (∃ i, 0 ≤ i ∧ i < ka ∧ pxa i = j) ↔ (∃ i, 0 ≤ i ∧ i < kb ∧ pxb i = j) := by
    intro j
    constructor
    · rintro ⟨i, h0, h1, h2⟩
      have hj : j < a.n := by rw [← h2]; exact hxa.piv_lt i h0 h1
      exact (xlead_iff b kb pxb hxb gb j (by omega)).1
        ((xlead_spanEq a b s j).1 ((xlead_iff a ka pxa hxa ga j hj).2 ⟨i, h0, h1, h2⟩))
    · rintro ⟨i, h0, h1, h2⟩
      have hj : j < b.n := by rw [← h2]; exact hxb.piv_lt i h0 h1
      exact (xlead_iff a ka pxa hxa ga j (by omega)).1
        ((xlead_spanEq a b s j).2 ((xlead_iff b kb pxb hxb gb j hj).2 ⟨i, h0, h1, h2⟩))
  have ux := incr_unique pxa pxb 0 ka kb hxa.mono hxb.mono imgx
  have ux' := incr_unique pxb pxa 0 kb ka hxb.mono hxa.mono (fun j => (imgx j).symm)
  have hk : ka = kb := by
    apply Classical.byContradiction; intro hc
    by_cases hlt : ka < kb
    · have := (ux' ka (Nat.zero_le _) hlt).1; omega
    · have := (ux kb (Nat.zero_le _) (by omega)).1; omega
  subst hk
  have imgz : ∀ j, (∃ i, ka ≤ i ∧ i < a.n ∧ pza i = j) ↔ (∃ i, ka ≤ i ∧ i < a.n ∧ pzb i = j) := by
    intro j
    constructor
    · rintro ⟨i, h0, h1, h2⟩
      have hj : j < a.n := by rw [← h2]; exact hza.piv_lt i h0 h1
      have := (zlead_iff b ka pxb pzb hxb hzb gb j (by omega)).1
        ((zlead_spanEq a b s j).1 ((zlead_iff a ka pxa pza hxa hza ga j hj).2 ⟨i, h0, h1, h2⟩))
      rw [hn] at this; exact this
    · rintro ⟨i, h0, h1, h2⟩
      have hj : j < b.n := by rw [← h2]; exact hzb.piv_lt i h0 (by omega)
      exact (zlead_iff a ka pxa pza hxa hza ga j (by omega)).1
        ((zlead_spanEq a b s j).2 ((zlead_iff b ka pxb pzb hxb hzb gb j hj).2 ⟨i, h0, by omega, h2⟩))
  have hzb' : PInv a.n (zb b) pzb ka a.n a.n := hn ▸ hzb
  have hxb' : PInv a.n (xb b) pxb 0 ka a.n := hn ▸ hxb
  have uz := incr_unique pza pzb ka a.n a.n hza.mono hzb'.mono imgz
  -- (3) row by row
  intro i hi
  have hib : i < b.n := by omega
  have sa := spn_gen a i hi
  have sb : a.Spn (b.row i) := s.sup _ (spn_gen b i hib)
  have hprod : a.Spn (PRow.mul a.n (a.row i) (b.row i)) := InSpan.mul _ _ sa sb
  have triv := canon_trivial a ka pxa pza hxa hza ga _ hprod
    (fun m hm => by
      rw [mul_x]
      have e := (ux m (Nat.zero_le _) hm).2
      by_cases hmi : i = m
      · subst hmi
        have h1 := hxa.piv_one i (Nat.zero_le _) hm
        have h2 := hxb'.piv_one i (Nat.zero_le _) hm
        unfold xb at h1 h2
        rw [h1, e, h2]; rfl
      · have h1 := hxa.piv_clear m i (Nat.zero_le _) hm hi hmi
        have h2 := hxb'.piv_clear m i (Nat.zero_le _) hm hi hmi
        unfold xb at h1 h2
        rw [h1, e, h2]; rfl)
    (fun m hm1 hm2 => by
      rw [mul_z]
      have e := (uz m hm1 hm2).2
      by_cases hmi : i = m
      · subst hmi
        have h1 := hza.piv_one i hm1 hm2
        have h2 := hzb'.piv_one i hm1 hm2
        unfold zb at h1 h2
        rw [h1, e, h2]; rfl
      · have h1 := hza.piv_clear m i hm1 hm2 hi hmi
        have h2 := hzb'.piv_clear m i hm1 hm2 hi hmi
        unfold zb at h1 h2
        rw [h1, e, h2]; rfl)
  have same : SameBits a.n (a.row i) (b.row i) := by
    intro j hj
    have := triv.1 j hj
    simp only [mul_x, mul_z, PRow.one] at this
    constructor
    · cases h1 : (a.row i).x j <;> cases h2 : (b.row i).x j <;> simp [h1, h2] at this ⊢
    · cases h1 : (a.row i).z j <;> cases h2 : (b.row i).z j <;> simp [h1, h2] at this ⊢
  have ra := ga.real i hi
  have rb := gb.real i hib
  have hr := mul_sameBits_r a.n (a.row i) (b.row i) ra rb same
  rw [triv.2.1] at hr
  refine ⟨same, ?_, by rw [ra, rb]⟩
  cases h1 : (a.row i).r <;> cases h2 : (b.row i).r <;> simp [h1, h2, PRow.one] at hr ⊢

end STab
end Graphiq
