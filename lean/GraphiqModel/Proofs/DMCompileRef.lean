/-
  Proofs/DMCompileRef.lean — **textbook circuit semantics** on density matrices, as a specification independent of either
  backend's code, and the theorem that the stabilizer compile loop (hence, by Proofs/DMCompileH.lean, also the
  density-matrix compile loop) computes exactly it:

  * all registers start in `|0…0⟩⟨0…0|`; photon `j` is qubit `j`, emitter `j` is qubit `np + j`;
  * a gate acts as `ρ ↦ U ρ U†` with the textbook unitary (`H = (X+Z)/√2`, `S = diag(1,i)`, Paulis,
    `CNOT/CZ = |0⟩⟨0|⊗1 + |1⟩⟨1|⊗u`); a one-qubit wrapper acts as the *matrix product of its list*;
  * a Z-measurement of qubit `q` has Born probability `p₁ = tr(Π₁ρ)`; if `p₁ = 0` / `p₁ = 1` the outcome is 0 / 1 whatever
    the setting; otherwise it is the forced value (settings 0 / 1) or the next drawn bit (probabilistic); the state
    becomes `Π_o ρ Π_o / tr(Π_o ρ)` and the classical register receives `o`;
  * a classically controlled gate measures the control, applies the gate to the target iff the outcome is 1, records it;
  * measure-and-reset does the same with `X` and then resets the control: `ρ ↦ Σ_k K_k ρ K_k†`, `K = |0⟩⟨0|, |0⟩⟨1|`
    (= `|0⟩⟨0| ⊗ tr_c ρ`).

  `refRun_eq_stab` : `refRunH = ρ(stabRun)` with the same record, for every circuit, register mix, setting and script;
  `mcr_control_in_ket0` : after a measure-and-reset the control is in `|0⟩` (`Π₀ ρ = ρ`).
-/
import GraphiqModel.Proofs.DMCompileH
namespace Graphiq
namespace DMRef
open Hilbert DMH Matrix PRow

/-- state of the reference run -/
structure RState (n : Nat) where
  ρ : DMat n
  writes : List (Nat × Bool)
  script : List Bool
  outs : List Bool

noncomputable def rstate (n : Nat) (s : RunState) : RState n :=
  { ρ := tabRho n s.t, writes := s.writes, script := s.script, outs := s.outs }

/-- `U ρ U†` -/
noncomputable def conj {n : Nat} (U ρ : DMat n) : DMat n := U * ρ * Uᴴ

/-- the textbook 2×2 matrix of a one-qubit generator -/
noncomputable def genMat : Cliff.Gen → Matrix Bool Bool ℂ
  | .I => 1 | .H => hadamardM | .P => phaseM | .X => sigmaX | .Y => sigmaY | .Z => sigmaZ

/-- a wrapper denotes the matrix product of its list (`u₁ u₂ … u_k`: the last listed acts first) -/
noncomputable def wrapMat : List Cliff.Gen → Matrix Bool Bool ℂ
  | [] => 1
  | g :: rest => genMat g * wrapMat rest

open Classical in
/-- the outcome of a Z-measurement with Born probability `p1` of the outcome 1, and the drawn bits left: a certain
    outcome whatever the setting, otherwise the forced value or the next drawn bit -/
noncomputable def refOutcome (p1 : ℝ) (d : Det) (script : List Bool) : Bool × List Bool :=
  if p1 = 0 then (false, script)
  else if p1 = 1 then (true, script)
  else match d with
    | .zero => (false, script)
    | .one => (true, script)
    | .prob => (script.headD false, script.tail)

/-- projective Z-measurement with the Born rule: post-measurement state, outcome, remaining drawn bits -/
noncomputable def refMeasure {n : Nat} (ρ : DMat n) (q : Nat) (d : Det) (script : List Bool) : DMat n × Bool × List Bool :=
  let os := refOutcome (Matrix.trace (proj n (Zq q true) * ρ)).re d script
  let P := proj n (Zq q os.1)
  ((((Matrix.trace (P * ρ)).re : ℝ) : ℂ)⁻¹ • (P * ρ * P), os.1, os.2)

theorem refOutcome_zero (d : Det) (script : List Bool) : refOutcome 0 d script = (false, script) := by
  unfold refOutcome; rw [if_pos rfl]
theorem refOutcome_one (d : Det) (script : List Bool) : refOutcome 1 d script = (true, script) := by
  unfold refOutcome; rw [if_neg (by norm_num), if_pos rfl]
theorem refOutcome_half (d : Det) (script : List Bool) :
    refOutcome (1 / 2) d script = (match d with
      | .zero => (false, script)
      | .one => (true, script)
      | .prob => (script.headD false, script.tail)) := by
  unfold refOutcome; rw [if_neg (by norm_num), if_neg (by norm_num)]

/-- reset of qubit `q` to `|0⟩`: `|0⟩⟨0|_q ⊗ tr_q ρ`, Kraus form -/
noncomputable def refReset {n : Nat} (ρ : DMat n) (q : Nat) : DMat n :=
  conj (oneQ n q (ketBra2 false false)) ρ + conj (oneQ n q (ketBra2 false true)) ρ

namespace RState
variable {n : Nat}
noncomputable def measure (s : RState n) (d : Det) (q : Nat) : RState n × Bool :=
  let m := refMeasure s.ρ q d s.script
  ({ s with ρ := m.1, script := m.2.2, outs := s.outs ++ [m.2.1] }, m.2.1)
noncomputable def condU (s : RState n) (b : Bool) (U : DMat n) : RState n := { s with ρ := if b then conj U s.ρ else s.ρ }
def write (s : RState n) (creg : Nat) (out : Bool) : RState n := { s with writes := s.writes ++ [(creg, out)] }
end RState

/-- one operation of the circuit, textbook semantics; `none` = a register index out of range -/
noncomputable def refStep (np n : Nat) (d : Det) (s : RState n) (op : COp) : Option (RState n) :=
  let ix := qIndex np
  match op with
  | .gate1 g q => if ix q < n then some { s with ρ := conj (oneQ n (ix q) (genMat g)) s.ρ } else none
  | .pdag q => if ix q < n then some { s with ρ := conj (oneQ n (ix q) phaseDagM) s.ρ } else none
  | .cnot c t => if ix c < n ∧ ix t < n then some { s with ρ := conj (ctrlQ n (ix c) (ix t) sigmaX) s.ρ } else none
  | .cz c t => if ix c < n ∧ ix t < n then some { s with ρ := conj (ctrlQ n (ix c) (ix t) sigmaZ) s.ρ } else none
  | .ccx c t creg =>
    if ix c < n ∧ ix t < n then
      let m := s.measure d (ix c)
      some ((m.1.condU m.2 (oneQ n (ix t) sigmaX)).write creg m.2)
    else none
  | .ccz c t creg =>
    if ix c < n ∧ ix t < n then
      let m := s.measure d (ix c)
      some ((m.1.condU m.2 (oneQ n (ix t) sigmaZ)).write creg m.2)
    else none
  | .mcr c t creg =>
    if ix c < n ∧ ix t < n then
      let m := s.measure d (ix c)
      let s2 := (m.1.condU m.2 (oneQ n (ix t) sigmaX)).write creg m.2
      some { s2 with ρ := refReset s2.ρ (ix c) }
    else none
  | .measz q creg =>
    if ix q < n then
      let m := s.measure d (ix q)
      some (m.1.write creg m.2)
    else none
  | .wrap gs q => if ix q < n then some { s with ρ := conj (oneQ n (ix q) (wrapMat gs)) s.ρ } else none

/-- textbook semantics of a circuit from all registers in `|0⟩` -/
noncomputable def refRunH (ne np : Nat) (d : Det) (script : List Bool) (ops : List COp) : Option (RState (ne + np)) :=
  ops.foldlM (refStep np (ne + np) d) { ρ := ket0H (ne + np), writes := [], script := script, outs := [] }

/-! ### the steps -/

theorem conj_gate (t : Tab) (g : Gate) (hg : g.WF t.n) : conj (gateMat t.n g) (tabRho t.n t) = tabRho t.n (t.map g.act) :=
  rho_tab_gate t g hg

theorem conj_gen (t : Tab) (q : Nat) (hq : q < t.n) (g : Cliff.Gen) :
    conj (oneQ t.n q (genMat g)) (tabRho t.n t) = tabRho t.n (gen1 t g q) := by
  cases g with
  | I =>
    show conj (oneQ t.n q 1) _ = _
    rw [oneQ_one]; unfold conj; simp; rfl
  | H =>
    show conj (oneQ t.n q hadamardM) _ = _
    rw [hadamard_gate]; exact conj_gate t (Gate.H q) hq
  | P => exact conj_gate t (Gate.P q) hq
  | X => exact conj_gate t (Gate.X q) hq
  | Y => exact conj_gate t (Gate.Y q) hq
  | Z => exact conj_gate t (Gate.Z q) hq

theorem conj_mul {n : Nat} (U V ρ : DMat n) : conj (U * V) ρ = conj U (conj V ρ) := by
  unfold conj
  rw [Matrix.conjTranspose_mul]
  simp only [Matrix.mul_assoc]

/-- **a wrapper acts as the matrix product of its list**: the stabilizer backend's last-listed-first execution is
    conjugation by `u₁ u₂ … u_k` -/
theorem conj_wrap (n q : Nat) (hq : q < n) (gs : List Cliff.Gen) :
    ∀ t : Tab, t.n = n → t.Valid →
      conj (oneQ n q (wrapMat gs)) (tabRho n t) = tabRho n (gs.reverse.foldl (fun t g => gen1 t g q) t) := by
  induction gs with
  | nil =>
    intro t _ _
    show conj (oneQ n q 1) _ = _
    rw [oneQ_one]; unfold conj; simp
  | cons g rest ih =>
    intro t hn hv
    show conj (oneQ n q (genMat g * wrapMat rest)) _ = _
    rw [← oneQ_mul n q hq, conj_mul, ih t hn hv, List.reverse_cons, List.foldl_append]
    simp only [List.foldl]
    have h := gen1_foldl_valid rest.reverse t q (hn ▸ hq) hv
    generalize rest.reverse.foldl (fun t g => gen1 t g q) t = t' at h ⊢
    obtain ⟨hv', hn'⟩ := h
    have hn2 : t'.n = n := hn'.trans hn
    subst hn2
    exact conj_gen t' q hq g

open Classical in
/-- the Born-rule measurement on the state of a tableau is `z_measurement_gate` -/
theorem refMeasure_tab (s : RunState) (hv : s.t.Valid) (hr : s.t.StabReal) (d : Det) (q : Nat) (hq : q < s.t.n) :
    refMeasure (tabRho s.t.n s.t) q d s.script
      = (tabRho s.t.n (s.measure d q).1.t, (s.measure d q).2, (s.measure d q).1.script) := by
  have hnorm : ∀ u : Tab, u.n = s.t.n → tabRho s.t.n u.norm = tabRho s.t.n u := fun u hu => tabRho_norm_of _ u hu
  have hcomm : ∀ o, Matrix.trace (proj s.t.n (Zq q o) * tabRho s.t.n s.t) = Matrix.trace (tabRho s.t.n s.t * proj s.t.n (Zq q o)) :=
    fun o => Matrix.trace_mul_comm _ _
  cases hp : s.t.pivot q with
  | some p =>
    obtain ⟨hp1, hp2, hx⟩ := Tab.pivot_spec s.t q p hp
    have hpr : ∀ o, (Matrix.trace (proj s.t.n (Zq q o) * tabRho s.t.n s.t)).re = 1 / 2 := by
      intro o; rw [hcomm, prob_random s.t hv hr q p o hq hp]; norm_num
    have hstate : (s.measure d q).1.t = (s.t.measRandom q p (s.offer d true).1).norm := by
      simp [RunState.measure, Tab.zMeasure, hp]
    have hout : (s.measure d q).2 = (s.offer d true).1 := by
      simp [RunState.measure, Tab.zMeasure, hp]
    have hscr : (s.measure d q).1.script = (s.offer d true).2 := by
      simp [RunState.measure, hp]
    have hos : refOutcome (1 / 2) d s.script = s.offer d true := by
      rw [refOutcome_half]; cases d <;> rfl
    unfold refMeasure
    simp only [hpr, hos]
    rw [hstate, hout, hscr, hnorm (s.t.measRandom q p _) rfl]
    have hm := measRandom_state s.t hv hr q p (s.offer d true).1 hq hp1 hp2 hx
    have hm' : proj s.t.n (Zq q (s.offer d true).1) * tabRho s.t.n s.t * proj s.t.n (Zq q (s.offer d true).1)
        = (1 / 2 : ℂ) • tabRho s.t.n (s.t.measRandom q p (s.offer d true).1) := hm
    rw [hm', smul_smul]
    norm_num
  | none =>
    obtain ⟨hf1, hf2, hz1, _⟩ := det_fix s.t hv hr q hq hp
    obtain ⟨ht1, ht0⟩ := prob_det s.t hv hr q hq hp
    have hstate : (s.measure d q).1.t = s.t.norm := by
      simp [RunState.measure, Tab.zMeasure, hp]
    have hout : (s.measure d q).2 = (s.t.measScratch q).r := by
      simp [RunState.measure, Tab.zMeasure, hp]
    have hscr : (s.measure d q).1.script = s.script := by
      cases d <;> simp [RunState.measure, RunState.offer, hp]
    rw [hstate, hout, hscr, hnorm _ rfl]
    cases hrr : (s.t.measScratch q).r with
    | false =>
      rw [hrr] at hf1 hf2 ht1 ht0
      have hp1 : (Matrix.trace (proj s.t.n (Zq q true) * tabRho s.t.n s.t)).re = 0 := by
        rw [hcomm, show (true : Bool) = !false from rfl, ht0]; simp
      have hp0 : (Matrix.trace (proj s.t.n (Zq q false) * tabRho s.t.n s.t)).re = 1 := by
        rw [hcomm, ht1]; simp
      unfold refMeasure
      simp only [hp1, refOutcome_zero, hp0]
      rw [hf1, hf2]
      simp
    | true =>
      rw [hrr] at hf1 hf2 ht1 ht0
      have hp1 : (Matrix.trace (proj s.t.n (Zq q true) * tabRho s.t.n s.t)).re = 1 := by
        rw [hcomm, ht1]; simp
      unfold refMeasure
      simp only [hp1, refOutcome_one]
      rw [hf1, hf2]
      simp

theorem rmeasure_tab (s : RunState) (hv : s.t.Valid) (hr : s.t.StabReal) (d : Det) (q : Nat) (hq : q < s.t.n) :
    (rstate s.t.n s).measure d q = (rstate s.t.n (s.measure d q).1, (s.measure d q).2) := by
  have h := refMeasure_tab s hv hr d q hq
  unfold RState.measure
  simp only [rstate]
  rw [h]
  simp only [RunState.measure]

theorem rcondX_tab (n : Nat) (s : RunState) (hn : s.t.n = n) (b : Bool) (q : Nat) (hq : q < n) :
    (rstate n s).condU b (oneQ n q sigmaX) = rstate n (s.condX b q) := by
  subst hn
  cases b
  · rfl
  · simp only [RState.condU, rstate, RunState.condX, if_true]
    congr 1
    rw [tabRho_norm_of s.t.n (s.t.xGate q) rfl]
    exact conj_gate s.t (Gate.X q) hq

theorem rcondZ_tab (n : Nat) (s : RunState) (hn : s.t.n = n) (b : Bool) (q : Nat) (hq : q < n) :
    (rstate n s).condU b (oneQ n q sigmaZ) = rstate n (s.condZ b q) := by
  subst hn
  cases b
  · rfl
  · simp only [RState.condU, rstate, RunState.condZ, if_true]
    congr 1
    rw [tabRho_norm_of s.t.n (s.t.zGate q) rfl]
    exact conj_gate s.t (Gate.Z q) hq

/-- the textbook reset is the (un-hermitianized) Kraus sum; on a tableau state it is Hermitian already -/
theorem refReset_eq_channel (t : Tab) (hv : t.Valid) (q : Nat) :
    applyChannel (tabRho t.n t) (resetKraus t.n q) = refReset (tabRho t.n t) q := by
  unfold applyChannel resetKraus refReset
  simp only [List.foldl, zero_add]
  apply herm_of_hermitian
  have hh := tabRho_hermitian t hv
  rw [Matrix.conjTranspose_add]
  rw [conj_hermitian _ _ hh, conj_hermitian _ _ hh]

/-- **One operation**: textbook semantics on `ρ(s.t)` gives `ρ` of the stabilizer backend's next tableau and the same
    record -/
theorem refStep_stab (np n : Nat) (d : Det) (s s' : RunState) (op : COp) (hwf : op.WF np) (h : RunInv n s)
    (hs : stepOp np n d s op = some s') : refStep np n d (rstate n s) op = some (rstate n s') := by
  obtain ⟨hv, hn, hr⟩ := h
  subst hn
  have hgate : ∀ (g : Gate), g.WF s.t.n →
      conj (gateMat s.t.n g) (tabRho s.t.n s.t) = tabRho s.t.n (s.t.map g.act).norm := by
    intro g hg
    rw [tabRho_norm_of s.t.n (s.t.map g.act) rfl]
    exact conj_gate s.t g hg
  cases op with
  | gate1 g q =>
    simp only [stepOp] at hs
    simp only [refStep]
    split at hs
    · next hq =>
      injection hs with hs; rw [← hs, if_pos hq]
      simp only [rstate]
      rw [conj_gen s.t _ hq g, tabRho_norm_of _ _ (gen1_n s.t g _)]
    · cases hs
  | pdag q =>
    simp only [stepOp] at hs
    simp only [refStep]
    split at hs
    · next hq =>
      injection hs with hs; rw [← hs, if_pos hq]
      simp only [rstate]
      rw [show oneQ s.t.n (qIndex np q) phaseDagM = gateMat s.t.n (Gate.Pdag (qIndex np q)) from rfl,
        hgate (Gate.Pdag (qIndex np q)) hq]
      rfl
    · cases hs
  | cnot c t =>
    simp only [stepOp] at hs
    simp only [refStep]
    split at hs
    · next hq =>
      injection hs with hs; rw [← hs, if_pos hq]
      simp only [rstate]
      rw [show ctrlQ s.t.n (qIndex np c) (qIndex np t) sigmaX = gateMat s.t.n (Gate.CNOT (qIndex np c) (qIndex np t)) from rfl,
        hgate (Gate.CNOT (qIndex np c) (qIndex np t)) ⟨hq.1, hq.2, hwf⟩]
      rfl
    · cases hs
  | cz c t =>
    simp only [stepOp] at hs
    simp only [refStep]
    split at hs
    · next hq =>
      injection hs with hs; rw [← hs, if_pos hq]
      simp only [rstate]
      rw [show ctrlQ s.t.n (qIndex np c) (qIndex np t) sigmaZ = gateMat s.t.n (Gate.CZ (qIndex np c) (qIndex np t)) from rfl,
        hgate (Gate.CZ (qIndex np c) (qIndex np t)) ⟨hq.1, hq.2, hwf⟩]
      rfl
    · cases hs
  | ccx c t creg =>
    simp only [stepOp] at hs
    simp only [refStep]
    split at hs
    · next hq =>
      injection hs with hs; rw [← hs, if_pos hq]
      have hok1 := measure_ok s.t.n s d _ hq.1 ⟨hv, rfl⟩
      simp only [rmeasure_tab s hv hr d _ hq.1]
      rw [rcondX_tab s.t.n _ hok1.2 _ _ hq.2]
      rfl
    · cases hs
  | ccz c t creg =>
    simp only [stepOp] at hs
    simp only [refStep]
    split at hs
    · next hq =>
      injection hs with hs; rw [← hs, if_pos hq]
      have hok1 := measure_ok s.t.n s d _ hq.1 ⟨hv, rfl⟩
      simp only [rmeasure_tab s hv hr d _ hq.1]
      rw [rcondZ_tab s.t.n _ hok1.2 _ _ hq.2]
      rfl
    · cases hs
  | mcr c t creg =>
    simp only [stepOp] at hs
    simp only [refStep]
    split at hs
    · next hq =>
      injection hs with hs; rw [← hs, if_pos hq]
      have hok1 := measure_ok s.t.n s d _ hq.1 ⟨hv, rfl⟩
      have hr1 := measure_stabReal s hv hr d (qIndex np c)
      have hok2 := condX_ok s.t.n _ (s.measure d (qIndex np c)).2 _ hq.2 hok1
      have hr2 := condX_stabReal _ hr1 (s.measure d (qIndex np c)).2 (qIndex np t)
      have hp := pivot_after_condX s hv hr d _ _ hq.1 hq.2
      simp only [rmeasure_tab s hv hr d _ hq.1]
      rw [rcondX_tab s.t.n _ hok1.2 _ _ hq.2]
      generalize hs2 : (s.measure d (qIndex np c)).1.condX (s.measure d (qIndex np c)).2 (qIndex np t) = s2 at hok2 hr2 hp ⊢
      obtain ⟨hv2, hn2⟩ := hok2
      have hq1 : qIndex np c < s2.t.n := by rw [hn2]; exact hq.1
      have key : refReset (tabRho s.t.n s2.t) (qIndex np c)
          = tabRho s.t.n ((s2.write creg (s.measure d (qIndex np c)).2).resetQ d (qIndex np c)).t := by
        have e1 := refReset_eq_channel s2.t hv2 (qIndex np c)
        have e2 := resetChannel_det s2.t hv2 hr2 (qIndex np c) hq1 hp
        have hscr : (s2.offer d (s2.t.pivot (qIndex np c)).isSome).1 = (s2.offer d false).1 := by rw [hp]; rfl
        rw [hn2] at e1 e2
        rw [← e1, e2]
        show _ = tabRho s.t.n (s2.t.resetZ (qIndex np c) false _).norm
        rw [tabRho_norm_of _ _ ((Tab.resetZ_n s2.t _ false _).trans hn2)]
      have hscr : ((s2.write creg (s.measure d (qIndex np c)).2).resetQ d (qIndex np c)).script = s2.script := by
        show (s2.offer d (s2.t.pivot (qIndex np c)).isSome).2 = s2.script
        rw [hp]; cases d <;> rfl
      simp only [rstate, RState.write, RState.condU]
      rw [key, ← hscr]
      rfl
    · cases hs
  | measz q creg =>
    simp only [stepOp] at hs
    simp only [refStep]
    split at hs
    · next hq =>
      injection hs with hs; rw [← hs, if_pos hq]
      simp only [rmeasure_tab s hv hr d _ hq]
      rfl
    · cases hs
  | wrap gs q =>
    simp only [stepOp] at hs
    simp only [refStep]
    split at hs
    · next hq =>
      injection hs with hs; rw [← hs, if_pos hq]
      simp only [rstate]
      rw [conj_wrap s.t.n _ hq gs s.t rfl hv,
        tabRho_norm_of _ _ (gen1_foldl_valid gs.reverse s.t _ hq hv).2]
    · cases hs

theorem refStep_none (np n : Nat) (d : Det) (s : RunState) (h : RState n) (op : COp)
    (hs : stepOp np n d s op = none) : refStep np n d h op = none := by
  cases op <;> simp only [stepOp] at hs <;> simp only [refStep] <;> split at hs <;>
    first
    | (rename_i hq; rw [if_neg hq])
    | cases hs

theorem refFold_map (np n : Nat) (d : Det) (ops : List COp) (hwf : ∀ op, op ∈ ops → op.WF np) :
    ∀ (s : RunState), RunInv n s →
      ops.foldlM (refStep np n d) (rstate n s) = (ops.foldlM (stepOp np n d) s).map (rstate n) := by
  induction ops with
  | nil => intro s _; rfl
  | cons op rest ih =>
    intro s hinv
    simp only [List.foldlM]
    cases h1 : stepOp np n d s op with
    | none =>
      rw [refStep_none np n d s _ op h1]
      rfl
    | some s1 =>
      rw [refStep_stab np n d s s1 op (hwf op List.mem_cons_self) hinv h1]
      simp only [Option.bind_eq_bind, Option.bind_some]
      exact ih (fun o ho => hwf o (List.mem_cons_of_mem _ ho)) s1
        (stepOp_inv np n d s s1 op (hwf op List.mem_cons_self) hinv h1)

/-- **The stabilizer backend computes the textbook state**: for every circuit, register mix, setting and script,
    `refRunH = ρ(stabRun)` with the same writes, remaining script and outcomes (and both fail on the same circuits). -/
theorem refRun_eq_stab (ne np : Nat) (d : Det) (script : List Bool) (ops : List COp)
    (hwf : ∀ op, op ∈ ops → op.WF np) :
    refRunH ne np d script ops = (stabRun ne np d script ops).map (rstate (ne + np)) := by
  unfold stabRun stabRunFrom refRunH
  rw [ket0H_eq]
  exact refFold_map np (ne + np) d ops hwf
    { t := Tab.ket0 (ne + np), writes := [], script := script, rand := [], outs := [] }
    ⟨Tab.ket0_valid _, rfl, ket0_stabReal _⟩

/-- the density-matrix view of a textbook state, forgetting the randomness log -/
def ofH {n : Nat} (h : HState n) : RState n := { ρ := h.ρ, writes := h.writes, script := h.script, outs := h.outs }

/-- **The density-matrix backend computes the textbook state** (through `dmRunH_eq_map`) -/
theorem refRun_eq_dm (ne np : Nat) (d : Det) (script : List Bool) (ops : List COp)
    (hwf : ∀ op, op ∈ ops → op.WF np) :
    (dmRunH ne np d script ops).map ofH = refRunH ne np d script ops := by
  rw [dmRunH_eq_map ne np d script ops hwf, refRun_eq_stab ne np d script ops hwf]
  cases stabRun ne np d script ops <;> rfl

/-- **A reset leaves the measured qubit in `|0⟩`**: the state after the textbook reset of qubit `q` is fixed by
    `Π₀ = |0⟩⟨0|_q` on both sides (any input matrix) -/
theorem refReset_in_ket0 {n : Nat} (ρ : DMat n) (q : Nat) (hq : q < n) :
    proj n (Zq q false) * refReset ρ q = refReset ρ q := by
  unfold refReset conj
  rw [show oneQ n q (ketBra2 false false) = proj n (Zq q false) from projZ_eq n q hq false, resetKraus1_eq n q hq]
  rw [mul_add]
  simp only [← Matrix.mul_assoc, proj_Zq_idem]

/-- **after a measure-and-reset the control is in `|0⟩`** in the state of the stabilizer backend's tableau (hence in the
    density-matrix backend's matrix): `|0⟩⟨0|_c ρ(s') = ρ(s')`, i.e. `+Z_c` stabilizes the state — for every input state,
    setting and outcome, also when control and target coincide -/
theorem mcr_control_in_ket0 (np n : Nat) (d : Det) (s s' : RunState) (c t : QReg) (creg : Nat) (h : RunInv n s)
    (hs : stepOp np n d s (.mcr c t creg) = some s') :
    proj n (Zq (qIndex np c) false) * tabRho n s'.t = tabRho n s'.t := by
  have hq : qIndex np c < n ∧ qIndex np t < n := by
    simp only [stepOp] at hs
    split at hs
    · next hq => exact hq
    · cases hs
  have href := refStep_stab np n d s s' (.mcr c t creg) trivial h hs
  simp only [refStep, if_pos hq] at href
  injection href with href
  have hρ := congrArg RState.ρ href
  simp only [rstate] at hρ
  rw [← hρ]
  exact refReset_in_ket0 _ _ hq.1

end DMRef
end Graphiq
