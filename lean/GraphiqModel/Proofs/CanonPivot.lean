/-
  Proofs/CanonPivot.lean — the loop invariant of one elimination pass of `canonical_form` on an abstract bit matrix
  (`B m j` = the x-bit, resp. z-bit, of row `m` at column `j`): after the columns `< J` were processed and the pivots
  were put into the rows `lo ≤ i < pr`, the matrix is in *reduced echelon shape* on those rows.  No Mathlib.
-/
import GraphiqModel.Proofs.CanonSpan
namespace Graphiq
namespace STab

/-- reduced echelon shape of the rows `lo ≤ i < pr` of the bit matrix `B` (size `n × n`), pivot columns `p i < J`:
    the pivot entry is 1, the pivot column is cleared in every other row of the whole matrix, the pivot is the leading
    entry of its row, pivot columns increase, and the rows from `pr` on vanish on the columns `< J`. -/
structure PInv (n : Nat) (B : Nat → Nat → Bool) (p : Nat → Nat) (lo pr J : Nat) : Prop where
  lo_le : lo ≤ pr
  pr_le : pr ≤ n
  piv_lt : ∀ i, lo ≤ i → i < pr → p i < J
  piv_one : ∀ i, lo ≤ i → i < pr → B i (p i) = true
  piv_clear : ∀ i m, lo ≤ i → i < pr → m < n → m ≠ i → B m (p i) = false
  lead : ∀ i j, lo ≤ i → i < pr → j < p i → B i j = false
  mono : ∀ i i', lo ≤ i → i < i' → i' < pr → p i < p i'
  below : ∀ m j, pr ≤ m → m < n → j < J → B m j = false

theorem PInv.init (n : Nat) (B : Nat → Nat → Bool) (p : Nat → Nat) (lo : Nat) (h : lo ≤ n) : PInv n B p lo lo 0 where
  lo_le := Nat.le_refl _
  pr_le := h
  piv_lt := fun i h1 h2 => by omega
  piv_one := fun i h1 h2 => by omega
  piv_clear := fun i m h1 h2 => by omega
  lead := fun i j h1 h2 => by omega
  mono := fun i i' h1 h2 h3 => by omega
  below := fun m j _ _ h => by omega

/-- the invariant only reads the entries of the `n × n` block -/
theorem PInv.congr {n : Nat} {B B' : Nat → Nat → Bool} {p : Nat → Nat} {lo pr J : Nat} (h : PInv n B p lo pr J)
    (hJ : J ≤ n) (e : ∀ m j, m < n → j < n → B' m j = B m j) : PInv n B' p lo pr J where
  lo_le := h.lo_le
  pr_le := h.pr_le
  piv_lt := h.piv_lt
  piv_one := fun i h1 h2 => by
    rw [e i (p i) (by have := h.pr_le; omega) (by have := h.piv_lt i h1 h2; omega)]; exact h.piv_one i h1 h2
  piv_clear := fun i m h1 h2 h3 h4 => by
    rw [e m (p i) h3 (by have := h.piv_lt i h1 h2; omega)]; exact h.piv_clear i m h1 h2 h3 h4
  lead := fun i j h1 h2 h3 => by
    rw [e i j (by have := h.pr_le; omega) (by have := h.piv_lt i h1 h2; omega)]; exact h.lead i j h1 h2 h3
  mono := h.mono
  below := fun m j h1 h2 h3 => by rw [e m j h2 (by omega)]; exact h.below m j h1 h2 h3

/-- no pivot in column `J`: the column index advances -/
theorem PInv.skip {n : Nat} {B : Nat → Nat → Bool} {p : Nat → Nat} {lo pr J : Nat} (h : PInv n B p lo pr J)
    (h0 : ∀ m, pr ≤ m → m < n → B m J = false) : PInv n B p lo pr (J + 1) where
  lo_le := h.lo_le
  pr_le := h.pr_le
  piv_lt := fun i h1 h2 => Nat.lt_succ_of_lt (h.piv_lt i h1 h2)
  piv_one := h.piv_one
  piv_clear := h.piv_clear
  lead := h.lead
  mono := h.mono
  below := fun m j h1 h2 h3 => by
    by_cases hj : j = J
    · subst hj; exact h0 m h1 h2
    · exact h.below m j h1 h2 (by omega)

/-- the row permutation of `tab_row_swap(a, b)` -/
def swp (a b m : Nat) : Nat := if m = a then b else if m = b then a else m

theorem swp_left (a b : Nat) : swp a b a = b := by simp [swp]

theorem swp_lt (a b m : Nat) (h : m < a) (hb : a ≤ b) : swp a b m = m := by
  unfold swp
  have h1 : m ≠ a := by omega
  have h2 : m ≠ b := by omega
  simp [h1, h2]

theorem swp_ge (a b m : Nat) (h : a ≤ m) (hb : a ≤ b) : a ≤ swp a b m := by
  unfold swp; split
  · exact hb
  · split
    · exact Nat.le_refl _
    · exact h

theorem swp_bound (a b m n : Nat) (ha : a < n) (hb : b < n) (hm : m < n) : swp a b m < n := by
  unfold swp; split
  · exact hb
  · split
    · exact ha
    · exact hm

/-- swapping the pivot row `pr` with a row `f ≥ pr` keeps the invariant -/
theorem PInv.swap {n : Nat} {B B1 : Nat → Nat → Bool} {p : Nat → Nat} {lo pr J : Nat} (h : PInv n B p lo pr J)
    (f : Nat) (hf : pr ≤ f) (hfn : f < n) (hJ : J ≤ n)
    (e : ∀ m j, m < n → j < n → B1 m j = B (swp pr f m) j) : PInv n B1 p lo pr J where
  lo_le := h.lo_le
  pr_le := h.pr_le
  piv_lt := h.piv_lt
  piv_one := fun i h1 h2 => by
    rw [e i (p i) (by omega) (by have := h.piv_lt i h1 h2; omega), swp_lt pr f i h2 hf]; exact h.piv_one i h1 h2
  piv_clear := fun i m h1 h2 h3 h4 => by
    rw [e m (p i) h3 (by have := h.piv_lt i h1 h2; omega)]
    apply h.piv_clear i _ h1 h2 (swp_bound pr f m n (by omega) hfn h3)
    unfold swp; split
    · omega
    · split
      · omega
      · exact h4
  lead := fun i j h1 h2 h3 => by
    rw [e i j (by omega) (by have := h.piv_lt i h1 h2; omega), swp_lt pr f i h2 hf]; exact h.lead i j h1 h2 h3
  mono := h.mono
  below := fun m j h1 h2 h3 => by
    rw [e m j h2 (by omega)]
    exact h.below _ j (swp_ge pr f m h1 hf) (swp_bound pr f m n (by omega) hfn h2) h3

/-- clearing column `J` with the pivot row `pr` (whose entry there is 1) extends the invariant by one pivot -/
theorem PInv.sweep {n : Nat} {B1 B' : Nat → Nat → Bool} {p : Nat → Nat} {lo pr J : Nat} (h : PInv n B1 p lo pr J)
    (hp : pr < n) (hJ : J < n) (h1 : B1 pr J = true)
    (e : ∀ m j, m < n → j < n →
      B' m j = if m ≠ pr ∧ B1 m J = true then xor (B1 pr j) (B1 m j) else B1 m j) :
    PInv n B' (fun i => if i = pr then J else p i) lo (pr + 1) (J + 1) := by
  have hlo := h.lo_le
  -- the pivot row vanishes on the columns `< J`
  have prow : ∀ j, j < J → B1 pr j = false := fun j hj => h.below pr j (Nat.le_refl _) hp hj
  -- entries of the new matrix on the old columns
  have old : ∀ m j, m < n → j < J → B' m j = B1 m j := by
    intro m j hm hj
    rw [e m j hm (by omega), prow j hj]
    split <;> simp
  have colJ : ∀ m, m < n → m ≠ pr → B' m J = false := by
    intro m hm hne
    rw [e m J hm hJ, h1]
    by_cases hb : B1 m J = true
    · simp [hne, hb]
    · simp [hb]
  have rowP : ∀ j, j < n → B' pr j = B1 pr j := by
    intro j hj; rw [e pr j hp hj]; simp
  constructor
  · omega
  · omega
  · intro i h1' h2
    by_cases hi : i = pr
    · simp [hi]
    · simp only [hi, if_false]; have := h.piv_lt i h1' (by omega); omega
  · intro i h1' h2
    by_cases hi : i = pr
    · subst hi; simp only [if_true]; rw [rowP J hJ]; exact h1
    · simp only [hi, if_false]
      have hi' : i < pr := by omega
      rw [old i (p i) (by omega) (h.piv_lt i h1' hi')]; exact h.piv_one i h1' hi'
  · intro i m h1' h2 hm hne
    by_cases hi : i = pr
    · subst hi; simp only [if_true]; exact colJ m hm hne
    · simp only [hi, if_false]
      have hi' : i < pr := by omega
      rw [old m (p i) hm (h.piv_lt i h1' hi')]; exact h.piv_clear i m h1' hi' hm hne
  · intro i j h1' h2 hj
    by_cases hi : i = pr
    · subst hi; simp only [if_true] at hj; rw [rowP j (by omega)]; exact prow j hj
    · simp only [hi, if_false] at hj
      have hi' : i < pr := by omega
      have := h.piv_lt i h1' hi'
      rw [old i j (by omega) (by omega)]; exact h.lead i j h1' hi' hj
  · intro i i' h1' h2 h3
    have hi : i ≠ pr := by omega
    simp only [hi, if_false]
    by_cases hi' : i' = pr
    · simp only [hi', if_true]; exact h.piv_lt i h1' (by omega)
    · simp only [hi', if_false]; exact h.mono i i' h1' h2 (by omega)
  · intro m j h1' h2 hj
    by_cases hjJ : j = J
    · subst hjJ; exact colJ m h2 (by omega)
    · rw [old m j h2 (by omega)]; exact h.below m j (by omega) h2 (by omega)

end STab
end Graphiq
