/-
  Proofs/CompareRepairComplete.lean — the converse of `iso2_wires`: a node map that carries the register paths of one
  labelled circuit DAG onto the register paths of another (matching operations and roles) passes the repaired check; and
  a renamed copy of a circuit (registers permuted within each type) is therefore reported isomorphic.
-/
import GraphiqModel.Proofs.CompareRepairEquiv
namespace Graphiq.Compare
open Graphiq Graphiq.Export

/-! ## adjacency under an injective node map -/

theorem adj_map {l : List Nd} {u v : Nd} (φ : Nd → Nd) (h : Adj l u v) : Adj (l.map φ) (φ u) (φ v) := by
  obtain ⟨m1, m2, rfl⟩ := h
  exact ⟨m1.map φ, m2.map φ, by simp⟩

theorem adj_of_map {l : List Nd} {u v : Nd} (φ : Nd → Nd) (S : Nd → Prop) (hl : ∀ n ∈ l, S n) (hu : S u) (hv : S v)
    (hinj : ∀ a b, S a → S b → φ a = φ b → a = b) (h : Adj (l.map φ) (φ u) (φ v)) : Adj l u v := by
  obtain ⟨m1, m2, hm⟩ := h
  obtain ⟨a, rest, rfl, ha, hrest⟩ := List.map_eq_append_iff.1 hm
  obtain ⟨x, rest', rfl, hx, hrest'⟩ := List.map_eq_cons_iff.1 hrest
  obtain ⟨y, b, rfl, hy, _⟩ := List.map_eq_cons_iff.1 hrest'
  have ex : x = u := hinj x u (hl x (by simp)) hu hx
  have ey : y = v := hinj y v (hl y (by simp)) hv hy
  subst ex ey
  exact ⟨a, b, rfl⟩

/-! ## the edges between two nodes -/

/-- the registers whose path goes from `u` directly to `v` -/
theorem keys_between {g : MG} {W : List Wire} {body : Wire → List Nd} (r : Rep0 g W body) (u v : Nd) (k : Wire) :
    k ∈ (g.edgesBetween u v).map (·.key) ↔ k ∈ W ∧ Adj (pathOf body k) u v := by
  simp only [List.mem_map]
  constructor
  · rintro ⟨e, he, rfl⟩
    obtain ⟨hem, hs, hd⟩ := (mem_edgesBetween g u v e).1 he
    obtain ⟨a, b⟩ := r.edge_sound0 e hem
    rw [hs, hd] at b
    exact ⟨a, b⟩
  · rintro ⟨hk, hadj⟩
    obtain ⟨e, he, h1, h2, h3⟩ := r.edge_complete k hk u v hadj
    exact ⟨e, (mem_edgesBetween g u v e).2 ⟨he, h1, h2⟩, h3⟩

theorem keys_between_nodup {g : MG} (t : TripNodup g) (u v : Nd) : ((g.edgesBetween u v).map (·.key)).Nodup := by
  unfold TripNodup at t
  unfold MG.edgesBetween
  have h1 : ((g.edges.filter (fun e => e.src == u && e.dst == v)).map trip).Nodup :=
    t.sublist (List.Sublist.map _ List.filter_sublist)
  have h2 : (g.edges.filter (fun e => e.src == u && e.dst == v)).map trip
      = ((g.edges.filter (fun e => e.src == u && e.dst == v)).map (·.key)).map (fun k => (u, v, k)) := by
    rw [List.map_map]
    apply List.map_congr_left
    intro e he
    have := (List.mem_filter.1 he).2
    simp only [Bool.and_eq_true, beq_iff_eq] at this
    simp [trip, this.1, this.2]
  rw [h2] at h1
  exact List.Nodup.of_map _ h1

/-- **a node map that carries register paths onto register paths, matching operations and roles, passes the repaired
    check** -/
theorem iso2_of_paths (g1 g2 : MG) (W1 W2 : List Wire) (B1 B2 : Wire → List Nd) (r1 : Rep g1 W1 B1) (r2 : Rep g2 W2 B2)
    (t1 : TripNodup g1) (t2 : TripNodup g2) (φ : Nd → Nd) (π : Wire → Wire)
    (hπ : ∀ w ∈ W1, π w ∈ W2) (hπs : ∀ w2 ∈ W2, ∃ w ∈ W1, π w = w2) (hπi : ∀ w ∈ W1, ∀ w' ∈ W1, π w = π w' → w = w')
    (hlen : (g1.nodes.map (·.1)).length = (g2.nodes.map (·.1)).length)
    (hinj : ∀ a ∈ g1.nodes.map (·.1), ∀ b ∈ g1.nodes.map (·.1), φ a = φ b → a = b)
    (hnd1 : (g1.nodes.map (·.1)).Nodup)
    (hinto : ∀ n ∈ g1.nodes.map (·.1), φ n ∈ g2.nodes.map (·.1))
    (hnm : ∀ n ∈ g1.nodes.map (·.1), ∃ a b, g1.opOf n = some a ∧ g2.opOf (φ n) = some b ∧ nodeMatch a b = true)
    (hpath : ∀ w ∈ W1, pathOf B2 (π w) = (pathOf B1 w).map φ)
    (hrole : ∀ w ∈ W1, ∀ n ∈ pathOf B1 w, role (g2.opOf (φ n)) (π w) = role (g1.opOf n) w) :
    IsoFacts2 g1 g2 φ := by
  refine ⟨hlen, (List.nodup_map_iff_inj_on hnd1).2 hinj, hinto, hnm, ?_⟩
  intro u hu v hv
  -- the keys of the two bundles of parallel edges correspond under `π`
  have hK1 := keys_between_nodup t1 u v
  have hK2 := keys_between_nodup t2 (φ u) (φ v)
  have hperm : ((g2.edgesBetween (φ u) (φ v)).map (·.key)).Perm (((g1.edgesBetween u v).map (·.key)).map π) := by
    have hmapnd : (((g1.edgesBetween u v).map (·.key)).map π).Nodup := by
      apply List.Nodup.map_on _ hK1
      intro a ha b hb hab
      exact hπi a ((keys_between r1.toRep0 u v a).1 ha).1 b ((keys_between r1.toRep0 u v b).1 hb).1 hab
    apply (List.perm_ext_iff_of_nodup hK2 hmapnd).2
    intro k2
    rw [keys_between r2.toRep0, List.mem_map]
    constructor
    · rintro ⟨hk2, hadj⟩
      obtain ⟨w, hw, rfl⟩ := hπs k2 hk2
      refine ⟨w, (keys_between r1.toRep0 u v w).2 ⟨hw, ?_⟩, rfl⟩
      rw [hpath w hw] at hadj
      exact adj_of_map φ (fun n => n ∈ g1.nodes.map (·.1)) (fun n hn => r1.toRep0.path_mem_nodes w hw n hn) hu hv
        (fun a b ha hb => hinj a ha b hb) hadj
    · rintro ⟨w, hw, rfl⟩
      obtain ⟨hwW, hadj⟩ := (keys_between r1.toRep0 u v w).1 hw
      exact ⟨hπ w hwW, by rw [hpath w hwW]; exact adj_map φ hadj⟩
  -- the attributes are functions of the key
  have hl1 : (g1.edgesBetween u v).map (·.ct2)
      = ((g1.edgesBetween u v).map (·.key)).map (fun k => (role (g1.opOf u) k, role (g1.opOf v) k)) := by
    rw [List.map_map]
    apply List.map_congr_left
    intro e he
    obtain ⟨hem, hs, hd⟩ := (mem_edgesBetween g1 u v e).1 he
    simp only [Function.comp, r1.lab e hem, hs, hd]
  have hl2 : (g2.edgesBetween (φ u) (φ v)).map (·.ct2)
      = ((g2.edgesBetween (φ u) (φ v)).map (·.key)).map (fun k => (role (g2.opOf (φ u)) k, role (g2.opOf (φ v)) k)) := by
    rw [List.map_map]
    apply List.map_congr_left
    intro e he
    obtain ⟨hem, hs, hd⟩ := (mem_edgesBetween g2 _ _ e).1 he
    simp only [Function.comp, r2.lab e hem, hs, hd]
  have hlab : ((g2.edgesBetween (φ u) (φ v)).map (·.ct2)).Perm ((g1.edgesBetween u v).map (·.ct2)) := by
    rw [hl1, hl2]
    refine (hperm.map _).trans ?_
    rw [List.map_map]
    apply List.Perm.of_eq
    apply List.map_congr_left
    intro k hk
    obtain ⟨hkW, hadj⟩ := (keys_between r1.toRep0 u v k).1 hk
    simp only [Function.comp]
    rw [hrole k hkW u (adj_mem_left hadj), hrole k hkW v (adj_mem_right hadj)]
  constructor
  · have := hlab.length_eq
    simpa using this.symm
  · unfold edgeMatch2
    simp only [List.all_eq_true, beq_iff_eq]
    intro x _
    exact (hlab.count_eq x).symm

/-! ## renaming an operation -/

/-- what is assumed of a renaming: it maps the registers `W` into `W`, keeps the register type, and is one-to-one on `W` -/
structure IsRenaming (W : List Wire) (π : Wire → Wire) : Prop where
  into : ∀ w ∈ W, π w ∈ W
  ty : ∀ w ∈ W, (π w).t = w.t
  inj : ∀ w ∈ W, ∀ w' ∈ W, π w = π w' → w = w'

theorem c_renC (π : Wire → Wire) (m : Nat) (ht : (π ⟨.c, m⟩).t = .c) : (⟨.c, renC π m⟩ : Wire) = π ⟨.c, m⟩ := by
  unfold renC
  cases hπ : π ⟨.c, m⟩ with | mk t i =>
  rw [hπ] at ht
  simp only at ht
  subst ht
  rfl

theorem opWires_renOp (W : List Wire) (π : Wire → Wire) (hπ : IsRenaming W π) (o : Op) (ho : ∀ w ∈ opWires o, w ∈ W) :
    opWires (renOp π o) = (opWires o).map π := by
  have hq : ∀ q : QReg, Wire.ofQ q ∈ opWires o → Wire.ofQ (renQ π q) = π (Wire.ofQ q) :=
    fun q hq => ofQ_renQ π q (hπ.ty _ (ho _ hq))
  have hc : ∀ m : Nat, (⟨.c, m⟩ : Wire) ∈ opWires o → (⟨.c, renC π m⟩ : Wire) = π ⟨.c, m⟩ :=
    fun m hm => c_renC π m (hπ.ty _ (ho _ hm))
  cases o with
  | one g q => simp only [renOp, opWires, Op.qRegs, Op.cRegs, List.map_cons, List.map_nil, List.append_nil]; rw [hq q (by simp [opWires, Op.qRegs])]
  | wrap gs q => simp only [renOp, opWires, Op.qRegs, Op.cRegs, List.map_cons, List.map_nil, List.append_nil]; rw [hq q (by simp [opWires, Op.qRegs])]
  | ctrl g a b =>
    simp only [renOp, opWires, Op.qRegs, Op.cRegs, List.map_cons, List.map_nil, List.append_nil]
    rw [hq a (by simp [opWires, Op.qRegs]), hq b (by simp [opWires, Op.qRegs])]
  | cctrl g a b m =>
    simp only [renOp, opWires, Op.qRegs, Op.cRegs, List.map_cons, List.map_nil, List.cons_append, List.nil_append]
    rw [hq a (by simp [opWires, Op.qRegs]), hq b (by simp [opWires, Op.qRegs]), hc m (by simp [opWires, Op.qRegs, Op.cRegs])]
  | meas q m =>
    simp only [renOp, opWires, Op.qRegs, Op.cRegs, List.map_cons, List.map_nil, List.cons_append, List.nil_append]
    rw [hq q (by simp [opWires, Op.qRegs]), hc m (by simp [opWires, Op.qRegs, Op.cRegs])]

theorem mem_opWires_renOp (W : List Wire) (π : Wire → Wire) (hπ : IsRenaming W π) (o : Op) (ho : ∀ w ∈ opWires o, w ∈ W)
    (w : Wire) (hw : w ∈ W) : π w ∈ opWires (renOp π o) ↔ w ∈ opWires o := by
  rw [opWires_renOp W π hπ o ho, List.mem_map]
  constructor
  · rintro ⟨w', hw', h⟩
    rw [← hπ.inj w' (ho w' hw') w hw h]; exact hw'
  · intro h; exact ⟨w, h, rfl⟩

theorem opOK_renOp (W : List Wire) (π : Wire → Wire) (hπ : IsRenaming W π) (o : Op) (ho : OpOK W o) : OpOK W (renOp π o) := by
  unfold OpOK
  rw [opWires_renOp W π hπ o ho.1]
  refine ⟨?_, ?_⟩
  · intro w hw
    obtain ⟨w', hw', rfl⟩ := List.mem_map.1 hw
    exact hπ.into w' (ho.1 w' hw')
  · apply List.Nodup.map_on _ ho.2
    intro a ha b hb hab
    exact hπ.inj a (ho.1 a ha) b (ho.1 b hb) hab

theorem nodeMatch_renOp (π : Wire → Wire) (o : Op) : nodeMatch (.gate o) (.gate (renOp π o)) = true := by
  cases o <;> simp [nodeMatch, renOp, Op.cls, Op.qRegs, renQ]

theorem beq_of_inj (W : List Wire) (π : Wire → Wire) (hπ : IsRenaming W π) (a b : Wire) (ha : a ∈ W) (hb : b ∈ W) :
    (π a == π b) = (a == b) := by
  apply Bool.eq_iff_iff.2
  simp only [beq_iff_eq]
  exact ⟨hπ.inj a ha b hb, fun h => by rw [h]⟩

/-- the renamed register plays at the renamed operation the role the register plays at the operation -/
theorem role_renOp (W : List Wire) (π : Wire → Wire) (hπ : IsRenaming W π) (o : Op) (ho : ∀ w ∈ opWires o, w ∈ W)
    (w : Wire) (hw : w ∈ W) : role (some (.gate (renOp π o))) (π w) = role (some (.gate o)) w := by
  have hq : ∀ q : QReg, Wire.ofQ q ∈ opWires o → (Wire.ofQ (renQ π q) == π w) = (Wire.ofQ q == w) := by
    intro q hq
    rw [ofQ_renQ π q (hπ.ty _ (ho _ hq))]
    exact beq_of_inj W π hπ _ _ (ho _ hq) hw
  have hc : ∀ m : Nat, (⟨.c, m⟩ : Wire) ∈ opWires o → (π w == (⟨.c, renC π m⟩ : Wire)) = (w == (⟨.c, m⟩ : Wire)) := by
    intro m hm
    rw [c_renC π m (hπ.ty _ (ho _ hm))]
    exact beq_of_inj W π hπ _ _ hw (ho _ hm)
  cases o with
  | one g q => rfl
  | wrap gs q => rfl
  | ctrl g a b =>
    simp only [renOp, role]
    rw [hq a (by simp [opWires, Op.qRegs]), hq b (by simp [opWires, Op.qRegs])]
  | cctrl g a b m =>
    simp only [renOp, role]
    rw [hq a (by simp [opWires, Op.qRegs]), hq b (by simp [opWires, Op.qRegs]), hc m (by simp [opWires, Op.qRegs, Op.cRegs])]
  | meas q m =>
    simp only [renOp, role]
    rw [hc m (by simp [opWires, Op.qRegs, Op.cRegs])]

theorem bodyOf_map_renOp (W : List Wire) (π : Wire → Wire) (hπ : IsRenaming W π) (l : List Op)
    (hl : ∀ o ∈ l, ∀ w ∈ opWires o, w ∈ W) (w : Wire) (hw : w ∈ W) : bodyOf (l.map (renOp π)) (π w) = bodyOf l w := by
  unfold bodyOf
  rw [List.zipIdx_map, List.filter_map, List.map_map]
  congr 1
  apply List.filter_congr
  intro p hp
  have hmem : p.1 ∈ l := by
    have := List.mem_zipIdx hp
    simp only [Nat.zero_add] at this
    obtain ⟨_, _, h3⟩ := this
    rw [h3]; exact List.getElem_mem _
  simp only [Function.comp]
  apply Bool.eq_iff_iff.2
  simp only [decide_eq_true_eq]
  exact mem_opWires_renOp W π hπ p.1 (hl p.1 hmem) w hw

theorem mem_bodyOf (l : List Op) (w : Wire) (n : Nd) (h : n ∈ bodyOf l w) : ∃ i, ∃ hi : i < l.length, n = .op (i + 1) := by
  unfold bodyOf at h
  obtain ⟨p, hp, rfl⟩ := List.mem_map.1 h
  have := List.mem_zipIdx (List.mem_filter.1 hp).1
  simp only [Nat.zero_add] at this
  exact ⟨p.2, this.2.1, rfl⟩

/-! ## a renamed copy is isomorphic -/

/-- the node map of a register renaming: input and output nodes follow their register, operation nodes keep their id -/
def nodeRen (π : Wire → Wire) : Nd → Nd
  | .inp w => .inp (π w)
  | .out w => .out (π w)
  | .op k => .op k

def pairsOf (ns : List Nd) (φ : Nd → Nd) : List (Nd × Nd) := ns.map fun n => (n, φ n)

theorem applyMap_pairsOf (ns : List Nd) (φ : Nd → Nd) (n : Nd) (h : n ∈ ns) : applyMap (pairsOf ns φ) n = some (φ n) := by
  unfold applyMap pairsOf
  cases hf : (ns.map fun n => (n, φ n)).find? (fun q => q.1 == n) with
  | none =>
    exfalso
    have := List.find?_eq_none.1 hf (n, φ n) (List.mem_map_of_mem h)
    simp at this
  | some q =>
    have hq := List.find?_some hf
    have hm := List.mem_of_find?_eq_some hf
    obtain ⟨r, _, hr⟩ := List.mem_map.1 hm
    simp only [beq_iff_eq] at hq
    subst hr
    simp only at hq
    subst hq
    rfl

theorem tripNodup_labelled (g : MG) (h : TripNodup g) : TripNodup g.labelled := by
  unfold TripNodup MG.labelled at *
  rw [edges_withEdges, List.map_map]
  exact h

/-- the node names of a built DAG -/
theorem BuildInv.names_cases {W : List Wire} {g : MG} {l : List Op} (h : BuildInv W g l) (n : Nd) (hn : n ∈ g.nodes.map (·.1)) :
    (∃ w ∈ W, n = .inp w ∧ g.opOf n = some (.input w)) ∨ (∃ w ∈ W, n = .out w ∧ g.opOf n = some (.output w)) ∨
    (∃ i, ∃ hi : i < l.length, n = .op (i + 1) ∧ g.opOf n = some (.gate l[i])) := by
  obtain ⟨body, r, _, _, _, hon, hnames, _, _, _, hbo, hat, _⟩ := h
  obtain ⟨p, hp, rfl⟩ := List.mem_map.1 hn
  have hop := opOf_of_mem g hnames p hp
  cases hp2 : p.2 with
  | input w =>
    rw [hp2] at hop
    obtain ⟨a, b⟩ := r.kindIn _ _ hop
    exact Or.inl ⟨w, b, a, hop⟩
  | output w =>
    rw [hp2] at hop
    obtain ⟨a, b⟩ := r.kindOut _ _ hop
    exact Or.inr (Or.inl ⟨w, b, a, hop⟩)
  | gate o =>
    rw [hp2] at hop
    right; right
    -- the node lies on the path of one of its registers
    have hne : opWires o ≠ [] := by
      unfold opWires
      have := qRegs_ne_nil o
      cases hq : o.qRegs with
      | nil => exact absurd hq this
      | cons _ _ => simp
    obtain ⟨w, hw⟩ : ∃ w, w ∈ opWires o := by
      cases hh : opWires o with
      | nil => exact absurd hh hne
      | cons w _ => exact ⟨w, by simp⟩
    obtain ⟨_, hmem⟩ := hon _ _ hop w hw
    rw [hbo w] at hmem
    obtain ⟨i, hi, hni⟩ := mem_bodyOf l w _ hmem
    refine ⟨i, hi, hni, ?_⟩
    rw [hni]
    exact hat i hi

/-- **a renamed copy of a circuit is reported isomorphic** (the identity on operation nodes, the renaming on input and
    output nodes passes the repaired check) -/
theorem renamed_copy_iso (c : Circuit) (h : ∀ o ∈ c.ops, OpOK (wiresN c.ne c.np c.nc) o) (π : Wire → Wire)
    (hπ : IsRenaming (wiresN c.ne c.np c.nc) π) (hsurj : ∀ w2 ∈ wiresN c.ne c.np c.nc, ∃ w ∈ wiresN c.ne c.np c.nc, π w = w2) :
    ∃ g1 g2 f, MG.build c = .ok g1 ∧ MG.build ⟨c.ne, c.np, c.nc, c.ops.map (renOp π)⟩ = .ok g2 ∧
      isoCheck2 g1.addControlTarget2 g2.addControlTarget2 f = true := by
  have h2 : ∀ o ∈ (⟨c.ne, c.np, c.nc, c.ops.map (renOp π)⟩ : Circuit).ops,
      OpOK (wiresN c.ne c.np c.nc) o := by
    intro o ho
    obtain ⟨o', ho', rfl⟩ := List.mem_map.1 ho
    exact opOK_renOp _ π hπ o' (h o' ho')
  obtain ⟨g1, hb1, i1, _⟩ := build_rep c h
  obtain ⟨g2, hb2, i2, _⟩ := build_rep ⟨c.ne, c.np, c.nc, c.ops.map (renOp π)⟩ h2
  have hc1 := i1.names_cases
  have hc2 := i2.names_cases
  obtain ⟨B1, r1, _, _, _, hon1, hnames1, hgl1, hio1, _, hbo1, hat1, ht1⟩ := i1
  obtain ⟨B2, r2, _, _, _, hon2, hnames2, hgl2, hio2, _, hbo2, hat2, ht2⟩ := i2
  simp only at hgl2 hbo2 hat2 hc2
  have hlenl : (c.ops.map (renOp π)).length = c.ops.length := List.length_map _
  refine ⟨g1, g2, pairsOf (g1.nodes.map (·.1)) (nodeRen π), hb1, hb2, ?_⟩
  rw [addControlTarget2_eq g1 _ B1 r1, addControlTarget2_eq g2 _ B2 r2]
  apply isoCheck2_of_facts _ _ _ (nodeRen π) (fun n hn => applyMap_pairsOf _ _ n hn)
  have hvalid : ∀ o ∈ c.ops, ∀ w ∈ opWires o, w ∈ wiresN c.ne c.np c.nc := fun o ho => (h o ho).1
  apply iso2_of_paths g1.labelled g2.labelled _ _ B1 B2 r1.labelled r2.labelled (tripNodup_labelled g1 ht1)
    (tripNodup_labelled g2 ht2) (nodeRen π) π hπ.into hsurj hπ.inj
  · -- node counts
    show (g1.nodes.map (·.1)).length = (g2.nodes.map (·.1)).length
    rw [List.length_map, List.length_map, length_io_gate g1.nodes, length_io_gate g2.nodes, hgl1, hgl2, hio1, hio2, hlenl]
  · -- the node map is one-to-one
    intro a ha b hb hab
    rcases hc1 a ha with ⟨w, hw, rfl, _⟩ | ⟨w, hw, rfl, _⟩ | ⟨i, _, rfl, _⟩ <;>
      rcases hc1 b hb with ⟨w', hw', rfl, _⟩ | ⟨w', hw', rfl, _⟩ | ⟨j, _, rfl, _⟩ <;>
      simp only [nodeRen, Nd.inp.injEq, Nd.out.injEq, Nd.op.injEq, reduceCtorEq] at hab ⊢
    · exact hπ.inj w hw w' hw' hab
    · exact hπ.inj w hw w' hw' hab
    · exact hab
  · exact hnames1
  · -- into the nodes of the second graph
    intro n hn
    show nodeRen π n ∈ g2.nodes.map (·.1)
    rcases hc1 n hn with ⟨w, hw, rfl, _⟩ | ⟨w, hw, rfl, _⟩ | ⟨i, hi, rfl, _⟩
    · exact opOf_some_mem g2 _ _ (r2.inpOp _ (hπ.into w hw))
    · exact opOf_some_mem g2 _ _ (r2.outOp _ (hπ.into w hw))
    · exact opOf_some_mem g2 _ _ (hat2 i (by rw [hlenl]; exact hi))
  · -- matching operations
    intro n hn
    show ∃ a b, g1.opOf n = some a ∧ g2.opOf (nodeRen π n) = some b ∧ nodeMatch a b = true
    rcases hc1 n hn with ⟨w, hw, rfl, ho⟩ | ⟨w, hw, rfl, ho⟩ | ⟨i, hi, rfl, ho⟩
    · refine ⟨_, _, ho, r2.inpOp _ (hπ.into w hw), ?_⟩
      have := hπ.ty w hw
      cases w with | mk t k => cases hπw : π ⟨t, k⟩ with | mk t' k' =>
      rw [hπw] at this
      simp only at this
      subst this
      cases t' <;> simp [nodeMatch]
    · refine ⟨_, _, ho, r2.outOp _ (hπ.into w hw), ?_⟩
      have := hπ.ty w hw
      cases w with | mk t k => cases hπw : π ⟨t, k⟩ with | mk t' k' =>
      rw [hπw] at this
      simp only at this
      subst this
      cases t' <;> simp [nodeMatch]
    · refine ⟨_, _, ho, hat2 i (by rw [hlenl]; exact hi), ?_⟩
      rw [List.getElem_map]
      exact nodeMatch_renOp π _
  · -- paths
    intro w hw
    unfold pathOf
    rw [hbo2 (π w), hbo1 w, bodyOf_map_renOp _ π hπ c.ops hvalid w hw]
    simp only [List.map_cons, List.map_append, List.map_nil, nodeRen]
    congr 2
    -- operation nodes keep their id
    symm
    conv => rhs; rw [← List.map_id (bodyOf c.ops w)]
    apply List.map_congr_left
    intro n hn
    obtain ⟨i, _, rfl⟩ := mem_bodyOf c.ops w n hn
    rfl
  · -- roles
    intro w hw n hn
    show role (g2.opOf (nodeRen π n)) (π w) = role (g1.opOf n) w
    rcases (mem_pathOf B1 w n).1 hn with rfl | hb | rfl
    · rw [r1.inpOp w hw]
      show role (g2.opOf (.inp (π w))) (π w) = _
      rw [r2.inpOp _ (hπ.into w hw)]; rfl
    · rw [hbo1 w] at hb
      obtain ⟨i, hi, rfl⟩ := mem_bodyOf c.ops w n hb
      show role (g2.opOf (.op (i + 1))) (π w) = _
      rw [hat1 i hi, hat2 i (by rw [hlenl]; exact hi), List.getElem_map]
      exact role_renOp _ π hπ _ (hvalid _ (List.getElem_mem _)) w hw
    · rw [r1.outOp w hw]
      show role (g2.opOf (.out (π w))) (π w) = _
      rw [r2.outOp _ (hπ.into w hw)]; rfl

end Graphiq.Compare
