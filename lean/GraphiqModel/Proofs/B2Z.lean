/-
  Proofs/B2Z.lean — Booleans as elements of GF(2): the one definition shared by the GF(2) matrix file of the C08/C09 chain
  (Proofs/GF2Matrix.lean) and the entropy file of the C03/C02 chain (Proofs/HeightEntropy.lean), so that both chains can be imported
  into one module.
-/
import Mathlib.Data.ZMod.Basic
namespace Graphiq

def b2z (b : Bool) : ZMod 2 := if b then 1 else 0

theorem b2z_xor (a b : Bool) : b2z (xor a b) = b2z a + b2z b := by cases a <;> cases b <;> decide
theorem b2z_and (a b : Bool) : b2z (a && b) = b2z a * b2z b := by cases a <;> cases b <;> decide

end Graphiq
