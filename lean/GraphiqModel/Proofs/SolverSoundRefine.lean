/-
  Proofs/SolverSoundRefine.lean — the executable tableau semantics of circuits (`stepOp` / `stabRun` of `Model/Circuit.lean`,
  on the Clifford tableaux of `Model/Tableau.lean`) REFINES the group-level semantics of `Proofs/SolverSoundSem.lean`.

  * `gspan T` is the signed stabilizer group of a Clifford tableau `T` (span of its stabilizer half);
  * a unitary operation of the compiled run maps `gspan` to its image under the row map of the gate (`map_refines`);
  * `MeasurementCNOTandReset` with a random outcome `o` (the next drawn bit of the script) maps `gspan` to `mcrPost … o`
    (`mcr_tab_refines`): the random branch of `z_measurement_gate` (`measRandom_gspan`), the classically controlled X, and the
    reset, whose internal measurement is then deterministic with outcome `o` and consumes no drawn bit (`reset_after_meas`);
  * `stepOp_refines`, `run_refines`: one step / a whole run of the compiled circuit refine `gstep` / `GGen`.
  All sizes, all scripts of drawn bits.
-/
import GraphiqModel.Proofs.SolverSoundSem
import GraphiqModel.Proofs.Circuit
namespace Graphiq.Solver
open Graphiq Graphiq.Cliff PRow STab Tab

/-- invariant of the forward run: valid tableau, real stabilizer rows, `n` qubits -/
structure TOk (n : Nat) (T : Tab) : Prop where
  valid : T.Valid
  real : T.StabReal
  n_eq : T.n = n

/-- the signed stabilizer group of a Clifford tableau -/
def gspan (T : Tab) : PSet := (STab.ofTab T).Spn

namespace Refine

/-! ### the span of the stabilizer half -/

theorem ofTab_row (T : Tab) (hr : T.StabReal) (i : Nat) (hi : i < T.n) : (STab.ofTab T).row i = T.row (i + T.n) :=
  with_ip_false _ (hr (i + T.n) (by omega) (by omega))

theorem gspan_closed (T : Tab) : Closed T.n (gspan T) := spn_closed (STab.ofTab T)

theorem gspan_gen (T : Tab) (hr : T.StabReal) (i : Nat) (hi : i < T.n) : gspan T (T.row (i + T.n)) := by
  have h : (STab.ofTab T).Spn ((STab.ofTab T).row i) := spn_gen _ i hi
  rw [ofTab_row T hr i hi] at h; exact h

theorem gspan_row (T : Tab) (hr : T.StabReal) (k : Nat) (h1 : T.n ≤ k) (h2 : k < 2 * T.n) : gspan T (T.row k) := by
  have h := gspan_gen T hr (k - T.n) (by omega)
  rw [Nat.sub_add_cancel h1] at h; exact h

theorem inSpan_sub (n m : Nat) (g : Nat → PRow) (S : PSet) (hS : Closed n S) (h : ∀ i, i < m → S (g i)) :
    ∀ a, InSpan n m g a → S a := by
  intro a ha
  induction ha with
  | one => exact hS.one
  | gen i hi => exact h i hi
  | mul a b _ _ iha ihb => exact hS.mul a b iha ihb
  | eqv a b _ hab iha => exact hS.eqv a b iha hab

/-- a closed set that contains the stabilizer rows contains the whole stabilizer group -/
theorem gspan_sub (T : Tab) (hr : T.StabReal) (S : PSet) (hS : Closed T.n S) (h : ∀ i, i < T.n → S (T.row (i + T.n))) :
    ∀ a, gspan T a → S a := by
  intro a ha
  refine inSpan_sub T.n T.n (STab.ofTab T).row S hS ?_ a ha
  intro i hi; rw [ofTab_row T hr i hi]; exact h i hi

theorem good_ofTab (T : Tab) (hv : T.Valid) (hr : T.StabReal) : (STab.ofTab T).Good := by
  constructor
  · intro i _; rfl
  · intro i k hi hk
    have hi' : i < T.n := hi
    have hk' : k < T.n := hk
    rw [ofTab_row T hr i hi', ofTab_row T hr k hk']
    show sp T.n _ _ = false
    rw [hv (i + T.n) (k + T.n) (by omega) (by omega)]
    exact decide_eq_false (by omega)

theorem gspan_comm (T : Tab) (hv : T.Valid) (hr : T.StabReal) (a b : PRow) (ha : gspan T a) (hb : gspan T b) :
    sp T.n a b = false := spn_comm (STab.ofTab T) (good_ofTab T hv hr) a b ha hb

theorem gspan_real (T : Tab) (hv : T.Valid) (hr : T.StabReal) (a : PRow) (ha : gspan T a) : a.ip = false :=
  spn_real (STab.ofTab T) (good_ofTab T hv hr) a ha

/-! ### tabulation and row maps -/

theorem norm_real (T : Tab) (hr : T.StabReal) : T.norm.StabReal := by
  intro i h1 h2
  have h1' : T.n ≤ i := h1
  have h2' : i < 2 * T.n := h2
  rw [(Tab.norm_row T i h2').2.2]; exact hr i h1' h2'

theorem gspan_norm (T : Tab) (hr : T.StabReal) : gspan T.norm = gspan T := by
  have hr' := norm_real T hr
  apply pset_ext; intro a
  constructor
  · apply gspan_sub T.norm hr' (gspan T) (gspan_closed T)
    intro i hi
    have hi' : i < T.n := hi
    show gspan T (T.norm.row (i + T.n))
    exact (gspan_closed T).eqv _ _ (gspan_gen T hr i hi') (Tab.norm_row T (i + T.n) (by omega)).symm
  · apply gspan_sub T hr (gspan T.norm) (gspan_closed T.norm)
    intro i hi
    have h : gspan T.norm (T.norm.row (i + T.n)) := gspan_gen T.norm hr' i hi
    exact (gspan_closed T.norm).eqv _ _ h (Tab.norm_row T (i + T.n) (by omega))

theorem tok_norm (n : Nat) (T : Tab) (hok : TOk n T) : TOk n T.norm :=
  ⟨Tab.norm_valid T hok.valid, norm_real T hok.real, hok.n_eq⟩

theorem map_real (T : Tab) (f : PRow → PRow) (hip : ∀ a, (f a).ip = a.ip) (hr : T.StabReal) : (T.map f).StabReal := by
  intro i h1 h2
  show (f (T.row i)).ip = false
  rw [hip]; exact hr i h1 h2

theorem preimg_closed (n : Nat) (f : PRow → PRow) (hf : GMap n f) (S : PSet) (hS : Closed n S) :
    Closed n (fun a => S (f a)) :=
  ⟨hS.eqv _ _ hS.one hf.one.symm, fun a b ha hb => hS.eqv _ _ (hS.mul _ _ ha hb) (hf.aut.mul a b).symm,
   fun a b ha hab => hS.eqv _ _ ha (hf.aut.congr a b hab)⟩

theorem gspan_map (T : Tab) (f : PRow → PRow) (hf : GMap T.n f) (hr : T.StabReal) :
    gspan (T.map f) = img T.n f (gspan T) := by
  have hr' := map_real T f hf.ip hr
  apply pset_ext; intro b
  constructor
  · apply gspan_sub (T.map f) hr' (img T.n f (gspan T)) (img_closed T.n f hf _ (gspan_closed T))
    intro i hi
    exact ⟨T.row (i + T.n), gspan_gen T hr i hi, EqOn.refl _ _⟩
  · rintro ⟨a, ha, eb⟩
    refine (gspan_closed (T.map f)).eqv _ _ ?_ eb
    refine gspan_sub T hr (fun a => gspan (T.map f) (f a))
      (preimg_closed T.n f hf _ (gspan_closed (T.map f))) ?_ a ha
    intro i hi
    exact gspan_gen (T.map f) hr' i hi

/-- **unitary step**: mapping the rows by a Pauli-group automorphism (and tabulating) maps the stabilizer group to its image -/
theorem map_refines (n : Nat) (f : PRow → PRow) (hf : GMap n f) (T : Tab) (hok : TOk n T) :
    TOk n (T.map f).norm ∧ gspan (T.map f).norm = img n f (gspan T) := by
  obtain ⟨hv, hr, hn⟩ := hok
  subst hn
  have hr1 := map_real T f hf.ip hr
  refine ⟨⟨Tab.norm_valid _ (map_valid T f hf.aut hv), norm_real _ hr1, rfl⟩, ?_⟩
  rw [gspan_norm _ hr1, gspan_map T f hf hr]

/-- the gate list of a wrapper, applied in reverse list order, is the row map `actW` -/
theorem gen1_eq_map (t : Tab) (g : Gen) (q : Nat) : gen1 t g q = t.map (genRow g q) := by
  cases g <;> rfl

theorem foldl_gen1 (gs : List Gen) (q : Nat) (T : Tab) :
    gs.reverse.foldl (fun t g => gen1 t g q) T = T.map (actW q gs) := by
  induction gs with
  | nil => rfl
  | cons g rest ih =>
    rw [List.reverse_cons, List.foldl_append, ih]
    show gen1 (T.map (actW q rest)) g q = _
    rw [gen1_eq_map]
    rfl

/-! ### row algebra used by the measurement -/

theorem addIf_false (n : Nat) (g a : PRow) : addIf n false g a = a := rfl
theorem addIf_true (n : Nat) (g a : PRow) : addIf n true g a = PRow.mul n g a := rfl

theorem addIf_congr (n : Nat) (c : Bool) (g a b : PRow) (h : EqOn n a b) : EqOn n (addIf n c g a) (addIf n c g b) := by
  cases c
  · exact h
  · exact mul_congr n g g a b (EqOn.refl _ _) h

/-- `a·(g·b) = g·(a·b)` for commuting `a`, `g` -/
theorem mul_swap (n : Nat) (g a b : PRow) (hc : sp n a g = false) :
    EqOn n (PRow.mul n a (PRow.mul n g b)) (PRow.mul n g (PRow.mul n a b)) :=
  ((PRow.mul_assoc n a g b).symm.trans (mul_congr n _ _ _ _ (PRow.mul_comm n a g hc) (EqOn.refl _ _))).trans
    (PRow.mul_assoc n g a b)

/-- `(g·a)·(g·b) = a·b` for a real `g` commuting with `a` -/
theorem mul_cancel (n : Nat) (g a b : PRow) (hg : g.ip = false) (hc : sp n a g = false) :
    EqOn n (PRow.mul n (PRow.mul n g a) (PRow.mul n g b)) (PRow.mul n a b) :=
  (PRow.mul_assoc n g a _).trans
    ((mul_congr n _ _ _ _ (EqOn.refl _ _) (mul_swap n g a b hc)).trans
      ((PRow.mul_assoc n g g _).symm.trans
        ((mul_congr n _ _ _ _ (PRow.mul_self n g hg) (EqOn.refl _ _)).trans (PRow.one_mul n _))))

theorem x_closed (n q : Nat) (hq : q < n) : Closed n (fun a => a.x q = false) := by
  refine ⟨rfl, ?_, ?_⟩
  · intro a b ha hb
    have ha' : a.x q = false := ha
    have hb' : b.x q = false := hb
    show xor (a.x q) (b.x q) = false
    rw [ha', hb']; rfl
  · intro a b ha hab
    have ha' : a.x q = false := ha
    show b.x q = false
    rw [← (hab.1 q hq).1]; exact ha'

/-! ### the random branch of the Z measurement -/

/-- a group element with an X on `q` forces the measurement of `q` to be random -/
theorem pivot_some (T : Tab) (q : Nat) (hq : q < T.n) (hr : T.StabReal) (a : PRow) (ha : gspan T a) (hx : a.x q = true) :
    ∃ pv, T.pivot q = some pv := by
  cases hp : T.pivot q with
  | some pv => exact ⟨pv, rfl⟩
  | none =>
    exfalso
    have h0 : a.x q = false :=
      gspan_sub T hr _ (x_closed T.n q hq) (fun i _ => findFrom_none _ _ _ hp (i + T.n) (by omega) (by omega)) a ha
    rw [hx] at h0; cases h0

theorem mr_row_pv (T : Tab) (q p : Nat) (o : Bool) :
    (T.measRandom q p o).row p = { (Zq q) with r := o, ip := (T.row p).ip } := by
  simp [measRandom]

theorem mr_pv_eqOn (T : Tab) (q pv : Nat) (o : Bool) (hip : (T.row pv).ip = false) :
    EqOn T.n (Zq q o) ((T.measRandom q pv o).row pv) := by
  rw [mr_row_pv, hip]; exact ⟨fun _ _ => ⟨rfl, rfl⟩, rfl, rfl⟩

theorem mr_real (T : Tab) (q pv : Nat) (o : Bool) (hv : T.Valid) (hr : T.StabReal) (hp1 : T.n ≤ pv) (hp2 : pv < 2 * T.n) :
    (T.measRandom q pv o).StabReal := by
  intro i h1 h2
  have h1' : T.n ≤ i := h1
  have h2' : i < 2 * T.n := h2
  by_cases e : i = pv
  · rw [e, mr_row_pv]; exact hr pv hp1 hp2
  · rw [mr_row_o T q pv i o e (by omega)]
    unfold addIf
    split
    · apply mul_real _ _ _ (hr pv hp1 hp2) (hr i h1' h2')
      rw [hv pv i hp2 h2']; exact decide_eq_false (by omega)
    · exact hr i h1' h2'

/-- every new stabilizer generator lies in `⟨(-1)^o Z_q, old elements commuting with Z_q⟩` -/
theorem mr_sub (T : Tab) (q pv : Nat) (o : Bool) (hv : T.Valid) (hr : T.StabReal) (hp1 : T.n ≤ pv) (hp2 : pv < 2 * T.n)
    (hx : (T.row pv).x q = true) :
    ∀ a, gspan (T.measRandom q pv o) a → measPost T.n q o (gspan T) a := by
  have hrM := mr_real T q pv o hv hr hp1 hp2
  apply gspan_sub (T.measRandom q pv o) hrM _ (cl_closed _ _)
  intro i hi
  have hi' : i < T.n := hi
  show Cl _ _ ((T.measRandom q pv o).row (i + T.n))
  by_cases e : i + T.n = pv
  · rw [e]; exact Cl.base _ (Or.inl (mr_pv_eqOn T q pv o (hr pv hp1 hp2)))
  · have e2 : i + T.n + T.n ≠ pv := by omega
    apply Cl.base; right
    constructor
    · rw [mr_row_o T q pv (i + T.n) o e e2]; unfold addIf; split
      · exact (gspan_closed T).mul _ _ (gspan_row T hr pv hp1 hp2) (gspan_gen T hr i hi')
      · exact gspan_gen T hr i hi'
    · exact measRandom_x T q pv o hx (i + T.n) e2

/-- every old element `a` survives as `a` (if it commutes with `Z_q`) or as `g·a` (`g` the old pivot row) -/
theorem mr_key (T : Tab) (q pv : Nat) (o : Bool) (hq : q < T.n) (hv : T.Valid) (hr : T.StabReal) (hp1 : T.n ≤ pv)
    (hp2 : pv < 2 * T.n) (hx : (T.row pv).x q = true) :
    ∀ a, gspan T a → gspan T a ∧ gspan (T.measRandom q pv o) (addIf T.n (a.x q) (T.row pv) a) := by
  have hrM := mr_real T q pv o hv hr hp1 hp2
  have CT := gspan_closed T
  have CM : Closed T.n (gspan (T.measRandom q pv o)) := gspan_closed (T.measRandom q pv o)
  have hg : gspan T (T.row pv) := gspan_row T hr pv hp1 hp2
  have hgr : (T.row pv).ip = false := hr pv hp1 hp2
  apply gspan_sub T hr (fun a => gspan T a ∧ gspan (T.measRandom q pv o) (addIf T.n (a.x q) (T.row pv) a))
  · refine ⟨⟨CT.one, CM.one⟩, ?_, ?_⟩
    · rintro a b ⟨ha, pa⟩ ⟨hb, pb⟩
      refine ⟨CT.mul a b ha hb, ?_⟩
      have hc : sp T.n a (T.row pv) = false := gspan_comm T hv hr a _ ha hg
      have hxm : (PRow.mul T.n a b).x q = xor (a.x q) (b.x q) := rfl
      rw [hxm]
      cases hxa : a.x q <;> cases hxb : b.x q <;> rw [hxa] at pa <;> rw [hxb] at pb
      · exact CM.mul a b pa pb
      · exact CM.eqv _ _ (CM.mul _ _ pa pb) (mul_swap T.n (T.row pv) a b hc)
      · exact CM.eqv _ _ (CM.mul _ _ pa pb) (PRow.mul_assoc T.n (T.row pv) a b)
      · exact CM.eqv _ _ (CM.mul _ _ pa pb) (mul_cancel T.n (T.row pv) a b hgr hc)
    · rintro a b ⟨ha, pa⟩ hab
      refine ⟨CT.eqv a b ha hab, ?_⟩
      have hxe : b.x q = a.x q := ((hab.1 q hq).1).symm
      rw [hxe]
      exact CM.eqv _ _ pa (addIf_congr T.n _ _ a b hab)
  · intro i hi
    refine ⟨gspan_gen T hr i hi, ?_⟩
    by_cases e : i + T.n = pv
    · rw [e, hx]
      exact CM.eqv _ _ CM.one (PRow.mul_self T.n (T.row pv) hgr).symm
    · have e2 : i + T.n + T.n ≠ pv := by omega
      have h : gspan (T.measRandom q pv o) ((T.measRandom q pv o).row (i + T.n)) :=
        gspan_gen (T.measRandom q pv o) hrM i hi
      rw [mr_row_o T q pv (i + T.n) o e e2] at h
      exact h

/-- **the random branch of `z_measurement_gate` on the stabilizer group** -/
theorem measRandom_gspan (T : Tab) (q pv : Nat) (o : Bool) (hq : q < T.n) (hv : T.Valid) (hr : T.StabReal) (hp1 : T.n ≤ pv)
    (hp2 : pv < 2 * T.n) (hx : (T.row pv).x q = true) :
    gspan (T.measRandom q pv o) = measPost T.n q o (gspan T) := by
  have hrM := mr_real T q pv o hv hr hp1 hp2
  have CM : Closed T.n (gspan (T.measRandom q pv o)) := gspan_closed (T.measRandom q pv o)
  apply pset_ext; intro a
  constructor
  · exact mr_sub T q pv o hv hr hp1 hp2 hx a
  · intro ha
    refine cl_le T.n _ _ CM ?_ a ha
    rintro b (hb | ⟨hb, hxb⟩)
    · exact CM.eqv _ _ (gspan_row (T.measRandom q pv o) hrM pv hp1 hp2) ((mr_pv_eqOn T q pv o (hr pv hp1 hp2)).symm.trans hb)
    · have h := (mr_key T q pv o hq hv hr hp1 hp2 hx b hb).2
      rw [hxb] at h
      exact h

/-! ### after the measurement: row `pv` is `(-1)^o Z_q`; this survives tabulation and an X on another qubit -/

/-- the stabilizer row `pv` of `T` is `(-1)^o Z_q` -/
structure PostMeas (n : Nat) (T : Tab) (q pv : Nat) (o : Bool) : Prop where
  hp1 : n ≤ pv
  hp2 : pv < 2 * n
  bits : SameBits n (T.row pv) (Zq q)
  sign : (T.row pv).r = o

theorem postMeas_mr (T : Tab) (q pv : Nat) (o : Bool) (hp1 : T.n ≤ pv) (hp2 : pv < 2 * T.n) :
    PostMeas T.n (T.measRandom q pv o) q pv o :=
  ⟨hp1, hp2, mr_row_p T q pv o, by rw [mr_row_pv]⟩

theorem postMeas_norm (T : Tab) (q pv : Nat) (o : Bool) (h : PostMeas T.n T q pv o) : PostMeas T.n T.norm q pv o := by
  have e := Tab.norm_row T pv h.hp2
  refine ⟨h.hp1, h.hp2, fun j hj => ⟨((e.1 j hj).1).trans (h.bits j hj).1, ((e.1 j hj).2).trans (h.bits j hj).2⟩, ?_⟩
  rw [e.2.1]; exact h.sign

theorem tX_ap (x z : Bool) : tX.ap x z = (x, z, z) := by cases x <;> cases z <;> rfl

theorem xg_x (q : Nat) (a : PRow) (j : Nat) : (PRow.xg q a).x j = a.x j := by
  rw [xg_eq_lift]
  show (if j = q then (tX.ap (a.x q) (a.z q)).1 else a.x j) = a.x j
  split
  · next h => rw [tX_ap, h]
  · rfl

theorem xg_z (q : Nat) (a : PRow) (j : Nat) : (PRow.xg q a).z j = a.z j := by
  rw [xg_eq_lift]
  show (if j = q then (tX.ap (a.x q) (a.z q)).2.1 else a.z j) = a.z j
  split
  · next h => rw [tX_ap, h]
  · rfl

theorem xg_r (q : Nat) (a : PRow) : (PRow.xg q a).r = xor a.r (a.z q) := by
  rw [xg_eq_lift]
  show xor a.r (tX.ap (a.x q) (a.z q)).2.2 = _
  rw [tX_ap]

theorem postMeas_xg (T : Tab) (q pv p : Nat) (o : Bool) (hp : p < T.n) (hne : p ≠ q) (h : PostMeas T.n T q pv o) :
    PostMeas T.n (T.map (PRow.xg p)) q pv o := by
  refine ⟨h.hp1, h.hp2, fun j hj => ?_, ?_⟩
  · show (PRow.xg p (T.row pv)).x j = _ ∧ (PRow.xg p (T.row pv)).z j = _
    rw [xg_x, xg_z]; exact h.bits j hj
  · show (PRow.xg p (T.row pv)).r = o
    rw [xg_r, (h.bits p hp).2]
    show xor (T.row pv).r (decide (p = q)) = o
    rw [decide_eq_false hne, Bool.xor_false]; exact h.sign

/-! ### the reset after the measurement: its internal measurement is deterministic, with the same outcome -/

theorem findFrom_eq_none (lo hi : Nat) (f : Nat → Bool) (h : ∀ i, lo ≤ i → i < hi → f i = false) :
    findFrom lo hi f = none := by
  unfold findFrom
  have e : (List.range hi).filter (fun i => decide (lo ≤ i) && f i) = [] := by
    rw [List.filter_eq_nil_iff]
    intro i hi'
    have h2 := List.mem_range.mp hi'
    by_cases hl : lo ≤ i
    · simp [h i hl h2]
    · simp [hl]
  rw [e]; rfl

theorem filter_range_single (k : Nat) (f : Nat → Bool) :
    ∀ n, (∀ d, d < n → f d = decide (d = k)) → (List.range n).filter f = if k < n then [k] else [] := by
  intro n
  induction n with
  | zero => intro _; rfl
  | succ m ih =>
    intro h
    have hm := h m (by omega)
    rw [List.range_succ, List.filter_append, ih (fun d hd => h d (by omega))]
    rcases Nat.lt_trichotomy k m with h1 | h1 | h1
    · have e1 : ¬ (m = k) := by omega
      have e2 : k < m + 1 := by omega
      simp [h1, e2, hm, e1]
    · simp [hm, h1]
    · have e0 : ¬ (m = k) := by omega
      have e1 : ¬ (k < m) := by omega
      have e2 : ¬ (k < m + 1) := by omega
      simp [e1, e2, hm, e0]

/-- in a valid tableau whose row `pv` is `±Z_q`, the only row with an X on `q` is the destabilizer partner of `pv` -/
theorem postMeas_x (T : Tab) (q pv : Nat) (o : Bool) (hq : q < T.n) (hv : T.Valid) (h : PostMeas T.n T q pv o)
    (i : Nat) (hi : i < 2 * T.n) : (T.row i).x q = decide (i + T.n = pv) := by
  have e := hv i pv hi h.hp2
  rw [sp_congr _ _ _ _ _ (sameBits_refl _ _) h.bits, sp_Zq _ _ _ _ hq] at e
  rw [e]
  have := h.hp1
  exact decide_eq_decide.mpr (by omega)

/-- **the reset after the measurement**: no stabilizer row has an X on `q` (deterministic branch, no drawn bit is used),
    and the scratch row of the deterministic branch carries the sign `o` of the first measurement -/
theorem reset_after_meas (T : Tab) (q pv : Nat) (o : Bool) (hq : q < T.n) (hv : T.Valid) (h : PostMeas T.n T q pv o) :
    T.pivot q = none ∧ (T.measScratch q).r = o := by
  have hp1 := h.hp1
  have hp2 := h.hp2
  constructor
  · apply findFrom_eq_none
    intro i h1 h2
    show (T.row i).x q = false
    rw [postMeas_x T q pv o hq hv h i h2]
    exact decide_eq_false (by omega)
  · have hf : filterTo T.n (fun d => (T.row d).x q) = [pv - T.n] := by
      have h1 : ∀ d, d < T.n → (fun d => (T.row d).x q) d = decide (d = pv - T.n) := by
        intro d hd
        show (T.row d).x q = _
        rw [postMeas_x T q pv o hq hv h d (by omega)]
        exact decide_eq_decide.mpr (by omega)
      unfold filterTo
      rw [filter_range_single (pv - T.n) _ T.n h1, if_pos (by omega)]
    unfold measScratch
    rw [hf]
    show (PRow.mul T.n (T.row (pv - T.n + T.n)) PRow.one).r = o
    rw [Nat.sub_add_cancel hp1, (PRow.mul_one T.n _).2.1]; exact h.sign

/-! ### the run state of `MeasurementCNOTandReset` -/

theorem measure_prob (s : RunState) (q pv : Nat) (hp : s.t.pivot q = some pv) :
    (s.measure .prob q).1.t = (s.t.measRandom q pv (s.script.headD false)).norm ∧
    (s.measure .prob q).2 = s.script.headD false := by
  unfold RunState.measure RunState.offer Tab.zMeasure
  simp [hp]

theorem resetQ_prob (s : RunState) (q : Nat) (hp : s.t.pivot q = none) :
    (s.resetQ .prob q).t = (if (s.t.measScratch q).r = false then s.t else s.t.xGate q).norm := by
  unfold RunState.resetQ RunState.offer Tab.resetZ Tab.zMeasure
  simp [hp]

/-- the tableau after the measurement of `E` (random, outcome `o`, pivot `pv`) and the classically controlled X on `p` -/
def mcrT2 (T : Tab) (E p pv : Nat) (o : Bool) : Tab :=
  if o then (((T.measRandom E pv o).norm).xGate p).norm else (T.measRandom E pv o).norm

/-- **`MeasurementCNOTandReset` on the tableau**: the measurement is random; after it (and the controlled X) the reset's own
    measurement is deterministic; the final tableau generates `mcrPost … o` of the initial stabilizer group -/
theorem mcr_tab_refines (n E p : Nat) (hE : E < n) (hp : p < n) (hne : p ≠ E) (T : Tab) (hok : TOk n T)
    (hx : ∃ a, gspan T a ∧ a.x E = true) (o : Bool) :
    ∃ pv, T.pivot E = some pv ∧ (mcrT2 T E p pv o).pivot E = none ∧
      TOk n (if ((mcrT2 T E p pv o).measScratch E).r = false then mcrT2 T E p pv o
        else (mcrT2 T E p pv o).xGate E).norm ∧
      gspan (if ((mcrT2 T E p pv o).measScratch E).r = false then mcrT2 T E p pv o
        else (mcrT2 T E p pv o).xGate E).norm = mcrPost n E p o (gspan T) := by
  obtain ⟨hv, hr, hn⟩ := hok
  subst hn
  obtain ⟨a, ha, hxa⟩ := hx
  obtain ⟨pv, hpv⟩ := pivot_some T E hE hr a ha hxa
  obtain ⟨hp1, hp2, hxp⟩ := pivot_spec T E pv hpv
  refine ⟨pv, hpv, ?_⟩
  have hv0 := measRandom_valid T E pv o hv hE hp1 hp2 hxp
  have hr0 := mr_real T E pv o hv hr hp1 hp2
  have hs0 := measRandom_gspan T E pv o hE hv hr hp1 hp2 hxp
  have ok1 : TOk T.n (T.measRandom E pv o).norm := tok_norm T.n _ ⟨hv0, hr0, rfl⟩
  have hs1 : gspan (T.measRandom E pv o).norm = measPost T.n E o (gspan T) := by rw [gspan_norm _ hr0, hs0]
  have pm1 : PostMeas T.n (T.measRandom E pv o).norm E pv o :=
    postMeas_norm (T.measRandom E pv o) E pv o (postMeas_mr T E pv o hp1 hp2)
  cases o with
  | false =>
    have e2 : mcrT2 T E p pv false = (T.measRandom E pv false).norm := rfl
    rw [e2]
    obtain ⟨hnone, hsc⟩ : (T.measRandom E pv false).norm.pivot E = none ∧
        ((T.measRandom E pv false).norm.measScratch E).r = false :=
      reset_after_meas (T.measRandom E pv false).norm E pv false hE ok1.valid pm1
    refine ⟨hnone, ?_⟩
    rw [hsc, if_pos rfl]
    refine ⟨tok_norm T.n _ ok1, ?_⟩
    rw [gspan_norm _ ok1.real, hs1]
    rfl
  | true =>
    have e2 : mcrT2 T E p pv true = (((T.measRandom E pv true).norm).xGate p).norm := rfl
    rw [e2]
    obtain ⟨ok2, hs2⟩ : TOk T.n (((T.measRandom E pv true).norm).xGate p).norm ∧
        gspan (((T.measRandom E pv true).norm).xGate p).norm = img T.n (PRow.xg p) (gspan (T.measRandom E pv true).norm) :=
      map_refines T.n (PRow.xg p) (gmap_xg T.n p hp) (T.measRandom E pv true).norm ok1
    have pm2 : PostMeas T.n (((T.measRandom E pv true).norm).xGate p).norm E pv true :=
      postMeas_norm (((T.measRandom E pv true).norm).map (PRow.xg p)) E pv true
        (postMeas_xg (T.measRandom E pv true).norm E pv p true hp hne pm1)
    obtain ⟨hnone, hsc⟩ : (((T.measRandom E pv true).norm).xGate p).norm.pivot E = none ∧
        ((((T.measRandom E pv true).norm).xGate p).norm.measScratch E).r = true :=
      reset_after_meas (((T.measRandom E pv true).norm).xGate p).norm E pv true hE ok2.valid pm2
    refine ⟨hnone, ?_⟩
    rw [hsc, if_neg (by decide)]
    obtain ⟨ok3, hs3⟩ : TOk T.n (((((T.measRandom E pv true).norm).xGate p).norm).xGate E).norm ∧
        gspan (((((T.measRandom E pv true).norm).xGate p).norm).xGate E).norm =
          img T.n (PRow.xg E) (gspan (((T.measRandom E pv true).norm).xGate p).norm) :=
      map_refines T.n (PRow.xg E) (gmap_xg T.n E hE) (((T.measRandom E pv true).norm).xGate p).norm ok2
    refine ⟨ok3, ?_⟩
    rw [hs3, hs2, hs1, img_img T.n (PRow.xg E) (PRow.xg p) (gmap_xg T.n E hE).aut]
    rfl

theorem qIndex_regOf (np q : Nat) : qIndex np (regOf np q) = q := by
  unfold regOf
  split
  · rfl
  · show q - np + np = q; omega

end Refine

open Refine

theorem tok_ket0 (n : Nat) : TOk n (Tab.ket0 n) := by
  refine ⟨ket0_valid n, ?_, rfl⟩
  intro i h1 h2
  have h1' : n ≤ i := h1
  have e : ¬ (i < n) := by omega
  simp [Tab.ket0, e, Zq]

theorem gspan_ket0 (n : Nat) : gspan (Tab.ket0 n) = (STab.zero n).Spn := by
  have e : STab.ofTab (Tab.ket0 n) = STab.zero n := by
    unfold STab.ofTab STab.zero Tab.ket0
    congr 1
    funext i
    have e : ¬ (i + n < n) := by omega
    simp [e, Zq]
  unfold gspan
  rw [e]

/-- one step of the compiled run refines one step of the group semantics -/
theorem stepOp_refines (np ne : Nat) (op : SOp) (rs : RunState) (hok : TOk (np + ne) rs.t)
    (hpre : gpre np ne op (gspan rs.t)) :
    ∃ rs' o, stepOp np (np + ne) .prob rs (op.toCOp np) = some rs' ∧ TOk (np + ne) rs'.t ∧
      gspan rs'.t = gstep np ne op o (gspan rs.t) := by
  obtain ⟨hwf, hrand⟩ := hpre
  cases op with
  | wrap gs q =>
    have hq : q < np + ne := hwf
    obtain ⟨h1, h2⟩ := map_refines (np + ne) (actW q gs) (gmap_actW _ q hq gs) rs.t hok
    refine ⟨{ rs with t := (rs.t.map (actW q gs)).norm }, false, ?_, h1, h2⟩
    simp only [SOp.toCOp, stepOp, qIndex_regOf, if_pos hq, foldl_gen1]
  | emit e p =>
    obtain ⟨he, hp⟩ : e < ne ∧ p < np := hwf
    obtain ⟨h1, h2⟩ := map_refines (np + ne) (PRow.cnot (np + e) p)
      (gmap_cnot _ _ _ (by omega) (by omega) (by omega)) rs.t hok
    refine ⟨{ rs with t := (rs.t.cnotGate (np + e) p).norm }, false, ?_, h1, h2⟩
    have hE : qIndex np ⟨.e, e⟩ = np + e := Nat.add_comm e np
    have hP : qIndex np ⟨.p, p⟩ = p := rfl
    simp only [SOp.toCOp, stepOp, hE, hP]
    rw [if_pos ⟨by omega, by omega⟩]
  | cnotEE c t =>
    obtain ⟨hc, ht, hct⟩ : c < ne ∧ t < ne ∧ c ≠ t := hwf
    obtain ⟨h1, h2⟩ := map_refines (np + ne) (PRow.cnot (np + c) (np + t))
      (gmap_cnot _ _ _ (by omega) (by omega) (by omega)) rs.t hok
    refine ⟨{ rs with t := (rs.t.cnotGate (np + c) (np + t)).norm }, false, ?_, h1, h2⟩
    have hC : qIndex np ⟨.e, c⟩ = np + c := Nat.add_comm c np
    have hT : qIndex np ⟨.e, t⟩ = np + t := Nat.add_comm t np
    simp only [SOp.toCOp, stepOp, hC, hT]
    rw [if_pos ⟨by omega, by omega⟩]
  | mcr e p =>
    obtain ⟨he, hp⟩ : e < ne ∧ p < np := hwf
    obtain ⟨pv, hpv, hnone, h1, h2⟩ := mcr_tab_refines (np + ne) (np + e) p (by omega) (by omega) (by omega) rs.t hok
      hrand (rs.script.headD false)
    obtain ⟨hm1, hm2⟩ := measure_prob rs (np + e) pv hpv
    refine ⟨(((rs.measure .prob (np + e)).1.condX (rs.measure .prob (np + e)).2 p).write 0
      (rs.measure .prob (np + e)).2).resetQ .prob (np + e), rs.script.headD false, ?_, ?_⟩
    · have hE : qIndex np ⟨.e, e⟩ = np + e := Nat.add_comm e np
      have hP : qIndex np ⟨.p, p⟩ = p := rfl
      simp only [SOp.toCOp, stepOp, hE, hP]
      rw [if_pos ⟨by omega, by omega⟩]
    · have ht2 : (((rs.measure .prob (np + e)).1.condX (rs.measure .prob (np + e)).2 p).write 0
          (rs.measure .prob (np + e)).2).t = mcrT2 rs.t (np + e) p pv (rs.script.headD false) := by
        show (if (rs.measure .prob (np + e)).2 then (((rs.measure .prob (np + e)).1.t).xGate p).norm
          else (rs.measure .prob (np + e)).1.t) = _
        rw [hm2, hm1]; rfl
      rw [resetQ_prob _ _ (by rw [ht2]; exact hnone), ht2]
      exact ⟨h1, h2⟩

/-- a whole run: if the group semantics guarantees the target (`GGen`), the tableau run succeeds and ends in the target group,
    for EVERY remaining outcome script `rs.script` -/
theorem run_refines (np ne : Nat) (T0 : PSet) (c : List SOp) (rs : RunState) (hok : TOk (np + ne) rs.t)
    (hg : GGen np ne T0 c (gspan rs.t)) :
    ∃ rs', (c.map (SOp.toCOp np)).foldlM (stepOp np (np + ne) .prob) rs = some rs' ∧ TOk (np + ne) rs'.t ∧
      gspan rs'.t = T0 := by
  induction c generalizing rs with
  | nil => exact ⟨rs, rfl, hok, hg⟩
  | cons op rest ih =>
    obtain ⟨hpre, hall⟩ := hg
    obtain ⟨rs1, o, h1, hok1, hsp⟩ := stepOp_refines np ne op rs hok hpre
    obtain ⟨rs', h2, hok2, hfin⟩ := ih rs1 hok1 (by rw [hsp]; exact hall o)
    refine ⟨rs', ?_, hok2, hfin⟩
    simp only [List.map_cons, List.foldlM, h1, Option.bind_eq_bind, Option.bind_some]
    exact h2

end Graphiq.Solver
