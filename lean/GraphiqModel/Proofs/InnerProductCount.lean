/-
  Proofs/InnerProductCount.lean — the count of the brute-force executable specification (`STab.commonCount`, the number
  of subsets of `a`'s rows whose product lies in the group of `b`) equals `2^dim(A ∩ B)`: for independent real commuting
  generators of `A` the subsets are in bijection with the elements of `A`, and an independent generating set of `d`
  elements of `A ∩ B` puts its `2^d` subsets in bijection with the elements of `A ∩ B`.  All sizes.
-/
import GraphiqModel.Proofs.InnerProductExec
import GraphiqModel.Proofs.InnerProductFull
import Mathlib.Data.Fintype.Card
import Mathlib.Data.Fintype.Pi
import Mathlib.Data.Fintype.BigOperators
namespace Graphiq
open PRow Tab
namespace STab

/-- equal subset products of elements of a real commuting group: the symmetric difference multiplies to `+I` -/
theorem sprod_gens_diff (A : STab) (hg : A.Good) (gens : Nat → PRow) (d : Nat) (hm : ∀ i, i < d → A.Spn (gens i))
    (S T : Nat → Bool) (e : EqOn A.n (sprod A.n gens S d) (sprod A.n gens T d)) :
    EqOn A.n (sprod A.n gens (fun i => xor (S i) (T i)) d) PRow.one := by
  have real1 := spn_real A hg _ (sprod_spn_gens A gens d hm S d (Nat.le_refl _))
  exact ((sprod_mul_gens A hg gens d hm S T d (Nat.le_refl _)).symm.trans
    (mul_congr A.n _ _ _ _ (EqOn.refl _ _) e.symm)).trans (mul_self A.n _ real1)

/-- two masks below `2^n` with the same subset product of independent rows are equal -/
theorem mask_unique (a : STab) (ga : a.Good) (ia : a.Indep) (m m' : Nat) (hm : m < 2 ^ a.n) (hm' : m' < 2 ^ a.n)
    (e : EqOn a.n (mprod a.n a.row m a.n) (mprod a.n a.row m' a.n)) : m = m' := by
  rw [mprod_eq_sprod, mprod_eq_sprod] at e
  have one := sprod_gens_diff a ga a.row a.n (fun i hi => spn_gen a i hi) _ _ e
  have z := indep_sprod a ia _ one.1
  apply Nat.eq_of_testBit_eq
  intro i
  by_cases hi : i < a.n
  · have := z i hi
    revert this
    cases m.testBit i <;> cases m'.testBit i <;> simp
  · have h1 : m < 2 ^ i := Nat.lt_of_lt_of_le hm (Nat.pow_le_pow_right (by decide) (by omega))
    have h2 : m' < 2 ^ i := Nat.lt_of_lt_of_le hm' (Nat.pow_le_pow_right (by decide) (by omega))
    rw [Nat.testBit_lt_two_pow h1, Nat.testBit_lt_two_pow h2]

/-- **the brute-force count is `2^dim(A ∩ B)`** -/
theorem commonCount_eq (a b : STab) (ga : a.Good) (gb : b.Good) (ia : a.Indep) (hn : a.n = b.n) (d : Nat)
    (h : OverlapDim a b d) : a.commonCount b = 2 ^ d := by
  obtain ⟨gens, hb⟩ := h
  have hlen : a.commonCount b = ((Finset.range (2 ^ a.n)).filter (fun m => a.commonB b m = true)).card := by
    unfold commonCount
    rw [← List.toFinset_card_of_nodup (List.nodup_range.filter _)]
    congr 1
    ext m
    simp [List.mem_filter]
  rw [hlen]
  have repr : ∀ S : Fin d → Bool, ∃ m, m < 2 ^ a.n ∧ EqOn a.n (sprod a.n gens (extv S) d) (mprod a.n a.row m a.n) :=
    fun S => (spn_iff_mask a ga _).1 (sprod_spn_gens a gens d hb.memA (extv S) d (Nat.le_refl _))
  let φ : (Fin d → Bool) → Nat := fun S => Classical.choose (repr S)
  have hφ : ∀ S, φ S < 2 ^ a.n ∧ EqOn a.n (sprod a.n gens (extv S) d) (mprod a.n a.row (φ S) a.n) :=
    fun S => Classical.choose_spec (repr S)
  have inB : ∀ S : Nat → Bool, b.Spn (sprod a.n gens S d) := by
    intro S
    have := sprod_spn_gens b gens d hb.memB S d (Nat.le_refl _)
    rw [← hn] at this; exact this
  have card := Finset.card_bij (s := (Finset.univ : Finset (Fin d → Bool)))
    (t := (Finset.range (2 ^ a.n)).filter (fun m => a.commonB b m = true)) (fun S _ => φ S)
    (by
      intro S _
      rw [Finset.mem_filter, Finset.mem_range]
      refine ⟨(hφ S).1, (commonB_iff a b gb hn _).2 ?_⟩
      have := inB (extv S)
      unfold Spn at this ⊢
      rw [← hn] at this ⊢
      exact InSpan.eqv _ _ this (hφ S).2)
    (by
      intro S _ T _ e
      have e' : φ S = φ T := e
      have h1 := (hφ S).2
      have h2 := (hφ T).2
      rw [e'] at h1
      have z := hb.indep _ (sprod_gens_diff a ga gens d hb.memA _ _ (h1.trans h2.symm))
      funext i
      have := z i.1 i.2
      rw [extv_lt S i.1 i.2, extv_lt T i.1 i.2] at this
      revert this
      cases S i <;> cases T i <;> simp)
    (by
      intro m hm
      rw [Finset.mem_filter, Finset.mem_range] at hm
      have hB : b.Spn (mprod a.n a.row m a.n) := (commonB_iff a b gb hn m).1 hm.2
      have hA : a.Spn (mprod a.n a.row m a.n) := (spn_iff_mask a ga _).2 ⟨m, hm.1, EqOn.refl _ _⟩
      obtain ⟨S, hS⟩ := hb.span _ hA hB
      refine ⟨fun i => S i.1, Finset.mem_univ _, ?_⟩
      have e : sprod a.n gens (extv fun i : Fin d => S i.1) d = sprod a.n gens S d :=
        sprod_congr a.n gens _ _ d (fun i hi => by rw [extv_lt _ i hi])
      have h2 := (hφ (fun i => S i.1)).2
      rw [e] at h2
      exact mask_unique a ga ia _ _ (hφ _).1 hm.1 (h2.symm.trans hS.symm))
  rw [← card, Finset.card_univ, Fintype.card_fun, Fintype.card_bool, Fintype.card_fin]

end STab
end Graphiq
