/-
  Depth.lean — `_max_depth` (the literal, un-memoised recursion of circuit_dag.py) equals the ASAP layering of the
  operation list, for every circuit built by `add` (C18).
-/
import GraphiqModel.Proofs.Metrics
set_option linter.unusedSectionVars false
set_option linter.unusedSimpArgs false
namespace Graphiq
namespace Dag
open Relation Metrics

/-! ## relational description of the recursion -/

/-- `root_node in self.node_dict["Input"]` -/
def isInputNode (c : Dag) (n : NodeId) : Prop := (dictGet c.nodeDict "Input").contains n = true

/-- `HasDepth c n d`: the recursion `_max_depth(n)` (input nodes: −1, otherwise 1 + maximum over the sources of the
    in-edges) yields `d`.  `D` assigns to every in-edge the depth of its source. -/
inductive HasDepth (c : Dag) : NodeId → Int → Prop
  | input {n : NodeId} : isInputNode c n → HasDepth c n (-1)
  | node {n : NodeId} {d : Int} (D : Edge → Int) : ¬ isInputNode c n →
      (∀ e ∈ c.edges, e.dst = n → HasDepth c e.src (D e)) →
      (∀ e ∈ c.edges, e.dst = n → D e ≤ d) →
      (∃ e ∈ c.edges, e.dst = n ∧ D e = d) → HasDepth c n (d + 1)

theorem HasDepth.ge {c : Dag} {n : NodeId} {d : Int} (h : HasDepth c n d) : -1 ≤ d := by
  induction h with
  | input _ => exact Int.le_refl _
  | node D _ _ hle hex ih =>
    obtain ⟨e, he, hd, hD⟩ := hex
    have := ih e he hd
    omega

theorem mapM_ok_of_forall {α β : Type} (g : β → Except DErr Int) (s : α → β) (D : α → Int) (l : List α)
    (h : ∀ a ∈ l, g (s a) = .ok (D a)) : (l.map s).mapM g = .ok (l.map D) := by
  induction l with
  | nil => rfl
  | cons a t ih =>
    rw [List.map_cons, List.mapM_cons, h a (by simp), ih (fun x hx => h x (List.mem_cons_of_mem _ hx))]
    rfl

theorem foldl_max_eq {d0 : Int} {rest : List Int} {d : Int} (hle : ∀ x ∈ d0 :: rest, x ≤ d) (hmem : d ∈ d0 :: rest) :
    rest.foldl max d0 = d := by
  induction rest generalizing d0 with
  | nil => simp at hmem; simp [hmem]
  | cons a t ih =>
    rw [List.foldl_cons]
    apply ih
    · intro x hx
      rcases List.mem_cons.mp hx with rfl | hx
      · have h1 := hle d0 (by simp); have h2 := hle a (by simp); omega
      · exact hle x (by simp [hx])
    · rcases List.mem_cons.mp hmem with rfl | hm
      · have h2 := hle a (by simp)
        have : max d a = d := by omega
        rw [this]; simp
      · rcases List.mem_cons.mp hm with rfl | hm
        · have h1 := hle d0 (by simp)
          have : max d0 d = d := by omega
          rw [this]; simp
        · simp [hm]

/-- the literal recursion returns the depth as soon as the fuel exceeds it by two (it never needs more than the length
    of the longest chain below the node) -/
theorem maxDepth_of_hasDepth {c : Dag} {n : NodeId} {d : Int} (h : HasDepth c n d) :
    ∀ f : Nat, d + 2 ≤ (f : Int) → c.maxDepth f n = .ok d := by
  induction h with
  | @input n hin =>
    intro f hf
    cases f with
    | zero => simp at hf
    | succ f' => unfold maxDepth; unfold isInputNode at hin; rw [if_pos hin]
  | @node n d D hnin hpred hle hex ih =>
    intro f hf
    have hge : -1 ≤ d := by
      obtain ⟨e, he, hd, hD⟩ := hex
      have := (hpred e he hd).ge; omega
    cases f with
    | zero => omega
    | succ f' =>
      unfold maxDepth
      unfold isInputNode at hnin
      rw [if_neg hnin]
      have hall : ∀ e ∈ c.inEdges n, c.maxDepth f' e.src = .ok (D e) := by
        intro e he
        have he' := List.mem_filter.mp he
        have hd : e.dst = n := by simpa using he'.2
        apply ih e he'.1 hd
        have := hle e he'.1 hd
        push_cast at hf ⊢; omega
      simp only
      rw [mapM_ok_of_forall (c.maxDepth f') (·.src) D _ hall]
      simp only
      obtain ⟨e, he, hd, hD⟩ := hex
      have hmem : e ∈ c.inEdges n := by simp [inEdges, he, hd]
      cases hl : (c.inEdges n).map D with
      | nil =>
        have : D e ∈ (c.inEdges n).map D := List.mem_map.mpr ⟨_, hmem, rfl⟩
        rw [hl] at this; simp at this
      | cons d0 rest =>
        simp only
        have hle' : ∀ x ∈ d0 :: rest, x ≤ d := by
          intro x hx
          rw [← hl] at hx
          obtain ⟨e', he', rfl⟩ := List.mem_map.mp hx
          have he'' := List.mem_filter.mp he'
          exact hle e' he''.1 (by simpa using he''.2)
        have hmem' : d ∈ d0 :: rest := by
          rw [← hl, ← hD]
          exact List.mem_map.mpr ⟨e, hmem, rfl⟩
        rw [foldl_max_eq hle' hmem']

/-! ## moving a derivation to a circuit that agrees on the relevant part -/

theorem HasDepth.transfer {c c' : Dag} (S : NodeId → Prop)
    (hclosed : ∀ e ∈ c.edges, S e.dst → S e.src)
    (hedges : ∀ x, S x → ∀ e, (e ∈ c'.edges ∧ e.dst = x) ↔ (e ∈ c.edges ∧ e.dst = x))
    (hin : ∀ x, S x → (isInputNode c' x ↔ isInputNode c x))
    {n : NodeId} {d : Int} (h : HasDepth c n d) (hS : S n) : HasDepth c' n d := by
  induction h with
  | @input n hi => exact HasDepth.input ((hin n hS).mpr hi)
  | @node n d D hnin hpred hle hex ih =>
    apply HasDepth.node D (fun h => hnin ((hin n hS).mp h))
    · intro e he hd
      have := (hedges n hS e).mp ⟨he, hd⟩
      exact ih e this.1 this.2 (hclosed e this.1 (this.2 ▸ hS))
    · intro e he hd
      have := (hedges n hS e).mp ⟨he, hd⟩
      exact hle e this.1 this.2
    · obtain ⟨e, he, hd, hD⟩ := hex
      have := (hedges n hS e).mpr ⟨he, hd⟩
      exact ⟨e, this.1, this.2, hD⟩

/-- under the invariant, membership in `node_dict["Input"]` is "the node's keys contain Input" -/
theorem isInputNode_iff {c : Dag} {P : Paths} (h : Inv c P) (n : NodeId) : isInputNode c n ↔ "Input" ∈ c.keysAt n := by
  unfold isInputNode
  rw [List.contains_iff_mem, ← indexCount_pos_iff, ← h.nodeDict_ok]
  exact List.count_pos_iff.symm

theorem isInputNode_inp {c : Dag} {P : Paths} (h : Inv c P) {r : Reg} (hl : c.live r) : isInputNode c (.inp r) := by
  rw [isInputNode_iff h]
  obtain ⟨op, hop⟩ := mem_nodeIds.mp ((h.inp_iff r).mpr hl)
  unfold keysAt
  rw [(opOf_eq_some h.ids_nodup).mpr hop]
  simp [indexKeysOf]

theorem not_isInputNode_out {c : Dag} {P : Paths} (h : Inv c P) (r : Reg) : ¬ isInputNode c (.out r) := by
  rw [isInputNode_iff h]
  unfold keysAt
  cases ho : c.opOf? (.out r) with
  | none => simp
  | some op => simp [indexKeysOf]

/-- depth of an output node from the depth of the node before it on the wire -/
theorem HasDepth.out_of_pred {c : Dag} {P : Paths} (h : Inv c P) {r : Reg} (hl : c.live r) {d : Int}
    (hp : HasDepth c (predOut P r) d) : HasDepth c (.out r) (d + 1) := by
  have hin := h.inEdges_out hl
  have huniq : ∀ e ∈ c.edges, e.dst = .out r → e = lastEdge P r := by
    intro e he hd
    have : e ∈ c.inEdges (.out r) := by simp [inEdges, he, hd]
    rw [hin] at this; simpa using this
  apply HasDepth.node (fun _ => d) (not_isInputNode_out h r)
  · intro e he hd; rw [huniq e he hd]; exact hp
  · intro e _ _; exact Int.le_refl _
  · exact ⟨lastEdge P r, h.lastEdge_mem hl, rfl, rfl⟩

/-- … and conversely -/
theorem HasDepth.pred_of_out {c : Dag} {P : Paths} (h : Inv c P) {r : Reg} (hl : c.live r) {d : Int}
    (ho : HasDepth c (.out r) d) : HasDepth c (predOut P r) (d - 1) := by
  cases ho with
  | input hi => exact absurd hi (not_isInputNode_out h r)
  | @node _ d' D _ hpred hle hex =>
    have := hpred (lastEdge P r) (h.lastEdge_mem hl) rfl
    obtain ⟨e, he, hd, hD⟩ := hex
    have hin := h.inEdges_out hl
    have : e = lastEdge P r := by
      have : e ∈ c.inEdges (.out r) := by simp [inEdges, he, hd]
      rw [hin] at this; simpa using this
    subst this
    have h2 := hpred _ he hd
    rw [hD] at h2
    have h3 : d' + 1 - 1 = d' := by omega
    rw [h3]; exact h2


/-! ## the depth invariant of a circuit under construction -/

/-- every existing register's output has depth `F r`; registers that do not exist yet have `F r = 0` -/
def DepthInv (c : Dag) (F : Reg → Int) : Prop :=
  (∀ r, c.live r → HasDepth c (.out r) (F r)) ∧ (∀ r, ¬ c.live r → F r = 0)

theorem opOf_append_other {c c' : Dag} {extra : List (NodeId × Op)} (h : c'.nodes = c.nodes ++ extra) {x : NodeId}
    (hx : ∀ p ∈ extra, p.1 ≠ x) (_hc : x ∈ c.nodeIds ∨ True) : c'.opOf? x = (match c.opOf? x with | some o => some o | none => none) := by
  unfold opOf?
  rw [h, List.find?_append]
  have : extra.find? (fun p => decide (p.1 = x)) = none := by
    rw [List.find?_eq_none]; intro p hp; simpa using hx p hp
  rw [this]
  cases c.nodes.find? (fun p => decide (p.1 = x)) <;> rfl

theorem keysAt_append_other {c c' : Dag} {extra : List (NodeId × Op)} (h : c'.nodes = c.nodes ++ extra) {x : NodeId}
    (hx : ∀ p ∈ extra, p.1 ≠ x) : c'.keysAt x = c.keysAt x := by
  unfold keysAt
  rw [opOf_append_other h hx (Or.inr trivial)]
  cases c.opOf? x <;> rfl

theorem predOut_two (P : Paths) (r : Reg) (a b : NodeId) (h : P r = [a, b]) : predOut P r = a := by
  simp [predOut, h]

theorem HasDepth.unique {c : Dag} {n : NodeId} {d1 : Int} (h1 : HasDepth c n d1) : ∀ {d2 : Int}, HasDepth c n d2 → d1 = d2 := by
  induction h1 with
  | @input n hi =>
    intro d2 h2
    cases h2 with
    | input _ => rfl
    | node _ hni _ _ _ => exact absurd hi hni
  | @node n d D hni hpred hle hex ih =>
    intro d2 h2
    cases h2 with
    | input hi => exact absurd hi hni
    | @node _ d' D' _ hpred' hle' hex' =>
      obtain ⟨e1, he1, hd1, hD1⟩ := hex
      obtain ⟨e2, he2, hd2, hD2⟩ := hex'
      have a1 : D e1 = D' e1 := ih e1 he1 hd1 (hpred' e1 he1 hd1)
      have a2 : D e2 = D' e2 := ih e2 he2 hd2 (hpred' e2 he2 hd2)
      have b1 := hle' e1 he1 hd1
      have b2 := hle e2 he2 hd2
      omega

/-- creating a register: old nodes keep their depth, the new input has depth −1, the new output depth 0 -/
theorem withNewReg_depth_facts {c : Dag} {P : Paths} (g : Good c P) {r : Reg} (hr : r.idx = c.regs r.ty) :
    (∀ x d, HasDepth c x d → x ∈ c.nodeIds → HasDepth (c.withNewReg r) x d) ∧
    HasDepth (c.withNewReg r) (.inp r) (-1) ∧ HasDepth (c.withNewReg r) (.out r) 0 := by
  have g1 := withNewReg_good g hr
  have hnl : ¬ c.live r := by simp [live, hr]
  have hinp : NodeId.inp r ∉ c.nodeIds := fun hm => hnl ((g.inv.inp_iff r).mp hm)
  have hout : NodeId.out r ∉ c.nodeIds := fun hm => hnl ((g.inv.out_iff r).mp hm)
  have hnodes : (c.withNewReg r).nodes = c.nodes ++ [(.inp r, Op.io .input r), (.out r, Op.io .output r)] := rfl
  have hedges : (c.withNewReg r).edges = c.edges ++ [⟨.inp r, .out r, r⟩] := rfl
  have hl1 : (c.withNewReg r).live r := (withNewReg_live c r r hr).mpr (Or.inr rfl)
  have hin1 : HasDepth (c.withNewReg r) (.inp r) (-1) := HasDepth.input (isInputNode_inp g1.inv hl1)
  refine ⟨?_, hin1, ?_⟩
  · intro x d hx hxn
    apply HasDepth.transfer (fun x => x ∈ c.nodeIds) _ _ _ hx hxn
    · intro e he _; exact (g.inv.edge_nodes he).1
    · intro x hx e
      rw [hedges, List.mem_append, List.mem_singleton]
      constructor
      · rintro ⟨he | he, hd⟩
        · exact ⟨he, hd⟩
        · exfalso; rw [he] at hd; simp only at hd; exact hout (hd ▸ hx)
      · rintro ⟨he, hd⟩; exact ⟨Or.inl he, hd⟩
    · intro x hx
      rw [isInputNode_iff g1.inv, isInputNode_iff g.inv, keysAt_append_other hnodes]
      intro p hp
      simp at hp
      rcases hp with rfl | rfl
      · intro e; simp only at e; subst e; exact hinp hx
      · intro e; simp only at e; subst e; exact hout hx
  · have hp : predOut (setPath P r [.inp r, .out r]) r = .inp r := predOut_two _ r (.inp r) (.out r) (by simp)
    have := HasDepth.out_of_pred g1.inv hl1 (d := -1) (by rw [hp]; exact hin1)
    have h0 : (-1 : Int) + 1 = 0 := by decide
    rw [h0] at this; exact this

theorem withNewReg_depthInv {c : Dag} {P : Paths} (g : Good c P) {F : Reg → Int} (hF : DepthInv c F) {r : Reg}
    (hr : r.idx = c.regs r.ty) : DepthInv (c.withNewReg r) F := by
  have g1 := withNewReg_good g hr
  have hnl : ¬ c.live r := by simp [live, hr]
  have hinp : NodeId.inp r ∉ c.nodeIds := fun hm => hnl ((g.inv.inp_iff r).mp hm)
  have hout : NodeId.out r ∉ c.nodeIds := fun hm => hnl ((g.inv.out_iff r).mp hm)
  have hnodes : (c.withNewReg r).nodes = c.nodes ++ [(.inp r, Op.io .input r), (.out r, Op.io .output r)] := rfl
  have hedges : (c.withNewReg r).edges = c.edges ++ [⟨.inp r, .out r, r⟩] := rfl
  constructor
  · intro r' hl'
    rcases (withNewReg_live c r r' hr).mp hl' with hl | rfl
    · -- an old register: the derivation lives among the old nodes
      apply HasDepth.transfer (fun x => x ∈ c.nodeIds) _ _ _ (hF.1 r' hl) ((g.inv.out_iff r').mpr hl)
      · intro e he _; exact (g.inv.edge_nodes he).1
      · intro x hx e
        rw [hedges, List.mem_append, List.mem_singleton]
        constructor
        · rintro ⟨he | he, hd⟩
          · exact ⟨he, hd⟩
          · exfalso; rw [he] at hd; simp only at hd; exact hout (hd ▸ hx)
        · rintro ⟨he, hd⟩; exact ⟨Or.inl he, hd⟩
      · intro x hx
        rw [isInputNode_iff g1.inv, isInputNode_iff g.inv, keysAt_append_other hnodes]
        intro p hp
        simp at hp
        rcases hp with rfl | rfl
        · intro e; simp only at e; subst e; exact hinp hx
        · intro e; simp only at e; subst e; exact hout hx
    · -- the new register: in → out
      rw [hF.2 r' hnl]
      have hl1 : (c.withNewReg r').live r' := hl'
      have hp : predOut (setPath P r' [.inp r', .out r']) r' = .inp r' :=
        predOut_two _ r' (.inp r') (.out r') (by simp)
      have := HasDepth.out_of_pred g1.inv hl1 (d := -1) (by rw [hp]; exact HasDepth.input (isInputNode_inp g1.inv hl1))
      have h0 : (-1 : Int) + 1 = 0 := by decide
      rw [h0] at this; exact this
  · intro r' hnl'
    exact hF.2 r' (fun hl => hnl' ((withNewReg_live c r r' hr).mpr (Or.inl hl)))

theorem addRegIfAbsent_depthInv {c : Dag} {P : Paths} (g : Good c P) {F : Reg → Int} (hF : DepthInv c F) (r : Reg) :
    DepthInv (c.addRegIfAbsent r).1 F := by
  by_cases h1 : c.regs r.ty < r.idx
  · rw [addRegIfAbsent_gap h1]; exact hF
  · by_cases h2 : r.idx = c.regs r.ty
    · rw [addRegIfAbsent_new g.inv h2]; exact withNewReg_depthInv g hF h2
    · have hl : c.live r := by unfold live; omega
      rw [addRegIfAbsent_old g.inv hl]; exact hF

theorem addRegs_depthInv {c : Dag} {P : Paths} (g : Good c P) {F : Reg → Int} (hF : DepthInv c F) (rs : List Reg) :
    DepthInv (c.addRegs rs).1 F := by
  induction rs generalizing c P with
  | nil => exact hF
  | cons r rest ih =>
    have h1 := addRegIfAbsent_depthInv g hF r
    obtain ⟨P1, g1, _⟩ := addRegIfAbsent_good g r
    unfold addRegs
    cases hres : c.addRegIfAbsent r with
    | mk c1 err =>
      rw [hres] at h1 g1
      simp only at h1 g1
      cases err with
      | some e => exact h1
      | none => exact ih g1 h1

theorem ensureRegs_depthInv {c : Dag} {P : Paths} (g : Good c P) {F : Reg → Int} (hF : DepthInv c F) (op : Op) :
    DepthInv (c.ensureRegs op).1 F := by
  have h1 := addRegs_depthInv g hF (op.cregs.map (Reg.mk .c))
  obtain ⟨P1, g1, _⟩ := addRegs_good g (op.cregs.map (Reg.mk .c))
  unfold ensureRegs
  cases hres : c.addRegs (op.cregs.map (Reg.mk .c)) with
  | mk c1 err =>
    rw [hres] at h1 g1
    simp only at h1 g1
    cases err with
    | some e => exact h1
    | none =>
      simp only
      by_cases hq : op.qregs.isEmpty = true
      · simp only [hq, if_true]; exact h1
      · have hq' : op.qregs.isEmpty = false := by simpa using hq
        simp only [hq', Bool.false_eq_true, if_false]
        exact addRegs_depthInv g1 h1 _

/-- **`_add` and the ASAP rule**: the new operation lands one layer above the deepest of its registers, and every
    register it touches gets that layer; other registers keep theirs -/
theorem add_depth_facts {c : Dag} {P : Paths} (g : Good c P) {op : Op} (hop : OpWF op)
    (hkey : "Input" ∉ op.indexKeys) (hlive : ∀ r ∈ opRegs op, c.live r) {F : Reg → Int} (hF : DepthInv c F) {M : Int}
    (hle : ∀ k ∈ opRegs op, F k ≤ M) (hex : ∃ k ∈ opRegs op, F k = M) :
    (∀ x d, HasDepth c x d → x ≠ .op (c.nodeId + 1) → (∀ k ∈ opRegs op, x ≠ .out k) → HasDepth (c.add_ op) x d) ∧
    HasDepth (c.add_ op) (.op (c.nodeId + 1)) M ∧
    (∀ r ∈ opRegs op, HasDepth (c.add_ op) (.out r) (M + 1)) ∧
    DepthInv (c.add_ op) (fun r => if r ∈ opRegs op then M + 1 else F r) := by
  obtain ⟨P2, g2, hregs, _, hnodes, _⟩ := add_good' g hop hlive
  let n := NodeId.op (c.nodeId + 1)
  have hfresh : n ∉ c.nodeIds := g.inv.op_fresh
  have hE := add_edges_iff g hop hlive
  have hlive2 : ∀ r, (c.add_ op).live r ↔ c.live r := fun r => live_eq_of_regs hregs r
  -- nodes whose in-edges and input status `_add` does not touch
  let S : NodeId → Prop := fun x => x ≠ n ∧ ∀ k ∈ opRegs op, x ≠ .out k
  have hclosed : ∀ e ∈ c.edges, S e.dst → S e.src := by
    intro e he _
    constructor
    · intro h; exact hfresh (h ▸ (g.inv.edge_nodes he).1)
    · intro k _ h; exact g.inv.out_sink k e.dst ⟨e, he, h, rfl⟩
  have hedgesS : ∀ x, S x → ∀ e, (e ∈ (c.add_ op).edges ∧ e.dst = x) ↔ (e ∈ c.edges ∧ e.dst = x) := by
    intro x hx e
    rw [hE]
    constructor
    · rintro ⟨⟨he, _⟩ | ⟨k, hk, h | h⟩, hd⟩
      · exact ⟨he, hd⟩
      · exfalso; rw [h] at hd; exact hx.1 hd.symm
      · exfalso; rw [h] at hd; exact hx.2 k hk hd.symm
    · rintro ⟨he, hd⟩
      refine ⟨Or.inl ⟨he, ?_⟩, hd⟩
      intro k hk h
      rw [h] at hd; exact hx.2 k hk hd.symm
  have hinS : ∀ x, S x → (isInputNode (c.add_ op) x ↔ isInputNode c x) := by
    intro x hx
    rw [isInputNode_iff g2.inv, isInputNode_iff g.inv, keysAt_append_other hnodes]
    intro p hp; simp at hp; rw [hp]; exact fun e => hx.1 e.symm
  have htrans : ∀ {x d}, HasDepth c x d → S x → HasDepth (c.add_ op) x d :=
    fun h hs => HasDepth.transfer S hclosed hedgesS hinS h hs
  -- the new node
  have hn_not_in : ¬ isInputNode (c.add_ op) n := by
    rw [isInputNode_iff g2.inv]
    unfold keysAt
    rw [(opOf_eq_some g2.inv.ids_nodup).mpr (show (n, op) ∈ (c.add_ op).nodes by
      rw [hnodes]; exact List.mem_append_right _ (by simp [n]))]
    simpa [indexKeysOf] using hkey
  have hpredS : ∀ k ∈ opRegs op, S (predOut P k) := by
    intro k hk
    have hm := g.inv.lastEdge_mem (hlive k hk)
    constructor
    · intro h; exact hfresh (h ▸ (g.inv.edge_nodes hm).1)
    · intro k' _ h
      exact g.inv.out_sink k' (.out k) ⟨lastEdge P k, hm, h, rfl⟩
  have hn_in : ∀ e, (e ∈ (c.add_ op).edges ∧ e.dst = n) ↔ ∃ k ∈ opRegs op, e = ⟨predOut P k, n, k⟩ := by
    intro e
    rw [hE]
    constructor
    · rintro ⟨⟨he, _⟩ | ⟨k, hk, h | h⟩, hd⟩
      · exfalso; exact hfresh (hd ▸ (g.inv.edge_nodes he).2)
      · exact ⟨k, hk, h⟩
      · exfalso; rw [h] at hd; exact absurd hd (by simp [n])
    · rintro ⟨k, hk, h⟩
      exact ⟨Or.inr ⟨k, hk, Or.inl h⟩, by rw [h]⟩
  have hdn : HasDepth (c.add_ op) n M := by
    have : HasDepth (c.add_ op) n ((M - 1) + 1) := by
      apply HasDepth.node (fun e => F e.key - 1) hn_not_in
      · intro e he hd
        obtain ⟨k, hk, rfl⟩ := (hn_in e).mp ⟨he, hd⟩
        exact htrans (HasDepth.pred_of_out g.inv (hlive k hk) (hF.1 k (hlive k hk))) (hpredS k hk)
      · intro e he hd
        obtain ⟨k, hk, rfl⟩ := (hn_in e).mp ⟨he, hd⟩
        have := hle k hk; simp only; omega
      · obtain ⟨k, hk, hkM⟩ := hex
        have := (hn_in ⟨predOut P k, n, k⟩).mpr ⟨k, hk, rfl⟩
        exact ⟨_, this.1, this.2, by simp only; omega⟩
    simpa using this
  have hout : ∀ r ∈ opRegs op, HasDepth (c.add_ op) (.out r) (M + 1) := by
    intro r hr
    have hl0 : c.live r := hlive r hr
    have hout_in : ∀ e, (e ∈ (c.add_ op).edges ∧ e.dst = .out r) ↔ e = ⟨n, .out r, r⟩ := by
      intro e
      rw [hE]
      constructor
      · rintro ⟨⟨he, hne⟩ | ⟨k, hk, h | h⟩, hd⟩
        · exfalso
          have : e ∈ c.inEdges (.out r) := by simp [inEdges, he, hd]
          rw [g.inv.inEdges_out hl0] at this
          exact hne r hr (by simpa using this)
        · exfalso; rw [h] at hd; exact absurd hd (by simp)
        · rw [h] at hd ⊢; injection hd with hd; subst hd; rfl
      · intro h
        exact ⟨Or.inr ⟨r, hr, Or.inr h⟩, by rw [h]⟩
    apply HasDepth.node (fun _ => M) (not_isInputNode_out g2.inv r)
    · intro e he hd; rw [(hout_in e).mp ⟨he, hd⟩]; exact hdn
    · intro e _ _; exact Int.le_refl _
    · have := (hout_in ⟨n, .out r, r⟩).mpr rfl
      exact ⟨_, this.1, this.2, rfl⟩
  refine ⟨fun x d hx h1 h2 => htrans hx ⟨h1, h2⟩, hdn, hout, ?_⟩
  constructor
  · intro r hl
    have hl0 : c.live r := (hlive2 r).mp hl
    by_cases hr : r ∈ opRegs op
    · simp only [hr, if_true]
      exact hout r hr
    · simp only [hr, if_false]
      apply htrans (hF.1 r hl0)
      constructor
      · intro h; exact absurd h (by simp [n])
      · intro k hk h; injection h with h; exact hr (h ▸ hk)
  · intro r hnl
    have hnl0 : ¬ c.live r := fun h => hnl ((hlive2 r).mpr h)
    have hr : r ∉ opRegs op := fun h => hnl0 (hlive r h)
    simp only [hr, if_false]
    exact hF.2 r hnl0

theorem add_depthInv {c : Dag} {P : Paths} (g : Good c P) {op : Op} (hop : OpWF op)
    (hkey : "Input" ∉ op.indexKeys) (hlive : ∀ r ∈ opRegs op, c.live r) {F : Reg → Int} (hF : DepthInv c F) {M : Int}
    (hle : ∀ k ∈ opRegs op, F k ≤ M) (hex : ∃ k ∈ opRegs op, F k = M) :
    DepthInv (c.add_ op) (fun r => if r ∈ opRegs op then M + 1 else F r) :=
  (add_depth_facts g hop hkey hlive hF hle hex).2.2.2

/-! ## the specification side: ASAP fronts of an operation list -/

theorem DepthInv.congr {c : Dag} {F F' : Reg → Int} (h : DepthInv c F) (he : ∀ r, F r = F' r) : DepthInv c F' := by
  constructor
  · intro r hl; rw [← he r]; exact h.1 r hl
  · intro r hl; rw [← he r]; exact h.2 r hl

theorem spec_opRegs_eq (op : Op) : Spec.opRegs op = opRegs op := rfl

theorem frontGet_cons_fold (L : Nat) (rs : List Reg) (f : List (Reg × Nat)) (r : Reg) :
    Spec.frontGet (rs.foldl (fun g k => (k, L) :: g) f) r = if r ∈ rs then L else Spec.frontGet f r := by
  induction rs generalizing f with
  | nil => simp
  | cons k t ih =>
    rw [List.foldl_cons, ih]
    by_cases hrt : r ∈ t
    · simp [hrt]
    · simp only [hrt, if_false, List.mem_cons, or_false]
      by_cases hrk : r = k
      · subst hrk; simp [Spec.frontGet, List.lookup]
      · have : (r == k) = false := by simpa using hrk
        simp [Spec.frontGet, List.lookup, this, hrk]

theorem frontGet_pushLayer (f : List (Reg × Nat)) (op : Op) (r : Reg) :
    Spec.frontGet (Spec.pushLayer f op) r = if r ∈ opRegs op then Spec.layerOf f op else Spec.frontGet f r := by
  unfold Spec.pushLayer
  rw [spec_opRegs_eq, frontGet_cons_fold]

theorem foldl_max_nat {α : Type} (g : α → Nat) (l : List α) (a : Nat) :
    a ≤ l.foldl (fun m r => max m (g r)) a ∧ (∀ x ∈ l, g x ≤ l.foldl (fun m r => max m (g r)) a) ∧
    (l.foldl (fun m r => max m (g r)) a = a ∨ ∃ x ∈ l, g x = l.foldl (fun m r => max m (g r)) a) := by
  induction l generalizing a with
  | nil => simp
  | cons b t ih =>
    rw [List.foldl_cons]
    obtain ⟨h1, h2, h3⟩ := ih (max a (g b))
    refine ⟨by omega, ?_, ?_⟩
    · intro x hx
      rcases List.mem_cons.mp hx with rfl | hx
      · omega
      · exact h2 x hx
    · rcases h3 with h3 | ⟨x, hx, h3⟩
      · by_cases hab : g b ≤ a
        · left; rw [h3]; omega
        · right; exact ⟨b, by simp, by rw [h3]; omega⟩
      · right; exact ⟨x, List.mem_cons_of_mem _ hx, h3⟩

theorem fronts_append (pre : List Op) (op : Op) : Spec.fronts (pre ++ [op]) = Spec.pushLayer (Spec.fronts pre) op := by
  simp [Spec.fronts, List.foldl_append]

/-- no plain operation carries the key "Input" -/
theorem input_not_key {op : Op} (hwf : OpWF op) (hp : PlainOp op) : "Input" ∉ op.indexKeys := by
  rw [mem_indexKeys_iff]
  rintro (h | h | h)
  · exact hp.labels _ h (by decide)
  · have : op.kind = .input := by
      cases hk : op.kind <;> rw [hk] at h <;> first | rfl | exact absurd h (by decide)
    exact hwf.not_input this
  · rcases parse_cases hwf hp with ⟨_, b⟩ | ⟨_, b⟩ | ⟨_, b⟩ | ⟨_, b⟩ | ⟨_, b⟩ | ⟨_, b⟩ <;> rw [b] at h <;>
      exact absurd h (by decide)

/-- one successful `add` moves the depth invariant from the fronts of `pre` to the fronts of `pre ++ [op]` -/
theorem add_depthInv_spec {c : Dag} {P : Paths} (g : Good c P) {op : Op} (hwf : OpWF op) (hp : PlainOp op) (pre : List Op)
    (hF : DepthInv c (fun r => (Spec.frontGet (Spec.fronts pre) r : Int))) (hok : (c.add op).2 = none) :
    DepthInv (c.add op).1 (fun r => (Spec.frontGet (Spec.fronts (pre ++ [op])) r : Int)) := by
  have h1 := ensureRegs_depthInv g hF op
  obtain ⟨P1, g1, hl1, _, _⟩ := ensureRegs_good g op
  unfold add at hok ⊢
  cases hres : c.ensureRegs op with
  | mk c1 err =>
    rw [hres] at h1 g1 hl1 hok
    simp only at h1 g1 hl1 hok
    cases err with
    | some e => simp at hok
    | none =>
      simp only
      have hlive := hl1 rfl
      obtain ⟨a1, a2, a3⟩ := foldl_max_nat (fun r => Spec.frontGet (Spec.fronts pre) r) (opRegs op) 0
      have hne : opRegs op ≠ [] := by
        unfold opRegs; intro h
        exact hwf.qregs_ne (List.append_eq_nil_iff.mp h).1
      have hex : ∃ k ∈ opRegs op, Spec.frontGet (Spec.fronts pre) k =
          (opRegs op).foldl (fun m r => max m (Spec.frontGet (Spec.fronts pre) r)) 0 := by
        rcases a3 with h0 | h
        · obtain ⟨k, hk⟩ := List.exists_mem_of_ne_nil _ hne
          exact ⟨k, hk, by have := a2 k hk; omega⟩
        · exact h
      have := add_depthInv g1 hwf (input_not_key hwf hp) hlive h1
        (M := (((opRegs op).foldl (fun m r => max m (Spec.frontGet (Spec.fronts pre) r)) 0 : Nat) : Int))
        (fun k hk => by exact_mod_cast a2 k hk)
        (by obtain ⟨k, hk, he⟩ := hex; exact ⟨k, hk, by exact_mod_cast he⟩)
      apply this.congr
      intro r
      rw [fronts_append, frontGet_pushLayer]
      by_cases hr : r ∈ opRegs op
      · simp only [hr, if_true]
        unfold Spec.layerOf
        rw [spec_opRegs_eq]
        push_cast; omega
      · simp only [hr, if_false]

/-! ### the bound on all nodes -/

/-- every node has a depth ≤ `B`, `B ≥ 0` is attained by some node unless the circuit is empty (then `B = 0`) -/
structure DepthAll (c : Dag) (B : Int) : Prop where
  all : ∀ n ∈ c.nodeIds, ∃ d, HasDepth c n d ∧ d ≤ B
  nonneg : 0 ≤ B
  att : c.nodeIds ≠ [] → ∃ n ∈ c.nodeIds, HasDepth c n B
  empty : c.nodeIds = [] → B = 0

theorem withNewReg_depthAll {c : Dag} {P : Paths} (g : Good c P) {B : Int} (hB : DepthAll c B) {r : Reg}
    (hr : r.idx = c.regs r.ty) : DepthAll (c.withNewReg r) B := by
  obtain ⟨ht, hi, ho⟩ := withNewReg_depth_facts g hr
  have hids : (c.withNewReg r).nodeIds = c.nodeIds ++ [.inp r, .out r] := by simp [nodeIds, withNewReg]
  refine ⟨?_, hB.nonneg, ?_, ?_⟩
  · intro n hn
    rw [hids] at hn
    rcases List.mem_append.mp hn with hn | hn
    · obtain ⟨d, hd, hdB⟩ := hB.all n hn
      exact ⟨d, ht n d hd hn, hdB⟩
    · simp at hn
      rcases hn with rfl | rfl
      · exact ⟨-1, hi, by have := hB.nonneg; omega⟩
      · exact ⟨0, ho, hB.nonneg⟩
  · intro _
    by_cases he : c.nodeIds = []
    · rw [hB.empty he]
      exact ⟨.out r, by rw [hids]; simp, ho⟩
    · obtain ⟨n, hn, hd⟩ := hB.att he
      exact ⟨n, by rw [hids]; exact List.mem_append_left _ hn, ht n B hd hn⟩
  · intro he; rw [hids] at he; simp at he

theorem addRegIfAbsent_depthAll {c : Dag} {P : Paths} (g : Good c P) {B : Int} (hB : DepthAll c B) (r : Reg) :
    DepthAll (c.addRegIfAbsent r).1 B := by
  by_cases h1 : c.regs r.ty < r.idx
  · rw [addRegIfAbsent_gap h1]; exact hB
  · by_cases h2 : r.idx = c.regs r.ty
    · rw [addRegIfAbsent_new g.inv h2]; exact withNewReg_depthAll g hB h2
    · have hl : c.live r := by unfold live; omega
      rw [addRegIfAbsent_old g.inv hl]; exact hB

theorem addRegs_depthAll {c : Dag} {P : Paths} (g : Good c P) {B : Int} (hB : DepthAll c B) (rs : List Reg) :
    DepthAll (c.addRegs rs).1 B := by
  induction rs generalizing c P with
  | nil => exact hB
  | cons r rest ih =>
    have h1 := addRegIfAbsent_depthAll g hB r
    obtain ⟨P1, g1, _⟩ := addRegIfAbsent_good g r
    unfold addRegs
    cases hres : c.addRegIfAbsent r with
    | mk c1 err =>
      rw [hres] at h1 g1
      simp only at h1 g1
      cases err with
      | some e => exact h1
      | none => exact ih g1 h1

theorem ensureRegs_depthAll {c : Dag} {P : Paths} (g : Good c P) {B : Int} (hB : DepthAll c B) (op : Op) :
    DepthAll (c.ensureRegs op).1 B := by
  have h1 := addRegs_depthAll g hB (op.cregs.map (Reg.mk .c))
  obtain ⟨P1, g1, _⟩ := addRegs_good g (op.cregs.map (Reg.mk .c))
  unfold ensureRegs
  cases hres : c.addRegs (op.cregs.map (Reg.mk .c)) with
  | mk c1 err =>
    rw [hres] at h1 g1
    simp only at h1 g1
    cases err with
    | some e => exact h1
    | none =>
      simp only
      by_cases hq : op.qregs.isEmpty = true
      · simp only [hq, if_true]; exact h1
      · have hq' : op.qregs.isEmpty = false := by simpa using hq
        simp only [hq', Bool.false_eq_true, if_false]
        exact addRegs_depthAll g1 h1 _

theorem add_depthAll {c : Dag} {P : Paths} (g : Good c P) {op : Op} (hop : OpWF op)
    (hkey : "Input" ∉ op.indexKeys) (hlive : ∀ r ∈ opRegs op, c.live r) {F : Reg → Int} (hF : DepthInv c F) {M : Int}
    (hle : ∀ k ∈ opRegs op, F k ≤ M) (hex : ∃ k ∈ opRegs op, F k = M) {B : Int} (hB : DepthAll c B) :
    DepthAll (c.add_ op) (max B (M + 1)) := by
  obtain ⟨ht, hn, ho, _⟩ := add_depth_facts g hop hkey hlive hF hle hex
  obtain ⟨_, _, _, _, hnodes, _⟩ := add_good' g hop hlive
  have hids : (c.add_ op).nodeIds = c.nodeIds ++ [.op (c.nodeId + 1)] := by simp [nodeIds, hnodes]
  have hfresh := g.inv.op_fresh
  obtain ⟨k0, hk0, hk0M⟩ := hex
  have hM0 : 0 ≤ M + 1 := by
    have := (hF.1 k0 (hlive k0 hk0)).ge; omega
  refine ⟨?_, by have := hB.nonneg; omega, ?_, ?_⟩
  · intro x hx
    rw [hids] at hx
    rcases List.mem_append.mp hx with hx | hx
    · by_cases hxo : ∃ k ∈ opRegs op, x = .out k
      · obtain ⟨k, hk, rfl⟩ := hxo
        exact ⟨M + 1, ho k hk, by omega⟩
      · obtain ⟨d, hd, hdB⟩ := hB.all x hx
        refine ⟨d, ht x d hd (fun e => hfresh (e ▸ hx)) (fun k hk e => hxo ⟨k, hk, e⟩), by omega⟩
    · simp at hx; subst hx
      exact ⟨M, hn, by omega⟩
  · intro _
    by_cases hcase : B ≤ M + 1
    · have : max B (M + 1) = M + 1 := by omega
      rw [this]
      exact ⟨.out k0, by rw [hids]; exact List.mem_append_left _ ((g.inv.out_iff k0).mpr (hlive k0 hk0)), ho k0 hk0⟩
    · have : max B (M + 1) = B := by omega
      rw [this]
      have hne : c.nodeIds ≠ [] := by
        intro he
        have := (g.inv.out_iff k0).mpr (hlive k0 hk0)
        rw [he] at this; simp at this
      obtain ⟨n0, hn0, hd0⟩ := hB.att hne
      refine ⟨n0, by rw [hids]; exact List.mem_append_left _ hn0, ?_⟩
      apply ht n0 B hd0 (fun e => hfresh (e ▸ hn0))
      intro k hk e
      subst e
      have := (hF.1 k (hlive k hk)).unique hd0
      have := hle k hk
      omega
  · intro he; rw [hids] at he; simp at he

theorem layers_append (f : List (Reg × Nat)) (pre : List Op) (op : Op) :
    Spec.layers f (pre ++ [op]) = Spec.layers f pre ++ [Spec.layerOf (pre.foldl Spec.pushLayer f) op] := by
  induction pre generalizing f with
  | nil => simp [Spec.layers]
  | cons a t ih => simp [Spec.layers, ih]

theorem foldl_max_append (l : List Nat) (a x : Nat) : (l ++ [x]).foldl max a = max (l.foldl max a) x := by
  simp [List.foldl_append]

theorem spec_depth_append (pre : List Op) (op : Op) :
    Spec.depth (pre ++ [op]) = max (Spec.depth pre) (Spec.layerOf (Spec.fronts pre) op) := by
  unfold Spec.depth
  rw [layers_append, foldl_max_append]
  rfl

end Dag

namespace Metrics
open Dag

theorem build_depthInv (ne np nc : Nat) (seq : List Op) (hseq : ∀ op ∈ seq, OpWF op ∧ PlainOp op)
    (hok : (build ne np nc seq).2 = none) :
    DepthInv (build ne np nc seq).1 (fun r => (Spec.frontGet (Spec.fronts seq) r : Int)) := by
  have herr : ∀ (l : List Op) (c : Dag) (e : DErr), (l.foldl buildStep (c, some e)).2 = some e := by
    intro l; induction l with
    | nil => intro c e; rfl
    | cons o t iht => intro c e; rw [List.foldl_cons]; exact iht c e
  have key : ∀ (rest pre : List Op) (c : Dag) (P : Paths), Good c P → (∀ op ∈ rest, OpWF op ∧ PlainOp op) →
      DepthInv c (fun r => (Spec.frontGet (Spec.fronts pre) r : Int)) →
      (rest.foldl buildStep (c, none)).2 = none →
      DepthInv (rest.foldl buildStep (c, none)).1 (fun r => (Spec.frontGet (Spec.fronts (pre ++ rest)) r : Int)) := by
    intro rest
    induction rest with
    | nil => intro pre c P _ _ hF _; simpa using hF
    | cons op rest ih =>
      intro pre c P g hwf hF hok
      rw [List.foldl_cons] at hok ⊢
      have hstep : buildStep (c, none) op = c.add op := rfl
      rw [hstep] at hok ⊢
      cases hres : c.add op with
      | mk c1 err =>
        rw [hres] at hok
        cases err with
        | some e => rw [herr] at hok; simp at hok
        | none =>
          obtain ⟨P1, g1⟩ := add_good g (hwf op (by simp)).1
          rw [hres] at g1
          have h1 := add_depthInv_spec g (hwf op (by simp)).1 (hwf op (by simp)).2 pre hF (by rw [hres])
          rw [hres] at h1
          have := ih (pre ++ [op]) c1 P1 g1 (fun o ho => hwf o (List.mem_cons_of_mem _ ho)) h1 hok
          simpa using this
  obtain ⟨P0, g0⟩ := init_good ne np nc
  -- the initial circuit: every register is `in → out`, depth 0
  have h0 : DepthInv (Dag.init ne np nc) (fun r => (Spec.frontGet (Spec.fronts []) r : Int)) := by
    have hz : (fun r : Reg => ((Spec.frontGet (Spec.fronts []) r : Nat) : Int)) = fun _ => 0 := by
      funext r; simp [Spec.fronts, Spec.frontGet]
    rw [hz]
    unfold Dag.init
    apply addRegs_depthInv empty_good
    constructor
    · intro r hl; cases r with | mk t i => cases t <;> simp [live, regs, Dag.empty] at hl
    · intro r _; rfl
  have := key seq [] (Dag.init ne np nc) P0 g0 hseq h0 hok
  simpa [build] using this


theorem fronts_bound (seq : List Op) (f : List (Reg × Nat)) (B : Nat) (hB : ∀ r, Spec.frontGet f r ≤ B) :
    ∀ r, Spec.frontGet (seq.foldl Spec.pushLayer f) r ≤ B + seq.length := by
  induction seq generalizing f B with
  | nil => simpa using hB
  | cons op rest ih =>
    intro r
    rw [List.foldl_cons]
    have hstep : ∀ r, Spec.frontGet (Spec.pushLayer f op) r ≤ B + 1 := by
      intro r
      rw [frontGet_pushLayer]
      by_cases hr : r ∈ opRegs op
      · simp only [hr, if_true]
        unfold Spec.layerOf
        rw [spec_opRegs_eq]
        obtain ⟨_, _, a3⟩ := foldl_max_nat (fun r => Spec.frontGet f r) (opRegs op) 0
        rcases a3 with h0 | ⟨x, _, hx⟩
        · rw [h0]; omega
        · rw [← hx]; have := hB x; omega
      · simp only [hr, if_false]; have := hB r; omega
    have := ih (Spec.pushLayer f op) (B + 1) hstep r
    simp only [List.length_cons]; omega

theorem regDepth_le_length (seq : List Op) (r : Reg) : Spec.regDepth seq r ≤ seq.length := by
  have := fronts_bound seq [] 0 (by intro r; simp [Spec.frontGet]) r
  simpa [Spec.regDepth, Spec.fronts] using this

theorem length_filter_lt {α : Type} {l : List α} {f : α → Bool} (h : ∃ a ∈ l, f a = false) : (l.filter f).length < l.length := by
  induction l with
  | nil => obtain ⟨a, ha, _⟩ := h; simp at ha
  | cons b t ih =>
    obtain ⟨a, ha, hfa⟩ := h
    by_cases hb : f b = true
    · rw [List.filter_cons_of_pos hb]
      rcases List.mem_cons.mp ha with rfl | ha
      · rw [hb] at hfa; simp at hfa
      · have := ih ⟨a, ha, hfa⟩; simp only [List.length_cons]; omega
    · rw [List.filter_cons_of_neg hb]
      have := List.length_filter_le f t
      simp only [List.length_cons]; omega

/-- **`_max_depth(out r)` — the value `register_depth` reports — is the ASAP layer of the last operation on the
    register**, for every circuit built by `add` from a plain operation list; the literal recursion with the fuel the
    model gives it (number of nodes + 1) terminates with that value -/
theorem maxDepth_out_eq_spec (ne np nc : Nat) (seq : List Op) (hseq : ∀ op ∈ seq, OpWF op ∧ PlainOp op)
    (hok : (build ne np nc seq).2 = none) (r : Reg) (hl : (build ne np nc seq).1.live r) :
    (build ne np nc seq).1.maxDepth ((build ne np nc seq).1.nodes.length + 1) (.out r) = .ok (Spec.regDepth seq r : Int) := by
  have hD := (build_depthInv ne np nc seq hseq hok).1 r hl
  obtain ⟨hops, ⟨P, g⟩⟩ := build_spec ne np nc seq (fun op h => (hseq op h).1) hok
  apply maxDepth_of_hasDepth hD
  have h1 := regDepth_le_length seq r
  have h2 : seq.length < (build ne np nc seq).1.nodes.length := by
    have : (opsOf (build ne np nc seq).1).length < (build ne np nc seq).1.nodes.length := by
      unfold opsOf
      rw [List.length_map]
      apply length_filter_lt
      obtain ⟨op, hop⟩ := mem_nodeIds.mp ((g.inv.out_iff r).mpr hl)
      exact ⟨(.out r, op), hop, rfl⟩
    rw [hops] at this; exact this
  unfold Spec.regDepth at h1
  show ((Spec.frontGet (Spec.fronts seq) r : Nat) : Int) + 2 ≤ _
  push_cast; omega

theorem mapM_range_ok (g : Nat → Except DErr Int) (D : Nat → Int) (n : Nat) (h : ∀ i, i < n → g i = .ok (D i)) :
    (List.range n).mapM g = .ok ((List.range n).map D) := by
  have := mapM_ok_of_forall g id D (List.range n) (fun a ha => h a (List.mem_range.mp ha))
  simpa using this

/-- `calculate_reg_depth(reg_type)` returns the list of ASAP depths of the registers of that type -/
theorem calculateRegDepth_eq_spec (ne np nc : Nat) (seq : List Op) (hseq : ∀ op ∈ seq, OpWF op ∧ PlainOp op)
    (hok : (build ne np nc seq).2 = none) (t : RegType) :
    (build ne np nc seq).1.calculateRegDepth t =
      .ok ((List.range ((build ne np nc seq).1.regs t)).map (fun i => (Spec.regDepth seq ⟨t, i⟩ : Int))) := by
  unfold calculateRegDepth
  apply mapM_range_ok
  intro i hi
  exact maxDepth_out_eq_spec ne np nc seq hseq hok ⟨t, i⟩ hi

end Metrics
end Graphiq

/-! ## circuit depth: the longest path (networkx' `dag_longest_path_length`) and the largest ASAP layer -/
namespace Graphiq
namespace Dag
open Relation Metrics

/-- a directed walk `a → … → b` with `k` edges -/
inductive Walk (c : Dag) : NodeId → NodeId → Nat → Prop
  | nil (a : NodeId) : Walk c a a 0
  | snoc {a x b : NodeId} {k : Nat} : Walk c a x k → c.E x b → Walk c a b (k + 1)

/-- recorded specification of `nx.dag_longest_path_length(G)`: the number of edges of a longest directed walk -/
def LongestPathSpec (c : Dag) (L : Nat) : Prop := (∃ a b, Walk c a b L) ∧ ∀ a b k, Walk c a b k → k ≤ L

/-- every node has a depth, bounded by `B` -/
def AllDepth (c : Dag) (B : Int) : Prop := ∀ n ∈ c.nodeIds, ∃ d, HasDepth c n d ∧ d ≤ B

/-- a walk ending in a node of depth `d` has at most `d + 1` edges (input nodes have no in-edges) -/
theorem Walk.le_depth {c : Dag} (hsrc : ∀ x b, isInputNode c b → ¬ c.E x b) {a b : NodeId} {k : Nat} (w : Walk c a b k) :
    ∀ d, HasDepth c b d → (k : Int) ≤ d + 1 := by
  induction w with
  | nil => intro d hd; have := hd.ge; omega
  | @snoc x b k w hxb ih =>
    intro d hd
    cases hd with
    | input hi => exact absurd hxb (hsrc x b hi)
    | @node _ d' D _ hpred hle _ =>
      obtain ⟨e, he, rfl, rfl⟩ := hxb
      have h1 := ih (D e) (hpred e he rfl)
      have h2 := hle e he rfl
      push_cast; omega

/-- a node of depth `d` ends a walk with `d + 1` edges -/
theorem HasDepth.walk {c : Dag} {b : NodeId} {d : Int} (h : HasDepth c b d) : ∃ a, Walk c a b (d + 1).toNat := by
  induction h with
  | @input n _ => exact ⟨n, by simpa using Walk.nil n⟩
  | @node n d D _ hpred _ hex ih =>
    obtain ⟨e, he, hd, hD⟩ := hex
    obtain ⟨a, wa⟩ := ih e he hd
    have hge := (hpred e he hd).ge
    refine ⟨a, ?_⟩
    have : (d + 1 + 1).toNat = (D e + 1).toNat + 1 := by rw [hD]; omega
    rw [this]
    exact Walk.snoc wa ⟨e, he, rfl, hd⟩

/-- **depth from the specification of networkx**: if every node has a depth ≤ `B`, some node attains `B`, and input
    nodes have no in-edges, then any `L` meeting the longest-path specification is `B + 1` — so `depth = L − 1 = B` -/
theorem depth_of_allDepth {c : Dag} {B : Int} (hall : AllDepth c B) (hsrc : ∀ x b, isInputNode c b → ¬ c.E x b)
    (hatt : ∃ n, HasDepth c n B) (hnodes : ∀ a b k, Walk c a b k → 0 < k → b ∈ c.nodeIds) {L : Nat}
    (hL : LongestPathSpec c L) : Dag.depthWith L = B := by
  obtain ⟨n, hn⟩ := hatt
  have hB := hn.ge
  obtain ⟨a, wa⟩ := hn.walk
  have h1 : (B + 1).toNat ≤ L := hL.2 a n _ wa
  obtain ⟨a', b', w'⟩ := hL.1
  have h2 : (L : Int) ≤ B + 1 := by
    by_cases hL0 : L = 0
    · subst hL0; push_cast; omega
    · obtain ⟨d, hd, hdB⟩ := hall b' (hnodes a' b' L w' (by omega))
      have := w'.le_depth hsrc d hd
      omega
  unfold depthWith
  omega

end Dag
end Graphiq

namespace Graphiq
namespace Metrics
open Dag Relation

theorem add_depthAll_spec {c : Dag} {P : Paths} (g : Good c P) {op : Op} (hwf : OpWF op) (hp : PlainOp op) (pre : List Op)
    (hF : DepthInv c (fun r => (Spec.frontGet (Spec.fronts pre) r : Int))) (hB : DepthAll c (Spec.depth pre : Int))
    (hok : (c.add op).2 = none) : DepthAll (c.add op).1 (Spec.depth (pre ++ [op]) : Int) := by
  have h1 := ensureRegs_depthInv g hF op
  have h2 := ensureRegs_depthAll g hB op
  obtain ⟨P1, g1, hl1, _, _⟩ := ensureRegs_good g op
  unfold add at hok ⊢
  cases hres : c.ensureRegs op with
  | mk c1 err =>
    rw [hres] at h1 h2 g1 hl1 hok
    simp only at h1 h2 g1 hl1 hok
    cases err with
    | some e => simp at hok
    | none =>
      simp only
      have hlive := hl1 rfl
      obtain ⟨a1, a2, a3⟩ := foldl_max_nat (fun r => Spec.frontGet (Spec.fronts pre) r) (opRegs op) 0
      have hne : opRegs op ≠ [] := by
        unfold opRegs; intro h
        exact hwf.qregs_ne (List.append_eq_nil_iff.mp h).1
      have hex : ∃ k ∈ opRegs op, Spec.frontGet (Spec.fronts pre) k =
          (opRegs op).foldl (fun m r => max m (Spec.frontGet (Spec.fronts pre) r)) 0 := by
        rcases a3 with h0 | h
        · obtain ⟨k, hk⟩ := List.exists_mem_of_ne_nil _ hne
          exact ⟨k, hk, by have := a2 k hk; omega⟩
        · exact h
      have := add_depthAll g1 hwf (input_not_key hwf hp) hlive h1
        (M := (((opRegs op).foldl (fun m r => max m (Spec.frontGet (Spec.fronts pre) r)) 0 : Nat) : Int))
        (fun k hk => by exact_mod_cast a2 k hk)
        (by obtain ⟨k, hk, he⟩ := hex; exact ⟨k, hk, by exact_mod_cast he⟩) h2
      have heq : ((Spec.depth (pre ++ [op]) : Nat) : Int) =
          max (Spec.depth pre : Int) ((((opRegs op).foldl (fun m r => max m (Spec.frontGet (Spec.fronts pre) r)) 0 : Nat) : Int) + 1) := by
        rw [spec_depth_append]
        unfold Spec.layerOf
        rw [spec_opRegs_eq]
        omega
      rw [heq]; exact this

theorem build_depthAll (ne np nc : Nat) (seq : List Op) (hseq : ∀ op ∈ seq, OpWF op ∧ PlainOp op)
    (hok : (build ne np nc seq).2 = none) : DepthAll (build ne np nc seq).1 (Spec.depth seq : Int) := by
  have herr : ∀ (l : List Op) (c : Dag) (e : DErr), (l.foldl buildStep (c, some e)).2 = some e := by
    intro l; induction l with
    | nil => intro c e; rfl
    | cons o t iht => intro c e; rw [List.foldl_cons]; exact iht c e
  have key : ∀ (rest pre : List Op) (c : Dag) (P : Paths), Good c P → (∀ op ∈ rest, OpWF op ∧ PlainOp op) →
      DepthInv c (fun r => (Spec.frontGet (Spec.fronts pre) r : Int)) → DepthAll c (Spec.depth pre : Int) →
      (rest.foldl buildStep (c, none)).2 = none →
      DepthAll (rest.foldl buildStep (c, none)).1 (Spec.depth (pre ++ rest) : Int) := by
    intro rest
    induction rest with
    | nil => intro pre c P _ _ _ hB _; simpa using hB
    | cons op rest ih =>
      intro pre c P g hwf hF hB hok
      rw [List.foldl_cons] at hok ⊢
      have hstep : buildStep (c, none) op = c.add op := rfl
      rw [hstep] at hok ⊢
      cases hres : c.add op with
      | mk c1 err =>
        rw [hres] at hok
        cases err with
        | some e => rw [herr] at hok; simp at hok
        | none =>
          obtain ⟨P1, g1⟩ := add_good g (hwf op (by simp)).1
          rw [hres] at g1
          have h1 := add_depthInv_spec g (hwf op (by simp)).1 (hwf op (by simp)).2 pre hF (by rw [hres])
          have h2 := add_depthAll_spec g (hwf op (by simp)).1 (hwf op (by simp)).2 pre hF hB (by rw [hres])
          rw [hres] at h1 h2
          have := ih (pre ++ [op]) c1 P1 g1 (fun o ho => hwf o (List.mem_cons_of_mem _ ho)) h1 h2 hok
          simpa using this
  obtain ⟨P0, g0⟩ := init_good ne np nc
  have hz : (fun r : Reg => ((Spec.frontGet (Spec.fronts []) r : Nat) : Int)) = fun _ => 0 := by
    funext r; simp [Spec.fronts, Spec.frontGet]
  have hF0 : DepthInv (Dag.init ne np nc) (fun r => (Spec.frontGet (Spec.fronts []) r : Int)) := by
    rw [hz]
    unfold Dag.init
    apply addRegs_depthInv empty_good
    constructor
    · intro r hl; cases r with | mk t i => cases t <;> simp [live, regs, Dag.empty] at hl
    · intro r _; rfl
  have hB0 : DepthAll (Dag.init ne np nc) (Spec.depth [] : Int) := by
    unfold Dag.init
    apply addRegs_depthAll empty_good
    refine ⟨?_, by simp [Spec.depth, Spec.layers], ?_, ?_⟩
    · intro n hn; simp [nodeIds, Dag.empty] at hn
    · intro h; exact absurd (by simp [nodeIds, Dag.empty]) h
    · intro _; simp [Spec.depth, Spec.layers]
  have := key seq [] (Dag.init ne np nc) P0 g0 hseq hF0 hB0 hok
  simpa [build] using this

/-- **`CircuitDepth` = the largest ASAP layer of the operation list**, for every circuit built by `add` that has at
    least one register, and for every value `L` meeting the recorded specification of `nx.dag_longest_path_length` -/
theorem circuitDepth_eq_spec (ne np nc : Nat) (seq : List Op) (hseq : ∀ op ∈ seq, OpWF op ∧ PlainOp op)
    (hok : (build ne np nc seq).2 = none) (hne : (build ne np nc seq).1.nodeIds ≠ []) {L : Nat}
    (hL : LongestPathSpec (build ne np nc seq).1 L) : circuitDepthWith L = (Spec.depth seq : Int) := by
  have hB := build_depthAll ne np nc seq hseq hok
  obtain ⟨hops, ⟨P, g⟩⟩ := build_spec ne np nc seq (fun op h => (hseq op h).1) hok
  unfold circuitDepthWith
  apply depth_of_allDepth hB.all _ _ _ hL
  · -- input nodes have no in-edges
    intro x b hi hE
    rw [isInputNode_iff g.inv] at hi
    obtain ⟨_, hb⟩ := E_nodes g.inv hE
    obtain ⟨o, ho⟩ := mem_nodeIds.mp hb
    unfold keysAt at hi
    rw [(opOf_eq_some g.inv.ids_nodup).mpr ho] at hi
    cases b with
    | inp r => exact g.inv.inp_source r x hE
    | out r => simp [indexKeysOf] at hi
    | op i =>
      simp only [indexKeysOf] at hi
      have hmem : o ∈ opsOf (build ne np nc seq).1 := by
        unfold opsOf
        exact List.mem_map.mpr ⟨(.op i, o), List.mem_filter.mpr ⟨ho, rfl⟩, rfl⟩
      rw [hops] at hmem
      exact input_not_key (hseq o hmem).1 (hseq o hmem).2 hi
  · obtain ⟨n, _, hn⟩ := hB.att hne
    exact ⟨n, hn⟩
  · intro a b k w hk
    cases w with
    | nil => omega
    | snoc _ hxb => exact (E_nodes g.inv hxb).2

end Metrics
end Graphiq
