/-
  Proofs/CompareRepairWalk.lean — the repaired `add_control_target_to_dag` (one walk per register, carrying the role at the
  operation just left) labels *every* edge of a circuit DAG with the pair (role at its tail, role at its head):
  `addControlTarget2_eq : Rep0 g W body → g.addControlTarget2 = g.labelled`, hence `Rep g.addControlTarget2 W body`.
-/
import GraphiqModel.Proofs.CompareRepair
namespace Graphiq.Compare
open Graphiq Graphiq.Export

def MG.withEdges (g : MG) (es : List Edge) : MG := { g with edges := es }

theorem opOf_withEdges (g : MG) (es : List Edge) : (g.withEdges es).opOf = g.opOf := rfl
theorem nodes_withEdges (g : MG) (es : List Edge) : (g.withEdges es).nodes = g.nodes := rfl
theorem edges_withEdges (g : MG) (es : List Edge) : (g.withEdges es).edges = es := rfl
theorem withEdges_self (g : MG) : g.withEdges g.edges = g := rfl
theorem withEdges_withEdges (g : MG) (a b : List Edge) : (g.withEdges a).withEdges b = g.withEdges b := rfl

/-- the attribute the repaired walk gives an edge -/
def labEdge (g : MG) (e : Edge) : Edge := { e with ct2 := (role (g.opOf e.src) e.key, role (g.opOf e.dst) e.key) }

/-- all edges labelled -/
def MG.labelled (g : MG) : MG := g.withEdges (g.edges.map (labEdge g))

/-- a relabelling touches only the attribute -/
def Keeps (F : Edge → Edge) : Prop := ∀ e, (F e).src = e.src ∧ (F e).dst = e.dst ∧ (F e).key = e.key ∧ (F e).ct = e.ct

theorem labEdge_keeps (g : MG) (F : Edge → Edge) (hF : Keeps F) (e : Edge) : labEdge g (F e) = labEdge g e := by
  obtain ⟨h1, h2, h3, h4⟩ := hF e
  cases hfe : F e with
  | mk s d k c c2 =>
    cases e with
    | mk s' d' k' c' c2' =>
      rw [hfe] at h1 h2 h3 h4
      simp only at h1 h2 h3 h4
      subst h1 h2 h3 h4
      rfl

theorem outEdge_withEdges_map (g : MG) (F : Edge → Edge) (hF : Keeps F) (n : Nd) (w : Wire) :
    (g.withEdges (g.edges.map F)).outEdge n w = (g.outEdge n w).map F := by
  unfold MG.outEdge
  rw [edges_withEdges, List.find?_map]
  have : ((fun e : Edge => e.src == n && e.key == w) ∘ F) = (fun e : Edge => e.src == n && e.key == w) := by
    funext e
    simp only [Function.comp, (hF e).1, (hF e).2.2.1]
  rw [this]

theorem setCt2_withEdges (g : MG) (es : List Edge) (s d : Nd) (k : Wire) (v : Option Char × Option Char) :
    (g.withEdges es).setCt2 s d k v =
      g.withEdges (es.map fun e => if e.src == s && e.dst == d && e.key == k then { e with ct2 := v } else e) := rfl

/-- two edges of one register leaving the same node enter the same node -/
theorem Rep0.uniqueOut {g : MG} {W : List Wire} {body : Wire → List Nd} (r : Rep0 g W body) (e e' : Edge)
    (he : e ∈ g.edges) (he' : e' ∈ g.edges) (hs : e.src = e'.src) (hk : e.key = e'.key) : e.dst = e'.dst := by
  obtain ⟨hw, ha⟩ := r.edge_sound0 e he
  obtain ⟨_, ha'⟩ := r.edge_sound0 e' he'
  rw [← hk, ← hs] at ha'
  obtain ⟨l1, l2, h12⟩ := ha
  obtain ⟨r', hr'⟩ := adj_next _ (r.pathNodup _ hw) l1 (e.dst :: l2) e.src e'.dst h12 ha'
  injection hr' with h _

/-- no edge leaves the output node of a register -/
theorem Rep0.no_edge_from_out {g : MG} {W : List Wire} {body : Wire → List Nd} (r : Rep0 g W body) (e : Edge)
    (he : e ∈ g.edges) (x : Wire) : e.src ≠ .out x := by
  intro hs
  obtain ⟨hw, l1, l2, h12⟩ := r.edge_sound0 e he
  have hmem : Nd.out x ∈ pathOf body e.key := by rw [h12, hs]; simp
  have hx := r.out_on_path e.key x hw hmem
  subst hx
  have hnd := r.pathNodup _ hw
  have hlast : (pathOf body e.key).getLast? = some (Nd.out e.key) := by
    unfold pathOf
    rw [← List.cons_append, List.getLast?_append]
    simp
  rw [h12, hs] at hnd hlast
  have h2 : (e.dst :: l2).getLast? = some (Nd.out e.key) := by
    have : l1 ++ Nd.out e.key :: e.dst :: l2 = (l1 ++ [Nd.out e.key]) ++ (e.dst :: l2) := by simp
    rw [this, List.getLast?_append] at hlast
    cases hl : (e.dst :: l2).getLast? with
    | none => simp at hl
    | some z => rw [hl] at hlast; simpa using hlast
  have hin : Nd.out e.key ∈ e.dst :: l2 := List.mem_of_getLast? h2
  have hnd2 := (List.nodup_append.1 hnd).2.1
  exact (List.nodup_cons.1 hnd2).1 hin

/-- the state of the walk: the original graph with relabelled edges -/
theorem ctWalk2_eq (g0 : MG) (W : List Wire) (body : Wire → List Nd) (r : Rep0 g0 W body) (w : Wire) (hw : w ∈ W) :
    ∀ (fuel : Nat) (rest pre : List Nd) (node : Nd) (F : Edge → Edge), Keeps F →
      pathOf body w = pre ++ node :: rest → rest.length ≤ fuel →
      ctWalk2 (g0.withEdges (g0.edges.map F)) w fuel node (role (g0.opOf node) w) =
        g0.withEdges (g0.edges.map fun e => if e.key = w ∧ e.src ∈ node :: rest then labEdge g0 e else F e) := by
  have hnd := r.pathNodup w hw
  have hlast : (pathOf body w).getLast? = some (Nd.out w) := by
    unfold pathOf
    rw [← List.cons_append, List.getLast?_append]
    simp
  -- when nothing is left of the path we stand on the output node, from which no edge leaves
  have hbase : ∀ (pre : List Nd) (node : Nd) (F : Edge → Edge), pathOf body w = pre ++ [node] →
      g0.withEdges (g0.edges.map F) =
        g0.withEdges (g0.edges.map fun e => if e.key = w ∧ e.src ∈ [node] then labEdge g0 e else F e) := by
    intro pre node F hp
    have hn : node = .out w := by
      rw [hp] at hlast
      simpa using hlast
    congr 1
    apply List.map_congr_left
    intro e he
    rw [if_neg]
    rintro ⟨_, hs⟩
    rw [List.mem_singleton, hn] at hs
    exact r.no_edge_from_out e he w hs
  intro fuel
  induction fuel with
  | zero =>
    intro rest pre node F _ hp hlen
    have : rest = [] := List.length_eq_zero_iff.1 (Nat.le_zero.1 hlen)
    subst this
    exact hbase pre node F hp
  | succ k ih =>
    intro rest pre node F hF hp hlen
    cases rest with
    | nil =>
      have hn : node = .out w := by
        rw [hp] at hlast
        simpa using hlast
      rw [ctWalk2, hn]
      simp only [Nd.isOut, if_true]
      rw [← hn]
      exact hbase pre node F hp
    | cons v rest' =>
      have hadj : Adj (pathOf body w) node v := ⟨pre, rest', hp⟩
      -- `node` is not an output node
      have hno : node.isOut = false := by
        cases hnode : node with
        | out x =>
          exfalso
          obtain ⟨e, he, hs, _, _⟩ := r.edge_complete w hw node v hadj
          exact r.no_edge_from_out e he x (hs.trans hnode)
        | inp _ => rfl
        | op _ => rfl
      obtain ⟨e0, he0, hs0, hd0, hk0⟩ := r.edge_complete w hw node v hadj
      -- the out-edge the walk finds
      obtain ⟨e1, h1⟩ : ∃ e1, g0.outEdge node w = some e1 := by
        have := outEdge_isSome_of_mem g0 e0 he0
        rwa [hs0, hk0] at this
      obtain ⟨he1, hs1, hk1⟩ := outEdge_some g0 node w e1 h1
      have hd1 : e1.dst = v := by
        rw [← hd0]
        exact r.uniqueOut e1 e0 he1 he0 (hs1.trans hs0.symm) (hk1.trans hk0.symm)
      rw [ctWalk2]
      simp only [hno, Bool.false_eq_true, if_false]
      rw [outEdge_withEdges_map g0 F hF, h1]
      simp only [Option.map_some, opOf_withEdges, (hF e1).2.1, hd1, setCt2_withEdges, List.map_map]
      -- the relabelling after this step
      have hF2 : Keeps ((fun e : Edge => if e.src == node && e.dst == v && e.key == w then
          { e with ct2 := (role (g0.opOf node) w, role (g0.opOf v) w) } else e) ∘ F) := by
        intro e
        simp only [Function.comp]
        split
        · exact hF e
        · exact hF e
      have hp' : pathOf body w = (pre ++ [node]) ++ v :: rest' := by rw [hp]; simp
      have := ih rest' (pre ++ [node]) v _ hF2 hp' (by simpa using hlen)
      rw [this]
      congr 1
      apply List.map_congr_left
      intro e he
      have hnotin : node ∉ v :: rest' := by
        rw [hp] at hnd
        exact (List.nodup_cons.1 (List.nodup_append.1 hnd).2.1).1
      by_cases hc : e.key = w ∧ e.src = node
      · -- the edge relabelled in this step
        have hdv : e.dst = v := by
          rw [← hd0]
          exact r.uniqueOut e e0 he he0 (hc.2.trans hs0.symm) (hc.1.trans hk0.symm)
        have hn1 : ¬ (e.key = w ∧ e.src ∈ v :: rest') := by
          rintro ⟨_, hm⟩
          rw [hc.2] at hm
          exact hnotin hm
        rw [if_neg hn1, if_pos ⟨hc.1, by rw [hc.2]; simp⟩]
        simp only [Function.comp, (hF e).1, (hF e).2.1, (hF e).2.2.1, hc.1, hc.2, hdv, beq_self_eq_true, Bool.and_self, if_true]
        rw [← labEdge_keeps g0 F hF e]
        unfold labEdge
        rw [(hF e).1, (hF e).2.1, (hF e).2.2.1, hc.1, hc.2, hdv]
      · have hsame : ((fun e : Edge => if e.src == node && e.dst == v && e.key == w then
            { e with ct2 := (role (g0.opOf node) w, role (g0.opOf v) w) } else e) ∘ F) e = F e := by
          simp only [Function.comp, (hF e).1, (hF e).2.1, (hF e).2.2.1]
          rw [if_neg]
          intro h
          simp only [Bool.and_eq_true, beq_iff_eq] at h
          exact hc ⟨h.2, h.1.1⟩
        rw [hsame]
        by_cases hc2 : e.key = w ∧ e.src ∈ v :: rest'
        · rw [if_pos hc2, if_pos ⟨hc2.1, List.mem_cons_of_mem _ hc2.2⟩]
        · rw [if_neg hc2, if_neg]
          rintro ⟨hk, hm⟩
          rcases List.mem_cons.1 hm with h | h
          · exact hc ⟨hk, h⟩
          · exact hc2 ⟨hk, h⟩

/-! ## all registers -/

/-- edges of the registers already walked are labelled -/
def doneLab (g0 : MG) (done : List Wire) (e : Edge) : Edge := if e.key ∈ done then labEdge g0 e else e

theorem keeps_doneLab (g0 : MG) (done : List Wire) : Keeps (doneLab g0 done) := by
  intro e
  unfold doneLab
  split
  · exact ⟨rfl, rfl, rfl, rfl⟩
  · exact ⟨rfl, rfl, rfl, rfl⟩

theorem Rep0.path_length_le {g : MG} {W : List Wire} {body : Wire → List Nd} (r : Rep0 g W body) (w : Wire) (hw : w ∈ W) :
    (pathOf body w).length ≤ g.nodes.length := by
  have hsub : pathOf body w ⊆ g.nodes.map (·.1) := fun n hn => r.path_mem_nodes w hw n hn
  have := (List.subperm_of_subset (r.pathNodup w hw) hsub).length_le
  simpa using this

theorem walks_fold (g0 : MG) (W : List Wire) (body : Wire → List Nd) (r : Rep0 g0 W body) :
    ∀ (ins done : List Wire), (∀ w ∈ ins, w ∈ W) →
      ins.foldl (fun g w => ctWalk2 g w (g.nodes.length + 1) (.inp w) none) (g0.withEdges (g0.edges.map (doneLab g0 done)))
        = g0.withEdges (g0.edges.map (doneLab g0 (done ++ ins))) := by
  intro ins
  induction ins with
  | nil => intro done _; simp
  | cons w ins' ih =>
    intro done hins
    have hw : w ∈ W := hins w (by simp)
    rw [List.foldl_cons, nodes_withEdges]
    have hlen : (body w ++ [Nd.out w]).length ≤ g0.nodes.length + 1 := by
      have := r.path_length_le w hw
      unfold pathOf at this
      simp only [List.length_cons] at this
      omega
    have hstep := ctWalk2_eq g0 W body r w hw (g0.nodes.length + 1) (body w ++ [Nd.out w]) [] (.inp w) _ (keeps_doneLab g0 done) rfl hlen
    rw [r.inpOp w hw] at hstep
    have hstep' : ctWalk2 (g0.withEdges (g0.edges.map (doneLab g0 done))) w (g0.nodes.length + 1) (.inp w) none = _ := hstep
    rw [hstep']
    have hmap : (g0.edges.map fun e => if e.key = w ∧ e.src ∈ Nd.inp w :: (body w ++ [Nd.out w]) then labEdge g0 e else doneLab g0 done e)
        = g0.edges.map (doneLab g0 (done ++ [w])) := by
      apply List.map_congr_left
      intro e he
      unfold doneLab
      by_cases hk : e.key = w
      · have hs : e.src ∈ Nd.inp w :: (body w ++ [Nd.out w]) := by
          have := adj_mem_left (r.edge_sound0 e he).2
          rwa [hk] at this
        rw [if_pos ⟨hk, hs⟩, if_pos (by rw [hk]; simp)]
      · rw [if_neg (fun h => hk h.1)]
        by_cases hd : e.key ∈ done
        · rw [if_pos hd, if_pos (List.mem_append_left _ hd)]
        · rw [if_neg hd, if_neg]
          intro h
          rcases List.mem_append.1 h with h | h
          · exact hd h
          · exact hk (List.mem_singleton.1 h)
    rw [hmap, ih (done ++ [w]) (fun x hx => hins x (List.mem_cons_of_mem _ hx))]
    simp

theorem mem_inputs (g : MG) (w : Wire) : w ∈ g.inputs ↔ Nd.inp w ∈ g.nodes.map (·.1) := by
  unfold MG.inputs
  simp only [List.mem_filterMap, List.mem_map]
  constructor
  · rintro ⟨p, hp, h⟩
    refine ⟨p, hp, ?_⟩
    cases hp1 : p.1 with
    | inp x => rw [hp1] at h; injection h with h; rw [h]
    | out x => rw [hp1] at h; cases h
    | op x => rw [hp1] at h; cases h
  · rintro ⟨p, hp, h⟩
    exact ⟨p, hp, by rw [h]⟩

/-- **the repaired `add_control_target_to_dag` labels every edge of a circuit DAG with the roles at its two ends** -/
theorem addControlTarget2_eq (g : MG) (W : List Wire) (body : Wire → List Nd) (r : Rep0 g W body) :
    g.addControlTarget2 = g.labelled := by
  unfold MG.addControlTarget2 MG.labelled
  have h0 : g = g.withEdges (g.edges.map (doneLab g [])) := by
    have : g.edges.map (doneLab g []) = g.edges := by
      conv => rhs; rw [← List.map_id g.edges]
      apply List.map_congr_left
      intro e _
      unfold doneLab
      simp
    rw [this]; rfl
  have hin : ∀ w ∈ g.inputs, w ∈ W := fun w hw => r.inputsW w ((mem_inputs g w).1 hw)
  conv => lhs; arg 2; rw [h0]
  rw [walks_fold g W body r g.inputs [] hin]
  congr 1
  apply List.map_congr_left
  intro e he
  unfold doneLab
  rw [if_pos]
  simp only [List.nil_append]
  exact (mem_inputs g e.key).2 (opOf_some_mem g _ _ (r.inpOp _ (r.edge_sound0 e he).1))

theorem Rep0.labelled {g : MG} {W : List Wire} {body : Wire → List Nd} (r : Rep0 g W body) : Rep g.labelled W body where
  pathNodup := r.pathNodup
  bodyOp := r.bodyOp
  inpOp := r.inpOp
  outOp := r.outOp
  kindIn := r.kindIn
  kindOut := r.kindOut
  wiresNodup := r.wiresNodup
  inputsW := r.inputsW
  edge_sound0 := by
    intro e he
    obtain ⟨e0, he0, rfl⟩ := List.mem_map.1 he
    exact r.edge_sound0 e0 he0
  edge_complete := by
    intro w hw u v h
    obtain ⟨e, he, h1, h2, h3⟩ := r.edge_complete w hw u v h
    exact ⟨labEdge g e, List.mem_map_of_mem he, h1, h2, h3⟩
  lab := by
    intro e he
    obtain ⟨e0, he0, rfl⟩ := List.mem_map.1 he
    rfl

/-- after the repaired `add_control_target_to_dag` a circuit DAG satisfies `Rep` -/
theorem Rep0.addControlTarget2 {g : MG} {W : List Wire} {body : Wire → List Nd} (r : Rep0 g W body) :
    Rep g.addControlTarget2 W body := by
  rw [addControlTarget2_eq g W body r]
  exact r.labelled

end Graphiq.Compare
