/-
  Proofs/SweepCommuteDMRefine.lean — the density-matrix semantics `Commute.appD` (Proofs/SweepCommuteDM.lean) refines the
  compile step of the stabilizer backend on unitary-gate operations (`Commute.appT`, Proofs/CommuteTableau.lean): started on
  the density matrix `ρ(t)` of a tableau it produces `ρ` of the tableau the stabilizer step produces.  With
  `Commute.stabRun_eq_runSeq` this ties `appD` to the compile loop `stabRun` on gate-only circuits: the matrix `appD`
  computes along the compile sequence is the density matrix of the compiled tableau.
-/
import GraphiqModel.Proofs.SweepCommuteDM
import GraphiqModel.Proofs.CommuteTableau
import GraphiqModel.Proofs.HilbertDimHistory
import GraphiqModel.Proofs.CommuteRefine
import GraphiqModel.Proofs.CommuteComplete
import Mathlib.Analysis.Matrix.PosDef
namespace Graphiq.Commute
open Graphiq Matrix Classical
open Graphiq.Wire (Reg RegType SOp Item Kind G1 runSeq)

def isGatePrim : Tab.Op → Bool
  | .h _ | .s _ | .sdg _ | .x _ | .y _ | .z _ | .cnot _ _ | .cz _ _ => true
  | _ => false

/-- a gate primitive on `ρ(t)` gives `ρ` of the tableau with the gate's row action applied (C07: `rho_tab_gate`) -/
theorem appPD_tab (t : Tab) (p : Tab.Op) (hg : isGatePrim p = true) (hok : primOk t.n p = true) :
    appPD t.n p (some (Hilbert.tabRho t.n t)) = some (Hilbert.tabRho t.n (t.map (rowP p))) := by
  unfold appPD
  rw [if_pos hok]
  simp only [Option.map_some]
  congr 1
  cases p with
  | h q => exact Hilbert.rho_tab_gate t (.H q) (show q < t.n by simpa [primOk] using hok)
  | s q => exact Hilbert.rho_tab_gate t (.P q) (show q < t.n by simpa [primOk] using hok)
  | sdg q => exact Hilbert.rho_tab_gate t (.Pdag q) (show q < t.n by simpa [primOk] using hok)
  | x q => exact Hilbert.rho_tab_gate t (.X q) (show q < t.n by simpa [primOk] using hok)
  | y q => exact Hilbert.rho_tab_gate t (.Y q) (show q < t.n by simpa [primOk] using hok)
  | z q => exact Hilbert.rho_tab_gate t (.Z q) (show q < t.n by simpa [primOk] using hok)
  | cnot c tg => exact Hilbert.rho_tab_gate t (.CNOT c tg) (show c < t.n ∧ tg < t.n ∧ c ≠ tg by simpa [primOk] using hok)
  | cz c tg => exact Hilbert.rho_tab_gate t (.CZ c tg) (show c < t.n ∧ tg < t.n ∧ c ≠ tg by simpa [primOk] using hok)
  | swap _ _ => cases hg
  | meas _ _ => cases hg
  | resetZ _ _ _ => cases hg
  | resetX _ _ _ => cases hg
  | resetY _ _ _ => cases hg
  | insert _ => cases hg
  | add => cases hg
  | remove _ _ => cases hg
  | ptrace _ _ => cases hg

theorem runPD_tab : ∀ (l : List Tab.Op) (t : Tab), (∀ p ∈ l, isGatePrim p = true ∧ primOk t.n p = true) →
    runPD t.n l (some (Hilbert.tabRho t.n t)) = some (Hilbert.tabRho t.n (t.map (rowsP l))) := by
  intro l
  induction l with
  | nil => intro t _; rfl
  | cons a l ih =>
    intro t h
    rw [runPD_cons, appPD_tab t a (h a (by simp)).1 (h a (by simp)).2]
    exact ih (t.map (rowP a)) (fun p hp => h p (List.mem_cons_of_mem _ hp))

/-- a unitary-gate operation of the compile sequence reads no outcome, and its primitives are gate primitives that pass
    the compiler's assertions when its registers are pairwise different -/
theorem gateDec_shape (ne np : Nat) (a : SOp) (d : Dec) (h : gateDec ne np a = some d) (hnd : a.regs.Nodup) :
    d.mreg = none ∧ ∀ o, ∀ p ∈ d.prims o, isGatePrim p = true ∧ primOk (ne + np) p = true := by
  obtain ⟨hd, hg⟩ := gateDec_some h
  unfold decode at hd
  unfold toCOp at hg
  split at hd
  · next g r hitem hregs =>
    cases hq : regIx ne np r with
    | none => rw [hq] at hd; cases hd
    | some q =>
      rw [hq] at hd
      simp only [Option.map_some, Option.some.injEq] at hd
      subst hd
      have hlt := regIx_lt hq
      refine ⟨rfl, fun o p hp => ?_⟩
      cases g <;> simp only [g1Prims, List.mem_singleton, List.not_mem_nil] at hp <;> subst hp <;>
        exact ⟨rfl, by simpa [primOk] using hlt⟩
  · next _ cr r hitem hregs =>
    rw [hitem, hregs] at hg
    cases hg
  · next k _ cr c t hitem hregs =>
    split at hd
    · next qc qt hc ht =>
      rw [hitem, hregs] at hg
      have hne : qc ≠ qt := by
        intro he
        subst he
        have := regIx_inj hc ht
        rw [hregs] at hnd
        simp only [List.nodup_cons, List.mem_singleton, List.not_mem_nil, not_false_eq_true, List.nodup_nil, and_true] at hnd
        exact hnd this
      have hlc := regIx_lt hc
      have hlt := regIx_lt ht
      cases k <;> simp only [pairPrims, Option.some.injEq, reduceCtorEq] at hd <;> first | (cases hg; done) | skip
      all_goals subst hd
      all_goals refine ⟨rfl, fun o p hp => ?_⟩
      all_goals simp only [List.mem_singleton] at hp
      all_goals subst hp
      all_goals exact ⟨rfl, by simp [primOk, hlc, hlt, hne]⟩
    · cases hd
  · cases hd

/-- **`appD` refines the stabilizer compile step on unitary-gate operations**: on `ρ(s.t)` it returns `ρ` of the tableau
    `appT` returns, and leaves the outcome streams alone -/
theorem appD_refines_appT (ne np : Nat) (a : SOp) (d : Dec) (h : gateDec ne np a = some d) (hnd : a.regs.Nodup)
    (s : RunState) (hn : s.t.n = ne + np) (sc : Script) :
    ∃ s', appT ne np a (some s) = some s' ∧ s'.t.n = ne + np ∧
      appD ne np a (some (Hilbert.tabRho (ne + np) s.t, sc)) = some (Hilbert.tabRho (ne + np) s'.t, sc) := by
  obtain ⟨hm, hp⟩ := gateDec_shape ne np a d h hnd
  refine ⟨_, appT_some ne np a d h s, by show s.t.n = ne + np; exact hn, ?_⟩
  have e := appD_map ne np a d (gateDec_some h).1 (some (Hilbert.tabRho (ne + np) s.t)) sc
  simp only [Option.map_some] at e
  rw [e]
  have hhas : d.has sc := by unfold Dec.has; rw [hm]; trivial
  have hout : d.out sc = false := by unfold Dec.out; rw [hm]
  have hpop : d.pop sc = sc := by unfold Dec.pop; rw [hm]
  rw [if_pos hhas, hout, hpop]
  have hrun := runPD_tab (d.prims false) s.t (fun p hp' => by rw [hn]; exact hp false p hp')
  rw [hn] at hrun
  rw [hrun]
  simp only [Option.map_some]
  congr 2
  show Hilbert.tabRho (ne + np) (s.t.map (rowsP (d.prims false))) = Hilbert.tabRho (ne + np) (s.t.map (rowsP (d.prims false))).norm
  have := Hilbert.tabRho_norm (s.t.map (rowsP (d.prims false)))
  have hn' : (s.t.map (rowsP (d.prims false))).n = ne + np := hn
  rw [hn'] at this
  exact this.symm

/-- the same along a list of unitary-gate operations -/
theorem runSeq_appD_refines (ne np : Nat) : ∀ (l : List SOp), (∀ a ∈ l, (gateDec ne np a).isSome = true ∧ a.regs.Nodup) →
    ∀ (s : RunState), s.t.n = ne + np → ∀ sc : Script,
    ∃ s', runSeq (appT ne np) l (some s) = some s' ∧ s'.t.n = ne + np ∧
      runSeq (appD ne np) l (some (Hilbert.tabRho (ne + np) s.t, sc)) = some (Hilbert.tabRho (ne + np) s'.t, sc) := by
  intro l
  induction l with
  | nil => intro _ s hn sc; exact ⟨s, rfl, hn, rfl⟩
  | cons a l ih =>
    intro hl s hn sc
    obtain ⟨hsome, hnd⟩ := hl a (by simp)
    obtain ⟨d, hd⟩ := Option.isSome_iff_exists.1 hsome
    obtain ⟨s1, h1, hn1, e1⟩ := appD_refines_appT ne np a d hd hnd s hn sc
    obtain ⟨s2, h2, hn2, e2⟩ := ih (fun b hb => hl b (List.mem_cons_of_mem _ hb)) s1 hn1 sc
    refine ⟨s2, ?_, hn2, ?_⟩
    · show runSeq (appT ne np) l (appT ne np a (some s)) = some s2
      rw [h1]; exact h2
    · show runSeq (appD ne np) l (appD ne np a (some (Hilbert.tabRho (ne + np) s.t, sc))) = _
      rw [e1]; exact e2

/-! ## the measurement primitive: Born weight times the post-measurement tableau -/

/-- scalar multiples pass through a primitive -/
theorem appPD_smul (n : Nat) (p : Tab.Op) (c : ℂ) (ρ ρ' : Hilbert.DMat n) (h : appPD n p (some ρ) = some ρ') :
    appPD n p (some (c • ρ)) = some (c • ρ') := by
  unfold appPD at h ⊢
  split at h
  · next hok =>
    rw [if_pos hok]
    simp only [Option.map_some, Option.some.injEq] at h ⊢
    rw [← h, Matrix.mul_smul, Matrix.smul_mul]
  · cases h

open scoped ComplexOrder in
/-- **the measurement primitive of the density-matrix semantics refines `z_measurement_gate`** (C07's `meas_density`): on
    `ρ(t)` with recorded outcome `o` it returns `w · ρ(t')`, where `t'` is the tableau the API call returns and `w` is the
    Born probability `tr(Π_o ρ)` of the recorded outcome if that outcome can occur (then it is the outcome the API
    reports), and `0` — the zero matrix, an impossible branch — if it cannot -/
theorem appPD_meas_tab (t : Tab) (q : Nat) (o : Bool) (hq : q < t.n) (hv : t.Valid) (hr : t.StabReal) :
    appPD t.n (.meas q o) (some (Hilbert.tabRho t.n t)) =
      some ((if (t.zMeasure q o).2.1 = o then Matrix.trace (Hilbert.proj t.n (PRow.Zq q o) * Hilbert.tabRho t.n t) else 0) •
        Hilbert.tabRho t.n (t.zMeasure q o).1) := by
  have hok : primOk t.n (.meas q o) = true := by simpa [primOk] using hq
  unfold appPD
  rw [if_pos hok]
  simp only [Option.map_some]
  congr 1
  show Hilbert.projZ t.n q o * Hilbert.tabRho t.n t * (Hilbert.projZ t.n q o)ᴴ = _
  rw [Hilbert.projZ_eq t.n q hq o, Hilbert.proj_Zq_hermitian]
  obtain ⟨h1, h2, _⟩ := Hilbert.meas_density t q o hq hv hr
  have hρ : Hilbert.tabRho t.n t = Hilbert.rho t.n (STab.ofTab t) := rfl
  rw [hρ]
  by_cases hout : (t.zMeasure q o).2.1 = o
  · rw [if_pos hout]
    rw [hout] at h1
    have htr : Matrix.trace (Hilbert.proj t.n (PRow.Zq q o) * Hilbert.rho t.n (STab.ofTab t)) ≠ 0 := by
      intro h0
      unfold Hilbert.measOutcome at h1
      rw [if_pos h0] at h1
      cases o <;> cases h1
    unfold Hilbert.postMeas at h2
    rw [h1] at h2
    show _ = _ • Hilbert.rho t.n (STab.ofTab (t.zMeasure q o).1)
    rw [← h2, smul_smul, mul_inv_cancel₀ htr, one_smul]
  · rw [if_neg hout, zero_smul]
    -- the recorded outcome has probability 0: the branch is the zero matrix
    have h0 : Matrix.trace (Hilbert.proj t.n (PRow.Zq q o) * Hilbert.rho t.n (STab.ofTab t)) = 0 := by
      by_contra hne
      unfold Hilbert.measOutcome at h1
      rw [if_neg hne] at h1
      exact hout h1.symm
    have hg := Hilbert.ofTab_good t hv
    have hpsd : (Hilbert.rho t.n (STab.ofTab t)).PosSemidef :=
      Hilbert.posSemidef_of_projector _ (Hilbert.rho_idem _ hg) (Hilbert.rho_hermitian _ hg)
    have hpsd2 : (Hilbert.proj t.n (PRow.Zq q o) * Hilbert.rho t.n (STab.ofTab t) * (Hilbert.proj t.n (PRow.Zq q o))ᴴ).PosSemidef :=
      hpsd.mul_mul_conjTranspose_same _
    rw [Hilbert.proj_Zq_hermitian] at hpsd2
    exact hpsd2.trace_eq_zero_iff.1 (by rw [Hilbert.trace_proj_sandwich t.n _ rfl]; exact h0)

/-! ## every primitive, and every operation, refines the tableau API with Born weights -/

/-- the tableau after the API call of a primitive (gates: the row map; measurement: `z_measurement_gate` with the recorded
    outcome as the value used if the outcome is random) -/
def apiP (t : Tab) : Tab.Op → Tab
  | .meas q o => (t.zMeasure q o).1
  | p => t.map (rowP p)

/-- the Born weight of a primitive on the state of `t`: 1 for gates; for a recorded outcome its probability, 0 if it cannot occur -/
noncomputable def weightP (t : Tab) : Tab.Op → ℂ
  | .meas q o =>
    if (t.zMeasure q o).2.1 = o then Matrix.trace (Hilbert.proj t.n (PRow.Zq q o) * Hilbert.tabRho t.n t) else 0
  | _ => 1

/-- the gate of a gate primitive -/
theorem gatePrim_gate (n : Nat) (p : Tab.Op) (hg : isGatePrim p = true) (hok : primOk n p = true) :
    ∃ g : Gate, g.WF n ∧ rowP p = g.act := by
  cases p with
  | h q => exact ⟨.H q, (show q < n by simpa [primOk] using hok), rfl⟩
  | s q => exact ⟨.P q, (show q < n by simpa [primOk] using hok), rfl⟩
  | sdg q => exact ⟨.Pdag q, (show q < n by simpa [primOk] using hok), rfl⟩
  | x q => exact ⟨.X q, (show q < n by simpa [primOk] using hok), rfl⟩
  | y q => exact ⟨.Y q, (show q < n by simpa [primOk] using hok), rfl⟩
  | z q => exact ⟨.Z q, (show q < n by simpa [primOk] using hok), rfl⟩
  | cnot c tg => exact ⟨.CNOT c tg, (show c < n ∧ tg < n ∧ c ≠ tg by simpa [primOk] using hok), rfl⟩
  | cz c tg => exact ⟨.CZ c tg, (show c < n ∧ tg < n ∧ c ≠ tg by simpa [primOk] using hok), rfl⟩
  | swap _ _ => cases hg
  | meas _ _ => cases hg
  | resetZ _ _ _ => cases hg
  | resetX _ _ _ => cases hg
  | resetY _ _ _ => cases hg
  | insert _ => cases hg
  | add => cases hg
  | remove _ _ => cases hg
  | ptrace _ _ => cases hg

/-- a primitive that passes the assertions is a gate primitive or a measurement -/
theorem primOk_cases (n : Nat) (p : Tab.Op) (hok : primOk n p = true) :
    isGatePrim p = true ∨ ∃ q o, p = .meas q o ∧ q < n := by
  cases p with
  | meas q o => exact Or.inr ⟨q, o, rfl, by simpa [primOk] using hok⟩
  | h _ => exact Or.inl rfl
  | s _ => exact Or.inl rfl
  | sdg _ => exact Or.inl rfl
  | x _ => exact Or.inl rfl
  | y _ => exact Or.inl rfl
  | z _ => exact Or.inl rfl
  | cnot _ _ => exact Or.inl rfl
  | cz _ _ => exact Or.inl rfl
  | swap _ _ => simp [primOk] at hok
  | resetZ _ _ _ => simp [primOk] at hok
  | resetX _ _ _ => simp [primOk] at hok
  | resetY _ _ _ => simp [primOk] at hok
  | insert _ => simp [primOk] at hok
  | add => simp [primOk] at hok
  | remove _ _ => simp [primOk] at hok
  | ptrace _ _ => simp [primOk] at hok

/-- **every primitive of the density-matrix semantics refines its tableau API call, with the Born weight** -/
theorem appPD_api (t : Tab) (p : Tab.Op) (hok : primOk t.n p = true) (hv : t.Valid) (hr : t.StabReal) (c : ℂ) :
    appPD t.n p (some (c • Hilbert.tabRho t.n t)) = some ((c * weightP t p) • Hilbert.tabRho t.n (apiP t p)) ∧
    (apiP t p).Valid ∧ (apiP t p).StabReal ∧ (apiP t p).n = t.n := by
  rcases primOk_cases t.n p hok with hg | ⟨q, o, rfl, hq⟩
  · obtain ⟨g, hwf, hact⟩ := gatePrim_gate t.n p hg hok
    have hapi : apiP t p = t.map (rowP p) := by cases p <;> first | rfl | cases hg
    have hw : weightP t p = 1 := by cases p <;> first | rfl | cases hg
    rw [hapi, hw, mul_one]
    refine ⟨appPD_smul t.n p c _ _ (appPD_tab t p hg hok), ?_, ?_, rfl⟩
    · rw [hact]; exact Tab.map_valid t _ (Gate.isAut t.n g hwf) hv
    · rw [hact]; exact Hilbert.gate_stabReal t g hr
  · refine ⟨?_, Tab.zMeasure_valid t q o hq hv, TabSpec.zMeasure_stabReal t q o hq hv hr, Tab.zMeasure_n t q o⟩
    have h := appPD_smul t.n (.meas q o) c _ _ (appPD_meas_tab t q o hq hv hr)
    rw [h, smul_smul]
    rfl

/-- the tableau and the weight after a list of primitives -/
def apiPs : List Tab.Op → Tab → Tab
  | [], t => t
  | p :: l, t => apiPs l (apiP t p)

noncomputable def weightPs : List Tab.Op → Tab → ℂ
  | [], _ => 1
  | p :: l, t => weightP t p * weightPs l (apiP t p)

theorem runPD_api : ∀ (l : List Tab.Op) (t : Tab), (∀ p ∈ l, primOk t.n p = true) → t.Valid → t.StabReal → ∀ c : ℂ,
    runPD t.n l (some (c • Hilbert.tabRho t.n t)) = some ((c * weightPs l t) • Hilbert.tabRho t.n (apiPs l t)) ∧
    (apiPs l t).Valid ∧ (apiPs l t).StabReal ∧ (apiPs l t).n = t.n := by
  intro l
  induction l with
  | nil => intro t _ hv hr c; exact ⟨by simp [runPD, weightPs, apiPs], hv, hr, rfl⟩
  | cons p l ih =>
    intro t hok hv hr c
    obtain ⟨h1, hv1, hr1, hn1⟩ := appPD_api t p (hok p (by simp)) hv hr c
    obtain ⟨h2, hv2, hr2, hn2⟩ := ih (apiP t p) (fun p' hp' => by rw [hn1]; exact hok p' (List.mem_cons_of_mem _ hp')) hv1 hr1
      (c * weightP t p)
    refine ⟨?_, hv2, hr2, hn2.trans hn1⟩
    rw [runPD_cons, h1]
    rw [hn1] at h2
    rw [h2]
    simp only [weightPs, apiPs, mul_assoc]

/-- **every operation of the compile sequence, in the density-matrix semantics, refines the tableau API**: on `c · ρ(t)` it
    returns `(c · w) · ρ(t')` with `t'` the tableau after the API calls of the operation (measurement with the recorded
    outcome, classically controlled corrections, reset flip) and `w` the Born weight of the recorded outcome — provided the
    compiler's assertions hold (`hok`) and an outcome is supplied -/
theorem appD_api (ne np : Nat) (a : SOp) (d : Dec) (hd : decode ne np a = some d) (t : Tab) (hn : t.n = ne + np)
    (hv : t.Valid) (hr : t.StabReal) (sc : Script) (hhas : d.has sc)
    (hok : ∀ p ∈ d.prims (d.out sc), primOk (ne + np) p = true) (c : ℂ) :
    appD ne np a (some (c • Hilbert.tabRho (ne + np) t, sc)) =
      some ((c * weightPs (d.prims (d.out sc)) t) • Hilbert.tabRho (ne + np) (apiPs (d.prims (d.out sc)) t), d.pop sc) ∧
    (apiPs (d.prims (d.out sc)) t).Valid ∧ (apiPs (d.prims (d.out sc)) t).StabReal ∧
    (apiPs (d.prims (d.out sc)) t).n = ne + np := by
  obtain ⟨h1, hv1, hr1, hn1⟩ := runPD_api (d.prims (d.out sc)) t (fun p hp => by rw [hn]; exact hok p hp) hv hr c
  refine ⟨?_, hv1, hr1, hn1.trans hn⟩
  have e := appD_map ne np a d hd (some (c • Hilbert.tabRho (ne + np) t)) sc
  simp only [Option.map_some] at e
  rw [e, if_pos hhas]
  rw [hn] at h1
  rw [h1]
  rfl

/-! ## … and the stabilizer semantics `appRaw` is defined exactly when the Born weight is non-zero -/

open scoped ComplexOrder in
/-- the probability of the outcome `z_measurement_gate` reports is not zero -/
theorem weight_ne_zero_of_reported (t : Tab) (q : Nat) (o : Bool) (hq : q < t.n) (hv : t.Valid) (hr : t.StabReal)
    (h : (t.zMeasure q o).2.1 = o) : weightP t (.meas q o) ≠ 0 := by
  show (if (t.zMeasure q o).2.1 = o then Matrix.trace (Hilbert.proj t.n (PRow.Zq q o) * Hilbert.tabRho t.n t) else 0) ≠ 0
  rw [if_pos h]
  obtain ⟨h1, _, _⟩ := Hilbert.meas_density t q o hq hv hr
  rw [h] at h1
  intro h0
  unfold Hilbert.measOutcome at h1
  have h0' : Matrix.trace (Hilbert.proj t.n (PRow.Zq q o) * Hilbert.rho t.n (STab.ofTab t)) = 0 := h0
  rw [if_pos h0'] at h1
  cases o <;> cases h1

/-- **a primitive in the stabilizer (group) semantics**: undefined iff the Born weight of its recorded outcome is 0, otherwise
    the group of the tableau after the API call -/
theorem appP_api {n : Nat} {t : Tab} (ht : TInv n t) (p : Tab.Op) (hok : primOk n p = true) :
    appP n p (some (TabSpec.gstate t)) = if weightP t p = 0 then none else some (TabSpec.gstate (apiP t p)) := by
  have hokt : primOk t.n p = true := by rw [ht.n_eq]; exact hok
  rcases primOk_cases n p hok with hg | ⟨q, o, rfl, hq⟩
  · have hw : weightP t p = 1 := by cases p <;> first | rfl | cases hg
    rw [hw, if_neg one_ne_zero]
    cases p with
    | h q =>
      have hq : q < n := by simpa [primOk] using hok
      exact appP_gate_tab (.h q) (PRow.h q) hok (fun _ h => h) (fun _ => rfl) (TabSpec.isAut1_h n q hq) ht
    | s q =>
      have hq : q < n := by simpa [primOk] using hok
      exact appP_gate_tab (.s q) (PRow.s q) hok (fun _ h => h) (fun _ => rfl) (TabSpec.isAut1_s n q hq) ht
    | sdg q =>
      have hq : q < n := by simpa [primOk] using hok
      exact appP_gate_tab (.sdg q) (PRow.sdg q) hok (fun _ h => h) (fun _ => rfl) (TabSpec.isAut1_sdg n q hq) ht
    | x q =>
      have hq : q < n := by simpa [primOk] using hok
      exact appP_gate_tab (.x q) (PRow.xg q) hok (fun _ h => h) (fun _ => rfl) (TabSpec.isAut1_xg n q hq) ht
    | y q =>
      have hq : q < n := by simpa [primOk] using hok
      exact appP_gate_tab (.y q) (PRow.yg q) hok (fun _ h => h) (fun _ => rfl) (TabSpec.isAut1_yg n q hq) ht
    | z q =>
      have hq : q < n := by simpa [primOk] using hok
      exact appP_gate_tab (.z q) (PRow.zg q) hok (fun _ h => h) (fun _ => rfl) (TabSpec.isAut1_zg n q hq) ht
    | cnot c tg =>
      have hq : c < n ∧ tg < n ∧ c ≠ tg := by simpa [primOk] using hok
      exact appP_gate_tab (.cnot c tg) (PRow.cnot c tg) hok (fun _ h => h) (fun _ => rfl)
        (TabSpec.isAut1_cnot n c tg hq.1 hq.2.1 hq.2.2) ht
    | cz c tg =>
      have hq : c < n ∧ tg < n ∧ c ≠ tg := by simpa [primOk] using hok
      exact appP_gate_tab (.cz c tg) (PRow.cz c tg) hok (fun _ h => h) (fun _ => rfl)
        (TabSpec.isAut1_cz n c tg hq.1 hq.2.1 hq.2.2) ht
    | swap _ _ => cases hg
    | meas _ _ => cases hg
    | resetZ _ _ _ => cases hg
    | resetX _ _ _ => cases hg
    | resetY _ _ _ => cases hg
    | insert _ => cases hg
    | add => cases hg
    | remove _ _ => cases hg
    | ptrace _ _ => cases hg
  · have hq' : q < t.n := by rw [ht.n_eq]; exact hq
    by_cases hrep : (t.zMeasure q o).2.1 = o
    · rw [if_neg (weight_ne_zero_of_reported t q o hq' ht.valid ht.real hrep)]
      have := meas_refines ht q o hq
      rw [hrep] at this
      exact this
    · have hw : weightP t (.meas q o) = 0 := by
        show (if (t.zMeasure q o).2.1 = o then _ else (0 : ℂ)) = 0
        rw [if_neg hrep]
      rw [hw, if_pos rfl, appP_meas n q o hq]
      -- the recorded outcome cannot occur: the opposite `Z` eigenvalue is a stabilizer
      have hz := meas_leaves_Zq ht q o hq
      cases hp : t.pivot q with
      | some p =>
        exfalso
        have e : t.zMeasure q o = (t.measRandom q p o, o, p) := by simp [Tab.zMeasure, hp]
        rw [e] at hrep
        exact hrep rfl
      | none =>
        have e : t.zMeasure q o = (t, (t.measScratch q).r, 0) := by simp [Tab.zMeasure, hp]
        rw [e] at hz hrep
        simp only at hz hrep
        have hro : (t.measScratch q).r = !o := by
          revert hrep; cases (t.measScratch q).r <;> cases o <;> simp
        rw [hro] at hz
        simp only [measStep, Option.bind_some]
        rw [if_pos (show (TabSpec.gstate t).G (PRow.Zq q (!o)) from hz)]

theorem runP_api {n : Nat} : ∀ (l : List Tab.Op) {t : Tab}, TInv n t → (∀ p ∈ l, primOk n p = true) →
    runP n l (some (TabSpec.gstate t)) = if weightPs l t = 0 then none else some (TabSpec.gstate (apiPs l t)) := by
  intro l
  induction l with
  | nil => intro t _ _; simp [runP, weightPs, apiPs]
  | cons p l ih =>
    intro t ht hok
    have hokp := hok p (by simp)
    rw [runP_cons, appP_api ht p hokp]
    have hapi := appPD_api t p (by rw [ht.n_eq]; exact hokp) ht.valid ht.real 1
    have ht1 : TInv n (apiP t p) := ⟨hapi.2.1, hapi.2.2.1, hapi.2.2.2.trans ht.n_eq⟩
    by_cases hw : weightP t p = 0
    · rw [if_pos hw, runP_none]
      simp [weightPs, hw]
    · rw [if_neg hw, ih ht1 (fun p' hp' => hok p' (List.mem_cons_of_mem _ hp'))]
      simp only [weightPs, apiPs, mul_eq_zero, hw, false_or]

/-- **the density-matrix semantics refines the stabilizer semantics, operation by operation**: for an operation of the
    compile sequence on a valid tableau `t` with real stabilizer rows and an outcome supplied, with `t'` the tableau after its
    API calls and `w` the Born weight of the recorded outcome: `appRaw` on the group of `t` is undefined ("cannot occur") iff
    `w = 0`, and otherwise gives the group of `t'` and pops the outcome stream; `appD` on `c · ρ(t)` gives `(c · w) · ρ(t')`
    and pops the same stream -/
theorem appD_refines_appRaw (ne np : Nat) (a : SOp) (d : Dec) (hd : decode ne np a = some d) (t : Tab)
    (ht : TInv (ne + np) t) (sc : Script) (hhas : d.has sc)
    (hok : ∀ p ∈ d.prims (d.out sc), primOk (ne + np) p = true) (c : ℂ) :
    appRaw ne np a (some (TabSpec.gstate t, sc)) =
      (if weightPs (d.prims (d.out sc)) t = 0 then none else some (TabSpec.gstate (apiPs (d.prims (d.out sc)) t), d.pop sc)) ∧
    appD ne np a (some (c • Hilbert.tabRho (ne + np) t, sc)) =
      some ((c * weightPs (d.prims (d.out sc)) t) • Hilbert.tabRho (ne + np) (apiPs (d.prims (d.out sc)) t), d.pop sc) ∧
    TInv (ne + np) (apiPs (d.prims (d.out sc)) t) := by
  obtain ⟨h1, hv1, hr1, hn1⟩ := appD_api ne np a d hd t ht.n_eq ht.valid ht.real sc hhas hok c
  refine ⟨?_, h1, ⟨hv1, hr1, hn1⟩⟩
  have e := appRaw_map ne np a d hd (some (TabSpec.gstate t)) sc
  simp only [Option.map_some] at e
  rw [e, if_pos hhas, runP_api _ ht hok]
  split <;> rfl

/-! ## along a whole compile sequence -/

/-- every primitive of a decoded operation with pairwise different registers passes the compiler's assertions -/
theorem decode_primOk (ne np : Nat) (a : SOp) (d : Dec) (hd : decode ne np a = some d) (hnd : a.regs.Nodup) :
    ∀ o, ∀ p ∈ d.prims o, primOk (ne + np) p = true := by
  unfold decode at hd
  split at hd
  · next g r hitem hregs =>
    cases hq : regIx ne np r with
    | none => rw [hq] at hd; cases hd
    | some q =>
      rw [hq] at hd
      simp only [Option.map_some, Option.some.injEq] at hd
      subst hd
      have hlt := regIx_lt hq
      intro o p hp
      cases g <;> simp only [g1Prims, List.mem_singleton, List.not_mem_nil] at hp <;> subst hp <;>
        simpa [primOk] using hlt
  · next _ cr r hitem hregs =>
    cases hq : regIx ne np r with
    | none => rw [hq] at hd; cases hd
    | some q =>
      rw [hq] at hd
      simp only [Option.map_some, Option.some.injEq] at hd
      subst hd
      have hlt := regIx_lt hq
      intro o p hp
      simp only [List.mem_singleton] at hp
      subst hp
      simpa [primOk] using hlt
  · next k _ cr c t hitem hregs =>
    split at hd
    · next qc qt hc ht =>
      have hne : qc ≠ qt := by
        intro he
        subst he
        have := regIx_inj hc ht
        rw [hregs] at hnd
        simp only [List.nodup_cons, List.mem_singleton, List.not_mem_nil, not_false_eq_true, List.nodup_nil, and_true] at hnd
        exact hnd this
      have hlc := regIx_lt hc
      have hlt := regIx_lt ht
      intro o p hp
      cases k <;> simp only [pairPrims, Option.some.injEq, reduceCtorEq] at hd
      all_goals subst hd
      all_goals simp only at hp
      all_goals cases o
      all_goals simp only [List.mem_cons, List.mem_singleton, List.not_mem_nil, or_false, if_true, if_false, Bool.false_eq_true] at hp
      all_goals (rcases hp with rfl | rfl | rfl <;> simp [primOk, hlc, hlt, hne]) <;> done
    · cases hd
  · cases hd

/-- **along any compile sequence the density-matrix semantics carries (probability of the recorded outcomes) × (density
    matrix of the state the stabilizer semantics carries)**: whenever the stabilizer semantics runs through (the recorded
    outcomes can occur) and ends in the group `g'`, there are a tableau `t'` of that group and a non-zero weight `w` such that
    the density-matrix run from `c · ρ(t)` ends in `(c · w) · ρ(t')`, with the same unread outcome streams -/
theorem run_refines_dm (ne np : Nat) : ∀ (l : List SOp), (∀ a ∈ l, (decode ne np a).isSome = true ∧ a.regs.Nodup) →
    ∀ (t : Tab) (sc : Script) (c : ℂ), TInv (ne + np) t → ∀ (g' : TabSpec.GState) (sc' : Script),
      runSeq (appRaw ne np) l (some (TabSpec.gstate t, sc)) = some (g', sc') →
      ∃ (t' : Tab) (w : ℂ), w ≠ 0 ∧ TInv (ne + np) t' ∧ g' = TabSpec.gstate t' ∧
        runSeq (appD ne np) l (some (c • Hilbert.tabRho (ne + np) t, sc)) = some ((c * w) • Hilbert.tabRho (ne + np) t', sc') := by
  intro l
  induction l with
  | nil =>
    intro _ t sc c ht g' sc' h
    have h' : some (TabSpec.gstate t, sc) = some (g', sc') := h
    injection h' with h'
    injection h' with h1 h2
    exact ⟨t, 1, one_ne_zero, ht, h1.symm, by rw [mul_one, ← h2]; rfl⟩
  | cons a l ih =>
    intro hl t sc c ht g' sc' h
    obtain ⟨hsome, hnd⟩ := hl a (by simp)
    obtain ⟨d, hd⟩ := Option.isSome_iff_exists.1 hsome
    have hrun : runSeq (appRaw ne np) (a :: l) (some (TabSpec.gstate t, sc))
        = runSeq (appRaw ne np) l (appRaw ne np a (some (TabSpec.gstate t, sc))) := rfl
    rw [hrun] at h
    by_cases hhas : d.has sc
    · obtain ⟨e1, e2, ht1⟩ := appD_refines_appRaw ne np a d hd t ht sc hhas
        (fun p hp => decode_primOk ne np a d hd hnd _ p hp) c
      rw [e1] at h
      by_cases hw : weightPs (d.prims (d.out sc)) t = 0
      · rw [if_pos hw, runSeq_appRaw_none] at h; cases h
      · rw [if_neg hw] at h
        obtain ⟨t', w', hw', ht', hg', hD⟩ := ih (fun b hb => hl b (List.mem_cons_of_mem _ hb)) _ (d.pop sc)
          (c * weightPs (d.prims (d.out sc)) t) ht1 g' sc' h
        refine ⟨t', weightPs (d.prims (d.out sc)) t * w', mul_ne_zero hw hw', ht', hg', ?_⟩
        show runSeq (appD ne np) l (appD ne np a (some (c • Hilbert.tabRho (ne + np) t, sc))) = _
        rw [e2, hD, mul_assoc]
    · exfalso
      have e := appRaw_map ne np a d hd (some (TabSpec.gstate t)) sc
      simp only [Option.map_some] at e
      rw [e, if_neg hhas, runSeq_appRaw_none] at h
      cases h

end Graphiq.Commute
