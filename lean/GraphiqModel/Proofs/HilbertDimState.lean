/-
  Proofs/HilbertDimState.lean — a stabilizer state with an unentangled qubit is a product state, in Hilbert space.

  * `projector_eq_of_le` : two orthogonal projectors `P ≥ Q` with the same trace are equal;
  * `site1 σ q` : the one-qubit state `(1 + σ_q)/2` of a single-site stabilizer `σ` (`ketbra s = |s⟩⟨s|` for `±Z_q`);
  * **`rho_site_factor`** : if the stabilizer group of a valid tableau `t1` on `m+1` qubits contains a single-site Pauli
    `σ` on qubit `q` and, for every generator `P'` of a valid tableau `t'` on `m` qubits, the row `P'` with an identity
    inserted at `q`, then `ρ(t1) = ρ(t') ⊗_q (1 + σ_q)/2`.
  This one lemma turns the group-level specifications of `insert_qubit`, `remove_qubit` and `partial_trace`
  (`Proofs/TabSpec*.lean`) into statements about density matrices (`Proofs/HilbertDimOps.lean`).
-/
import GraphiqModel.Proofs.HilbertDimSite
import GraphiqModel.Proofs.TabSpecRemove
namespace Graphiq
namespace Hilbert
open Matrix PRow TabSpec

/-! ### projectors -/

open scoped ComplexOrder in
/-- two Hermitian idempotents with `P Q = Q` (i.e. `Q ≤ P`) and equal trace are equal -/
theorem projector_eq_of_le {ι : Type} [Fintype ι] [DecidableEq ι] (P Q : Matrix ι ι ℂ)
    (hP : P * P = P) (hPh : Pᴴ = P) (hQ : Q * Q = Q) (hQh : Qᴴ = Q) (hle : P * Q = Q)
    (htr : Matrix.trace P = Matrix.trace Q) : P = Q := by
  have hQP : Q * P = Q := by
    have := congrArg Matrix.conjTranspose hle
    rw [Matrix.conjTranspose_mul, hPh, hQh] at this
    exact this
  have hD : (P - Q)ᴴ * (P - Q) = P - Q := by
    rw [Matrix.conjTranspose_sub, hPh, hQh, Matrix.sub_mul, Matrix.mul_sub, Matrix.mul_sub, hP, hle, hQP, hQ]
    abel
  have h0 : Matrix.trace ((P - Q)ᴴ * (P - Q)) = 0 := by
    rw [hD, Matrix.trace_sub, htr, sub_self]
  exact sub_eq_zero.mp (Matrix.trace_conjTranspose_mul_self_eq_zero_iff.mp h0)

/-- `P M = M` implies `(1 + P)/2 · M = M` -/
theorem proj_mul_of_fixed (n : Nat) (g : PRow) (M : Matrix (Bits n) (Bits n) ℂ) (h : pauliMat n g * M = M) :
    proj n g * M = M := by
  unfold proj
  rw [smul_mul_assoc, add_mul, Matrix.one_mul, h, ← two_smul ℂ M, smul_smul]
  norm_num

/-! ### one-qubit states -/

/-- `|s⟩⟨s|` -/
noncomputable def ketbra (s : Bool) : Matrix Bool Bool ℂ := Matrix.of fun a b => if a = s ∧ b = s then 1 else 0

/-- `(1 + (-1)^r σ(x,z))/2` -/
noncomputable def bloch (x z r : Bool) : Matrix Bool Bool ℂ :=
  (1 / 2 : ℂ) • (1 + (if r then (-1 : ℂ) else 1) • sigma x z)

/-- the one-qubit state `(1 + σ_q)/2` fixed by the single-site stabilizer `σ` -/
noncomputable def site1 (σ : PRow) (q : Nat) : Matrix Bool Bool ℂ :=
  (1 / 2 : ℂ) • (1 + iPow σ.ph • sigma (σ.x q) (σ.z q))

theorem site1_eq_bloch (σ : PRow) (q : Nat) (hip : σ.ip = false) : site1 σ q = bloch (σ.x q) (σ.z q) σ.r := by
  unfold site1 bloch
  have : iPow σ.ph = if σ.r then (-1 : ℂ) else 1 := by
    unfold PRow.ph
    rw [hip]
    have e : 2 * Bool.toInt' σ.r + Bool.toInt' false = 2 * Bool.toInt' σ.r := by simp [Bool.toInt']
    rw [e, iPow_two_mul_toInt']
  rw [this]

theorem half_one_add_facts (u : Matrix Bool Bool ℂ) (c : ℂ) (hu : u * u = 1) (hh : uᴴ = u)
    (ht : Matrix.trace u = 0) (hc : c * c = 1) (hs : star c = c) :
    ((1 / 2 : ℂ) • (1 + c • u)) * ((1 / 2 : ℂ) • (1 + c • u)) = (1 / 2 : ℂ) • (1 + c • u) ∧
    ((1 / 2 : ℂ) • (1 + c • u))ᴴ = (1 / 2 : ℂ) • (1 + c • u) ∧
    Matrix.trace ((1 / 2 : ℂ) • (1 + c • u)) = 1 := by
  refine ⟨?_, ?_, ?_⟩
  · rw [smul_mul_smul_comm]
    have : (1 + c • u) * (1 + c • u) = (2 : ℂ) • (1 + c • u) := by
      rw [add_mul, mul_add, mul_add, Matrix.one_mul, Matrix.mul_one, Matrix.one_mul, smul_mul_smul_comm, hu, hc,
        one_smul, two_smul]
      abel
    rw [this, smul_smul]; norm_num
  · rw [Matrix.conjTranspose_smul, Matrix.conjTranspose_add, Matrix.conjTranspose_one, Matrix.conjTranspose_smul, hh, hs]
    congr 1
    simp
  · rw [Matrix.trace_smul, Matrix.trace_add, Matrix.trace_smul, ht, Matrix.trace_one]
    simp

set_option linter.unusedSimpArgs false in
theorem sigma_facts :
    (sigmaX * sigmaX = 1 ∧ sigmaXᴴ = sigmaX ∧ Matrix.trace sigmaX = 0) ∧
    (sigmaY * sigmaY = 1 ∧ sigmaYᴴ = sigmaY ∧ Matrix.trace sigmaY = 0) ∧
    (sigmaZ * sigmaZ = 1 ∧ sigmaZᴴ = sigmaZ ∧ Matrix.trace sigmaZ = 0) := by
  refine ⟨⟨?_, ?_, ?_⟩, ⟨?_, ?_, ?_⟩, ⟨?_, ?_, ?_⟩⟩
  · ext a b; cases a <;> cases b <;> simp [sigmaX, Matrix.mul_apply, Fintype.sum_bool, Matrix.one_apply]
  · ext a b; cases a <;> cases b <;> simp [sigmaX, Matrix.conjTranspose_apply]
  · simp [sigmaX, Matrix.trace, Fintype.sum_bool]
  · ext a b; cases a <;> cases b <;> simp [sigmaY, Matrix.mul_apply, Fintype.sum_bool, Matrix.one_apply]
  · ext a b; cases a <;> cases b <;> simp [sigmaY, Matrix.conjTranspose_apply]
  · simp [sigmaY, Matrix.trace, Fintype.sum_bool]
  · ext a b; cases a <;> cases b <;> simp [sigmaZ, Matrix.mul_apply, Fintype.sum_bool, Matrix.one_apply]
  · ext a b; cases a <;> cases b <;> simp [sigmaZ, Matrix.conjTranspose_apply]
  · simp [sigmaZ, Matrix.trace, Fintype.sum_bool]

theorem bloch_facts (x z r : Bool) (h : (x || z) = true) :
    bloch x z r * bloch x z r = bloch x z r ∧ (bloch x z r)ᴴ = bloch x z r ∧ Matrix.trace (bloch x z r) = 1 := by
  have hc : ((if r then (-1 : ℂ) else 1) * (if r then (-1 : ℂ) else 1) = 1) ∧
      star (if r then (-1 : ℂ) else 1) = (if r then (-1 : ℂ) else 1) := by cases r <;> simp
  obtain ⟨fx, fy, fz⟩ := sigma_facts
  unfold bloch
  cases x <;> cases z
  · simp at h
  · rw [sigma_ft]; exact half_one_add_facts _ _ fz.1 fz.2.1 fz.2.2 hc.1 hc.2
  · rw [sigma_tf]; exact half_one_add_facts _ _ fx.1 fx.2.1 fx.2.2 hc.1 hc.2
  · rw [sigma_tt]; exact half_one_add_facts _ _ fy.1 fy.2.1 fy.2.2 hc.1 hc.2

theorem site1_facts (σ : PRow) (q : Nat) (hip : σ.ip = false) (h : σ.x q = true ∨ σ.z q = true) :
    site1 σ q * site1 σ q = site1 σ q ∧ (site1 σ q)ᴴ = site1 σ q ∧ Matrix.trace (site1 σ q) = 1 := by
  rw [site1_eq_bloch σ q hip]
  apply bloch_facts
  rcases h with h | h <;> simp [h]

theorem site1_Zq (q : Nat) (s : Bool) : site1 (Zq q s) q = ketbra s := by
  rw [site1_eq_bloch _ _ rfl]
  have e1 : (Zq q s).x q = false := rfl
  have e2 : (Zq q s).z q = true := by simp [Zq]
  have e3 : (Zq q s).r = s := rfl
  rw [e1, e2, e3]
  unfold bloch
  rw [sigma_ft]
  ext a b
  cases s <;> cases a <;> cases b <;>
    simp [ketbra, sigmaZ, Matrix.smul_apply, Matrix.add_apply] <;> norm_num

/-! ### a single-site stabilizer as an operator -/

theorem pauliMat_singleSite (m q : Nat) (hq : q ≤ m) (σ : PRow) (hσ : SingleSite (m + 1) q σ) :
    pauliMat (m + 1) σ = insSite q 1 (iPow σ.ph • sigma (σ.x q) (σ.z q)) := by
  rw [pauliMat_site m q hq σ]
  have h1 : pauliMat m (σ.deleteCol q) = iPow σ.ph • 1 := by
    rw [pauliMat_phase, TabSpec.deleteCol_ph]
    have : EqOn m (bare (σ.deleteCol q)) PRow.one := by
      refine ⟨fun j hj => ?_, rfl, rfl⟩
      show (σ.deleteCol q).x j = false ∧ (σ.deleteCol q).z j = false
      simp only [PRow.deleteCol]
      by_cases h : j < q
      · simp only [h, if_true]; exact hσ.2 j (by omega) (by omega)
      · simp only [h, if_false]; exact hσ.2 (j + 1) (by omega) (by omega)
    rw [pauliMat_congr m _ _ this, pauliMat_one]
  rw [h1, insSite_smul_left, insSite_smul_right]

theorem proj_singleSite (m q : Nat) (hq : q ≤ m) (σ : PRow) (hσ : SingleSite (m + 1) q σ) :
    proj (m + 1) σ = insSite q 1 (site1 σ q) := by
  unfold proj site1
  rw [pauliMat_singleSite m q hq σ hσ, insSite_smul_right q (1 / 2), insSite_add_right, insSite_one q hq,
    insSite_smul_right]

/-- `proj (Z_q with sign s) = 1 ⊗_q |s⟩⟨s|` -/
theorem proj_Zq_site (m q : Nat) (hq : q ≤ m) (s : Bool) : proj (m + 1) (Zq q s) = insSite q 1 (ketbra s) := by
  rw [proj_singleSite m q hq (Zq q s) ⟨Or.inr (by simp [Zq]), fun j _ hj => by simp [Zq, hj]⟩, site1_Zq]

/-! ### the product of generators with an identity inserted -/

theorem insSite_rhoTo (m q : Nat) (hq : q ≤ m) (r : Nat → PRow) (k : Nat) :
    insSite q (rhoTo m r k) 1 = rhoTo (m + 1) (fun i => (r i).insertCol q) k := by
  induction k with
  | zero => exact insSite_one q hq
  | succ j ih =>
    show insSite q (rhoTo m r j * proj m (r j)) 1 = rhoTo (m + 1) _ j * proj (m + 1) ((r j).insertCol q)
    rw [← ih, proj_insertCol m q hq, insSite_mul q hq, Matrix.mul_one]

/-! ### states of Clifford tableaux -/

/-- every element of the stabilizer group of a valid tableau fixes its state -/
theorem grp_mul_rho (t : Tab) (hv : t.Valid) (hr : t.StabReal) (g : PRow) (hg : Grp t g) :
    pauliMat t.n g * rho t.n (STab.ofTab t) = rho t.n (STab.ofTab t) :=
  span_mul_rho (STab.ofTab t) (ofTab_good t hv) g (inSpan_ofTab t hr g hg)

/-- **Product form.**  `t1` valid on `m+1` qubits, `t'` valid on `m` qubits; the group of `t1` contains a single-site
    Pauli `σ` on qubit `q` and every generator of `t'` with an identity inserted at `q`.  Then
    `ρ(t1) = ρ(t') ⊗_q (1 + σ_q)/2`. -/
theorem rho_site_factor (q : Nat) (t1 t' : Tab) (hq : q ≤ t'.n) (h1 : t1.n = t'.n + 1)
    (v1 : t1.Valid) (r1 : t1.StabReal) (v' : t'.Valid) (r' : t'.StabReal)
    (σ : PRow) (hσg : Grp t1 σ) (hσ : SingleSite (t'.n + 1) q σ)
    (hins : ∀ i, i < t'.n → Grp t1 ((t'.stab i).insertCol q)) :
    rho (t'.n + 1) (STab.ofTab t1) = insSite q (rho t'.n (STab.ofTab t')) (site1 σ q) := by
  have fix : ∀ g, Grp t1 g →
      pauliMat (t'.n + 1) g * rho (t'.n + 1) (STab.ofTab t1) = rho (t'.n + 1) (STab.ofTab t1) := by
    intro g hg
    have := grp_mul_rho t1 v1 r1 g hg
    rw [h1] at this; exact this
  have σreal : σ.ip = false := grp_real t1 v1 r1 σ hσg
  obtain ⟨s1, s2, s3⟩ := site1_facts σ q σreal hσ.1
  have g' := ofTab_good t' v'
  have idem' := rho_idem (STab.ofTab t') g'
  have herm' := rho_hermitian (STab.ofTab t') g'
  have tr' := rho_ofTab_trace t' v'
  have e' : (STab.ofTab t').n = t'.n := rfl
  rw [e'] at idem' herm'
  have g1 := ofTab_good t1 v1
  have idem1 := rho_idem (STab.ofTab t1) g1
  have herm1 := rho_hermitian (STab.ofTab t1) g1
  have tr1 := rho_ofTab_trace t1 v1
  have e1 : (STab.ofTab t1).n = t1.n := rfl
  rw [e1, h1] at idem1 herm1
  rw [h1] at tr1
  symm
  apply projector_eq_of_le
  · rw [insSite_mul q hq, idem', s1]
  · rw [insSite_conjTranspose, herm', s2]
  · exact idem1
  · exact herm1
  · -- R ρ1 = ρ1
    have split : insSite q (rho t'.n (STab.ofTab t')) (site1 σ q)
        = rhoTo (t'.n + 1) (fun i => ((STab.ofTab t').row i).insertCol q) t'.n * proj (t'.n + 1) σ := by
      rw [proj_singleSite t'.n q hq σ hσ, ← insSite_rhoTo t'.n q hq, insSite_mul q hq, Matrix.mul_one, Matrix.one_mul]
      rfl
    rw [split, Matrix.mul_assoc, proj_mul_of_fixed (t'.n + 1) σ _ (fix σ hσg)]
    apply rhoTo_mul_of_fixed
    intro i hi
    have e : (STab.ofTab t').row i = t'.stab i := ofTab_row_real t' r' i hi
    rw [e]
    exact fix _ (hins i hi)
  · rw [trace_insSite q hq, tr', s3, tr1, _root_.mul_one]

end Hilbert
end Graphiq
