/-
  Proofs/Clifford1.lean — every word over {I,H,P,X,Y,Z} multiplies to a scalar multiple of one of the 24 enumerated Cliffords;
  hence `simplify` always succeeds and returns a member equal to the product up to a scalar.
-/
import Mathlib.Tactic.Ring
import Mathlib.Tactic.Linarith
import GraphiqModel.Model.Clifford1
namespace Graphiq.Cliff

@[simp] theorem GI.add_re (a b : GI) : (a + b).re = a.re + b.re := rfl
@[simp] theorem GI.add_im (a b : GI) : (a + b).im = a.im + b.im := rfl
@[simp] theorem GI.mul_re (a b : GI) : (a * b).re = a.re * b.re - a.im * b.im := rfl
@[simp] theorem GI.mul_im (a b : GI) : (a * b).im = a.re * b.im + a.im * b.re := rfl

theorem GI.ext' {a b : GI} (h1 : a.re = b.re) (h2 : a.im = b.im) : a = b := by
  cases a; cases b; simp at h1 h2; simp [h1, h2]

theorem GI.mul_comm' (a b : GI) : a * b = b * a := by apply GI.ext' <;> simp <;> ring
theorem GI.mul_assoc' (a b c : GI) : a * b * c = a * (b * c) := by apply GI.ext' <;> simp <;> ring
theorem GI.mul_add' (a b c : GI) : a * (b + c) = a * b + a * c := by apply GI.ext' <;> simp <;> ring

theorem M2.ext' {m n : M2} (h1 : m.a = n.a) (h2 : m.b = n.b) (h3 : m.c = n.c) (h4 : m.d = n.d) : m = n := by
  cases m; cases n; simp at h1 h2 h3 h4; simp [h1, h2, h3, h4]

/-- scalars pull out of a product on the left -/
theorem smul_mul (k : GI) (m n : M2) : (M2.smul k m).mul n = M2.smul k (m.mul n) := by
  apply M2.ext' <;> (apply GI.ext' <;> simp [M2.smul, M2.mul] <;> ring)

theorem smul_smul (k l : GI) (m : M2) : M2.smul k (M2.smul l m) = M2.smul (k * l) m := by
  apply M2.ext' <;> (apply GI.ext' <;> simp [M2.smul] <;> ring)

/-- a matrix equals each of its scalar multiples up to a scalar -/
theorem peq_smul (k : GI) (m : M2) : m.peq (M2.smul k m) = true := by
  unfold M2.peq
  simp only [List.all_eq_true, List.mem_range, beq_iff_eq]
  intro i hi j hj
  have hi' : i = 0 ∨ i = 1 ∨ i = 2 ∨ i = 3 := by omega
  have hj' : j = 0 ∨ j = 1 ∨ j = 2 ∨ j = 3 := by omega
  rcases hi' with h | h | h | h <;> rcases hj' with h' | h' | h' | h' <;> subst h <;> subst h' <;>
    (apply GI.ext' <;> simp [M2.entries, M2.smul] <;> ring)

/-- norm of a Gaussian integer -/
def GI.norm (a : GI) : Int := a.re * a.re + a.im * a.im

theorem GI.norm_mul (a b : GI) : (a * b).norm = a.norm * b.norm := by
  simp [GI.norm]; ring

/-- the matrices of the 24 enumerated Cliffords -/
def mats24 : List M2 := all24.map prodW

/-- the finitely many scalars that occur when a member is multiplied by a generator -/
def scalars : List GI := [⟨1,0⟩, ⟨-1,0⟩, ⟨0,1⟩, ⟨0,-1⟩, ⟨1,1⟩, ⟨1,-1⟩, ⟨-1,1⟩, ⟨-1,-1⟩, ⟨2,0⟩, ⟨-2,0⟩, ⟨0,2⟩, ⟨0,-2⟩,
  ⟨2,2⟩, ⟨2,-2⟩, ⟨-2,2⟩, ⟨-2,-2⟩]

/-- witness search for one entry of the step table: the first member equal to `M_k · G` up to a scalar, then the scalars -/
def stepOf (k : Nat) (g : Gen) : Option (Nat × GI × GI) :=
  let m := (mats24[k]!).mul (gmat g)
  match (List.range 24).find? (fun k' => (mats24[k']!).peq m) with
  | none => none
  | some k' =>
    ((scalars.flatMap fun s => scalars.map fun t => (s, t)).find?
      (fun st => M2.smul st.2 m == M2.smul st.1 (mats24[k']!))).map fun st => (k', st.1, st.2)

/-- **step table** (finite, kernel-checked): a member times a generator equals a member up to non-zero scalars on both sides -/
theorem step_table_some : (List.range 24).all (fun k => Gen.all.all fun g => (stepOf k g).isSome) = true := by
  decide +kernel

theorem step_table (k : Nat) (hk : k < 24) (g : Gen) :
    ∃ k', k' < 24 ∧ ∃ s, s ∈ scalars ∧ ∃ t, t ∈ scalars ∧
      M2.smul t ((mats24[k]!).mul (gmat g)) = M2.smul s (mats24[k']!) := by
  have tbl := step_table_some
  simp only [List.all_eq_true, List.mem_range] at tbl
  have hg : g ∈ Gen.all := by cases g <;> simp [Gen.all]
  have h := tbl k hk g hg
  unfold stepOf at h
  simp only at h
  cases h1 : (List.range 24).find? (fun k' => (mats24[k']!).peq ((mats24[k]!).mul (gmat g))) with
  | none => rw [h1] at h; simp at h
  | some k' =>
    rw [h1] at h
    simp only at h
    have hk' : k' < 24 := List.mem_range.mp (List.mem_of_find?_eq_some h1)
    cases h2 : (scalars.flatMap fun s => scalars.map fun t => (s, t)).find?
        (fun st => M2.smul st.2 ((mats24[k]!).mul (gmat g)) == M2.smul st.1 (mats24[k']!)) with
    | none => rw [h2] at h; simp at h
    | some st =>
      have hm := List.mem_of_find?_eq_some h2
      have hp := List.find?_some h2
      simp only [List.mem_flatMap, List.mem_map] at hm
      obtain ⟨s, hs, t, ht, e⟩ := hm
      refine ⟨k', hk', s, hs, t, ht, ?_⟩
      rw [← e] at hp
      simpa using hp

theorem scalars_nonzero : scalars.all (fun s => decide (0 < s.norm)) = true := by decide

/-- the invariant carried along a word: the partial product equals a member up to non-zero scalars -/
def IsMember (m : M2) : Prop :=
  ∃ k, k < 24 ∧ ∃ s t : GI, 0 < s.norm ∧ 0 < t.norm ∧ M2.smul t m = M2.smul s (mats24[k]!)

theorem isMember_I2 : IsMember I2 := by
  refine ⟨0, by decide, ⟨1, 0⟩, ⟨1, 0⟩, by decide, by decide, ?_⟩
  decide

theorem smul_comm (k l : GI) (m : M2) : M2.smul k (M2.smul l m) = M2.smul l (M2.smul k m) := by
  rw [smul_smul, smul_smul, GI.mul_comm']

theorem isMember_step (m : M2) (g : Gen) (h : IsMember m) : IsMember (m.mul (gmat g)) := by
  obtain ⟨k, hk, s, t, hs, ht, e⟩ := h
  obtain ⟨k', hk', s', hs', t', ht', e'⟩ := step_table k hk g
  have nz := scalars_nonzero
  simp only [List.all_eq_true, decide_eq_true_eq] at nz
  refine ⟨k', hk', s * s', t' * t, ?_, ?_, ?_⟩
  · rw [GI.norm_mul]; exact Int.mul_pos hs (nz s' hs')
  · rw [GI.norm_mul]; exact Int.mul_pos (nz t' ht') ht
  · -- (t' t)•(m G) = t'•((t•m) G) = t'•((s•M_k) G) = t'•s•(M_k G) = s•(t'•(M_k G)) = s•s'•M_k'
    rw [← smul_smul, ← smul_mul t m, e, smul_mul, smul_comm, e', smul_smul]

theorem isMember_foldl (w : List Gen) (acc : M2) (h : IsMember acc) :
    IsMember (w.foldl (fun acc g => acc.mul (gmat g)) acc) := by
  induction w generalizing acc with
  | nil => exact h
  | cons g rest ih => exact ih _ (isMember_step acc g h)

/-- every word multiplies, up to non-zero scalars, to one of the 24 members -/
theorem prodW_isMember (w : List Gen) : IsMember (prodW w) := isMember_foldl w I2 isMember_I2

/-! ### cancellation in the Gaussian integers, and `peq` from a two-sided scalar relation -/

theorem GI.eq_zero_of_norm (x : GI) (h : x.norm = 0) : x = ⟨0, 0⟩ := by
  unfold GI.norm at h
  have h1 : 0 ≤ x.re * x.re := mul_self_nonneg _
  have h2 : 0 ≤ x.im * x.im := mul_self_nonneg _
  have e1 : x.re * x.re = 0 := by omega
  have e2 : x.im * x.im = 0 := by omega
  apply GI.ext'
  · exact mul_self_eq_zero.mp e1
  · exact mul_self_eq_zero.mp e2

theorem GI.sub_eq_of_mul (t x y : GI) (ht : 0 < t.norm) (h : t * x = t * y) : x = y := by
  -- t * (x - y) = 0 with components; use the norm
  let d : GI := ⟨x.re - y.re, x.im - y.im⟩
  have hd : (t * d).norm = 0 := by
    have h1 := congrArg GI.re h
    have h2 := congrArg GI.im h
    simp at h1 h2
    have r1 : (t * d).re = 0 := by simp [d]; linarith
    have r2 : (t * d).im = 0 := by simp [d]; linarith
    simp [GI.norm, r1, r2]
  rw [GI.norm_mul] at hd
  have : d.norm = 0 := by
    rcases Int.mul_eq_zero.mp hd with h0 | h0
    · omega
    · exact h0
  have dz := GI.eq_zero_of_norm d this
  have e1 : x.re - y.re = 0 := congrArg GI.re dz
  have e2 : x.im - y.im = 0 := congrArg GI.im dz
  apply GI.ext' <;> omega

/-- if `t • m = s • M` with `t ≠ 0` then `M` and `m` are equal up to a scalar in the sense of `peq` -/
theorem peq_of_scalars (s t : GI) (ht : 0 < t.norm) (M m : M2) (h : M2.smul t m = M2.smul s M) : M.peq m = true := by
  have ha : t * m.a = s * M.a := congrArg M2.a h
  have hb : t * m.b = s * M.b := congrArg M2.b h
  have hc : t * m.c = s * M.c := congrArg M2.c h
  have hd : t * m.d = s * M.d := congrArg M2.d h
  unfold M2.peq
  simp only [List.all_eq_true, List.mem_range, beq_iff_eq]
  intro i hi j hj
  have hi' : i = 0 ∨ i = 1 ∨ i = 2 ∨ i = 3 := by omega
  have hj' : j = 0 ∨ j = 1 ∨ j = 2 ∨ j = 3 := by omega
  -- e_i * f_j = e_j * f_i follows from t * (e_i f_j) = e_i (s e_j) = e_j (s e_i) = t * (e_j f_i)
  have key : ∀ (ei ej fi fj : GI), t * fi = s * ei → t * fj = s * ej → ei * fj = ej * fi := by
    intro ei ej fi fj h1 h2
    apply GI.sub_eq_of_mul t _ _ ht
    calc t * (ei * fj) = ei * (t * fj) := by rw [← GI.mul_assoc', GI.mul_comm' t ei, GI.mul_assoc']
      _ = ei * (s * ej) := by rw [h2]
      _ = ej * (s * ei) := by
          rw [← GI.mul_assoc', ← GI.mul_assoc', GI.mul_comm' ei s, GI.mul_comm' ej s, GI.mul_assoc', GI.mul_assoc', GI.mul_comm' ei ej]
      _ = ej * (t * fi) := by rw [h1]
      _ = t * (ej * fi) := by rw [← GI.mul_assoc', GI.mul_comm' ej t, GI.mul_assoc']
  rcases hi' with h1 | h1 | h1 | h1 <;> rcases hj' with h2 | h2 | h2 | h2 <;> subst h1 <;> subst h2 <;>
    simp only [M2.entries, List.getElem!_cons_zero, List.getElem!_cons_succ] <;>
    first
      | exact key _ _ _ _ ha ha | exact key _ _ _ _ ha hb | exact key _ _ _ _ ha hc | exact key _ _ _ _ ha hd
      | exact key _ _ _ _ hb ha | exact key _ _ _ _ hb hb | exact key _ _ _ _ hb hc | exact key _ _ _ _ hb hd
      | exact key _ _ _ _ hc ha | exact key _ _ _ _ hc hb | exact key _ _ _ _ hc hc | exact key _ _ _ _ hc hd
      | exact key _ _ _ _ hd ha | exact key _ _ _ _ hd hb | exact key _ _ _ _ hd hc | exact key _ _ _ _ hd hd

/-- **`simplify` is total and correct on every word**: it returns one of the 24 enumerated gate lists, whose product equals the
    product of the word up to a scalar (global phase and the √2 normalisation of H) -/
theorem simplify_correct (w : List Gen) :
    ∃ m, simplify w = some m ∧ m ∈ all24 ∧ (prodW m).peq (prodW w) = true := by
  obtain ⟨k, hk, s, t, _, ht, e⟩ := prodW_isMember w
  have hlen : all24.length = 24 := by decide
  have hk' : k < all24.length := by omega
  -- the k-th member matches, so `find?` succeeds
  have hmatch : (prodW all24[k]).peq (prodW w) = true := by
    have : mats24[k]! = prodW all24[k] := by
      unfold mats24
      simp [hk']
    rw [← this]
    exact peq_of_scalars s t ht _ _ e
  unfold simplify find
  cases hf : all24.find? (fun w' => (prodW w').peq (prodW w)) with
  | none =>
    have := List.find?_eq_none.mp hf all24[k] (List.getElem_mem hk')
    simp [hmatch] at this
  | some m =>
    exact ⟨m, rfl, List.mem_of_find?_eq_some hf, by simpa using List.find?_some hf⟩

end Graphiq.Cliff
