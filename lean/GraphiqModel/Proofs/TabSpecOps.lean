/-
  Proofs/TabSpecOps.lean — what each size-preserving / size-increasing operation of the tableau API does to the stabilizer
  *group* (`Grp`), for every number of qubits: gates (image under the row automorphism), swap, tensor product,
  qubit insertion, Z measurement (both branches, with the value of the deterministic outcome), reset.
-/
import GraphiqModel.Proofs.TabSpecHom
namespace Graphiq.TabSpec
open Graphiq PRow Tab STab

/-! ### same generators, same group -/

theorem grp_mono_gens (t1 t2 : Tab) (hn : t1.n = t2.n) (h : ∀ i, i < t1.n → Grp t2 (t1.stab i)) :
    ∀ P, Grp t1 P → Grp t2 P := by
  intro P hP
  unfold Grp at hP
  induction hP with
  | one => exact InSpan.one
  | gen i hi => exact h i hi
  | mul a b _ _ iha ihb =>
    show InSpan t2.n t2.n t2.stab (PRow.mul t1.n a b)
    rw [hn]
    exact InSpan.mul a b iha ihb
  | eqv a b _ hab iha => exact InSpan.eqv a b iha (hn ▸ hab)

theorem grp_congr_gens (t1 t2 : Tab) (hn : t1.n = t2.n) (h : ∀ i, i < t1.n → EqOn t1.n (t1.stab i) (t2.stab i)) :
    ∀ P, Grp t1 P ↔ Grp t2 P := by
  intro P
  constructor
  · apply grp_mono_gens t1 t2 hn
    intro i hi
    exact InSpan.eqv _ _ (InSpan.gen i (hn ▸ hi)) (hn ▸ (h i hi).symm)
  · apply grp_mono_gens t2 t1 hn.symm
    intro i hi
    exact InSpan.eqv _ _ (InSpan.gen i (hn ▸ hi)) (h i (hn ▸ hi))

/-- tabulation (`norm`) does not change the group -/
theorem norm_grp (t : Tab) : ∀ P, Grp t.norm P ↔ Grp t P := by
  apply grp_congr_gens t.norm t rfl
  intro i hi
  have hi' : i < t.n := hi
  exact tnorm_row t (i + t.n) (by omega)

theorem norm_stabReal (t : Tab) (hr : t.StabReal) : t.norm.StabReal := by
  intro i h1 h2
  have h1' : t.n ≤ i := h1
  have h2' : i < 2 * t.n := h2
  rw [(tnorm_row t i h2').2.2]; exact hr i h1' h2'

/-! ### gates -/

/-- a Pauli-group automorphism that fixes the identity row and leaves the i-phase bit alone -/
structure IsAut1 (n : Nat) (f : PRow → PRow) : Prop where
  aut : IsAut n f
  one : EqOn n (f PRow.one) PRow.one
  ip : ∀ p, (f p).ip = p.ip

theorem IsAut1.comp {n : Nat} {f g : PRow → PRow} (hf : IsAut1 n f) (hg : IsAut1 n g) : IsAut1 n (fun a => f (g a)) :=
  ⟨hf.aut.comp hg.aut, (hf.aut.congr _ _ hg.one).trans hf.one, fun p => (hf.ip _).trans (hg.ip p)⟩

theorem isAut1_h (n q : Nat) (hq : q < n) : IsAut1 n (PRow.h q) :=
  ⟨isAut_h n q hq, by refine ⟨fun j _ => ?_, ?_, ?_⟩ <;> simp [PRow.h, PRow.one], fun _ => rfl⟩
theorem isAut1_s (n q : Nat) (hq : q < n) : IsAut1 n (PRow.s q) :=
  ⟨isAut_s n q hq, by refine ⟨fun j _ => ?_, ?_, ?_⟩ <;> simp [PRow.s, PRow.one], fun _ => rfl⟩
theorem isAut1_cnot (n c t : Nat) (hc : c < n) (ht : t < n) (hct : c ≠ t) : IsAut1 n (PRow.cnot c t) :=
  ⟨isAut_cnot n c t hc ht hct, by refine ⟨fun j _ => ?_, ?_, ?_⟩ <;> simp [PRow.cnot, PRow.one], fun _ => rfl⟩
theorem isAut1_sdg (n q : Nat) (hq : q < n) : IsAut1 n (PRow.sdg q) :=
  ((isAut1_s n q hq).comp ((isAut1_s n q hq).comp (isAut1_s n q hq)))
theorem isAut1_zg (n q : Nat) (hq : q < n) : IsAut1 n (PRow.zg q) :=
  ((isAut1_s n q hq).comp (isAut1_s n q hq))
theorem isAut1_xg (n q : Nat) (hq : q < n) : IsAut1 n (PRow.xg q) :=
  ((isAut1_h n q hq).comp ((isAut1_zg n q hq).comp (isAut1_h n q hq)))
theorem isAut1_yg (n q : Nat) (hq : q < n) : IsAut1 n (PRow.yg q) :=
  ((isAut1_s n q hq).comp ((isAut1_xg n q hq).comp ((isAut1_zg n q hq).comp (isAut1_s n q hq))))
theorem isAut1_cz (n c t : Nat) (hc : c < n) (ht : t < n) (hct : c ≠ t) : IsAut1 n (PRow.cz c t) :=
  ((isAut1_h n t ht).comp ((isAut1_cnot n c t hc ht hct).comp (isAut1_h n t ht)))

theorem isAut_swap (n a b : Nat) (ha : a < n) (hb : b < n) : IsAut n (PRow.swap a b) :=
  ⟨sp_swap n a b ha hb, swap_mul n a b ha hb, swap_congr n a b ha hb⟩
theorem isAut1_swap (n a b : Nat) (ha : a < n) (hb : b < n) : IsAut1 n (PRow.swap a b) :=
  ⟨isAut_swap n a b ha hb, by rw [swap_one]; exact EqOn.refl _ _, fun _ => rfl⟩

/-- image of a set of rows under a row map (up to row equality on `n` sites) -/
def imageGrp (n : Nat) (f : PRow → PRow) (H : PRow → Prop) (P : PRow) : Prop := ∃ Q, H Q ∧ EqOn n P (f Q)

theorem map_grp_of (t : Tab) (f : PRow → PRow) (hf : IsAut1 t.n f) (Q : PRow) (hQ : Grp t Q) :
    Grp (t.map f) (f Q) := by
  unfold Grp at hQ
  induction hQ with
  | one => exact InSpan.eqv _ _ InSpan.one hf.one.symm
  | gen i hi => exact InSpan.gen (gens := (t.map f).stab) i hi
  | mul a b _ _ iha ihb => exact InSpan.eqv _ _ (InSpan.mul _ _ iha ihb) (hf.aut.mul a b).symm
  | eqv a b _ hab iha => exact InSpan.eqv _ _ iha (hf.aut.congr a b hab)

/-- **a gate maps the stabilizer group to its image under the row automorphism** -/
theorem map_grp (t : Tab) (f : PRow → PRow) (hf : IsAut1 t.n f) :
    ∀ P, Grp (t.map f) P ↔ imageGrp t.n f (Grp t) P := by
  intro P
  constructor
  · intro hP
    unfold Grp at hP
    induction hP with
    | one => exact ⟨PRow.one, InSpan.one, hf.one.symm⟩
    | gen i hi => exact ⟨t.stab i, InSpan.gen i hi, EqOn.refl _ _⟩
    | mul a b _ _ iha ihb =>
      obtain ⟨Qa, ha, ea⟩ := iha
      obtain ⟨Qb, hb, eb⟩ := ihb
      exact ⟨PRow.mul t.n Qa Qb, InSpan.mul _ _ ha hb, (mul_congr t.n _ _ _ _ ea eb).trans (hf.aut.mul Qa Qb).symm⟩
    | eqv a b _ hab iha =>
      obtain ⟨Q, hQ, e⟩ := iha
      exact ⟨Q, hQ, EqOn.trans (EqOn.symm hab) e⟩
  · rintro ⟨Q, hQ, e⟩
    exact InSpan.eqv _ _ (map_grp_of t f hf Q hQ) e.symm

theorem map_stabReal (t : Tab) (f : PRow → PRow) (hip : ∀ p, (f p).ip = p.ip) (hr : t.StabReal) : (t.map f).StabReal := by
  intro i h1 h2
  show (f (t.row i)).ip = false
  rw [hip]; exact hr i h1 h2

/-! ### swap -/

/-- **`swap_gate`**: the new group is the old one with sites `a`, `b` exchanged, signs unchanged -/
theorem swap_grp (t : Tab) (a b : Nat) (ha : a < t.n) (hb : b < t.n) :
    ∀ P, Grp (t.swapGate a b) P ↔ Grp t (PRow.swap a b P) := by
  intro P
  rw [show t.swapGate a b = t.map (PRow.swap a b) from rfl, map_grp t _ (isAut1_swap t.n a b ha hb)]
  constructor
  · rintro ⟨Q, hQ, e⟩
    have := swap_congr t.n a b ha hb _ _ e
    rw [swap_swap] at this
    exact InSpan.eqv _ _ hQ this.symm
  · intro h
    exact ⟨_, h, by rw [swap_swap]; exact EqOn.refl _ _⟩

/-! ### tensor product -/

theorem tensor_stab_left (a b : Tab) (i : Nat) (hi : i < a.n) :
    (tensor2 a b).stab i = (a.stab i).truncCols a.n := by
  show (tensor2 a b).row (i + (a.n + b.n)) = (a.row (i + a.n)).truncCols a.n
  unfold tensor2
  have h1 : ¬ (i + (a.n + b.n) < a.n) := by omega
  have h2 : ¬ (i + (a.n + b.n) < a.n + b.n) := by omega
  have h3 : i + (a.n + b.n) < a.n + b.n + a.n := by omega
  simp only [h1, h2, h3, if_true, if_false]
  congr 2; omega

theorem tensor_stab_right (a b : Tab) (i : Nat) (h1 : a.n ≤ i) (h2 : i < a.n + b.n) :
    (tensor2 a b).stab i = (b.stab (i - a.n)).shiftCols a.n := by
  show (tensor2 a b).row (i + (a.n + b.n)) = (b.row (i - a.n + b.n)).shiftCols a.n
  unfold tensor2
  have e1 : ¬ (i + (a.n + b.n) < a.n) := by omega
  have e2 : ¬ (i + (a.n + b.n) < a.n + b.n) := by omega
  have e3 : ¬ (i + (a.n + b.n) < a.n + b.n + a.n) := by omega
  simp only [e1, e2, e3, if_false]
  congr 2; omega

theorem tensor_grp_left (a b : Tab) (P : PRow) (hP : Grp a P) : Grp (tensor2 a b) (P.truncCols a.n) := by
  unfold Grp at hP
  induction hP with
  | one => exact InSpan.eqv _ _ InSpan.one (truncCols_one a.n (a.n + b.n)).symm
  | gen i hi =>
    rw [← tensor_stab_left a b i hi]
    exact InSpan.gen i (by show i < a.n + b.n; omega)
  | mul x y _ _ ihx ihy => exact InSpan.eqv _ _ (InSpan.mul _ _ ihx ihy) (truncCols_mul a.n b.n x y).symm
  | eqv x y _ hxy ihx => exact InSpan.eqv _ _ ihx (truncCols_congr a.n b.n x y hxy)

theorem tensor_grp_right (a b : Tab) (Q : PRow) (hQ : Grp b Q) : Grp (tensor2 a b) (Q.shiftCols a.n) := by
  unfold Grp at hQ
  induction hQ with
  | one => exact InSpan.eqv _ _ InSpan.one (shiftCols_one a.n (a.n + b.n)).symm
  | gen i hi =>
    have := tensor_stab_right a b (i + a.n) (by omega) (by omega)
    rw [show i + a.n - a.n = i by omega] at this
    rw [← this]
    exact InSpan.gen (i + a.n) (by show i + a.n < a.n + b.n; omega)
  | mul x y _ _ ihx ihy => exact InSpan.eqv _ _ (InSpan.mul _ _ ihx ihy) (shiftCols_mul a.n b.n x y).symm
  | eqv x y _ hxy ihx => exact InSpan.eqv _ _ ihx (shiftCols_congr a.n b.n x y hxy)

/-- **`tensor`**: the group of `a ⊗ b` is `{ P ⊗ Q : P ∈ group a, Q ∈ group b }` -/
theorem tensor_grp (a b : Tab) :
    ∀ R, Grp (tensor2 a b) R ↔ ∃ P Q, Grp a P ∧ Grp b Q ∧ EqOn (a.n + b.n) R (tensorRow a.n b.n P Q) := by
  intro R
  constructor
  · intro hR
    unfold Grp at hR
    induction hR with
    | one =>
      exact ⟨PRow.one, PRow.one, InSpan.one, InSpan.one,
        ((tensorRow_one_right a.n b.n PRow.one).trans (truncCols_one a.n (a.n + b.n))).symm⟩
    | gen i hi =>
      have hi' : i < a.n + b.n := hi
      by_cases h : i < a.n
      · refine ⟨a.stab i, PRow.one, InSpan.gen i h, InSpan.one, ?_⟩
        rw [tensor_stab_left a b i h]
        exact (tensorRow_one_right a.n b.n _).symm
      · refine ⟨PRow.one, b.stab (i - a.n), InSpan.one, InSpan.gen (i - a.n) (by omega), ?_⟩
        rw [tensor_stab_right a b i (by omega) hi']
        exact (tensorRow_one_left a.n b.n _).symm
    | mul x y _ _ ihx ihy =>
      obtain ⟨P1, Q1, hP1, hQ1, e1⟩ := ihx
      obtain ⟨P2, Q2, hP2, hQ2, e2⟩ := ihy
      exact ⟨PRow.mul a.n P1 P2, PRow.mul b.n Q1 Q2, InSpan.mul _ _ hP1 hP2, InSpan.mul _ _ hQ1 hQ2,
        (mul_congr (a.n + b.n) _ _ _ _ e1 e2).trans (tensorRow_mul a.n b.n P1 Q1 P2 Q2)⟩
    | eqv x y _ hxy ihx =>
      obtain ⟨P, Q, hP, hQ, e⟩ := ihx
      exact ⟨P, Q, hP, hQ, EqOn.trans (EqOn.symm hxy) e⟩
  · rintro ⟨P, Q, hP, hQ, e⟩
    exact InSpan.eqv _ _ (InSpan.mul _ _ (tensor_grp_left a b P hP) (tensor_grp_right a b Q hQ)) e.symm

theorem tensor_stabReal (a b : Tab) (ha : a.StabReal) (hb : b.StabReal) : (tensor2 a b).StabReal := by
  intro i h1 h2
  have h1' : a.n + b.n ≤ i := h1
  have h2' : i < 2 * (a.n + b.n) := h2
  rcases tensor2_row a b i h2' with ⟨k, hk, e, c⟩ | ⟨k, hk, e, c⟩
  · rw [e]; show (a.row k).ip = false
    rcases c with c | c
    · omega
    · exact ha k (by omega) hk
  · rw [e]; show (b.row k).ip = false
    rcases c with c | c
    · omega
    · exact hb k (by omega) hk

/-- a real row is determined by its Pauli string and its sign -/
theorem ph_real (a : PRow) (h : a.ip = false) : a.ph = 2 * Bool.toInt' a.r := by
  unfold PRow.ph; rw [h]; simp [Bool.toInt']

/-- for Hermitian `P`, `Q`: `P ⊗ Q` is in the group of `a ⊗ b` iff `P`, `Q` are in the groups of `a`, `b` — or `-P`, `-Q` are
    (`(-P) ⊗ (-Q) = P ⊗ Q`) -/
theorem tensor_row_iff (a b : Tab) (ha : a.Valid) (hb : b.Valid) (ra : a.StabReal) (rb : b.StabReal)
    (P Q : PRow) (hP : P.ip = false) (hQ : Q.ip = false) :
    Grp (tensor2 a b) (tensorRow a.n b.n P Q) ↔ (Grp a P ∧ Grp b Q) ∨ (Grp a (negate P) ∧ Grp b (negate Q)) := by
  rw [tensor_grp]
  constructor
  · rintro ⟨P', Q', hP', hQ', e⟩
    have rP' := grp_real a ha ra P' hP'
    have rQ' := grp_real b hb rb Q' hQ'
    have sbP : SameBits a.n P P' := by
      intro j hj
      have := e.1 j (by omega)
      simp only [tensorRow_x, tensorRow_z, hj, if_true] at this
      exact this
    have sbQ : SameBits b.n Q Q' := by
      intro j hj
      have := e.1 (a.n + j) (by omega)
      have hlt : ¬ (a.n + j < a.n) := by omega
      simp only [tensorRow_x, tensorRow_z, hlt, if_false, Nat.add_sub_cancel_left] at this
      exact this
    have hph := e.ph
    rw [tensorRow_ph, tensorRow_ph, ph_real P hP, ph_real Q hQ, ph_real P' rP', ph_real Q' rQ'] at hph
    by_cases hr : P.r = P'.r
    · left
      have hq : Q.r = Q'.r := by
        rw [hr] at hph
        revert hph; cases P'.r <;> cases Q.r <;> cases Q'.r <;> simp [Bool.toInt']
      exact ⟨InSpan.eqv _ _ hP' (EqOn.symm ⟨sbP, hr, hP.trans rP'.symm⟩),
        InSpan.eqv _ _ hQ' (EqOn.symm ⟨sbQ, hq, hQ.trans rQ'.symm⟩)⟩
    · right
      have hr' : (!P.r) = P'.r := by revert hr; cases P.r <;> cases P'.r <;> simp
      have hq : (!Q.r) = Q'.r := by
        revert hph hr; cases P.r <;> cases P'.r <;> cases Q.r <;> cases Q'.r <;> simp [Bool.toInt']
      exact ⟨InSpan.eqv _ _ hP' (EqOn.symm ⟨sbP, hr', hP.trans rP'.symm⟩),
        InSpan.eqv _ _ hQ' (EqOn.symm ⟨sbQ, hq, hQ.trans rQ'.symm⟩)⟩
  · rintro (⟨h1, h2⟩ | ⟨h1, h2⟩)
    · exact ⟨P, Q, h1, h2, EqOn.refl _ _⟩
    · refine ⟨negate P, negate Q, h1, h2, ?_⟩
      apply eqOn_of
      · intro j _
        exact ⟨by simp [tensorRow_x], by simp [tensorRow_z]⟩
      · rw [tensorRow_ph, tensorRow_ph, negate_ph, negate_ph]; omega

/-! ### qubit insertion -/

theorem isStabGrp_insert (n p : Nat) (hp : p ≤ n) (H : PRow → Prop) (hH : IsStabGrp n H) :
    IsStabGrp (n + 1) (fun P => P.x p = false ∧ H (P.deleteCol p)) := by
  refine ⟨⟨rfl, hH.eqv _ _ hH.one (deleteCol_one n p).symm⟩, ?_, ?_, ?_, ?_, ?_⟩
  · rintro a b ⟨ax, ha⟩ ⟨bx, hb⟩
    exact ⟨by simp [ax, bx], hH.eqv _ _ (hH.mul _ _ ha hb) (deleteCol_mul n p hp a b ax bx).symm⟩
  · rintro a b ⟨ax, ha⟩ hab
    exact ⟨by rw [← (hab.1 p (by omega)).1]; exact ax, hH.eqv _ _ ha (deleteCol_congr n p a b hab)⟩
  · rintro a ⟨_, ha⟩
    exact hH.real (a.deleteCol p) ha
  · rintro a b ⟨ax, ha⟩ ⟨bx, hb⟩
    rw [← sp_deleteCol_xfree n p hp a b ax bx]; exact hH.comm _ _ ha hb
  · rintro ⟨_, h⟩
    exact hH.noNeg (hH.eqv _ _ h (negate_congr n _ _ (deleteCol_one n p)))

theorem insertQubit_stab (t : Tab) (p i : Nat) (hp : p ≤ t.n) (hi : i < t.n + 1) :
    (i = p ∧ (t.insertQubit p).stab i = Zq p) ∨
    (i ≠ p ∧ ∃ k, k < t.n ∧ (t.insertQubit p).stab i = (t.stab k).insertCol p) := by
  by_cases h : i = p
  · left
    subst h
    refine ⟨rfl, ?_⟩
    show (t.insertQubit i).row (i + (t.n + 1)) = _
    have : i + (t.n + 1) = t.n + 1 + i := by omega
    rw [this]; exact insertQubit_row_np t i
  · right
    refine ⟨h, ?_⟩
    show ∃ k, _ ∧ (t.insertQubit p).row (i + (t.n + 1)) = _
    rw [insertQubit_row_old t p (i + (t.n + 1)) (by omega) (by omega)]
    unfold insSrc
    have h0 : ¬ (i + (t.n + 1) < t.n + 1) := by omega
    have h1 : i + (t.n + 1) - (t.n + 1) = i := by omega
    simp only [h0, if_false, h1]
    by_cases hlt : i < p
    · refine ⟨i, by omega, ?_⟩
      simp only [hlt, if_true]
      unfold stab; congr 2; omega
    · refine ⟨i - 1, by omega, ?_⟩
      simp only [hlt, if_false]
      unfold stab; congr 2; omega

theorem deleteCol_Zq (n p : Nat) : EqOn n ((Zq p).deleteCol p) PRow.one := by
  refine ⟨fun j _ => ?_, rfl, rfl⟩
  simp only [PRow.deleteCol, Zq, PRow.one]
  by_cases h : j < p
  · have : j ≠ p := by omega
    simp [h, this]
  · have : j + 1 ≠ p := by omega
    simp [h, this]

/-- **`insert_qubit`**: the new group is `{I, Z}_p ⊗ (old group)` with sign `+`, i.e. the state is `|0⟩_p ⊗ (old state)`:
    `P` is in the new group iff it acts as `I` or `Z` on site `p` and deleting site `p` gives an element of the old group -/
theorem insert_grp (t : Tab) (p : Nat) (hp : p ≤ t.n) (hv : t.Valid) (hr : t.StabReal) :
    ∀ P, Grp (t.insertQubit p) P ↔ (P.x p = false ∧ Grp t (P.deleteCol p)) := by
  apply grp_unique (t.insertQubit p) (insertQubit_valid t p hp hv) _
    (isStabGrp_insert t.n p hp (Grp t) (grp_isStabGrp t hv hr))
  intro i hi
  rcases insertQubit_stab t p i hp hi with ⟨_, e⟩ | ⟨_, k, hk, e⟩
  · rw [e]
    exact ⟨by simp [Zq], InSpan.eqv _ _ InSpan.one (deleteCol_Zq t.n p).symm⟩
  · rw [e]
    exact ⟨insertCol_x p _, InSpan.eqv _ _ (grp_gen t k hk) (deleteCol_insertCol t.n p _).symm⟩

theorem insert_stabReal (t : Tab) (p : Nat) (hp : p ≤ t.n) (hv : t.Valid) (hr : t.StabReal) : (t.insertQubit p).StabReal := by
  apply stabReal_of_gens (t.insertQubit p) _ (isStabGrp_insert t.n p hp (Grp t) (grp_isStabGrp t hv hr))
  intro i hi
  exact (insert_grp t p hp hv hr _).mp (grp_gen _ i hi)

/-! ### Z measurement -/

theorem mul_mul_cancel (n : Nat) (P Z : PRow) (hZ : Z.ip = false) : EqOn n (PRow.mul n (PRow.mul n P Z) Z) P :=
  (mul_assoc n P Z Z).trans ((mul_congr n _ _ _ _ (EqOn.refl _ _) (mul_self n Z hZ)).trans (mul_one n P))

/-- the textbook post-measurement group `⟨(-1)^o Z_q⟩ · {elements commuting with Z_q}` is a stabilizer group when
    some element anticommutes with `Z_q` -/
theorem isStabGrp_meas (n q : Nat) (hq : q < n) (o : Bool) (H : PRow → Prop) (hH : IsStabGrp n H)
    (hrand : ∃ g, H g ∧ g.x q = true) :
    IsStabGrp n (fun P => P.x q = false ∧ (H P ∨ H (PRow.mul n P (Zq q o)))) := by
  have spZ : ∀ a : PRow, sp n a (Zq q o) = a.x q := fun a => sp_Zq n q a o hq
  have spZ' : ∀ a : PRow, sp n (Zq q o) a = a.x q := fun a => by rw [sp_comm]; exact spZ a
  refine ⟨⟨rfl, Or.inl hH.one⟩, ?_, ?_, ?_, ?_, ?_⟩
  · rintro a b ⟨ax, ha⟩ ⟨bx, hb⟩
    refine ⟨by simp [ax, bx], ?_⟩
    have cb : sp n (Zq q o) b = false := by rw [spZ', bx]
    rcases ha with ha | ha <;> rcases hb with hb | hb
    · exact Or.inl (hH.mul _ _ ha hb)
    · exact Or.inr (hH.eqv _ _ (hH.mul _ _ ha hb) (mul_assoc n a b _).symm)
    · refine Or.inr (hH.eqv _ _ (hH.mul _ _ ha hb) ?_)
      exact ((mul_assoc n a _ b).trans (mul_congr n _ _ _ _ (EqOn.refl _ _) (mul_comm n _ _ cb))).trans
        (mul_assoc n a b _).symm
    · refine Or.inl (hH.eqv _ _ (hH.mul _ _ ha hb) ?_)
      have e1 : EqOn n (PRow.mul n (Zq q o) (PRow.mul n b (Zq q o))) b :=
        ((mul_assoc n _ b _).symm.trans (mul_congr n _ _ _ _ (mul_comm n _ _ cb) (EqOn.refl _ _))).trans
          (mul_mul_cancel n b _ rfl)
      exact (mul_assoc n a _ _).trans (mul_congr n _ _ _ _ (EqOn.refl _ _) e1)
  · rintro a b ⟨ax, ha⟩ hab
    refine ⟨by rw [← (hab.1 q hq).1]; exact ax, ?_⟩
    rcases ha with ha | ha
    · exact Or.inl (hH.eqv _ _ ha hab)
    · exact Or.inr (hH.eqv _ _ ha (mul_congr n _ _ _ _ hab (EqOn.refl _ _)))
  · rintro a ⟨ax, ha⟩
    rcases ha with ha | ha
    · exact hH.real a ha
    · exact real_of_mul_real n a (Zq q o) (hH.real _ ha) rfl (by rw [spZ, ax])
  · rintro a b ⟨ax, ha⟩ ⟨bx, hb⟩
    rcases ha with ha | ha <;> rcases hb with hb | hb
    · exact hH.comm a b ha hb
    · have := hH.comm _ _ ha hb
      rw [sp_mul_right, spZ, ax] at this
      simpa using this
    · have := hH.comm _ _ ha hb
      rw [sp_mul_left, spZ', bx] at this
      simpa using this
    · have := hH.comm _ _ ha hb
      rw [sp_mul_left, sp_mul_right, sp_mul_right, spZ, ax, spZ', bx, sp_self] at this
      simpa using this
  · rintro ⟨_, h⟩
    rcases h with h | h
    · exact hH.noNeg h
    · obtain ⟨g, hg, gx⟩ := hrand
      have := hH.comm _ _ h hg
      rw [sp_mul_left, spZ', gx] at this
      have e : sp n (negate PRow.one) g = false := STab.sp_one_left n g
      rw [e] at this
      simp at this

/-- **random-outcome measurement, group level**: the new group is `⟨(-1)^o Z_q⟩ · {old elements commuting with Z_q}` -/
theorem measRandom_grp (t : Tab) (q p : Nat) (o : Bool) (hv : t.Valid) (hr : t.StabReal) (hq : q < t.n)
    (hp : t.pivot q = some p) :
    ∀ P, Grp (t.measRandom q p o) P ↔ (P.x q = false ∧ (Grp t P ∨ Grp t (PRow.mul t.n P (Zq q o)))) := by
  obtain ⟨p1, p2, p3⟩ := pivot_spec t q p hp
  have hv' := measRandom_valid t q p o hv hq p1 p2 p3
  have hH := isStabGrp_meas t.n q hq o (Grp t) (grp_isStabGrp t hv hr) ⟨t.row p, grp_row t p p1 p2, p3⟩
  apply grp_unique (t.measRandom q p o) hv' _ hH
  intro i hi
  have hi' : i < t.n := hi
  by_cases hip : i + t.n = p
  · have e : EqOn t.n ((t.measRandom q p o).stab i) (Zq q o) := by
      show EqOn t.n ((t.measRandom q p o).row (i + t.n)) (Zq q o)
      rw [hip]
      refine ⟨mr_row_p t q p o, ?_, ?_⟩
      · simp [measRandom, Zq]
      · simp only [measRandom, Zq, if_true]
        exact hr p p1 p2
    refine ⟨by rw [(e.1 q hq).1]; rfl, Or.inr ?_⟩
    exact InSpan.eqv _ _ InSpan.one
      ((mul_congr t.n _ _ _ _ e (EqOn.refl _ _)).trans (mul_self t.n _ rfl)).symm
  · exact ⟨measRandom_commutes_Zq t q p o hv hq p1 p2 p3 i hi',
      Or.inl (measRandom_stab_inSpan t q p o p1 p2 i hi' hip)⟩

theorem measRandom_stabReal (t : Tab) (q p : Nat) (o : Bool) (hv : t.Valid) (hr : t.StabReal) (hq : q < t.n)
    (hp : t.pivot q = some p) : (t.measRandom q p o).StabReal := by
  obtain ⟨p1, p2, p3⟩ := pivot_spec t q p hp
  have hH := isStabGrp_meas t.n q hq o (Grp t) (grp_isStabGrp t hv hr) ⟨t.row p, grp_row t p p1 p2, p3⟩
  apply stabReal_of_gens (t.measRandom q p o) _ hH
  intro i hi
  exact (measRandom_grp t q p o hv hr hq hp _).mp (grp_gen _ i hi)

/-- commutation of a destabilizer with an ordered product of stabilizer rows -/
theorem sp_foldl_stab (t : Tab) (hv : t.Valid) (i : Nat) (hi : i < t.n) (l : List Nat) (hl : ∀ d ∈ l, d < t.n)
    (hnd : l.Nodup) (acc : PRow) :
    sp t.n (l.foldl (fun acc d => PRow.mul t.n (t.row (d + t.n)) acc) acc) (t.row i)
      = xor (sp t.n acc (t.row i)) (decide (i ∈ l)) := by
  induction l generalizing acc with
  | nil => simp
  | cons d rest ih =>
    simp only [List.foldl]
    have hd := hl d List.mem_cons_self
    rw [ih (fun e he => hl e (List.mem_cons_of_mem _ he)) (List.nodup_cons.mp hnd).2, sp_mul_left,
      hv _ _ (by omega) (by omega)]
    have hdd : decide (d + t.n + t.n = i ∨ i + t.n = d + t.n) = decide (i = d) := decide_eq_decide.mpr (by omega)
    rw [hdd]
    by_cases e : i = d
    · subst e
      have : i ∉ rest := (List.nodup_cons.mp hnd).1
      simp [this, Bool.xor_comm]
    · simp [e]

/-- deterministic branch: the scratch row is `±Z_q` -/
theorem measScratch_sameBits (t : Tab) (hv : t.Valid) (hr : t.StabReal) (q : Nat) (hq : q < t.n)
    (hp : t.pivot q = none) : SameBits t.n (t.measScratch q) (Zq q) := by
  apply sameBits_of_sp t hv
  intro i hi
  rw [sp_comm t.n (Zq q) _, sp_Zq _ _ _ _ hq]
  by_cases hin : i < t.n
  · unfold measScratch
    rw [sp_foldl_stab t hv i hin _
      (by intro d hd; simp only [filterTo, List.mem_filter, List.mem_range] at hd; exact hd.1)
      (by unfold filterTo; exact List.Nodup.sublist List.filter_sublist List.nodup_range),
      STab.sp_one_left]
    simp [filterTo, hin]
  · have := grp_comm t hv hr _ _ (measScratch_inSpan t q) (grp_row t i (by omega) hi)
    rw [this]
    exact (findFrom_none _ _ _ hp i (by omega) hi).symm

theorem measScratch_eqOn (t : Tab) (hv : t.Valid) (hr : t.StabReal) (q : Nat) (hq : q < t.n)
    (hp : t.pivot q = none) : EqOn t.n (t.measScratch q) (Zq q (t.measScratch q).r) :=
  ⟨measScratch_sameBits t hv hr q hq hp, rfl, grp_real t hv hr _ (measScratch_inSpan t q)⟩

/-- **deterministic outcome is the right one**: `(-1)^outcome Z_q` is in the stabilizer group -/
theorem measDet_grp_Zq (t : Tab) (hv : t.Valid) (hr : t.StabReal) (q : Nat) (hq : q < t.n)
    (hp : t.pivot q = none) : Grp t (Zq q (t.measScratch q).r) :=
  InSpan.eqv _ _ (measScratch_inSpan t q) (measScratch_eqOn t hv hr q hq hp)

theorem grp_xfree_of_pivot_none (t : Tab) (q : Nat) (hq : q < t.n) (hp : t.pivot q = none) :
    ∀ P, Grp t P → P.x q = false := by
  intro P hP
  unfold Grp at hP
  induction hP with
  | one => rfl
  | gen i hi => exact findFrom_none _ _ _ hp (i + t.n) (by omega) (by omega)
  | mul a b _ _ iha ihb => simp [iha, ihb]
  | eqv a b _ hab iha => rw [← (hab.1 q hq).1]; exact iha

/-- "some element of the group anticommutes with `Z_q`" -/
def Random (H : PRow → Prop) (q : Nat) : Prop := ∃ g, H g ∧ g.x q = true

theorem random_iff_pivot (t : Tab) (q : Nat) (hq : q < t.n) : Random (Grp t) q ↔ (t.pivot q).isSome = true := by
  constructor
  · rintro ⟨g, hg, gx⟩
    cases hp : t.pivot q with
    | some p => rfl
    | none => rw [grp_xfree_of_pivot_none t q hq hp g hg] at gx; cases gx
  · intro h
    cases hp : t.pivot q with
    | some p =>
      obtain ⟨p1, p2, p3⟩ := pivot_spec t q p hp
      exact ⟨t.row p, grp_row t p p1 p2, p3⟩
    | none => rw [hp] at h; cases h

/-- if `±Z_q` is in the group, the measurement of `q` is deterministic -/
theorem pivot_none_of_Zq (t : Tab) (hv : t.Valid) (hr : t.StabReal) (q : Nat) (hq : q < t.n) (s : Bool)
    (hz : Grp t (Zq q s)) : t.pivot q = none := by
  cases hp : t.pivot q with
  | none => rfl
  | some p =>
    obtain ⟨p1, p2, p3⟩ := pivot_spec t q p hp
    have := grp_comm t hv hr _ _ (grp_row t p p1 p2) hz
    rw [sp_Zq _ _ _ _ hq, p3] at this
    cases this

/-- the sign of `±Z_q` in the group is the deterministic outcome -/
theorem measScratch_r_of_Zq (t : Tab) (hv : t.Valid) (hr : t.StabReal) (q : Nat) (hq : q < t.n) (s : Bool)
    (hz : Grp t (Zq q s)) : (t.measScratch q).r = s := by
  have hp := pivot_none_of_Zq t hv hr q hq s hz
  have h1 := measDet_grp_Zq t hv hr q hq hp
  by_cases e : (t.measScratch q).r = s
  · exact e
  · exfalso
    have : Zq q (t.measScratch q).r = negate (Zq q s) := by
      have : (t.measScratch q).r = !s := by revert e; cases (t.measScratch q).r <;> cases s <;> simp
      rw [this]; rfl
    rw [this] at h1
    exact (grp_isStabGrp t hv hr).cons _ hz h1

/-! ### reset -/

theorem xg_eqOn (n q : Nat) (p : PRow) : EqOn n (PRow.xg q p) { p with r := xor p.r (p.z q) } := by
  refine ⟨fun j _ => ?_, ?_, rfl⟩
  · by_cases h : j = q
    · subst h; simp [PRow.xg, PRow.zg, PRow.h, PRow.s]
    · simp [PRow.xg, PRow.zg, PRow.h, PRow.s, h]
  · simp only [PRow.xg, PRow.zg, PRow.h, PRow.s, if_true]
    cases p.r <;> cases p.x q <;> cases p.z q <;> rfl

theorem xg_Zq (n q : Nat) (s : Bool) : EqOn n (PRow.xg q (Zq q s)) (Zq q (!s)) := by
  refine (xg_eqOn n q _).trans ⟨fun j _ => ⟨rfl, rfl⟩, ?_, rfl⟩
  simp [Zq]

/-- clearing the iphase bit of a row that has none changes nothing -/
theorem clearIp_eq (t : Tab) (p : Nat) (h : (t.row p).ip = false) :
    ({ t with row := upd t.row p { (t.row p) with ip := false } } : Tab) = t := by
  obtain ⟨n, row⟩ := t
  simp only at h ⊢
  congr
  funext j
  unfold upd
  by_cases e : j = p
  · subst e
    rw [if_pos rfl]
    generalize row j = r at h
    obtain ⟨x, z, r, ip⟩ := r
    simp only at h
    subst h
    rfl
  · rw [if_neg e]

/-- **`reset_z` is "measure, then flip iff the outcome is not the intended state"**, as tables (the `iphase := 0` of the
    random branch is a no-op on a tableau whose stabilizer rows are real) -/
theorem resetZ_eq (t : Tab) (q : Nat) (i o : Bool) (hr : t.StabReal) :
    t.resetZ q i o = if (t.zMeasure q o).2.1 = i then (t.zMeasure q o).1 else (t.zMeasure q o).1.xGate q := by
  cases hp : t.pivot q with
  | none =>
    unfold resetZ
    simp [zMeasure, hp]
  | some p =>
    obtain ⟨p1, p2, _⟩ := pivot_spec t q p hp
    have hpz : p ≠ 0 := by omega
    have hip : ((t.measRandom q p o).row p).ip = false := by
      simp only [measRandom, if_true]
      exact hr p p1 p2
    have hc := clearIp_eq (t.measRandom q p o) p hip
    unfold resetZ
    simp only [zMeasure, hp, hpz, ne_eq, not_false_eq_true, if_true]
    rw [hc]

theorem resetZ_random_eq (t : Tab) (q p : Nat) (i o : Bool) (hr : t.StabReal) (hp : t.pivot q = some p) :
    t.resetZ q i o = if o = i then t.measRandom q p o else (t.measRandom q p o).xGate q := by
  rw [resetZ_eq t q i o hr]
  simp [zMeasure, hp]

theorem resetZ_det_eq (t : Tab) (q : Nat) (i o : Bool) (hp : t.pivot q = none) :
    t.resetZ q i o = if (t.measScratch q).r = i then t else t.xGate q := by
  unfold resetZ
  simp [zMeasure, hp]

end Graphiq.TabSpec
