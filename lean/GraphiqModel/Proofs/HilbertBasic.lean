/-
  Proofs/HilbertBasic.lean — the Hilbert-space reading of the Pauli-group model, basic layer:
  * powers of the imaginary unit with integer exponents (`iPow`), which only depend on the exponent mod 4;
  * "monomial" matrices `mono f e` (one non-zero entry `i^(e b)` in column `b`, at row `f b`) and their calculus
    (product, conjugate transpose, unitarity);
  * computational-basis bit strings `Bits n = Fin n → Bool` (bit `j` belongs to qubit `j`, as in graphiq's
    `np.kron` chains where qubit 0 is the left-most factor) and the local-sum lemmas used for all n.
-/
import Mathlib.Data.Complex.Basic
import Mathlib.LinearAlgebra.Matrix.ConjTranspose
import GraphiqModel.Proofs.PauliGroup
namespace Graphiq
namespace Hilbert
open Matrix

/-! ### powers of `i` -/

/-- `i ^ k` for an integer exponent -/
noncomputable def iPow (k : ℤ) : ℂ := Complex.I ^ k

theorem iPow_zero : iPow 0 = 1 := by simp [iPow]
theorem iPow_one : iPow 1 = Complex.I := by simp [iPow]
theorem iPow_two : iPow 2 = -1 := by
  show Complex.I ^ (2 : ℤ) = -1
  have : (Complex.I : ℂ) ^ (2 : ℤ) = Complex.I ^ (2 : ℕ) := by norm_cast
  rw [this, Complex.I_sq]
theorem iPow_add (a b : ℤ) : iPow (a + b) = iPow a * iPow b := zpow_add₀ Complex.I_ne_zero a b
theorem iPow_four : iPow 4 = 1 := by
  show Complex.I ^ (4 : ℤ) = 1
  have : (Complex.I : ℂ) ^ (4 : ℤ) = Complex.I ^ (4 : ℕ) := by norm_cast
  rw [this, Complex.I_pow_four]
theorem iPow_four_mul (m : ℤ) : iPow (4 * m) = 1 := by
  show Complex.I ^ (4 * m) = 1
  rw [zpow_mul]
  have : (Complex.I : ℂ) ^ (4 : ℤ) = 1 := iPow_four
  rw [this, one_zpow]
theorem iPow_three : iPow 3 = -Complex.I := by
  have : (3 : ℤ) = 2 + 1 := by norm_num
  rw [this, iPow_add, iPow_two, iPow_one]; ring
theorem iPow_ne_zero (k : ℤ) : iPow k ≠ 0 := zpow_ne_zero k Complex.I_ne_zero

/-- `i ^ k` only depends on `k mod 4` -/
theorem iPow_congr {a b : ℤ} (h : a % 4 = b % 4) : iPow a = iPow b := by
  have ha : a = a % 4 + 4 * (a / 4) := (Int.emod_add_mul_ediv a 4).symm
  have hb : b = b % 4 + 4 * (b / 4) := (Int.emod_add_mul_ediv b 4).symm
  rw [ha, hb, iPow_add, iPow_add, iPow_four_mul, iPow_four_mul, h]

theorem iPow_neg_mul (k : ℤ) : iPow (-k) * iPow k = 1 := by
  rw [← iPow_add]; simp [iPow_zero]
theorem iPow_mul_neg (k : ℤ) : iPow k * iPow (-k) = 1 := by
  rw [← iPow_add]; simp [iPow_zero]

theorem star_iPow (k : ℤ) : star (iPow k) = iPow (-k) := by
  unfold iPow
  have h : star (Complex.I ^ k) = (star Complex.I) ^ k := map_zpow₀ (starRingEnd ℂ) Complex.I k
  rw [h]
  have h2 : star Complex.I = Complex.I⁻¹ := by
    rw [Complex.inv_I]; exact Complex.conj_I
  rw [h2, inv_zpow, zpow_neg]

/-- the sign `(-1)^b` as a power of `i` -/
theorem iPow_two_mul_toInt' (b : Bool) : iPow (2 * Bool.toInt' b) = if b then -1 else 1 := by
  cases b
  · simp [Bool.toInt', iPow_zero]
  · simp [Bool.toInt', iPow_two]

/-! ### monomial matrices -/

variable {β : Type} [DecidableEq β]

/-- the matrix with entry `i ^ (e b)` at `(f b, b)` and zero elsewhere: `|b⟩ ↦ i^(e b) |f b⟩` -/
noncomputable def mono (f : β → β) (e : β → ℤ) : Matrix β β ℂ :=
  Matrix.of fun a b => if a = f b then iPow (e b) else 0

theorem mono_apply (f : β → β) (e : β → ℤ) (a b : β) : mono f e a b = if a = f b then iPow (e b) else 0 := rfl

theorem mono_congr {f f' : β → β} {e e' : β → ℤ} (hf : f = f') (he : ∀ b, e b % 4 = e' b % 4) :
    mono f e = mono f' e' := by
  subst hf
  ext a b
  simp only [mono_apply]
  split
  · exact iPow_congr (he b)
  · rfl

theorem mono_id_zero : mono (id : β → β) (fun _ => 0) = 1 := by
  ext a b
  simp only [mono_apply, iPow_zero, id, Matrix.one_apply]

theorem mono_conjTranspose (f : β → β) (hf : Function.Involutive f) (e : β → ℤ) :
    (mono f e)ᴴ = mono f (fun b => -(e (f b))) := by
  ext a b
  simp only [Matrix.conjTranspose_apply, mono_apply]
  by_cases h : b = f a
  · have h' : a = f b := by rw [h, hf a]
    rw [if_pos h, if_pos h', star_iPow, h, hf a]
  · have h' : ¬ a = f b := by
      intro h2; apply h; rw [h2, hf b]
    rw [if_neg h, if_neg h', star_zero]

variable [Fintype β]

/-- right multiplication by a monomial matrix selects one column -/
theorem mul_mono_apply (M : Matrix β β ℂ) (f : β → β) (e : β → ℤ) (a c : β) :
    (M * mono f e) a c = M a (f c) * iPow (e c) := by
  rw [Matrix.mul_apply, Finset.sum_eq_single (f c)]
  · simp [mono_apply]
  · intro b _ hb; simp [mono_apply, hb]
  · intro h; exact absurd (Finset.mem_univ _) h

/-- left multiplication by a monomial matrix with involutive `f` selects one row -/
theorem mono_mul_apply (M : Matrix β β ℂ) (f : β → β) (hf : Function.Involutive f) (e : β → ℤ) (a c : β) :
    (mono f e * M) a c = iPow (e (f a)) * M (f a) c := by
  rw [Matrix.mul_apply, Finset.sum_eq_single (f a)]
  · simp [mono_apply, hf a]
  · intro b _ hb
    have : a ≠ f b := by
      intro h; apply hb; rw [h, hf b]
    simp [mono_apply, this]
  · intro h; exact absurd (Finset.mem_univ _) h

theorem mono_mul_mono (f g : β → β) (e d : β → ℤ) :
    mono f e * mono g d = mono (fun c => f (g c)) (fun c => e (g c) + d c) := by
  ext a c
  rw [mul_mono_apply]
  simp only [mono_apply]
  split
  · rw [iPow_add]
  · simp

theorem mono_mul_conjTranspose (f : β → β) (hf : Function.Involutive f) (e : β → ℤ) :
    mono f e * (mono f e)ᴴ = 1 := by
  rw [mono_conjTranspose f hf, mono_mul_mono, ← mono_id_zero]
  apply mono_congr
  · funext c; exact hf c
  · intro b; simp

theorem mono_conjTranspose_mul (f : β → β) (hf : Function.Involutive f) (e : β → ℤ) :
    (mono f e)ᴴ * mono f e = 1 := by
  rw [mono_conjTranspose f hf, mono_mul_mono, ← mono_id_zero]
  apply mono_congr
  · funext c; exact hf c
  · intro b; simp [hf b]

/-! ### bit strings -/

/-- computational-basis index of `n` qubits; bit `j` is the state of qubit `j` -/
abbrev Bits (n : Nat) := Fin n → Bool

/-- bit `j` of a string, `false` beyond the end (so that the model's `Nat`-indexed sums apply) -/
def bx {n : Nat} (b : Bits n) (j : Nat) : Bool := if h : j < n then b ⟨j, h⟩ else false

/-- flip the bits selected by `x` -/
def flip {n : Nat} (x : Nat → Bool) (b : Bits n) : Bits n := fun j => xor (b j) (x j)

theorem bx_lt {n : Nat} (b : Bits n) (j : Nat) (h : j < n) : bx b j = b ⟨j, h⟩ := by simp [bx, h]
theorem bx_ge {n : Nat} (b : Bits n) (j : Nat) (h : ¬ j < n) : bx b j = false := by simp [bx, h]

theorem bits_ext {n : Nat} {a b : Bits n} (h : ∀ j, j < n → bx a j = bx b j) : a = b := by
  funext j
  have := h j.1 j.2
  rwa [bx_lt a j.1 j.2, bx_lt b j.1 j.2] at this

theorem bx_flip {n : Nat} (x : Nat → Bool) (b : Bits n) (j : Nat) (h : j < n) :
    bx (flip x b) j = xor (bx b j) (x j) := by
  simp [bx, h, flip]

theorem flip_involutive {n : Nat} (x : Nat → Bool) : Function.Involutive (flip (n := n) x) := by
  intro b; funext j; simp [flip]

theorem flip_flip {n : Nat} (x y : Nat → Bool) (b : Bits n) :
    flip x (flip y b) = flip (fun j => xor (x j) (y j)) b := by
  funext j; simp only [flip]
  cases b j <;> cases x j <;> cases y j <;> rfl

theorem flip_congr {n : Nat} (x y : Nat → Bool) (h : ∀ j, j < n → x j = y j) : flip (n := n) x = flip y := by
  funext b j; simp only [flip]; rw [h j.1 j.2]

theorem flip_false {n : Nat} (b : Bits n) : flip (fun _ => false) b = b := by
  funext j; simp [flip]

/-! ### local sums (variants of `sumTo_diff_one/two` that only look below `n`) -/

theorem sumTo_local_one (n q : Nat) (f f' : Nat → Int) (hq : q < n) (h : ∀ j, j < n → j ≠ q → f j = f' j) :
    sumTo n f - f q = sumTo n f' - f' q := by
  have e1 : sumTo n f = sumTo n (fun j => if j < n then f j else 0) :=
    sumTo_congr n _ _ (fun j hj => by simp [hj])
  have e2 : sumTo n f' = sumTo n (fun j => if j < n then f' j else 0) :=
    sumTo_congr n _ _ (fun j hj => by simp [hj])
  have := sumTo_diff_one n q (fun j => if j < n then f j else 0) (fun j => if j < n then f' j else 0) hq
    (by intro j hj; by_cases hn : j < n <;> simp [hn]; exact h j hn hj)
  simp only [hq, if_true] at this
  omega

theorem sumTo_local_two (n c t : Nat) (f f' : Nat → Int) (hc : c < n) (ht : t < n) (hct : c ≠ t)
    (h : ∀ j, j < n → j ≠ c → j ≠ t → f j = f' j) :
    sumTo n f - f c - f t = sumTo n f' - f' c - f' t := by
  have e1 : sumTo n f = sumTo n (fun j => if j < n then f j else 0) :=
    sumTo_congr n _ _ (fun j hj => by simp [hj])
  have e2 : sumTo n f' = sumTo n (fun j => if j < n then f' j else 0) :=
    sumTo_congr n _ _ (fun j hj => by simp [hj])
  have := sumTo_diff_two n c t (fun j => if j < n then f j else 0) (fun j => if j < n then f' j else 0) hc ht hct
    (by intro j h1 h2; by_cases hn : j < n <;> simp [hn]; exact h j hn h1 h2)
  simp only [hc, ht, if_true] at this
  omega

end Hilbert
end Graphiq
