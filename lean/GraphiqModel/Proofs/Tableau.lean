/-
  Proofs/Tableau.lean — invariants of the Clifford-tableau model, for every size and every history.
-/
import GraphiqModel.Model.Tableau
import GraphiqModel.Proofs.Pauli
namespace Graphiq
open PRow

namespace Tab

/-- the tableau invariant ("symplectic, every destabilizer paired to its stabilizer"):
    rows `i`, `k` anticommute iff they are a destabilizer/stabilizer pair -/
def Valid (t : Tab) : Prop :=
  ∀ i k, i < 2 * t.n → k < 2 * t.n → sp t.n (t.row i) (t.row k) = decide (i + t.n = k ∨ k + t.n = i)

/-- stabilizer rows have no imaginary phase -/
def StabReal (t : Tab) : Prop := ∀ i, t.n ≤ i → i < 2 * t.n → (t.row i).ip = false

theorem isSymplectic_iff (t : Tab) : t.isSymplectic = true ↔ t.Valid := by
  unfold isSymplectic Valid
  simp only [List.all_eq_true, List.mem_range, beq_iff_eq]
  constructor
  · intro h i k hi hk; exact h i hi k hk
  · intro h i hi k hk; exact h i k hi hk

/-! ### gates -/

theorem map_valid (t : Tab) (f : PRow → PRow) (hf : IsAut t.n f) (hv : t.Valid) : (t.map f).Valid := by
  intro i k hi hk
  show sp t.n (f (t.row i)) (f (t.row k)) = _
  rw [hf.sp]; exact hv i k hi hk

theorem hGate_valid (t : Tab) (q : Nat) (hq : q < t.n) (hv : t.Valid) : (t.hGate q).Valid :=
  map_valid t _ (isAut_h t.n q hq) hv
theorem sGate_valid (t : Tab) (q : Nat) (hq : q < t.n) (hv : t.Valid) : (t.sGate q).Valid :=
  map_valid t _ (isAut_s t.n q hq) hv
theorem sdgGate_valid (t : Tab) (q : Nat) (hq : q < t.n) (hv : t.Valid) : (t.sdgGate q).Valid :=
  map_valid t _ (isAut_sdg t.n q hq) hv
theorem xGate_valid (t : Tab) (q : Nat) (hq : q < t.n) (hv : t.Valid) : (t.xGate q).Valid :=
  map_valid t _ (isAut_xg t.n q hq) hv
theorem yGate_valid (t : Tab) (q : Nat) (hq : q < t.n) (hv : t.Valid) : (t.yGate q).Valid :=
  map_valid t _ (isAut_yg t.n q hq) hv
theorem zGate_valid (t : Tab) (q : Nat) (hq : q < t.n) (hv : t.Valid) : (t.zGate q).Valid :=
  map_valid t _ (isAut_zg t.n q hq) hv
theorem cnotGate_valid (t : Tab) (c tg : Nat) (hc : c < t.n) (ht : tg < t.n) (hct : c ≠ tg) (hv : t.Valid) :
    (t.cnotGate c tg).Valid :=
  map_valid t _ (isAut_cnot t.n c tg hc ht hct) hv
theorem czGate_valid (t : Tab) (c tg : Nat) (hc : c < t.n) (ht : tg < t.n) (hct : c ≠ tg) (hv : t.Valid) :
    (t.czGate c tg).Valid :=
  map_valid t _ (isAut_cz t.n c tg hc ht hct) hv

/-! ### measurement, random branch -/

theorem findFrom_spec (lo hi : Nat) (f : Nat → Bool) (p : Nat) (h : findFrom lo hi f = some p) :
    lo ≤ p ∧ p < hi ∧ f p = true := by
  unfold findFrom at h
  have hm : p ∈ (List.range hi).filter (fun i => decide (lo ≤ i) && f i) := List.mem_of_mem_head? h
  simp only [List.mem_filter, List.mem_range, Bool.and_eq_true, decide_eq_true_eq] at hm
  exact ⟨hm.2.1, hm.1, hm.2.2⟩

theorem pivot_spec (t : Tab) (q p : Nat) (h : t.pivot q = some p) :
    t.n ≤ p ∧ p < 2 * t.n ∧ (t.row p).x q = true := findFrom_spec _ _ _ p h

/-- multiplying by the pivot `g` whenever a row has an X on `q` -/
def addIf (n : Nat) (c : Bool) (g a : PRow) : PRow := if c then PRow.mul n g a else a

theorem meas_pair (n : Nat) (g t1 t2 : PRow) (a1 a2 : Bool)
    (h1 : sp n t1 g = false) (h2 : sp n t2 g = false) :
    sp n (addIf n a1 g t1) (addIf n a2 g t2) = sp n t1 t2 := by
  have h1' : sp n g t1 = false := by rw [sp_comm]; exact h1
  have h2' : sp n g t2 = false := by rw [sp_comm]; exact h2
  cases a1 <;> cases a2 <;>
    simp [addIf, sp_mul_left, sp_mul_right, sp_self, h1, h2, h1', h2']

theorem meas_commZ (n q : Nat) (g t : PRow) (s : Bool) (hq : q < n) (hg : g.x q = true) :
    sp n (addIf n (t.x q) g t) (Zq q s) = false := by
  rw [sp_Zq n q _ s hq]
  unfold addIf
  cases h : t.x q <;> simp [h, hg]

theorem meas_commG (n : Nat) (g t : PRow) (a : Bool) (h : sp n t g = false) :
    sp n (addIf n a g t) g = false := by
  cases a <;> simp [addIf, sp_mul_left, sp_self, h]

/-- symplectic data of the rows of `measRandom` -/
theorem mr_row_p (t : Tab) (q p : Nat) (o : Bool) :
    SameBits t.n ((t.measRandom q p o).row p) (Zq q) := by
  intro j _; simp [measRandom, Zq]

theorem mr_row_d (t : Tab) (q p i : Nat) (o : Bool) (h1 : i ≠ p) (h2 : i + t.n = p) :
    SameBits t.n ((t.measRandom q p o).row i) (t.row p) := by
  intro j _; simp [measRandom, h1, h2]

theorem mr_row_o (t : Tab) (q p i : Nat) (o : Bool) (h1 : i ≠ p) (h2 : i + t.n ≠ p) :
    (t.measRandom q p o).row i = addIf t.n ((t.row i).x q) (t.row p) (t.row i) := by
  simp only [measRandom, h1, h2, if_false, addIf]
  by_cases hx : (t.row i).x q = true <;> simp [hx, h1]

theorem sameBits_refl (n : Nat) (a : PRow) : SameBits n a a := fun _ _ => ⟨rfl, rfl⟩

theorem measRandom_valid (t : Tab) (q p : Nat) (o : Bool)
    (hv : t.Valid) (hq : q < t.n) (hp1 : t.n ≤ p) (hp2 : p < 2 * t.n)
    (hx : (t.row p).x q = true) : (t.measRandom q p o).Valid := by
  intro i k hi hk
  have hn : (t.measRandom q p o).n = t.n := rfl
  rw [hn] at hi hk ⊢
  have hg : ∀ j, j < 2 * t.n → j + t.n ≠ p → j ≠ p → sp t.n (t.row j) (t.row p) = false := by
    intro j hj h1 h2
    rw [hv j p hj hp2]
    exact decide_eq_false (by omega)
  have R := sameBits_refl t.n
  by_cases hip : i = p
  · by_cases hkp : k = p
    · subst hip; subst hkp; rw [sp_self]
      exact (decide_eq_false (by omega)).symm
    · by_cases hkd : k + t.n = p
      · subst hip
        rw [sp_congr _ _ _ _ _ (mr_row_p t q i o) (mr_row_d t q i k o hkp hkd), sp_comm, sp_Zq _ _ _ _ hq, hx]
        exact (decide_eq_true (by omega)).symm
      · subst hip
        rw [sp_congr _ _ _ _ _ (mr_row_p t q i o) (R _), mr_row_o t q i k o hkp hkd, sp_comm,
            meas_commZ t.n q (t.row i) (t.row k) false hq hx]
        exact (decide_eq_false (by omega)).symm
  · by_cases hid : i + t.n = p
    · by_cases hkp : k = p
      · subst hkp
        rw [sp_congr _ _ _ _ _ (mr_row_d t q k i o hip hid) (mr_row_p t q k o), sp_Zq _ _ _ _ hq, hx]
        exact (decide_eq_true (by omega)).symm
      · by_cases hkd : k + t.n = p
        · rw [sp_congr _ _ _ _ _ (mr_row_d t q p i o hip hid) (mr_row_d t q p k o hkp hkd), sp_self]
          exact (decide_eq_false (by omega)).symm
        · rw [sp_congr _ _ _ _ _ (mr_row_d t q p i o hip hid) (R _), mr_row_o t q p k o hkp hkd, sp_comm,
              meas_commG t.n (t.row p) (t.row k) _ (hg k hk hkd hkp)]
          exact (decide_eq_false (by omega)).symm
    · by_cases hkp : k = p
      · subst hkp
        rw [sp_congr _ _ _ _ _ (R _) (mr_row_p t q k o), mr_row_o t q k i o hip hid,
            meas_commZ t.n q (t.row k) (t.row i) false hq hx]
        exact (decide_eq_false (by omega)).symm
      · by_cases hkd : k + t.n = p
        · rw [sp_congr _ _ _ _ _ (R _) (mr_row_d t q p k o hkp hkd), mr_row_o t q p i o hip hid,
              meas_commG t.n (t.row p) (t.row i) _ (hg i hi hid hip)]
          exact (decide_eq_false (by omega)).symm
        · rw [mr_row_o t q p i o hip hid, mr_row_o t q p k o hkp hkd,
              meas_pair t.n (t.row p) (t.row i) (t.row k) _ _ (hg i hi hid hip) (hg k hk hkd hkp)]
          exact hv i k hi hk

theorem zMeasure_n (t : Tab) (q : Nat) (o : Bool) : (t.zMeasure q o).1.n = t.n := by
  unfold zMeasure; split <;> rfl

theorem zMeasure_valid (t : Tab) (q : Nat) (o : Bool) (hq : q < t.n) (hv : t.Valid) :
    (t.zMeasure q o).1.Valid := by
  unfold zMeasure
  split
  · next p hp =>
    obtain ⟨h1, h2, h3⟩ := pivot_spec t q p hp
    exact measRandom_valid t q p o hv hq h1 h2 h3
  · exact hv

/-- changing only the phase bits of a row keeps validity -/
theorem setPhase_valid (t : Tab) (p : Nat) (r ip : Bool) (hv : t.Valid) :
    Valid { t with row := upd t.row p { (t.row p) with r := r, ip := ip } } := by
  intro i k hi hk
  have e : ∀ j, SameBits t.n ((upd t.row p { (t.row p) with r := r, ip := ip }) j) (t.row j) := by
    intro j m _
    unfold upd
    by_cases h : j = p <;> simp [h]
  show sp t.n _ _ = _
  rw [sp_congr _ _ _ _ _ (e i) (e k)]
  exact hv i k hi hk

theorem resetZ_n (t : Tab) (q : Nat) (intended o : Bool) : (t.resetZ q intended o).n = t.n := by
  unfold resetZ
  have := zMeasure_n t q o
  generalize t.zMeasure q o = m at *
  obtain ⟨t1, outcome, p⟩ := m
  simp only at this ⊢
  split <;> split <;> exact this

theorem resetZ_valid (t : Tab) (q : Nat) (intended o : Bool) (hq : q < t.n) (hv : t.Valid) :
    (t.resetZ q intended o).Valid := by
  unfold resetZ
  have hn := zMeasure_n t q o
  have hv1 := zMeasure_valid t q o hq hv
  generalize t.zMeasure q o = m at *
  obtain ⟨t1, outcome, p⟩ := m
  simp only at hn hv1 ⊢
  have hv2 : Valid (if p ≠ 0 then { t1 with row := upd t1.row p { (t1.row p) with ip := false } } else t1) := by
    split
    · exact setPhase_valid t1 p (t1.row p).r false hv1
    · exact hv1
  have hn2 : (if p ≠ 0 then { t1 with row := upd t1.row p { (t1.row p) with ip := false } } else t1).n = t.n := by
    split <;> exact hn
  split
  · exact hv2
  · exact xGate_valid _ q (hn2 ▸ hq) hv2

theorem resetX_valid (t : Tab) (q : Nat) (intended o : Bool) (hq : q < t.n) (hv : t.Valid) :
    (t.resetX q intended o).Valid :=
  hGate_valid _ q (by rw [resetZ_n]; exact hq) (resetZ_valid t q intended o hq hv)

theorem resetY_valid (t : Tab) (q : Nat) (intended o : Bool) (hq : q < t.n) (hv : t.Valid) :
    (t.resetY q intended o).Valid :=
  sGate_valid _ q (by show q < ((t.resetZ q intended o).hGate q).n; exact (resetZ_n t q intended o) ▸ hq)
    (hGate_valid _ q (by rw [resetZ_n]; exact hq) (resetZ_valid t q intended o hq hv))

/-! ### initial states -/

theorem ket0_valid (n : Nat) : (ket0 n).Valid := by
  intro i k hi hk
  simp only [ket0] at hi hk ⊢
  by_cases h1 : i < n <;> by_cases h2 : k < n <;> simp only [h1, h2, if_true, if_false]
  · rw [sp_Xq n k _ false h2]
    show false = _
    exact (decide_eq_false (by omega)).symm
  · rw [sp_Zq n (k - n) _ false (by omega)]
    show decide (k - n = i) = _
    by_cases e : k - n = i
    · rw [decide_eq_true e]; exact (decide_eq_true (by omega)).symm
    · rw [decide_eq_false e]; exact (decide_eq_false (by omega)).symm
  · rw [sp_Xq n k _ false h2]
    show decide (k = i - n) = _
    by_cases e : k = i - n
    · rw [decide_eq_true e]; exact (decide_eq_true (by omega)).symm
    · rw [decide_eq_false e]; exact (decide_eq_false (by omega)).symm
  · rw [sp_Zq n (k - n) _ false (by omega)]
    show false = _
    exact (decide_eq_false (by omega)).symm

/-! ### swap -/

theorem sp_swap (n a b : Nat) (ha : a < n) (hb : b < n) (u v : PRow) :
    sp n (PRow.swap a b u) (PRow.swap a b v) = sp n u v := by
  unfold sp
  rw [← parityTo_swap n a b (fun j => xor (u.x j && v.z j) (u.z j && v.x j)) ha hb]
  apply parityTo_congr
  intro j _
  simp only [PRow.swap]
  by_cases h1 : j = a
  · simp [h1]
  · by_cases h2 : j = b
    · subst h2
      have hba : ¬ (j = a) := h1
      simp [hba]
    · simp [h1, h2]

theorem swapGate_valid (t : Tab) (a b : Nat) (ha : a < t.n) (hb : b < t.n) (hv : t.Valid) : (t.swapGate a b).Valid := by
  intro i k hi hk
  show sp t.n (PRow.swap a b (t.row i)) (PRow.swap a b (t.row k)) = _
  rw [sp_swap t.n a b ha hb]; exact hv i k hi hk

/-! ### qubit insertion -/

theorem sp_insertCol (n p : Nat) (hp : p ≤ n) (u v : PRow) :
    sp (n + 1) (u.insertCol p) (v.insertCol p) = sp n u v := by
  unfold sp
  rw [← parityTo_insert n p (fun j => xor (u.x j && v.z j) (u.z j && v.x j)) hp]
  apply parityTo_congr
  intro j _
  simp only [PRow.insertCol]
  by_cases h1 : j < p
  · simp [h1]
  · by_cases h2 : j = p
    · simp [h2]
    · simp [h1, h2]

theorem sp_insertCol_Xq (n p : Nat) (hp : p ≤ n) (u : PRow) : sp (n + 1) (u.insertCol p) (Xq p) = false := by
  rw [sp_Xq (n + 1) p _ false (by omega)]; simp [PRow.insertCol]
theorem sp_insertCol_Zq (n p : Nat) (hp : p ≤ n) (u : PRow) : sp (n + 1) (u.insertCol p) (Zq p) = false := by
  rw [sp_Zq (n + 1) p _ false (by omega)]; simp [PRow.insertCol]

/-- index of the old row behind a new row of `insertQubit` (for rows that are not the two new ones) -/
def insSrc (n p i : Nat) : Nat :=
  if i < n + 1 then (if i < p then i else i - 1)
  else (if i - (n + 1) < p then n + (i - (n + 1)) else n + (i - (n + 1)) - 1)

theorem insertQubit_row_old (t : Tab) (p i : Nat) (h1 : i ≠ p) (h2 : i ≠ t.n + 1 + p) :
    (t.insertQubit p).row i = (t.row (insSrc t.n p i)).insertCol p := by
  unfold insertQubit insSrc
  by_cases a : i < t.n + 1
  · by_cases b : i < p
    · simp [a, b]
    · simp [a, b, h1]
  · have c : i - (t.n + 1) ≠ p := by omega
    by_cases b : i - (t.n + 1) < p
    · simp [a, b]
    · simp [a, b, c]

theorem insertQubit_row_p (t : Tab) (p : Nat) (hp : p ≤ t.n) : (t.insertQubit p).row p = Xq p := by
  unfold insertQubit
  have : p < t.n + 1 := by omega
  simp [this]

theorem insertQubit_row_np (t : Tab) (p : Nat) : (t.insertQubit p).row (t.n + 1 + p) = Zq p := by
  unfold insertQubit
  have : ¬ (t.n + 1 + p < t.n + 1) := by omega
  simp [this]

theorem insertQubit_valid (t : Tab) (p : Nat) (hp : p ≤ t.n) (hv : t.Valid) : (t.insertQubit p).Valid := by
  intro i k hi hk
  have hn : (t.insertQubit p).n = t.n + 1 := rfl
  rw [hn] at hi hk ⊢
  by_cases ip : i = p
  · by_cases kp : k = p
    · subst ip; subst kp; rw [sp_self]; exact (decide_eq_false (by omega)).symm
    · by_cases kn : k = t.n + 1 + p
      · subst ip; subst kn
        rw [insertQubit_row_p t i hp, insertQubit_row_np, sp_Zq _ _ _ _ (by omega)]
        simp [Xq]; omega
      · subst ip
        rw [insertQubit_row_p t i hp, insertQubit_row_old t i k kp kn, sp_comm, sp_insertCol_Xq _ _ hp]
        exact (decide_eq_false (by omega)).symm
  · by_cases inn : i = t.n + 1 + p
    · by_cases kp : k = p
      · subst inn; subst kp
        rw [insertQubit_row_p t k hp, insertQubit_row_np, sp_Xq _ _ _ _ (by omega)]
        simp [Zq]; omega
      · by_cases kn : k = t.n + 1 + p
        · subst inn; subst kn; rw [sp_self]; exact (decide_eq_false (by omega)).symm
        · subst inn
          rw [insertQubit_row_np, insertQubit_row_old t p k kp kn, sp_comm, sp_insertCol_Zq _ _ hp]
          exact (decide_eq_false (by omega)).symm
    · by_cases kp : k = p
      · subst kp
        rw [insertQubit_row_p t k hp, insertQubit_row_old t k i ip inn, sp_insertCol_Xq _ _ hp]
        exact (decide_eq_false (by omega)).symm
      · by_cases kn : k = t.n + 1 + p
        · subst kn
          rw [insertQubit_row_np, insertQubit_row_old t p i ip inn, sp_insertCol_Zq _ _ hp]
          exact (decide_eq_false (by omega)).symm
        · rw [insertQubit_row_old t p i ip inn, insertQubit_row_old t p k kp kn, sp_insertCol _ _ hp]
          have hi' : insSrc t.n p i < 2 * t.n := by unfold insSrc; split <;> split <;> omega
          have hk' : insSrc t.n p k < 2 * t.n := by unfold insSrc; split <;> split <;> omega
          rw [hv _ _ hi' hk']
          unfold insSrc
          by_cases a : i < t.n + 1 <;> by_cases b : k < t.n + 1 <;> simp only [a, b, if_true, if_false]
          · split <;> split <;> (apply decide_eq_decide.mpr; omega)
          · split <;> split <;> (apply decide_eq_decide.mpr; omega)
          · split <;> split <;> (apply decide_eq_decide.mpr; omega)
          · split <;> split <;> (apply decide_eq_decide.mpr; omega)

theorem addQubit_valid (t : Tab) (hv : t.Valid) : t.addQubit.Valid :=
  insertQubit_valid t t.n (Nat.le_refl _) hv

/-! ### the stabilizer group as a span, and what a measurement does to it -/

/-- membership in the group generated (under the signed product) by the rows `gens i`, `i < m` -/
inductive InSpan (n m : Nat) (gens : Nat → PRow) : PRow → Prop
  | one : InSpan n m gens PRow.one
  | gen (i : Nat) (h : i < m) : InSpan n m gens (gens i)
  | mul (a b : PRow) : InSpan n m gens a → InSpan n m gens b → InSpan n m gens (PRow.mul n a b)
  | eqv (a b : PRow) : InSpan n m gens a → EqOn n a b → InSpan n m gens b

/-- the stabilizer generators of a tableau -/
def stab (t : Tab) : Nat → PRow := fun i => t.row (i + t.n)

theorem foldl_inSpan (t : Tab) (l : List Nat) (acc : PRow) (hl : ∀ d ∈ l, d < t.n)
    (hacc : InSpan t.n t.n t.stab acc) :
    InSpan t.n t.n t.stab (l.foldl (fun acc d => PRow.mul t.n (t.row (d + t.n)) acc) acc) := by
  induction l generalizing acc with
  | nil => exact hacc
  | cons d rest ih =>
    simp only [List.foldl]
    apply ih
    · intro e he; exact hl e (List.mem_cons_of_mem _ he)
    · exact InSpan.mul _ _ (InSpan.gen d (hl d (List.mem_cons_self))) hacc

/-- the scratch row of a deterministic measurement is a product of stabilizer generators -/
theorem measScratch_inSpan (t : Tab) (q : Nat) : InSpan t.n t.n t.stab (t.measScratch q) := by
  unfold measScratch
  apply foldl_inSpan
  · intro d hd
    simp only [filterTo, List.mem_filter, List.mem_range] at hd
    exact hd.1
  · exact InSpan.one

/-- random branch: every new stabilizer generator other than the pivot is an old one or the product of the pivot
    with an old one, i.e. lies in the old stabilizer group -/
theorem measRandom_stab_inSpan (t : Tab) (q p : Nat) (o : Bool) (hp1 : t.n ≤ p) (hp2 : p < 2 * t.n)
    (i : Nat) (hi : i < t.n) (hip : i + t.n ≠ p) :
    InSpan t.n t.n t.stab ((t.measRandom q p o).stab i) := by
  show InSpan t.n t.n t.stab ((t.measRandom q p o).row (i + t.n))
  have h2 : i + t.n + t.n ≠ p := by omega
  rw [mr_row_o t q p (i + t.n) o hip h2]
  unfold addIf
  have gi : InSpan t.n t.n t.stab (t.row (i + t.n)) := InSpan.gen i hi
  have gp : InSpan t.n t.n t.stab (t.row p) := by
    have : t.row p = t.stab (p - t.n) := by unfold stab; congr 1; omega
    rw [this]; exact InSpan.gen (p - t.n) (by omega)
  split
  · exact InSpan.mul _ _ gp gi
  · exact gi

/-- random branch: the pivot row becomes `(-1)^outcome Z_q` -/
theorem measRandom_pivot_row (t : Tab) (q p : Nat) (o : Bool) :
    SameBits t.n ((t.measRandom q p o).row p) (Zq q) ∧ ((t.measRandom q p o).row p).r = o := by
  refine ⟨mr_row_p t q p o, ?_⟩
  simp [measRandom]

/-- random branch: every new stabilizer generator commutes with `Z_q` (the post-measurement state is a `Z_q` eigenstate) -/
theorem measRandom_commutes_Zq (t : Tab) (q p : Nat) (o : Bool) (hv : t.Valid) (hq : q < t.n)
    (hp1 : t.n ≤ p) (hp2 : p < 2 * t.n) (hx : (t.row p).x q = true) (i : Nat) (hi : i < t.n) :
    ((t.measRandom q p o).stab i).x q = false := by
  have hv' := measRandom_valid t q p o hv hq hp1 hp2 hx
  have e := hv' (i + t.n) p (by show i + t.n < 2 * t.n; omega) hp2
  have hn : (t.measRandom q p o).n = t.n := rfl
  rw [hn] at e
  rw [sp_congr _ _ _ _ _ (sameBits_refl _ _) (mr_row_p t q p o), sp_Zq _ _ _ _ hq] at e
  show ((t.measRandom q p o).row (i + t.n)).x q = false
  rw [e]; exact decide_eq_false (by omega)

/-! ### tensor product -/

theorem sp_trunc_trunc (na nb : Nat) (u v : PRow) :
    sp (na + nb) (u.truncCols na) (v.truncCols na) = sp na u v := by
  unfold sp
  rw [parityTo_add]
  have h2 : parityTo nb (fun j => xor (((u.truncCols na).x (na + j)) && ((v.truncCols na).z (na + j)))
      (((u.truncCols na).z (na + j)) && ((v.truncCols na).x (na + j)))) = false := by
    apply parityTo_zero; intro j _
    have : ¬ (na + j < na) := by omega
    simp [PRow.truncCols, this]
  rw [h2]
  have h1 : parityTo na (fun j => xor (((u.truncCols na).x j) && ((v.truncCols na).z j))
      (((u.truncCols na).z j) && ((v.truncCols na).x j))) = parityTo na (fun j => xor (u.x j && v.z j) (u.z j && v.x j)) := by
    apply parityTo_congr; intro j hj; simp [PRow.truncCols, hj]
  rw [h1]; simp

theorem sp_shift_shift (na nb : Nat) (u v : PRow) :
    sp (na + nb) (u.shiftCols na) (v.shiftCols na) = sp nb u v := by
  unfold sp
  rw [parityTo_add]
  have h1 : parityTo na (fun j => xor (((u.shiftCols na).x j) && ((v.shiftCols na).z j))
      (((u.shiftCols na).z j) && ((v.shiftCols na).x j))) = false := by
    apply parityTo_zero; intro j hj; simp [PRow.shiftCols, hj]
  rw [h1]
  have h2 : parityTo nb (fun j => xor (((u.shiftCols na).x (na + j)) && ((v.shiftCols na).z (na + j)))
      (((u.shiftCols na).z (na + j)) && ((v.shiftCols na).x (na + j)))) = parityTo nb (fun j => xor (u.x j && v.z j) (u.z j && v.x j)) := by
    apply parityTo_congr; intro j _
    have : ¬ (na + j < na) := by omega
    simp [PRow.shiftCols, this]
  rw [h2]; simp

theorem sp_trunc_shift (na nb : Nat) (u v : PRow) :
    sp (na + nb) (u.truncCols na) (v.shiftCols na) = false := by
  unfold sp
  apply parityTo_zero
  intro j _
  by_cases h : j < na <;> simp [PRow.truncCols, PRow.shiftCols, h]

theorem sp_shift_trunc (na nb : Nat) (u v : PRow) :
    sp (na + nb) (u.shiftCols na) (v.truncCols na) = false := by
  rw [sp_comm]; exact sp_trunc_shift na nb v u

/-- which block a row of `tensor2 a b` comes from, and its index there -/
theorem tensor2_row (a b : Tab) (i : Nat) (hi : i < 2 * (a.n + b.n)) :
    (∃ k, k < 2 * a.n ∧ (tensor2 a b).row i = (a.row k).truncCols a.n ∧
        ((i < a.n ∧ k = i) ∨ (a.n + b.n ≤ i ∧ i < a.n + b.n + a.n ∧ k + b.n = i))) ∨
    (∃ k, k < 2 * b.n ∧ (tensor2 a b).row i = (b.row k).shiftCols a.n ∧
        ((a.n ≤ i ∧ i < a.n + b.n ∧ k + a.n = i) ∨ (a.n + b.n + a.n ≤ i ∧ k + a.n + a.n = i))) := by
  unfold tensor2
  simp only
  by_cases h1 : i < a.n
  · left; exact ⟨i, by omega, by simp [h1], Or.inl ⟨h1, rfl⟩⟩
  · by_cases h2 : i < a.n + b.n
    · right
      exact ⟨i - a.n, by omega, by simp [h1, h2], Or.inl ⟨by omega, h2, by omega⟩⟩
    · by_cases h3 : i < a.n + b.n + a.n
      · left
        exact ⟨i - (a.n + b.n) + a.n, by omega, by simp [h1, h2, h3], Or.inr ⟨by omega, h3, by omega⟩⟩
      · right
        exact ⟨i - (a.n + b.n) - a.n + b.n, by omega, by simp [h1, h2, h3], Or.inr ⟨by omega, by omega⟩⟩

theorem tensor2_valid (a b : Tab) (ha : a.Valid) (hb : b.Valid) : (tensor2 a b).Valid := by
  intro i k hi hk
  have hn : (tensor2 a b).n = a.n + b.n := rfl
  rw [hn] at hi hk
  show sp (a.n + b.n) ((tensor2 a b).row i) ((tensor2 a b).row k) = decide (i + (a.n + b.n) = k ∨ k + (a.n + b.n) = i)
  rcases tensor2_row a b i hi with ⟨ki, hki, ei, ci⟩ | ⟨ki, hki, ei, ci⟩ <;>
  rcases tensor2_row a b k hk with ⟨kk, hkk, ek, ck⟩ | ⟨kk, hkk, ek, ck⟩ <;>
  rw [ei, ek]
  · rw [sp_trunc_trunc, ha ki kk hki hkk]
    apply decide_eq_decide.mpr
    rcases ci with ci | ci <;> rcases ck with ck | ck <;> omega
  · rw [sp_trunc_shift]
    apply (decide_eq_false _).symm
    rcases ci with ci | ci <;> rcases ck with ck | ck <;> omega
  · rw [sp_shift_trunc]
    apply (decide_eq_false _).symm
    rcases ci with ci | ci <;> rcases ck with ck | ck <;> omega
  · rw [sp_shift_shift, hb ki kk hki hkk]
    apply decide_eq_decide.mpr
    rcases ci with ci | ci <;> rcases ck with ck | ck <;> omega

/-! ### removing a qubit -/

theorem sp_deleteCol (n q : Nat) (hq : q ≤ n) (u v : PRow)
    (h : xor (u.x q && v.z q) (u.z q && v.x q) = false) :
    sp n (u.deleteCol q) (v.deleteCol q) = sp (n + 1) u v := by
  unfold sp
  rw [← parityTo_delete n q (fun j => xor (u.x j && v.z j) (u.z j && v.x j)) hq h]
  apply parityTo_congr
  intro j _
  simp only [PRow.deleteCol]
  by_cases h1 : j < q <;> simp [h1]

/-- the old index behind a row of `deletePair … d` on an `n`-qubit tableau -/
def delSrc (n d i : Nat) : Nat := if i < d then i else if i + 1 < d + n then i + 1 else i + 2

theorem deletePair_row (t : Tab) (q d i : Nat) : (t.deletePair q d).row i = (t.row (delSrc t.n d i)).deleteCol q := rfl

theorem delSrc_facts (n d i : Nat) (hd : d < n) (hi : i < 2 * (n - 1)) :
    delSrc n d i < 2 * n ∧ delSrc n d i ≠ d ∧ delSrc n d i ≠ d + n := by
  unfold delSrc
  split
  · omega
  · split <;> omega

theorem delSrc_pair (n d i k : Nat) (hd : d < n) (hi : i < 2 * (n - 1)) (hk : k < 2 * (n - 1)) :
    (delSrc n d i + n = delSrc n d k ∨ delSrc n d k + n = delSrc n d i) ↔ (i + (n - 1) = k ∨ k + (n - 1) = i) := by
  unfold delSrc
  split <;> split <;> (try split) <;> (try split) <;> omega

/-- **core of `remove_qubit`**: from a valid tableau in which only the destabilizer partner of row `zRow` still has an X on
    qubit `q`, multiplying the rows that have a Z on `q` by row `zRow` and deleting the pair and the column leaves a valid tableau -/
theorem dropQubit_valid (t2 : Tab) (q zRow : Nat) (hv : t2.Valid) (hq : q < t2.n) (hz1 : t2.n ≤ zRow) (hz2 : zRow < 2 * t2.n)
    (hx : ∀ i, i < 2 * t2.n → i + t2.n ≠ zRow → (t2.row i).x q = false) :
    Valid (({ t2 with row := fun i =>
        if i ≠ zRow ∧ i + t2.n ≠ zRow ∧ (t2.row i).z q then PRow.mul t2.n (t2.row zRow) (t2.row i) else t2.row i } : Tab).deletePair q
      (zRow - t2.n)) := by
  intro i k hi hk
  have hn : ∀ r : Nat → PRow, (({ t2 with row := r } : Tab).deletePair q (zRow - t2.n)).n = t2.n - 1 := fun _ => rfl
  rw [hn] at hi hk ⊢
  have hd : zRow - t2.n < t2.n := by omega
  obtain ⟨si, si1, si2⟩ := delSrc_facts t2.n (zRow - t2.n) i hd hi
  obtain ⟨sk, sk1, sk2⟩ := delSrc_facts t2.n (zRow - t2.n) k hd hk
  rw [deletePair_row, deletePair_row]
  show sp (t2.n - 1) (PRow.deleteCol q _) (PRow.deleteCol q _) = _
  generalize hI : delSrc t2.n (zRow - t2.n) i = I at *
  generalize hK : delSrc t2.n (zRow - t2.n) k = K at *
  have hIz : I ≠ zRow := by omega
  have hKz : K ≠ zRow := by omega
  have hId : I + t2.n ≠ zRow := by omega
  have hKd : K + t2.n ≠ zRow := by omega
  -- the rows of the intermediate tableau
  have zx : (t2.row zRow).x q = false := hx zRow hz2 (by omega)
  have rowX : ∀ J, J < 2 * t2.n → J + t2.n ≠ zRow →
      ((if J ≠ zRow ∧ J + t2.n ≠ zRow ∧ (t2.row J).z q then PRow.mul t2.n (t2.row zRow) (t2.row J) else t2.row J) : PRow).x q = false := by
    intro J hJ hJd
    split
    · simp [zx, hx J hJ hJd]
    · exact hx J hJ hJd
  have commZ : ∀ J, J < 2 * t2.n → J + t2.n ≠ zRow → sp t2.n (t2.row J) (t2.row zRow) = false := by
    intro J hJ hJd
    rw [hv J zRow hJ hz2]; exact decide_eq_false (by omega)
  have commZ' : ∀ J, J < 2 * t2.n → J + t2.n ≠ zRow → sp t2.n (t2.row zRow) (t2.row J) = false := by
    intro J hJ hJd; rw [sp_comm]; exact commZ J hJ hJd
  have spRows : sp t2.n
      (if I ≠ zRow ∧ I + t2.n ≠ zRow ∧ (t2.row I).z q then PRow.mul t2.n (t2.row zRow) (t2.row I) else t2.row I)
      (if K ≠ zRow ∧ K + t2.n ≠ zRow ∧ (t2.row K).z q then PRow.mul t2.n (t2.row zRow) (t2.row K) else t2.row K)
      = sp t2.n (t2.row I) (t2.row K) := by
    split <;> split <;>
      simp [sp_mul_left, sp_mul_right, sp_self, commZ I si hId, commZ K sk hKd, commZ' I si hId, commZ' K sk hKd]
  have hn1 : t2.n - 1 + 1 = t2.n := by omega
  have key := sp_deleteCol (t2.n - 1) q (by omega)
    (if I ≠ zRow ∧ I + t2.n ≠ zRow ∧ (t2.row I).z q then PRow.mul t2.n (t2.row zRow) (t2.row I) else t2.row I)
    (if K ≠ zRow ∧ K + t2.n ≠ zRow ∧ (t2.row K).z q then PRow.mul t2.n (t2.row zRow) (t2.row K) else t2.row K)
    (by rw [rowX I si hId, rowX K sk hKd]; simp)
  rw [hn1] at key
  rw [key, spRows, hv I K si sk]
  apply decide_eq_decide.mpr
  rw [← hI, ← hK]
  exact delSrc_pair t2.n (zRow - t2.n) i k hd hi hk

/-- after a random-outcome measurement only the destabilizer partner of the pivot still has an X on the measured qubit -/
theorem measRandom_x (t : Tab) (q p : Nat) (o : Bool) (hx : (t.row p).x q = true) (i : Nat) (hip : i + t.n ≠ p) :
    ((t.measRandom q p o).row i).x q = false := by
  by_cases h1 : i = p
  · subst h1; simp [measRandom, Zq]
  · rw [mr_row_o t q p i o h1 hip]
    unfold addIf
    cases h : (t.row i).x q <;> simp [h, hx]

/-- the dual pair of row sums of the deterministic branch of `remove_qubit`: `D_b ← D_a·D_b`, `S_a ← S_b·S_a` -/
def pairSum (t : Tab) (a b : Nat) : Tab := (t.rowSum a b).rowSum (b + t.n) (a + t.n)

theorem pairSum_n (t : Tab) (a b : Nat) : (t.pairSum a b).n = t.n := rfl

theorem pairSum_row (t : Tab) (a b : Nat) (hab : a ≠ b) (ha : a < t.n) (hb : b < t.n) (i : Nat) :
    (t.pairSum a b).row i =
      if i = a + t.n then PRow.mul t.n (t.row (b + t.n)) (t.row (a + t.n))
      else if i = b then PRow.mul t.n (t.row a) (t.row b) else t.row i := by
  unfold pairSum rowSum
  simp only [upd]
  have h1 : b + t.n ≠ b := by omega
  have h2 : a + t.n ≠ b := by omega
  have h3 : t.n ≠ 0 := by omega
  have h4 : b ≠ a + t.n := by omega
  by_cases e1 : i = a + t.n
  · simp [e1, h1, h2, h3]
  · by_cases e2 : i = b
    · simp [e2, h4]
    · simp [e1, e2]

theorem pairSum_valid (t : Tab) (a b : Nat) (hab : a ≠ b) (ha : a < t.n) (hb : b < t.n) (hv : t.Valid) :
    (t.pairSum a b).Valid := by
  intro i k hi hk
  rw [pairSum_n] at hi hk ⊢
  rw [pairSum_row t a b hab ha hb i, pairSum_row t a b hab ha hb k]
  have H : ∀ x y, x < 2 * t.n → y < 2 * t.n → sp t.n (t.row x) (t.row y) = decide (x + t.n = y ∨ y + t.n = x) := hv
  have ha2 : a < 2 * t.n := by omega
  have hb2 : b < 2 * t.n := by omega
  have han : a + t.n < 2 * t.n := by omega
  have hbn : b + t.n < 2 * t.n := by omega
  by_cases i1 : i = a + t.n <;> by_cases k1 : k = a + t.n
  · subst i1; subst k1
    simp only [if_true]
    rw [sp_self]; exact (decide_eq_false (by omega)).symm
  · by_cases k2 : k = b
    · subst i1; subst k2
      simp only [if_true, k1, if_false]
      rw [sp_mul_left, sp_mul_right, sp_mul_right, H _ _ hbn ha2, H _ _ hbn hk, H _ _ han ha2, H _ _ han hk]
      have e1 : decide (k + t.n + t.n = a ∨ a + t.n = k + t.n) = false := decide_eq_false (by omega)
      have e2 : decide (k + t.n + t.n = k ∨ k + t.n = k + t.n) = true := decide_eq_true (by omega)
      have e3 : decide (a + t.n + t.n = a ∨ a + t.n = a + t.n) = true := decide_eq_true (by omega)
      have e4 : decide (a + t.n + t.n = k ∨ k + t.n = a + t.n) = false := decide_eq_false (by omega)
      rw [e1, e2, e3, e4]
      simp
    · subst i1
      simp only [if_true, k1, k2, if_false]
      rw [sp_mul_left, H _ _ hbn hk, H _ _ han hk]
      have e1 : decide (b + t.n + t.n = k ∨ k + t.n = b + t.n) = false := decide_eq_false (by omega)
      rw [e1]; simp
  · by_cases i2 : i = b
    · subst k1; subst i2
      simp only [if_true, i1, if_false]
      rw [sp_mul_left, sp_mul_right, sp_mul_right, H _ _ ha2 hbn, H _ _ ha2 han, H _ _ hi hbn, H _ _ hi han]
      have e1 : decide (a + t.n = i + t.n ∨ i + t.n + t.n = a) = false := decide_eq_false (by omega)
      have e2 : decide (a + t.n = a + t.n ∨ a + t.n + t.n = a) = true := decide_eq_true (by omega)
      have e3 : decide (i + t.n = i + t.n ∨ i + t.n + t.n = i) = true := decide_eq_true (by omega)
      have e4 : decide (i + t.n = a + t.n ∨ a + t.n + t.n = i) = false := decide_eq_false (by omega)
      rw [e1, e2, e3, e4]
      simp
    · subst k1
      simp only [if_true, i1, i2, if_false]
      rw [sp_mul_right, H _ _ hi hbn, H _ _ hi han]
      have e1 : decide (i + t.n = b + t.n ∨ b + t.n + t.n = i) = false := decide_eq_false (by omega)
      rw [e1]; simp
  · simp only [i1, k1, if_false]
    by_cases i2 : i = b <;> by_cases k2 : k = b
    · subst i2; subst k2
      simp only [if_true]
      rw [sp_self]; exact (decide_eq_false (by omega)).symm
    · subst i2
      simp only [if_true, k2, if_false]
      rw [sp_mul_left, H _ _ ha2 hk, H _ _ hi hk]
      have e1 : decide (a + t.n = k ∨ k + t.n = a) = false := decide_eq_false (by omega)
      rw [e1]; simp
    · subst k2
      simp only [if_true, i2, if_false]
      rw [sp_mul_right, H _ _ hi ha2, H _ _ hi hk]
      have e1 : decide (i + t.n = a ∨ a + t.n = i) = false := decide_eq_false (by omega)
      rw [e1]; simp
    · simp only [i2, k2, if_false]
      exact H i k hi hk

/-- invariant of the destabilizer-combining loop of the deterministic branch of `remove_qubit` -/
structure CombInv (n q om : Nat) (rem : List Nat) (acc : Tab) : Prop where
  valid : acc.Valid
  n_eq : acc.n = n
  xom : (acc.row om).x q = true
  xoth : ∀ i, i < 2 * n → i ≠ om → i ∉ rem → (acc.row i).x q = false
  xrem : ∀ i, i ∈ rem → (acc.row i).x q = true

theorem comb_fold (n q om : Nat) (hom : om < n) (rest : List Nat) (hlt : ∀ i, i ∈ rest → i < n) (hne : ∀ i, i ∈ rest → i ≠ om)
    (hnd : rest.Nodup) (acc : Tab) (h : CombInv n q om rest acc) :
    CombInv n q om [] (rest.foldl (fun acc row => (acc.rowSum om row).rowSum (row + n) (om + n)) acc) := by
  induction rest generalizing acc with
  | nil => exact h
  | cons r tl ih =>
    simp only [List.foldl]
    have hr : r < n := hlt r List.mem_cons_self
    have hro : r ≠ om := hne r List.mem_cons_self
    have hrt : r ∉ tl := (List.nodup_cons.mp hnd).1
    apply ih (fun i hi => hlt i (List.mem_cons_of_mem _ hi)) (fun i hi => hne i (List.mem_cons_of_mem _ hi))
      (List.nodup_cons.mp hnd).2
    have hn := h.n_eq
    have e : (acc.rowSum om r).rowSum (r + n) (om + n) = acc.pairSum om r := by
      unfold pairSum; rw [hn]
    rw [e]
    have row := pairSum_row acc om r (Ne.symm hro) (hn ▸ hom) (hn ▸ hr)
    refine ⟨pairSum_valid acc om r (Ne.symm hro) (hn ▸ hom) (hn ▸ hr) h.valid, hn, ?_, ?_, ?_⟩
    · rw [row om]
      have h1 : om ≠ om + acc.n := by omega
      have h0 : acc.n ≠ 0 := by omega
      simp [h1, h0, Ne.symm hro, h.xom]
    · intro i hi hio hit
      rw [row i, hn]
      by_cases e1 : i = om + n
      · simp only [e1, if_true, mul_x]
        have a1 := h.xoth (r + n) (by omega) (by omega) (by
          intro hm; have := hlt (r + n) hm; omega)
        have a2 := h.xoth (om + n) (by omega) (by omega) (by
          intro hm; have := hlt (om + n) hm; omega)
        simp [a1, a2]
      · by_cases e2 : i = r
        · subst e2
          simp only [e1, if_false, if_true, mul_x]
          have a1 := h.xom
          have a2 := h.xrem i List.mem_cons_self
          rw [a1, a2]; rfl
        · simp only [e1, e2, if_false]
          exact h.xoth i hi hio (by
            intro hm
            rcases List.mem_cons.mp hm with hm | hm
            · exact e2 hm
            · exact hit hm)
    · intro i hi
      rw [row i, hn]
      have hin : i < n := hlt i (List.mem_cons_of_mem _ hi)
      have e1 : i ≠ om + n := by omega
      have e2 : i ≠ r := fun he => hrt (he ▸ hi)
      simp only [e1, e2, if_false]
      exact h.xrem i (List.mem_cons_of_mem _ hi)

theorem findFrom_none (lo hi : Nat) (f : Nat → Bool) (h : findFrom lo hi f = none) (i : Nat) (h1 : lo ≤ i) (h2 : i < hi) :
    f i = false := by
  unfold findFrom at h
  cases hl : (List.range hi).filter (fun i => decide (lo ≤ i) && f i) with
  | nil =>
    cases hf : f i
    · rfl
    · have : i ∈ (List.range hi).filter (fun i => decide (lo ≤ i) && f i) := by
        simp only [List.mem_filter, List.mem_range, Bool.and_eq_true, decide_eq_true_eq]
        exact ⟨h2, h1, hf⟩
      rw [hl] at this; cases this
  | cons a l => rw [hl] at h; simp at h

/-- **`remove_qubit` keeps the tableau valid** (every n ≥ 1, every qubit, every outcome, all three internal cases) -/
theorem removeQubit_valid (t t' : Tab) (q : Nat) (o : Bool) (hq : q < t.n) (hv : t.Valid)
    (h : t.removeQubit q o = .ok t') : t'.Valid := by
  unfold removeQubit at h
  simp only at h
  cases hp : t.pivot q with
  | some p =>
    obtain ⟨p1, p2, p3⟩ := pivot_spec t q p hp
    have hpz : p ≠ 0 := by omega
    simp only [zMeasure, hp, hpz, ne_eq, not_false_eq_true, if_true] at h
    injection h with h
    rw [← h]
    have v1 := measRandom_valid t q p o hv hq p1 p2 p3
    exact dropQubit_valid (t.measRandom q p o) q p v1 hq p1 p2
      (fun i _ hip => measRandom_x t q p o p3 i hip)
  | none =>
    simp only [zMeasure, hp, ne_eq, not_true_eq_false, if_false] at h
    cases hf : filterTo t.n (fun i => (t.row i).x q) with
    | nil => rw [hf] at h; simp at h
    | cons om rest =>
      rw [hf] at h
      simp only at h
      injection h with h
      rw [← h]
      -- facts about the filtered list
      have hmem : ∀ i, i ∈ om :: rest → i < t.n ∧ (t.row i).x q = true := by
        intro i hi
        rw [← hf] at hi
        simp only [filterTo, List.mem_filter, List.mem_range] at hi
        exact hi
      have hnd : (om :: rest).Nodup := by
        rw [← hf]; unfold filterTo
        exact List.Nodup.sublist List.filter_sublist List.nodup_range
      have hom := hmem om List.mem_cons_self
      have hstab : ∀ i, t.n ≤ i → i < 2 * t.n → (t.row i).x q = false :=
        fun i h1 h2 => findFrom_none _ _ _ hp i h1 h2
      have inv0 : CombInv t.n q om rest t := by
        refine ⟨hv, rfl, hom.2, ?_, fun i hi => (hmem i (List.mem_cons_of_mem _ hi)).2⟩
        intro i hi hio hir
        by_cases hin : i < t.n
        · cases hx : (t.row i).x q
          · rfl
          · exfalso
            have : i ∈ om :: rest := by
              rw [← hf]; simp only [filterTo, List.mem_filter, List.mem_range]; exact ⟨hin, hx⟩
            rcases List.mem_cons.mp this with e | e
            · exact hio e
            · exact hir e
        · exact hstab i (by omega) hi
      have inv := comb_fold t.n q om hom.1 rest (fun i hi => (hmem i (List.mem_cons_of_mem _ hi)).1)
        (fun i hi he => (List.nodup_cons.mp hnd).1 (he ▸ hi)) (List.nodup_cons.mp hnd).2 t inv0
      generalize rest.foldl (fun acc row => (acc.rowSum om row).rowSum (row + t.n) (om + t.n)) t = t2 at inv ⊢
      have hn2 := inv.n_eq
      have key := dropQubit_valid t2 q (om + t.n) inv.valid (hn2 ▸ hq) (by omega) (by omega)
        (fun i hi hio => inv.xoth i (hn2 ▸ hi) (by omega) (by simp))
      simp only [hn2] at key ⊢
      exact key

theorem removeQubit?_valid (t t' : Tab) (q : Nat) (o : Bool) (hv : t.Valid) (h : t.removeQubit? q o = .ok t') : t'.Valid := by
  unfold removeQubit? at h
  split at h
  · next hq => exact removeQubit_valid t t' q o hq hv h
  · cases h

theorem tnorm_row (t : Tab) (i : Nat) (hi : i < 2 * t.n) : EqOn t.n (t.norm.row i) (t.row i) := by
  have : t.norm.row i = (t.row i).norm t.n := by
    simp [Tab.norm, Tab.lookupRow, Array.getD, hi]
  rw [this]
  refine ⟨fun j hj => ?_, rfl, rfl⟩
  simp only [PRow.norm]
  constructor <;> (unfold lookup1; simp [Array.getD, hj])

theorem tnorm_valid (t : Tab) (hv : t.Valid) : t.norm.Valid := by
  intro i k hi hk
  have hn : t.norm.n = t.n := rfl
  rw [hn] at hi hk ⊢
  rw [sp_eqOn _ _ _ _ _ (tnorm_row t i hi) (tnorm_row t k hk)]
  exact hv i k hi hk

theorem partialTrace_go_valid (rem : List Nat) (t t' : Tab) (os : List Bool) (hv : t.Valid)
    (h : partialTrace.go t rem os = .ok t') : t'.Valid := by
  induction rem generalizing t os with
  | nil => simp [partialTrace.go] at h; rw [← h]; exact hv
  | cons q rest ih =>
    simp only [partialTrace.go] at h
    cases hr : t.removeQubit? q (os.headD false) with
    | error e => rw [hr] at h; simp at h
    | ok t1 =>
      rw [hr] at h
      simp only at h
      exact ih t1.norm _ (tnorm_valid t1 (removeQubit?_valid t t1 q _ hv hr)) h

/-- **`partial_trace` keeps the tableau valid** -/
theorem partialTrace_valid (t t' : Tab) (keep : List Nat) (os : List Bool) (hv : t.Valid)
    (h : t.partialTrace keep os = .ok t') : t'.Valid := by
  unfold partialTrace at h
  exact partialTrace_go_valid _ t t' os hv h

end Tab
end Graphiq
