/-
  Proofs/Tableau.lean — invariants of the Clifford-tableau model, for every size and every history.
-/
import GraphiqModel.Model.Tableau
import GraphiqModel.Proofs.Pauli
namespace Graphiq
open PRow

namespace Tab

/-- the tableau invariant ("symplectic, every destabilizer paired to its stabilizer"):
    rows `i`, `k` anticommute iff they are a destabilizer/stabilizer pair -/
def Valid (t : Tab) : Prop :=
  ∀ i k, i < 2 * t.n → k < 2 * t.n → sp t.n (t.row i) (t.row k) = decide (i + t.n = k ∨ k + t.n = i)

/-- stabilizer rows have no imaginary phase -/
def StabReal (t : Tab) : Prop := ∀ i, t.n ≤ i → i < 2 * t.n → (t.row i).ip = false

theorem isSymplectic_iff (t : Tab) : t.isSymplectic = true ↔ t.Valid := by
  unfold isSymplectic Valid
  simp only [List.all_eq_true, List.mem_range, beq_iff_eq]
  constructor
  · intro h i k hi hk; exact h i hi k hk
  · intro h i hi k hk; exact h i k hi hk

/-! ### gates -/

theorem map_valid (t : Tab) (f : PRow → PRow) (hf : IsAut t.n f) (hv : t.Valid) : (t.map f).Valid := by
  intro i k hi hk
  show sp t.n (f (t.row i)) (f (t.row k)) = _
  rw [hf.sp]; exact hv i k hi hk

theorem hGate_valid (t : Tab) (q : Nat) (hq : q < t.n) (hv : t.Valid) : (t.hGate q).Valid :=
  map_valid t _ (isAut_h t.n q hq) hv
theorem sGate_valid (t : Tab) (q : Nat) (hq : q < t.n) (hv : t.Valid) : (t.sGate q).Valid :=
  map_valid t _ (isAut_s t.n q hq) hv
theorem sdgGate_valid (t : Tab) (q : Nat) (hq : q < t.n) (hv : t.Valid) : (t.sdgGate q).Valid :=
  map_valid t _ (isAut_sdg t.n q hq) hv
theorem xGate_valid (t : Tab) (q : Nat) (hq : q < t.n) (hv : t.Valid) : (t.xGate q).Valid :=
  map_valid t _ (isAut_xg t.n q hq) hv
theorem yGate_valid (t : Tab) (q : Nat) (hq : q < t.n) (hv : t.Valid) : (t.yGate q).Valid :=
  map_valid t _ (isAut_yg t.n q hq) hv
theorem zGate_valid (t : Tab) (q : Nat) (hq : q < t.n) (hv : t.Valid) : (t.zGate q).Valid :=
  map_valid t _ (isAut_zg t.n q hq) hv
theorem cnotGate_valid (t : Tab) (c tg : Nat) (hc : c < t.n) (ht : tg < t.n) (hct : c ≠ tg) (hv : t.Valid) :
    (t.cnotGate c tg).Valid :=
  map_valid t _ (isAut_cnot t.n c tg hc ht hct) hv
theorem czGate_valid (t : Tab) (c tg : Nat) (hc : c < t.n) (ht : tg < t.n) (hct : c ≠ tg) (hv : t.Valid) :
    (t.czGate c tg).Valid :=
  map_valid t _ (isAut_cz t.n c tg hc ht hct) hv

/-! ### measurement, random branch -/

theorem findFrom_spec (lo hi : Nat) (f : Nat → Bool) (p : Nat) (h : findFrom lo hi f = some p) :
    lo ≤ p ∧ p < hi ∧ f p = true := by
  unfold findFrom at h
  have hm : p ∈ (List.range hi).filter (fun i => decide (lo ≤ i) && f i) := List.mem_of_mem_head? h
  simp only [List.mem_filter, List.mem_range, Bool.and_eq_true, decide_eq_true_eq] at hm
  exact ⟨hm.2.1, hm.1, hm.2.2⟩

theorem pivot_spec (t : Tab) (q p : Nat) (h : t.pivot q = some p) :
    t.n ≤ p ∧ p < 2 * t.n ∧ (t.row p).x q = true := findFrom_spec _ _ _ p h

/-- multiplying by the pivot `g` whenever a row has an X on `q` -/
def addIf (n : Nat) (c : Bool) (g a : PRow) : PRow := if c then PRow.mul n g a else a

theorem meas_pair (n : Nat) (g t1 t2 : PRow) (a1 a2 : Bool)
    (h1 : sp n t1 g = false) (h2 : sp n t2 g = false) :
    sp n (addIf n a1 g t1) (addIf n a2 g t2) = sp n t1 t2 := by
  have h1' : sp n g t1 = false := by rw [sp_comm]; exact h1
  have h2' : sp n g t2 = false := by rw [sp_comm]; exact h2
  cases a1 <;> cases a2 <;>
    simp [addIf, sp_mul_left, sp_mul_right, sp_self, h1, h2, h1', h2']

theorem meas_commZ (n q : Nat) (g t : PRow) (s : Bool) (hq : q < n) (hg : g.x q = true) :
    sp n (addIf n (t.x q) g t) (Zq q s) = false := by
  rw [sp_Zq n q _ s hq]
  unfold addIf
  cases h : t.x q <;> simp [h, hg]

theorem meas_commG (n : Nat) (g t : PRow) (a : Bool) (h : sp n t g = false) :
    sp n (addIf n a g t) g = false := by
  cases a <;> simp [addIf, sp_mul_left, sp_self, h]

/-- symplectic data of the rows of `measRandom` -/
theorem mr_row_p (t : Tab) (q p : Nat) (o : Bool) :
    SameBits t.n ((t.measRandom q p o).row p) (Zq q) := by
  intro j _; simp [measRandom, Zq]

theorem mr_row_d (t : Tab) (q p i : Nat) (o : Bool) (h1 : i ≠ p) (h2 : i + t.n = p) :
    SameBits t.n ((t.measRandom q p o).row i) (t.row p) := by
  intro j _; simp [measRandom, h1, h2]

theorem mr_row_o (t : Tab) (q p i : Nat) (o : Bool) (h1 : i ≠ p) (h2 : i + t.n ≠ p) :
    (t.measRandom q p o).row i = addIf t.n ((t.row i).x q) (t.row p) (t.row i) := by
  simp only [measRandom, h1, h2, if_false, addIf]
  by_cases hx : (t.row i).x q = true <;> simp [hx, h1]

theorem sameBits_refl (n : Nat) (a : PRow) : SameBits n a a := fun _ _ => ⟨rfl, rfl⟩

theorem measRandom_valid (t : Tab) (q p : Nat) (o : Bool)
    (hv : t.Valid) (hq : q < t.n) (hp1 : t.n ≤ p) (hp2 : p < 2 * t.n)
    (hx : (t.row p).x q = true) : (t.measRandom q p o).Valid := by
  intro i k hi hk
  have hn : (t.measRandom q p o).n = t.n := rfl
  rw [hn] at hi hk ⊢
  have hg : ∀ j, j < 2 * t.n → j + t.n ≠ p → j ≠ p → sp t.n (t.row j) (t.row p) = false := by
    intro j hj h1 h2
    rw [hv j p hj hp2]
    exact decide_eq_false (by omega)
  have R := sameBits_refl t.n
  by_cases hip : i = p
  · by_cases hkp : k = p
    · subst hip; subst hkp; rw [sp_self]
      exact (decide_eq_false (by omega)).symm
    · by_cases hkd : k + t.n = p
      · subst hip
        rw [sp_congr _ _ _ _ _ (mr_row_p t q i o) (mr_row_d t q i k o hkp hkd), sp_comm, sp_Zq _ _ _ _ hq, hx]
        exact (decide_eq_true (by omega)).symm
      · subst hip
        rw [sp_congr _ _ _ _ _ (mr_row_p t q i o) (R _), mr_row_o t q i k o hkp hkd, sp_comm,
            meas_commZ t.n q (t.row i) (t.row k) false hq hx]
        exact (decide_eq_false (by omega)).symm
  · by_cases hid : i + t.n = p
    · by_cases hkp : k = p
      · subst hkp
        rw [sp_congr _ _ _ _ _ (mr_row_d t q k i o hip hid) (mr_row_p t q k o), sp_Zq _ _ _ _ hq, hx]
        exact (decide_eq_true (by omega)).symm
      · by_cases hkd : k + t.n = p
        · rw [sp_congr _ _ _ _ _ (mr_row_d t q p i o hip hid) (mr_row_d t q p k o hkp hkd), sp_self]
          exact (decide_eq_false (by omega)).symm
        · rw [sp_congr _ _ _ _ _ (mr_row_d t q p i o hip hid) (R _), mr_row_o t q p k o hkp hkd, sp_comm,
              meas_commG t.n (t.row p) (t.row k) _ (hg k hk hkd hkp)]
          exact (decide_eq_false (by omega)).symm
    · by_cases hkp : k = p
      · subst hkp
        rw [sp_congr _ _ _ _ _ (R _) (mr_row_p t q k o), mr_row_o t q k i o hip hid,
            meas_commZ t.n q (t.row k) (t.row i) false hq hx]
        exact (decide_eq_false (by omega)).symm
      · by_cases hkd : k + t.n = p
        · rw [sp_congr _ _ _ _ _ (R _) (mr_row_d t q p k o hkp hkd), mr_row_o t q p i o hip hid,
              meas_commG t.n (t.row p) (t.row i) _ (hg i hi hid hip)]
          exact (decide_eq_false (by omega)).symm
        · rw [mr_row_o t q p i o hip hid, mr_row_o t q p k o hkp hkd,
              meas_pair t.n (t.row p) (t.row i) (t.row k) _ _ (hg i hi hid hip) (hg k hk hkd hkp)]
          exact hv i k hi hk

theorem zMeasure_n (t : Tab) (q : Nat) (o : Bool) : (t.zMeasure q o).1.n = t.n := by
  unfold zMeasure; split <;> rfl

theorem zMeasure_valid (t : Tab) (q : Nat) (o : Bool) (hq : q < t.n) (hv : t.Valid) :
    (t.zMeasure q o).1.Valid := by
  unfold zMeasure
  split
  · next p hp =>
    obtain ⟨h1, h2, h3⟩ := pivot_spec t q p hp
    exact measRandom_valid t q p o hv hq h1 h2 h3
  · exact hv

/-- changing only the phase bits of a row keeps validity -/
theorem setPhase_valid (t : Tab) (p : Nat) (r ip : Bool) (hv : t.Valid) :
    Valid { t with row := upd t.row p { (t.row p) with r := r, ip := ip } } := by
  intro i k hi hk
  have e : ∀ j, SameBits t.n ((upd t.row p { (t.row p) with r := r, ip := ip }) j) (t.row j) := by
    intro j m _
    unfold upd
    by_cases h : j = p <;> simp [h]
  show sp t.n _ _ = _
  rw [sp_congr _ _ _ _ _ (e i) (e k)]
  exact hv i k hi hk

theorem resetZ_n (t : Tab) (q : Nat) (intended o : Bool) : (t.resetZ q intended o).n = t.n := by
  unfold resetZ
  have := zMeasure_n t q o
  generalize t.zMeasure q o = m at *
  obtain ⟨t1, outcome, p⟩ := m
  simp only at this ⊢
  split
  · exact this
  · split
    · exact this
    · exact this

theorem resetZ_valid (t : Tab) (q : Nat) (intended o : Bool) (hq : q < t.n) (hv : t.Valid) :
    (t.resetZ q intended o).Valid := by
  unfold resetZ
  have hn := zMeasure_n t q o
  have hv1 := zMeasure_valid t q o hq hv
  generalize t.zMeasure q o = m at *
  obtain ⟨t1, outcome, p⟩ := m
  simp only at hn hv1 ⊢
  split
  · exact setPhase_valid t1 p intended false hv1
  · split
    · exact hv1
    · exact xGate_valid t1 q (by omega) hv1

theorem resetX_valid (t : Tab) (q : Nat) (intended o : Bool) (hq : q < t.n) (hv : t.Valid) :
    (t.resetX q intended o).Valid :=
  hGate_valid _ q (by rw [resetZ_n]; exact hq) (resetZ_valid t q intended o hq hv)

theorem resetY_valid (t : Tab) (q : Nat) (intended o : Bool) (hq : q < t.n) (hv : t.Valid) :
    (t.resetY q intended o).Valid :=
  sGate_valid _ q (by show q < ((t.resetZ q intended o).hGate q).n; exact (resetZ_n t q intended o) ▸ hq)
    (hGate_valid _ q (by rw [resetZ_n]; exact hq) (resetZ_valid t q intended o hq hv))

/-! ### initial states -/

theorem ket0_valid (n : Nat) : (ket0 n).Valid := by
  intro i k hi hk
  simp only [ket0] at hi hk ⊢
  by_cases h1 : i < n <;> by_cases h2 : k < n <;> simp only [h1, h2, if_true, if_false]
  · rw [sp_Xq n k _ false h2]
    show false = _
    exact (decide_eq_false (by omega)).symm
  · rw [sp_Zq n (k - n) _ false (by omega)]
    show decide (k - n = i) = _
    by_cases e : k - n = i
    · rw [decide_eq_true e]; exact (decide_eq_true (by omega)).symm
    · rw [decide_eq_false e]; exact (decide_eq_false (by omega)).symm
  · rw [sp_Xq n k _ false h2]
    show decide (k = i - n) = _
    by_cases e : k = i - n
    · rw [decide_eq_true e]; exact (decide_eq_true (by omega)).symm
    · rw [decide_eq_false e]; exact (decide_eq_false (by omega)).symm
  · rw [sp_Zq n (k - n) _ false (by omega)]
    show false = _
    exact (decide_eq_false (by omega)).symm

/-! ### swap -/

theorem sp_swap (n a b : Nat) (ha : a < n) (hb : b < n) (u v : PRow) :
    sp n (PRow.swap a b u) (PRow.swap a b v) = sp n u v := by
  unfold sp
  rw [← parityTo_swap n a b (fun j => xor (u.x j && v.z j) (u.z j && v.x j)) ha hb]
  apply parityTo_congr
  intro j _
  simp only [PRow.swap]
  by_cases h1 : j = a
  · simp [h1]
  · by_cases h2 : j = b
    · subst h2
      have hba : ¬ (j = a) := h1
      simp [hba]
    · simp [h1, h2]

theorem swapGate_valid (t : Tab) (a b : Nat) (ha : a < t.n) (hb : b < t.n) (hv : t.Valid) : (t.swapGate a b).Valid := by
  intro i k hi hk
  show sp t.n (PRow.swap a b (t.row i)) (PRow.swap a b (t.row k)) = _
  rw [sp_swap t.n a b ha hb]; exact hv i k hi hk

/-! ### qubit insertion -/

theorem sp_insertCol (n p : Nat) (hp : p ≤ n) (u v : PRow) :
    sp (n + 1) (u.insertCol p) (v.insertCol p) = sp n u v := by
  unfold sp
  rw [← parityTo_insert n p (fun j => xor (u.x j && v.z j) (u.z j && v.x j)) hp]
  apply parityTo_congr
  intro j _
  simp only [PRow.insertCol]
  by_cases h1 : j < p
  · simp [h1]
  · by_cases h2 : j = p
    · simp [h2]
    · simp [h1, h2]

theorem sp_insertCol_Xq (n p : Nat) (hp : p ≤ n) (u : PRow) : sp (n + 1) (u.insertCol p) (Xq p) = false := by
  rw [sp_Xq (n + 1) p _ false (by omega)]; simp [PRow.insertCol]
theorem sp_insertCol_Zq (n p : Nat) (hp : p ≤ n) (u : PRow) : sp (n + 1) (u.insertCol p) (Zq p) = false := by
  rw [sp_Zq (n + 1) p _ false (by omega)]; simp [PRow.insertCol]

/-- index of the old row behind a new row of `insertQubit` (for rows that are not the two new ones) -/
def insSrc (n p i : Nat) : Nat :=
  if i < n + 1 then (if i < p then i else i - 1)
  else (if i - (n + 1) < p then n + (i - (n + 1)) else n + (i - (n + 1)) - 1)

theorem insertQubit_row_old (t : Tab) (p i : Nat) (h1 : i ≠ p) (h2 : i ≠ t.n + 1 + p) :
    (t.insertQubit p).row i = (t.row (insSrc t.n p i)).insertCol p := by
  unfold insertQubit insSrc
  by_cases a : i < t.n + 1
  · by_cases b : i < p
    · simp [a, b]
    · simp [a, b, h1]
  · have c : i - (t.n + 1) ≠ p := by omega
    by_cases b : i - (t.n + 1) < p
    · simp [a, b]
    · simp [a, b, c]

theorem insertQubit_row_p (t : Tab) (p : Nat) (hp : p ≤ t.n) : (t.insertQubit p).row p = Xq p := by
  unfold insertQubit
  have : p < t.n + 1 := by omega
  simp [this]

theorem insertQubit_row_np (t : Tab) (p : Nat) : (t.insertQubit p).row (t.n + 1 + p) = Zq p := by
  unfold insertQubit
  have : ¬ (t.n + 1 + p < t.n + 1) := by omega
  simp [this]

theorem insertQubit_valid (t : Tab) (p : Nat) (hp : p ≤ t.n) (hv : t.Valid) : (t.insertQubit p).Valid := by
  intro i k hi hk
  have hn : (t.insertQubit p).n = t.n + 1 := rfl
  rw [hn] at hi hk ⊢
  by_cases ip : i = p
  · by_cases kp : k = p
    · subst ip; subst kp; rw [sp_self]; exact (decide_eq_false (by omega)).symm
    · by_cases kn : k = t.n + 1 + p
      · subst ip; subst kn
        rw [insertQubit_row_p t i hp, insertQubit_row_np, sp_Zq _ _ _ _ (by omega)]
        simp [Xq]; omega
      · subst ip
        rw [insertQubit_row_p t i hp, insertQubit_row_old t i k kp kn, sp_comm, sp_insertCol_Xq _ _ hp]
        exact (decide_eq_false (by omega)).symm
  · by_cases inn : i = t.n + 1 + p
    · by_cases kp : k = p
      · subst inn; subst kp
        rw [insertQubit_row_p t k hp, insertQubit_row_np, sp_Xq _ _ _ _ (by omega)]
        simp [Zq]; omega
      · by_cases kn : k = t.n + 1 + p
        · subst inn; subst kn; rw [sp_self]; exact (decide_eq_false (by omega)).symm
        · subst inn
          rw [insertQubit_row_np, insertQubit_row_old t p k kp kn, sp_comm, sp_insertCol_Zq _ _ hp]
          exact (decide_eq_false (by omega)).symm
    · by_cases kp : k = p
      · subst kp
        rw [insertQubit_row_p t k hp, insertQubit_row_old t k i ip inn, sp_insertCol_Xq _ _ hp]
        exact (decide_eq_false (by omega)).symm
      · by_cases kn : k = t.n + 1 + p
        · subst kn
          rw [insertQubit_row_np, insertQubit_row_old t p i ip inn, sp_insertCol_Zq _ _ hp]
          exact (decide_eq_false (by omega)).symm
        · rw [insertQubit_row_old t p i ip inn, insertQubit_row_old t p k kp kn, sp_insertCol _ _ hp]
          have hi' : insSrc t.n p i < 2 * t.n := by unfold insSrc; split <;> split <;> omega
          have hk' : insSrc t.n p k < 2 * t.n := by unfold insSrc; split <;> split <;> omega
          rw [hv _ _ hi' hk']
          unfold insSrc
          by_cases a : i < t.n + 1 <;> by_cases b : k < t.n + 1 <;> simp only [a, b, if_true, if_false]
          · split <;> split <;> (apply decide_eq_decide.mpr; omega)
          · split <;> split <;> (apply decide_eq_decide.mpr; omega)
          · split <;> split <;> (apply decide_eq_decide.mpr; omega)
          · split <;> split <;> (apply decide_eq_decide.mpr; omega)

theorem addQubit_valid (t : Tab) (hv : t.Valid) : t.addQubit.Valid :=
  insertQubit_valid t t.n (Nat.le_refl _) hv

/-! ### the stabilizer group as a span, and what a measurement does to it -/

/-- membership in the group generated (under the signed product) by the rows `gens i`, `i < m` -/
inductive InSpan (n m : Nat) (gens : Nat → PRow) : PRow → Prop
  | one : InSpan n m gens PRow.one
  | gen (i : Nat) (h : i < m) : InSpan n m gens (gens i)
  | mul (a b : PRow) : InSpan n m gens a → InSpan n m gens b → InSpan n m gens (PRow.mul n a b)
  | eqv (a b : PRow) : InSpan n m gens a → EqOn n a b → InSpan n m gens b

/-- the stabilizer generators of a tableau -/
def stab (t : Tab) : Nat → PRow := fun i => t.row (i + t.n)

theorem foldl_inSpan (t : Tab) (l : List Nat) (acc : PRow) (hl : ∀ d ∈ l, d < t.n)
    (hacc : InSpan t.n t.n t.stab acc) :
    InSpan t.n t.n t.stab (l.foldl (fun acc d => PRow.mul t.n (t.row (d + t.n)) acc) acc) := by
  induction l generalizing acc with
  | nil => exact hacc
  | cons d rest ih =>
    simp only [List.foldl]
    apply ih
    · intro e he; exact hl e (List.mem_cons_of_mem _ he)
    · exact InSpan.mul _ _ (InSpan.gen d (hl d (List.mem_cons_self))) hacc

/-- the scratch row of a deterministic measurement is a product of stabilizer generators -/
theorem measScratch_inSpan (t : Tab) (q : Nat) : InSpan t.n t.n t.stab (t.measScratch q) := by
  unfold measScratch
  apply foldl_inSpan
  · intro d hd
    simp only [filterTo, List.mem_filter, List.mem_range] at hd
    exact hd.1
  · exact InSpan.one

/-- random branch: every new stabilizer generator other than the pivot is an old one or the product of the pivot
    with an old one, i.e. lies in the old stabilizer group -/
theorem measRandom_stab_inSpan (t : Tab) (q p : Nat) (o : Bool) (hp1 : t.n ≤ p) (hp2 : p < 2 * t.n)
    (i : Nat) (hi : i < t.n) (hip : i + t.n ≠ p) :
    InSpan t.n t.n t.stab ((t.measRandom q p o).stab i) := by
  show InSpan t.n t.n t.stab ((t.measRandom q p o).row (i + t.n))
  have h2 : i + t.n + t.n ≠ p := by omega
  rw [mr_row_o t q p (i + t.n) o hip h2]
  unfold addIf
  have gi : InSpan t.n t.n t.stab (t.row (i + t.n)) := InSpan.gen i hi
  have gp : InSpan t.n t.n t.stab (t.row p) := by
    have : t.row p = t.stab (p - t.n) := by unfold stab; congr 1; omega
    rw [this]; exact InSpan.gen (p - t.n) (by omega)
  split
  · exact InSpan.mul _ _ gp gi
  · exact gi

/-- random branch: the pivot row becomes `(-1)^outcome Z_q` -/
theorem measRandom_pivot_row (t : Tab) (q p : Nat) (o : Bool) :
    SameBits t.n ((t.measRandom q p o).row p) (Zq q) ∧ ((t.measRandom q p o).row p).r = o := by
  refine ⟨mr_row_p t q p o, ?_⟩
  simp [measRandom]

/-- random branch: every new stabilizer generator commutes with `Z_q` (the post-measurement state is a `Z_q` eigenstate) -/
theorem measRandom_commutes_Zq (t : Tab) (q p : Nat) (o : Bool) (hv : t.Valid) (hq : q < t.n)
    (hp1 : t.n ≤ p) (hp2 : p < 2 * t.n) (hx : (t.row p).x q = true) (i : Nat) (hi : i < t.n) :
    ((t.measRandom q p o).stab i).x q = false := by
  have hv' := measRandom_valid t q p o hv hq hp1 hp2 hx
  have e := hv' (i + t.n) p (by show i + t.n < 2 * t.n; omega) hp2
  have hn : (t.measRandom q p o).n = t.n := rfl
  rw [hn] at e
  rw [sp_congr _ _ _ _ _ (sameBits_refl _ _) (mr_row_p t q p o), sp_Zq _ _ _ _ hq] at e
  show ((t.measRandom q p o).row (i + t.n)).x q = false
  rw [e]; exact decide_eq_false (by omega)

end Tab
end Graphiq
