/-
  Proofs/EchelonTotal.lean — the internal assertions of `_process_two_pauli` / `one_step_rref` never fire and the loop of `rref`
  never fails: `rrefLoop` always returns (only the final rank assertion of `rref` can fail).  All sizes; core Lean only.
-/
import GraphiqModel.Proofs.EchelonRref
namespace Graphiq
open PRow
namespace STab

theorem sorted_head_eq {a : Nat} {l : List Nat} (hs : (a :: l).Pairwise (· < ·)) (p : Nat) (hp : p ∈ a :: l)
    (hmin : ∀ x, x ∈ a :: l → p ≤ x) : a = p := by
  have h1 := hmin a List.mem_cons_self
  rcases List.mem_cons.1 hp with e | e
  · exact e.symm
  · have := sorted_head_lt hs p e; omega

theorem pickType_ne_nil (t : STab) (pr pc ty g : Nat) (hg : pr ≤ g) (hgn : g < t.n) (hty : t.ptype g pc = tyCode ty) :
    t.pickType pr pc ty ≠ [] := by
  intro e
  have := (mem_pickType_iff t pr pc ty g).2 ⟨hg, hgn, hty⟩
  rw [e] at this; cases this

theorem pickType_head (t : STab) (pr pc ty : Nat) (h : pr < t.n) (hty : t.ptype pr pc = tyCode ty) :
    ∃ l, t.pickType pr pc ty = pr :: l := by
  have hm := (mem_pickType_iff t pr pc ty pr).2 ⟨Nat.le_refl _, h, hty⟩
  cases e : t.pickType pr pc ty with
  | nil => rw [e] at hm; cases hm
  | cons a l =>
    have hs : (a :: l).Pairwise (· < ·) := e ▸ pickType_sorted t pr pc ty
    have : a = pr := sorted_head_eq hs pr (e ▸ hm) (fun x hx => ((mem_pickType_iff t pr pc ty x).1 (e ▸ hx)).1)
    exact ⟨l, by rw [this]⟩

theorem pickType_head_succ (t : STab) (pr pc ty : Nat) (h : pr + 1 < t.n) (hty : t.ptype (pr + 1) pc = tyCode ty)
    (hpr : t.ptype pr pc ≠ tyCode ty) : ∃ l, t.pickType pr pc ty = (pr + 1) :: l := by
  have hm := (mem_pickType_iff t pr pc ty (pr + 1)).2 ⟨by omega, h, hty⟩
  cases e : t.pickType pr pc ty with
  | nil => rw [e] at hm; cases hm
  | cons a l =>
    have hs : (a :: l).Pairwise (· < ·) := e ▸ pickType_sorted t pr pc ty
    have : a = pr + 1 := by
      apply sorted_head_eq hs (pr + 1) (e ▸ hm)
      intro x hx
      have hx' := (mem_pickType_iff t pr pc ty x).1 (e ▸ hx)
      have : x ≠ pr := fun e' => hpr (e' ▸ hx'.2.2)
      omega
    exact ⟨l, by rw [this]⟩

/-- **the assertion inside `_process_two_pauli` never fires**: when both Pauli types occur at or below the pivot row, the function
    returns (and row `pr + 1` exists) -/
theorem processTwo_some (t : STab) (pr pc ty1 ty2 : Nat) (hpc : pc < t.n) (hne : tyCode ty1 ≠ tyCode ty2)
    (h1 : t.pickType pr pc ty1 ≠ []) (h2 : t.pickType pr pc ty2 ≠ []) : ∃ t', t.processTwo pr pc ty1 ty2 = some t' := by
  cases e1 : t.pickType pr pc ty1 with
  | nil => exact absurd e1 h1
  | cons f1 r1 =>
    have m1 := (mem_pickType_iff t pr pc ty1 f1).1 (by rw [e1]; exact List.mem_cons_self)
    have hprn : pr < t.n := by omega
    -- a row of the second type
    have hex : ∃ g, g ∈ t.pickType pr pc ty2 := by
      cases e : t.pickType pr pc ty2 with
      | nil => exact absurd e h2
      | cons g r => exact ⟨g, List.mem_cons_self⟩
    obtain ⟨g, hg⟩ := hex
    have mg := (mem_pickType_iff t pr pc ty2 g).1 hg
    have hgf : g ≠ f1 := fun e => hne (by rw [← m1.2.2, ← mg.2.2, e])
    have T1pr : (t.rowSwap pr f1).norm.ptype pr pc = tyCode ty1 := by
      rw [ptype_swap_norm t pr f1 pr pc hprn hpc, if_pos rfl]; exact m1.2.2
    have hne2 : (t.rowSwap pr f1).norm.pickType pr pc ty2 ≠ [] := by
      by_cases hgp : g = pr
      · apply pickType_ne_nil (t.rowSwap pr f1).norm pr pc ty2 f1 m1.1 m1.2.1
        rw [ptype_swap_norm t pr f1 f1 pc m1.2.1 hpc]
        by_cases e : f1 = pr
        · exact absurd (hgp.trans e.symm) hgf
        · rw [if_neg e, if_pos rfl, ← hgp]; exact mg.2.2
      · apply pickType_ne_nil (t.rowSwap pr f1).norm pr pc ty2 g mg.1 mg.2.1
        rw [ptype_swap_norm t pr f1 g pc mg.2.1 hpc, if_neg hgp, if_neg hgf]; exact mg.2.2
    cases e2 : (t.rowSwap pr f1).norm.pickType pr pc ty2 with
    | nil => exact absurd e2 hne2
    | cons f2 r2 =>
      have m2 := (mem_pickType_iff _ pr pc ty2 f2).1 (by rw [e2]; exact List.mem_cons_self)
      have hf2n : f2 < t.n := m2.2.1
      have hf2pr : f2 ≠ pr := fun e => hne (by rw [← T1pr, ← m2.2.2, e])
      have hp1 : pr + 1 < t.n := by omega
      have T2pr : ((t.rowSwap pr f1).norm.rowSwap (pr + 1) f2).norm.ptype pr pc = tyCode ty1 := by
        rw [ptype_swap_norm (t.rowSwap pr f1).norm (pr + 1) f2 pr pc hprn hpc, if_neg (by omega), if_neg (Ne.symm hf2pr)]
        exact T1pr
      have T2pr1 : ((t.rowSwap pr f1).norm.rowSwap (pr + 1) f2).norm.ptype (pr + 1) pc = tyCode ty2 := by
        rw [ptype_swap_norm (t.rowSwap pr f1).norm (pr + 1) f2 (pr + 1) pc hp1 hpc, if_pos rfl]
        exact m2.2.2
      obtain ⟨l1, ea⟩ := pickType_head _ pr pc ty1 (show pr < ((t.rowSwap pr f1).norm.rowSwap (pr + 1) f2).norm.n from hprn) T2pr
      obtain ⟨l2, eb⟩ := pickType_head_succ _ pr pc ty2
        (show pr + 1 < ((t.rowSwap pr f1).norm.rowSwap (pr + 1) f2).norm.n from hp1) T2pr1 (by rw [T2pr]; exact hne)
      unfold processTwo
      rw [e1]
      simp only
      rw [e2]
      simp only [if_pos hp1]
      rw [ea, eb]
      simp

/-- **the assertions inside `one_step_rref` never fire**: it always returns while the pivot is inside the tableau -/
theorem oneStepRref_some (t : STab) (pr pc : Nat) (hpc : pc < t.n) : ∃ r, t.oneStepRref pr pc = some r := by
  unfold oneStepRref
  have ex : (t.pauliTypeFinder pr pc).1 = t.pickType pr pc 1 := (pickType_1 t pr pc).symm
  have ey : (t.pauliTypeFinder pr pc).2.1 = t.pickType pr pc 2 := (pickType_2 t pr pc).symm
  have ez : (t.pauliTypeFinder pr pc).2.2 = t.pickType pr pc 3 := (pickType_3 t pr pc).symm
  generalize hft : t.pauliTypeFinder pr pc = ft at ex ey ez
  obtain ⟨xs, ys, zs⟩ := ft
  simp only at ex ey ez
  subst ex; subst ey; subst ez
  simp only
  by_cases hx : t.pickType pr pc 1 = [] <;> by_cases hy : t.pickType pr pc 2 = [] <;> by_cases hz : t.pickType pr pc 3 = []
  · simp [hx, hy, hz]
  · have hz' : (t.pickType pr pc 3).isEmpty = false := by simpa using hz
    simp [hx, hy, hz']
  · have hy' : (t.pickType pr pc 2).isEmpty = false := by simpa using hy
    simp [hx, hy', hz]
  · have hy' : (t.pickType pr pc 2).isEmpty = false := by simpa using hy
    have hz' : (t.pickType pr pc 3).isEmpty = false := by simpa using hz
    obtain ⟨t', ht'⟩ := processTwo_some t pr pc 2 3 hpc (by decide) hy hz
    simp [hx, hy', hz', ht']
  · have hx' : (t.pickType pr pc 1).isEmpty = false := by simpa using hx
    simp [hx', hy, hz]
  · have hx' : (t.pickType pr pc 1).isEmpty = false := by simpa using hx
    have hz' : (t.pickType pr pc 3).isEmpty = false := by simpa using hz
    obtain ⟨t', ht'⟩ := processTwo_some t pr pc 1 3 hpc (by decide) hx hz
    simp [hx', hy, hz', ht']
  · have hx' : (t.pickType pr pc 1).isEmpty = false := by simpa using hx
    have hy' : (t.pickType pr pc 2).isEmpty = false := by simpa using hy
    obtain ⟨t', ht'⟩ := processTwo_some t pr pc 1 2 hpc (by decide) hx hy
    simp [hx', hy', hz, ht']
  · have hx' : (t.pickType pr pc 1).isEmpty = false := by simpa using hx
    have hy' : (t.pickType pr pc 2).isEmpty = false := by simpa using hy
    have hz' : (t.pickType pr pc 3).isEmpty = false := by simpa using hz
    obtain ⟨t', ht'⟩ := processTwo_some t pr pc 1 3 hpc (by decide) hx hz
    simp [hx', hy', hz', ht']

/-- **the loop of `rref` never fails** -/
theorem rrefLoop_ok (fuel : Nat) (t : STab) (pr pc : Nat) (brs : List String) :
    ∃ r, rrefLoop fuel t pr pc brs = .ok r := by
  induction fuel generalizing t pr pc brs with
  | zero => exact ⟨_, rfl⟩
  | succ fuel ih =>
    simp only [rrefLoop]
    split
    · next hb =>
      obtain ⟨⟨t', pr', pc', b⟩, hs⟩ := oneStepRref_some t pr pc (by omega)
      rw [hs]
      exact ih t' pr' pc' _
    · exact ⟨_, rfl⟩

end STab
end Graphiq
