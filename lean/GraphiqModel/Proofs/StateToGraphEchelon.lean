/-
  Proofs/StateToGraphEchelon.lean — the postcondition of the modelled `row_reduction` (Model/StateToGraph.lean): the X part is left
  in row echelon form (pivot columns strictly increasing, zeros before every pivot, zero rows at the bottom), and what the modelled
  `_position_finder` (the pivot scan of /repo 86ab4f1) returns on an echelon matrix: exactly the columns without a pivot.
  All sizes n ≥ 1.
-/
import GraphiqModel.Proofs.StateToGraphBits
namespace Graphiq
namespace S2G

/-- row echelon form of the X part: rows `0 .. r-1` have their leading 1 in the strictly increasing columns `piv 0 < piv 1 < …`,
    the rows from `r` on are zero -/
structure Ech (m : XZ) (r : Nat) (piv : Nat → Nat) : Prop where
  r_le : r ≤ m.n
  piv_lt : ∀ i, i < r → piv i < m.n
  mono : ∀ i k, i < k → k < r → piv i < piv k
  one : ∀ i, i < r → m.x i (piv i) = true
  before : ∀ i c, i < r → c < piv i → m.x i c = false
  below : ∀ i c, r ≤ i → i < m.n → c < m.n → m.x i c = false

/-- the loop invariant of `row_reduction` at pivot position `(pr, pc)`: rows `< pr` are finished with pivots left of `pc`,
    the rows from `pr` on are zero in the columns `< pc` -/
structure PreEch (m : XZ) (pr pc : Nat) (piv : Nat → Nat) : Prop where
  piv_lt : ∀ i, i < pr → piv i < pc
  mono : ∀ i k, i < k → k < pr → piv i < piv k
  one : ∀ i, i < pr → m.x i (piv i) = true
  before : ∀ i c, i < pr → c < piv i → m.x i c = false
  below : ∀ i c, pr ≤ i → i < m.n → c < pc → m.x i c = false

theorem ech_of_pre (m : XZ) (r : Nat) (piv : Nat → Nat) (h : PreEch m r m.n piv) (hr : r ≤ m.n) : Ech m r piv :=
  ⟨hr, h.piv_lt, h.mono, h.one, h.before, h.below⟩

/-- the column `pc` is empty from row `pr` on: move one column to the right -/
theorem preEch_skip (m : XZ) (pr pc : Nat) (piv : Nat → Nat) (h : PreEch m pr pc piv)
    (h0 : ∀ i, pr ≤ i → i < m.n → m.x i pc = false) : PreEch m pr (pc + 1) piv := by
  refine ⟨fun i hi => Nat.lt_succ_of_lt (h.piv_lt i hi), h.mono, h.one, h.before, fun i c h1 h2 hc => ?_⟩
  by_cases e : c = pc
  · subst e; exact h0 i h1 h2
  · exact h.below i c h1 h2 (by omega)

/-- row `pr` has a 1 in column `pc` and the rows below have not: `(pr, pc)` becomes a pivot -/
theorem preEch_take (m : XZ) (pr pc : Nat) (piv : Nat → Nat) (h : PreEch m pr pc piv) (hpr : pr < m.n)
    (h1 : m.x pr pc = true) (h0 : ∀ i, pr < i → i < m.n → m.x i pc = false) :
    PreEch m (pr + 1) (pc + 1) (fun i => if i = pr then pc else piv i) := by
  refine ⟨fun i hi => ?_, fun i k hik hk => ?_, fun i hi => ?_, fun i c hi hc => ?_, fun i c h1' h2 hc => ?_⟩
  · by_cases e : i = pr
    · simp [e]
    · simp only [e, if_false]; exact Nat.lt_succ_of_lt (h.piv_lt i (by omega))
  · have e1 : ¬ (i = pr) := by omega
    simp only [e1, if_false]
    by_cases e : k = pr
    · simp only [e, if_true]; exact h.piv_lt i (by omega)
    · simp only [e, if_false]; exact h.mono i k hik (by omega)
  · by_cases e : i = pr
    · subst e; simpa using h1
    · simp only [e, if_false]; exact h.one i (by omega)
  · by_cases e : i = pr
    · subst e
      simp only [if_true] at hc
      exact h.below i c (Nat.le_refl _) hpr hc
    · simp only [e, if_false] at hc; exact h.before i c (by omega) hc
  · by_cases e : c = pc
    · subst e; exact h0 i (by omega) h2
    · exact h.below i c (by omega) h2 (by omega)

/-- the invariant only reads the X part below `n` -/
theorem preEch_congr (m m' : XZ) (pr pc : Nat) (piv : Nat → Nat) (h : PreEch m pr pc piv) (hn : m'.n = m.n) (hpr : pr ≤ m.n)
    (hpc : pc ≤ m.n) (hx : ∀ i j, i < m.n → j < m.n → m'.x i j = m.x i j) : PreEch m' pr pc piv := by
  refine ⟨h.piv_lt, h.mono, fun i hi => ?_, fun i c hi hc => ?_, fun i c h1 h2 hc => ?_⟩
  · rw [hx i (piv i) (by omega) (by have := h.piv_lt i hi; omega)]; exact h.one i hi
  · rw [hx i c (by omega) (by have := h.piv_lt i hi; omega)]; exact h.before i c hi hc
  · rw [hn] at h2
    rw [hx i c h2 (by omega)]; exact h.below i c h1 h2 hc

/-! ### `the_ones` and the elimination step -/

theorem mem_theOnes (m : XZ) (pr pc i : Nat) : i ∈ m.theOnes pr pc ↔ i < m.n ∧ pr ≤ i ∧ m.x i pc = true := by
  simp only [XZ.theOnes, List.mem_filter, List.mem_range, Bool.and_eq_true, decide_eq_true_eq]

theorem foldAdd_x (pr : Nat) (l : List Nat) (m : XZ) (hl : pr ∉ l) (hnd : l.Nodup) (i j : Nat) :
    (l.foldl (fun acc k => acc.addRows pr k) m).x i j = if i ∈ l then xor (m.x pr j) (m.x i j) else m.x i j := by
  induction l generalizing m with
  | nil => simp
  | cons k rest ih =>
    simp only [List.foldl]
    have hk : pr ≠ k := fun e => hl (e ▸ List.mem_cons_self)
    have hrest : pr ∉ rest := fun h => hl (List.mem_cons_of_mem _ h)
    have hkr : k ∉ rest := (List.nodup_cons.mp hnd).1
    rw [ih (m.addRows pr k) hrest (List.nodup_cons.mp hnd).2]
    have e1 : (m.addRows pr k).x pr j = m.x pr j := by simp [XZ.addRows, hk]
    by_cases hi : i ∈ rest
    · have hik : i ≠ k := fun e => hkr (e ▸ hi)
      have e2 : (m.addRows pr k).x i j = m.x i j := by simp [XZ.addRows, hik]
      simp [hi, e1, e2]
    · by_cases hik : i = k
      · subst hik
        simp [hi, XZ.addRows]
      · simp [hi, hik, XZ.addRows]

/-- the X part after the elimination step at `(pr, pc)` when `the_ones = f :: rest` -/
theorem elimBelow_x (m : XZ) (pr f : Nat) (rest : List Nat) (hpr : pr ∉ rest) (hnd : rest.Nodup) (i j : Nat)
    (hi : i < m.n) (hj : j < m.n) :
    (m.elimBelow pr (f :: rest)).x i j =
      if i ∈ rest then xor (m.x f j) ((m.rowSwap f pr).x i j) else (m.rowSwap f pr).x i j := by
  simp only [XZ.elimBelow]
  have hn : (rest.foldl (fun acc k => acc.addRows pr k) (m.rowSwap f pr)).n = m.n := by
    have : ∀ (l : List Nat) (m' : XZ), (l.foldl (fun acc k => acc.addRows pr k) m').n = m'.n := by
      intro l; induction l with
      | nil => intro _; rfl
      | cons k r ih => intro m'; simp only [List.foldl]; rw [ih]; rfl
    rw [this]; rfl
  rw [norm_x _ i j (by rw [hn]; exact hi) (by rw [hn]; exact hj), foldAdd_x pr rest _ hpr hnd]
  have e : (m.rowSwap f pr).x pr j = m.x f j := by
    simp only [XZ.rowSwap]
    by_cases h : pr = f
    · simp [h]
    · simp [h]
  rw [e]

theorem elimBelow_n (m : XZ) (pr : Nat) (l : List Nat) : (m.elimBelow pr l).n = m.n := by
  cases l with
  | nil => rfl
  | cons f rest =>
    simp only [XZ.elimBelow, norm_n]
    have : ∀ (l : List Nat) (m' : XZ), (l.foldl (fun acc k => acc.addRows pr k) m').n = m'.n := by
      intro l; induction l with
      | nil => intro _; rfl
      | cons k r ih => intro m'; simp only [List.foldl]; rw [ih]; rfl
    rw [this]; rfl

/-- **one elimination step keeps the invariant**: with a 1 in column `pc` at or below row `pr`, after the swap and the row additions
    `(pr, pc)` is a pivot -/
theorem elimBelow_preEch (m : XZ) (pr pc : Nat) (piv : Nat → Nat) (h : PreEch m pr pc piv) (hpr : pr < m.n) (hpc : pc < m.n)
    (hne : (m.theOnes pr pc).isEmpty = false) :
    PreEch (m.elimBelow pr (m.theOnes pr pc)) (pr + 1) (pc + 1) (fun i => if i = pr then pc else piv i) := by
  obtain ⟨hmem, hsorted⟩ := theOnes_spec m pr pc
  have hmem' := mem_theOnes m pr pc
  cases hl : m.theOnes pr pc with
  | nil => rw [hl] at hne; cases hne
  | cons f rest =>
    rw [hl] at hmem hsorted hmem'
    have hf := hmem f List.mem_cons_self
    have hgt : ∀ k, k ∈ rest → f < k := fun k hk => (List.pairwise_cons.mp hsorted).1 k hk
    have hprr : pr ∉ rest := fun hk => by have := hgt pr hk; omega
    have hfr : f ∉ rest := fun hk => by have := hgt f hk; omega
    have hnd : rest.Nodup := by
      have := (List.pairwise_cons.mp hsorted).2
      exact this.imp (fun h => Nat.ne_of_lt h)
    have hx := elimBelow_x m pr f rest hprr hnd
    -- the swapped matrix
    have sw : ∀ i j, (m.rowSwap f pr).x i j = if i = f then m.x pr j else if i = pr then m.x f j else m.x i j := by
      intro i j
      show (if i = f then m.x pr else if i = pr then m.x f else m.x i) j = _
      split
      · rfl
      · split <;> rfl
    -- `pr` is in `the_ones` only as its head
    have hprf : pr ≠ f → m.x pr pc = false := by
      intro hne'
      cases hh : m.x pr pc
      · rfl
      · have : pr ∈ f :: rest := (hmem' pr).mpr ⟨hpr, Nat.le_refl _, hh⟩
        rcases List.mem_cons.mp this with e | e
        · exact absurd e hne'
        · exact absurd e hprr
    -- rows above `pr` are untouched
    have rowsAbove : ∀ i j, i < pr → j < m.n → (m.elimBelow pr (f :: rest)).x i j = m.x i j := by
      intro i j hi hj
      have hir : i ∉ rest := fun hk => by have := hgt i hk; omega
      rw [hx i j (by omega) hj, if_neg hir, sw]
      have h1 : ¬ (i = f) := by omega
      have h2 : ¬ (i = pr) := by omega
      simp [h1, h2]
    -- rows from `pr` on stay zero left of `pc`
    have zerosLeft : ∀ i c, pr ≤ i → i < m.n → c < pc → (m.elimBelow pr (f :: rest)).x i c = false := by
      intro i c h1 h2 hc
      have z : ∀ k, pr ≤ k → k < m.n → m.x k c = false := fun k hk1 hk2 => h.below k c hk1 hk2 hc
      rw [hx i c h2 (by omega), sw]
      have zs : (if i = f then m.x pr c else if i = pr then m.x f c else m.x i c) = false := by
        split
        · exact z pr (Nat.le_refl _) hpr
        · split
          · exact z f hf.1 hf.2.1
          · exact z i h1 h2
      rw [zs, z f hf.1 hf.2.1]
      split <;> rfl
    have pivOne : (m.elimBelow pr (f :: rest)).x pr pc = true := by
      rw [hx pr pc hpr hpc, if_neg hprr, sw]
      by_cases e : pr = f
      · rw [if_pos e, e]; exact hf.2.2
      · rw [if_neg e, if_pos rfl]; exact hf.2.2
    have belowZero : ∀ i, pr < i → i < m.n → (m.elimBelow pr (f :: rest)).x i pc = false := by
      intro i h1 h2
      have hipr : ¬ (i = pr) := by omega
      rw [hx i pc h2 hpc, sw]
      by_cases hir : i ∈ rest
      · have hif : ¬ (i = f) := fun e => hfr (e ▸ hir)
        rw [if_pos hir, if_neg hif, if_neg hipr, hf.2.2, (hmem i (List.mem_cons_of_mem _ hir)).2.2]
        rfl
      · rw [if_neg hir]
        by_cases hif : i = f
        · rw [if_pos hif]
          exact hprf (by omega)
        · rw [if_neg hif, if_neg hipr]
          cases hh : m.x i pc
          · rfl
          · have : i ∈ f :: rest := (hmem' i).mpr ⟨h2, by omega, hh⟩
            rcases List.mem_cons.mp this with e | e
            · exact absurd e hif
            · exact absurd e hir
    have hn' : (m.elimBelow pr (f :: rest)).n = m.n := elimBelow_n m pr _
    -- the invariant for the old rows, transported, then the new pivot
    have hpre : PreEch (m.elimBelow pr (f :: rest)) pr pc piv := by
      refine ⟨h.piv_lt, h.mono, fun i hi => ?_, fun i c hi hc => ?_, fun i c h1 h2 hc => ?_⟩
      · rw [rowsAbove i (piv i) hi (by have := h.piv_lt i hi; omega)]; exact h.one i hi
      · rw [rowsAbove i c hi (by have := h.piv_lt i hi; omega)]; exact h.before i c hi hc
      · rw [hn'] at h2; exact zerosLeft i c h1 h2 hc
    exact preEch_take _ pr pc piv hpre (by rw [hn']; exact hpr) pivOne (fun i h1 h2 => belowZero i h1 (hn' ▸ h2))

/-- **`row_reduction` leaves the X part in row echelon form** -/
theorem rowRedLoop_ech (fuel : Nat) (m : XZ) (pr pc : Nat) (piv : Nat → Nat) (hpr : pr < m.n) (hpc : pc < m.n)
    (hf : m.n ≤ pc + fuel) (h : PreEch m pr pc piv) : ∃ r piv', Ech (XZ.rowRedLoop fuel m pr pc).1 r piv' := by
  induction fuel generalizing m pr pc piv with
  | zero => omega
  | succ fuel ih =>
    unfold XZ.rowRedLoop
    have emptyZero : (m.theOnes pr pc).isEmpty = true → ∀ i, pr ≤ i → i < m.n → m.x i pc = false := by
      intro he i h1 h2
      cases hh : m.x i pc
      · rfl
      · have : i ∈ m.theOnes pr pc := (mem_theOnes m pr pc i).mpr ⟨h2, h1, hh⟩
        rw [List.isEmpty_iff] at he
        rw [he] at this; cases this
    by_cases hlast : pc + 1 = m.n
    · rw [if_pos hlast]
      by_cases he : (m.theOnes pr pc).isEmpty = true
      · rw [if_pos he]
        have := preEch_skip m pr pc piv h (emptyZero he)
        rw [hlast] at this
        exact ⟨pr, piv, ech_of_pre m pr piv this (by omega)⟩
      · rw [if_neg he]
        have he' : (m.theOnes pr pc).isEmpty = false := by simpa using he
        have := elimBelow_preEch m pr pc piv h hpr hpc he'
        have hn' := elimBelow_n m pr (m.theOnes pr pc)
        rw [hlast, ← hn'] at this
        exact ⟨pr + 1, _, ech_of_pre _ _ _ this (by rw [hn']; omega)⟩
    · rw [if_neg hlast]
      by_cases hrow : pr + 1 = m.n
      · rw [if_pos hrow]
        by_cases hx : m.x pr pc = true
        · rw [if_pos hx]
          have hp := preEch_take m pr pc piv h hpr hx (fun i h1 h2 => by omega)
          show ∃ r piv', Ech m r piv'
          refine ⟨pr + 1, _, ⟨by omega, fun i hi => ?_, hp.mono, hp.one, hp.before, fun i c h1 h2 _ => by omega⟩⟩
          have := hp.piv_lt i hi
          omega
        · rw [if_neg hx]
          have hx' : m.x pr pc = false := by simpa using hx
          apply ih m pr (pc + 1) piv hpr (by omega) (by omega)
          exact preEch_skip m pr pc piv h (fun i h1 h2 => by
            have : i = pr := by omega
            rw [this]; exact hx')
      · rw [if_neg hrow]
        by_cases he : (m.theOnes pr pc).isEmpty = true
        · rw [if_pos he]
          exact ih m pr (pc + 1) piv hpr (by omega) (by omega) (preEch_skip m pr pc piv h (emptyZero he))
        · rw [if_neg he]
          have he' : (m.theOnes pr pc).isEmpty = false := by simpa using he
          have hp := elimBelow_preEch m pr pc piv h hpr hpc he'
          have hn' := elimBelow_n m pr (m.theOnes pr pc)
          exact ih _ (pr + 1) (pc + 1) _ (by rw [hn']; omega) (by rw [hn']; omega) (by rw [hn']; omega) hp

theorem rowReduction_ech (m : XZ) (hn : 0 < m.n) : ∃ r piv, Ech m.rowReduction.1 r piv :=
  rowRedLoop_ech (m.n + 1) m 0 0 (fun i => i) hn hn (by omega)
    ⟨fun i hi => by omega, fun i k _ hk => by omega, fun i hi => by omega, fun i c hi _ => by omega,
     fun i c _ _ hc => by omega⟩

/-! ### `_position_finder` on an echelon matrix -/

/-- scanning the columns `0 .. k-1` of an echelon matrix: `row` counts the pivots met, `pos_list` holds the other columns -/
theorem posLoop_ech (m : XZ) (r : Nat) (piv : Nat → Nat) (h : Ech m r piv) (k : Nat) (hk : k ≤ m.n) :
    (posLoop m.x m.n k).1 ≤ r ∧ (∀ i, i < (posLoop m.x m.n k).1 → piv i < k) ∧
    ((posLoop m.x m.n k).1 < r → k ≤ piv (posLoop m.x m.n k).1) ∧
    ∀ q, q ∈ (posLoop m.x m.n k).2 ↔ q < k ∧ ∀ i, i < r → piv i ≠ q := by
  induction k with
  | zero =>
    rw [posLoop_zero]
    refine ⟨Nat.zero_le _, fun i hi => (by cases hi), fun _ => Nat.zero_le _, fun q => ?_⟩
    constructor
    · intro hq; cases hq
    · intro hq; omega
  | succ k ih =>
    obtain ⟨i1, i2, i3, i4⟩ := ih (by omega)
    rw [posLoop_succ]
    generalize posLoop m.x m.n k = s at i1 i2 i3 i4
    obtain ⟨row, pos⟩ := s
    simp only at i1 i2 i3 i4
    unfold posStep
    simp only
    by_cases hc : row < m.n ∧ m.x row k = true
    · rw [if_pos hc]
      simp only
      -- `k` is the pivot column of row `row`
      have hrr : row < r := by
        by_contra hge
        have := h.below row k (by omega) hc.1 (by omega)
        rw [this] at hc; cases hc.2
      have hkp : k = piv row := by
        have h1 := i3 hrr
        by_contra hne
        have := h.before row k hrr (by omega)
        rw [this] at hc; cases hc.2
      refine ⟨hrr, fun i hi => ?_, fun hlt => ?_, fun q => ?_⟩
      · by_cases e : i = row
        · rw [e, ← hkp]; omega
        · have := i2 i (by omega); omega
      · have := h.mono row (row + 1) (by omega) hlt
        omega
      · rw [i4 q]
        constructor
        · intro hq; exact ⟨by omega, hq.2⟩
        · intro hq
          refine ⟨?_, hq.2⟩
          have : q ≠ k := fun e => hq.2 row hrr (by rw [e]; exact hkp.symm)
          omega
    · rw [if_neg hc]
      simp only
      -- `k` is not a pivot column
      have hnp : ∀ i, i < r → piv i ≠ k := by
        intro i hi e
        by_cases h1 : i < row
        · have := i2 i h1; omega
        · by_cases h2 : i = row
          · subst h2
            apply hc
            refine ⟨by have := h.r_le; omega, ?_⟩
            rw [← e]; exact h.one i hi
          · have hrr : row < r := by omega
            have := h.mono row i (by omega) hi
            have := i3 hrr
            omega
      refine ⟨i1, fun i hi => by have := i2 i hi; omega, fun hlt => ?_, fun q => ?_⟩
      · have := i3 hlt
        have := hnp row hlt
        omega
      · rw [List.mem_append, i4 q, List.mem_singleton]
        constructor
        · rintro (hq | hq)
          · exact ⟨by omega, hq.2⟩
          · rw [hq]; exact ⟨by omega, hnp⟩
        · intro hq
          by_cases e : q = k
          · exact Or.inr e
          · exact Or.inl ⟨by omega, hq.2⟩

/-- **`_position_finder` returns exactly the columns without a pivot** of a row-echelon matrix -/
theorem positionFinder_ech (m : XZ) (r : Nat) (piv : Nat → Nat) (h : Ech m r piv) (q : Nat) :
    q ∈ positionFinder m.n m.x ↔ q < m.n ∧ ∀ i, i < r → piv i ≠ q :=
  (posLoop_ech m r piv h m.n (Nat.le_refl _)).2.2.2 q

end S2G
end Graphiq
