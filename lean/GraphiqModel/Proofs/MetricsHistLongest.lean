/-
  MetricsHistLongest.lean — the model's own instance of `nx.dag_longest_path_length` (`Dag.longestPathLen`: memoised
  depth-first evaluation of `dist v = max(0, max_{u→v} dist u + 1)`) meets the recorded networkx specification
  `LongestPathSpec` on every circuit satisfying DagInv with plain operations.  Hence `Metrics.circuitDepth c` — the value the
  driver prints and the harness compares with the implementation's `depth` on every input — equals `Spec.depth` of any schedule,
  with no networkx hypothesis left (C18).
-/
import GraphiqModel.Proofs.MetricsHistDepth
set_option linter.unusedSectionVars false
set_option linter.unusedSimpArgs false
namespace Graphiq
namespace Metrics
open Dag Relation

/-! ## every node has a depth, within the model's fuel -/

theorem no_inEdge_of_input {c : Dag} {P : Paths} {L : List (NodeId × Op)} (g : Good c P) (hS : Sched c P L)
    (hkey : ∀ p ∈ L, "Input" ∉ p.2.indexKeys) : ∀ x b, isInputNode c b → ¬ c.E x b := by
  intro x b hi hE
  rw [isInputNode_iff g.inv] at hi
  obtain ⟨_, hb⟩ := E_nodes g.inv hE
  obtain ⟨o, ho⟩ := mem_nodeIds.mp hb
  unfold keysAt at hi
  rw [(opOf_eq_some g.inv.ids_nodup).mpr ho] at hi
  cases b with
  | inp r => exact g.inv.inp_source r x hE
  | out r => simp [indexKeysOf] at hi
  | op i =>
    simp only [indexKeysOf] at hi
    have := hkey _ (hS.mem_of_node ho)
    rw [wiredOp_indexKeys] at this
    exact this hi

/-- on a circuit satisfying DagInv with plain operations every node has a `_max_depth` value, and the literal recursion
    reaches it within the model's fuel -/
theorem all_hasDepth_of {c : Dag} {P : Paths} (g : Good c P) (hk : NoInputKey c) :
    ∀ n ∈ c.nodeIds, ∃ d : Int, HasDepth c n d ∧ d + 2 ≤ (c.nodes.length : Int) + 1 := by
  obtain ⟨L, hS⟩ := sched_exists g
  have hkey := hS.input_not_key_of hk
  obtain ⟨hd1, hd2⟩ := sched_depth g hS hkey
  intro n hn
  cases n with
  | inp r =>
    exact ⟨-1, HasDepth.input (isInputNode_inp g.inv ((g.inv.inp_iff r).mp hn)), by omega⟩
  | out r =>
    have hl := (g.inv.out_iff r).mp hn
    refine ⟨_, hd2 r hl, ?_⟩
    have hb := regDepth_le_length (L.map (·.2)) r
    have hlt := hS.length_lt g hl
    rw [List.length_map] at hb
    omega
  | op i =>
    obtain ⟨o, ho⟩ := mem_nodeIds.mp hn
    have hmem := hS.mem_of_node ho
    obtain ⟨pre, suf, hL⟩ := List.append_of_mem hmem
    refine ⟨_, hd1 pre _ suf hL, ?_⟩
    have hr : ∃ r, r ∈ opRegs (wiredOp P (.op i) o) := by
      have := (wiredOp_wf (P := P) (n := .op i) (g.inv.op_wf i o ho)).qregs_ne
      cases hq : (wiredOp P (.op i) o).qregs with
      | nil => exact absurd hq this
      | cons a t => exact ⟨a, by unfold opRegs; exact List.mem_append.mpr (Or.inl (by rw [hq]; exact List.mem_cons_self))⟩
    obtain ⟨r, hr⟩ := hr
    have hl := hS.live _ hmem r hr
    have hb := layerOf_fronts_le (pre.map (·.2)) (wiredOp P (.op i) o)
    have hlt := hS.length_lt g hl
    have hlen : L.length = pre.length + (suf.length + 1) := by rw [hL]; simp
    rw [List.length_map] at hb
    simp only at hb ⊢
    omega

theorem all_hasDepth {c : Dag} {P : Paths} (g : Good c P) (hpl : AllPlain c) :
    ∀ n ∈ c.nodeIds, ∃ d : Int, HasDepth c n d ∧ d + 2 ≤ (c.nodes.length : Int) + 1 :=
  all_hasDepth_of g (noInputKey_of_allPlain g hpl)

theorem hasDepth_lt_of_edge {c : Dag} (hsrc : ∀ x b, isInputNode c b → ¬ c.E x b) {u v : NodeId} (hE : c.E u v)
    {du dv : Int} (hu : HasDepth c u du) (hv : HasDepth c v dv) : du + 1 ≤ dv := by
  cases hv with
  | input hi => exact absurd hE (hsrc u v hi)
  | @node _ d D _ hpred hle _ =>
    obtain ⟨e, he, rfl, rfl⟩ := hE
    have h1 := hu.unique (hpred e he rfl)
    have h2 := hle e he rfl
    omega

/-! ## the memoised depth-first evaluation -/

/-- every entry of the memo table is correct: `dist v = _max_depth(v) + 1` -/
def DistOK (c : Dag) (memo : List (NodeId × Nat)) : Prop :=
  ∀ u k, memo.lookup u = some k → HasDepth c u ((k : Int) - 1)

theorem lookup_cons_self (v : NodeId) (d : Nat) (m : List (NodeId × Nat)) : ((v, d) :: m).lookup v = some d := by
  simp [List.lookup]

theorem lookup_cons_ne {u v : NodeId} (h : u ≠ v) (d : Nat) (m : List (NodeId × Nat)) : ((v, d) :: m).lookup u = m.lookup u := by
  have : (u == v) = false := by simpa using h
  simp [List.lookup, this]

section visit
variable {c : Dag} (hsrc : ∀ x b, isInputNode c b → ¬ c.E x b) (hall : ∀ n ∈ c.nodeIds, ∃ d : Int, HasDepth c n d)
  (hnodes : ∀ a b, c.E a b → a ∈ c.nodeIds)
include hsrc hall hnodes

/-- the fold over the predecessors, given the specification of one visit with the same fuel -/
theorem visitFold_spec (fuel : Nat)
    (ih : ∀ (memo : List (NodeId × Nat)) (v : NodeId) (d : Int), DistOK c memo → v ∈ c.nodeIds → HasDepth c v d → d + 2 ≤ (fuel : Int) →
      DistOK c (distVisit c fuel memo v) ∧ (∀ u k, memo.lookup u = some k → (distVisit c fuel memo v).lookup u = some k) ∧
      ((distVisit c fuel memo v).lookup v).isSome = true) :
    ∀ (us : List NodeId) (memo : List (NodeId × Nat)), DistOK c memo →
      (∀ u ∈ us, u ∈ c.nodeIds ∧ ∀ d, HasDepth c u d → d + 2 ≤ (fuel : Int)) →
      DistOK c (us.foldl (fun m u => distVisit c fuel m u) memo) ∧
      (∀ u k, memo.lookup u = some k → (us.foldl (fun m u => distVisit c fuel m u) memo).lookup u = some k) ∧
      (∀ u ∈ us, ((us.foldl (fun m u => distVisit c fuel m u) memo).lookup u).isSome = true) := by
  intro us
  induction us with
  | nil => intro memo hm _; exact ⟨hm, fun _ _ h => h, by simp⟩
  | cons u rest ihl =>
    intro memo hm hus
    obtain ⟨hun, hub⟩ := hus u (by simp)
    obtain ⟨du, hdu⟩ := hall u hun
    obtain ⟨a1, a2, a3⟩ := ih memo u du hm hun hdu (hub du hdu)
    obtain ⟨b1, b2, b3⟩ := ihl (distVisit c fuel memo u) a1 (fun x hx => hus x (List.mem_cons_of_mem _ hx))
    rw [List.foldl_cons]
    refine ⟨b1, fun x k h => b2 x k (a2 x k h), ?_⟩
    intro x hx
    rcases List.mem_cons.mp hx with rfl | hx
    · obtain ⟨k, hk⟩ := Option.isSome_iff_exists.mp a3
      rw [b2 x k hk]; rfl
    · exact b3 x hx

/-- **one visit**: with enough fuel, visiting `v` keeps the table correct, keeps every entry, and leaves an entry for `v` -/
theorem distVisit_spec : ∀ (fuel : Nat) (memo : List (NodeId × Nat)) (v : NodeId) (d : Int), DistOK c memo → v ∈ c.nodeIds →
    HasDepth c v d → d + 2 ≤ (fuel : Int) →
    DistOK c (distVisit c fuel memo v) ∧ (∀ u k, memo.lookup u = some k → (distVisit c fuel memo v).lookup u = some k) ∧
    ((distVisit c fuel memo v).lookup v).isSome = true := by
  intro fuel
  induction fuel with
  | zero => intro memo v d _ _ hd hf; have := hd.ge; omega
  | succ f ih =>
    intro memo v d hm hv hd hf
    unfold distVisit
    by_cases hlk : (memo.lookup v).isSome = true
    · rw [if_pos hlk]; exact ⟨hm, fun _ _ h => h, hlk⟩
    · rw [if_neg hlk]
      simp only
      have hnone : memo.lookup v = none := by
        cases h : memo.lookup v with
        | none => rfl
        | some k => rw [h] at hlk; simp at hlk
      -- the predecessors
      have hpreds : ∀ u ∈ ((c.inEdges v).map (·.src)).eraseDups, c.E u v := by
        intro u hu
        rw [List.mem_eraseDups] at hu
        obtain ⟨e, he, rfl⟩ := List.mem_map.mp hu
        have he' := List.mem_filter.mp he
        exact ⟨e, he'.1, rfl, by simpa using he'.2⟩
      have hus : ∀ u ∈ ((c.inEdges v).map (·.src)).eraseDups, u ∈ c.nodeIds ∧ ∀ du, HasDepth c u du → du + 2 ≤ (f : Int) := by
        intro u hu
        refine ⟨hnodes u v (hpreds u hu), fun du hdu => ?_⟩
        have := hasDepth_lt_of_edge hsrc (hpreds u hu) hdu hd
        push_cast at hf; omega
      obtain ⟨b1, b2, b3⟩ := visitFold_spec hsrc hall hnodes f ih _ memo hm hus
      generalize hm1 : (((c.inEdges v).map (·.src)).eraseDups.foldl (fun m u => distVisit c f m u) memo) = memo1 at b1 b2 b3
      -- the value computed for `v`
      have hval : HasDepth c v (((((c.inEdges v).map (·.src)).eraseDups.foldl
          (fun acc u => max acc (((memo1.lookup u).getD 0) + 1)) 0 : Nat) : Int) - 1) := by
        obtain ⟨m1, m2, m3⟩ := foldl_max_nat (fun u => ((memo1.lookup u).getD 0) + 1) ((c.inEdges v).map (·.src)).eraseDups 0
        cases hd with
        | input hi =>
          have hnil : c.inEdges v = [] := by
            apply List.eq_nil_iff_forall_not_mem.mpr
            intro e he
            have he' := List.mem_filter.mp he
            exact hsrc e.src v hi ⟨e, he'.1, rfl, by simpa using he'.2⟩
          rw [hnil]
          simpa using HasDepth.input hi
        | @node _ dm D hni hpred hle hex =>
          have hentry : ∀ e ∈ c.edges, e.dst = v → (memo1.lookup e.src).getD 0 + 1 = (D e + 2).toNat ∧ -1 ≤ D e := by
            intro e he hdst
            have hmem : e.src ∈ ((c.inEdges v).map (·.src)).eraseDups := by
              rw [List.mem_eraseDups]
              exact List.mem_map.mpr ⟨e, by simp [inEdges, he, hdst], rfl⟩
            obtain ⟨k, hk⟩ := Option.isSome_iff_exists.mp (b3 _ hmem)
            have h1 := (b1 _ k hk).unique (hpred e he hdst)
            have h2 := (hpred e he hdst).ge
            rw [hk]
            simp only [Option.getD_some]
            omega
          have hfold : ((((c.inEdges v).map (·.src)).eraseDups.foldl
              (fun acc u => max acc (((memo1.lookup u).getD 0) + 1)) 0 : Nat) : Int) = dm + 2 := by
            obtain ⟨e0, he0, hd0, hD0⟩ := hex
            have hm0 : e0.src ∈ ((c.inEdges v).map (·.src)).eraseDups := by
              rw [List.mem_eraseDups]
              exact List.mem_map.mpr ⟨e0, by simp [inEdges, he0, hd0], rfl⟩
            have hge := m2 _ hm0
            obtain ⟨q1, q2⟩ := hentry e0 he0 hd0
            have hle' : ((c.inEdges v).map (·.src)).eraseDups.foldl
                (fun acc u => max acc (((memo1.lookup u).getD 0) + 1)) 0 ≤ (dm + 2).toNat := by
              rcases m3 with h0 | ⟨x, hx, hxe⟩
              · rw [h0]; omega
              · rw [← hxe]
                rw [List.mem_eraseDups] at hx
                obtain ⟨e, he, rfl⟩ := List.mem_map.mp hx
                have he' := List.mem_filter.mp he
                have hdst : e.dst = v := by simpa using he'.2
                obtain ⟨r1, r2⟩ := hentry e he'.1 hdst
                have := hle e he'.1 hdst
                rw [r1]; omega
            omega
          rw [hfold]
          have : dm + 2 - 1 = dm + 1 := by omega
          rw [this]
          exact HasDepth.node D hni hpred hle hex
      refine ⟨?_, ?_, by rw [lookup_cons_self]; rfl⟩
      · intro u k hk
        by_cases huv : u = v
        · subst huv
          rw [lookup_cons_self] at hk
          injection hk with hk
          rw [← hk]; exact hval
        · rw [lookup_cons_ne huv] at hk
          exact b1 u k hk
      · intro u k hk
        have huv : u ≠ v := by
          intro e; subst e; rw [hnone] at hk; cases hk
        rw [lookup_cons_ne huv]
        exact b2 u k hk

end visit

/-! ## the table and its maximum -/

theorem mem_of_lookup {m : List (NodeId × Nat)} {u : NodeId} {k : Nat} (h : m.lookup u = some k) : (u, k) ∈ m := by
  induction m with
  | nil => simp [List.lookup] at h
  | cons p t ih =>
    obtain ⟨a, b⟩ := p
    by_cases hua : u = a
    · subst hua
      rw [lookup_cons_self] at h
      injection h with h; subst h; simp
    · rw [lookup_cons_ne hua] at h
      exact List.mem_cons_of_mem _ (ih h)

/-- the entries of the memo table have distinct keys whenever entries are only added for absent keys; here we only need:
    every pair of the table is found by `lookup` with a correct value — we carry it as part of the invariant -/
def PairsOK (c : Dag) (memo : List (NodeId × Nat)) : Prop := ∀ p ∈ memo, HasDepth c p.1 ((p.2 : Int) - 1)

section table
variable {c : Dag} (hsrc : ∀ x b, isInputNode c b → ¬ c.E x b)
  (hall : ∀ n ∈ c.nodeIds, ∃ d : Int, HasDepth c n d ∧ d + 2 ≤ (c.nodes.length : Int) + 1)
  (hnodes : ∀ a b, c.E a b → a ∈ c.nodeIds)
include hsrc hall hnodes

/-- every pair stored by a visit is correct (not only the pairs `lookup` finds) -/
theorem distVisit_pairs : ∀ (fuel : Nat) (memo : List (NodeId × Nat)) (v : NodeId), PairsOK c memo → DistOK c memo →
    (∀ d, HasDepth c v d → d + 2 ≤ (fuel : Int)) → v ∈ c.nodeIds → PairsOK c (distVisit c fuel memo v) := by
  intro fuel
  induction fuel with
  | zero => intro memo v hp _ _ _; exact hp
  | succ f ih =>
    intro memo v hp hm hf hv
    obtain ⟨d, hd, _⟩ := hall v hv
    have hspec := distVisit_spec hsrc (fun n hn => by obtain ⟨d, h, _⟩ := hall n hn; exact ⟨d, h⟩) hnodes (f + 1) memo v d hm hv hd
      (hf d hd)
    -- unfold one step to see the stored pairs
    have hpreds : ∀ u ∈ ((c.inEdges v).map (·.src)).eraseDups, c.E u v := by
      intro u hu
      rw [List.mem_eraseDups] at hu
      obtain ⟨e, he, rfl⟩ := List.mem_map.mp hu
      have he' := List.mem_filter.mp he
      exact ⟨e, he'.1, rfl, by simpa using he'.2⟩
    have hfold : ∀ (us : List NodeId) (m : List (NodeId × Nat)), PairsOK c m → DistOK c m →
        (∀ u ∈ us, u ∈ c.nodeIds ∧ ∀ du, HasDepth c u du → du + 2 ≤ (f : Int)) →
        PairsOK c (us.foldl (fun m u => distVisit c f m u) m) ∧ DistOK c (us.foldl (fun m u => distVisit c f m u) m) := by
      intro us
      induction us with
      | nil => intro m h1 h2 _; exact ⟨h1, h2⟩
      | cons u rest ihl =>
        intro m h1 h2 hus
        obtain ⟨hun, hub⟩ := hus u (by simp)
        obtain ⟨du, hdu, _⟩ := hall u hun
        have s := distVisit_spec hsrc (fun n hn => by obtain ⟨d, h, _⟩ := hall n hn; exact ⟨d, h⟩) hnodes f m u du h2 hun hdu (hub du hdu)
        rw [List.foldl_cons]
        exact ihl _ (ih m u h1 h2 hub hun) s.1 (fun x hx => hus x (List.mem_cons_of_mem _ hx))
    unfold distVisit at hspec ⊢
    by_cases hlk : (memo.lookup v).isSome = true
    · rw [if_pos hlk]; exact hp
    · rw [if_neg hlk] at hspec ⊢
      simp only at hspec ⊢
      have hus : ∀ u ∈ ((c.inEdges v).map (·.src)).eraseDups, u ∈ c.nodeIds ∧ ∀ du, HasDepth c u du → du + 2 ≤ (f : Int) := by
        intro u hu
        refine ⟨hnodes u v (hpreds u hu), fun du hdu => ?_⟩
        have := hasDepth_lt_of_edge hsrc (hpreds u hu) hdu hd
        have := hf d hd
        push_cast at this; omega
      obtain ⟨p1, _⟩ := hfold _ memo hp hm hus
      intro p hpm
      rcases List.mem_cons.mp hpm with rfl | hpm
      · exact hspec.1 _ _ (lookup_cons_self _ _ _)
      · exact p1 p hpm

theorem distTable_spec :
    PairsOK c c.distTable ∧ DistOK c c.distTable ∧ ∀ v ∈ c.nodeIds, (c.distTable.lookup v).isSome = true := by
  unfold distTable
  have key : ∀ (vs : List NodeId) (m : List (NodeId × Nat)), PairsOK c m → DistOK c m → (∀ v ∈ vs, v ∈ c.nodeIds) →
      PairsOK c (vs.foldl (fun m v => distVisit c (c.nodes.length + 1) m v) m) ∧
      DistOK c (vs.foldl (fun m v => distVisit c (c.nodes.length + 1) m v) m) ∧
      (∀ u k, m.lookup u = some k → (vs.foldl (fun m v => distVisit c (c.nodes.length + 1) m v) m).lookup u = some k) ∧
      ∀ v ∈ vs, ((vs.foldl (fun m v => distVisit c (c.nodes.length + 1) m v) m).lookup v).isSome = true := by
    intro vs
    induction vs with
    | nil => intro m h1 h2 _; exact ⟨h1, h2, fun _ _ h => h, by simp⟩
    | cons v rest ih =>
      intro m h1 h2 hvs
      have hv := hvs v (by simp)
      obtain ⟨d, hd, hb⟩ := hall v hv
      have hfuel : ∀ d', HasDepth c v d' → d' + 2 ≤ ((c.nodes.length + 1 : Nat) : Int) := by
        intro d' hd'
        rw [← hd.unique hd']; push_cast; exact hb
      have s := distVisit_spec hsrc (fun n hn => by obtain ⟨d, h, _⟩ := hall n hn; exact ⟨d, h⟩) hnodes (c.nodes.length + 1) m v d h2 hv hd
        (hfuel d hd)
      have p := distVisit_pairs hsrc hall hnodes (c.nodes.length + 1) m v h1 h2 hfuel hv
      obtain ⟨q1, q2, q3, q4⟩ := ih _ p s.1 (fun x hx => hvs x (List.mem_cons_of_mem _ hx))
      rw [List.foldl_cons]
      refine ⟨q1, q2, fun u k h => q3 u k (s.2.1 u k h), ?_⟩
      intro x hx
      rcases List.mem_cons.mp hx with rfl | hx
      · obtain ⟨k, hk⟩ := Option.isSome_iff_exists.mp s.2.2
        rw [q3 x k hk]; rfl
      · exact q4 x hx
  obtain ⟨a, b, _, d⟩ := key c.nodeIds [] (by intro p hp; simp at hp) (by intro u k h; simp [List.lookup] at h) (fun v hv => hv)
  exact ⟨a, b, d⟩

end table

/-- **the model's `longestPathLen` meets the recorded specification of `nx.dag_longest_path_length`** on every circuit
    satisfying DagInv with plain operations -/
theorem longestPathLen_spec_of {c : Dag} {P : Paths} (g : Good c P) (hk : NoInputKey c) : LongestPathSpec c c.longestPathLen := by
  obtain ⟨L, hS⟩ := sched_exists g
  have hsrc := no_inEdge_of_input g hS (hS.input_not_key_of hk)
  have hall := all_hasDepth_of g hk
  have hnodes : ∀ a b, c.E a b → a ∈ c.nodeIds := fun a b h => (E_nodes g.inv h).1
  obtain ⟨hpairs, hdist, hsome⟩ := distTable_spec hsrc hall hnodes
  unfold longestPathLen
  obtain ⟨m1, m2, m3⟩ := foldl_max_nat (fun k : Nat => k) (c.distTable.map (·.2)) 0
  have hfold : (c.distTable.map (·.2)).foldl max 0 = (c.distTable.map (·.2)).foldl (fun m r => max m r) 0 := rfl
  rw [hfold]
  constructor
  · rcases m3 with h0 | ⟨k, hk, hke⟩
    · rw [h0]; exact ⟨.op 0, .op 0, Walk.nil _⟩
    · obtain ⟨p, hp, rfl⟩ := List.mem_map.mp hk
      obtain ⟨a, wa⟩ := (hpairs p hp).walk
      have : ((p.2 : Int) - 1 + 1).toNat = p.2 := by omega
      rw [this] at wa
      rw [← hke]
      exact ⟨a, p.1, wa⟩
  · intro a b k w
    by_cases hk : k = 0
    · omega
    · have hb : b ∈ c.nodeIds := by
        cases w with
        | nil => exact absurd rfl hk
        | snoc _ hxb => exact (E_nodes g.inv hxb).2
      obtain ⟨kb, hkb⟩ := Option.isSome_iff_exists.mp (hsome b hb)
      have h1 := w.le_depth hsrc _ (hdist b kb hkb)
      have h2 := m2 kb (List.mem_map.mpr ⟨(b, kb), mem_of_lookup hkb, rfl⟩)
      omega

theorem longestPathLen_spec {c : Dag} {P : Paths} (g : Good c P) (hpl : AllPlain c) : LongestPathSpec c c.longestPathLen :=
  longestPathLen_spec_of g (noInputKey_of_allPlain g hpl)

/-- the same under `NoInputKey` only (arbitrary other user labels admitted) -/
theorem circuitDepth_model_eq_spec_of {c : Dag} {P : Paths} {L : List (NodeId × Op)} (g : Good c P) (hk : NoInputKey c)
    (hS : Sched c P L) (hne : c.nodeIds ≠ []) : Metrics.circuitDepth c = (Spec.depth (L.map (·.2)) : Int) :=
  circuitDepth_eq_spec_sched_of g hk hS hne (longestPathLen_spec_of g hk)

/-- **`CircuitDepth` with the model's own longest-path computation** — the value the driver reports and the harness compares
    with the implementation's on every input — is the largest ASAP layer of the operation list of any schedule: no networkx
    hypothesis left -/
theorem circuitDepth_model_eq_spec {c : Dag} {P : Paths} {L : List (NodeId × Op)} (g : Good c P) (hpl : AllPlain c)
    (hS : Sched c P L) (hne : c.nodeIds ≠ []) : Metrics.circuitDepth c = (Spec.depth (L.map (·.2)) : Int) :=
  circuitDepth_eq_spec_sched g hpl hS hne (longestPathLen_spec g hpl)

end Metrics
end Graphiq
