/-
  Proofs/StateToGraphTableau.lean — every VALID Clifford tableau (the invariant `Tab.Valid` of the C07 development: the 2n rows form a
  symplectic basis, `sp(row i, row k) = [i + n = k ∨ k + n = i]`) has a stabilizer half that is a stabilizer state in the sense of the
  completeness theorem of `state_to_graph`: the stabilizer rows commute pairwise and are linearly independent (each destabilizer row
  anticommutes with exactly one of them).  So `state_to_graph(CliffordTableau)` — which converts `tableau.to_stabilizer()` — returns on
  every tableau the simulator can reach.  All sizes.
-/
import GraphiqModel.Proofs.StateToGraphTotal
namespace Graphiq
open PRow Tab STab S2G

/-- the symplectic product with a GF(2) combination of rows is the combination of the symplectic products -/
theorem bsp_combo (n m : Nat) (a b : Nat → Bool) (rx rz : Nat → Nat → Bool) (c : Nat → Bool) :
    bsp n a b (fun j => parityTo m (fun i => c i && rx i j)) (fun j => parityTo m (fun i => c i && rz i j)) =
      parityTo m (fun i => c i && bsp n a b (rx i) (rz i)) := by
  unfold bsp
  have e1 : ∀ j, xor (a j && parityTo m (fun i => c i && rz i j)) (b j && parityTo m (fun i => c i && rx i j)) =
      parityTo m (fun i => c i && xor (a j && rz i j) (b j && rx i j)) := by
    intro j
    rw [and_parityTo, and_parityTo, ← parityTo_xor]
    apply parityTo_congr
    intro i _
    cases a j <;> cases b j <;> cases c i <;> cases rz i j <;> cases rx i j <;> rfl
  rw [parityTo_congr n _ _ (fun j _ => e1 j), parityTo_comm]
  apply parityTo_congr
  intro i _
  rw [and_parityTo]

/-- **the stabilizer half of a valid Clifford tableau is a stabilizer state**: real, pairwise commuting, linearly independent rows -/
theorem ofTab_good_indep (T : Tab) (hv : T.Valid) : (STab.ofTab T).Good ∧ Indep (XZ.ofSTab (STab.ofTab T)) := by
  have hn : (STab.ofTab T).n = T.n := rfl
  constructor
  · refine ⟨fun _ _ => rfl, fun i k hi hk => ?_⟩
    rw [hn] at hi hk ⊢
    have := hv (i + T.n) (k + T.n) (by omega) (by omega)
    have e : sp T.n ((STab.ofTab T).row i) ((STab.ofTab T).row k) = sp T.n (T.row (i + T.n)) (T.row (k + T.n)) := rfl
    rw [e, this]
    exact decide_eq_false (by omega)
  · intro c hc k hk
    have hn' : (XZ.ofSTab (STab.ofTab T)).n = T.n := rfl
    rw [hn'] at hc hk
    -- the symplectic product of destabilizer `k` with the vanishing combination is `c k`
    have key := bsp_combo T.n T.n (T.row k).x (T.row k).z (XZ.ofSTab (STab.ofTab T)).x (XZ.ofSTab (STab.ofTab T)).z c
    have lhs : bsp T.n (T.row k).x (T.row k).z
        (fun j => parityTo T.n (fun i => c i && (XZ.ofSTab (STab.ofTab T)).x i j))
        (fun j => parityTo T.n (fun i => c i && (XZ.ofSTab (STab.ofTab T)).z i j)) = false := by
      unfold bsp
      apply parityTo_zero
      intro j hj
      show xor ((T.row k).x j && parityTo T.n (fun i => c i && (XZ.ofSTab (STab.ofTab T)).z i j))
        ((T.row k).z j && parityTo T.n (fun i => c i && (XZ.ofSTab (STab.ofTab T)).x i j)) = false
      rw [(hc j hj).1, (hc j hj).2]; simp
    rw [lhs] at key
    have rhs : parityTo T.n (fun i => c i && bsp T.n (T.row k).x (T.row k).z
        ((XZ.ofSTab (STab.ofTab T)).x i) ((XZ.ofSTab (STab.ofTab T)).z i)) = c k := by
      rw [parityTo_congr T.n _ (fun i => decide (i = k) && c i) (fun i hi => by
        have e : bsp T.n (T.row k).x (T.row k).z ((XZ.ofSTab (STab.ofTab T)).x i) ((XZ.ofSTab (STab.ofTab T)).z i) =
            sp T.n (T.row k) (T.row (i + T.n)) := rfl
        rw [e, hv k (i + T.n) (by omega) (by omega)]
        by_cases h : i = k
        · subst h
          rw [decide_eq_true (Or.inl rfl)]; simp
        · have : ¬ (k + T.n = i + T.n ∨ i + T.n + T.n = k) := by omega
          rw [decide_eq_false this, decide_eq_false h]; simp)]
      exact parityTo_single T.n k c hk
    rw [rhs] at key
    exact key.symm

/-- **`state_to_graph` returns on every valid Clifford tableau** (n ≥ 1) -/
theorem stateToGraph_complete_ofTab (T : Tab) (hn : 0 < T.n) (hv : T.Valid) :
    ∃ adj gates, stateToGraph (STab.ofTab T) = .ok (adj, gates) :=
  stateToGraph_complete (STab.ofTab T) hn (ofTab_good_indep T hv).1 (ofTab_good_indep T hv).2

end Graphiq
