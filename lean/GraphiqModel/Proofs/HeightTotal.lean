/-
  Proofs/HeightTotal.lean — totality: on linearly independent generators (every valid stabilizer tableau) `rref` returns an echelon
  form with no trivial row and `height_func_list` returns a list.  So the theorems "whenever `height_func_list` returns …" apply to
  every valid generating set.
-/
import Mathlib.LinearAlgebra.Dimension.OrzechProperty
import GraphiqModel.Proofs.HeightEntropy
import GraphiqModel.Proofs.EchelonTotal
import GraphiqModel.Proofs.EchelonCheck
namespace Graphiq
open Module
namespace STab

theorem pvec_add_self {n : Nat} (v : PVec n) : v + v = 0 := by
  rw [← two_smul (ZMod 2) v]
  have : (2 : ZMod 2) = 0 := by decide
  rw [this, zero_smul]

/-- the row operations are invertible: the generators of the input stay in the subspace of the output -/
theorem Ops.gspace_le {pr : Nat} {t0 t : STab} (h : Ops pr t0 t) : gspaceOf t0.n t0.row ≤ gspaceOf t0.n t.row := by
  induction h with
  | refl => exact le_refl _
  | @norm t h ih =>
    refine le_trans ih (Submodule.span_le.2 ?_)
    rintro _ ⟨⟨i, hi⟩, rfl⟩
    have e := h.n_eq
    have hi' : i < t.n := by omega
    have sb : PRow.SameBits t0.n (t.norm.row i) (t.row i) := fun j hj => (norm_row t i hi').1 j (by omega)
    have : (t.norm.row i).vec t0.n = (t.row i).vec t0.n := PRow.vec_congr _ _ _ sb
    show (t.row i).vec t0.n ∈ _
    rw [← this]
    exact gen_mem_gspaceOf t0.n t.norm.row i hi
  | @swap t a b _ h2 _ h4 _ ih =>
    refine le_trans ih (Submodule.span_le.2 ?_)
    rintro _ ⟨i, rfl⟩
    show (t.row i).vec t0.n ∈ _
    by_cases hia : i.val = a
    · have : (t.rowSwap a b).row b = t.row i.val := by
        rw [rowSwap_row, hia]
        by_cases hba : b = a
        · rw [if_pos hba, hba]
        · rw [if_neg hba, if_pos rfl]
      rw [← this]; exact gen_mem_gspaceOf t0.n _ b h4
    · by_cases hib : i.val = b
      · have : (t.rowSwap a b).row a = t.row i.val := by rw [rowSwap_row, if_pos rfl, hib]
        rw [← this]; exact gen_mem_gspaceOf t0.n _ a h2
      · have : (t.rowSwap a b).row i.val = t.row i.val := by rw [rowSwap_row, if_neg hia, if_neg hib]
        rw [← this]; exact gen_mem_gspaceOf t0.n _ i.val i.isLt
  | @sum t a b _ h2 _ h4 hab _ ih =>
    refine le_trans ih (Submodule.span_le.2 ?_)
    rintro _ ⟨i, rfl⟩
    show (t.row i).vec t0.n ∈ _
    by_cases hib : i.val = b
    · have ra : (t.rowSum a b).row a = t.row a := by rw [rowSum_row, if_neg hab]
      have rb : (t.rowSum a b).row b = stabMul t.n (t.row a) (t.row b) := by rw [rowSum_row, if_pos rfl]
      have : (t.row i.val).vec t0.n = ((t.rowSum a b).row a).vec t0.n + ((t.rowSum a b).row b).vec t0.n := by
        rw [ra, rb, PRow.vec_stabMul, ← add_assoc, pvec_add_self, zero_add, hib]
      rw [this]
      exact Submodule.add_mem _ (gen_mem_gspaceOf t0.n _ a h2) (gen_mem_gspaceOf t0.n _ b h4)
    · have : (t.rowSum a b).row i.val = t.row i.val := by rw [rowSum_row, if_neg hib]
      rw [← this]; exact gen_mem_gspaceOf t0.n _ i.val i.isLt

/-- **`rref` returns on every independent generating set, and then all rows of the echelon form are non-trivial** -/
theorem rref_ok_of_indep (t : STab) (hli : LinearIndependent (ZMod 2) (fun i : Fin t.n => (t.row i).vec t.n)) :
    ∃ t' brs piv, t.rref = .ok (t', brs) ∧ Echelon t' piv := by
  obtain ⟨⟨t1, pr1, pc1, brs1⟩, hl⟩ := rrefLoop_ok (t.n + 1) t 0 0 []
  obtain ⟨piv, inv, hex, o⟩ := rrefLoop_inv (t.n + 1) t 0 0 [] _ t1 pr1 pc1 brs1 (Inv.init t) (by omega) hl
  have hn := o.n_eq
  have hfull : t1.n ≤ pr1 := by
    apply Nat.le_of_not_lt
    intro hlt
    have hpc : t1.n ≤ pc1 := by omega
    -- the rows of `t1` span a space of dimension `n`, hence are independent, hence non-zero
    have h1 : finrank (ZMod 2) ↥(gspaceOf t.n t.row) = t.n := by
      have := finrank_span_eq_card hli
      rw [Fintype.card_fin] at this
      exact this
    have h2 : finrank (ZMod 2) ↥(gspaceOf t.n t.row) ≤ finrank (ZMod 2) ↥(gspaceOf t.n t1.row) :=
      Submodule.finrank_mono o.gspace_le
    have h3 : finrank (ZMod 2) ↥(gspaceOf t.n t1.row) ≤ t.n := by
      have := finrank_range_le_card (R := ZMod 2) (fun i : Fin t.n => (t1.row i).vec t.n)
      rw [Fintype.card_fin] at this
      exact this
    have hli1 : LinearIndependent (ZMod 2) (fun i : Fin t.n => (t1.row i).vec t.n) := by
      rw [linearIndependent_iff_card_eq_finrank_span, Fintype.card_fin]
      show t.n = finrank (ZMod 2) ↥(gspaceOf t.n t1.row)
      omega
    have hne := hli1.ne_zero (⟨pr1, by omega⟩ : Fin t.n)
    apply hne
    funext j
    have hz := inv.zero pr1 (Nat.le_refl _) hlt j.val (by have := j.isLt; omega)
    have hb := PRow.pt_zero_bits _ _ hz
    show (b2z ((t1.row pr1).x j), b2z ((t1.row pr1).z j)) = 0
    rw [hb.1, hb.2]; rfl
  have e : pr1 = t1.n := Nat.le_antisymm inv.pr_le hfull
  refine ⟨t1, brs1, piv, ?_, ?_⟩
  · unfold rref
    rw [hl]
    simp only
    rw [if_pos (by omega)]
  · subst e
    refine ⟨fun i hi => ?_, inv.sorted⟩
    have := inv.lead i hi
    exact ⟨by have := inv.pc_le; omega, this.2.1, this.2.2⟩

/-- **`height_func_list` returns on every independent generating set** (in particular on every valid stabilizer tableau) -/
theorem heightFuncList_total (t : STab) (hli : LinearIndependent (ZMod 2) (fun i : Fin t.n => (t.row i).vec t.n)) :
    ∃ l, t.heightFuncList = .ok l := by
  obtain ⟨t1, brs, piv, hr, he⟩ := rref_ok_of_indep (STab.map (fun p => { p with r := false, ip := false }) t) hli
  have hn1 : t1.n = t.n := (rref_ops _ t1 brs hr).n_eq
  unfold heightFuncList
  simp only
  rw [hr]
  simp only
  by_cases hz : t.n = 0
  · rw [if_pos hz]; exact ⟨_, rfl⟩
  · rw [if_neg hz]
    have hm : (List.range t.n).mapM (fun i => t1.leftmost i) = some ((List.range t.n).map piv) := by
      apply mapM_option_of_forall
      intro i hi
      have hl := he.lead i (by rw [hn1]; exact List.mem_range.1 hi)
      exact leftmost_of_lead t1 i (piv i) hl.1 hl.2.1 hl.2.2
    rw [hm]
    exact ⟨_, rfl⟩

/-- conversely, `height_func_list` returns only on independent generators -/
theorem heightFuncList_ok_indep (t : STab) (l : List Int) (h : t.heightFuncList = .ok l) :
    LinearIndependent (ZMod 2) (fun i : Fin t.n => (t.row i).vec t.n) := by
  rw [linearIndependent_iff_card_eq_finrank_span, Fintype.card_fin]
  exact (heightFuncList_ok_finrank t l h).symm

/-- **`height_func_list` returns exactly on the independent generating sets** -/
theorem heightFuncList_ok_iff_indep (t : STab) :
    (∃ l, t.heightFuncList = .ok l) ↔ LinearIndependent (ZMod 2) (fun i : Fin t.n => (t.row i).vec t.n) :=
  ⟨fun ⟨l, h⟩ => heightFuncList_ok_indep t l h, heightFuncList_total t⟩

/-- **unconditional form**: on independent generators `height_func_list` returns the list of `|B| − dim G_B` -/
theorem heightFuncList_of_indep (t : STab) (hli : LinearIndependent (ZMod 2) (fun i : Fin t.n => (t.row i).vec t.n)) :
    t.heightFuncList = .ok ((List.range t.n).map fun (k : Nat) =>
      Int.ofNat t.n - (Int.ofNat k + 1) - Int.ofNat (finrank (ZMod 2) ↥(t.gspace ⊓ rightOf t.n k))) := by
  obtain ⟨l, h⟩ := heightFuncList_total t hli
  rw [h, heightFuncList_eq_finrank t l h]

/-- the height list is unchanged by row operations: if it exists after them, it exists before them and is the same -/
theorem heightFuncList_ops (t t1 : STab) (o : Ops 0 t t1) (l1 : List Int) (h1 : t1.heightFuncList = .ok l1) :
    t.heightFuncList = .ok l1 := by
  have hmem := o.vec_mem
  have hle := o.gspace_le
  have e := o.n_eq
  obtain ⟨n, row⟩ := t
  obtain ⟨n1, row1⟩ := t1
  simp only at e
  subst e
  have geq : (STab.mk n1 row1).gspace = (STab.mk n1 row).gspace := by
    apply le_antisymm
    · apply Submodule.span_le.2
      rintro _ ⟨i, rfl⟩
      exact hmem i.val i.isLt
    · exact hle
  have hfr := heightFuncList_ok_finrank _ l1 h1
  rw [geq] at hfr
  have hli : LinearIndependent (ZMod 2) (fun i : Fin n1 => (row i).vec n1) := by
    rw [linearIndependent_iff_card_eq_finrank_span, Fintype.card_fin]
    exact hfr.symm
  rw [heightFuncList_of_indep (STab.mk n1 row) hli, heightFuncList_eq_finrank _ l1 h1, geq]

/-- in particular `height_func_list(rref(t))` (what `determine_n_emitters` evaluates) is `height_func_list(t)` -/
theorem heightFuncList_rref (t t1 : STab) (brs : List String) (hr : t.rref = .ok (t1, brs)) (l1 : List Int)
    (h1 : t1.heightFuncList = .ok l1) : t.heightFuncList = .ok l1 :=
  heightFuncList_ops t t1 (rref_ops t t1 brs hr) l1 h1

end STab
end Graphiq
