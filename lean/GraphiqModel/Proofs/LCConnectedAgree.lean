/-
  Proofs/LCConnectedAgree.lean — on connected graphs the repaired `is_lc_equivalent` returns exactly what the whole-graph
  algorithm returns (same answer, same `Q`): the repair changes nothing there.

  * `connectedComponents_connected`: a connected graph has the single component `[0, …, n-1]`;
  * `isLcEquivalent_congr`: the whole-graph algorithm depends on its arguments only through their size and their entries below it;
  * `scatter_full`: writing a solution for all vertices into the zero vector gives that solution;
  * `isLcEquivalentR_connected`: the statement.
-/
import GraphiqModel.Proofs.LCRepair
namespace Graphiq.LC
open Graphiq

/-! ### a connected graph has one component -/

theorem componentOf_connected (n : Nat) (A : Adj) (hc : Connected n A) (s : Nat) (hs : s < n) :
    componentOf n A s = List.range n := by
  rw [componentOf_eq_filter, List.filter_eq_self]
  intro v hv
  have hv' := List.mem_range.mp hv
  have : v ∈ bfsLoop n A n 0 [s] := (mem_bfs n A s hs v).mpr (hc s v hs hv')
  simpa using this

theorem connectedComponents_connected (n : Nat) (A : Adj) (hn : 0 < n) (hA : Simple n A) (hc : Connected n A) :
    connectedComponents n A = [List.range n] := by
  obtain ⟨hinv, hcover⟩ := connectedComponents_spec n A hA.1
  have hall : ∀ c ∈ connectedComponents n A, c = List.range n := by
    intro c hcm
    obtain ⟨s, hs, e⟩ := hinv.isClass c hcm
    rw [e]; exact componentOf_connected n A hc s hs
  obtain ⟨c0, hc0, _⟩ := hcover 0 hn
  -- a list of pairwise disjoint copies of a non-empty list has one element
  generalize connectedComponents n A = l at *
  match l, hc0, hall, hinv.disjoint with
  | [], h, _, _ => cases h
  | [c], _, hall, _ => rw [hall c List.mem_cons_self]
  | c :: c' :: rest, _, hall, hdis =>
    exfalso
    have e1 := hall c List.mem_cons_self
    have e2 := hall c' (List.mem_cons_of_mem _ List.mem_cons_self)
    have := (List.pairwise_cons.mp hdis).1 c' List.mem_cons_self 0 (by rw [e1]; exact List.mem_range.mpr hn)
    exact this (by rw [e2]; exact List.mem_range.mpr hn)

/-! ### the whole-graph algorithm reads its arguments only below their size -/

theorem BMat.norm_congr (m m' : BMat) (hr : m.r = m'.r) (hc : m.c = m'.c)
    (h : ∀ i j, i < m.r → j < m.c → m.f i j = m'.f i j) : m.norm = m'.norm := by
  cases m with | mk r c f =>
  cases m' with | mk r' c' f' =>
  simp only at hr hc h
  subst hr; subst hc
  unfold BMat.norm
  simp only
  have e : (fun (i : Fin r) => Array.ofFn (n := c) fun (j : Fin c) => f i.val j.val) =
      (fun (i : Fin r) => Array.ofFn (n := c) fun (j : Fin c) => f' i.val j.val) := by
    funext i
    congr 1
    funext j
    exact h i.val j.val i.isLt j.isLt
  rw [e]

theorem coeffMaker_congr (n : Nat) (A A' B B' : Adj) (hA : ∀ i j, i < n → j < n → A i j = A' i j)
    (hB : ∀ i j, i < n → j < n → B i j = B' i j) : (coeffMaker n A B).norm = (coeffMaker n A' B').norm := by
  refine BMat.norm_congr (coeffMaker n A B) (coeffMaker n A' B') rfl rfl ?_
  intro row col hrow hcol
  have hrow' : row < n * n := hrow
  have hcol' : col < 4 * n := hcol
  have hn : 0 < n := by
    rcases Nat.eq_zero_or_pos n with e | e
    · subst e; simp at hrow'
    · exact e
  have h1 : row / n < n := Nat.div_lt_of_lt_mul hrow'
  have h2 : row % n < n := Nat.mod_lt _ hn
  have h3 : col / 4 < n := by omega
  show coeffEntry A B (row / n) (row % n) (col / 4) (col % 4) = coeffEntry A' B' (row / n) (row % n) (col / 4) (col % 4)
  unfold coeffEntry
  split
  · rw [hA _ _ h1 h2]
  · rfl
  · rw [hA _ _ h3 h1, hB _ _ h3 h2]
  · rw [hB _ _ h1 h2]

theorem isLcEquivalent_congr (a a' b b' : BMat) (mode : Mode) (draws : List Bool) (hra : a.r = a'.r) (hrb : b.r = b'.r)
    (hA : ∀ i j, i < a.r → j < a.r → a.f i j = a'.f i j) (hB : ∀ i j, i < a.r → j < a.r → b.f i j = b'.f i j) :
    isLcEquivalent a b mode draws = isLcEquivalent a' b' mode draws := by
  unfold isLcEquivalent
  simp only []
  rw [← hra, ← hrb, coeffMaker_congr a.r a.f a'.f b.f b'.f hA hB]

/-! ### assembling a single component -/

theorem scatter_full (n : Nat) (q : List Bool) (hq : q.length = 4 * n) :
    scatter (List.replicate (4 * n) false) (List.range n) q = q := by
  apply List.ext_getElem
  · rw [scatter_length]; simp [hq]
  · intro idx h1 h2
    have hidx : idx < 4 * n := by rw [scatter_length] at h1; simpa using h1
    have e1 : (scatter (List.replicate (4 * n) false) (List.range n) q)[idx] =
        vget (scatter (List.replicate (4 * n) false) (List.range n) q) idx := by
      simp [vget, List.getD, h1]
    have e2 : q[idx] = vget q idx := by simp [vget, List.getD, h2]
    rw [e1, e2, vget_scatter _ _ _ idx (by simpa using hidx)]
    have hq4 : idx / 4 < n := by omega
    have hfind : (List.range n).findIdx? (· == idx / 4) = some (idx / 4) := by
      have := findIdx_keep (List.range n) List.nodup_range (idx / 4) (by simpa using hq4)
      have hg : (List.range n).getD (idx / 4) 0 = idx / 4 := by simp [List.getD, hq4]
      rw [hg] at this
      exact this
    rw [hfind]
    show vget q (4 * (idx / 4) + idx % 4) = vget q idx
    congr 1
    omega

/-! ### the statement -/

/-- **on connected graphs the repair changes nothing**: if both graphs are connected (simple, same size `n ≥ 1`), the repaired
    `is_lc_equivalent` returns exactly the `Q` (or the `no`) of the whole-graph algorithm, for every mode and every value of the
    draws -/
theorem isLcEquivalentR_connected (a b : BMat) (mode : Mode) (draws : List (List Bool)) (hn : 0 < a.r) (hab : a.r = b.r)
    (ha : Simple a.r a.f) (hb : Simple a.r b.f) (hca : Connected a.r a.f) (hcb : Connected a.r b.f)
    (out : EqOut) (e : isLcEquivalent a b mode (draws.headD []) = .ok out) :
    ∃ outR, isLcEquivalentR a b mode draws = .ok outR ∧ outR.sol = out.sol ∧ outR.parts = [out] := by
  have hcompa := connectedComponents_connected a.r a.f hn ha hca
  have hcompb := connectedComponents_connected a.r b.f hn hb hcb
  have hsub : isLcEquivalent (subMat a (List.range a.r)) (subMat b (List.range a.r)) mode (draws.headD []) = .ok out := by
    rw [isLcEquivalent_congr (subMat a (List.range a.r)) a (subMat b (List.range a.r)) b mode _ (by simp [subMat])
      (by simp [subMat]; exact hab) ?_ ?_]
    · exact e
    · intro i j hi hj
      have hi' : i < a.r := by simpa [subMat] using hi
      have hj' : j < a.r := by simpa [subMat] using hj
      show a.f ((List.range a.r).getD i 0) ((List.range a.r).getD j 0) = a.f i j
      simp [List.getD, hi', hj']
    · intro i j hi hj
      have hi' : i < a.r := by simpa [subMat] using hi
      have hj' : j < a.r := by simpa [subMat] using hj
      show b.f ((List.range a.r).getD i 0) ((List.range a.r).getD j 0) = b.f i j
      simp [List.getD, hi', hj']
  unfold isLcEquivalentR
  simp only []
  rw [if_neg (by rw [hab]; simp), hcompa, hcompb]
  simp only [ne_eq, not_true_eq_false, if_false, componentLoop, hsub]
  cases hs : out.sol with
  | none => exact ⟨_, rfl, rfl, by simp⟩
  | some q =>
    have hq : q.length = 4 * a.r := by
      have hpos : 0 < (subMat a (List.range a.r)).r := by simp [subMat]; exact hn
      have := (isLcEquivalent_sound_all _ _ mode _ out q hpos hsub hs).1
      simpa [subMat] using this
    simp only []
    refine ⟨_, rfl, ?_, by simp⟩
    show some (scatter (List.replicate (4 * a.r) false) (List.range a.r) q) = some q
    rw [scatter_full a.r q hq]

end Graphiq.LC
