/-
  Proofs/InvDeadTop.lean — `inverse_circuit` equals `inverse_circuit` without its "Eliminate Zs" block on every real
  commuting input (Proofs/InvDead.lean assembled with the bridge `Canon ⟹ Inv1` of Proofs/InvBridge.lean).  All sizes.
-/
import GraphiqModel.Proofs.InvBridge
import GraphiqModel.Proofs.InvDead
namespace Graphiq
open PRow Tab
namespace STab

/-- `inverse_circuit` with the sixth block ("Eliminate Zs") deleted -/
def inverseCircuitNoElim (t : STab) : Except Err (STab × List Gate) :=
  match t.canonicalForm with
  | .error e => .error e
  | .ok t0 =>
    match invBlock1 t0 with
    | .error e => .error e
    | .ok s1 => .ok ((invRestNoElim t0.n s1).t, (invRestNoElim t0.n s1).circ)

/-- on the canonical form of a state: the state before the sixth block is a fixed point of the sixth block -/
theorem canon_eliminateZs_identity (c : STab) (hc : Canon c) (hg : c.Good) (s1 : InvState) (e : invBlock1 c = .ok s1) :
    (pairsLt c.n).foldl invStep6 (invUpTo5 c.n s1) = invUpTo5 c.n s1 ∧ invRest c.n s1 = invRestNoElim c.n s1 := by
  obtain ⟨k, px, hinv⟩ := canon_inv1 c hc hg
  obtain ⟨s1', e1, hn, hg1, hp1⟩ := invBlock1_post c k px hinv
  rw [e] at e1
  injection e1 with e1
  subst e1
  have hl := invBlock1_lowz c k px hinv s1 e
  rw [← hn] at hl ⊢
  exact ⟨eliminateZs_identity s1 hg1 hp1 hl, invRest_eq_noElim s1 hg1 hp1 hl⟩

/-- **deleting the "Eliminate Zs" block does not change `inverse_circuit`** (tableau, gate list and errors) -/
theorem inverseCircuit_eq_noElim (t : STab) (hg : t.Good) : t.inverseCircuit = t.inverseCircuitNoElim := by
  unfold STab.inverseCircuit inverseCircuitNoElim invBlocks
  cases hc : t.canonicalForm with
  | error e => rfl
  | ok t0 =>
    simp only
    cases hb : invBlock1 t0 with
    | error e => rfl
    | ok s1 =>
      simp only
      obtain ⟨_, g0⟩ := canonicalForm_spanEq t t0 hg hc
      rw [(canon_eliminateZs_identity t0 (canonicalForm_canon t t0 hc) g0 s1 hb).2]

end STab
end Graphiq
