/-
  Proofs/LCTotalInv.lean — towards totality of `is_lc_equivalent`: the exact GF(2) inverse of the pivot-column matrix exists.

  The model computes `np.linalg.inv(a) % 2` by Gauss–Jordan elimination (`gf2Inv`) and checks the result to be a two-sided
  inverse.  For an upper unitriangular matrix (1 on the diagonal, 0 below — the pivot columns of an echelon matrix) this
  never fails: `gf2Inv_total`.
-/
import GraphiqModel.Proofs.LCTotalCols
namespace Graphiq.LC
open Graphiq

/-! ### matrix algebra over GF(2), Nat-indexed -/

theorem matMul_assoc (k : Nat) (X Y Z : Adj) (i j : Nat) :
    matMul k (matMul k X Y) Z i j = matMul k X (matMul k Y Z) i j := by
  unfold matMul
  have e1 : ∀ l, l < k → ((parityTo k fun s => X i s && Y s l) && Z l j) = parityTo k fun s => X i s && Y s l && Z l j := by
    intro l _
    rw [← parityTo_const_and]
  rw [parityTo_congr k _ _ e1, parityTo_comm]
  apply parityTo_congr
  intro s _
  rw [← parityTo_and_const]
  apply parityTo_congr
  intro l _
  rw [Bool.and_assoc]

theorem matMul_id_left (k : Nat) (Y : Adj) (i j : Nat) (hi : i < k) : matMul k idM Y i j = Y i j := by
  unfold matMul idM
  rw [parityTo_single_lt k i _ hi (fun l _ hl => by
    have : ¬ i = l := fun e => hl e.symm
    simp [this])]
  simp

theorem matMul_id_right (k : Nat) (X : Adj) (i j : Nat) (hj : j < k) : matMul k X idM i j = X i j := by
  unfold matMul idM
  rw [parityTo_single_lt k j _ hj (fun l _ hl => by simp [hl])]
  simp

theorem matMul_congr_left (k : Nat) (X X' Y : Adj) (i j : Nat) (h : ∀ l, l < k → X i l = X' i l) :
    matMul k X Y i j = matMul k X' Y i j := by
  unfold matMul
  apply parityTo_congr
  intro l hl
  rw [h l hl]

theorem matMul_congr_right (k : Nat) (X Y Y' : Adj) (i j : Nat) (h : ∀ l, l < k → Y l j = Y' l j) :
    matMul k X Y i j = matMul k X Y' i j := by
  unfold matMul
  apply parityTo_congr
  intro l hl
  rw [h l hl]

theorem matMul_xor_left (k : Nat) (P Q Y : Adj) (i j : Nat) :
    matMul k (fun a b => xor (P a b) (Q a b)) Y i j = xor (matMul k P Y i j) (matMul k Q Y i j) := by
  unfold matMul
  rw [← parityTo_xor]
  apply parityTo_congr
  intro l _
  show (xor (P i l) (Q i l) && Y l j) = xor (P i l && Y l j) (Q i l && Y l j)
  cases P i l <;> cases Q i l <;> cases Y l j <;> rfl

/-- upper unitriangular: 1 on the diagonal, 0 below it -/
structure UpperUni (k : Nat) (A : Adj) : Prop where
  diag : ∀ i, i < k → A i i = true
  low : ∀ i j, j < i → i < k → A i j = false

/-- `D · A = 0` with `A` upper unitriangular forces `D = 0` (forward substitution along the columns) -/
theorem zero_of_mul_upperUni (k : Nat) (A D : Adj) (hA : UpperUni k A)
    (h : ∀ i j, i < k → j < k → matMul k D A i j = false) : ∀ i j, i < k → j < k → D i j = false := by
  intro i j hi
  induction j using Nat.strongRecOn with
  | _ j ih =>
    intro hj
    have := h i j hi hj
    unfold matMul at this
    rw [parityTo_single_lt k j _ hj (fun l hl hne => by
      rcases Nat.lt_or_ge l j with h1 | h1
      · rw [ih l h1 (by omega)]; rfl
      · rw [hA.low l j (by omega) hl]; simp)] at this
    rw [hA.diag j hj] at this
    simpa using this

/-- **a left inverse of an upper unitriangular matrix is a right inverse** -/
theorem right_inverse_of_left (k : Nat) (A T : Adj) (hA : UpperUni k A)
    (h : ∀ i j, i < k → j < k → matMul k T A i j = decide (i = j)) :
    ∀ i j, i < k → j < k → matMul k A T i j = decide (i = j) := by
  have hz := zero_of_mul_upperUni k A (fun a b => xor (matMul k A T a b) (idM a b)) hA (by
    intro i j hi hj
    rw [matMul_xor_left, matMul_assoc, matMul_id_left k A i j hi]
    have : matMul k A (matMul k T A) i j = matMul k A idM i j :=
      matMul_congr_right k A _ _ i j (fun l hl => by rw [h l j hl hj]; rfl)
    rw [this, matMul_id_right k A i j hj]
    simp)
  intro i j hi hj
  have := hz i j hi hj
  unfold idM at this
  revert this
  cases matMul k A T i j <;> cases decide (i = j) <;> simp

/-! ### Gauss–Jordan on an upper unitriangular matrix -/

theorem filter_eq_singleton (k c : Nat) (hc : c < k) : (List.range k).filter (fun i => decide (i = c)) = [c] := by
  induction k with
  | zero => omega
  | succ k ih =>
    rw [List.range_succ, List.filter_append]
    by_cases e : c = k
    · subst e
      have : (List.range c).filter (fun i => decide (i = c)) = [] := by
        rw [List.filter_eq_nil_iff]
        intro i hi
        have := List.mem_range.mp hi
        simp; omega
      rw [this]; simp
    · rw [ih (by omega)]
      have : ¬ k = c := fun h => e h.symm
      simp [this]

/-- the state of the elimination after the columns `< c`: `M` is still upper unitriangular, its first `c` columns are unit
    columns, and `T · A = M` -/
structure GJ (k : Nat) (A : Adj) (c : Nat) (M T : BMat) : Prop where
  mr : M.r = k
  mc : M.c = k
  tr : T.r = k
  tc : T.c = k
  uni : UpperUni k M.f
  unit : ∀ i j, i < j → j < c → j < k → M.f i j = false
  prod : ∀ i j, i < k → j < k → matMul k T.f A i j = M.f i j

theorem rowSwap_self (m : BMat) (c i j : Nat) : (rowSwap m c c).f i j = m.f i j := by
  show (if i = c then m.f c j else if i = c then m.f c j else m.f i j) = m.f i j
  by_cases e : i = c
  · subst e; simp
  · simp [e]

/-- one column of the elimination never fails on an upper unitriangular matrix and keeps the invariant -/
theorem gjColumn_step (k : Nat) (A : Adj) (c : Nat) (M T : BMat) (h : GJ k A c M T) (hc : c < k) :
    ∃ M' T', gjColumn (.ok (M, T)) c = .ok (M', T') ∧ GJ k A (c + 1) M' T' := by
  have hones : theOnes M c c = [c] := by
    unfold theOnes
    rw [h.mr, ← filter_eq_singleton k c hc]
    apply List.filter_congr
    intro i hi
    have hi' := List.mem_range.mp hi
    by_cases e : i = c
    · subst e; simp [h.uni.diag i hi']
    · by_cases hlt : c ≤ i
      · have : M.f i c = false := h.uni.low i c (by omega) hi'
        simp [e, this]
      · simp [e, hlt]
  -- the rows that get the pivot row added: the rows above `c` with a 1 in column `c`
  let others := (List.range M.r).filter fun i => decide (i ≠ c) && (rowSwap M c c).f i c
  have hmem : ∀ i, i ∈ others ↔ i < k ∧ i ≠ c ∧ M.f i c = true := by
    intro i
    simp only [others, List.mem_filter, List.mem_range, Bool.and_eq_true, decide_eq_true_eq, rowSwap_self, h.mr]
  have hlt : ∀ i, i ∈ others → i < c := by
    intro i hi
    obtain ⟨h1, h2, h3⟩ := (hmem i).mp hi
    rcases Nat.lt_or_ge i c with h4 | h4
    · exact h4
    · rw [h.uni.low i c (by omega) h1] at h3; cases h3
  have hnd : others.Nodup := List.Nodup.sublist List.filter_sublist List.nodup_range
  have hcn : c ∉ others := fun hh => by have := hlt c hh; omega
  have hM' : ∀ i j, i < k → j < k →
      ((others.foldl (fun acc i => addRows acc c i) (rowSwap M c c)).norm).f i j =
        if i ∈ others then xor (M.f c j) (M.f i j) else M.f i j := by
    intro i j hi hj
    rw [BMat.norm_agree _ i j (by rw [(foldAdd_dims _ c others).1]; simp [h.mr]; exact hi)
      (by rw [(foldAdd_dims _ c others).2]; simp [h.mc]; exact hj)]
    rw [foldAdd_entry _ c others i j hnd hcn, rowSwap_self, rowSwap_self]
  have hT' : ∀ i j, i < k → j < k →
      ((others.foldl (fun acc i => addRows acc c i) (rowSwap T c c)).norm).f i j =
        if i ∈ others then xor (T.f c j) (T.f i j) else T.f i j := by
    intro i j hi hj
    rw [BMat.norm_agree _ i j (by rw [(foldAdd_dims _ c others).1]; simp [h.tr]; exact hi)
      (by rw [(foldAdd_dims _ c others).2]; simp [h.tc]; exact hj)]
    rw [foldAdd_entry _ c others i j hnd hcn, rowSwap_self, rowSwap_self]
  refine ⟨(others.foldl (fun acc i => addRows acc c i) (rowSwap M c c)).norm,
    (others.foldl (fun acc i => addRows acc c i) (rowSwap T c c)).norm, by unfold gjColumn; simp only [hones]; try rfl, ?_⟩
  refine ⟨?_, ?_, ?_, ?_, ⟨?_, ?_⟩, ?_, ?_⟩
  · simp [(foldAdd_dims _ c others).1, h.mr]
  · simp [(foldAdd_dims _ c others).2, h.mc]
  · simp [(foldAdd_dims _ c others).1, h.tr]
  · simp [(foldAdd_dims _ c others).2, h.tc]
  · intro i hi
    rw [hM' i i hi hi]
    by_cases ho : i ∈ others
    · rw [if_pos ho, h.uni.low c i (hlt i ho) hc, h.uni.diag i hi]; rfl
    · rw [if_neg ho]; exact h.uni.diag i hi
  · intro i j hji hi
    rw [hM' i j hi (by omega)]
    by_cases ho : i ∈ others
    · rw [if_pos ho, h.uni.low c j (by have := hlt i ho; omega) hc, h.uni.low i j hji hi]; rfl
    · rw [if_neg ho]; exact h.uni.low i j hji hi
  · intro i j hij hjc hjk
    rw [hM' i j (by omega) hjk]
    by_cases e : j = c
    · subst e
      by_cases ho : i ∈ others
      · rw [if_pos ho, h.uni.diag j hjk, ((hmem i).mp ho).2.2]; rfl
      · rw [if_neg ho]
        cases hx : M.f i j
        · rfl
        · exact absurd ((hmem i).mpr ⟨by omega, by omega, hx⟩) ho
    · have hjc' : j < c := by omega
      by_cases ho : i ∈ others
      · rw [if_pos ho, h.uni.low c j hjc' hc, h.unit i j hij hjc' hjk]; rfl
      · rw [if_neg ho]; exact h.unit i j hij hjc' hjk
  · intro i j hi hj
    rw [hM' i j hi hj]
    by_cases ho : i ∈ others
    · rw [if_pos ho, ← h.prod c j hc hj, ← h.prod i j hi hj]
      unfold matMul
      rw [← parityTo_xor]
      apply parityTo_congr
      intro l hl
      rw [hT' i l hi hl, if_pos ho]
      cases T.f c l <;> cases T.f i l <;> cases A l j <;> rfl
    · rw [if_neg ho, ← h.prod i j hi hj]
      apply matMul_congr_left
      intro l hl
      rw [hT' i l hi hl, if_neg ho]

theorem gj_fold (k : Nat) (A : Adj) (M0 T0 : BMat) (h0 : GJ k A 0 M0 T0) (c : Nat) (hc : c ≤ k) :
    ∃ M T, (List.range c).foldl gjColumn (.ok (M0, T0)) = .ok (M, T) ∧ GJ k A c M T := by
  induction c with
  | zero => exact ⟨M0, T0, rfl, h0⟩
  | succ c ih =>
    obtain ⟨M, T, e, hg⟩ := ih (by omega)
    obtain ⟨M', T', e', hg'⟩ := gjColumn_step k A c M T hg (by omega)
    refine ⟨M', T', ?_, hg'⟩
    rw [List.range_succ, List.foldl_append, e]
    exact e'

/-- **the exact inverse of an upper unitriangular matrix exists**: `gf2Inv` (Gauss–Jordan with the final two-sided check)
    returns on every square matrix with 1 on the diagonal and 0 below it -/
theorem gf2Inv_total (a : BMat) (hsq : a.r = a.c) (hA : UpperUni a.r a.f) : ∃ ainv, gf2Inv a = .ok ainv := by
  have h0 : GJ a.r a.f 0 a.norm (identM a.r).norm := by
    refine ⟨rfl, by simp [hsq], rfl, rfl, ⟨?_, ?_⟩, fun i j _ hj _ => by omega, ?_⟩
    · intro i hi
      rw [BMat.norm_agree a i i hi (by omega)]; exact hA.diag i hi
    · intro i j hji hi
      rw [BMat.norm_agree a i j hi (by omega)]; exact hA.low i j hji hi
    · intro i j hi hj
      rw [BMat.norm_agree a i j hi (by omega)]
      have : matMul a.r (identM a.r).norm.f a.f i j = matMul a.r idM a.f i j :=
        matMul_congr_left a.r _ _ _ i j (fun l hl => BMat.norm_agree (identM a.r) i l hi hl)
      rw [this, matMul_id_left a.r a.f i j hi]
  obtain ⟨M, T, e, hg⟩ := gj_fold a.r a.f a.norm (identM a.r).norm h0 a.r (Nat.le_refl _)
  have hI : ∀ i j, i < a.r → j < a.r → M.f i j = decide (i = j) := by
    intro i j hi hj
    rcases Nat.lt_trichotomy i j with h | h | h
    · rw [hg.unit i j h hj hj]
      have : ¬ i = j := by omega
      simp [this]
    · subst h; rw [hg.uni.diag i hi]; simp
    · rw [hg.uni.low i j h hi]
      have : ¬ i = j := by omega
      simp [this]
  have hleft : ∀ i j, i < a.r → j < a.r → matMul a.r T.f a.f i j = decide (i = j) := by
    intro i j hi hj
    rw [hg.prod i j hi hj, hI i j hi hj]
  have hright := right_inverse_of_left a.r a.f T.f hA hleft
  have hcheck : isInverse a.r T.f a.f = true := by
    unfold isInverse
    rw [List.all_eq_true]
    intro i hi
    rw [List.all_eq_true]
    intro j hj
    have hi' := List.mem_range.mp hi
    have hj' := List.mem_range.mp hj
    rw [hleft i j hi' hj', hright i j hi' hj']
    simp [idM]
  refine ⟨{ r := a.r, c := a.r, f := T.f }, ?_⟩
  unfold gf2Inv
  rw [if_neg (by simp [hsq]), e]
  simp only [hcheck, if_true]

end Graphiq.LC
